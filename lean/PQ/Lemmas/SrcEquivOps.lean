import PQ.Lemmas.SrcEquivStore
import PQ.Lemmas.SrcEquivDQ
/-!
# Source-translated tie, phase 4 (part): public wrappers that need no item / `Option<P>` values in the IR

`PriorityQueue::{pop, remove}`, `DoublePriorityQueue::{find_min, pop_min, pop_max, remove}`.
The results of `Store::swap_remove` / `Store::remove` (which contain an item and a priority) are passed through
value registers untouched.
-/
set_option linter.unusedSimpArgs false
set_option linter.unusedSectionVars false
namespace PQ.SrcEquiv
open PQ PQ.Src PQ.SrcGen

variable {P : Type} [LT P] [DecidableLT P]

theorem call_storeSwapRemove (s : Store P) (pos n : Nat) :
    callWith (exec prog (n + 1)) prog .storeSwapRemove s [pos] [] []
      = (fun r => (r.1, Val.optEntry r.2)) <$> s.swapRemove pos :=
  storeSwapRemove s pos (n + 1) (by omega)

theorem call_storeRemove (s : Store P) (k n : Nat) :
    callWith (exec prog (n + 1)) prog .storeRemove s [k] [] []
      = (fun r => (r.1, Val.optRemoved r.2)) <$> s.remove k :=
  storeRemove s k (n + 1) (by omega)

theorem decC_post (x site : Nat) : Post (decC x site) (fun y => y + 1 = x) := by
  unfold decC
  split
  · intro b hb; cases hb
  · intro b hb; cases hb; omega

theorem swapRemove_post_size (s : Store P) (pos : Nat) :
    Post (s.swapRemove pos) (fun r => r.1.size + 1 = s.size) := by
  unfold Store.swapRemove
  refine Post.bind (Post.triv _) fun x _ => Post.bind (decC_post _ _) fun size hsz => ?_
  repeat' (first
    | exact Post.pure hsz
    | (refine Post.bind (Post.triv _) fun _ _ => ?_)
    | (refine Post.ite (fun _ => ?_) (fun _ => ?_))
    | split
    | (dsimp only))

theorem remove_post_size (s : Store P) (k : Nat) :
    Post (s.remove k) (fun r => ∀ x, r.2 = some x → r.1.size + 1 = s.size) := by
  unfold Store.remove
  split
  · exact Post.pure (fun x hx => by cases hx)
  · refine Post.bind (decC_post _ _) fun size hsz => ?_
    repeat' (first
      | exact Post.pure (fun _ _ => hsz)
      | (refine Post.bind (Post.triv _) fun _ _ => ?_)
      | (refine Post.ite (fun _ => ?_) (fun _ => ?_))
      | split
      | (dsimp only))

/-! ## `DoublePriorityQueue::find_min` -/

/-- `DoublePriorityQueue::find_min` = `DQ.findMin` -/
theorem dqFindMin (s : Store P) (fuel : Nat) (h : fuel ≥ 1) :
    Src.run SrcGen.prog fuel .dqFindMin s [] = pure (s, Val.optNat (DQ.findMin s)) := by
  obtain ⟨n, rfl⟩ : ∃ n, fuel = n + 1 := ⟨fuel - 1, by omega⟩
  src_enter [prog, SrcGen.dqFindMin]
  unfold DQ.findMin
  by_cases h0 : s.size = 0
  · src_eval [dqFindMin_body, h0]
  · src_eval [dqFindMin_body, h0]

theorem call_dqFindMin (s : Store P) (n : Nat) :
    callWith (exec prog (n + 1)) prog .dqFindMin s [] [] [] = pure (s, Val.optNat (DQ.findMin s)) :=
  dqFindMin s (n + 1) (by omega)

theorem call_dqFindMax (s : Store P) (n : Nat) :
    callWith (exec prog (n + 2)) prog .dqFindMax s [] [] [] = (fun r => (r.1, Val.optNat r.2)) <$> DQ.findMax s :=
  dqFindMax s (n + 2) (by omega)

/-! ## `PriorityQueue::pop` -/

/-- `PriorityQueue::pop` = `MaxQ.pop` -/
theorem pqPop (s : Store P) (fuel : Nat) (h : fuel ≥ s.size + 3) :
    Src.run SrcGen.prog fuel .pqPop s [] = (fun r => (r.1, Val.optEntry r.2)) <$> MaxQ.pop s := by
  obtain ⟨k, rfl⟩ : ∃ k, fuel = k + 2 := ⟨fuel - 2, by omega⟩
  src_enter [prog, SrcGen.pqPop]
  unfold MaxQ.pop
  obtain h0 | h1 | ⟨n, hn⟩ : s.size = 0 ∨ s.size = 1 ∨ ∃ n, s.size = n + 2 := by
    by_cases h0 : s.size = 0
    · exact Or.inl h0
    by_cases h1 : s.size = 1
    · exact Or.inr (Or.inl h1)
    exact Or.inr (Or.inr ⟨s.size - 2, by omega⟩)
  · src_eval [pqPop_body, h0]
  · src_eval [pqPop_body, h1, call_storeSwapRemove]
  · src_eval [pqPop_body, hn, call_storeSwapRemove]
    refine bind_congr_ok fun r hr => ?_
    have hsz := swapRemove_post_size s 0 r hr
    rw [call_pqHeapify _ _ _ (by simp only at hsz; omega)]
    src_eval

/-! ## `PriorityQueue::remove` -/

theorem call_pqUpHeapify (s : Store P) (i n : Nat) (h : n ≥ s.size + min i s.heap.size + 3) :
    callWith (exec prog n) prog .pqUpHeapify s [i] [] [] = (fun s' => (s', Val.unit)) <$> MaxQ.upHeapify s i :=
  pqUpHeapify s i n h

/-- `PriorityQueue::remove` = `MaxQ.remove` -/
theorem pqRemove (s : Store P) (k : Nat) (fuel : Nat) (h : fuel ≥ 2 * s.size + 4) :
    Src.run SrcGen.prog fuel .pqRemove s [k] = (fun r => (r.1, Val.optEntry r.2)) <$> MaxQ.remove s k := by
  obtain ⟨n, rfl⟩ : ∃ n, fuel = n + 2 := ⟨fuel - 2, by omega⟩
  src_enter [prog, SrcGen.pqRemove]
  unfold MaxQ.remove
  src_eval [pqRemove_body, call_storeRemove]
  refine bind_congr_ok fun r hr => ?_
  have hsz := remove_post_size s k r hr
  obtain ⟨s', res⟩ := r
  cases res with
  | none => src_eval
  | some x =>
    obtain ⟨it, p, pos⟩ := x
    have hsz' := hsz _ rfl
    simp only at hsz'
    src_eval
    by_cases hlt : pos < s'.size
    · simp only [hlt, ↓reduceIte]
      rw [call_pqUpHeapify _ _ _ (by omega)]
      src_eval
    · simp only [hlt, ↓reduceIte]

/-! ## `DoublePriorityQueue::{pop_min, pop_max, remove}` -/

/-- `DoublePriorityQueue::pop_min` = `DQ.popMin` -/
theorem dqPopMin (s : Store P) (fuel : Nat) (h : fuel ≥ s.size + 4) :
    Src.run SrcGen.prog fuel .dqPopMin s [] = (fun r => (r.1, Val.optEntry r.2)) <$> DQ.popMin s := by
  obtain ⟨k, rfl⟩ : ∃ k, fuel = k + 2 := ⟨fuel - 2, by omega⟩
  src_enter [prog, SrcGen.dqPopMin]
  unfold DQ.popMin
  src_eval [dqPopMin_body, call_dqFindMin]
  cases hf : DQ.findMin s with
  | none => src_eval
  | some i =>
    src_eval [call_storeSwapRemove]
    refine bind_congr_ok fun r hr => ?_
    have hsz := swapRemove_post_size s i r hr
    rw [call_dqHeapify _ _ _ (by simp only at hsz; omega)]
    src_eval

theorem findMax_post_size (s : Store P) : Post (DQ.findMax s) (fun r => r.1.size = s.size) := by
  unfold DQ.findMax
  split
  · exact Post.pure rfl
  · exact Post.pure rfl
  · exact Post.pure rfl
  · exact Post.bind (Post.triv _) fun _ _ => Post.bind (Post.triv _) fun _ _ => Post.pure rfl

/-- `DoublePriorityQueue::pop_max` = `DQ.popMax` -/
theorem dqPopMax (s : Store P) (fuel : Nat) (h : fuel ≥ s.size + 4) :
    Src.run SrcGen.prog fuel .dqPopMax s [] = (fun r => (r.1, Val.optEntry r.2)) <$> DQ.popMax s := by
  obtain ⟨k, rfl⟩ : ∃ k, fuel = k + 3 := ⟨fuel - 3, by omega⟩
  src_enter [prog, SrcGen.dqPopMax]
  unfold DQ.popMax
  src_eval [dqPopMax_body, call_dqFindMax]
  refine bind_congr_ok fun fm hfm => ?_
  obtain ⟨s1, res⟩ := fm
  have hs1 : s1.size = s.size := findMax_post_size s _ hfm
  cases res with
  | none => src_eval
  | some i =>
    src_eval [call_storeSwapRemove]
    refine bind_congr_ok fun r hr => ?_
    have hsz := swapRemove_post_size s1 i r hr
    rw [call_dqHeapify _ _ _ (by simp only at hsz; omega)]
    src_eval

theorem call_dqUpHeapify (s : Store P) (i n : Nat) (h : n ≥ s.size + min i s.heap.size + 4) :
    callWith (exec prog n) prog .dqUpHeapify s [i] [] [] = (fun s' => (s', Val.unit)) <$> DQ.upHeapify s i :=
  dqUpHeapify s i n h

/-- `DoublePriorityQueue::remove` = `DQ.remove` -/
theorem dqRemove (s : Store P) (k : Nat) (fuel : Nat) (h : fuel ≥ 2 * s.size + 5) :
    Src.run SrcGen.prog fuel .dqRemove s [k] = (fun r => (r.1, Val.optEntry r.2)) <$> DQ.remove s k := by
  obtain ⟨n, rfl⟩ : ∃ n, fuel = n + 2 := ⟨fuel - 2, by omega⟩
  src_enter [prog, SrcGen.dqRemove]
  unfold DQ.remove
  src_eval [dqRemove_body, call_storeRemove]
  refine bind_congr_ok fun r hr => ?_
  have hsz := remove_post_size s k r hr
  obtain ⟨s', res⟩ := r
  cases res with
  | none => src_eval
  | some x =>
    obtain ⟨it, p, pos⟩ := x
    have hsz' := hsz _ rfl
    simp only at hsz'
    src_eval
    by_cases hlt : pos < s'.size
    · simp only [hlt, ↓reduceIte]
      rw [call_dqUpHeapify _ _ _ (by omega)]
      src_eval
    · simp only [hlt, ↓reduceIte]

end PQ.SrcEquiv
