import PQ.Props.C14
/-!
# Equality of queues for a priority type whose `==` is coarser than identity (all lemma names carry the prefix `eqvBy_`)

Rust: `impl PartialEq for Store` (src/store.rs) is `self.map == other.map`; IndexMap's `==` is order-insensitive (same
length, and every entry of the left is found by key in the right with an equal VALUE) and compares the values with the
priority type's own `PartialEq` — which need not be identity (the correspondence harness's `Pri` carries a tag that takes
no part in `Eq`/`Ord`).  The model's `IMap.eqv` compares priorities with Lean's `=`.

`IMap.eqvBy peq` is `IMap.eqv` with the priority comparison `peq : P → P → Bool` as a parameter.  This file proves

* `eqvBy_decide_eq`: with `peq := (decide (· = ·))` it IS `IMap.eqv`;
* `eqvBy_iff`: on duplicate-free maps, for ANY `peq`: equal iff same length and every key is bound on both sides or on
  neither, with `peq`-related priorities (slot order, `heap`, `qp`, payloads take no part);
* `eqvBy_refl` / `eqvBy_symm` / `eqvBy_trans`: reflexive / symmetric / transitive whenever `peq` is (with the exact
  hypotheses: reflexivity only on the stored priorities and unique keys; symmetry needs unique keys on both sides;
  transitivity needs no hypothesis on the maps at all);
* `eqvBy_norm`: if `peq x y = decide (norm x = norm y)` then `eqvBy peq a b = eqv (norm-ed a) (norm-ed b)`: comparing
  normal forms with `=` — what the differential driver does — is comparing with the coarser `==`.
-/
namespace PQ
open IMap
variable {P : Type}

/-- IndexMap equality with the value comparison `peq` (Rust: the priority type's `PartialEq::eq`): same length and
every entry of the left is found by key in the right with a `peq`-equal priority -/
def IMap.eqvBy (peq : P → P → Bool) (a b : IMap P) : Bool :=
  a.size == b.size && a.all fun e =>
    match getFull b e.1.key with
    | some (_, _, q) => peq e.2 q
    | none => false

/-- `PartialEq for Store` with the priority comparison `peq`: compares the maps only -/
def Store.eqvBy (peq : P → P → Bool) (a b : Store P) : Bool := IMap.eqvBy peq a.map b.map

/-- what `eqvBy_iff` says about one key: bound on both sides with `peq`-related priorities, or on neither -/
def IMap.keyAgrees (peq : P → P → Bool) (a b : IMap P) (k : Nat) : Bool :=
  match lookup a k, lookup b k with
  | some x, some y => peq x.2 y.2
  | none, none => true
  | _, _ => false

/-- **with identity as the comparison, `eqvBy` is the model's `eqv`** (so every C14 theorem is the instance
`peq := (· = ·)` of the theorems below) -/
theorem eqvBy_decide_eq [DecidableEq P] : IMap.eqvBy (fun x y : P => decide (x = y)) = IMap.eqv := rfl

theorem eqvBy_store_decide_eq [DecidableEq P] : Store.eqvBy (fun x y : P => decide (x = y)) = Store.eqv := rfl

/-- `eqvBy` unfolded: same size, and every entry of the left has its key bound on the right to an entry with a
`peq`-equal priority (no hypothesis on the maps) -/
theorem eqvBy_iff_forall {peq : P → P → Bool} {a b : IMap P} :
    IMap.eqvBy peq a b = true ↔
      a.size = b.size ∧
        ∀ (i : Nat) (e : Item × P), a[i]? = some e → ∃ x, lookup b e.1.key = some x ∧ peq e.2 x.2 = true := by
  unfold IMap.eqvBy
  rw [Bool.and_eq_true, beq_iff_eq, Array.all_eq_true_iff_forall_mem]
  have hentry : ∀ e : Item × P,
      ((match getFull b e.1.key with
        | some (_, _, q) => peq e.2 q
        | none => false) = true) ↔ ∃ x, lookup b e.1.key = some x ∧ peq e.2 x.2 = true := by
    intro e
    rw [← getFull_map_eq_lookup]
    cases getFull b e.1.key with
    | none => simp
    | some r =>
      obtain ⟨i, it, q⟩ := r
      simp
  constructor
  · rintro ⟨hs, hall⟩
    exact ⟨hs, fun i e he => (hentry e).1 (hall e (Array.mem_iff_getElem?.2 ⟨i, he⟩))⟩
  · rintro ⟨hs, hall⟩
    refine ⟨hs, fun e he => ?_⟩
    obtain ⟨i, hi⟩ := Array.mem_iff_getElem?.1 he
    exact (hentry e).2 (hall i e hi)

/-- the keys of the left occur on the right -/
theorem eqvBy_keys_subset {peq : P → P → Bool} {a b : IMap P} (h : IMap.eqvBy peq a b = true) :
    IMap.keys a ⊆ IMap.keys b := by
  obtain ⟨_, hall⟩ := eqvBy_iff_forall.1 h
  intro k hk
  obtain ⟨i, e, he, rfl⟩ := IMap.mem_keys_iff.1 hk
  obtain ⟨x, hx, _⟩ := hall i e he
  rw [IMap.mem_keys_iff_lookup, hx]; rfl

/-- **equality is equality of contents up to `peq`** (map level): on maps with unique keys, for ANY comparison `peq`, the
crate's `==` answers `true` iff the two maps have the same length and every key is bound on both sides with
`peq`-related priorities or on neither side.  Nothing else (slot order, payloads of the items, `heap`/`qp`) matters. -/
theorem eqvBy_iff {peq : P → P → Bool} {a b : IMap P} (ha : NoDupKeys a) (hb : NoDupKeys b) :
    IMap.eqvBy peq a b = true ↔ a.size = b.size ∧ ∀ k,
      (match lookup a k, lookup b k with
        | some x, some y => peq x.2 y.2
        | none, none => true
        | _, _ => false) = true := by
  have nda : (IMap.keys a).Nodup := noDupKeys_iff_nodup.1 ha
  have ndb : (IMap.keys b).Nodup := noDupKeys_iff_nodup.1 hb
  constructor
  · intro h
    obtain ⟨hs, hall⟩ := eqvBy_iff_forall.1 h
    refine ⟨hs, fun k => ?_⟩
    have hsub' : IMap.keys b ⊆ IMap.keys a :=
      (C14_aux_pigeonhole nda (eqvBy_keys_subset h)).2 ndb
        (by rw [IMap.length_keys, IMap.length_keys, hs]; exact Nat.le_refl _)
    cases hla : lookup a k with
    | some e =>
      obtain ⟨i, he, hk⟩ := (lookup_eq_some_iff ha).1 hla
      obtain ⟨x, hx, hp⟩ := hall i e he
      rw [hk] at hx
      simp only [hx]; exact hp
    | none =>
      cases hlb : lookup b k with
      | none => rfl
      | some x =>
        have : k ∈ IMap.keys b := by rw [IMap.mem_keys_iff_lookup, hlb]; rfl
        have := hsub' this
        rw [IMap.mem_keys_iff_lookup, hla] at this
        cases this
  · rintro ⟨hs, h⟩
    refine eqvBy_iff_forall.2 ⟨hs, fun i e he => ?_⟩
    have hk := h e.1.key
    rw [lookup_of_getElem? ha he] at hk
    cases hlb : lookup b e.1.key with
    | none => simp [hlb] at hk
    | some y => exact ⟨y, rfl, by simpa [hlb] using hk⟩

/-- the same with the per-key condition as a named Boolean function -/
theorem eqvBy_iff_keyAgrees {peq : P → P → Bool} {a b : IMap P} (ha : NoDupKeys a) (hb : NoDupKeys b) :
    IMap.eqvBy peq a b = true ↔ a.size = b.size ∧ ∀ k, IMap.keyAgrees peq a b k = true :=
  eqvBy_iff ha hb

/-- **… for well-formed queues** -/
theorem eqvBy_store_iff {peq : P → P → Bool} {s t : Store P} (hs : s.WF) (ht : t.WF) :
    Store.eqvBy peq s t = true ↔ s.map.size = t.map.size ∧ ∀ k, IMap.keyAgrees peq s.map t.map k = true :=
  eqvBy_iff hs.nodup ht.nodup

/-! ## Reflexive / symmetric / transitive whenever `peq` is -/

/-- **reflexivity**: a map with unique keys is `==` to itself iff `peq` is reflexive on the priorities it stores (in
Rust: `P: Eq`, which `P: Ord` demands).  Unique keys are necessary (`C14_refl_needs_noDup`). -/
theorem eqvBy_refl_iff {peq : P → P → Bool} {a : IMap P} (ha : NoDupKeys a) :
    IMap.eqvBy peq a a = true ↔ ∀ (i : Nat) (e : Item × P), a[i]? = some e → peq e.2 e.2 = true := by
  rw [eqvBy_iff_forall]
  constructor
  · rintro ⟨_, hall⟩ i e he
    obtain ⟨x, hx, hp⟩ := hall i e he
    rw [lookup_of_getElem? ha he] at hx; cases hx
    exact hp
  · intro h
    exact ⟨rfl, fun i e he => ⟨e, lookup_of_getElem? ha he, h i e he⟩⟩

theorem eqvBy_refl {peq : P → P → Bool} (hrefl : ∀ x, peq x x = true) {a : IMap P} (ha : NoDupKeys a) :
    IMap.eqvBy peq a a = true :=
  (eqvBy_refl_iff ha).2 fun _ e _ => hrefl e.2

/-- **symmetry**: with unique keys on both sides and a symmetric `peq` (only needed on pairs of priorities stored
under the same key, left one in `a`, right one in `b`) -/
theorem eqvBy_symm {peq : P → P → Bool} {a b : IMap P} (ha : NoDupKeys a) (hb : NoDupKeys b)
    (hsymm : ∀ k x y, lookup a k = some x → lookup b k = some y → peq x.2 y.2 = true → peq y.2 x.2 = true)
    (h : IMap.eqvBy peq a b = true) : IMap.eqvBy peq b a = true := by
  obtain ⟨hs, hk⟩ := (eqvBy_iff ha hb).1 h
  refine (eqvBy_iff hb ha).2 ⟨hs.symm, fun k => ?_⟩
  have := hk k
  cases hla : lookup a k with
  | none =>
    cases hlb : lookup b k with
    | none => rfl
    | some y => simp [hla, hlb] at this
  | some x =>
    cases hlb : lookup b k with
    | none => simp [hla, hlb] at this
    | some y =>
      simp only [hla, hlb] at this ⊢
      exact hsymm k x y hla hlb this

/-- symmetry as an equation between the two Boolean answers, for a symmetric `peq` -/
theorem eqvBy_symm_eq {peq : P → P → Bool} (hsymm : ∀ x y, peq x y = true → peq y x = true) {a b : IMap P}
    (ha : NoDupKeys a) (hb : NoDupKeys b) : IMap.eqvBy peq a b = IMap.eqvBy peq b a := by
  rw [Bool.eq_iff_iff]
  exact ⟨eqvBy_symm ha hb (fun _ x y _ _ => hsymm x.2 y.2), eqvBy_symm hb ha (fun _ x y _ _ => hsymm x.2 y.2)⟩

/-- **transitivity**: for a transitive `peq`; NO hypothesis on the maps (the "every left entry is found on the right"
relation composes as it is) -/
theorem eqvBy_trans {peq : P → P → Bool} (htrans : ∀ x y z, peq x y = true → peq y z = true → peq x z = true)
    {a b c : IMap P} (hab : IMap.eqvBy peq a b = true) (hbc : IMap.eqvBy peq b c = true) :
    IMap.eqvBy peq a c = true := by
  obtain ⟨hs1, h1⟩ := eqvBy_iff_forall.1 hab
  obtain ⟨hs2, h2⟩ := eqvBy_iff_forall.1 hbc
  refine eqvBy_iff_forall.2 ⟨hs1.trans hs2, fun i e he => ?_⟩
  obtain ⟨x, hx, hp⟩ := h1 i e he
  obtain ⟨⟨j, hj⟩, hkx⟩ := lookup_some hx
  obtain ⟨y, hy, hq⟩ := h2 j x hj
  rw [hkx] at hy
  exact ⟨y, hy, htrans _ _ _ hp hq⟩

/-- **`==` on well-formed queues is an equivalence relation whenever the priority type's `==` is** -/
theorem eqvBy_store_equivalence {peq : P → P → Bool} (hrefl : ∀ x, peq x x = true)
    (hsymm : ∀ x y, peq x y = true → peq y x = true)
    (htrans : ∀ x y z, peq x y = true → peq y z = true → peq x z = true) :
    (∀ s : Store P, s.WF → Store.eqvBy peq s s = true) ∧
    (∀ s t : Store P, s.WF → t.WF → Store.eqvBy peq s t = true → Store.eqvBy peq t s = true) ∧
    (∀ s t u : Store P, Store.eqvBy peq s t = true → Store.eqvBy peq t u = true → Store.eqvBy peq s u = true) :=
  ⟨fun _ hs => eqvBy_refl hrefl hs.nodup,
   fun _ _ hs ht h => eqvBy_symm hs.nodup ht.nodup (fun _ x y _ _ => hsymm x.2 y.2) h,
   fun _ _ _ h1 h2 => eqvBy_trans htrans h1 h2⟩

/-! ## Normal forms -/

/-- replace every priority by its normal form (items and slot order unchanged) -/
def IMap.normBy (norm : P → P) (m : IMap P) : IMap P := m.map fun e => (e.1, norm e.2)

theorem eqvBy_lookup_normBy (norm : P → P) (m : IMap P) (k : Nat) :
    lookup (IMap.normBy norm m) k = (lookup m k).map fun e => (e.1, norm e.2) := by
  unfold lookup IMap.normBy
  rw [Array.toList_map, List.find?_map]
  rfl

/-- **comparing normal forms with `=` is comparing with the coarser `==`**: if the priority type's `==` is "equal normal
forms" (`peq x y = decide (norm x = norm y)`), then the crate's `==` on two maps is the model's `IMap.eqv` (which uses
`=`) on the maps with every priority normalised.  No hypothesis on the maps.  This is the fact the differential driver
relies on when it prints `Store.eqv (nm s) (nm o)` for the crate's `s == o`. -/
theorem eqvBy_norm [DecidableEq P] {peq : P → P → Bool} {norm : P → P}
    (hpeq : ∀ x y, peq x y = decide (norm x = norm y)) (a b : IMap P) :
    IMap.eqvBy peq a b = IMap.eqv (a.map fun e => (e.1, norm e.2)) (b.map fun e => (e.1, norm e.2)) := by
  rw [Bool.eq_iff_iff, eqvBy_iff_forall, IMap.eqv_iff_forall]
  simp only [Array.size_map, Array.getElem?_map]
  have hl := eqvBy_lookup_normBy norm b
  unfold IMap.normBy at hl
  constructor
  · rintro ⟨hs, hall⟩
    refine ⟨hs, fun i e he => ?_⟩
    obtain ⟨e0, he0, rfl⟩ := Option.map_eq_some_iff.1 he
    obtain ⟨x, hx, hp⟩ := hall i e0 he0
    rw [hpeq, decide_eq_true_eq] at hp
    rw [hl, hx]
    simp [hp]
  · rintro ⟨hs, hall⟩
    refine ⟨hs, fun i e he => ?_⟩
    have := hall i (e.1, norm e.2) (by rw [he]; rfl)
    rw [hl] at this
    cases hx : lookup b e.1.key with
    | none => simp [hx] at this
    | some x =>
      refine ⟨x, rfl, ?_⟩
      rw [hpeq, decide_eq_true_eq]
      simpa [hx] using this.symm

/-- the same for queues -/
theorem eqvBy_store_norm [DecidableEq P] {peq : P → P → Bool} {norm : P → P}
    (hpeq : ∀ x y, peq x y = decide (norm x = norm y)) (s t : Store P) :
    Store.eqvBy peq s t =
      Store.eqv { s with map := s.map.map fun e => (e.1, norm e.2) } { t with map := t.map.map fun e => (e.1, norm e.2) } :=
  eqvBy_norm hpeq s.map t.map

/-! ## Non-vacuity: a comparison that is coarser than identity

Priorities are natural numbers whose three low bits are a tag that `==` ignores (`x == y` iff `x / 8 = y / 8`), like the
`Pri` of the correspondence harness. -/
section Examples

/-- `==` ignoring the three low bits -/
private def peq8 (x y : Nat) : Bool := decide (x / 8 = y / 8)
private def norm8 (x : Nat) : Nat := x / 8

private def mA : IMap Nat := #[(⟨1, 10⟩, 8 * 5 + 1), (⟨2, 20⟩, 8 * 7 + 2), (⟨3, 30⟩, 8 * 6)]
/-- other slot order, other payloads, other tags: equal for `peq8`, unequal for `=` -/
private def mB : IMap Nat := #[(⟨3, 31⟩, 8 * 6 + 7), (⟨1, 11⟩, 8 * 5), (⟨2, 21⟩, 8 * 7 + 3)]
/-- one priority really different -/
private def mC : IMap Nat := #[(⟨3, 31⟩, 8 * 6 + 7), (⟨1, 11⟩, 8 * 4), (⟨2, 21⟩, 8 * 7 + 3)]

example : NoDupKeys mA ∧ NoDupKeys mB ∧ NoDupKeys mC := by decide +kernel

/-- coarser than identity: `mA == mB` although no priority is identical; the model's `eqv` (identity) says no -/
example : IMap.eqvBy peq8 mA mB = true ∧ IMap.eqvBy peq8 mB mA = true ∧ IMap.eqv mA mB = false ∧
    IMap.eqvBy peq8 mA mC = false ∧ IMap.eqvBy peq8 mC mA = false ∧ IMap.eqvBy peq8 mA mA = true := by
  decide +kernel

/-- both sides of `eqvBy_iff` on the concrete maps (all keys that occur, and some that do not) -/
example : mA.size = mB.size ∧ (∀ k, k < 6 → IMap.keyAgrees peq8 mA mB k = true) ∧
    IMap.keyAgrees peq8 mA mC 1 = false := by decide +kernel

/-- the hypotheses of `eqvBy_refl` / `eqvBy_symm_eq` / `eqvBy_trans` / `eqvBy_norm` hold for `peq8`, which is NOT
identity -/
example : (∀ x, peq8 x x = true) ∧ (∀ x y, peq8 x y = true → peq8 y x = true) ∧
    (∀ x y z, peq8 x y = true → peq8 y z = true → peq8 x z = true) ∧
    (∀ x y, peq8 x y = decide (norm8 x = norm8 y)) ∧ peq8 41 40 = true ∧ (41 : Nat) ≠ 40 := by
  refine ⟨fun x => by simp [peq8], fun x y h => ?_, fun x y z h1 h2 => ?_, fun _ _ => rfl, by decide, by decide⟩
  · simp only [peq8, decide_eq_true_eq] at h ⊢; exact h.symm
  · simp only [peq8, decide_eq_true_eq] at h1 h2 ⊢; exact h1.trans h2

/-- `eqvBy_norm` on the concrete maps: both sides evaluated -/
example : IMap.eqv (mA.map fun e => (e.1, norm8 e.2)) (mB.map fun e => (e.1, norm8 e.2)) = true ∧
    IMap.eqv (mA.map fun e => (e.1, norm8 e.2)) (mC.map fun e => (e.1, norm8 e.2)) = false := by decide +kernel

/-- a comparison that is not reflexive (`NaN`-like: 0 is unequal to itself): the queue holding it is not `==` to itself -/
example : IMap.eqvBy (fun x y : Nat => decide (x = y ∧ x ≠ 0)) #[(⟨1, 0⟩, 0)] #[(⟨1, 0⟩, 0)] = false := by decide +kernel

end Examples

end PQ

#print axioms PQ.eqvBy_decide_eq
#print axioms PQ.eqvBy_iff
#print axioms PQ.eqvBy_refl_iff
#print axioms PQ.eqvBy_refl
#print axioms PQ.eqvBy_symm
#print axioms PQ.eqvBy_symm_eq
#print axioms PQ.eqvBy_trans
#print axioms PQ.eqvBy_store_equivalence
#print axioms PQ.eqvBy_norm
#print axioms PQ.eqvBy_store_norm
