import PQ.Model.Ops
import PQ.Lemmas.PQOps
import PQ.Lemmas.DQOps
import PQ.Lemmas.IterLemmas
/-!
# Contents of the queues: the abstract specification of every public operation, and its refinement by `step`

The abstract state of a queue is `A P := Nat → Option (Item × P)` (`Store.abs`).  `specStep` says, for every public
operation of `Ops.lean`, what it returns and what the abstract state is afterwards; `cont_step_total` proves that on a
well-formed queue every legal operation returns `.ok`, keeps the queue well-formed and refines `specStep`.  Only
`Store.WF` is assumed: the contents of a queue do not depend on the heap order (so all of this also holds after a
leaked `iter_mut` guard).

Everything here is a corollary of the `*_safe` theorems of `PQSafe.lean` / `DQSafe.lean`, `Tables.lean`, `Bulk.lean`.
Lemma names carry the prefix `cont_`.  Contents:

* `cont_iterMutRun`, `cont_iterMutRun_exact`, `cont_writesAt` — `iter_mut` programs on the slot array.
* `cont_step_<op>` — for each public operation, uniform in the queue kind: `.ok`, `WF`, result, new contents.
* `AbsQ`, `specStep`, `specRun`, `cont_step_total`, `cont_step_refines`, `cont_run_total` — specification and refinement.
* `cont_target`, `cont_spec_frame` — frame of the single-element operations.
* `cont_preservesItem`, `cont_spec_item_persists`, `storedItem`, `cont_step_item_persists`, `cont_run_item_persists` —
  the stored item value survives everything that neither rewrites nor removes it.
* `cont_okR`, `cont_ex5`, `cont_exD` — decidable wrappers and concrete queues for the examples of C03/C11/C12.
-/
set_option linter.unusedSimpArgs false
set_option linter.unusedSectionVars false
set_option linter.unusedVariables false
namespace PQ
open Store

/-! ## `iter_mut`: writes through yielded slots -/
section IterMut
variable {P : Type}

/-- the entry a write through a yielded `(&mut I, &mut P)` produces -/
def IMWrite.cont_apply (w : IMWrite P) (e : Item × P) : Item × P :=
  ((match w.payload with | some pl => { e.1 with payload := pl } | none => e.1),
   (match w.prio with | some p => p | none => e.2))

theorem cont_apply_key (w : IMWrite P) (e : Item × P) : (w.cont_apply e).1.key = e.1.key := by
  unfold IMWrite.cont_apply; cases w.payload <;> rfl

theorem cont_apply_item {w : IMWrite P} (h : w.payload = none) (e : Item × P) : (w.cont_apply e).1 = e.1 := by
  unfold IMWrite.cont_apply; rw [h]

theorem cont_apply_prio {w : IMWrite P} (h : w.prio = none) (e : Item × P) : (w.cont_apply e).2 = e.2 := by
  unfold IMWrite.cont_apply; rw [h]

theorem cont_getElem?_applyWrite (m : IMap P) (i j : Nat) (w : IMWrite P) :
    (IMap.applyWrite m i w)[j]? = if i = j then (m[j]?).map w.cont_apply else m[j]? := by
  unfold IMap.applyWrite
  cases h : m[i]? with
  | none =>
    by_cases hij : i = j
    · subst hij; rw [if_pos rfl, h]; rfl
    · rw [if_neg hij]
  | some e =>
    show (m.setIfInBounds i (w.cont_apply e))[j]? = _
    rw [Array.getElem?_setIfInBounds]
    by_cases hij : i = j
    · subst hij
      have hi : i < m.size := lt_size_of_getElem? h
      rw [if_pos rfl, if_pos rfl, if_pos hi, h]; rfl
    · rw [if_neg hij, if_neg hij]

theorem cont_size_applyWrite (m : IMap P) (i : Nat) (w : IMWrite P) : (IMap.applyWrite m i w).size = m.size := by
  unfold IMap.applyWrite
  cases m[i]? with
  | none => rfl
  | some e => exact Array.size_setIfInBounds ..

/-- the map after the write that follows a call whose output was `o` -/
def cont_writeOut (m : IMap P) (o : IOut) (w : IMWrite P) : IMap P :=
  match o with
  | .slot (some i) => IMap.applyWrite m i w
  | _ => m

theorem cont_writeOut_facts (m : IMap P) (o : IOut) (w : IMWrite P) :
    (cont_writeOut m o w).size = m.size ∧
    ∀ j, ((cont_writeOut m o w)[j]?).map (·.1.key) = (m[j]?).map (·.1.key) ∧
      (o ≠ .slot (some j) → (cont_writeOut m o w)[j]? = m[j]?) ∧
      (w.payload = none → ((cont_writeOut m o w)[j]?).map (·.1) = (m[j]?).map (·.1)) ∧
      (w.prio = none → ((cont_writeOut m o w)[j]?).map (·.2) = (m[j]?).map (·.2)) := by
  have triv : m.size = m.size ∧ ∀ j, (m[j]?).map (·.1.key) = (m[j]?).map (·.1.key) ∧
      (o ≠ .slot (some j) → m[j]? = m[j]?) ∧
      (w.payload = none → (m[j]?).map (·.1) = (m[j]?).map (·.1)) ∧
      (w.prio = none → (m[j]?).map (·.2) = (m[j]?).map (·.2)) :=
    ⟨rfl, fun j => ⟨rfl, fun _ => rfl, fun _ => rfl, fun _ => rfl⟩⟩
  cases o with
  | slot oi =>
    cases oi with
    | none => exact triv
    | some i =>
      refine ⟨cont_size_applyWrite m i w, fun j => ?_⟩
      show ((IMap.applyWrite m i w)[j]?).map _ = _ ∧ (_ → (IMap.applyWrite m i w)[j]? = _) ∧
        (_ → ((IMap.applyWrite m i w)[j]?).map _ = _) ∧ (_ → ((IMap.applyWrite m i w)[j]?).map _ = _)
      rw [cont_getElem?_applyWrite]
      by_cases hij : i = j
      · subst hij
        simp only [if_true]
        refine ⟨?_, fun h => absurd rfl h, fun h => ?_, fun h => ?_⟩
        · cases m[i]? with
          | none => rfl
          | some e => simp [cont_apply_key]
        · cases m[i]? with
          | none => rfl
          | some e => simp [cont_apply_item h]
        · cases m[i]? with
          | none => rfl
          | some e => simp [cont_apply_prio h]
      · rw [if_neg hij]
        exact ⟨rfl, fun _ => rfl, fun _ => rfl, fun _ => rfl⟩
  | len k => exact triv
  | hint lo hi => exact triv
  | unsupported => exact triv

theorem cont_iterMutRun_nil (kind : Kind) (n : Nat) (pit : PIterMut) (dit : DIterMut) (m : IMap P) :
    iterMutRun kind n [] pit dit m = .ok ([], m) := rfl

theorem cont_iterMutRun_cons_pq (n : Nat) (c : ICall) (w : IMWrite P) (rest : List (ICall × IMWrite P))
    (pit : PIterMut) (dit : DIterMut) (m : IMap P) :
    iterMutRun .pq n ((c, w) :: rest) pit dit m =
      (match iterMutRun .pq n rest (pit.step n c).1 dit (cont_writeOut m (pit.step n c).2 w) with
       | .ok (outs, m'') => .ok ((pit.step n c).2 :: outs, m'')
       | .error e => .error e) := by
  simp only [iterMutRun, bind, Except.bind, pure, Except.pure, cont_writeOut]
  cases iterMutRun .pq n rest _ dit _ with
  | error e => rfl
  | ok v => rfl

theorem cont_iterMutRun_cons_dpq (n : Nat) (c : ICall) (w : IMWrite P) (rest : List (ICall × IMWrite P))
    (pit : PIterMut) (dit dit' : DIterMut) (o : IOut) (m : IMap P) (hs : dit.step n c = .ok (dit', o)) :
    iterMutRun .dpq n ((c, w) :: rest) pit dit m =
      (match iterMutRun .dpq n rest pit dit' (cont_writeOut m o w) with
       | .ok (outs, m'') => .ok (o :: outs, m'')
       | .error e => .error e) := by
  simp only [iterMutRun, hs, bind, Except.bind, pure, Except.pure, cont_writeOut]
  cases iterMutRun .dpq n rest pit dit' _ with
  | error e => rfl
  | ok v => rfl

/-- **`iter_mut` programs on the map**: with the cursors in a legal state the run never faults; one output per call;
the map keeps its length and every slot its key; a slot that was never yielded is untouched; a program without
payload writes keeps every item, one without priority writes keeps every priority -/
theorem cont_iterMutRun (kind : Kind) (n : Nat) (prog : List (ICall × IMWrite P)) :
    ∀ (pit : PIterMut) (dit : DIterMut) (m : IMap P), dit.pos ≤ dit.back → dit.back ≤ n →
    ∃ outs m', iterMutRun kind n prog pit dit m = .ok (outs, m') ∧ outs.length = prog.length ∧ m'.size = m.size ∧
      ∀ j, (m'[j]?).map (·.1.key) = (m[j]?).map (·.1.key) ∧
        (IOut.slot (some j) ∉ outs → m'[j]? = m[j]?) ∧
        ((∀ cw ∈ prog, cw.2.payload = none) → (m'[j]?).map (·.1) = (m[j]?).map (·.1)) ∧
        ((∀ cw ∈ prog, cw.2.prio = none) → (m'[j]?).map (·.2) = (m[j]?).map (·.2)) := by
  induction prog with
  | nil =>
    intro pit dit m _ _
    exact ⟨[], m, rfl, rfl, rfl, fun j => ⟨rfl, fun _ => rfl, fun _ => rfl, fun _ => rfl⟩⟩
  | cons cw rest ih =>
    obtain ⟨c, w⟩ := cw
    intro pit dit m h1 h2
    -- one call of the machine of this kind
    have hstep : ∃ pit' dit' o, dit'.pos ≤ dit'.back ∧ dit'.back ≤ n ∧
        iterMutRun kind n ((c, w) :: rest) pit dit m =
          (match iterMutRun kind n rest pit' dit' (cont_writeOut m o w) with
           | .ok (outs, m'') => .ok (o :: outs, m'')
           | .error e => .error e) := by
      cases kind with
      | pq => exact ⟨(pit.step n c).1, dit, (pit.step n c).2, h1, h2, cont_iterMutRun_cons_pq n c w rest pit dit m⟩
      | dpq =>
        have hs := DIterMut.step_eq_cursor n dit h1 h2 c
        have hw := DIterMut.cursor_step_wf dit.toCursor n h1 h2 c
        exact ⟨pit, _, _, hw.1, hw.2, cont_iterMutRun_cons_dpq n c w rest pit dit _ _ m hs⟩
    obtain ⟨pit', dit', o, h1', h2', heq⟩ := hstep
    obtain ⟨outs, m', hrun, hlen, hsz, hslots⟩ := ih pit' dit' (cont_writeOut m o w) h1' h2'
    obtain ⟨hsz1, hfacts⟩ := cont_writeOut_facts m o w
    refine ⟨o :: outs, m', by rw [heq, hrun], by simp [hlen], by rw [hsz, hsz1], fun j => ?_⟩
    obtain ⟨a1, a2, a3, a4⟩ := hslots j
    obtain ⟨b1, b2, b3, b4⟩ := hfacts j
    refine ⟨a1.trans b1, fun hn => ?_, fun hp => ?_, fun hp => ?_⟩
    · rw [a2 (fun hin => hn (List.mem_cons_of_mem _ hin)), b2 (fun ho => hn (by rw [ho]; exact List.mem_cons_self))]
    · exact (a3 (fun cw hcw => hp cw (List.mem_cons_of_mem _ hcw))).trans (b3 (hp (c, w) List.mem_cons_self))
    · exact (a4 (fun cw hcw => hp cw (List.mem_cons_of_mem _ hcw))).trans (b4 (hp (c, w) List.mem_cons_self))

/-- lookups in two maps whose slots carry the same keys -/
theorem cont_lookup_map_congr {m m' : IMap P} {β : Type} (φ : Item × P → β)
    (hk : ∀ j : Nat, (m'[j]?).map (fun e : Item × P => e.1.key) = (m[j]?).map (fun e : Item × P => e.1.key))
    (hφ : ∀ j : Nat, (m'[j]?).map φ = (m[j]?).map φ) (k : Nat) :
    (IMap.lookup m' k).map φ = (IMap.lookup m k).map φ := by
  rw [IMap.lookup_eq_find?, IMap.lookup_eq_find?, IMap.find?_congr_keys hk k]
  cases IMap.find? m k with
  | none => rfl
  | some i => exact hφ i

end IterMut
end PQ

namespace PQ
open Store
variable {P : Type} [LT P] [DecidableLT P] [LE P] [Std.IsLinearPreorder P] [Std.LawfulOrderLT P]

/-! ## Every public operation on a well-formed queue of either kind (uniform in the kind) -/

/-- `push` -/
theorem cont_step_push {kind : Kind} {s : Store P} (h : s.WF) (it : Item) (p : P) :
    ∃ s', step ⟨kind, s⟩ (.push it p) = .ok (⟨kind, s'⟩, .prio ((s.abs it.key).map (·.2))) ∧ s'.WF ∧
      s'.abs = absPush s.abs it p := by
  cases kind with
  | pq =>
    obtain ⟨s', h1, h2, h3, _⟩ := MaxQ.push_safe h it p
    exact ⟨s', by simp [step, h1, bind, Except.bind, pure, Except.pure], h2, h3⟩
  | dpq =>
    obtain ⟨s', h1, h2, h3, _⟩ := DQ.push_safe h it p
    exact ⟨s', by simp [step, h1, bind, Except.bind, pure, Except.pure], h2, h3⟩

/-- `push_increase` -/
theorem cont_step_pushIncrease {kind : Kind} {s : Store P} (h : s.WF) (it : Item) (p : P) :
    ∃ s' r, step ⟨kind, s⟩ (.pushIncrease it p) = .ok (⟨kind, s'⟩, .prio r) ∧ s'.WF ∧
      (s.abs it.key = none → r = none ∧ s'.abs = absPush s.abs it p) ∧
      (∀ e, s.abs it.key = some e →
        (e.2 < p → r = some e.2 ∧ s'.abs = absPush s.abs it p) ∧
        (¬ e.2 < p → s' = s.tick ∧ r = some p)) := by
  cases kind with
  | pq =>
    obtain ⟨h0, h1, h2⟩ := MaxQ.pushIncrease_safe h it p
    cases ha : s.abs it.key with
    | none =>
      obtain ⟨s', e1, e2, e3, _⟩ := h0 ha
      exact ⟨s', none, by simp [step, e1, bind, Except.bind, pure, Except.pure], e2, fun _ => ⟨rfl, e3⟩,
        fun e he => by cases he⟩
    | some e0 =>
      by_cases hlt : e0.2 < p
      · obtain ⟨s', e1, e2, e3, _⟩ := h1 e0 ha hlt
        refine ⟨s', some e0.2, by simp [step, e1, bind, Except.bind, pure, Except.pure], e2, fun hn => (by cases hn),
          fun e he => ?_⟩
        cases he
        exact ⟨fun _ => ⟨rfl, e3⟩, fun hn => absurd hlt hn⟩
      · have e1 := h2 e0 ha hlt
        refine ⟨s.tick, some p, by simp [step, e1, bind, Except.bind, pure, Except.pure], tick_TWF.mpr h,
          fun hn => (by cases hn), fun e he => ?_⟩
        cases he
        exact ⟨fun hl => absurd hl hlt, fun _ => ⟨rfl, rfl⟩⟩
  | dpq =>
    obtain ⟨s', r, e1, e2, e3, e4⟩ := DQ.pushIncrease_safe h it p
    exact ⟨s', r, by simp [step, e1, bind, Except.bind, pure, Except.pure], e2,
      fun hn => ⟨(e3 hn).1, (e3 hn).2.1⟩, fun e he => ⟨fun hl => ⟨((e4 e he).1 hl).1, ((e4 e he).1 hl).2.1⟩, (e4 e he).2⟩⟩

/-- `push_decrease` -/
theorem cont_step_pushDecrease {kind : Kind} {s : Store P} (h : s.WF) (it : Item) (p : P) :
    ∃ s' r, step ⟨kind, s⟩ (.pushDecrease it p) = .ok (⟨kind, s'⟩, .prio r) ∧ s'.WF ∧
      (s.abs it.key = none → r = none ∧ s'.abs = absPush s.abs it p) ∧
      (∀ e, s.abs it.key = some e →
        (p < e.2 → r = some e.2 ∧ s'.abs = absPush s.abs it p) ∧
        (¬ p < e.2 → s' = s.tick ∧ r = some p)) := by
  cases kind with
  | pq =>
    obtain ⟨h0, h1, h2⟩ := MaxQ.pushDecrease_safe h it p
    cases ha : s.abs it.key with
    | none =>
      obtain ⟨s', e1, e2, e3, _⟩ := h0 ha
      exact ⟨s', none, by simp [step, e1, bind, Except.bind, pure, Except.pure], e2, fun _ => ⟨rfl, e3⟩,
        fun e he => by cases he⟩
    | some e0 =>
      by_cases hlt : p < e0.2
      · obtain ⟨s', e1, e2, e3, _⟩ := h1 e0 ha hlt
        refine ⟨s', some e0.2, by simp [step, e1, bind, Except.bind, pure, Except.pure], e2, fun hn => (by cases hn),
          fun e he => ?_⟩
        cases he
        exact ⟨fun _ => ⟨rfl, e3⟩, fun hn => absurd hlt hn⟩
      · have e1 := h2 e0 ha hlt
        refine ⟨s.tick, some p, by simp [step, e1, bind, Except.bind, pure, Except.pure], tick_TWF.mpr h,
          fun hn => (by cases hn), fun e he => ?_⟩
        cases he
        exact ⟨fun hl => absurd hl hlt, fun _ => ⟨rfl, rfl⟩⟩
  | dpq =>
    obtain ⟨s', r, e1, e2, e3, e4⟩ := DQ.pushDecrease_safe h it p
    exact ⟨s', r, by simp [step, e1, bind, Except.bind, pure, Except.pure], e2,
      fun hn => ⟨(e3 hn).1, (e3 hn).2.1⟩, fun e he => ⟨fun hl => ⟨((e4 e he).1 hl).1, ((e4 e he).1 hl).2.1⟩, (e4 e he).2⟩⟩

/-- `change_priority` -/
theorem cont_step_changePriority {kind : Kind} {s : Store P} (h : s.WF) (k : Nat) (p : P) :
    ∃ s', step ⟨kind, s⟩ (.changePriority k p) = .ok (⟨kind, s'⟩, .prio ((s.abs k).map (·.2))) ∧ s'.WF ∧
      (s.abs k = none → s' = s) ∧ (∀ e, s.abs k = some e → s'.abs = absSet s.abs k (e.1, p)) := by
  cases kind with
  | pq =>
    obtain ⟨h0, h1⟩ := MaxQ.changePriority_safe h k p
    cases ha : s.abs k with
    | none =>
      have e1 := h0 ha
      exact ⟨s, by simp [step, e1, bind, Except.bind, pure, Except.pure], h, fun _ => rfl, fun e he => by cases he⟩
    | some e0 =>
      obtain ⟨s', e1, e2, e3, _⟩ := h1 e0 ha
      refine ⟨s', by simp [step, e1, bind, Except.bind, pure, Except.pure], e2, fun hn => (by cases hn), fun e he => ?_⟩
      cases he; exact e3
  | dpq =>
    obtain ⟨s', e1, e2, _, e3, e4⟩ := DQ.changePriority_safe h k p
    exact ⟨s', by simp [step, e1, bind, Except.bind, pure, Except.pure], e2, e3, e4⟩

/-- `change_priority_by` -/
theorem cont_step_changePriorityBy {kind : Kind} {s : Store P} (h : s.WF) (k : Nat) (g : P → P) :
    ∃ s', step ⟨kind, s⟩ (.changePriorityBy k g) = .ok (⟨kind, s'⟩, .bool (s.abs k).isSome) ∧ s'.WF ∧
      (s.abs k = none → s' = s) ∧ (∀ e, s.abs k = some e → s'.abs = absSet s.abs k (e.1, g e.2)) := by
  cases kind with
  | pq =>
    obtain ⟨h0, h1⟩ := MaxQ.changePriorityBy_safe h k g
    cases ha : s.abs k with
    | none =>
      have e1 := h0 ha
      exact ⟨s, by simp [step, e1, bind, Except.bind, pure, Except.pure], h, fun _ => rfl, fun e he => by cases he⟩
    | some e0 =>
      obtain ⟨s', e1, e2, e3, _⟩ := h1 e0 ha
      refine ⟨s', by simp [step, e1, bind, Except.bind, pure, Except.pure], e2, fun hn => (by cases hn), fun e he => ?_⟩
      cases he; exact e3
  | dpq =>
    obtain ⟨s', e1, e2, _, e3, e4⟩ := DQ.changePriorityBy_safe h k g
    exact ⟨s', by simp [step, e1, bind, Except.bind, pure, Except.pure], e2, e3, e4⟩

theorem cont_absRemove_absent {f : Nat → Option (Item × P)} {k : Nat} (h : f k = none) : absRemove f k = f := by
  funext k'
  unfold absRemove
  by_cases hk : k' = k
  · subst hk; rw [if_pos rfl, h]
  · rw [if_neg hk]

/-- `remove` -/
theorem cont_step_remove {kind : Kind} {s : Store P} (h : s.WF) (k : Nat) :
    ∃ s', step ⟨kind, s⟩ (.remove k) = .ok (⟨kind, s'⟩, .entry (s.abs k)) ∧ s'.WF ∧
      s'.abs = absRemove s.abs k ∧ (s.abs k = none → s' = s) := by
  cases kind with
  | pq =>
    obtain ⟨h0, h1⟩ := MaxQ.remove_safe h k
    cases ha : s.abs k with
    | none =>
      have e1 := h0 ha
      exact ⟨s, by simp [step, e1, bind, Except.bind, pure, Except.pure], h, (cont_absRemove_absent ha).symm, fun _ => rfl⟩
    | some e0 =>
      obtain ⟨s', e1, e2, e3, _⟩ := h1 e0 ha
      exact ⟨s', by simp [step, e1, bind, Except.bind, pure, Except.pure], e2, e3, fun hn => (by cases hn)⟩
  | dpq =>
    obtain ⟨s', e1, e2, e3, _, e4⟩ := DQ.remove_safe h k
    exact ⟨s', by simp [step, e1, bind, Except.bind, pure, Except.pure], e2, e3, e4⟩

/-- `get_mut` with a key-preserving write -/
theorem cont_step_getMut {kind : Kind} {s : Store P} (h : s.WF) (k : Nat) (w : Item → Item)
    (hw : ∀ it, (w it).key = it.key) :
    ∃ s', step ⟨kind, s⟩ (.getMut k w) = .ok (⟨kind, s'⟩, .entry (s.abs k)) ∧ s'.WF ∧
      (s.abs k = none → s' = s) ∧ (∀ e, s.abs k = some e → s'.abs = absSet s.abs k (w e.1, e.2)) := by
  cases ha : s.abs k with
  | none =>
    have e1 := getMutWrite_spec_none ha w
    exact ⟨s, by simp [step, e1, pure, Except.pure], h, fun _ => rfl, fun e he => by cases he⟩
  | some e0 =>
    obtain ⟨s', pos, e1, _, _, e2, _, _, _, _, _, e3⟩ := getMutWrite_spec_some h ha w (hw e0.1)
    refine ⟨s', by simp [step, e1, pure, Except.pure], e2, fun hn => (by cases hn), fun e he => ?_⟩
    cases he; exact funext e3

/-- `pop` (PQ) / `pop_min` (DPQ) -/
theorem cont_step_popFront {kind : Kind} {s : Store P} (h : s.WF) :
    ∃ s' r, step ⟨kind, s⟩ .popFront = .ok (⟨kind, s'⟩, .entry r) ∧ s'.WF ∧
      (s.size = 0 → s' = s ∧ r = none) ∧
      (0 < s.size → ∃ e, r = some e ∧ s.abs e.1.key = some e ∧ s'.abs = absRemove s.abs e.1.key) := by
  cases kind with
  | pq =>
    obtain ⟨h0, h1⟩ := MaxQ.pop_safe h
    by_cases hz : s.size = 0
    · have e1 := h0 hz
      exact ⟨s, none, by simp [step, e1, bind, Except.bind, pure, Except.pure], h, fun _ => ⟨rfl, rfl⟩, fun hp => by omega⟩
    · have hpos : 0 < s.size := by omega
      obtain ⟨s', e, e1, e2, e3, e4, _⟩ := h1 hpos
      obtain ⟨e', p1, _, _, p2⟩ := (MaxQ.peek_safe h).2 hpos
      rw [e2] at p1; cases p1
      exact ⟨s', some e, by simp [step, e1, bind, Except.bind, pure, Except.pure], e3, fun h0 => absurd h0 hz,
        fun _ => ⟨e, rfl, p2, e4⟩⟩
  | dpq =>
    obtain ⟨s', r, e1, e2, _, e3, e4⟩ := DQ.popMin_safe h
    refine ⟨s', r, by simp [step, e1, bind, Except.bind, pure, Except.pure], e2, e3, fun hp => ?_⟩
    obtain ⟨e, a1, a2, a3, _⟩ := e4 hp
    exact ⟨e, a1, a2, a3⟩

/-- `pop_max` (DPQ only; `PriorityQueue` has no such method: the operation is skipped) -/
theorem cont_step_popBack_pq (s : Store P) : step ⟨.pq, s⟩ .popBack = .ok (⟨.pq, s⟩, .unit) := rfl

theorem cont_step_popBack_dpq {s : Store P} (h : s.WF) :
    ∃ s' r, step ⟨.dpq, s⟩ .popBack = .ok (⟨.dpq, s'⟩, .entry r) ∧ s'.WF ∧
      (s.size = 0 → s' = s ∧ r = none) ∧
      (0 < s.size → ∃ e, r = some e ∧ s.abs e.1.key = some e ∧ s'.abs = absRemove s.abs e.1.key) := by
  obtain ⟨s', r, e1, e2, e3, e4⟩ := DQ.popMax_safe h
  refine ⟨s', r, by simp [step, e1, bind, Except.bind, pure, Except.pure], e2, e3, fun hp => ?_⟩
  obtain ⟨_, e, a1, _, a2, a3, _⟩ := e4 hp
  exact ⟨e, a1, a2, a3⟩

/-- `pop_if` (PQ) / `pop_min_if` (DPQ) with a key-preserving predicate -/
theorem cont_step_popFrontIf {kind : Kind} {s : Store P} (h : s.WF) (f : Item → P → Bool × Item × P)
    (hf : ∀ it p, (f it p).2.1.key = it.key) :
    ∃ s' r, step ⟨kind, s⟩ (.popFrontIf f) = .ok (⟨kind, s'⟩, .entry r) ∧ s'.WF ∧
      (s.size = 0 → s' = s ∧ r = none) ∧
      (0 < s.size → ∃ e, s.abs e.1.key = some e ∧
        ((f e.1 e.2).1 = true → r = some ((f e.1 e.2).2.1, (f e.1 e.2).2.2) ∧ s'.abs = absRemove s.abs e.1.key) ∧
        ((f e.1 e.2).1 = false → r = none ∧ s'.abs = absSet s.abs e.1.key ((f e.1 e.2).2.1, (f e.1 e.2).2.2))) := by
  cases kind with
  | pq =>
    obtain ⟨h0, h1⟩ := MaxQ.popIf_safe h f hf
    by_cases hz : s.size = 0
    · have e1 := h0 hz
      exact ⟨s, none, by simp [step, e1, bind, Except.bind, pure, Except.pure], h, fun _ => ⟨rfl, rfl⟩, fun hp => by omega⟩
    · have hpos : 0 < s.size := by omega
      obtain ⟨e, e2, ht, hfl⟩ := h1 hpos
      obtain ⟨e', p1, _, _, p2⟩ := (MaxQ.peek_safe h).2 hpos
      rw [e2] at p1; cases p1
      cases hr : (f e.1 e.2).1 with
      | true =>
        obtain ⟨s', e1, e3, e4, _⟩ := ht hr
        exact ⟨s', _, by simp [step, e1, bind, Except.bind, pure, Except.pure], e3, fun h0 => absurd h0 hz,
          fun _ => ⟨e, p2, fun _ => ⟨rfl, e4⟩, fun hc => (by rw [hr] at hc; cases hc)⟩⟩
      | false =>
        obtain ⟨s', e1, e3, e4, _⟩ := hfl hr
        exact ⟨s', _, by simp [step, e1, bind, Except.bind, pure, Except.pure], e3, fun h0 => absurd h0 hz,
          fun _ => ⟨e, p2, fun hc => (by rw [hr] at hc; cases hc), fun _ => ⟨rfl, e4⟩⟩⟩
  | dpq =>
    obtain ⟨s', r, e1, e2, e3, e4⟩ := DQ.popMinIf_safe h f hf
    refine ⟨s', r, by simp [step, e1, bind, Except.bind, pure, Except.pure], e2, e3, fun hp => ?_⟩
    obtain ⟨e, _, a2, a3, a4⟩ := e4 hp
    exact ⟨e, a2, fun hr => ⟨(a3 hr).1, (a3 hr).2.1⟩, fun hr => ⟨(a4 hr).1, (a4 hr).2.1⟩⟩

theorem cont_step_popBackIf_pq (s : Store P) (f : Item → P → Bool × Item × P) :
    step ⟨.pq, s⟩ (.popBackIf f) = .ok (⟨.pq, s⟩, .unit) := rfl

/-- `pop_max_if` (DPQ only) -/
theorem cont_step_popBackIf_dpq {s : Store P} (h : s.WF) (f : Item → P → Bool × Item × P)
    (hf : ∀ it p, (f it p).2.1.key = it.key) :
    ∃ s' r, step ⟨.dpq, s⟩ (.popBackIf f) = .ok (⟨.dpq, s'⟩, .entry r) ∧ s'.WF ∧
      (s.size = 0 → s' = s ∧ r = none) ∧
      (0 < s.size → ∃ e, s.abs e.1.key = some e ∧
        ((f e.1 e.2).1 = true → r = some ((f e.1 e.2).2.1, (f e.1 e.2).2.2) ∧ s'.abs = absRemove s.abs e.1.key) ∧
        ((f e.1 e.2).1 = false → r = none ∧ s'.abs = absSet s.abs e.1.key ((f e.1 e.2).2.1, (f e.1 e.2).2.2))) := by
  obtain ⟨s', r, e1, e2, e3, e4⟩ := DQ.popMaxIf_safe h f hf
  refine ⟨s', r, by simp [step, e1, bind, Except.bind, pure, Except.pure], e2, e3, fun hp => ?_⟩
  obtain ⟨_, e, _, a2, a3, a4⟩ := e4 hp
  exact ⟨e, a2, fun hr => ⟨(a3 hr).1, (a3 hr).2.1⟩, fun hr => ⟨(a4 hr).1, (a4 hr).2.1⟩⟩

/-- `peek_mut` (PQ) / `peek_min_mut` (DPQ) with a key-preserving write -/
theorem cont_step_peekFrontMut {kind : Kind} {s : Store P} (h : s.WF) (w : Item → Item)
    (hw : ∀ it, (w it).key = it.key) :
    ∃ s' r, step ⟨kind, s⟩ (.peekFrontMut w) = .ok (⟨kind, s'⟩, .entry r) ∧ s'.WF ∧
      (s.size = 0 → s' = s ∧ r = none) ∧
      (0 < s.size → ∃ e, r = some e ∧ s.abs e.1.key = some e ∧ s'.abs = absSet s.abs e.1.key (w e.1, e.2)) := by
  cases kind with
  | pq =>
    obtain ⟨h0, h1⟩ := MaxQ.peekMutWrite_safe h w hw
    by_cases hz : s.size = 0
    · have e1 := h0 hz
      exact ⟨s, none, by simp [step, e1, bind, Except.bind, pure, Except.pure], h, fun _ => ⟨rfl, rfl⟩, fun hp => by omega⟩
    · have hpos : 0 < s.size := by omega
      obtain ⟨s', e, e1, e2, e3, _, _, _, _, _, e4⟩ := h1 hpos
      obtain ⟨e', p1, _, _, p2⟩ := (MaxQ.peek_safe h).2 hpos
      rw [e2] at p1; cases p1
      exact ⟨s', some e, by simp [step, e1, bind, Except.bind, pure, Except.pure], e3, fun h0 => absurd h0 hz,
        fun _ => ⟨e, rfl, p2, e4⟩⟩
  | dpq =>
    obtain ⟨s', r, e1, e2, _, _, e3, e4⟩ := DQ.peekMinMutWrite_safe h w hw
    exact ⟨s', r, by simp [step, e1, bind, Except.bind, pure, Except.pure], e2, e3, e4⟩

theorem cont_step_peekBackMut_pq (s : Store P) (w : Item → Item) :
    step ⟨.pq, s⟩ (.peekBackMut w) = .ok (⟨.pq, s⟩, .unit) := rfl

/-- `peek_max_mut` (DPQ only) -/
theorem cont_step_peekBackMut_dpq {s : Store P} (h : s.WF) (w : Item → Item) (hw : ∀ it, (w it).key = it.key) :
    ∃ s' r, step ⟨.dpq, s⟩ (.peekBackMut w) = .ok (⟨.dpq, s'⟩, .entry r) ∧ s'.WF ∧
      (s.size = 0 → s' = s ∧ r = none) ∧
      (0 < s.size → ∃ e, r = some e ∧ s.abs e.1.key = some e ∧ s'.abs = absSet s.abs e.1.key (w e.1, e.2)) := by
  obtain ⟨s', r, e1, e2, _, e3, e4⟩ := DQ.peekMaxMutWrite_safe h w hw
  refine ⟨s', r, by simp [step, e1, bind, Except.bind, pure, Except.pure], e2, e3, fun hp => ?_⟩
  obtain ⟨_, e, a1, _, a2, a3⟩ := e4 hp
  exact ⟨e, a1, a2, a3⟩

/-! ### bulk operations -/

/-- `retain_mut` / `retain` with a key-preserving closure -/
theorem cont_step_retainMut {kind : Kind} {s : Store P} (h : s.WF) (f : Item → P → Bool × Item × P)
    (hf : ∀ it p, (f it p).2.1.key = it.key) :
    ∃ s', step ⟨kind, s⟩ (.retainMut f) = .ok (⟨kind, s'⟩, .unit) ∧ s'.WF ∧
      s'.abs = (fun k => (s.abs k).bind (IMap.retainStep f)) ∧
      s'.map.toList = s.map.toList.filterMap (IMap.retainStep f) := by
  cases kind with
  | pq =>
    obtain ⟨s', e1, e2, e3, e4⟩ := MaxQ.retainMut_safe h f hf
    exact ⟨s', by simp [step, e1, bind, Except.bind, pure, Except.pure], e2, funext e3,
      by rw [e4, IMap.toList_retain']⟩
  | dpq =>
    obtain ⟨s', e1, e2, _, e3, e4, _⟩ := DQ.retainMut_safe h f hf
    exact ⟨s', by simp [step, e1, bind, Except.bind, pure, Except.pure], e2, e3, e4⟩

/-- `Extend::extend`, every `size_hint` lower bound below the capacity limit (every legal one) -/
theorem cont_step_extend {kind : Kind} {s : Store P} (h : s.WF) (lo : Nat) (xs : Array (Item × P))
    (hlo : lo < capLimit) :
    ∃ s', step ⟨kind, s⟩ (.extend lo xs) = .ok (⟨kind, s'⟩, .unit) ∧ s'.WF ∧
      s'.abs = xs.foldl Store.absStep s.abs := by
  cases kind with
  | pq =>
    obtain ⟨s', e1, e2, e3⟩ := MaxQ.extend_safe h lo xs hlo
    exact ⟨s', by simp [step, e1, bind, Except.bind, pure, Except.pure], e2, e3⟩
  | dpq =>
    obtain ⟨s', e1, e2, e3⟩ := DQ.extend_safe h lo xs hlo
    exact ⟨s', by simp [step, e1, bind, Except.bind, pure, Except.pure], e2, e3⟩

/-- `append(&mut other)` for ANY well-formed other queue `o` of the same kind: the union; on a clash the entry of the
LARGER queue stays (the two queues are swapped first when `other` is strictly larger); `other` is left empty (its
length, its map and both its index tables have length `0`: it stays a usable, empty queue) -/
theorem cont_step_append {kind : Kind} {s o : Store P} (h : s.WF) (ho : o.WF) :
    ∃ s', step ⟨kind, s⟩ (.append o) = .ok (⟨kind, s'⟩, .other 0 0 0 0) ∧ s'.WF ∧
      ∀ k, s'.abs k = if o.size > s.size then (o.abs k).or (s.abs k) else (s.abs k).or (o.abs k) := by
  cases kind with
  | pq =>
    obtain ⟨s', o', e1, e2, _, e5, e6, e7, e8, e3⟩ := MaxQ.append_safe h ho
    exact ⟨s', by simp [step, e1, e5, e6, e7, e8, bind, Except.bind, pure, Except.pure], e2, e3⟩
  | dpq =>
    obtain ⟨s', o', e1, e2, _, e4, _, e6, _, e3⟩ := DQ.append_safe h ho
    have h1 := e4.map_size; have h2 := e4.heap_size; have h3 := e4.qp_size
    rw [e6] at h1 h2 h3
    exact ⟨s', by simp [step, e1, e6, h1, h2, h3, bind, Except.bind, pure, Except.pure], e2, e3⟩

/-- `From<Vec>`: the FIRST pair of each key -/
theorem cont_step_fromVec {kind : Kind} (s : Store P) (xs : Array (Item × P)) :
    ∃ s', step ⟨kind, s⟩ (.fromVec xs) = .ok (⟨kind, s'⟩, .unit) ∧ s'.WF ∧
      ∀ k, s'.abs k = xs.toList.find? (fun e => e.1.key == k) := by
  cases kind with
  | pq =>
    obtain ⟨s', e1, e2, e3⟩ := MaxQ.fromVec_safe xs
    exact ⟨s', by simp [step, e1, bind, Except.bind, pure, Except.pure], e2, e3⟩
  | dpq =>
    obtain ⟨s', e1, e2, _, e3, _⟩ := DQ.fromVec_safe xs
    exact ⟨s', by simp [step, e1, bind, Except.bind, pure, Except.pure], e2, e3⟩

/-- `FromIterator` (every `size_hint` lower bound below the capacity limit): the LAST pair of each key -/
theorem cont_step_fromIter {kind : Kind} (s : Store P) (lo : Nat) (xs : Array (Item × P)) (hlo : lo < capLimit) :
    ∃ s', step ⟨kind, s⟩ (.fromIter lo xs) = .ok (⟨kind, s'⟩, .unit) ∧ s'.WF ∧
      ∀ k, s'.abs k = xs.toList.reverse.find? (fun e => e.1.key == k) := by
  cases kind with
  | pq =>
    obtain ⟨s', e1, e2, e3⟩ := MaxQ.fromIter_safe lo xs hlo
    exact ⟨s', by simp [step, e1, bind, Except.bind, pure, Except.pure], e2, e3⟩
  | dpq =>
    obtain ⟨s', e1, e2, _, e3, _⟩ := DQ.fromIter_safe lo xs hlo
    exact ⟨s', by simp [step, e1, bind, Except.bind, pure, Except.pure], e2, e3⟩

/-- `Deserialize`, every announced length: item of the FIRST pair, priority of the LAST pair of each key -/
theorem cont_step_deserialize {kind : Kind} (s : Store P) (hint : Option Nat) (xs : Array (Item × P)) :
    ∃ s', step ⟨kind, s⟩ (.deserialize hint xs) = .ok (⟨kind, s'⟩, .unit) ∧ s'.WF ∧
      s'.abs = xs.foldl Store.absStep (fun _ => none) := by
  cases kind with
  | pq =>
    obtain ⟨s', e1, e2, e3, _⟩ := MaxQ.deserialize_safe hint xs
    exact ⟨s', by simp [step, e1, bind, Except.bind, pure, Except.pure], e2, e3⟩
  | dpq =>
    obtain ⟨s', e1, e2, _, e3, _⟩ := DQ.deserialize_safe hint xs
    exact ⟨s', by simp [step, e1, bind, Except.bind, pure, Except.pure], e2, e3⟩

/-- the other kind -/
def Kind.cont_flip : Kind → Kind
  | .pq => .dpq
  | .dpq => .pq

/-- `From<the other queue kind>`: same contents, the kind changes -/
theorem cont_step_convert {kind : Kind} {s : Store P} (h : s.WF) :
    ∃ s', step ⟨kind, s⟩ .convert = .ok (⟨kind.cont_flip, s'⟩, .unit) ∧ s'.WF ∧ s'.abs = s.abs ∧ s'.map = s.map := by
  cases kind with
  | pq =>
    obtain ⟨s', e1, e2, e3, _⟩ := DQ.heapBuild_safe h
    have e1' : DQ.ofStore s = .ok s' := e1
    exact ⟨s', by simp [step, e1', bind, Except.bind, pure, Except.pure, Kind.cont_flip], e2,
      by show IMap.lookup s'.map = _; rw [e3], e3⟩
  | dpq =>
    obtain ⟨s', e1, e2, e3, _⟩ := MaxQ.ofStore_safe h
    exact ⟨s', by simp [step, e1, bind, Except.bind, pure, Except.pure, Kind.cont_flip], e2,
      by show IMap.lookup s'.map = _; rw [e3], e3⟩

theorem cont_step_clear (kind : Kind) (s : Store P) : step ⟨kind, s⟩ .clear = .ok (⟨kind, s.clear⟩, .unit) := rfl

theorem cont_step_drain (kind : Kind) (s : Store P) :
    step ⟨kind, s⟩ .drain = .ok (⟨kind, s.drain.2⟩, .entries s.map.toList) := rfl

theorem cont_step_capacityOp (q : Q P) : step q .capacityOp = .ok (q, .unit) := rfl

/-! ### `iter_mut` -/

theorem cont_mem_slots {outs : List IOut} {j : Nat} : j ∈ slots outs ↔ IOut.slot (some j) ∈ outs := by
  induction outs with
  | nil => simp
  | cons o outs ih =>
    cases o with
    | slot oi =>
      cases oi with
      | none => simp [ih]
      | some i => simp [ih, eq_comm]
    | len k => simp [ih]
    | hint lo hi => simp [ih]
    | unsupported => simp [ih]

theorem cont_heapBuildK_safe {kind : Kind} {s : Store P} (h : s.WF) :
    ∃ s', heapBuildK kind s = .ok s' ∧ s'.WF ∧ s'.map = s.map ∧ s'.size = s.size := by
  cases kind with
  | pq => exact MaxQ.heapBuild_safe h
  | dpq =>
    obtain ⟨s', e1, e2, e3, e4, _⟩ := DQ.heapBuild_safe h
    exact ⟨s', e1, e2, e3, e4⟩

/-- **`iter_mut`** (guard dropped or leaked) with any program of calls and writes through the yielded references:
no fault, `WF` kept; the map keeps its length and every slot its key; slots that were not yielded are untouched;
without payload writes every item stays, without priority writes every priority stays -/
theorem cont_step_iterMut {kind : Kind} {s : Store P} (h : s.WF) (leak : Bool) (prog : List (ICall × IMWrite P)) :
    ∃ s' outs, step ⟨kind, s⟩ (.iterMut leak prog) = .ok (⟨kind, s'⟩, .outs outs) ∧ s'.WF ∧
      outs.length = prog.length ∧ s'.map.size = s.map.size ∧ s'.size = s.size ∧
      ∀ j, (s'.map[j]?).map (·.1.key) = (s.map[j]?).map (·.1.key) ∧
        (j ∉ slots outs → s'.map[j]? = s.map[j]?) ∧
        ((∀ cw ∈ prog, cw.2.payload = none) → (s'.map[j]?).map (·.1) = (s.map[j]?).map (·.1)) ∧
        ((∀ cw ∈ prog, cw.2.prio = none) → (s'.map[j]?).map (·.2) = (s.map[j]?).map (·.2)) := by
  obtain ⟨outs, m', hrun, hlen, hsz, hslots⟩ :=
    cont_iterMutRun kind s.map.size prog PIterMut.new (DIterMut.new s.map.size) s.map (Nat.zero_le _) (Nat.le_refl _)
  have hkeys : ∀ j : Nat, (m'[j]?).map (fun e : Item × P => e.1.key) = (s.map[j]?).map (fun e : Item × P => e.1.key) :=
    fun j => (hslots j).1
  have hwf1 : ({ s with map := m' } : Store P).WF := wf_of_map_update h hsz (IMap.NoDupKeys.congr_keys h.nodup hkeys)
  have hfacts : ∀ j, (m'[j]?).map (·.1.key) = (s.map[j]?).map (·.1.key) ∧
        (j ∉ slots outs → m'[j]? = s.map[j]?) ∧
        ((∀ cw ∈ prog, cw.2.payload = none) → (m'[j]?).map (·.1) = (s.map[j]?).map (·.1)) ∧
        ((∀ cw ∈ prog, cw.2.prio = none) → (m'[j]?).map (·.2) = (s.map[j]?).map (·.2)) := fun j =>
    ⟨(hslots j).1, fun hn => (hslots j).2.1 (fun hin => hn (cont_mem_slots.2 hin)), (hslots j).2.2.1, (hslots j).2.2.2⟩
  cases leak with
  | true =>
    refine ⟨{ s with map := m' }, outs, ?_, hwf1, hlen, hsz, rfl, hfacts⟩
    simp [step, hrun, bind, Except.bind, pure, Except.pure]
  | false =>
    obtain ⟨s', e1, e2, e3, e4⟩ := cont_heapBuildK_safe (kind := kind) hwf1
    refine ⟨s', outs, ?_, e2, hlen, by rw [e3]; exact hsz, by rw [e4], ?_⟩
    · simp [step, hrun, e1, bind, Except.bind, pure, Except.pure]
    · rw [e3]; exact hfacts

/-- the abstract face of `cont_step_iterMut` -/
theorem cont_iterMut_abs {s s' : Store P} {prog : List (ICall × IMWrite P)} {outs : List IOut} (h : s.WF)
    (hfacts : ∀ j, (s'.map[j]?).map (·.1.key) = (s.map[j]?).map (·.1.key) ∧
        (j ∉ slots outs → s'.map[j]? = s.map[j]?) ∧
        ((∀ cw ∈ prog, cw.2.payload = none) → (s'.map[j]?).map (·.1) = (s.map[j]?).map (·.1)) ∧
        ((∀ cw ∈ prog, cw.2.prio = none) → (s'.map[j]?).map (·.2) = (s.map[j]?).map (·.2))) :
    (∀ k, (s'.abs k).map (·.1.key) = (s.abs k).map (·.1.key)) ∧
    (∃ changed : List Nat, changed.length ≤ (slots outs).length ∧ ∀ k, k ∉ changed → s'.abs k = s.abs k) ∧
    ((∀ cw ∈ prog, cw.2.payload = none) → ∀ k, (s'.abs k).map (·.1) = (s.abs k).map (·.1)) ∧
    ((∀ cw ∈ prog, cw.2.prio = none) → ∀ k, (s'.abs k).map (·.2) = (s.abs k).map (·.2)) := by
  have hkeys : ∀ j : Nat, (s'.map[j]?).map (fun e : Item × P => e.1.key) = (s.map[j]?).map (fun e : Item × P => e.1.key) :=
    fun j => (hfacts j).1
  refine ⟨fun k => cont_lookup_map_congr _ hkeys hkeys k, ?_, fun hp k => cont_lookup_map_congr _ hkeys (fun j => (hfacts j).2.2.1 hp) k,
    fun hp k => cont_lookup_map_congr _ hkeys (fun j => (hfacts j).2.2.2 hp) k⟩
  refine ⟨(slots outs).filterMap (fun i => (s.map[i]?).map (·.1.key)), List.length_filterMap_le _ _, fun k hk => ?_⟩
  show IMap.lookup s'.map k = IMap.lookup s.map k
  rw [IMap.lookup_eq_find?, IMap.lookup_eq_find?, IMap.find?_congr_keys hkeys k]
  cases hf : IMap.find? s.map k with
  | none => rfl
  | some i =>
    obtain ⟨e, he, hek⟩ := IMap.find?_getElem? hf
    have hi : i ∉ slots outs := fun hin => hk (List.mem_filterMap.2 ⟨i, hin, by rw [he]; simp [hek]⟩)
    exact (hfacts i).2.1 hi

/-! ## The abstract specification -/

/-- abstract state of a queue of either kind: item key ↦ the stored (item, priority) -/
abbrev AbsQ (P : Type) := Nat → Option (Item × P)

/-- the abstract state holds exactly `n` items -/
def cont_absCard (a : AbsQ P) (n : Nat) : Prop :=
  ∃ l : List Nat, l.Nodup ∧ l.length = n ∧ ∀ k, k ∈ l ↔ (a k).isSome = true

theorem cont_absCard_unique {a : AbsQ P} {n n' : Nat} (h : cont_absCard a n) (h' : cont_absCard a n') : n = n' := by
  obtain ⟨l, hl, rfl, hm⟩ := h
  obtain ⟨l', hl', rfl, hm'⟩ := h'
  exact ((List.perm_ext_iff_of_nodup hl hl').2 (fun k => (hm k).trans (hm' k).symm)).length_eq

theorem cont_absCard_of_WF {s : Store P} (h : s.WF) : cont_absCard s.abs s.size := by
  refine ⟨s.map.toList.map (·.1.key), IMap.noDupKeys_iff_nodup.1 h.nodup, by simp [h.map_size], fun k => ?_⟩
  show _ ↔ (IMap.lookup s.map k).isSome = true
  rw [IMap.lookup_isSome_eq_contains, IMap.contains_eq_true_iff, List.mem_map]
  constructor
  · rintro ⟨e, he, hk⟩
    obtain ⟨i, hi⟩ := List.mem_iff_getElem?.1 he
    exact ⟨i, e, by rw [← Array.getElem?_toList]; exact hi, hk⟩
  · rintro ⟨i, e, he, hk⟩
    exact ⟨e, List.mem_iff_getElem?.2 ⟨i, by rw [Array.getElem?_toList]; exact he⟩, hk⟩

/-- the kind of the queue after an operation (only `From<other kind>` changes it) -/
def cont_kindAfter (kind : Kind) : Op P → Kind
  | .convert => kind.cont_flip
  | _ => kind

/-- "the queue is empty and reports `None`" / "some stored pair is reported and exactly its key is removed" -/
def specPop (a : AbsQ P) (o : Out P) (a' : AbsQ P) : Prop :=
  ((∀ k, a k = none) ∧ o = .entry none ∧ a' = a) ∨
  ∃ e, a e.1.key = some e ∧ o = .entry (some e) ∧ a' = absRemove a e.1.key

/-- the predicate sees some stored pair `e` and may rewrite it; *yes*: the rewritten pair is returned and `e`'s key
removed; *no*: `None` is returned and the rewritten pair stays -/
def specPopIf (f : Item → P → Bool × Item × P) (a : AbsQ P) (o : Out P) (a' : AbsQ P) : Prop :=
  ((∀ k, a k = none) ∧ o = .entry none ∧ a' = a) ∨
  ∃ e, a e.1.key = some e ∧
    (((f e.1 e.2).1 = true ∧ o = .entry (some ((f e.1 e.2).2.1, (f e.1 e.2).2.2)) ∧ a' = absRemove a e.1.key) ∨
     ((f e.1 e.2).1 = false ∧ o = .entry none ∧ a' = absSet a e.1.key ((f e.1 e.2).2.1, (f e.1 e.2).2.2)))

/-- some stored pair is reported and its item rewritten by the caller's write -/
def specPeekMut (w : Item → Item) (a : AbsQ P) (o : Out P) (a' : AbsQ P) : Prop :=
  ((∀ k, a k = none) ∧ o = .entry none ∧ a' = a) ∨
  ∃ e, a e.1.key = some e ∧ o = .entry (some e) ∧ a' = absSet a e.1.key (w e.1, e.2)

/-- the `iter_mut` clause: one output per call; the key set is unchanged and every entry keeps its key; at most as many
entries change as slots were yielded; without payload writes every item stays, without priority writes every
priority stays -/
def specIterMut (prog : List (ICall × IMWrite P)) (a : AbsQ P) (o : Out P) (a' : AbsQ P) : Prop :=
  ∃ outs, o = .outs outs ∧ outs.length = prog.length ∧
    (∀ k, (a' k).map (·.1.key) = (a k).map (·.1.key)) ∧
    (∃ changed : List Nat, changed.length ≤ (slots outs).length ∧ ∀ k, k ∉ changed → a' k = a k) ∧
    ((∀ cw ∈ prog, cw.2.payload = none) → ∀ k, (a' k).map (·.1) = (a k).map (·.1)) ∧
    ((∀ cw ∈ prog, cw.2.prio = none) → ∀ k, (a' k).map (·.2) = (a k).map (·.2))

/-- **The abstract specification of every public operation**: `specStep kind a op o a'` — on a queue of kind `kind`
whose contents are `a`, operation `op` may return `o` and leave the contents `a'`.  It is a relation only because
WHICH element the pop family addresses is left open here (that is C01/C02); everything else is functional. -/
def specStep (kind : Kind) (a : AbsQ P) (op : Op P) (o : Out P) (a' : AbsQ P) : Prop :=
  match op with
  | .push it p => o = .prio ((a it.key).map (·.2)) ∧ a' = absPush a it p
  | .pushIncrease it p =>
    (a it.key = none → o = .prio none ∧ a' = absPush a it p) ∧
    (∀ e, a it.key = some e → e.2 < p → o = .prio (some e.2) ∧ a' = absPush a it p) ∧
    (∀ e, a it.key = some e → ¬ e.2 < p → o = .prio (some p) ∧ a' = a)
  | .pushDecrease it p =>
    (a it.key = none → o = .prio none ∧ a' = absPush a it p) ∧
    (∀ e, a it.key = some e → p < e.2 → o = .prio (some e.2) ∧ a' = absPush a it p) ∧
    (∀ e, a it.key = some e → ¬ p < e.2 → o = .prio (some p) ∧ a' = a)
  | .changePriority k p =>
    o = .prio ((a k).map (·.2)) ∧ a' = (match a k with | none => a | some e => absSet a k (e.1, p))
  | .changePriorityBy k g =>
    o = .bool (a k).isSome ∧ a' = (match a k with | none => a | some e => absSet a k (e.1, g e.2))
  | .remove k => o = .entry (a k) ∧ a' = (match a k with | none => a | some _ => absRemove a k)
  | .getMut k w => o = .entry (a k) ∧ a' = (match a k with | none => a | some e => absSet a k (w e.1, e.2))
  | .popFront => specPop a o a'
  | .popBack => (match kind with | .pq => o = .unit ∧ a' = a | .dpq => specPop a o a')
  | .popFrontIf f => specPopIf f a o a'
  | .popBackIf f => (match kind with | .pq => o = .unit ∧ a' = a | .dpq => specPopIf f a o a')
  | .peekFrontMut w => specPeekMut w a o a'
  | .peekBackMut w => (match kind with | .pq => o = .unit ∧ a' = a | .dpq => specPeekMut w a o a')
  | .retainMut f => o = .unit ∧ a' = (fun k => (a k).bind (IMap.retainStep f))
  | .iterMut _ prog => specIterMut prog a o a'
  | .extend _ xs => o = .unit ∧ a' = xs.foldl Store.absStep a
  | .append oth =>
    o = .other 0 0 0 0 ∧ ∀ n, cont_absCard a n → ∀ k, a' k =
      if oth.size > n then (oth.abs k).or (a k) else (a k).or (oth.abs k)
  | .fromVec xs => o = .unit ∧ ∀ k, a' k = xs.toList.find? (fun e => e.1.key == k)
  | .fromIter _ xs => o = .unit ∧ ∀ k, a' k = xs.toList.reverse.find? (fun e => e.1.key == k)
  | .deserialize _ xs => o = .unit ∧ a' = xs.foldl Store.absStep (fun _ => none)
  | .convert => o = .unit ∧ a' = a
  | .clear => o = .unit ∧ a' = (fun _ => none)
  | .drain =>
    ∃ es, o = .entries es ∧ a' = (fun _ => none) ∧ (∀ e, e ∈ es ↔ a e.1.key = some e) ∧ (es.map (·.1.key)).Nodup
  | .capacityOp => o = .unit ∧ a' = a

/-! ## Refinement: every legal operation on a well-formed queue is total and meets `specStep` -/

theorem cont_mem_toList_iff {s : Store P} (h : s.WF) (e : Item × P) : e ∈ s.map.toList ↔ s.abs e.1.key = some e := by
  rw [← mem_iff_lookup h]
  unfold Store.Mem
  rw [List.mem_iff_getElem?]
  constructor
  · rintro ⟨i, hi⟩; exact ⟨i, by rw [← Array.getElem?_toList]; exact hi⟩
  · rintro ⟨i, hi⟩; exact ⟨i, by rw [Array.getElem?_toList]; exact hi⟩

theorem cont_specPop_of {s s' : Store P} (h : s.WF) {r : Option (Item × P)} (h0 : s.size = 0 → s' = s ∧ r = none)
    (h1 : 0 < s.size → ∃ e, r = some e ∧ s.abs e.1.key = some e ∧ s'.abs = absRemove s.abs e.1.key) :
    specPop s.abs (.entry r) s'.abs := by
  by_cases hz : s.size = 0
  · obtain ⟨rfl, rfl⟩ := h0 hz
    exact .inl ⟨DQ.abs_none_of_size_zero h hz, rfl, rfl⟩
  · obtain ⟨e, rfl, a1, a2⟩ := h1 (by omega)
    exact .inr ⟨e, a1, rfl, a2⟩

theorem cont_specPopIf_of {s s' : Store P} (h : s.WF) (f : Item → P → Bool × Item × P) {r : Option (Item × P)}
    (h0 : s.size = 0 → s' = s ∧ r = none)
    (h1 : 0 < s.size → ∃ e, s.abs e.1.key = some e ∧
        ((f e.1 e.2).1 = true → r = some ((f e.1 e.2).2.1, (f e.1 e.2).2.2) ∧ s'.abs = absRemove s.abs e.1.key) ∧
        ((f e.1 e.2).1 = false → r = none ∧ s'.abs = absSet s.abs e.1.key ((f e.1 e.2).2.1, (f e.1 e.2).2.2))) :
    specPopIf f s.abs (.entry r) s'.abs := by
  by_cases hz : s.size = 0
  · obtain ⟨rfl, rfl⟩ := h0 hz
    exact .inl ⟨DQ.abs_none_of_size_zero h hz, rfl, rfl⟩
  · obtain ⟨e, a1, a2, a3⟩ := h1 (by omega)
    refine .inr ⟨e, a1, ?_⟩
    cases hr : (f e.1 e.2).1 with
    | true => obtain ⟨rfl, b⟩ := a2 hr; exact .inl ⟨rfl, rfl, b⟩
    | false => obtain ⟨rfl, b⟩ := a3 hr; exact .inr ⟨rfl, rfl, b⟩

theorem cont_specPeekMut_of {s s' : Store P} (h : s.WF) (w : Item → Item) {r : Option (Item × P)}
    (h0 : s.size = 0 → s' = s ∧ r = none)
    (h1 : 0 < s.size → ∃ e, r = some e ∧ s.abs e.1.key = some e ∧ s'.abs = absSet s.abs e.1.key (w e.1, e.2)) :
    specPeekMut w s.abs (.entry r) s'.abs := by
  by_cases hz : s.size = 0
  · obtain ⟨rfl, rfl⟩ := h0 hz
    exact .inl ⟨DQ.abs_none_of_size_zero h hz, rfl, rfl⟩
  · obtain ⟨e, rfl, a1, a2⟩ := h1 (by omega)
    exact .inr ⟨e, a1, rfl, a2⟩

theorem cont_match_abs {s s' : Store P} {k : Nat} (g : Item × P → Item × P) (h0 : s.abs k = none → s' = s)
    (h1 : ∀ e, s.abs k = some e → s'.abs = absSet s.abs k (g e)) :
    s'.abs = (match s.abs k with | none => s.abs | some e => absSet s.abs k (g e)) := by
  cases ha : s.abs k with
  | none => rw [h0 ha]
  | some e => exact h1 e ha

/-- **Every legal public operation on a well-formed queue of either kind returns `.ok`, keeps the queue
well-formed, and its result and the new contents are the ones `specStep` prescribes** -/
theorem cont_step_total {kind : Kind} {s : Store P} (h : s.WF) (op : Op P) (hl : op.Legal) :
    ∃ s' o, step ⟨kind, s⟩ op = .ok (⟨cont_kindAfter kind op, s'⟩, o) ∧ s'.WF ∧ specStep kind s.abs op o s'.abs := by
  cases op with
  | push it p =>
    obtain ⟨s', e1, e2, e3⟩ := cont_step_push (kind := kind) h it p
    exact ⟨s', _, e1, e2, rfl, e3⟩
  | pushIncrease it p =>
    obtain ⟨s', r, e1, e2, e3, e4⟩ := cont_step_pushIncrease (kind := kind) h it p
    refine ⟨s', _, e1, e2, fun ha => ?_, fun e ha hlt => ?_, fun e ha hlt => ?_⟩
    · obtain ⟨rfl, b⟩ := e3 ha; exact ⟨rfl, b⟩
    · obtain ⟨rfl, b⟩ := (e4 e ha).1 hlt; exact ⟨rfl, b⟩
    · obtain ⟨rfl, rfl⟩ := (e4 e ha).2 hlt; exact ⟨rfl, rfl⟩
  | pushDecrease it p =>
    obtain ⟨s', r, e1, e2, e3, e4⟩ := cont_step_pushDecrease (kind := kind) h it p
    refine ⟨s', _, e1, e2, fun ha => ?_, fun e ha hlt => ?_, fun e ha hlt => ?_⟩
    · obtain ⟨rfl, b⟩ := e3 ha; exact ⟨rfl, b⟩
    · obtain ⟨rfl, b⟩ := (e4 e ha).1 hlt; exact ⟨rfl, b⟩
    · obtain ⟨rfl, rfl⟩ := (e4 e ha).2 hlt; exact ⟨rfl, rfl⟩
  | changePriority k p =>
    obtain ⟨s', e1, e2, e3, e4⟩ := cont_step_changePriority (kind := kind) h k p
    exact ⟨s', _, e1, e2, rfl, cont_match_abs (fun e => (e.1, p)) e3 e4⟩
  | changePriorityBy k g =>
    obtain ⟨s', e1, e2, e3, e4⟩ := cont_step_changePriorityBy (kind := kind) h k g
    exact ⟨s', _, e1, e2, rfl, cont_match_abs (fun e => (e.1, g e.2)) e3 e4⟩
  | remove k =>
    obtain ⟨s', e1, e2, e3, e4⟩ := cont_step_remove (kind := kind) h k
    refine ⟨s', _, e1, e2, rfl, ?_⟩
    cases ha : s.abs k with
    | none => rw [e4 ha]
    | some e => exact e3
  | getMut k w =>
    obtain ⟨s', e1, e2, e3, e4⟩ := cont_step_getMut (kind := kind) h k w hl
    exact ⟨s', _, e1, e2, rfl, cont_match_abs (fun e => (w e.1, e.2)) e3 e4⟩
  | popFront =>
    obtain ⟨s', r, e1, e2, e3, e4⟩ := cont_step_popFront (kind := kind) h
    exact ⟨s', _, e1, e2, cont_specPop_of h e3 e4⟩
  | popBack =>
    cases kind with
    | pq => exact ⟨s, _, cont_step_popBack_pq s, h, rfl, rfl⟩
    | dpq =>
      obtain ⟨s', r, e1, e2, e3, e4⟩ := cont_step_popBack_dpq h
      exact ⟨s', _, e1, e2, cont_specPop_of h e3 e4⟩
  | popFrontIf f =>
    obtain ⟨s', r, e1, e2, e3, e4⟩ := cont_step_popFrontIf (kind := kind) h f hl
    exact ⟨s', _, e1, e2, cont_specPopIf_of h f e3 e4⟩
  | popBackIf f =>
    cases kind with
    | pq => exact ⟨s, _, cont_step_popBackIf_pq s f, h, rfl, rfl⟩
    | dpq =>
      obtain ⟨s', r, e1, e2, e3, e4⟩ := cont_step_popBackIf_dpq h f hl
      exact ⟨s', _, e1, e2, cont_specPopIf_of h f e3 e4⟩
  | peekFrontMut w =>
    obtain ⟨s', r, e1, e2, e3, e4⟩ := cont_step_peekFrontMut (kind := kind) h w hl
    exact ⟨s', _, e1, e2, cont_specPeekMut_of h w e3 e4⟩
  | peekBackMut w =>
    cases kind with
    | pq => exact ⟨s, _, cont_step_peekBackMut_pq s w, h, rfl, rfl⟩
    | dpq =>
      obtain ⟨s', r, e1, e2, e3, e4⟩ := cont_step_peekBackMut_dpq h w hl
      exact ⟨s', _, e1, e2, cont_specPeekMut_of h w e3 e4⟩
  | retainMut f =>
    obtain ⟨s', e1, e2, e3, _⟩ := cont_step_retainMut (kind := kind) h f hl
    exact ⟨s', _, e1, e2, rfl, e3⟩
  | iterMut leak prog =>
    obtain ⟨s', outs, e1, e2, e3, _, _, e4⟩ := cont_step_iterMut (kind := kind) h leak prog
    obtain ⟨a1, a2, a3, a4⟩ := cont_iterMut_abs h e4
    exact ⟨s', _, e1, e2, outs, rfl, e3, a1, a2, a3, a4⟩
  | extend lo xs =>
    obtain ⟨s', e1, e2, e3⟩ := cont_step_extend (kind := kind) h lo xs (Nat.lt_of_le_of_lt hl.1 hl.2)
    exact ⟨s', _, e1, e2, rfl, e3⟩
  | append oth =>
    obtain ⟨s', e1, e2, e3⟩ := cont_step_append (kind := kind) h (hl : oth.WF)
    refine ⟨s', _, e1, e2, rfl, fun n hn k => ?_⟩
    rw [cont_absCard_unique hn (cont_absCard_of_WF h)]
    exact e3 k
  | fromVec xs =>
    obtain ⟨s', e1, e2, e3⟩ := cont_step_fromVec (kind := kind) s xs
    exact ⟨s', _, e1, e2, rfl, e3⟩
  | fromIter lo xs =>
    obtain ⟨s', e1, e2, e3⟩ := cont_step_fromIter (kind := kind) s lo xs (Nat.lt_of_le_of_lt hl.1 hl.2)
    exact ⟨s', _, e1, e2, rfl, e3⟩
  | deserialize hint xs =>
    obtain ⟨s', e1, e2, e3⟩ := cont_step_deserialize (kind := kind) s hint xs
    exact ⟨s', _, e1, e2, rfl, e3⟩
  | convert =>
    obtain ⟨s', e1, e2, e3, _⟩ := cont_step_convert (kind := kind) h
    exact ⟨s', _, e1, e2, rfl, e3⟩
  | clear => exact ⟨s.clear, _, cont_step_clear kind s, wf_clear s, rfl, rfl⟩
  | drain =>
    exact ⟨s.drain.2, _, cont_step_drain kind s, wf_drain s, s.map.toList, rfl, rfl, cont_mem_toList_iff h,
      IMap.noDupKeys_iff_nodup.1 h.nodup⟩
  | capacityOp => exact ⟨s, _, cont_step_capacityOp _, h, rfl, rfl⟩

/-- `cont_step_total` for a queue given as a record -/
theorem cont_step_total' {q : Q P} (h : q.s.WF) (op : Op P) (hl : op.Legal) :
    ∃ q' o, step q op = .ok (q', o) ∧ q'.s.WF ∧ q'.kind = cont_kindAfter q.kind op ∧
      specStep q.kind q.s.abs op o q'.s.abs := by
  obtain ⟨kind, s⟩ := q
  obtain ⟨s', o, e1, e2, e3⟩ := cont_step_total (kind := kind) h op hl
  exact ⟨_, o, e1, e2, rfl, e3⟩

/-- the form used by the property files: whatever `step` returned meets the specification -/
theorem cont_step_refines {q q' : Q P} {op : Op P} {o : Out P} (h : q.s.WF) (hl : op.Legal)
    (hs : step q op = .ok (q', o)) :
    q'.s.WF ∧ q'.kind = cont_kindAfter q.kind op ∧ specStep q.kind q.s.abs op o q'.s.abs := by
  obtain ⟨q1, o1, e1, e2, e3, e4⟩ := cont_step_total' h op hl
  rw [e1] at hs
  cases hs
  exact ⟨e2, e3, e4⟩

/-! ## Histories -/

/-- the specification of a history: the chain of `specStep`s (the kind follows `From<other kind>` conversions) -/
inductive specRun : Kind → AbsQ P → List (Op P) → List (Out P) → AbsQ P → Prop where
  | nil (kind : Kind) (a : AbsQ P) : specRun kind a [] [] a
  | cons {kind : Kind} {a a1 a' : AbsQ P} {op : Op P} {o : Out P} {ops : List (Op P)} {os : List (Out P)} :
      specStep kind a op o a1 → specRun (cont_kindAfter kind op) a1 ops os a' → specRun kind a (op :: ops) (o :: os) a'

theorem cont_run_nil (q : Q P) : run q [] = .ok (q, []) := rfl

theorem cont_run_cons {q q1 q2 : Q P} {op : Op P} {o : Out P} {ops : List (Op P)} {os : List (Out P)}
    (h1 : step q op = .ok (q1, o)) (h2 : run q1 ops = .ok (q2, os)) : run q (op :: ops) = .ok (q2, o :: os) := by
  simp [run, h1, h2, bind, Except.bind, pure, Except.pure]

/-- a successful run of `op :: ops` splits into a successful step and a successful run -/
theorem cont_run_cons_inv {q q2 : Q P} {op : Op P} {ops : List (Op P)} {outs : List (Out P)}
    (h : run q (op :: ops) = .ok (q2, outs)) :
    ∃ q1 o os, step q op = .ok (q1, o) ∧ run q1 ops = .ok (q2, os) ∧ outs = o :: os := by
  simp only [run, bind, Except.bind, pure, Except.pure] at h
  cases h1 : step q op with
  | error e => rw [h1] at h; cases h
  | ok r1 =>
    obtain ⟨q1, o⟩ := r1
    rw [h1] at h
    simp only [] at h
    cases h2 : run q1 ops with
    | error e => rw [h2] at h; cases h
    | ok r2 =>
      obtain ⟨q2', os⟩ := r2
      rw [h2] at h
      simp only [] at h
      cases h
      exact ⟨q1, o, os, rfl, h2, rfl⟩

/-- **every history of legal operations on a well-formed queue runs to the end, stays well-formed and refines the
abstract specification at every step** -/
theorem cont_run_total (ops : List (Op P)) : ∀ {q : Q P}, q.s.WF → (∀ op ∈ ops, op.Legal) →
    ∃ q' outs, run q ops = .ok (q', outs) ∧ q'.s.WF ∧ specRun q.kind q.s.abs ops outs q'.s.abs := by
  induction ops with
  | nil => intro q h _; exact ⟨q, [], rfl, h, specRun.nil _ _⟩
  | cons op ops ih =>
    intro q h hl
    obtain ⟨q1, o, e1, e2, e3, e4⟩ := cont_step_total' h op (hl op List.mem_cons_self)
    obtain ⟨q2, os, f1, f2, f3⟩ := ih (q := q1) e2 (fun op' hop => hl op' (List.mem_cons_of_mem _ hop))
    rw [e3] at f3
    exact ⟨q2, o :: os, cont_run_cons e1 f1, f2, specRun.cons e4 f3⟩

/-! ## Frame: what the single-element operations do not touch -/

/-- the key a single-element operation names -/
def cont_target : Op P → Option Nat
  | .push it _ | .pushIncrease it _ | .pushDecrease it _ => some it.key
  | .changePriority k _ | .changePriorityBy k _ | .remove k | .getMut k _ => some k
  | _ => none

theorem cont_absPush_ne {f : AbsQ P} {it : Item} {p : P} {k : Nat} (hk : k ≠ it.key) : absPush f it p k = f k := by
  unfold absPush; rw [if_neg hk]

theorem cont_absSet_ne {f : AbsQ P} {k0 : Nat} {e : Item × P} {k : Nat} (hk : k ≠ k0) : absSet f k0 e k = f k := by
  unfold absSet; rw [if_neg hk]

theorem cont_absRemove_ne {f : AbsQ P} {k0 k : Nat} (hk : k ≠ k0) : absRemove f k0 k = f k := by
  unfold absRemove; rw [if_neg hk]

theorem cont_absSet_self {f : AbsQ P} {k0 : Nat} {e : Item × P} : absSet f k0 e k0 = some e := by
  unfold absSet; rw [if_pos rfl]

theorem cont_absRemove_self {f : AbsQ P} {k0 : Nat} : absRemove f k0 k0 = none := by
  unfold absRemove; rw [if_pos rfl]

theorem cont_absPush_self {f : AbsQ P} {it : Item} {p : P} :
    absPush f it p it.key = some (((f it.key).map (·.1)).getD it, p) := by
  unfold absPush; rw [if_pos rfl]

/-- in the specification, an operation naming the key `t` leaves every other key alone -/
theorem cont_spec_frame {kind : Kind} {a a' : AbsQ P} {op : Op P} {o : Out P} (hs : specStep kind a op o a')
    {t : Nat} (ht : cont_target op = some t) {k : Nat} (hk : k ≠ t) : a' k = a k := by
  cases op <;> simp only [cont_target, Option.some.injEq, reduceCtorEq] at ht
  case push it p => subst ht; rw [hs.2]; exact cont_absPush_ne hk
  case pushIncrease it p =>
    subst ht
    obtain ⟨h0, h1, h2⟩ := hs
    cases ha : a it.key with
    | none => rw [(h0 ha).2]; exact cont_absPush_ne hk
    | some e =>
      by_cases hlt : e.2 < p
      · rw [(h1 e ha hlt).2]; exact cont_absPush_ne hk
      · rw [(h2 e ha hlt).2]
  case pushDecrease it p =>
    subst ht
    obtain ⟨h0, h1, h2⟩ := hs
    cases ha : a it.key with
    | none => rw [(h0 ha).2]; exact cont_absPush_ne hk
    | some e =>
      by_cases hlt : p < e.2
      · rw [(h1 e ha hlt).2]; exact cont_absPush_ne hk
      · rw [(h2 e ha hlt).2]
  case changePriority k0 p =>
    subst ht
    obtain ⟨_, h1⟩ := hs
    rw [h1]
    cases a k0 with
    | none => rfl
    | some e => exact cont_absSet_ne hk
  case changePriorityBy k0 g =>
    subst ht
    obtain ⟨_, h1⟩ := hs
    rw [h1]
    cases a k0 with
    | none => rfl
    | some e => exact cont_absSet_ne hk
  case remove k0 =>
    subst ht
    obtain ⟨_, h1⟩ := hs
    rw [h1]
    cases a k0 with
    | none => rfl
    | some e => exact cont_absRemove_ne hk
  case getMut k0 w =>
    subst ht
    obtain ⟨_, h1⟩ := hs
    rw [h1]
    cases a k0 with
    | none => rfl
    | some e => exact cont_absSet_ne hk

/-! ## The stored item value (payload included) survives everything that does not rewrite or remove it -/

/-- `op` does not rewrite the item stored under key `k`: its closures leave items with key `k` as they are, an
`iter_mut` program writes no payload, an `append`ed queue does not hold `k`, and `op` is not one of the
constructors that replace the whole queue (`From<Vec>`, `FromIterator`, `Deserialize`).  Every other operation
qualifies unconditionally. -/
def cont_preservesItem (k : Nat) : Op P → Prop
  | .getMut k' w => k' = k → ∀ it, it.key = k → w it = it
  | .peekFrontMut w | .peekBackMut w => ∀ it, it.key = k → w it = it
  | .popFrontIf f | .popBackIf f | .retainMut f => ∀ it p, it.key = k → (f it p).2.1 = it
  | .iterMut _ prog => ∀ cw ∈ prog, cw.2.payload = none
  | .append o => o.abs k = none
  | .fromVec _ | .fromIter _ _ | .deserialize _ _ => False
  | _ => True

theorem cont_absPush_item {f : AbsQ P} {it : Item} {p : P} {k : Nat} {it0 : Item} {p0 : P} (ha : f k = some (it0, p0)) :
    ∃ p', absPush f it p k = some (it0, p') := by
  by_cases hk : k = it.key
  · subst hk; rw [cont_absPush_self, ha]; exact ⟨p, rfl⟩
  · rw [cont_absPush_ne hk]; exact ⟨p0, ha⟩

theorem cont_absSet_item {f : AbsQ P} {k0 : Nat} {e : Item × P} {k : Nat} {it0 : Item} {p0 : P}
    (ha : f k = some (it0, p0)) (he : k = k0 → e.1 = it0) : ∃ p', absSet f k0 e k = some (it0, p') := by
  by_cases hk : k = k0
  · subst hk; rw [cont_absSet_self]; exact ⟨e.2, by rw [← he rfl]⟩
  · rw [cont_absSet_ne hk]; exact ⟨p0, ha⟩

theorem cont_absRemove_item {f : AbsQ P} {k0 k : Nat} {it0 : Item} {p0 : P} (ha : f k = some (it0, p0)) :
    absRemove f k0 k = none ∨ ∃ p', absRemove f k0 k = some (it0, p') := by
  by_cases hk : k = k0
  · subst hk; exact .inl cont_absRemove_self
  · rw [cont_absRemove_ne hk]; exact .inr ⟨p0, ha⟩

theorem cont_absStep_eq_absPush (f : AbsQ P) (e : Item × P) : Store.absStep f e = absPush f e.1 e.2 := by
  funext k
  unfold absPush Store.absStep
  by_cases hk : k = e.1.key
  · subst hk; rfl
  · rw [if_neg hk, if_neg hk]

theorem cont_foldl_absStep_item (l : List (Item × P)) {k : Nat} {it0 : Item} : ∀ {f : AbsQ P} {p0 : P},
    f k = some (it0, p0) → ∃ p', l.foldl Store.absStep f k = some (it0, p') := by
  induction l with
  | nil => intro f p0 ha; exact ⟨p0, ha⟩
  | cons e l ih =>
    intro f p0 ha
    rw [List.foldl_cons]
    obtain ⟨p1, h1⟩ := cont_absPush_item (it := e.1) (p := e.2) ha
    rw [← cont_absStep_eq_absPush] at h1
    exact ih h1

theorem cont_find?_none_of_forall {l : List (Item × P)} {k : Nat} (h : ∀ e ∈ l, e.1.key ≠ k) :
    l.find? (fun e => e.1.key == k) = none := by
  rw [List.find?_eq_none]
  intro e he
  simpa using h e he

theorem cont_specPop_item {a a' : AbsQ P} {o : Out P} (hs : specPop a o a') {k : Nat} {it0 : Item} {p0 : P}
    (ha : a k = some (it0, p0)) : a' k = none ∨ ∃ p', a' k = some (it0, p') := by
  rcases hs with ⟨_, _, rfl⟩ | ⟨e, _, _, rfl⟩
  · exact .inr ⟨p0, ha⟩
  · exact cont_absRemove_item ha

theorem cont_specPopIf_item {f : Item → P → Bool × Item × P} {a a' : AbsQ P} {o : Out P} (hs : specPopIf f a o a')
    {k : Nat} {it0 : Item} {p0 : P} (ha : a k = some (it0, p0)) (hk0 : it0.key = k)
    (hp : ∀ it p, it.key = k → (f it p).2.1 = it) : a' k = none ∨ ∃ p', a' k = some (it0, p') := by
  rcases hs with ⟨_, _, rfl⟩ | ⟨e, he, ⟨_, _, rfl⟩ | ⟨_, _, rfl⟩⟩
  · exact .inr ⟨p0, ha⟩
  · exact cont_absRemove_item ha
  · refine .inr (cont_absSet_item ha (fun hk => ?_))
    subst hk
    rw [ha] at he
    cases he
    exact hp it0 p0 hk0

theorem cont_specPeekMut_item {w : Item → Item} {a a' : AbsQ P} {o : Out P} (hs : specPeekMut w a o a')
    {k : Nat} {it0 : Item} {p0 : P} (ha : a k = some (it0, p0)) (hk0 : it0.key = k)
    (hp : ∀ it, it.key = k → w it = it) : a' k = none ∨ ∃ p', a' k = some (it0, p') := by
  rcases hs with ⟨_, _, rfl⟩ | ⟨e, he, _, rfl⟩
  · exact .inr ⟨p0, ha⟩
  · refine .inr (cont_absSet_item ha (fun hk => ?_))
    subst hk
    rw [ha] at he
    cases he
    exact hp it0 hk0

/-- **in the specification, an operation that does not rewrite the item of key `k` either removes `k` or keeps its
stored item (payload included)** -/
theorem cont_spec_item_persists {kind : Kind} {a a' : AbsQ P} {op : Op P} {o : Out P} (hs : specStep kind a op o a')
    (hc : ∃ n, cont_absCard a n) {k : Nat} (hp : cont_preservesItem k op) {it0 : Item} {p0 : P}
    (ha : a k = some (it0, p0)) (hk0 : it0.key = k) : a' k = none ∨ ∃ p', a' k = some (it0, p') := by
  cases op with
  | push it p => rw [hs.2]; exact .inr (cont_absPush_item ha)
  | pushIncrease it p =>
    obtain ⟨h0, h1, h2⟩ := hs
    cases hb : a it.key with
    | none => rw [(h0 hb).2]; exact .inr (cont_absPush_item ha)
    | some e =>
      by_cases hlt : e.2 < p
      · rw [(h1 e hb hlt).2]; exact .inr (cont_absPush_item ha)
      · rw [(h2 e hb hlt).2]; exact .inr ⟨p0, ha⟩
  | pushDecrease it p =>
    obtain ⟨h0, h1, h2⟩ := hs
    cases hb : a it.key with
    | none => rw [(h0 hb).2]; exact .inr (cont_absPush_item ha)
    | some e =>
      by_cases hlt : p < e.2
      · rw [(h1 e hb hlt).2]; exact .inr (cont_absPush_item ha)
      · rw [(h2 e hb hlt).2]; exact .inr ⟨p0, ha⟩
  | changePriority k0 p =>
    rw [hs.2]
    cases hb : a k0 with
    | none => exact .inr ⟨p0, ha⟩
    | some e =>
      refine .inr (cont_absSet_item ha (fun hk => ?_))
      subst hk; rw [ha] at hb; cases hb; rfl
  | changePriorityBy k0 g =>
    rw [hs.2]
    cases hb : a k0 with
    | none => exact .inr ⟨p0, ha⟩
    | some e =>
      refine .inr (cont_absSet_item ha (fun hk => ?_))
      subst hk; rw [ha] at hb; cases hb; rfl
  | remove k0 =>
    rw [hs.2]
    cases hb : a k0 with
    | none => exact .inr ⟨p0, ha⟩
    | some e => exact cont_absRemove_item ha
  | getMut k0 w =>
    rw [hs.2]
    cases hb : a k0 with
    | none => exact .inr ⟨p0, ha⟩
    | some e =>
      refine .inr (cont_absSet_item ha (fun hk => ?_))
      subst hk; rw [ha] at hb; cases hb
      exact hp rfl it0 hk0
  | popFront => exact cont_specPop_item hs ha
  | popBack =>
    cases kind with
    | pq => rw [hs.2]; exact .inr ⟨p0, ha⟩
    | dpq => exact cont_specPop_item hs ha
  | popFrontIf f => exact cont_specPopIf_item hs ha hk0 hp
  | popBackIf f =>
    cases kind with
    | pq => rw [hs.2]; exact .inr ⟨p0, ha⟩
    | dpq => exact cont_specPopIf_item hs ha hk0 hp
  | peekFrontMut w => exact cont_specPeekMut_item hs ha hk0 hp
  | peekBackMut w =>
    cases kind with
    | pq => rw [hs.2]; exact .inr ⟨p0, ha⟩
    | dpq => exact cont_specPeekMut_item hs ha hk0 hp
  | retainMut f =>
    rw [hs.2]
    show (a k).bind (IMap.retainStep f) = none ∨ ∃ p', (a k).bind (IMap.retainStep f) = some (it0, p')
    rw [ha]
    show IMap.retainStep f (it0, p0) = none ∨ ∃ p', IMap.retainStep f (it0, p0) = some (it0, p')
    unfold IMap.retainStep
    by_cases hr : (f it0 p0).1 = true
    · right; refine ⟨(f it0 p0).2.2, ?_⟩
      simp only [hr, if_true]
      rw [hp it0 p0 hk0]
    · left; simp only [hr, if_false]; rfl
  | iterMut leak prog =>
    obtain ⟨outs, _, _, _, _, h3, _⟩ := hs
    have := h3 hp k
    rw [ha] at this
    cases hb : a' k with
    | none => exact .inl rfl
    | some e =>
      rw [hb] at this
      obtain ⟨it1, p1⟩ := e
      simp only [Option.map_some, Option.some.injEq] at this
      subst this
      exact .inr ⟨p1, rfl⟩
  | extend lo xs =>
    rw [hs.2, ← Array.foldl_toList]
    exact .inr (cont_foldl_absStep_item xs.toList ha)
  | append oth =>
    obtain ⟨n, hn⟩ := hc
    rw [hs.2 n hn k, (hp : oth.abs k = none)]
    refine .inr ⟨p0, ?_⟩
    split
    · rw [Option.none_or]; exact ha
    · rw [Option.or_none]; exact ha
  | fromVec xs => exact absurd hp id
  | fromIter lo xs => exact absurd hp id
  | deserialize hint xs => exact absurd hp id
  | convert => rw [hs.2]; exact .inr ⟨p0, ha⟩
  | clear => rw [hs.2]; exact .inl rfl
  | drain =>
    obtain ⟨es, _, h2, _⟩ := hs
    rw [h2]; exact .inl rfl
  | capacityOp => rw [hs.2]; exact .inr ⟨p0, ha⟩

/-! ## `iter_mut`, exactly: the entry of a slot afterwards is the composition of the writes made through it -/

/-- all the writes of the program that went through slot `j` (those whose call yielded `j`), applied in order -/
def cont_writesAt (j : Nat) : List IOut → List (ICall × IMWrite P) → Item × P → Item × P
  | o :: outs, cw :: prog, e => cont_writesAt j outs prog (if o = IOut.slot (some j) then cw.2.cont_apply e else e)
  | [], _, e => e
  | _ :: _, [], e => e

theorem cont_writesAt_key (j : Nat) (outs : List IOut) : ∀ (prog : List (ICall × IMWrite P)) (e : Item × P),
    (cont_writesAt j outs prog e).1.key = e.1.key := by
  induction outs with
  | nil => intro prog e; rfl
  | cons o outs ih =>
    intro prog e
    cases prog with
    | nil => rfl
    | cons cw prog =>
      simp only [cont_writesAt]
      rw [ih]
      split
      · exact cont_apply_key _ _
      · rfl

/-- a slot that was yielded exactly once, by call number `t`, holds the entry written by the `t`-th write -/
theorem cont_writesAt_once (j : Nat) (outs : List IOut) : ∀ (prog : List (ICall × IMWrite P)) (e : Item × P) (t : Nat)
    (cw : ICall × IMWrite P), outs[t]? = some (.slot (some j)) → prog[t]? = some cw →
    (∀ t', outs[t']? = some (.slot (some j)) → t' = t) → cont_writesAt j outs prog e = cw.2.cont_apply e := by
  induction outs with
  | nil => intro prog e t cw ho; simp at ho
  | cons o outs ih =>
    intro prog e t cw ho hp huniq
    cases prog with
    | nil => simp at hp
    | cons cw0 prog =>
      simp only [cont_writesAt]
      cases t with
      | zero =>
        simp only [List.getElem?_cons_zero, Option.some.injEq] at ho hp
        subst ho; subst hp
        simp only [if_true]
        -- no later call yields `j`: the remaining writes leave the entry alone
        have hnone : ∀ t', outs[t']? ≠ some (IOut.slot (some j)) := fun t' h' => by
          have := huniq (t' + 1) (by simpa using h'); omega
        clear ih huniq
        generalize cw0.2.cont_apply e = e1
        induction outs generalizing prog e1 with
        | nil => rfl
        | cons o' outs' ih' =>
          cases prog with
          | nil => rfl
          | cons cw1 prog' =>
            simp only [cont_writesAt]
            have h0 : o' ≠ .slot (some j) := fun h => hnone 0 (by simp [h])
            rw [if_neg h0]
            exact ih' prog' (fun t' h' => hnone (t' + 1) (by simpa using h')) e1
      | succ t =>
        have h0 : o ≠ .slot (some j) := fun h => by
          have := huniq 0 (by simp [h]); omega
        rw [if_neg h0]
        exact ih prog e t cw (by simpa using ho) (by simpa using hp) (fun t' h' => by
          have := huniq (t' + 1) (by simpa using h'); omega)

theorem cont_getElem?_writeOut (m : IMap P) (o : IOut) (w : IMWrite P) (j : Nat) :
    (cont_writeOut m o w)[j]? = (m[j]?).map (fun e => if o = IOut.slot (some j) then w.cont_apply e else e) := by
  by_cases ho : o = .slot (some j)
  · subst ho
    show (IMap.applyWrite m j w)[j]? = _
    rw [cont_getElem?_applyWrite, if_pos rfl]
    simp
  · rw [((cont_writeOut_facts m o w).2 j).2.1 ho]
    simp [ho]

/-- **`iter_mut` programs, exactly**: after the run each slot holds its old entry rewritten by the writes that went
through the references yielded for it, in order -/
theorem cont_iterMutRun_exact (kind : Kind) (n : Nat) (prog : List (ICall × IMWrite P)) :
    ∀ (pit : PIterMut) (dit : DIterMut) (m : IMap P) (outs : List IOut) (m' : IMap P),
    iterMutRun kind n prog pit dit m = .ok (outs, m') → ∀ j, m'[j]? = (m[j]?).map (cont_writesAt j outs prog) := by
  induction prog with
  | nil =>
    intro pit dit m outs m' h j
    rw [cont_iterMutRun_nil] at h; cases h
    simp [cont_writesAt]
  | cons cw rest ih =>
    obtain ⟨c, w⟩ := cw
    intro pit dit m outs m' h j
    have hstep : ∃ pit' dit' o outs1, iterMutRun kind n rest pit' dit' (cont_writeOut m o w) = .ok (outs1, m') ∧
        outs = o :: outs1 := by
      cases kind with
      | pq =>
        rw [cont_iterMutRun_cons_pq] at h
        cases hr : iterMutRun .pq n rest (pit.step n c).1 dit (cont_writeOut m (pit.step n c).2 w) with
        | error e => rw [hr] at h; cases h
        | ok r =>
          obtain ⟨outs1, m1⟩ := r
          rw [hr] at h; simp only [] at h; cases h
          exact ⟨_, _, _, outs1, hr, rfl⟩
      | dpq =>
        cases hs : dit.step n c with
        | error e => simp [iterMutRun, hs, bind, Except.bind] at h
        | ok r =>
          obtain ⟨dit', o⟩ := r
          rw [cont_iterMutRun_cons_dpq n c w rest pit dit dit' o m hs] at h
          cases hr : iterMutRun .dpq n rest pit dit' (cont_writeOut m o w) with
          | error e => rw [hr] at h; cases h
          | ok r =>
            obtain ⟨outs1, m1⟩ := r
            rw [hr] at h; simp only [] at h; cases h
            exact ⟨_, _, _, outs1, hr, rfl⟩
    obtain ⟨pit', dit', o, outs1, hr, rfl⟩ := hstep
    rw [ih pit' dit' _ outs1 m' hr j, cont_getElem?_writeOut]
    cases m[j]? with
    | none => rfl
    | some e => rfl

/-- the `step` form: the slot array after `iter_mut` (guard dropped or leaked) -/
theorem cont_step_iterMut_exact {kind : Kind} {s s' : Store P} {leak : Bool} {prog : List (ICall × IMWrite P)}
    {outs : List IOut} (h : s.WF) (hs : step ⟨kind, s⟩ (.iterMut leak prog) = .ok (⟨kind, s'⟩, .outs outs)) :
    ∀ j, s'.map[j]? = (s.map[j]?).map (cont_writesAt j outs prog) := by
  obtain ⟨outs1, m1, hrun, _, hsz, hslots⟩ :=
    cont_iterMutRun kind s.map.size prog PIterMut.new (DIterMut.new s.map.size) s.map (Nat.zero_le _) (Nat.le_refl _)
  have hex := cont_iterMutRun_exact kind s.map.size prog _ _ _ _ _ hrun
  have hkeys : ∀ j : Nat, (m1[j]?).map (fun e : Item × P => e.1.key) = (s.map[j]?).map (fun e : Item × P => e.1.key) :=
    fun j => (hslots j).1
  have hwf1 : ({ s with map := m1 } : Store P).WF := wf_of_map_update h hsz (IMap.NoDupKeys.congr_keys h.nodup hkeys)
  cases leak with
  | true =>
    simp [step, hrun, bind, Except.bind, pure, Except.pure] at hs
    obtain ⟨rfl, rfl⟩ := hs
    exact hex
  | false =>
    obtain ⟨s2, e1, _, e3, _⟩ := cont_heapBuildK_safe (kind := kind) hwf1
    simp [step, hrun, e1, bind, Except.bind, pure, Except.pure] at hs
    obtain ⟨rfl, rfl⟩ := hs
    intro j; rw [e3]; exact hex j

/-- … and its abstract face: the entry of key `k`, stored in slot `j` -/
theorem cont_step_iterMut_abs {kind : Kind} {s s' : Store P} {leak : Bool} {prog : List (ICall × IMWrite P)}
    {outs : List IOut} (h : s.WF) (hs : step ⟨kind, s⟩ (.iterMut leak prog) = .ok (⟨kind, s'⟩, .outs outs))
    {k j : Nat} (hj : IMap.find? s.map k = some j) :
    s'.abs k = (s.abs k).map (cont_writesAt j outs prog) := by
  have hex := cont_step_iterMut_exact h hs
  have hkeys : ∀ i : Nat, (s'.map[i]?).map (fun e : Item × P => e.1.key) = (s.map[i]?).map (fun e : Item × P => e.1.key) := by
    intro i
    rw [hex i]
    cases s.map[i]? with
    | none => rfl
    | some e => simp [cont_writesAt_key]
  show IMap.lookup s'.map k = (IMap.lookup s.map k).map _
  rw [IMap.lookup_eq_find?, IMap.lookup_eq_find?, IMap.find?_congr_keys hkeys k, hj]
  exact hex j

/-! ## The stored item along a history -/

/-- the item value (key and payload) the queue stores for key `k` -/
def storedItem (q : Q P) (k : Nat) : Option Item := (q.s.abs k).map (·.1)

theorem cont_storedItem_eq_some {q : Q P} {k : Nat} {it0 : Item} :
    storedItem q k = some it0 ↔ ∃ p0, q.s.abs k = some (it0, p0) := by
  unfold storedItem
  cases h : q.s.abs k with
  | none => simp
  | some e =>
    obtain ⟨it1, p1⟩ := e
    simp only [Option.map_some, Option.some.injEq, Prod.mk.injEq]
    constructor
    · rintro rfl; exact ⟨p1, rfl, rfl⟩
    · rintro ⟨p0, rfl, _⟩; rfl

/-- `op` is one of the priority updates addressed to key `k` -/
def cont_isUpdateOf (k : Nat) : Op P → Prop
  | .push it _ | .pushIncrease it _ | .pushDecrease it _ => it.key = k
  | .changePriority k' _ | .changePriorityBy k' _ => k' = k
  | _ => False

/-- `k` is stored after every prefix of the history `ops` run from `q` -/
def cont_presentThroughout (k : Nat) (q : Q P) (ops : List (Op P)) : Prop :=
  ∀ n q1 outs, run q (ops.take n) = .ok (q1, outs) → (q1.s.abs k).isSome = true

/-- one step: an operation that does not rewrite the item of `k` and does not remove `k` keeps the stored item -/
theorem cont_step_item_persists {q q' : Q P} {op : Op P} {o : Out P} {k : Nat} (hq : q.s.WF) (hl : op.Legal)
    (hp : cont_preservesItem k op) (hs : step q op = .ok (q', o)) (hk : (q'.s.abs k).isSome = true) {it0 : Item}
    (h0 : storedItem q k = some it0) : storedItem q' k = some it0 := by
  obtain ⟨p0, ha⟩ := cont_storedItem_eq_some.1 h0
  have hspec := (cont_step_refines hq hl hs).2.2
  rcases cont_spec_item_persists hspec ⟨_, cont_absCard_of_WF hq⟩ hp ha (IMap.lookup_key ha) with hn | ⟨p', h'⟩
  · rw [hn] at hk; cases hk
  · exact cont_storedItem_eq_some.2 ⟨p', h'⟩

/-- histories: if no operation rewrites the item of `k` and `k` is stored after every prefix, the stored item at the
end is the one at the start -/
theorem cont_run_item_persists {k : Nat} {it0 : Item} (ops : List (Op P)) : ∀ {q q' : Q P} {outs : List (Out P)},
    q.s.WF → (∀ op ∈ ops, op.Legal ∧ cont_preservesItem k op) → cont_presentThroughout k q ops →
    storedItem q k = some it0 → run q ops = .ok (q', outs) → storedItem q' k = some it0 := by
  induction ops with
  | nil => intro q q' outs _ _ _ h0 hr; rw [cont_run_nil] at hr; cases hr; exact h0
  | cons op ops ih =>
    intro q q' outs hq hl hpres h0 hr
    obtain ⟨q1, o, os, h1, h2, rfl⟩ := cont_run_cons_inv hr
    obtain ⟨hl1, hp1⟩ := hl op List.mem_cons_self
    have hq1 := (cont_step_refines hq hl1 h1).1
    have hk1 : (q1.s.abs k).isSome = true := hpres 1 q1 [o] (cont_run_cons h1 (cont_run_nil q1))
    have h01 := cont_step_item_persists hq hl1 hp1 h1 hk1 h0
    refine ih hq1 (fun op' hop => hl op' (List.mem_cons_of_mem _ hop)) (fun n q2 outs' hr2 => ?_) h01 h2
    exact hpres (n + 1) q2 (o :: outs') (cont_run_cons h1 hr2)

/-! ## Concrete queues for the non-vacuity examples of the property files -/

/-- "the result is `.ok x` and `q x` holds" (decidable when `q` is: `Except` has no `DecidableEq`) -/
def cont_okR {α : Type} (r : R α) (q : α → Prop) : Prop :=
  match r with
  | .ok x => q x
  | .error _ => False

instance {α : Type} (r : R α) (q : α → Prop) [DecidablePred q] : Decidable (cont_okR r q) := by
  unfold cont_okR; split <;> infer_instance

theorem cont_okR_iff {α : Type} {r : R α} {q : α → Prop} : cont_okR r q ↔ ∃ x, r = .ok x ∧ q x := by
  unfold cont_okR
  cases r with
  | error e => simp
  | ok x => simp

/-- the priority an `Out` carries -/
def cont_outPrio {P : Type} : Out P → Option (Option P)
  | .prio r => some r
  | _ => none

/-- the entry an `Out` carries -/
def cont_outEntry {P : Type} : Out P → Option (Option (Item × P))
  | .entry r => some r
  | _ => none

def cont_outBool {P : Type} : Out P → Option Bool
  | .bool b => some b
  | _ => none

/-- a five-element max-heap (priorities by position: 9 / 5 7 / 1 3), payloads `10·key` -/
def cont_ex5 : Store Nat :=
  { map := #[(⟨1, 10⟩, 5), (⟨2, 20⟩, 9), (⟨3, 30⟩, 7), (⟨4, 40⟩, 1), (⟨5, 50⟩, 3)],
    heap := #[1, 0, 2, 3, 4], qp := #[1, 0, 2, 3, 4], size := 5 }

/-- a five-element min-max heap (min level 1 / max level 9 7 / min level 5 3) -/
def cont_exD : Store Nat :=
  { map := #[(⟨1, 10⟩, 5), (⟨2, 20⟩, 9), (⟨3, 30⟩, 7), (⟨4, 40⟩, 1), (⟨5, 50⟩, 3)],
    heap := #[3, 1, 2, 0, 4], qp := #[3, 1, 2, 0, 4], size := 5 }

end PQ
