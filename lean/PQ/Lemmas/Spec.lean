import PQ.Lemmas.Tables
import PQ.Lemmas.Bulk
import PQ.Lemmas.PQUp
import PQ.Lemmas.MinMaxUpHeapify
/-!
# The abstract specification both queues refine, and the invariants of the two queue kinds
-/
namespace PQ
variable {P : Type}

/-- the abstract state: a finite map from item key to the stored (item, priority) -/
abbrev Store.abs (s : Store P) (k : Nat) : Option (Item × P) := IMap.lookup s.map k

/-- invariant of `PriorityQueue` -/
def MaxQ.Inv [LT P] (s : Store P) : Prop := s.WF ∧ s.MaxHeap
/-- invariant of `DoublePriorityQueue` -/
def DQ.Inv [LT P] (s : Store P) : Prop := s.WF ∧ s.MinMaxHeap

/-- abstract effect of inserting / updating `it ↦ p`: a present item keeps its stored value -/
def absPush (f : Nat → Option (Item × P)) (it : Item) (p : P) : Nat → Option (Item × P) :=
  fun k => if k = it.key then some (((f it.key).map (·.1)).getD it, p) else f k

/-- abstract effect of removing key `k0` -/
def absRemove (f : Nat → Option (Item × P)) (k0 : Nat) : Nat → Option (Item × P) :=
  fun k => if k = k0 then none else f k

/-- abstract effect of rewriting the entry of `k0` -/
def absSet (f : Nat → Option (Item × P)) (k0 : Nat) (e : Item × P) : Nat → Option (Item × P) :=
  fun k => if k = k0 then some e else f k

end PQ
