import PQ.Lemmas.SrcEquivPanicDQ
set_option linter.unusedSimpArgs false
set_option linter.unusedSectionVars false
/-! # Unwinding tie, part 4: the bulk operations (`retain`, `append`, constructors) of both queues -/
namespace PQ.SrcEquivF
open PQ PQ.Src PQ.SrcGen PQ.SrcF PQ.Crash PQ.SrcEquiv
variable {P : Type} [LT P] [DecidableLT P]

theorem call_pqHeapBuildF (fuse : Nat) (s : Store P) (n : Nat) (h : n ≥ s.size + 3) :
    toCRcall (callWithF (execF prog unwind fuse false n) (exec prog n) prog unwind .pqHeapBuild s [] [] [])
      = (fun s' => (s', Val.unit)) <$> Crash.MaxQ.heapBuildF fuse s := by
  rw [← runF_eq]; exact pqHeapBuildF fuse s n h

theorem asNew_liftR_bind {α β : Type} (x : R α) (f : α → CR P β) :
    asNew (liftR x >>= f) = liftR x >>= fun a => asNew (f a) := by
  cases x <;> rfl
theorem asNew_map {α β : Type} (g : α → β) (x : CR P α) : asNew (g <$> x) = g <$> asNew x := by
  cases x with
  | ok a => rfl
  | error e => cases e <;> rfl
theorem asNew_bind_pure {α β : Type} (g : α → β) (x : CR P α) : asNew (x >>= fun a => pure (g a)) = asNew x >>= fun a => pure (g a) := by
  cases x with
  | ok a => rfl
  | error e => cases e <;> rfl

/-- `PriorityQueue::retain_mut` under a panicking comparison = `Crash.MaxQ.retainMutF` (the store-level retain is complete) -/
theorem pqRetainMutF (fuse : Nat) (s : Store P) (f : Item → P → Bool × Item × P) (fuel : Nat)
    (h : fuel ≥ (s.retainMut f).size + 5) :
    runF prog unwind fuse false fuel .pqRetainMut s [] [] [Val.pred f]
      = (fun s' => (s', Val.unit)) <$> Crash.MaxQ.retainMutF fuse s f := by
  obtain ⟨n, rfl⟩ : ∃ n, fuel = n + 3 := ⟨fuel - 3, by omega⟩
  rw [runF_frame0 prog unwind fuse false (n + 2) .pqRetainMut _ s _ _ _ rfl rfl]
  unfold Crash.MaxQ.retainMutF
  rw [execF, pqRetainMut_body]
  srcF_eval
  srcF_cr [call_storeRetainMut]
  rw [call_pqHeapBuildF _ _ _ (by omega)]
  srcF_cr

/-- `PriorityQueue::retain` under a panicking comparison -/
theorem pqRetainF (fuse : Nat) (s : Store P) (g : Item → P → Bool) (fuel : Nat)
    (h : fuel ≥ (s.retainMut (fun i p => (g i p, i, p))).size + 5) :
    runF prog unwind fuse false fuel .pqRetain s [] [] [Val.predRO g]
      = (fun s' => (s', Val.unit)) <$> Crash.MaxQ.retainMutF fuse s (fun i p => (g i p, i, p)) := by
  obtain ⟨n, rfl⟩ : ∃ n, fuel = n + 3 := ⟨fuel - 3, by omega⟩
  rw [runF_frame0 prog unwind fuse false (n + 2) .pqRetain _ s _ _ _ rfl rfl]
  unfold Crash.MaxQ.retainMutF
  rw [execF, pqRetain_body]
  srcF_eval
  srcF_cr [call_storeRetain]
  rw [call_pqHeapBuildF _ _ _ (by omega)]
  srcF_cr

/-- `PriorityQueue::append` under a panicking comparison = `Crash.MaxQ.appendF` (`other` is already drained; only the
receiver's store is reported) -/
theorem pqAppendF (fuse : Nat) (s o : Store P) (fuel : Nat) (h : fuel ≥ (s.append o).1.size + 5) :
    runF prog unwind fuse false fuel .pqAppend s [] [] [Val.store o]
      = (fun r => (r.1, Val.store r.2)) <$> Crash.MaxQ.appendF fuse s o := by
  obtain ⟨n, rfl⟩ : ∃ n, fuel = n + 3 := ⟨fuel - 3, by omega⟩
  rw [runF_frame0 prog unwind fuse false (n + 2) .pqAppend _ s _ _ _ rfl rfl]
  unfold Crash.MaxQ.appendF
  rw [execF, pqAppend_body]
  srcF_eval [call_storeAppend]
  srcF_cr
  rw [call_pqHeapBuildF _ _ _ (by omega)]
  srcF_cr

/-- `From<Vec<(I, P)>> for PriorityQueue` under a panicking comparison = `Crash.MaxQ.fromVecF`: the queue under construction
is a local of the constructor, a panic drops it (`asNew`) -/
theorem pqFromVecF (fuse : Nat) (s : Store P) (v : Array (Item × P)) (hv : v.size < capLimit) (fuel : Nat)
    (h : fuel ≥ (Store.fromVec v : Store P).size + 5) :
    asNew (runF prog unwind fuse false fuel .pqFromVec s [] [] [Val.entries v])
      = (fun s' => (s', Val.unit)) <$> Crash.MaxQ.fromVecF fuse v := by
  obtain ⟨n, rfl⟩ : ∃ n, fuel = n + 3 := ⟨fuel - 3, by omega⟩
  rw [runF_frame0 prog unwind fuse false (n + 2) .pqFromVec _ s _ _ _ rfl rfl]
  unfold Crash.MaxQ.fromVecF
  rw [execF, pqFromVec_body]
  srcF_eval
  srcF_cr [call_storeFromVec _ _ hv]
  rw [call_pqHeapBuildF _ _ _ (by omega)]
  srcF_cr
  rw [asNew_bind_pure]

/-- `FromIterator for PriorityQueue` under a panicking comparison = `Crash.MaxQ.fromIterF` -/
theorem pqFromIterF (fuse : Nat) (s : Store P) (lo : Nat) (xs : Array (Item × P)) (fuel : Nat)
    (h : fuel ≥ (Store.fromIter xs : Store P).size + 5) :
    asNew (runF prog unwind fuse false fuel .pqFromIter s [] [] [Val.iter lo xs])
      = (fun s' => (s', Val.unit)) <$> Crash.MaxQ.fromIterF fuse lo xs := by
  obtain ⟨n, rfl⟩ : ∃ n, fuel = n + 3 := ⟨fuel - 3, by omega⟩
  rw [runF_frame0 prog unwind fuse false (n + 2) .pqFromIter _ s _ _ _ rfl rfl]
  unfold Crash.MaxQ.fromIterF
  rw [execF, pqFromIter_body]
  srcF_eval
  srcF_cr [call_storeFromIter]
  rw [asNew_liftR_bind]
  refine liftR_bind_congr_ok fun _ _ => ?_
  rw [call_pqHeapBuildF _ _ _ (by omega)]
  srcF_cr
  rw [asNew_bind_pure]

/-- `From<DoublePriorityQueue> for PriorityQueue` under a panicking comparison = `Crash.MaxQ.ofStoreF` (the consumed queue's
store is rebuilt in place) -/
theorem pqFromQueueF (fuse : Nat) (s : Store P) (fuel : Nat) (h : fuel ≥ s.size + 4) :
    runF prog unwind fuse false fuel .pqFromQueue s [] = (fun s' => (s', Val.unit)) <$> Crash.MaxQ.ofStoreF fuse s := by
  obtain ⟨n, rfl⟩ : ∃ n, fuel = n + 1 := ⟨fuel - 1, by omega⟩
  rw [runF_frame0 prog unwind fuse false n .pqFromQueue _ s _ _ _ rfl rfl]
  unfold Crash.MaxQ.ofStoreF
  rw [execF, pqFromQueue_body]
  srcF_eval
  srcF_cr
  rw [call_pqHeapBuildF _ _ _ (by omega)]
  srcF_cr

/-- `Deserialize for PriorityQueue` under a panicking comparison = `Crash.MaxQ.deserializeF` -/
theorem pqDeserializeF (fuse : Nat) (s : Store P) (hint : Option Nat) (xs : Array (Item × P)) (fuel : Nat)
    (h : fuel ≥ (Store.visitSeq xs : Store P).size + 5) :
    asNew (runF prog unwind fuse false fuel .pqDeserialize s [] [] [Val.seq hint xs])
      = (fun s' => (s', Val.unit)) <$> Crash.MaxQ.deserializeF fuse hint xs := by
  obtain ⟨n, rfl⟩ : ∃ n, fuel = n + 3 := ⟨fuel - 3, by omega⟩
  rw [runF_frame0 prog unwind fuse false (n + 2) .pqDeserialize _ s _ _ _ rfl rfl]
  unfold Crash.MaxQ.deserializeF
  rw [execF, pqDeserialize_body]
  srcF_eval
  srcF_cr [call_storeVisitSeq]
  cases hint with
  | none =>
    srcF_cr
    rw [call_pqHeapBuildF _ _ _ (by omega)]
    srcF_cr
    rw [asNew_bind_pure]
  | some hh =>
    simp only [Arith.deserPrealloc, bind_assoc]
    rw [asNew_liftR_bind]
    refine liftR_bind_congr_ok fun _ _ => ?_
    rw [call_pqHeapBuildF _ _ _ (by omega)]
    srcF_cr
    rw [asNew_bind_pure]

theorem call_dqHeapBuildF (fuse : Nat) (s : Store P) (n : Nat) (h : n ≥ s.size + 4) :
    toCRcall (callWithF (execF prog unwind fuse false n) (exec prog n) prog unwind .dqHeapBuild s [] [] [])
      = (fun s' => (s', Val.unit)) <$> Crash.DQ.heapBuildF fuse s := by
  rw [← runF_eq]; exact dqHeapBuildF fuse s n h

/-- `DoublePriorityQueue::retain_mut` under a panicking comparison = `Crash.DQ.retainMutF` (the store-level retain is complete) -/
theorem dqRetainMutF (fuse : Nat) (s : Store P) (f : Item → P → Bool × Item × P) (fuel : Nat)
    (h : fuel ≥ (s.retainMut f).size + 6) :
    runF prog unwind fuse false fuel .dqRetainMut s [] [] [Val.pred f]
      = (fun s' => (s', Val.unit)) <$> Crash.DQ.retainMutF fuse s f := by
  obtain ⟨n, rfl⟩ : ∃ n, fuel = n + 3 := ⟨fuel - 3, by omega⟩
  rw [runF_frame0 prog unwind fuse false (n + 2) .dqRetainMut _ s _ _ _ rfl rfl]
  unfold Crash.DQ.retainMutF
  rw [execF, dqRetainMut_body]
  srcF_eval
  srcF_cr [call_storeRetainMut]
  rw [call_dqHeapBuildF _ _ _ (by omega)]
  srcF_cr

/-- `DoublePriorityQueue::retain` under a panicking comparison -/
theorem dqRetainF (fuse : Nat) (s : Store P) (g : Item → P → Bool) (fuel : Nat)
    (h : fuel ≥ (s.retainMut (fun i p => (g i p, i, p))).size + 6) :
    runF prog unwind fuse false fuel .dqRetain s [] [] [Val.predRO g]
      = (fun s' => (s', Val.unit)) <$> Crash.DQ.retainMutF fuse s (fun i p => (g i p, i, p)) := by
  obtain ⟨n, rfl⟩ : ∃ n, fuel = n + 3 := ⟨fuel - 3, by omega⟩
  rw [runF_frame0 prog unwind fuse false (n + 2) .dqRetain _ s _ _ _ rfl rfl]
  unfold Crash.DQ.retainMutF
  rw [execF, dqRetain_body]
  srcF_eval
  srcF_cr [call_storeRetain]
  rw [call_dqHeapBuildF _ _ _ (by omega)]
  srcF_cr

/-- `DoublePriorityQueue::append` under a panicking comparison = `Crash.DQ.appendF` (`other` is already drained; only the
receiver's store is reported) -/
theorem dqAppendF (fuse : Nat) (s o : Store P) (fuel : Nat) (h : fuel ≥ (s.append o).1.size + 6) :
    runF prog unwind fuse false fuel .dqAppend s [] [] [Val.store o]
      = (fun r => (r.1, Val.store r.2)) <$> Crash.DQ.appendF fuse s o := by
  obtain ⟨n, rfl⟩ : ∃ n, fuel = n + 3 := ⟨fuel - 3, by omega⟩
  rw [runF_frame0 prog unwind fuse false (n + 2) .dqAppend _ s _ _ _ rfl rfl]
  unfold Crash.DQ.appendF
  rw [execF, dqAppend_body]
  srcF_eval [call_storeAppend]
  srcF_cr
  rw [call_dqHeapBuildF _ _ _ (by omega)]
  srcF_cr

/-- `From<Vec<(I, P)>> for DoublePriorityQueue` under a panicking comparison = `Crash.DQ.fromVecF`: the queue under construction
is a local of the constructor, a panic drops it (`asNew`) -/
theorem dqFromVecF (fuse : Nat) (s : Store P) (v : Array (Item × P)) (hv : v.size < capLimit) (fuel : Nat)
    (h : fuel ≥ (Store.fromVec v : Store P).size + 6) :
    asNew (runF prog unwind fuse false fuel .dqFromVec s [] [] [Val.entries v])
      = (fun s' => (s', Val.unit)) <$> Crash.DQ.fromVecF fuse v := by
  obtain ⟨n, rfl⟩ : ∃ n, fuel = n + 3 := ⟨fuel - 3, by omega⟩
  rw [runF_frame0 prog unwind fuse false (n + 2) .dqFromVec _ s _ _ _ rfl rfl]
  unfold Crash.DQ.fromVecF
  rw [execF, dqFromVec_body]
  srcF_eval
  srcF_cr [call_storeFromVec _ _ hv]
  rw [call_dqHeapBuildF _ _ _ (by omega)]
  srcF_cr
  rw [asNew_bind_pure]

/-- `FromIterator for DoublePriorityQueue` under a panicking comparison = `Crash.DQ.fromIterF` -/
theorem dqFromIterF (fuse : Nat) (s : Store P) (lo : Nat) (xs : Array (Item × P)) (fuel : Nat)
    (h : fuel ≥ (Store.fromIter xs : Store P).size + 6) :
    asNew (runF prog unwind fuse false fuel .dqFromIter s [] [] [Val.iter lo xs])
      = (fun s' => (s', Val.unit)) <$> Crash.DQ.fromIterF fuse lo xs := by
  obtain ⟨n, rfl⟩ : ∃ n, fuel = n + 3 := ⟨fuel - 3, by omega⟩
  rw [runF_frame0 prog unwind fuse false (n + 2) .dqFromIter _ s _ _ _ rfl rfl]
  unfold Crash.DQ.fromIterF
  rw [execF, dqFromIter_body]
  srcF_eval
  srcF_cr [call_storeFromIter]
  rw [asNew_liftR_bind]
  refine liftR_bind_congr_ok fun _ _ => ?_
  rw [call_dqHeapBuildF _ _ _ (by omega)]
  srcF_cr
  rw [asNew_bind_pure]

/-- `From<PriorityQueue> for DoublePriorityQueue` under a panicking comparison = `Crash.DQ.ofStoreF` (the consumed queue's
store is rebuilt in place) -/
theorem dqFromQueueF (fuse : Nat) (s : Store P) (fuel : Nat) (h : fuel ≥ s.size + 5) :
    runF prog unwind fuse false fuel .dqFromQueue s [] = (fun s' => (s', Val.unit)) <$> Crash.DQ.ofStoreF fuse s := by
  obtain ⟨n, rfl⟩ : ∃ n, fuel = n + 1 := ⟨fuel - 1, by omega⟩
  rw [runF_frame0 prog unwind fuse false n .dqFromQueue _ s _ _ _ rfl rfl]
  unfold Crash.DQ.ofStoreF
  rw [execF, dqFromQueue_body]
  srcF_eval
  srcF_cr
  rw [call_dqHeapBuildF _ _ _ (by omega)]
  srcF_cr

/-- `Deserialize for DoublePriorityQueue` under a panicking comparison = `Crash.DQ.deserializeF` -/
theorem dqDeserializeF (fuse : Nat) (s : Store P) (hint : Option Nat) (xs : Array (Item × P)) (fuel : Nat)
    (h : fuel ≥ (Store.visitSeq xs : Store P).size + 6) :
    asNew (runF prog unwind fuse false fuel .dqDeserialize s [] [] [Val.seq hint xs])
      = (fun s' => (s', Val.unit)) <$> Crash.DQ.deserializeF fuse hint xs := by
  obtain ⟨n, rfl⟩ : ∃ n, fuel = n + 3 := ⟨fuel - 3, by omega⟩
  rw [runF_frame0 prog unwind fuse false (n + 2) .dqDeserialize _ s _ _ _ rfl rfl]
  unfold Crash.DQ.deserializeF
  rw [execF, dqDeserialize_body]
  srcF_eval
  srcF_cr [call_storeVisitSeq]
  cases hint with
  | none =>
    srcF_cr
    rw [call_dqHeapBuildF _ _ _ (by omega)]
    srcF_cr
    rw [asNew_bind_pure]
  | some hh =>
    simp only [Arith.deserPrealloc, bind_assoc]
    rw [asNew_liftR_bind]
    refine liftR_bind_congr_ok fun _ _ => ?_
    rw [call_dqHeapBuildF _ _ _ (by omega)]
    srcF_cr
    rw [asNew_bind_pure]

/-! ## `Drop for IterMut` of both queues: the rebuild under a panicking comparison -/

/-- `Drop for priority_queue::IterMut` under a panicking comparison = `Crash.MaxQ.heapBuildF` (what `Crash.MaxQ.iterMutDropF`
runs after the writes) -/
theorem pqIterMutDropF (fuse : Nat) (s : Store P) (pos : Nat) (fuel : Nat) (h : fuel ≥ s.size + 4) :
    runF prog unwind fuse false fuel .pqIterMutDrop s [pos] = (fun s' => (s', Val.unit)) <$> Crash.MaxQ.heapBuildF fuse s := by
  obtain ⟨n, rfl⟩ : ∃ n, fuel = n + 1 := ⟨fuel - 1, by omega⟩
  rw [runF_frame0 prog unwind fuse false n .pqIterMutDrop _ s _ _ _ rfl rfl]
  rw [execF, pqIterMutDrop_body]
  srcF_eval
  srcF_cr
  rw [call_pqHeapBuildF _ _ _ (by omega)]
  srcF_cr

/-- `Drop for double_priority_queue::IterMut` under a panicking comparison = `Crash.DQ.heapBuildF` -/
theorem dqIterMutDropF (fuse : Nat) (s : Store P) (pos back : Nat) (fuel : Nat) (h : fuel ≥ s.size + 5) :
    runF prog unwind fuse false fuel .dqIterMutDrop s [pos, back]
      = (fun s' => (s', Val.unit)) <$> Crash.DQ.heapBuildF fuse s := by
  obtain ⟨n, rfl⟩ : ∃ n, fuel = n + 1 := ⟨fuel - 1, by omega⟩
  rw [runF_frame0 prog unwind fuse false n .dqIterMutDrop _ s _ _ _ rfl rfl]
  rw [execF, dqIterMutDrop_body]
  srcF_eval
  srcF_cr
  rw [call_dqHeapBuildF _ _ _ (by omega)]
  srcF_cr
end PQ.SrcEquivF
