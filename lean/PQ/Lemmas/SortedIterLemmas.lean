import PQ.Model.SortedIter
import PQ.Props.C06
import PQ.Props.C13
/-!
# The sorted iterators with their `len` / `size_hint` (all names carry the prefix `sit_`)

`PQ/Model/SortedIter.lean` models `IntoSortedIter` of both queue kinds as machines over the store they own, with the
informational calls `len` / `size_hint` next to the advancing calls `next` / `next_back`.  This file proves

* for the `DoublePriorityQueue` iterator on ANY well-formed store (no order hypothesis) and EVERY call list: the run
  returns; every `len` answer is the number of elements still held (= the original length minus the number of entries
  handed out before it), every `size_hint` answer is `(that number, Some(that number))` — lower = upper = `len` at every
  step, which is what std's `ExactSizeIterator` adaptors assert —; the `item` answers are exactly the answers of
  `DQ.sortedCalls` on the call list projected onto its advancing calls, so everything `C13_sorted_dpq_any_wf` (and, with
  the order invariant, `C06_dpq_deque`) says transfers; after an `item none` every later advancing call answers
  `item none` (`FusedIterator`);
* for the `PriorityQueue` iterator: `size_hint` is always `(0, None)`, `len` / `next_back` are not offered, and the `item`
  answers are those of repeated `MaxQ.pop` (`bp_popCalls`), so `C06_pq_sorted_iter` / `C13_sorted_pq_any_wf` transfer.
-/
set_option linter.unusedSimpArgs false
set_option linter.unusedSectionVars false
set_option linter.unusedVariables false
namespace PQ
open Store

/-! ## Projections -/

/-- the advancing calls of a call list, in the alphabet of `DQ.sortedCalls` (`next ↦ false`, `next_back ↦ true`);
`len` and `size_hint` are dropped -/
def sit_adv : List ICall → List Bool
  | [] => []
  | .next :: cs => false :: sit_adv cs
  | .nextBack :: cs => true :: sit_adv cs
  | .len :: cs => sit_adv cs
  | .sizeHint :: cs => sit_adv cs

/-- the `item` answers of an answer list, in order -/
def sit_items {P : Type} : List (SOut P) → List (Option (Item × P))
  | [] => []
  | .item r :: os => r :: sit_items os
  | .len _ :: os => sit_items os
  | .hint _ _ :: os => sit_items os
  | .unsupported :: os => sit_items os

/-- the number of entries handed out (`item (some _)` answers) -/
def sit_handed {P : Type} : List (SOut P) → Nat
  | [] => 0
  | .item (some _) :: os => sit_handed os + 1
  | .item none :: os => sit_handed os
  | .len _ :: os => sit_handed os
  | .hint _ _ :: os => sit_handed os
  | .unsupported :: os => sit_handed os

/-- the answer `o` has the shape the call `c` has on the `DoublePriorityQueue` iterator -/
def sit_shapeD {P : Type} : ICall → SOut P → Prop
  | .next, .item _ => True
  | .nextBack, .item _ => True
  | .len, .len _ => True
  | .sizeHint, .hint _ _ => True
  | _, _ => False

/-- the answer `o` has the shape the call `c` has on the `PriorityQueue` iterator -/
def sit_shapeP {P : Type} : ICall → SOut P → Prop
  | .next, .item _ => True
  | .nextBack, .unsupported => True
  | .len, .unsupported => True
  | .sizeHint, .hint 0 none => True
  | _, _ => False

theorem sit_handed_eq {P : Type} (outs : List (SOut P)) :
    sit_handed outs = ((sit_items outs).filterMap id).length := by
  fun_induction sit_handed outs <;> simp_all [sit_items]

theorem sit_adv_length (calls : List ICall) : (sit_adv calls).length = PQ.adv calls := by
  fun_induction sit_adv calls <;> simp_all [PQ.adv] <;> omega

variable {P : Type} [LT P] [DecidableLT P]

/-! ## Unfolding `sortedRun` -/

theorem sit_run_cons_ok {kind : Kind} {c : ICall} {cs : List ICall} {s s1 s2 : Store P} {o : SOut P}
    {rest : List (SOut P)} (h1 : sortedStep kind s c = .ok (s1, o)) (h2 : sortedRun kind cs s1 = .ok (rest, s2)) :
    sortedRun kind (c :: cs) s = .ok (o :: rest, s2) := by
  simp only [sortedRun, h1, h2, bind, Except.bind, pure, Except.pure]

theorem sit_run_cons_inv {kind : Kind} {c : ICall} {cs : List ICall} {s s2 : Store P} {outs : List (SOut P)}
    (h : sortedRun kind (c :: cs) s = .ok (outs, s2)) :
    ∃ s1 o rest, sortedStep kind s c = .ok (s1, o) ∧ sortedRun kind cs s1 = .ok (rest, s2) ∧ outs = o :: rest := by
  simp only [sortedRun, bind, Except.bind] at h
  cases h1 : sortedStep kind s c with
  | error e => simp [h1] at h
  | ok r =>
    obtain ⟨s1, o⟩ := r
    simp only [h1] at h
    cases h2 : sortedRun kind cs s1 with
    | error e => simp [h2] at h
    | ok r2 =>
      obtain ⟨rest, s2'⟩ := r2
      simp only [h2, pure, Except.pure, Except.ok.injEq, Prod.mk.injEq] at h
      exact ⟨s1, o, rest, rfl, by rw [← h.2]; exact h2, h.1.symm⟩

theorem sit_run_append {kind : Kind} (a : List ICall) : ∀ (b : List ICall) (s s1 s2 : Store P) (o1 o2 : List (SOut P)),
    sortedRun kind a s = .ok (o1, s1) → sortedRun kind b s1 = .ok (o2, s2) →
    sortedRun kind (a ++ b) s = .ok (o1 ++ o2, s2) := by
  induction a with
  | nil =>
    intro b s s1 s2 o1 o2 h1 h2
    simp only [sortedRun, pure, Except.pure, Except.ok.injEq, Prod.mk.injEq] at h1
    obtain ⟨rfl, rfl⟩ := h1
    simpa using h2
  | cons c cs ih =>
    intro b s s1 s2 o1 o2 h1 h2
    obtain ⟨sa, o, rest, hstep, hrest, rfl⟩ := sit_run_cons_inv h1
    exact sit_run_cons_ok hstep (ih b sa s1 s2 rest o2 hrest h2)

variable [LE P] [Std.IsLinearPreorder P] [Std.LawfulOrderLT P]

/-! ## `DoublePriorityQueue::IntoSortedIter` -/

/-- one call on the `DoublePriorityQueue` sorted iterator holding a well-formed queue: it returns, the queue held
afterwards is well-formed, and the number of held elements drops by exactly the number of entries handed out (0 or 1);
`len` answers the number held, `size_hint` answers `(held, Some(held))`, neither changes anything; `next` / `next_back`
are `pop_min` / `pop_max` and answer `None` exactly when nothing is held -/
theorem sit_dpq_step {s : Store P} (h : s.WF) (c : ICall) :
    ∃ s1 o, sortedStep .dpq s c = .ok (s1, o) ∧ s1.WF ∧ s1.size + sit_handed [o] = s.size ∧ sit_shapeD c o ∧
      (c = .len → s1 = s ∧ o = .len s.size) ∧
      (c = .sizeHint → s1 = s ∧ o = .hint s.size (some s.size)) ∧
      (c = .next → ∃ r, o = .item r ∧ DQ.popMin s = .ok (s1, r)) ∧
      (c = .nextBack → ∃ r, o = .item r ∧ DQ.popMax s = .ok (s1, r)) ∧
      (∀ r, o = .item r → (r = none ↔ s.size = 0)) := by
  cases c with
  | len => exact ⟨s, .len s.size, rfl, h, rfl, trivial, fun _ => ⟨rfl, rfl⟩, nofun, nofun, nofun, nofun⟩
  | sizeHint =>
    exact ⟨s, .hint s.size (some s.size), rfl, h, rfl, trivial, nofun, fun _ => ⟨rfl, rfl⟩, nofun, nofun, nofun⟩
  | next =>
    obtain ⟨h0, h1⟩ := DQ.sortedStep_core h false
    simp only [Bool.false_eq_true, if_false] at h0 h1
    rcases Nat.eq_zero_or_pos s.size with hz | hpos
    · refine ⟨s, .item none, ?_, h, rfl, trivial, nofun, nofun, ?_, nofun, by simp [hz]⟩
      · simp [sortedStep, h0 hz, bind, Except.bind, pure, Except.pure]
      · exact fun _ => ⟨none, rfl, h0 hz⟩
    · obtain ⟨s1, e, hrun, _, hwf, _, hsz, _⟩ := h1 hpos
      refine ⟨s1, .item (some e), ?_, hwf, by simp only [sit_handed]; omega, trivial, nofun, nofun, ?_, nofun, ?_⟩
      · simp [sortedStep, hrun, bind, Except.bind, pure, Except.pure]
      · exact fun _ => ⟨some e, rfl, hrun⟩
      · intro r hr; cases hr; simp; omega
  | nextBack =>
    obtain ⟨h0, h1⟩ := DQ.sortedStep_core h true
    simp only [if_true] at h0 h1
    rcases Nat.eq_zero_or_pos s.size with hz | hpos
    · refine ⟨s, .item none, ?_, h, rfl, trivial, nofun, nofun, nofun, ?_, by simp [hz]⟩
      · simp [sortedStep, h0 hz, bind, Except.bind, pure, Except.pure]
      · exact fun _ => ⟨none, rfl, h0 hz⟩
    · obtain ⟨s1, e, hrun, _, hwf, _, hsz, _⟩ := h1 hpos
      refine ⟨s1, .item (some e), ?_, hwf, by simp only [sit_handed]; omega, trivial, nofun, nofun, nofun, ?_, ?_⟩
      · simp [sortedStep, hrun, bind, Except.bind, pure, Except.pure]
      · exact fun _ => ⟨some e, rfl, hrun⟩
      · intro r hr; cases hr; simp; omega

theorem sit_handed_cons {P : Type} (o : SOut P) (l : List (SOut P)) :
    sit_handed (o :: l) = sit_handed [o] + sit_handed l := by
  cases o with
  | item r => cases r <;> simp [sit_handed] <;> omega
  | _ => simp [sit_handed]

/-- the induction behind `sit_dpq_exact` -/
theorem sit_dpq_run_core (calls : List ICall) : ∀ {s : Store P}, s.WF →
    ∃ outs s', sortedRun .dpq calls s = .ok (outs, s') ∧ s'.WF ∧ outs.length = calls.length ∧
      DQ.sortedCalls (sit_adv calls) s = .ok (sit_items outs, s') ∧
      s'.size + sit_handed outs = s.size ∧
      (∀ (j : Nat) c, calls[j]? = some c → ∃ o, outs[j]? = some o ∧ sit_shapeD c o) ∧
      (∀ j, sit_handed (outs.take j) ≤ s.size) ∧
      (∀ (j : Nat) n, outs[j]? = some (.len n) → n + sit_handed (outs.take j) = s.size) ∧
      (∀ (j : Nat) lo hi, outs[j]? = some (.hint lo hi) → lo + sit_handed (outs.take j) = s.size ∧ hi = some lo) ∧
      (∀ (j : Nat) r, outs[j]? = some (.item r) → (r = none ↔ sit_handed (outs.take j) = s.size)) := by
  induction calls with
  | nil =>
    intro s h
    exact ⟨[], s, rfl, h, rfl, rfl, by simp [sit_handed], by simp, by simp [sit_handed], by simp, by simp, by simp⟩
  | cons c cs ih =>
    intro s h
    obtain ⟨s1, o, hstep, hwf1, hsz1, hshape, hlen, hhint, hnext, hback, hnone⟩ := sit_dpq_step h c
    obtain ⟨rest, s', hrun, hwf', hl, hproj, hsz', hsh, hle, hln, hhn, hit⟩ := ih hwf1
    refine ⟨o :: rest, s', sit_run_cons_ok hstep hrun, hwf', by simp [hl], ?_, ?_, ?_, ?_, ?_, ?_, ?_⟩
    · cases c with
      | len => obtain ⟨rfl, rfl⟩ := hlen rfl; simpa [sit_adv, sit_items] using hproj
      | sizeHint => obtain ⟨rfl, rfl⟩ := hhint rfl; simpa [sit_adv, sit_items] using hproj
      | next =>
        obtain ⟨r, rfl, hp⟩ := hnext rfl
        exact DQ.sortedCalls_cons_ok (b := false) (by simpa using hp) hproj
      | nextBack =>
        obtain ⟨r, rfl, hp⟩ := hback rfl
        exact DQ.sortedCalls_cons_ok (b := true) (by simpa using hp) hproj
    · rw [sit_handed_cons]; omega
    · intro j c' hj
      cases j with
      | zero => simp at hj; subst hj; exact ⟨o, by simp, hshape⟩
      | succ j => simpa using hsh j c' (by simpa using hj)
    · intro j
      cases j with
      | zero => simp [sit_handed]
      | succ j => rw [List.take_succ_cons, sit_handed_cons]; have := hle j; omega
    · intro j n hj
      cases j with
      | zero =>
        simp only [List.getElem?_cons_zero, Option.some.injEq] at hj; subst hj
        have hc : c = .len := by cases c <;> first | rfl | exact absurd hshape (by simp [sit_shapeD])
        obtain ⟨_, ho⟩ := hlen hc
        cases ho
        simp [sit_handed]
      | succ j =>
        rw [List.take_succ_cons, sit_handed_cons]
        have := hln j n (by simpa using hj); omega
    · intro j lo hi hj
      cases j with
      | zero =>
        simp only [List.getElem?_cons_zero, Option.some.injEq] at hj; subst hj
        have hc : c = .sizeHint := by cases c <;> first | rfl | exact absurd hshape (by simp [sit_shapeD])
        obtain ⟨_, ho⟩ := hhint hc
        cases ho
        simp [sit_handed]
      | succ j =>
        rw [List.take_succ_cons, sit_handed_cons]
        obtain ⟨h1, h2⟩ := hhn j lo hi (by simpa using hj)
        exact ⟨by omega, h2⟩
    · intro j r hj
      cases j with
      | zero =>
        simp at hj; subst hj
        simpa [sit_handed, eq_comm] using hnone r rfl
      | succ j =>
        rw [List.take_succ_cons, sit_handed_cons]
        rw [hit j r (by simpa using hj)]
        constructor <;> intro <;> omega

/-- **`DoublePriorityQueue::into_sorted_iter()` with `len` / `size_hint`, on ANY well-formed queue** (no order hypothesis),
for EVERY list of calls `next` / `next_back` / `len` / `size_hint`, calls after exhaustion included.  The run never faults.
With `outs` the answers and `s'` the queue the iterator holds afterwards (`sit_handed l` = number of entries handed out in `l`):

* every call gets an answer of its own shape (`next` / `next_back` an `Option` entry, `len` a number, `size_hint` a pair);
* the `item` answers are exactly the answers of `DQ.sortedCalls` on the advancing calls (`sit_adv calls`) and the queue held
  afterwards is the same: the informational calls change nothing, so every fact about `DQ.sortedCalls` transfers;
* every `len` answer is the number of elements still held: the original length minus the number of entries handed out before it;
* every `size_hint` answer is `(that number, Some(that number))`: lower bound = upper bound = `len`;
* an advancing call answers `None` exactly when everything has been handed out;
* `FusedIterator`: after an `item none` every later advancing call answers `item none`;
* afterwards a well-formed queue of `len - (entries handed out)` elements is held. -/
theorem sit_dpq_exact {s : Store P} (h : s.WF) (calls : List ICall) :
    ∃ outs s', sortedRun .dpq calls s = .ok (outs, s') ∧ s'.WF ∧ outs.length = calls.length ∧
      (∀ (j : Nat) c, calls[j]? = some c → ∃ o, outs[j]? = some o ∧ sit_shapeD c o) ∧
      DQ.sortedCalls (sit_adv calls) s = .ok (sit_items outs, s') ∧
      (∀ (j : Nat) n, outs[j]? = some (.len n) → n = s.size - sit_handed (outs.take j)) ∧
      (∀ (j : Nat) lo hi, outs[j]? = some (.hint lo hi) → lo = s.size - sit_handed (outs.take j) ∧ hi = some lo) ∧
      (∀ (j : Nat) r, outs[j]? = some (.item r) → (r = none ↔ s.size - sit_handed (outs.take j) = 0)) ∧
      (∀ (j j' : Nat) r, j ≤ j' → outs[j]? = some (.item none) → outs[j']? = some (.item r) → r = none) ∧
      s'.size = s.size - sit_handed outs ∧ sit_handed outs = min s.size (PQ.adv calls) := by
  obtain ⟨outs, s', hrun, hwf, hl, hproj, hsz, hsh, hle, hln, hhn, hit⟩ := sit_dpq_run_core calls h
  have hmono : ∀ j j' : Nat, j ≤ j' → sit_handed (outs.take j) ≤ sit_handed (outs.take j') := by
    intro j j' hjj
    obtain ⟨d, rfl⟩ := Nat.exists_eq_add_of_le hjj
    clear hjj hrun hproj hsz hsh hle hln hhn hit hl
    induction outs generalizing j with
    | nil => simp
    | cons o t ih =>
      cases j with
      | zero => simp [sit_handed]
      | succ j =>
        rw [show j + 1 + d = (j + d) + 1 by omega, List.take_succ_cons, List.take_succ_cons,
          sit_handed_cons o (t.take j), sit_handed_cons o (t.take (j + d))]
        have := ih j; omega
  refine ⟨outs, s', hrun, hwf, hl, hsh, hproj, fun j n hj => ?_, fun j lo hi hj => ?_, fun j r hj => ?_,
    fun j j' r hjj hj hj' => ?_, by omega, ?_⟩
  · have := hln j n hj; omega
  · obtain ⟨h1, h2⟩ := hhn j lo hi hj; exact ⟨by omega, h2⟩
  · rw [hit j r hj]; have := hle j; omega
  · have h1 := (hit j none hj).1 rfl
    have h2 := hmono j j' hjj
    have h3 := hle j'
    exact (hit j' r hj').2 (by omega)
  · obtain ⟨o2, s2, hr2, _, hl2, hsz2, _, _⟩ := DQ.sortedCalls_safe h (sit_adv calls)
    rw [hproj] at hr2
    simp only [Except.ok.injEq, Prod.mk.injEq] at hr2
    obtain ⟨_, rfl⟩ := hr2
    rw [sit_adv_length] at hsz2
    omega

/-- every element once, from both ends, `len` and `size_hint` exact in between, then `None` forever — on the queue `swf_exU`
that is well-formed but ordered neither as a max-heap nor as a min-max heap -/
example : swf_exU.WF ∧ ¬ swf_exU.MinMaxHeap ∧ bp_okR
    (sortedRun .dpq [.len, .next, .sizeHint, .nextBack, .len, .next, .next, .next, .len, .next, .sizeHint, .nextBack] swf_exU)
    (fun r => r.1 = [.len 5, .item (some (⟨1, 10⟩, 3)), .hint 4 (some 4), .item (some (⟨2, 20⟩, 9)), .len 3,
      .item (some (⟨3, 30⟩, 1)), .item (some (⟨4, 40⟩, 5)), .item (some (⟨5, 50⟩, 7)), .len 0, .item none,
      .hint 0 (some 0), .item none] ∧ r.2.size = 0) :=
  ⟨swf_exU_wf, swf_exU_not_minMaxHeap, by decide +kernel⟩

/-- **lower = upper = `len` at every step.**  After ANY list of calls on the sorted iterator of a well-formed
`DoublePriorityQueue`, `size_hint()` immediately followed by `len()` answer `(n, Some(n))` and `n` with the same `n`, the
number of elements then held (original length minus entries handed out) — the agreement std's `ExactSizeIterator`
adaptors (`len`'s default body, `Rev`, `Enumerate::next_back`, `Zip`) `assert_eq!` on -/
theorem sit_dpq_hint_eq_len {s : Store P} (h : s.WF) (pre : List ICall) :
    ∃ outs s', sortedRun .dpq pre s = .ok (outs, s') ∧
      sortedRun .dpq (pre ++ [.sizeHint, .len]) s =
        .ok (outs ++ [.hint s'.size (some s'.size), .len s'.size], s') ∧
      s'.size = s.size - sit_handed outs := by
  obtain ⟨outs, s', hrun, _, _, _, _, _, _, _, _, hsz, _⟩ := sit_dpq_exact h pre
  exact ⟨outs, s', hrun, sit_run_append pre _ s s' s' outs _ hrun rfl, hsz⟩

example : bp_okR (sortedRun .dpq ([.next, .nextBack, .len, .next] ++ [.sizeHint, .len]) swf_exU)
    (fun r => r.1.drop 4 = [.hint 2 (some 2), .len 2]) := by decide +kernel

/-- **everything `C13_sorted_dpq_any_wf` says transfers to the iterator with `len` / `size_hint`**: on any well-formed
queue the entries handed out (through any interleaving of the four calls) have pairwise distinct items, each was stored and is
no longer held, and together with the entries still held they are a permutation of the entries stored at the start -/
theorem sit_dpq_once {s : Store P} (h : s.WF) (calls : List ICall) :
    ∃ outs s', sortedRun .dpq calls s = .ok (outs, s') ∧ s'.WF ∧
      (((sit_items outs).filterMap id).map (·.1.key)).Nodup ∧
      (∀ e, some e ∈ sit_items outs → s.Mem e ∧ ¬ s'.Mem e) ∧
      (((sit_items outs).filterMap id) ++ s'.map.toList).Perm s.map.toList := by
  obtain ⟨outs, s', hrun, hwf, _, _, hproj, _⟩ := sit_dpq_exact h calls
  obtain ⟨o2, s2, hr2, _, _, hnd, hmem, hperm, _⟩ := C13_sorted_dpq_any_wf h (sit_adv calls)
  rw [hproj] at hr2
  simp only [Except.ok.injEq, Prod.mk.injEq] at hr2
  obtain ⟨rfl, rfl⟩ := hr2
  exact ⟨outs, s', hrun, hwf, hnd, hmem, hperm⟩

/-- **… and with the order invariant everything `C06_dpq_deque` says transfers**: each `next` answers a minimum and each
`next_back` a maximum of what is held at that moment (`SortedRun ExtremeQ` over the advancing calls), and the queue held
afterwards is correctly ordered -/
theorem sit_dpq_sorted {s : Store P} (h : DQ.Inv s) (calls : List ICall) :
    ∃ outs s', sortedRun .dpq calls s = .ok (outs, s') ∧ DQ.Inv s' ∧
      DQ.SortedRun DQ.ExtremeQ s.abs (sit_adv calls) (sit_items outs) s'.abs := by
  obtain ⟨outs, s', hrun, hwf, _, _, hproj, _⟩ := sit_dpq_exact h.1 calls
  obtain ⟨o2, s2, hr2, hinv, _, _, _, hsr, _⟩ := C06_dpq_deque h (sit_adv calls)
  rw [hproj] at hr2
  simp only [Except.ok.injEq, Prod.mk.injEq] at hr2
  obtain ⟨rfl, rfl⟩ := hr2
  exact ⟨outs, s', hrun, hinv, hsr⟩

example : DQ.Inv DQ.exQ ∧ bp_okR (sortedRun .dpq [.len, .next, .sizeHint, .nextBack, .len, .next] DQ.exQ)
    (fun r => r.1 = [.len 8, .item (some (⟨4, 0⟩, 10)), .hint 7 (some 7), .item (some (⟨8, 0⟩, 80)), .len 6,
      .item (some (⟨2, 0⟩, 20))] ∧ r.2.size = 5) := ⟨DQ.exQ_inv, by decide +kernel⟩

/-! ## `PriorityQueue::IntoSortedIter` -/

theorem sit_shapeP_hint {c : ICall} {lo : Nat} {hi : Option Nat} (h : sit_shapeP c (.hint lo hi : SOut P)) :
    c = .sizeHint ∧ lo = 0 ∧ hi = none := by
  cases c <;> cases lo <;> cases hi <;> simp_all [sit_shapeP]

theorem sit_shapeP_len {c : ICall} {n : Nat} (h : sit_shapeP c (.len n : SOut P)) : False := by
  cases c <;> simp_all [sit_shapeP]

/-- one call on the `PriorityQueue` sorted iterator holding a well-formed queue -/
theorem sit_pq_step {s : Store P} (h : s.WF) (c : ICall) :
    ∃ s1 o, sortedStep .pq s c = .ok (s1, o) ∧ s1.WF ∧ sit_shapeP c o ∧
      (c ≠ .next → s1 = s ∧ sit_items [o] = []) ∧
      (c = .next → ∃ r, o = .item r ∧ MaxQ.pop s = .ok (s1, r)) := by
  cases c with
  | len => exact ⟨s, .unsupported, rfl, h, trivial, by simp [sit_items], by simp⟩
  | sizeHint => exact ⟨s, .hint 0 none, rfl, h, trivial, by simp [sit_items], by simp⟩
  | nextBack => exact ⟨s, .unsupported, rfl, h, trivial, by simp [sit_items], by simp⟩
  | next =>
    obtain ⟨h0, h1⟩ := MaxQ.pop_safe h
    rcases Nat.eq_zero_or_pos s.size with hz | hpos
    · refine ⟨s, .item none, ?_, h, trivial, by simp, fun _ => ⟨none, rfl, h0 hz⟩⟩
      simp [sortedStep, h0 hz, bind, Except.bind, pure, Except.pure]
    · obtain ⟨s1, e, hrun, _, hwf, _, _⟩ := h1 hpos
      refine ⟨s1, .item (some e), ?_, hwf, trivial, by simp, fun _ => ⟨some e, rfl, hrun⟩⟩
      simp [sortedStep, hrun, bind, Except.bind, pure, Except.pure]

/-- **`PriorityQueue::into_sorted_iter()`, on ANY well-formed queue**, for EVERY list of calls.  The run never faults;
`next_back` and `len` are not offered (`.unsupported`: `IntoSortedIter` of `PriorityQueue` implements neither
`DoubleEndedIterator` nor `ExactSizeIterator`); every `size_hint` answer is `(0, None)` (the default body of
`Iterator::size_hint`: correct, never exact, so no `ExactSizeIterator` contract can be violated); the `item` answers are
exactly the answers of that many repeated `pop`s (`bp_popCalls`), and the queue held afterwards is the same -/
theorem sit_pq_exact {s : Store P} (h : s.WF) (calls : List ICall) :
    ∃ outs s', sortedRun .pq calls s = .ok (outs, s') ∧ s'.WF ∧ outs.length = calls.length ∧
      (∀ (j : Nat) c, calls[j]? = some c → ∃ o, outs[j]? = some o ∧ sit_shapeP c o) ∧
      bp_popCalls (calls.count .next) s = .ok (sit_items outs, s') ∧
      (∀ (j : Nat) lo hi, outs[j]? = some (.hint lo hi) → lo = 0 ∧ hi = none) ∧
      (∀ (j : Nat) n, outs[j]? ≠ some (.len n)) ∧
      (∀ (j : Nat), calls[j]? = some .nextBack ∨ calls[j]? = some .len → outs[j]? = some .unsupported) := by
  have core : ∀ (calls : List ICall) {s : Store P}, s.WF →
      ∃ outs s', sortedRun .pq calls s = .ok (outs, s') ∧ s'.WF ∧ outs.length = calls.length ∧
        (∀ (j : Nat) c, calls[j]? = some c → ∃ o, outs[j]? = some o ∧ sit_shapeP c o) ∧
        bp_popCalls (calls.count .next) s = .ok (sit_items outs, s') := by
    intro calls
    induction calls with
    | nil => intro s h; exact ⟨[], s, rfl, h, rfl, by simp, rfl⟩
    | cons c cs ih =>
      intro s h
      obtain ⟨s1, o, hstep, hwf1, hshape, hne, hnext⟩ := sit_pq_step h c
      obtain ⟨rest, s', hrun, hwf', hl, hsh, hproj⟩ := ih hwf1
      refine ⟨o :: rest, s', sit_run_cons_ok hstep hrun, hwf', by simp [hl], ?_, ?_⟩
      · intro j c' hj
        cases j with
        | zero => simp at hj; subst hj; exact ⟨o, by simp, hshape⟩
        | succ j => simpa using hsh j c' (by simpa using hj)
      · by_cases hc : c = .next
        · obtain ⟨r, rfl, hp⟩ := hnext hc
          subst hc
          simp only [List.count_cons_self, bp_popCalls, hp, bind, Except.bind, hproj, pure, Except.pure, sit_items]
        · obtain ⟨rfl, hi⟩ := hne hc
          have : sit_items (o :: rest) = sit_items rest := by
            cases o <;> simp_all [sit_items]
          rw [this, List.count_cons_of_ne hc]
          exact hproj
  obtain ⟨outs, s', hrun, hwf, hl, hsh, hproj⟩ := core calls h
  have hget : ∀ (j : Nat) o, outs[j]? = some o → ∃ c, calls[j]? = some c ∧ sit_shapeP c o := by
    intro j o hj
    have hlt : j < calls.length := by
      rw [← hl]; exact (List.getElem?_eq_some_iff.1 hj).1
    obtain ⟨o', ho', hs⟩ := hsh j calls[j] (List.getElem?_eq_getElem hlt)
    rw [hj] at ho'; cases ho'
    exact ⟨calls[j], List.getElem?_eq_getElem hlt, hs⟩
  refine ⟨outs, s', hrun, hwf, hl, hsh, hproj, fun j lo hi hj => ?_, fun j n hj => ?_, fun j hj => ?_⟩
  · obtain ⟨c, _, hs⟩ := hget j _ hj
    exact (sit_shapeP_hint hs).2
  · obtain ⟨c, _, hs⟩ := hget j _ hj
    exact sit_shapeP_len hs
  · rcases hj with hj | hj
    · obtain ⟨o, ho, hs⟩ := hsh j _ hj
      cases o <;> simp_all [sit_shapeP]
    · obtain ⟨o, ho, hs⟩ := hsh j _ hj
      cases o <;> simp_all [sit_shapeP]

/-- on the unordered `swf_exU`: every element once, `size_hint` is `(0, None)` throughout, `len` / `next_back` not offered -/
example : swf_exU.WF ∧ ¬ MaxQ.Inv swf_exU ∧ bp_okR
    (sortedRun .pq [.len, .next, .sizeHint, .nextBack, .next, .next, .next, .next, .sizeHint, .next, .next] swf_exU)
    (fun r => r.1 = [.unsupported, .item (some (⟨1, 10⟩, 3)), .hint 0 none, .unsupported, .item (some (⟨2, 20⟩, 9)),
      .item (some (⟨5, 50⟩, 7)), .item (some (⟨4, 40⟩, 5)), .item (some (⟨3, 30⟩, 1)), .hint 0 none, .item none,
      .item none] ∧ r.2.size = 0) := by decide +kernel

/-- **the entries the `PriorityQueue` sorted iterator hands out**, whatever informational calls are interleaved: with `l`
the vector `into_sorted_vec` would give (a permutation of the stored entries; non-increasing when the queue is correctly
ordered — `C06_pq_sorted_vec`) and `n` the number of `next` calls, the `item` answers are the first `n` elements of `l` and
then `None` forever; `len - n` elements are held afterwards -/
theorem sit_pq_items {s : Store P} (h : s.WF) (calls : List ICall) :
    ∃ l outs s', MaxQ.intoSortedVec s = .ok l ∧ l.Perm s.map.toList ∧ sortedRun .pq calls s = .ok (outs, s') ∧
      sit_items outs = (l.take (calls.count .next)).map some ++ List.replicate (calls.count .next - l.length) none ∧
      s'.size = s.size - calls.count .next ∧ (MaxQ.Inv s → l.Pairwise (fun a b => ¬ a.2 < b.2) ∧ MaxQ.Inv s') := by
  obtain ⟨outs, s', hrun, _, _, _, hproj, _⟩ := sit_pq_exact h calls
  obtain ⟨l, hl, hall⟩ := swf_pq_sorted_iter h
  obtain ⟨l', hl', hperm, _⟩ := swf_pq_sorted_vec h
  rw [hl] at hl'; cases hl'
  obtain ⟨s2, hr2, _, hsz, _⟩ := hall (calls.count .next)
  rw [hproj] at hr2
  simp only [Except.ok.injEq, Prod.mk.injEq] at hr2
  obtain ⟨hit, rfl⟩ := hr2
  refine ⟨l, outs, s', hl, hperm, hrun, hit, hsz, fun hinv => ?_⟩
  obtain ⟨l2, hl2, _, hsorted, hall2⟩ := C06_pq_sorted_iter hinv
  rw [hl] at hl2; cases hl2
  obtain ⟨s3, hr3, hinv3, _⟩ := hall2 (calls.count .next)
  rw [hproj] at hr3
  simp only [Except.ok.injEq, Prod.mk.injEq] at hr3
  obtain ⟨_, rfl⟩ := hr3
  exact ⟨hsorted, hinv3⟩

example : MaxQ.Inv bp_exP ∧ bp_okR (sortedRun .pq [.sizeHint, .next, .next, .len] bp_exP)
    (fun r => r.1 = [.hint 0 none, .item (some (⟨2, 20⟩, 9)), .item (some (⟨3, 30⟩, 7)), .unsupported] ∧
      r.2.size = 3) := by decide +kernel

end PQ

#print axioms PQ.sit_dpq_exact
#print axioms PQ.sit_dpq_hint_eq_len
#print axioms PQ.sit_dpq_once
#print axioms PQ.sit_dpq_sorted
#print axioms PQ.sit_pq_exact
#print axioms PQ.sit_pq_items
