import PQ.Lemmas.MinMaxUp
import PQ.Lemmas.MinMaxDown
/-!
# `up_heapify`: sift up after an arbitrary priority change, then re-sift the vacated and the final position

Composition of the bubble-up theorems of `MinMaxUp.lean` with `heapify_spec` (the trickle-down theorem of the
`MinMaxDown` development).
-/
set_option linter.unusedSectionVars false
namespace PQ
open Arith Store
variable {P : Type} [LT P] [DecidableLT P] [LE P] [Std.IsLinearPreorder P] [Std.LawfulOrderLT P]

namespace DQ

/-- `up_heapify` on a position outside the heap table does nothing (the Rust code uses the checked `heap.get(i)`;
`pop_max_if` calls it with `i = len` after removing the last element) -/
theorem upHeapify_noop {s : Store P} {i : Nat} (hi : s.heap[i]? = none) : upHeapify s i = .ok s := by
  simp only [upHeapify, hi]; rfl

/-- **U3** `up_heapify(i)` repairs a min-max heap in which the priority at position `i` was changed arbitrarily: it never
faults, keeps the tables well-formed, the map and the size, and re-establishes the order. -/
theorem upHeapify_spec {s : Store P} {i : Nat} (h : s.WF) (hi : i < s.size)
    (hpre : ∀ a d, Anc a d → d < s.size → a ≠ i → d ≠ i → s.Rel a d) :
    ∃ s', upHeapify s i = .ok s' ∧ s'.WF ∧ s'.map = s.map ∧ s'.size = s.size ∧ s'.MinMaxHeap := by
  obtain ⟨idx, hidx, _⟩ := TWF.heap_some h hi
  obtain ⟨s1, pos, hrun1, hwf1, hm1, hsz1, hle, _, hord1⟩ := bubbleUp_order h hidx hpre
  have hwf1' : s1.WF := by unfold Store.WF; rw [hsz1]; exact hwf1
  by_cases hne : i = pos
  · -- nothing moved: a single `heapify` at `i = pos`
    subst hne
    obtain ⟨s2, hrun2, hwf2, hm2, hsz2, hfrom2, _⟩ := heapify_spec (lo := 0) (i := i) hwf1' (by omega) (Nat.zero_le _)
      (fun a d had hd _ hai => hord1 a d had (by omega) hai)
    refine ⟨s2, ?_, hwf2, by rw [hm2, hm1], by rw [hsz2, hsz1], (minMaxHeap_iff_from s2).mpr hfrom2⟩
    simp only [upHeapify, hidx, hrun1, bind, Except.bind, ne_eq, not_true_eq_false, if_false, pure, Except.pure]
    exact hrun2
  · -- the vacated position `i` is re-sifted first, then the final position
    obtain ⟨s2, hrun2, hwf2, hm2, hsz2, hfrom2, _⟩ := heapify_spec (lo := 0) (i := i) hwf1' (by omega) (Nat.zero_le _)
      (fun a d had hd _ hai => hord1 a d had (by omega) hai)
    obtain ⟨s3, hrun3, hwf3, hm3, hsz3, hfrom3, _⟩ := heapify_spec (lo := 0) (i := pos) hwf2 (by omega) (Nat.zero_le _)
      (fun a d had hd hlo _ => hfrom2 a d had hd hlo)
    refine ⟨s3, ?_, hwf3, by rw [hm3, hm2, hm1], by rw [hsz3, hsz2, hsz1], (minMaxHeap_iff_from s3).mpr hfrom3⟩
    simp only [upHeapify, hidx, hrun1, bind, Except.bind, ne_eq, hne, not_false_eq_true, if_true, hrun2]
    exact hrun3

/-! ## Non-vacuity -/

/-- the hypotheses hold for `exU` at `i = 3` (not a min-max heap), so the theorem really repairs something -/
example : ∃ (s : Store Nat) (i : Nat), s.WF ∧ i < s.size ∧
    (∀ a d, Anc a d → d < s.size → a ≠ i → d ≠ i → s.Rel a d) ∧ ¬ s.MinMaxHeap :=
  ⟨Up.exU, 3, Up.exU_WF, by decide, Up.exU_pre, Up.exU_not_heap⟩

example : ∃ s', upHeapify Up.exU 3 = .ok s' ∧ s'.WF ∧ s'.size = 11 ∧ s'.MinMaxHeap := by
  obtain ⟨s', h1, h2, _, h3, h4⟩ := upHeapify_spec Up.exU_WF (i := 3) (by decide) Up.exU_pre
  exact ⟨s', h1, h2, h3, h4⟩

/-- the model on `exU`: `95` ends at position `1`; the `90` that moved down into position `3` is re-sifted below the `60`
(this second step is the re-sift of the vacated position) -/
example : (upHeapify Up.exU 3).toOption.map (fun s => (s.pr 1, s.pr 3, s.pr 7)) = some (some 95, some 60, some 90) := by
  decide

/-- without the re-sift of the vacated position (the historical bug of the crate: only `heapify(pos)` after the sift-up)
the pair `(3, 7)` stays out of order: `90` on a min level above `60` -/
example : ((bubbleUp Up.exU 3 3).toOption.bind fun r => (heapify r.1 r.2).toOption.map fun s => (s.pr 3, s.pr 7)) =
    some (some 90, some 60) := by decide

/-- `upHeapify_noop`: position `11` is outside the table -/
example : upHeapify Up.exU 11 = .ok Up.exU := upHeapify_noop (by decide)

end DQ
end PQ
