import PQ.Lemmas.History
/-!
# `impl Debug for Store` on a well-formed store (helper lemmas for C04)
-/
namespace PQ
variable {P : Type}

theorem mapM_ok_of_forall {α β : Type} (f : α → R β) (g : α → β) :
    ∀ (l : List α), (∀ x ∈ l, f x = .ok (g x)) → l.mapM f = .ok (l.map g)
  | [], _ => rfl
  | x :: xs, h => by
    have hx := h x (by simp)
    have ih := mapM_ok_of_forall f g xs (fun y hy => h y (by simp [hy]))
    simp [List.mapM_cons, hx, ih, bind, Except.bind, pure, Except.pure]

/-- `Debug` never panics on a well-formed store and lists every slot exactly once, in heap order, with its stored entry -/
theorem debugEntries_wf_aux (d : P) (s : Store P) (h : s.WF) :
    ∃ l, s.debugEntries = .ok l ∧ l.map (·.1) = s.heap.toList ∧ l.length = s.size ∧
      ∀ x ∈ l, s.map[x.1]? = some (x.2.1, x.2.2) := by
  -- every slot named by the heap table is a slot of the map
  have hslot : ∀ i ∈ s.heap.toList, ∃ e, s.map[i]? = some e := by
    intro i hi
    obtain ⟨p, hp, hpe⟩ := List.mem_iff_getElem.mp hi
    have hp' : p < s.size := by simpa [h.heap_size] using hp
    obtain ⟨j, hj, hq⟩ := h.heap_qp p hp'
    have : s.heap[p]? = some i := by simp [← hpe, Array.getElem?_eq_getElem (by simpa using hp)]
    have hij : j = i := by simpa [this] using hj.symm
    subst hij
    have hlt : j < s.qp.size := by
      rcases Nat.lt_or_ge j s.qp.size with h1 | h1
      · exact h1
      · simp [Array.getElem?_eq_none h1] at hq
    have hm : j < s.map.size := by
      have := h.map_size; have := h.qp_size; omega
    exact ⟨s.map[j], by simp [hm]⟩
  let g : Nat → Nat × Item × P := fun i => match s.map[i]? with
    | some e => (i, e.1, e.2)
    | none => (i, default, d)
  have hg1 : ∀ i, (g i).1 = i := by
    intro i; simp only [g]; split <;> rfl
  refine ⟨s.heap.toList.map g, ?_, ?_, ?_, ?_⟩
  · unfold Store.debugEntries
    apply mapM_ok_of_forall
    intro i hi
    obtain ⟨e, he⟩ := hslot i hi
    simp [g, IMap.getIndex, he, unwrapO, bind, Except.bind, pure, Except.pure]
  · rw [List.map_map]
    conv => rhs; rw [← List.map_id s.heap.toList]
    apply List.map_congr_left
    intro i _; simp [hg1]
  · simp [h.heap_size]
  · intro x hx
    obtain ⟨i, hi, rfl⟩ := List.mem_map.mp hx
    obtain ⟨e, he⟩ := hslot i hi
    simp [g, he]

theorem debugEntries_wf (s : Store P) (h : s.WF) :
    ∃ l, s.debugEntries = .ok l ∧ l.map (·.1) = s.heap.toList ∧ l.length = s.size ∧
      ∀ x ∈ l, s.map[x.1]? = some (x.2.1, x.2.2) := by
  cases hm : s.map[0]? with
  | some e => exact debugEntries_wf_aux e.2 s h
  | none =>
    have h0 : s.size = 0 := by
      have := h.map_size
      rcases Nat.eq_zero_or_pos s.map.size with h1 | h1
      · omega
      · simp [Array.getElem?_eq_getElem h1] at hm
    have hh : s.heap = #[] := by
      apply Array.eq_empty_of_size_eq_zero; have := h.heap_size; omega
    refine ⟨[], ?_, ?_, ?_, ?_⟩
    · simp [Store.debugEntries, hh, pure, Except.pure]
    · simp [hh]
    · simp [h0]
    · intro x hx; cases hx
end PQ
