import PQ.Lemmas.PQSafe
/-!
# `PriorityQueue`: operation-level refinement under the invariant `MaxQ.Inv = WF ∧ MaxHeap`

Every public operation re-establishes `Inv`; `peek`/`pop` address a maximum.  The fault-freedom, `WF` and abstract
contents halves come from `PQ/Lemmas/PQSafe.lean` (they need no order); this file adds the order half: for every
operation a lemma `…_maxHeap : Inv s → ∀ s' r, op s … = .ok (s', r) → s'.MaxHeap`, and the combined `…_spec`.
-/
set_option linter.unusedSimpArgs false
set_option linter.unusedSectionVars false
set_option linter.unusedVariables false
namespace PQ
open Arith
variable {P : Type} [LT P] [DecidableLT P] [LE P] [Std.IsLinearPreorder P] [Std.LawfulOrderLT P]

namespace MaxQ
open Store

/-! ## Order toolbox -/

theorem Inv.tick {s : Store P} (h : Inv s) (k : Nat) : Inv (s.tick k) := ⟨tick_TWF.mpr h.1, h.2⟩

/-- in a max-heap the root dominates every position -/
theorem root_ge {s : Store P} (h : s.WF) (hm : s.MaxHeap) : ∀ p, p < s.size → s.Ge 0 p := by
  intro p
  induction p using Nat.strongRecOn with
  | _ p ih =>
    intro hp x y hx hy
    by_cases h0 : p = 0
    · subst h0; rw [hx] at hy; cases hy; grind
    · have hpl : parent p < p := parent_lt (by omega)
      obtain ⟨z, hz⟩ := TWF.pr_some h (show parent p < s.size by omega)
      have e1 := ih (parent p) hpl (by omega) x z hx hz
      have e2 := hm p (by omega) hp z y hz hy
      grind

/-- the entry at the root of a max-heap is a maximum of the stored entries -/
theorem isMax_root {s : Store P} (h : Inv s) {e : Item × P} (he : s.entryAt 0 = some e) : s.IsMax e := by
  refine ⟨entryAt_mem he, fun e' hm' => ?_⟩
  obtain ⟨p, hp, hep⟩ := mem_entryAt h.1 hm'
  exact root_ge h.1 h.2 p hp e.2 e'.2 (by rw [pr_eq_entryAt, he]; rfl) (by rw [pr_eq_entryAt, hep]; rfl)

/-- a store that agrees with a max-heap on a prefix of the positions is a max-heap -/
theorem maxHeap_of_prefix {s s1 : Store P} (hm : s.MaxHeap) (hsz : s1.size ≤ s.size)
    (hpr : ∀ q, q < s1.size → s1.pr q = s.pr q) : s1.MaxHeap := by
  intro p hp hps a b ha hb
  rw [hpr _ (by have := parent_le p; omega)] at ha
  rw [hpr _ hps] at hb
  exact hm p hp (by omega) a b ha hb

/-- **`up_heapify(pos)` after an arbitrary change at `pos`**: if `s1` agrees with the max-heap `s` on all its
positions except `pos`, `up_heapify s1 pos` yields a max-heap -/
theorem upHeapify_update {s s1 : Store P} {pos : Nat} (hm : s.MaxHeap) (hwf : s.WF) (h1 : s1.WF)
    (hsz : s1.size ≤ s.size) (hpos : pos < s1.size) (hpr : ∀ q, q < s1.size → q ≠ pos → s1.pr q = s.pr q) :
    ∃ s', upHeapify s1 pos = .ok s' ∧ s'.WF ∧ s'.map = s1.map ∧ s'.size = s1.size ∧ s'.MaxHeap := by
  refine upHeapify_spec h1 hpos ?_ ?_
  · intro p hp hps hpp hppp a b ha hb
    rw [hpr _ (by have := parent_le p; omega) hppp] at ha
    rw [hpr _ hps hpp] at hb
    exact hm p hp (by omega) a b ha hb
  · intro h0 c hc hcs hcp a b ha hb
    have hpl : parent pos < pos := parent_lt h0
    have hcl : parent c < c := parent_lt hc
    rw [hpr _ (by omega) (by omega)] at ha
    rw [hpr _ hcs (by omega)] at hb
    obtain ⟨z, hz⟩ := TWF.pr_some hwf (show pos < s.size by omega)
    have e1 := hm pos h0 (by omega) a z ha hz
    have e2 := hm c hc (by omega) z b (by rw [hcp]; exact hz) hb
    grind

/-- **`heapify(0)` after an arbitrary change at the root** -/
theorem heapify_root {s s1 : Store P} (hm : s.MaxHeap) (h1 : s1.WF) (hsz : s1.size ≤ s.size) (hpos : 0 < s1.size)
    (hpr : ∀ q, 0 < q → q < s1.size → s1.pr q = s.pr q) :
    ∃ s', heapify s1 0 = .ok s' ∧ s'.WF ∧ s'.map = s1.map ∧ s'.size = s1.size ∧ s'.MaxHeap := by
  have hpre : s1.SiftPre 0 0 := by
    constructor
    · intro p hp hps _ hpp a b ha hb
      rw [hpr _ (by omega) (by have := parent_le p; omega)] at ha
      rw [hpr _ hp hps] at hb
      exact hm p hp (by omega) a b ha hb
    · intro h0; omega
  obtain ⟨s', hh, hwf, hmap, hsz', hed, _⟩ := heapify_spec h1 hpos (Nat.le_refl _) hpre
  exact ⟨s', hh, hwf, hmap, hsz', (maxHeap_iff_edgesFrom s').mpr hed⟩

theorem heapBuild_maxHeap {s : Store P} (h : s.WF) : ∀ s', heapBuild s = .ok s' → s'.MaxHeap := by
  intro s' hs
  obtain ⟨s'', h1, _, _, _, hm⟩ := heapBuild_spec h
  rw [h1] at hs; cases hs; exact hm

/-! ## `peek`, `peek_mut` -/

/-- **`peek`** shows a maximum -/
theorem peek_spec {s : Store P} (h : Inv s) :
    (s.size = 0 → peek s = none) ∧
    (0 < s.size → ∃ e, peek s = some e ∧ s.entryAt 0 = some e ∧ s.IsMax e) := by
  obtain ⟨h0, h1⟩ := peek_safe h.1
  refine ⟨h0, fun hpos => ?_⟩
  obtain ⟨e, he, hent, _, _⟩ := h1 hpos
  exact ⟨e, he, hent, isMax_root h hent⟩

/-- **`peek_mut`** with a key-preserving write to the item keeps the invariant (the priority is not writable) -/
theorem peekMutWrite_spec {s : Store P} (h : Inv s) (w : Item → Item) (hw : ∀ it, (w it).key = it.key) :
    (s.size = 0 → peekMutWrite s w = .ok (s, none)) ∧
    (0 < s.size → ∃ s' e, peekMutWrite s w = .ok (s', some e) ∧ peek s = some e ∧ s.IsMax e ∧ Inv s' ∧
      s'.size = s.size ∧ s'.abs = absSet s.abs e.1.key (w e.1, e.2)) := by
  obtain ⟨h0, h1⟩ := peekMutWrite_safe h.1 w hw
  refine ⟨h0, fun hpos => ?_⟩
  obtain ⟨s', e, hp, hpk, hwf, hsz, _, _, _, hent, habs⟩ := h1 hpos
  refine ⟨s', e, hp, hpk, isMax_root h hpk, ⟨hwf, ?_⟩, hsz, habs⟩
  refine maxHeap_of_prefix h.2 (by omega) (fun q _ => ?_)
  rw [pr_eq_entryAt, pr_eq_entryAt, hent]
  by_cases hq : q = 0
  · subst hq; rw [if_pos rfl, ← peek_eq_entryAt, hpk]; rfl
  · rw [if_neg hq]

/-! ## `push` -/

theorem push_maxHeap {s : Store P} (h : Inv s) (it : Item) (p : P) :
    ∀ s' r, push s it p = .ok (s', r) → s'.MaxHeap := by
  intro s' r hp
  rcases IMap.insertFull_cases s.map it p with ⟨i, e, hf, he, hk, hins⟩ | ⟨hf, hins⟩
  · have hil : i < s.size := by have := lt_size_of_getElem? he; rw [h.1.map_size] at this; exact this
    obtain ⟨pos, hq, hpl⟩ := h.1.qp_some hil
    have hh := h.1.heap_of_qp hq
    obtain ⟨h1, hent, _⟩ := setEntry_spec (e' := (e.1, p)) h.1 hh he rfl
    obtain ⟨s2, hu, _, _, _, hmax⟩ := upHeapify_update (s1 := s.setEntry i (e.1, p)) h.2 h.1 h1 (Nat.le_refl _) hpl
      (fun q _ hq => by rw [pr_eq_entryAt, pr_eq_entryAt, hent, if_neg hq])
    rw [push_eval_present hf he hq, hu] at hp
    cases hp; exact hmax
  · have h2 := pushPre_TWF h.1 (it := it) (p := p) hf
    have hlast := pushPre_heap_last h.1 it p
    have hpr : ∀ q, q < s.size → (pushPre s it p).pr q = s.pr q := fun q hq => by
      rw [pr_eq_entryAt, pr_eq_entryAt, pushPre_entryAt h.1, if_neg (by omega)]
    have hnochild : ∀ c, 0 < c → c < s.size + 1 → parent c ≠ s.size := by
      intro c hc hcs hcp; simp only [parent] at hcp; omega
    obtain ⟨s3, pos, hb, h3, hm3, hsz3, hle, hedge, _, hbelow, _⟩ := bubbleUp_spec h2 hlast
      (by
        intro p' hp' hps hne hpne a b ha hb
        have hpl : parent p' < p' := parent_lt hp'
        rw [hpr _ (by omega)] at ha
        rw [hpr _ (by omega)] at hb
        exact h.2 p' hp' (by omega) a b ha hb)
      (fun _ c hc hcs hcp => absurd hcp (hnochild c hc hcs))
    rw [push_eval_absent hf, hb] at hp
    cases hp
    intro p' hp' hps a b ha hb
    have hsz3' : s3.size = s.size := hsz3
    have hps' : p' < s.size + 1 := by have : p' < s3.size + 1 := hps; omega
    have ha' : s3.pr (parent p') = some a := ha
    have hb' : s3.pr p' = some b := hb
    by_cases hpp : parent p' = pos
    · by_cases hpi : pos = s.size
      · exact absurd (hpp.trans hpi) (hnochild p' hp' hps')
      · rw [hpp] at ha'
        exact hbelow hpi p' hp' hps' hpp a b ha' hb'
    · exact hedge p' hp' hps' hpp a b ha' hb'

/-- **`push`** -/
theorem push_spec {s : Store P} (h : Inv s) (it : Item) (p : P) :
    ∃ s', push s it p = .ok (s', (s.abs it.key).map (·.2)) ∧ Inv s' ∧ s'.abs = absPush s.abs it p ∧
      s'.size = if (s.abs it.key).isSome then s.size else s.size + 1 := by
  obtain ⟨s', hp, hwf, habs, hsz⟩ := push_safe h.1 it p
  exact ⟨s', hp, ⟨hwf, push_maxHeap h it p _ _ hp⟩, habs, hsz⟩

/-! ## `pop`, `pop_if` -/

theorem pop_maxHeap {s : Store P} (h : Inv s) : ∀ s' r, pop s = .ok (s', r) → s'.MaxHeap := by
  intro s' r hp
  by_cases h0 : s.size = 0
  · rw [pop_zero h0] at hp; cases hp; exact h.2
  · obtain ⟨s1, e, hsr, hent, h1wf, h1sz, _, hents, hlk⟩ := swapRemove_spec h.1 (pos := 0) (by omega)
    by_cases h1 : s.size = 1
    · rw [pop_one h1, hsr] at hp; cases hp
      intro p hp hps; omega
    · have hpr : ∀ q, 0 < q → q < s1.size → s1.pr q = s.pr q := fun q hq hql => by
        rw [pr_eq_entryAt, pr_eq_entryAt, hents q (by omega), if_neg (by omega)]
      obtain ⟨s2, hh, _, _, _, hmax⟩ := heapify_root h.2 h1wf (by omega) (by omega) hpr
      rw [pop_many (by omega), hsr] at hp
      simp [hh, bind, Except.bind, pure, Except.pure] at hp
      obtain ⟨rfl, _⟩ := hp
      exact hmax

/-- **`pop`** removes and returns a maximum -/
theorem pop_spec {s : Store P} (h : Inv s) :
    (s.size = 0 → pop s = .ok (s, none)) ∧
    (0 < s.size → ∃ s' e, pop s = .ok (s', some e) ∧ peek s = some e ∧ s.IsMax e ∧ Inv s' ∧
      s'.abs = absRemove s.abs e.1.key ∧ s'.size = s.size - 1) := by
  obtain ⟨h0, h1⟩ := pop_safe h.1
  refine ⟨h0, fun hpos => ?_⟩
  obtain ⟨s', e, hp, hpk, hwf, habs, hsz⟩ := h1 hpos
  exact ⟨s', e, hp, hpk, isMax_root h hpk, ⟨hwf, pop_maxHeap h _ _ hp⟩, habs, hsz⟩

theorem popIf_maxHeap {s : Store P} (h : Inv s) (f : Item → P → Bool × Item × P)
    (hf : ∀ it p, (f it p).2.1.key = it.key) : ∀ s' r, popIf s f = .ok (s', r) → s'.MaxHeap := by
  intro s' r hp
  by_cases h0 : s.size = 0
  · rw [popIf_zero f h0] at hp; cases hp; exact h.2
  · obtain ⟨e, hent, htrue, hfalse⟩ := swapRemoveIf_spec f h.1 (pos := 0) (by omega) hf
    cases hr : (f e.1 e.2).1 with
    | true =>
      obtain ⟨s1, hsr, h1wf, h1sz, _, hents, _⟩ := htrue hr
      by_cases h1 : s.size = 1
      · rw [popIf_one f h1, hsr] at hp; cases hp
        intro p hp hps; omega
      · have hpr : ∀ q, 0 < q → q < s1.size → s1.pr q = s.pr q := fun q hq hql => by
          rw [pr_eq_entryAt, pr_eq_entryAt, hents q (by omega), if_neg (by omega)]
        obtain ⟨s2, hh, _, _, _, hmax⟩ := heapify_root h.2 h1wf (by omega) (by omega) hpr
        rw [popIf_many f (by omega), hsr] at hp
        simp [hh, bind, Except.bind, pure, Except.pure] at hp
        obtain ⟨rfl, _⟩ := hp
        exact hmax
    | false =>
      obtain ⟨s1, hsr, h1wf, h1sz, _, _, _, hents, _⟩ := hfalse hr
      have hpr : ∀ q, 0 < q → q < s1.size → s1.pr q = s.pr q := fun q hq hql => by
        rw [pr_eq_entryAt, pr_eq_entryAt, hents q, if_neg (by omega)]
      by_cases h1 : s.size = 1
      · rw [popIf_one f h1, hsr] at hp; cases hp
        intro p hp hps; omega
      · obtain ⟨s2, hh, _, _, _, hmax⟩ := heapify_root h.2 h1wf (by omega) (by omega) hpr
        rw [popIf_many f (by omega), hsr] at hp
        simp [hh, bind, Except.bind, pure, Except.pure] at hp
        obtain ⟨rfl, _⟩ := hp
        exact hmax

/-- **`pop_if`** with a key-preserving predicate: the predicate is applied to exactly the maximum `peek` shows; if it
answers *true* the (possibly rewritten) entry is returned and removed, otherwise `None` is returned and the
(possibly rewritten) entry stays; the invariant holds afterwards in both cases -/
theorem popIf_spec {s : Store P} (h : Inv s) (f : Item → P → Bool × Item × P)
    (hf : ∀ it p, (f it p).2.1.key = it.key) :
    (s.size = 0 → popIf s f = .ok (s, none)) ∧
    (0 < s.size → ∃ e, peek s = some e ∧ s.IsMax e ∧
      ((f e.1 e.2).1 = true → ∃ s', popIf s f = .ok (s', some ((f e.1 e.2).2.1, (f e.1 e.2).2.2)) ∧ Inv s' ∧
          s'.abs = absRemove s.abs e.1.key ∧ s'.size = s.size - 1) ∧
      ((f e.1 e.2).1 = false → ∃ s', popIf s f = .ok (s', none) ∧ Inv s' ∧
          s'.abs = absSet s.abs e.1.key ((f e.1 e.2).2.1, (f e.1 e.2).2.2) ∧ s'.size = s.size)) := by
  obtain ⟨h0, h1⟩ := popIf_safe h.1 f hf
  refine ⟨h0, fun hpos => ?_⟩
  obtain ⟨e, hpk, ht, hfl⟩ := h1 hpos
  refine ⟨e, hpk, isMax_root h hpk, fun hr => ?_, fun hr => ?_⟩
  · obtain ⟨s', hp, hwf, habs, hsz⟩ := ht hr
    exact ⟨s', hp, ⟨hwf, popIf_maxHeap h f hf _ _ hp⟩, habs, hsz⟩
  · obtain ⟨s', hp, hwf, habs, hsz⟩ := hfl hr
    exact ⟨s', hp, ⟨hwf, popIf_maxHeap h f hf _ _ hp⟩, habs, hsz⟩

/-! ## `change_priority`, `change_priority_by`, `remove` -/

theorem changePriority_maxHeap {s : Store P} (h : Inv s) (k : Nat) (p : P) :
    ∀ s' r, changePriority s k p = .ok (s', r) → s'.MaxHeap := by
  intro s' r hp
  cases ha : s.abs k with
  | none => rw [changePriority_absent ha] at hp; cases hp; exact h.2
  | some e =>
    obtain ⟨s1, pos, hcp, hpl, _, h1, hsz1, _, _, _, hent, _⟩ := changePriority_spec_some h.1 ha p
    obtain ⟨s2, hu, _, _, _, hmax⟩ := upHeapify_update (pos := pos) h.2 h.1 h1 (Nat.le_of_eq hsz1)
      (by rw [hsz1]; exact hpl) (fun q _ hq => by rw [pr_eq_entryAt, pr_eq_entryAt, hent, if_neg hq])
    rw [changePriority_eval_some hcp, hu] at hp
    cases hp; exact hmax

/-- **`change_priority`**: a stored item gets the new priority (old one returned, stored item untouched); for an
absent item the state is returned unchanged -/
theorem changePriority_spec {s : Store P} (h : Inv s) (k : Nat) (p : P) :
    (s.abs k = none → changePriority s k p = .ok (s, none)) ∧
    (∀ e, s.abs k = some e → ∃ s', changePriority s k p = .ok (s', some e.2) ∧ Inv s' ∧
      s'.abs = absSet s.abs k (e.1, p) ∧ s'.size = s.size) := by
  obtain ⟨h0, h1⟩ := changePriority_safe h.1 k p
  refine ⟨h0, fun e ha => ?_⟩
  obtain ⟨s', hp, hwf, habs, hsz⟩ := h1 e ha
  exact ⟨s', hp, ⟨hwf, changePriority_maxHeap h k p _ _ hp⟩, habs, hsz⟩

theorem changePriorityBy_maxHeap {s : Store P} (h : Inv s) (k : Nat) (g : P → P) :
    ∀ s' r, changePriorityBy s k g = .ok (s', r) → s'.MaxHeap := by
  intro s' r hp
  cases ha : s.abs k with
  | none => rw [changePriorityBy_absent ha] at hp; cases hp; exact h.2
  | some e =>
    obtain ⟨s1, pos, hcp, hpl, _, h1, hsz1, _, _, _, hent, _⟩ := changePriorityBy_spec_some h.1 ha g
    obtain ⟨s2, hu, _, _, _, hmax⟩ := upHeapify_update (pos := pos) h.2 h.1 h1 (Nat.le_of_eq hsz1)
      (by rw [hsz1]; exact hpl) (fun q _ hq => by rw [pr_eq_entryAt, pr_eq_entryAt, hent, if_neg hq])
    rw [changePriorityBy_eval_some hcp, hu] at hp
    cases hp; exact hmax

/-- **`change_priority_by`** -/
theorem changePriorityBy_spec {s : Store P} (h : Inv s) (k : Nat) (g : P → P) :
    (s.abs k = none → changePriorityBy s k g = .ok (s, false)) ∧
    (∀ e, s.abs k = some e → ∃ s', changePriorityBy s k g = .ok (s', true) ∧ Inv s' ∧
      s'.abs = absSet s.abs k (e.1, g e.2) ∧ s'.size = s.size) := by
  obtain ⟨h0, h1⟩ := changePriorityBy_safe h.1 k g
  refine ⟨h0, fun e ha => ?_⟩
  obtain ⟨s', hp, hwf, habs, hsz⟩ := h1 e ha
  exact ⟨s', hp, ⟨hwf, changePriorityBy_maxHeap h k g _ _ hp⟩, habs, hsz⟩

theorem remove_maxHeap {s : Store P} (h : Inv s) (k : Nat) : ∀ s' r, remove s k = .ok (s', r) → s'.MaxHeap := by
  intro s' r hp
  cases ha : s.abs k with
  | none => rw [remove_absent ha] at hp; cases hp; exact h.2
  | some e =>
    obtain ⟨s1, pos, hr, hpl, _, h1, hsz1, _, hents, _⟩ := remove_spec_some h.1 ha
    rw [remove_eval_some hr] at hp
    by_cases hps : pos < s1.size
    · obtain ⟨s2, hu, _, _, _, hmax⟩ := upHeapify_update h.2 h.1 h1 (by omega) hps
        (fun q hq hne => by rw [pr_eq_entryAt, pr_eq_entryAt, hents q (by omega), if_neg hne])
      rw [if_pos hps, hu] at hp
      cases hp; exact hmax
    · rw [if_neg hps] at hp
      cases hp
      exact maxHeap_of_prefix h.2 (by omega)
        (fun q hq => by rw [pr_eq_entryAt, pr_eq_entryAt, hents q (by omega), if_neg (by omega)])

/-- **`remove`**: a stored item is removed and its stored pair returned; for an absent item the state is returned
unchanged -/
theorem remove_spec {s : Store P} (h : Inv s) (k : Nat) :
    (s.abs k = none → remove s k = .ok (s, none)) ∧
    (∀ e, s.abs k = some e → ∃ s', remove s k = .ok (s', some e) ∧ Inv s' ∧ s'.abs = absRemove s.abs k ∧
      s'.size = s.size - 1) := by
  obtain ⟨h0, h1⟩ := remove_safe h.1 k
  refine ⟨h0, fun e ha => ?_⟩
  obtain ⟨s', hp, hwf, habs, hsz⟩ := h1 e ha
  exact ⟨s', hp, ⟨hwf, remove_maxHeap h k _ _ hp⟩, habs, hsz⟩

/-! ## `push_increase`, `push_decrease` -/

/-- **`push_increase`**: absent ⇒ as `push`, returns `None`; present with a strictly greater offered priority ⇒ as
`push`, returns the old priority; otherwise the state is unchanged up to the ghost counter and the OFFERED priority
is returned -/
theorem pushIncrease_spec {s : Store P} (h : Inv s) (it : Item) (p : P) :
    (s.abs it.key = none → ∃ s', pushIncrease s it p = .ok (s', none) ∧ Inv s' ∧ s'.abs = absPush s.abs it p ∧
        s'.size = s.size + 1) ∧
    (∀ e, s.abs it.key = some e → e.2 < p → ∃ s', pushIncrease s it p = .ok (s', some e.2) ∧ Inv s' ∧
        s'.abs = absPush s.abs it p ∧ s'.size = s.size) ∧
    (∀ e, s.abs it.key = some e → ¬ e.2 < p → pushIncrease s it p = .ok (s.tick, some p) ∧ Inv s.tick ∧
        Store.Same s.tick s) := by
  obtain ⟨h0, h1, h2⟩ := pushIncrease_safe h.1 it p
  refine ⟨fun ha => ?_, fun e ha hlt => ?_, fun e ha hlt => ⟨h2 e ha hlt, h.tick 1, rfl, rfl, rfl, rfl⟩⟩
  · obtain ⟨s', hp, hwf, habs, hsz⟩ := h0 ha
    refine ⟨s', hp, ⟨hwf, ?_⟩, habs, hsz⟩
    rw [pushIncrease_eq, ha] at hp
    exact push_maxHeap h it p _ _ hp
  · obtain ⟨s', hp, hwf, habs, hsz⟩ := h1 e ha hlt
    refine ⟨s', hp, ⟨hwf, ?_⟩, habs, hsz⟩
    rw [pushIncrease_eq, ha] at hp
    simp only [hlt, if_true] at hp
    exact push_maxHeap (h.tick 1) it p _ _ hp

/-- **`push_decrease`**: mirror image -/
theorem pushDecrease_spec {s : Store P} (h : Inv s) (it : Item) (p : P) :
    (s.abs it.key = none → ∃ s', pushDecrease s it p = .ok (s', none) ∧ Inv s' ∧ s'.abs = absPush s.abs it p ∧
        s'.size = s.size + 1) ∧
    (∀ e, s.abs it.key = some e → p < e.2 → ∃ s', pushDecrease s it p = .ok (s', some e.2) ∧ Inv s' ∧
        s'.abs = absPush s.abs it p ∧ s'.size = s.size) ∧
    (∀ e, s.abs it.key = some e → ¬ p < e.2 → pushDecrease s it p = .ok (s.tick, some p) ∧ Inv s.tick ∧
        Store.Same s.tick s) := by
  obtain ⟨h0, h1, h2⟩ := pushDecrease_safe h.1 it p
  refine ⟨fun ha => ?_, fun e ha hlt => ?_, fun e ha hlt => ⟨h2 e ha hlt, h.tick 1, rfl, rfl, rfl, rfl⟩⟩
  · obtain ⟨s', hp, hwf, habs, hsz⟩ := h0 ha
    refine ⟨s', hp, ⟨hwf, ?_⟩, habs, hsz⟩
    rw [pushDecrease_eq, ha] at hp
    exact push_maxHeap h it p _ _ hp
  · obtain ⟨s', hp, hwf, habs, hsz⟩ := h1 e ha hlt
    refine ⟨s', hp, ⟨hwf, ?_⟩, habs, hsz⟩
    rw [pushDecrease_eq, ha] at hp
    simp only [hlt, if_true] at hp
    exact push_maxHeap (h.tick 1) it p _ _ hp

/-! ## the bulk operations -/

/-- **`retain_mut`**: only `WF` is needed of the input (the closure may have destroyed the order anyway) -/
theorem retainMut_spec {s : Store P} (h : s.WF) (f : Item → P → Bool × Item × P)
    (hf : ∀ it p, (f it p).2.1.key = it.key) :
    ∃ s', retainMut s f = .ok s' ∧ Inv s' ∧ ∀ k, s'.abs k = (s.abs k).bind (IMap.retainStep f) := by
  obtain ⟨s', hp, hwf, habs, _⟩ := retainMut_safe h f hf
  exact ⟨s', hp, ⟨hwf, heapBuild_maxHeap (wf_retainMut h hf) s' hp⟩, habs⟩

/-- **`append`** -/
theorem append_spec {s o : Store P} (hs : s.WF) (ho : o.WF) :
    ∃ s' o', append s o = .ok (s', o') ∧ Inv s' ∧ Inv o' ∧ o'.map = #[] ∧ o'.size = 0 ∧ o'.heap = #[] ∧ o'.qp = #[] ∧
      ∀ k, s'.abs k = if o.size > s.size then (o.abs k).or (s.abs k) else (s.abs k).or (o.abs k) := by
  obtain ⟨s', o', hp, hwf, howf, t1, t2, t3, t4, habs⟩ := append_safe hs ho
  refine ⟨s', o', hp, ⟨hwf, ?_⟩, ⟨howf, fun p hp hps => by omega⟩, t1, t4, t2, t3, habs⟩
  obtain ⟨s'', h1, _, _, _, hm⟩ := heapBuild_spec (wf_append_fst hs ho)
  rw [append_eval, h1] at hp
  cases hp; exact hm

/-- **`From<Vec>`** -/
theorem fromVec_spec (v : Array (Item × P)) :
    ∃ s', fromVec v = .ok s' ∧ Inv s' ∧ ∀ k, s'.abs k = v.toList.find? (fun e => e.1.key == k) := by
  obtain ⟨s', hp, hwf, habs⟩ := fromVec_safe v
  exact ⟨s', hp, ⟨hwf, heapBuild_maxHeap (wf_fromVec v) s' hp⟩, habs⟩

/-- **`FromIterator`** (every `size_hint` lower bound below the capacity limit) -/
theorem fromIter_spec (lo : Nat) (xs : Array (Item × P)) (hlo : lo < capLimit) :
    ∃ s', fromIter lo xs = .ok s' ∧ Inv s' ∧ ∀ k, s'.abs k = xs.toList.reverse.find? (fun e => e.1.key == k) := by
  obtain ⟨s', hp, hwf, habs⟩ := fromIter_safe lo xs hlo
  exact ⟨s', hp, ⟨hwf, heapBuild_maxHeap (wf_fromIter xs) s' (by rw [← fromIter_of_lt xs hlo]; exact hp)⟩, habs⟩

/-- **`From<DoublePriorityQueue>`** -/
theorem ofStore_spec {s : Store P} (h : s.WF) :
    ∃ s', ofStore s = .ok s' ∧ Inv s' ∧ s'.map = s.map ∧ s'.size = s.size := by
  obtain ⟨s', hp, hwf, hm, hsz⟩ := ofStore_safe h
  exact ⟨s', hp, ⟨hwf, heapBuild_maxHeap h s' hp⟩, hm, hsz⟩

/-- **`Deserialize`** is total: EVERY pair sequence, under EVERY announced length, yields a queue satisfying the invariant -/
theorem deserialize_spec (hint : Option Nat) (xs : Array (Item × P)) :
    ∃ s', deserialize hint xs = .ok s' ∧ Inv s' ∧ s'.abs = xs.foldl Store.absStep (fun _ => none) ∧
      ∀ k, s'.abs k =
        match xs.toList.reverse.find? (fun e => e.1.key == k) with
        | none => none
        | some b => some (((xs.toList.find? (fun e => e.1.key == k)).map (·.1)).getD b.1, b.2) := by
  obtain ⟨s', hp, hwf, habs, habs'⟩ := deserialize_safe hint xs
  exact ⟨s', hp, ⟨hwf, heapBuild_maxHeap (wf_visitSeq xs) s' (by rw [← deserialize_eq hint xs]; exact hp)⟩, habs, habs'⟩

/-! ## `extend` -/

theorem pushAll_maxHeap (l : List (Item × P)) : ∀ {s : Store P}, Inv s → ∀ s', pushAll l s = .ok s' → s'.MaxHeap := by
  induction l with
  | nil => intro s h s' hp; cases hp; exact h.2
  | cons e l ih =>
    intro s h s' hp
    obtain ⟨s1, h1, h1inv, _, _⟩ := push_spec h e.1 e.2
    simp [pushAll, h1, bind, Except.bind] at hp
    exact ih h1inv s' hp

/-- the per-element strategy -/
theorem pushAll_spec (l : List (Item × P)) {s : Store P} (h : Inv s) :
    ∃ s', pushAll l s = .ok s' ∧ Inv s' ∧ s'.abs = l.foldl Store.absStep s.abs := by
  obtain ⟨s', hp, hwf, habs⟩ := pushAll_safe l h.1
  exact ⟨s', hp, ⟨hwf, pushAll_maxHeap l h s' hp⟩, habs⟩

/-- **`Extend::extend`**, for EVERY `lo` below the capacity limit: both strategies give the same contents, payloads included -/
theorem extend_spec {s : Store P} (h : Inv s) (lo : Nat) (xs : Array (Item × P)) (hlo : lo < capLimit) :
    ∃ s', extend s lo xs = .ok s' ∧ Inv s' ∧ s'.abs = xs.foldl Store.absStep s.abs := by
  obtain ⟨s', hp, hwf, habs⟩ := extend_safe h.1 lo xs hlo
  refine ⟨s', hp, ⟨hwf, ?_⟩, habs⟩
  cases hr : (if lo ≠ 0 then betterToRebuild s.size lo else false) with
  | true =>
    rw [extend_eval_rebuild xs hlo hr] at hp
    exact heapBuild_maxHeap (wf_extend h.1 xs) s' hp
  | false =>
    rw [extend_eval_pushAll xs hlo hr] at hp
    exact pushAll_maxHeap _ h s' hp

/-! ## `into_sorted_vec` -/

theorem drainSorted_sorted (fuel : Nat) : ∀ (s : Store P), Inv s → s.size + 1 ≤ fuel →
    ∀ l, drainSorted fuel s = .ok l → l.Pairwise (fun a b => ¬ a.2 < b.2) := by
  induction fuel with
  | zero => intro s _ hf; omega
  | succ fuel ih =>
    intro s h hf l hl
    by_cases h0 : s.size = 0
    · rw [drainSorted_nil fuel h0] at hl; cases hl; exact List.Pairwise.nil
    · obtain ⟨s', e0, hpop, _, hmax, hinv', habs, hsz⟩ := (pop_spec h).2 (by omega)
      obtain ⟨rest, hrest, _, hmem, _⟩ := drainSorted_safe fuel s' hinv'.1 (by omega)
      rw [drainSorted_cons hpop hrest] at hl
      cases hl
      refine List.Pairwise.cons (fun b hb => ?_) (ih s' hinv' (by omega) rest hrest)
      exact hmax.2 b ((mem_of_abs_remove h.1 hinv'.1 habs b).1 ((hmem b).1 hb)).2

/-- **`into_sorted_vec`**: every stored entry exactly once, in non-increasing priority order -/
theorem intoSortedVec_spec {s : Store P} (h : Inv s) :
    ∃ l, intoSortedVec s = .ok l ∧ l.length = s.size ∧ (∀ e, e ∈ l ↔ s.Mem e) ∧
      l.Pairwise (fun a b => ¬ a.2 < b.2) ∧ (l.map (·.1.key)).Nodup := by
  obtain ⟨l, hl, hlen, hmem, hnd⟩ := intoSortedVec_safe h.1
  exact ⟨l, hl, hlen, hmem, drainSorted_sorted _ s h (Nat.le_refl _) l hl, hnd⟩


/-! ## Non-vacuity: a concrete five-element queue satisfying the invariant, and the operations on it -/
section Examples

/-- priorities by position: 9 / 5 7 / 1 3 -/
private def ex5 : Store Nat :=
  { map := #[(⟨1, 10⟩, 5), (⟨2, 20⟩, 9), (⟨3, 30⟩, 7), (⟨4, 40⟩, 1), (⟨5, 50⟩, 3)],
    heap := #[1, 0, 2, 3, 4], qp := #[1, 0, 2, 3, 4], size := 5 }

/-- only well-formed (for `retain_mut`, `append`, `ofStore`) -/
private def exW : Store Nat :=
  { map := #[(⟨1, 10⟩, 5), (⟨2, 20⟩, 0), (⟨3, 30⟩, 7), (⟨4, 40⟩, 1), (⟨5, 50⟩, 3)],
    heap := #[1, 0, 2, 3, 4], qp := #[1, 0, 2, 3, 4], size := 5 }

private def exO : Store Nat :=
  { map := #[(⟨1, 11⟩, 8), (⟨9, 90⟩, 2)], heap := #[1, 0], qp := #[1, 0], size := 2 }

private def okR {α : Type} (r : R α) (q : α → Prop) : Prop :=
  match r with
  | .ok x => q x
  | .error _ => False

private instance {α : Type} (r : R α) (q : α → Prop) [DecidablePred q] : Decidable (okR r q) := by
  unfold okR; split <;> infer_instance

private def fYes : Item → Nat → Bool × Item × Nat := fun it p => (true, ⟨it.key, 99⟩, p + 1)
private def fNo : Item → Nat → Bool × Item × Nat := fun it p => (false, ⟨it.key, 99⟩, p - 8)
private def fDrop : Item → Nat → Bool × Item × Nat := fun it p => (p != 7, ⟨it.key, it.payload + 1⟩, 10 - p)
example : ∀ it p, (fYes it p).2.1.key = it.key := fun _ _ => rfl
example : ∀ it p, (fNo it p).2.1.key = it.key := fun _ _ => rfl
example : ∀ it p, (fDrop it p).2.1.key = it.key := fun _ _ => rfl

-- the hypothesis of every `*_spec` theorem
example : Inv ex5 ∧ 0 < ex5.size := by decide
example : exW.WF ∧ ¬ Inv exW ∧ exO.WF := by decide
-- `peek_spec`, `peekMutWrite_spec`
example : peek ex5 = some (⟨2, 20⟩, 9) := by decide +kernel
example : okR (peekMutWrite ex5 (fun it => ⟨it.key, 7⟩)) (fun r => Inv r.1 ∧ r.2 = some (⟨2, 20⟩, 9) ∧
    r.1.abs 2 = some (⟨2, 7⟩, 9)) := by decide +kernel
-- `push_spec`: a new key travels up one level; a stored key keeps its payload and goes to the root
example : ex5.abs 6 = none ∧ ex5.abs 4 = some (⟨4, 40⟩, 1) := by decide +kernel
example : okR (push ex5 ⟨6, 60⟩ 8) (fun r => Inv r.1 ∧ r.2 = none ∧ r.1.size = 6 ∧ r.1.heap = #[1, 0, 5, 3, 4, 2] ∧
    r.1.abs 6 = some (⟨6, 60⟩, 8)) := by decide +kernel
example : okR (push ex5 ⟨4, 0⟩ 10) (fun r => Inv r.1 ∧ r.2 = some 1 ∧ r.1.size = 5 ∧ peek r.1 = some (⟨4, 40⟩, 10)) := by
  decide +kernel
-- `pop_spec`
example : okR (pop ex5) (fun r => Inv r.1 ∧ r.2 = some (⟨2, 20⟩, 9) ∧ r.1.size = 4 ∧ r.1.abs 2 = none ∧
    peek r.1 = some (⟨3, 30⟩, 7)) := by decide +kernel
-- `popIf_spec`: both answers; with *no* the root is rewritten (9 ↦ 1) and sinks
example : okR (popIf ex5 fYes) (fun r => Inv r.1 ∧ r.2 = some (⟨2, 99⟩, 10) ∧ r.1.size = 4) := by decide +kernel
example : okR (popIf ex5 fNo) (fun r => Inv r.1 ∧ r.2 = none ∧ r.1.size = 5 ∧ r.1.abs 2 = some (⟨2, 99⟩, 1) ∧
    peek r.1 = some (⟨3, 30⟩, 7)) := by decide +kernel
-- `changePriority_spec`, `changePriorityBy_spec`, `remove_spec`: stored and absent key
example : okR (changePriority ex5 2 0) (fun r => Inv r.1 ∧ r.2 = some 9 ∧ r.1.abs 2 = some (⟨2, 20⟩, 0)) := by
  decide +kernel
example : okR (changePriority ex5 6 0) (fun r => r.1.map = ex5.map ∧ r.1.heap = ex5.heap ∧ r.1.ticks = ex5.ticks ∧
    r.2 = none) := by decide +kernel
example : okR (changePriorityBy ex5 4 (· + 50)) (fun r => Inv r.1 ∧ r.2 = true ∧ peek r.1 = some (⟨4, 40⟩, 51)) := by
  decide +kernel
example : okR (remove ex5 1) (fun r => Inv r.1 ∧ r.2 = some (⟨1, 10⟩, 5) ∧ r.1.size = 4 ∧ r.1.abs 1 = none) := by
  decide +kernel
example : okR (remove ex5 6) (fun r => r.1.map = ex5.map ∧ r.2 = none) := by decide +kernel
-- `pushIncrease_spec` / `pushDecrease_spec`: all three cases
example : okR (pushIncrease ex5 ⟨6, 60⟩ 8) (fun r => Inv r.1 ∧ r.2 = none ∧ r.1.size = 6) := by decide +kernel
example : okR (pushIncrease ex5 ⟨4, 0⟩ 8) (fun r => Inv r.1 ∧ r.2 = some 1 ∧ r.1.abs 4 = some (⟨4, 40⟩, 8)) := by
  decide +kernel
example : okR (pushIncrease ex5 ⟨4, 0⟩ 1) (fun r => r.1.map = ex5.map ∧ r.1.heap = ex5.heap ∧ r.2 = some 1 ∧
    r.1.ticks = ex5.ticks + 1) := by decide +kernel
example : okR (pushDecrease ex5 ⟨2, 0⟩ 4) (fun r => Inv r.1 ∧ r.2 = some 9 ∧ r.1.abs 2 = some (⟨2, 20⟩, 4)) := by
  decide +kernel
example : okR (pushDecrease ex5 ⟨2, 0⟩ 12) (fun r => r.1.map = ex5.map ∧ r.2 = some 12) := by decide +kernel
-- bulk operations: the input need not be ordered
example : okR (retainMut exW fDrop) (fun s' => Inv s' ∧ s'.size = 4 ∧ s'.abs 3 = none ∧ s'.abs 2 = some (⟨2, 21⟩, 10)) := by
  decide +kernel
example : okR (append exW exO) (fun r => Inv r.1 ∧ r.1.size = 6 ∧ Inv r.2 ∧ r.2.size = 0 ∧
    r.1.abs 1 = some (⟨1, 10⟩, 5) ∧ r.1.abs 9 = some (⟨9, 90⟩, 2)) := by decide +kernel
example : okR (fromVec #[(⟨1, 0⟩, 5), (⟨1, 9⟩, 7), (⟨2, 0⟩, 8)]) (fun s' => Inv s' ∧ s'.size = 2 ∧
    s'.abs 1 = some (⟨1, 0⟩, 5)) := by decide +kernel
example : okR (fromIter 2 #[(⟨1, 0⟩, 5), (⟨1, 9⟩, 7), (⟨2, 0⟩, 8)]) (fun s' => Inv s' ∧ s'.size = 2 ∧
    s'.abs 1 = some (⟨1, 9⟩, 7)) := by decide +kernel
example : okR (deserialize (some 3) #[(⟨1, 0⟩, 5), (⟨1, 9⟩, 7), (⟨2, 0⟩, 8)]) (fun s' => Inv s' ∧ s'.size = 2 ∧
    s'.abs 1 = some (⟨1, 0⟩, 7)) := by decide +kernel
example : okR (ofStore exW) (fun s' => Inv s' ∧ s'.map = exW.map) := by decide +kernel
-- `extend_spec`: both strategies are reachable, and both give the same contents
example : (if (0 : Nat) ≠ 0 then betterToRebuild 8 0 else false) = false ∧
    (if (17 : Nat) ≠ 0 then betterToRebuild 8 17 else false) = true := by decide +kernel
example : okR (extend ex5 0 #[(⟨4, 0⟩, 9), (⟨7, 0⟩, 2), (⟨7, 1⟩, 6)]) (fun s' => Inv s' ∧ s'.size = 6 ∧
    s'.abs 4 = some (⟨4, 40⟩, 9) ∧ s'.abs 7 = some (⟨7, 0⟩, 6)) := by decide +kernel
-- the rebuild strategy on an eight-element queue (`lo = 17`) against the per-element strategy (`lo = 0`)
example : okR (fromVec (Array.ofFn (n := 8) fun i => ((⟨i.val, 0⟩ : Item), i.val))) (fun s => Inv s ∧ s.size = 8 ∧
    okR (extend s 17 #[(⟨4, 1⟩, 9), (⟨70, 0⟩, 2), (⟨70, 1⟩, 6)]) (fun s' => Inv s' ∧ s'.size = 9 ∧
      s'.abs 4 = some (⟨4, 0⟩, 9) ∧ s'.abs 70 = some (⟨70, 0⟩, 6)) ∧
    okR (extend s 0 #[(⟨4, 1⟩, 9), (⟨70, 0⟩, 2), (⟨70, 1⟩, 6)]) (fun s' => Inv s' ∧ s'.size = 9 ∧
      s'.abs 4 = some (⟨4, 0⟩, 9) ∧ s'.abs 70 = some (⟨70, 0⟩, 6))) := by decide +kernel
-- `intoSortedVec_spec`
example : okR (intoSortedVec ex5) (fun l => l = [(⟨2, 20⟩, 9), (⟨3, 30⟩, 7), (⟨1, 10⟩, 5), (⟨5, 50⟩, 3), (⟨4, 40⟩, 1)]) := by
  decide +kernel

end Examples

end MaxQ
end PQ
