import PQ.Lemmas.SrcEquivOps2
/-!
# Source-translated tie, phase 5.3: bulk construction

Store level: `From<Vec>`, `FromIterator`, `Extend`, serde `visit_seq`, `retain`.  The inputs are opaque values of the IR:
a vector (`Val.entries`), an iterator (`Val.iter lo xs`: the lower bound of its `size_hint` and what it yields), a serde
sequence (`Val.seq hint xs`: the announced length and the pairs).  `with_capacity*` / `reserve` are read as the
capacity request `reserveC` of the model (only the deterministic capacity-overflow panic is modelled).
-/
set_option linter.unusedSimpArgs false
set_option linter.unusedSectionVars false
namespace PQ.SrcEquiv
open PQ PQ.Src PQ.SrcGen
variable {P : Type} [LT P] [DecidableLT P]

/-! ## loops over an input sequence -/

/-- a `for` loop over a sequence whose body is total and maintains a relation `Rel` between the interpreter state
and a model value that is advanced by `step` -/
theorem forList_rel {γ : Type} (body : Item × P → St P → R (St P × Flow P)) (step : γ → Item × P → γ)
    (Rel : St P → γ → Prop)
    (hbody : ∀ e st h, Rel st h → ∃ st', body e st = .ok (st', .normal) ∧ Rel st' (step h e)) :
    ∀ (l : List (Item × P)) (st : St P) (h : γ), Rel st h →
      ∃ st', forList body l st = .ok (st', .normal) ∧ Rel st' (l.foldl step h) := by
  intro l
  induction l with
  | nil => intro st h hr; exact ⟨st, rfl, hr⟩
  | cons e l ih =>
    intro st h hr
    obtain ⟨st1, h1, h2⟩ := hbody e st h hr
    obtain ⟨st2, h3, h4⟩ := ih st1 _ h2
    exact ⟨st2, by rw [forList, h1]; exact h3, h4⟩

theorem forList_bind_rel {β γ : Type} (body : Item × P → St P → R (St P × Flow P)) (l : List (Item × P)) (st0 : St P)
    (K : St P × Flow P → R β) (res : R β) (step : γ → Item × P → γ) (Rel : St P → γ → Prop) (h0 : γ)
    (hbody : ∀ e st h, Rel st h → ∃ st', body e st = .ok (st', .normal) ∧ Rel st' (step h e))
    (hrel : Rel st0 h0)
    (hK : ∀ st', Rel st' (l.foldl step h0) → K (st', .normal) = res) :
    forList body l st0 >>= K = res := by
  obtain ⟨st', h1, h2⟩ := forList_rel body step Rel hbody l st0 h0 hrel
  rw [h1]
  exact hK st' h2

/-! ## `From<Vec<(I, P)>> for Store` -/

/-- `Store::from(vec)` = `Store.fromVec` (for a vector that can exist: fewer than `capLimit` elements; the source asks for
that capacity up front) -/
theorem storeFromVec (s : Store P) (v : Array (Item × P)) (hv : v.size < capLimit) (fuel : Nat) (h : fuel ≥ 1) :
    Src.run SrcGen.prog fuel .storeFromVec s [] [] [Val.entries v] = pure (Store.fromVec v, Val.unit) := by
  obtain ⟨n, rfl⟩ : ∃ n, fuel = n + 1 := ⟨fuel - 1, by omega⟩
  src_enter [prog, SrcGen.storeFromVec]
  have hcap : ¬ v.size ≥ capLimit := by omega
  src_eval [storeFromVec_body, reserveC, hcap]
  refine forList_bind_rel _ _ _ _ _ Store.pushIfAbsent
    (fun st h => st.s = { h with size := 0 } ∧ st.n 1 = h.size) Store.empty ?_ ⟨rfl, rfl⟩ ?_
  · intro e st h ⟨hs, hn⟩
    unfold Store.pushIfAbsent
    simp only [hs, hn]
    cases hc : h.map.contains e.fst.key with
    | true => exact ⟨_, by simp; rfl, by simp, by simp [upd]; exact hn⟩
    | false =>
      refine ⟨_, by simp; rfl, ?_, by simp [upd]⟩
      simp [insertFull_fst_of_not_contains _ _ hc]
  · intro st' ⟨hs, hn⟩
    simp only [Store.fromVec, Array.foldl_toList] at hs hn ⊢
    simp only [hs, hn, pure_bind, fin_normal]

/-! ## `FromIterator`, `Extend`, serde `visit_seq` for `Store` -/

theorem contains_true_find {m : IMap P} {k : Nat} (h : m.contains k = true) :
    ∃ i e, IMap.find? m k = some i ∧ m[i]? = some e := by
  unfold IMap.contains at h
  cases hf : IMap.find? m k with
  | none => simp [hf] at h
  | some i =>
    obtain ⟨e, he, _⟩ := IMap.find?_getElem? hf
    exact ⟨i, e, rfl, he⟩

theorem contains_false_find {m : IMap P} {k : Nat} (h : m.contains k = false) : IMap.find? m k = none := by
  unfold IMap.contains at h
  cases hf : IMap.find? m k with
  | none => rfl
  | some i => simp [hf] at h

/-- `Store::from_iter(iter)` = `reserveC lo` (when `lo > 0`), then `Store.fromIter` -/
theorem storeFromIter (s : Store P) (lo : Nat) (xs : Array (Item × P)) (fuel : Nat) (h : fuel ≥ 1) :
    Src.run SrcGen.prog fuel .storeFromIter s [] [] [Val.iter lo xs]
      = (do reserveC lo; pure (Store.fromIter xs, Val.unit)) := by
  obtain ⟨n, rfl⟩ : ∃ n, fuel = n + 1 := ⟨fuel - 1, by omega⟩
  src_enter [prog, SrcGen.storeFromIter]
  src_eval [storeFromIter_body]
  by_cases hlo : lo > 0
  · simp only [hlo, ↓reduceIte]
    unfold reserveC
    split
    · rfl
    simp only [pure_bind]
    refine forList_bind_rel _ _ _ _ _ Store.fromIterStep (fun st h => st.s = h) Store.empty ?_ rfl ?_
    · intro e st h hs
      subst hs
      unfold Store.fromIterStep
      cases hc : st.s.map.contains e.fst.key with
      | true =>
        obtain ⟨i, e0, hf, he0⟩ := contains_true_find hc
        refine ⟨_, by simp [hf, unwrapO_some]; rfl, ?_⟩
        simp [hf, IMap.setItem, IMap.setPrio, he0, getElem?_some_lt he0]
      | false =>
        have hf := contains_false_find hc
        refine ⟨_, by simp; rfl, ?_⟩
        simp [hf, insertFull_fst_of_not_contains _ _ hc]
    · intro st' hs
      simp only [Store.fromIter, Array.foldl_toList] at hs ⊢
      simp only [hs, fin_normal]
  · have h0 : lo = 0 := by omega
    subst h0
    have hr0 : (reserveC 0 : R Unit) = pure () := by
      unfold reserveC capLimit; rfl
    simp only [Nat.lt_irrefl, ↓reduceIte, hr0, pure_bind]
    refine forList_bind_rel _ _ _ _ _ Store.fromIterStep (fun st h => st.s = h) Store.empty ?_ rfl ?_
    · intro e st h hs
      subst hs
      unfold Store.fromIterStep
      cases hc : st.s.map.contains e.fst.key with
      | true =>
        obtain ⟨i, e0, hf, he0⟩ := contains_true_find hc
        refine ⟨_, by simp [hf, unwrapO_some]; rfl, ?_⟩
        simp [hf, IMap.setItem, IMap.setPrio, he0, getElem?_some_lt he0]
      | false =>
        have hf := contains_false_find hc
        refine ⟨_, by simp; rfl, ?_⟩
        simp [hf, insertFull_fst_of_not_contains _ _ hc]
    · intro st' hs
      simp only [Store.fromIter, Array.foldl_toList] at hs ⊢
      simp only [hs, fin_normal]

/-- `Extend::extend` of the store = `Store.extend` -/
theorem storeExtend (s : Store P) (lo : Nat) (xs : Array (Item × P)) (fuel : Nat) (h : fuel ≥ 1) :
    Src.run SrcGen.prog fuel .storeExtend s [] [] [Val.iter lo xs] = pure (s.extend xs, Val.unit) := by
  obtain ⟨n, rfl⟩ : ∃ n, fuel = n + 1 := ⟨fuel - 1, by omega⟩
  src_enter [prog, SrcGen.storeExtend]
  src_eval [storeExtend_body]
  refine forList_bind_rel _ _ _ _ _ Store.extendStep (fun st h => st.s = h) s ?_ rfl ?_
  · intro e st h hs
    subst hs
    unfold Store.extendStep
    cases hc : st.s.map.contains e.fst.key with
    | true =>
      obtain ⟨i, e0, hf, he0⟩ := contains_true_find hc
      exact ⟨_, by simp [hf, unwrapO_some]; rfl, by simp [hf]⟩
    | false =>
      have hf := contains_false_find hc
      refine ⟨_, by simp; rfl, ?_⟩
      simp [hf, insertFull_fst_of_not_contains _ _ hc]
  · intro st' hs
    simp only [Store.extend, Array.foldl_toList] at hs ⊢
    simp only [hs, fin_normal]

/-- serde `visit_seq` = the capped capacity request (`Arith.deserPrealloc`, generated from the same source), then
`Store.visitSeq` -/
theorem storeVisitSeq (s : Store P) (hint : Option Nat) (xs : Array (Item × P)) (fuel : Nat) (h : fuel ≥ 1) :
    Src.run SrcGen.prog fuel .storeVisitSeq s [] [] [Val.seq hint xs]
      = (do (match hint with
              | some h => reserveC (Arith.deserPrealloc h)
              | none => pure ())
            pure (Store.visitSeq xs, Val.unit)) := by
  obtain ⟨n, rfl⟩ : ∃ n, fuel = n + 1 := ⟨fuel - 1, by omega⟩
  src_enter [prog, SrcGen.storeVisitSeq]
  src_eval [storeVisitSeq_body]
  cases hint with
  | none =>
    simp only [pure_bind]
    refine forList_bind_rel _ _ _ _ _ Store.visitSeqStep (fun st h => st.s = h) Store.empty ?_ rfl ?_
    · intro e st h hs
      subst hs
      unfold Store.visitSeqStep
      cases ho : (st.s.map.insertFull e.fst e.snd).2.2 with
      | none => exact ⟨_, by simp [ho]; rfl, by simp [ho]⟩
      | some o => exact ⟨_, by simp [ho]; rfl, by simp [ho]⟩
    · intro st' hs
      simp only [Store.visitSeq, Array.foldl_toList] at hs ⊢
      simp only [hs, fin_normal]
  | some hh =>
    simp only [Arith.deserPrealloc]
    unfold reserveC
    split
    · rfl
    simp only [pure_bind]
    refine forList_bind_rel _ _ _ _ _ Store.visitSeqStep (fun st h => st.s = h) Store.empty ?_ rfl ?_
    · intro e st h hs
      subst hs
      unfold Store.visitSeqStep
      cases ho : (st.s.map.insertFull e.fst e.snd).2.2 with
      | none => exact ⟨_, by simp [ho]; rfl, by simp [ho]⟩
      | some o => exact ⟨_, by simp [ho]; rfl, by simp [ho]⟩
    · intro st' hs
      simp only [Store.visitSeq, Array.foldl_toList] at hs ⊢
      simp only [hs, fin_normal]

/-- `Store::retain(g)` = `Store.retainMut` with the predicate that leaves item and priority alone -/
theorem storeRetain (s : Store P) (g : Item → P → Bool) (fuel : Nat) (h : fuel ≥ 2) :
    Src.run SrcGen.prog fuel .storeRetain s [] [] [Val.predRO g]
      = pure (s.retainMut (fun i p => (g i p, i, p)), Val.unit) := by
  obtain ⟨n, rfl⟩ : ∃ n, fuel = n + 2 := ⟨fuel - 2, by omega⟩
  src_enter [prog, SrcGen.storeRetain]
  have hc := fun (s : Store P) f => storeRetainMut s f (n + 1) (by omega)
  simp only [Src.run] at hc
  src_eval [storeRetain_body, hc]
end PQ.SrcEquiv
