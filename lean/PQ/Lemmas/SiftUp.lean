import PQ.Lemmas.MaxHeap
/-!
# Sift-up with the moving-hole technique (`PriorityQueue::bubble_up`)
-/
set_option linter.unusedSimpArgs false
set_option linter.unusedSectionVars false
namespace PQ
open Arith
variable {P : Type}

namespace Store

/-- tables of length `n` that are inverse bijections except that heap position `hole` is vacant and slot `idx`
is not placed anywhere: the loop invariant of the moving-hole sift-up -/
structure HoleTWF (s : Store P) (n hole idx : Nat) : Prop where
  map_size : s.map.size = n
  heap_size : s.heap.size = n
  qp_size : s.qp.size = n
  hole_lt : hole < n
  idx_lt : idx < n
  heap_qp : ∀ p, p < n → p ≠ hole → ∃ i, i ≠ idx ∧ s.heap[p]? = some i ∧ s.qp[i]? = some p
  qp_heap : ∀ i, i < n → i ≠ idx → ∃ p, p ≠ hole ∧ s.qp[i]? = some p ∧ s.heap[p]? = some i
  nodup : s.map.NoDupKeys

theorem TWF.toHole {s : Store P} {n pos idx : Nat} (h : s.TWF n) (hp : s.heap[pos]? = some idx) : s.HoleTWF n pos idx := by
  have hpos : pos < n := by have := lt_size_of_getElem? hp; rw [h.heap_size] at this; exact this
  refine ⟨h.map_size, h.heap_size, h.qp_size, hpos, h.heap_lt hp, ?_, ?_, h.nodup⟩
  · intro p hpn hne
    obtain ⟨i, h1, h2⟩ := h.heap_qp p hpn
    exact ⟨i, fun e => hne (h.heap_inj h1 (e ▸ hp)), h1, h2⟩
  · intro i hin hne
    obtain ⟨p, h1, h2⟩ := h.qp_heap i hin
    refine ⟨p, fun e => hne ?_, h1, h2⟩
    subst e; rw [hp] at h2; cases h2; rfl

theorem HoleTWF.tick {s : Store P} {n hole idx k : Nat} (h : s.HoleTWF n hole idx) : (s.tick k).HoleTWF n hole idx :=
  ⟨h.1, h.2, h.3, h.4, h.5, h.6, h.7, h.8⟩

/-- one step of the sift-up loop: the parent's slot moves down into the hole, the hole moves to the parent -/
theorem HoleTWF.step {s : Store P} {n hole idx pp pi : Nat} (h : s.HoleTWF n hole idx) (hpp : pp < n) (hne : pp ≠ hole)
    (hpi : s.heap[pp]? = some pi) :
    ({ s with heap := s.heap.setIfInBounds hole pi, qp := s.qp.setIfInBounds pi hole } : Store P).HoleTWF n pp idx := by
  have hs := h.heap_size; have qs := h.qp_size
  obtain ⟨pi', hpi1, hpi2, hpi3⟩ := h.heap_qp pp hpp hne
  rw [hpi] at hpi2; cases hpi2
  have hpin : pi < n := by have := lt_size_of_getElem? hpi3; rw [qs] at this; exact this
  refine ⟨h.map_size, by simp [hs], by simp [qs], hpp, h.idx_lt, ?_, ?_, h.nodup⟩
  · intro p hp hpne
    by_cases hph : p = hole
    · subst hph
      refine ⟨pi, hpi1, by simp [Array.getElem?_setIfInBounds, hs, hp], by simp [Array.getElem?_setIfInBounds, qs, hpin]⟩
    · obtain ⟨i, hi1, hi2, hi3⟩ := h.heap_qp p hp hph
      have : pi ≠ i := by
        intro e; subst e
        rw [hpi3] at hi3; cases hi3; exact hpne rfl
      exact ⟨i, hi1, by simp [Array.getElem?_setIfInBounds, hs, Ne.symm hph, hi2], by simp [Array.getElem?_setIfInBounds, qs, this, hi3]⟩
  · intro i hi hine
    by_cases hipi : i = pi
    · subst hipi
      refine ⟨hole, Ne.symm hne, by simp [Array.getElem?_setIfInBounds, qs, hi], by simp [Array.getElem?_setIfInBounds, hs, h.hole_lt]⟩
    · obtain ⟨p, hp1, hp2, hp3⟩ := h.qp_heap i hi hine
      have hppne : p ≠ pp := by
        intro e; subst e; rw [hpi] at hp3; cases hp3; exact hipi rfl
      exact ⟨p, hppne, by simp [Array.getElem?_setIfInBounds, qs, Ne.symm hipi, hp2], by simp [Array.getElem?_setIfInBounds, hs, Ne.symm hp1, hp3]⟩

/-- filling the hole with the travelling slot restores well-formed tables -/
theorem HoleTWF.fill {s : Store P} {n hole idx : Nat} (h : s.HoleTWF n hole idx) :
    ({ s with heap := s.heap.setIfInBounds hole idx, qp := s.qp.setIfInBounds idx hole } : Store P).TWF n := by
  have hs := h.heap_size; have qs := h.qp_size
  refine ⟨h.map_size, by simp [hs], by simp [qs], ?_, ?_, h.nodup⟩
  · intro p hp
    by_cases hph : p = hole
    · subst hph
      exact ⟨idx, by simp [Array.getElem?_setIfInBounds, hs, hp], by simp [Array.getElem?_setIfInBounds, qs, h.idx_lt]⟩
    · obtain ⟨i, hi1, hi2, hi3⟩ := h.heap_qp p hp hph
      exact ⟨i, by simp [Array.getElem?_setIfInBounds, hs, Ne.symm hph, hi2], by simp [Array.getElem?_setIfInBounds, qs, Ne.symm hi1, hi3]⟩
  · intro i hi
    by_cases hii : i = idx
    · subst hii
      exact ⟨hole, by simp [Array.getElem?_setIfInBounds, qs, hi], by simp [Array.getElem?_setIfInBounds, hs, h.hole_lt]⟩
    · obtain ⟨p, hp1, hp2, hp3⟩ := h.qp_heap i hi hii
      exact ⟨p, by simp [Array.getElem?_setIfInBounds, qs, Ne.symm hii, hp2], by simp [Array.getElem?_setIfInBounds, hs, Ne.symm hp1, hp3]⟩

/-- the priority function "as if the travelling priority `v` sat in the hole" -/
def prH (s : Store P) (hole : Nat) (v : P) (p : Nat) : Option P := if p = hole then some v else s.pr p

theorem prH_step {s : Store P} {n hole idx pp pi : Nat} (h : s.HoleTWF n hole idx) (hne : pp ≠ hole)
    (hpi : s.heap[pp]? = some pi) (v : P) (p : Nat) :
    prH ({ s with heap := s.heap.setIfInBounds hole pi, qp := s.qp.setIfInBounds pi hole } : Store P) pp v p =
      prH s hole v (swapPos hole pp p) := by
  have hs := h.heap_size
  unfold prH swapPos pr
  by_cases h1 : p = pp
  · subst h1; simp [hne]
  · by_cases h2 : p = hole
    · subst h2; simp [h1, Ne.symm h1, Array.getElem?_setIfInBounds, hs, h.hole_lt, hpi, hne]
    · simp [h1, h2, Array.getElem?_setIfInBounds, Ne.symm h2]

theorem pr_fill {s : Store P} {n hole idx : Nat} (h : s.HoleTWF n hole idx) (e : Item × P) (he : s.map[idx]? = some e) (p : Nat) :
    ({ s with heap := s.heap.setIfInBounds hole idx, qp := s.qp.setIfInBounds idx hole } : Store P).pr p = prH s hole e.2 p := by
  have hs := h.heap_size
  unfold prH pr
  by_cases h1 : p = hole
  · subst h1; simp [Array.getElem?_setIfInBounds, hs, h.hole_lt, he]
  · simp [h1, Array.getElem?_setIfInBounds, Ne.symm h1]

end Store
end PQ
