import PQ.Lemmas.History
import PQ.Model.Crash
/-!
# The fused twins of `PQ/Model/Crash.lean`: every crash state is well-formed (property C10)

The central notion is `CrOut x y Q` — *the outcome of the fused computation `x` relative to its plain original `y`*:
either the fuse did not fire and `x` **is** `y` (lifted with `liftR`), or the fuse fired and `x` stopped with
`Stop.crashed s'` where `Q s'`.  For every twin `fF` of `Crash.lean` there is a lemma

  `cr_… : (invariant of the input) → CrOut (fF fuse …) (f …) (fun s' => s'.WF ∧ …)`

Together with the `*_safe` lemma of the plain function (`f … = .ok r ∧ post r`) this yields the three clauses
(`cr_three`): `fF … = .ok r' → r' = r` (hence every postcondition of the plain function), `fF … = .crashed s' → Q s'`, and
`fF …` is neither a model fault nor `crashedNew`.
-/
set_option linter.unusedSimpArgs false
set_option linter.unusedSectionVars false
set_option linter.unusedVariables false
namespace PQ.Crash
open PQ PQ.Arith PQ.Store

/-! ## The relational outcome `CrOut` and its rules (no hypotheses on the order) -/
section Rules
variable {P : Type} [LT P] [DecidableLT P]

/-- the fused computation `x` either is the plain computation `y`, or crashed into a store satisfying `Q` -/
def CrOut {α : Type} (x : CR P α) (y : R α) (Q : Store P → Prop) : Prop :=
  x = liftR y ∨ ∃ s', x = .error (.crashed s') ∧ Q s'

theorem cr_ok_bind {ε α β : Type} (a : α) (f : α → Except ε β) : ((Except.ok a : Except ε α) >>= f) = f a := rfl
theorem cr_error_bind {ε α β : Type} (e : ε) (f : α → Except ε β) : ((Except.error e : Except ε α) >>= f) = .error e := rfl
theorem cr_pure_eq {ε α : Type} (a : α) : (pure a : Except ε α) = .ok a := rfl

theorem cr_lift {α : Type} (y : R α) (Q : Store P → Prop) : CrOut (liftR y : CR P α) y Q := Or.inl rfl

theorem cr_pure {α : Type} (a : α) (Q : Store P → Prop) : CrOut (pure a : CR P α) (pure a) Q := Or.inl rfl

theorem cr_ok {α : Type} (a : α) (Q : Store P → Prop) : CrOut (.ok a : CR P α) (.ok a) Q := Or.inl rfl

theorem cr_crashed {α : Type} {s' : Store P} {y : R α} {Q : Store P → Prop} (h : Q s') :
    CrOut (.error (.crashed s') : CR P α) y Q := Or.inr ⟨s', rfl, h⟩

theorem CrOut.mono {α : Type} {x : CR P α} {y : R α} {Q Q' : Store P → Prop} (h : CrOut x y Q)
    (hQ : ∀ s', Q s' → Q' s') : CrOut x y Q' := by
  rcases h with h | ⟨s', h, hq⟩
  · exact Or.inl h
  · exact Or.inr ⟨s', h, hQ s' hq⟩

/-- sequencing: the continuation only has to be related on the values the plain computation can return -/
theorem CrOut.bind {α β : Type} {x : CR P α} {y : R α} {f : α → CR P β} {g : α → R β} {Q : Store P → Prop}
    (h : CrOut x y Q) (hfg : ∀ a, y = .ok a → CrOut (f a) (g a) Q) : CrOut (x >>= f) (y >>= g) Q := by
  rcases h with h | ⟨s', h, hq⟩
  · rw [h]
    cases y with
    | error e => exact Or.inl rfl
    | ok a => exact hfg a rfl
  · rw [h]; exact Or.inr ⟨s', rfl, hq⟩

/-- a lifted plain step -/
theorem cr_bind_lift {α β : Type} {y : R α} {f : α → CR P β} {g : α → R β} {Q : Store P → Prop}
    (hfg : ∀ a, y = .ok a → CrOut (f a) (g a) Q) : CrOut (liftR y >>= f) (y >>= g) Q :=
  (cr_lift y Q).bind hfg

/-- a fused step whose plain counterpart has the same continuation but is known to succeed with `a` -/
theorem CrOut.bind_ok {α β : Type} {x : CR P α} {y : R α} {a : α} {f : α → CR P β} {z : R β} {Q : Store P → Prop}
    (h : CrOut x y Q) (hy : y = .ok a) (hf : CrOut (f a) z Q) : CrOut (x >>= f) z Q := by
  rcases h with h | ⟨s', h, hq⟩
  · rw [h, hy]; exact hf
  · rw [h]; exact Or.inr ⟨s', rfl, hq⟩

/-- a comparison site without a guard: the crash state is the current store -/
theorem cr_cmp {β : Type} {fuse : Nat} {s : Store P} {a b : P} {f : Store P × Bool → CR P β} {z : R β}
    {Q : Store P → Prop} (hQ : Q s) (h : CrOut (f (s.tick, decide (a < b))) z Q) :
    CrOut (cmpF fuse s a b >>= f) z Q := by
  unfold cmpF
  split
  · exact Or.inr ⟨s, rfl, hQ⟩
  · exact h

/-- a comparison site under a live `Hole` guard: the crash state is the store with the hole filled -/
theorem cr_cmpHole {β : Type} {fuse : Nat} {s s1 : Store P} {a b : P} {pos mp sh sq : Nat}
    {f : Store P × Bool → CR P β} {z : R β} {Q : Store P → Prop}
    (hfill : fillHole s pos mp sh sq = .ok s1) (hQ : Q s1) (h : CrOut (f (s.tick, decide (a < b))) z Q) :
    CrOut (cmpHoleF fuse s a b pos mp sh sq >>= f) z Q := by
  unfold cmpHoleF
  split
  · rw [hfill]; exact Or.inr ⟨s1, rfl, hQ⟩
  · exact h

/-- the three clauses of target (A) from a `CrOut` fact and the success of the plain function -/
theorem cr_three {α : Type} {x : CR P α} {y : R α} {Q : Store P → Prop} {r : α} (h : CrOut x y Q) (hy : y = .ok r) :
    (∀ r', x = .ok r' → r' = r) ∧ (∀ s', x = .error (.crashed s') → Q s') ∧ (∀ f, x ≠ .error (.fault f)) ∧
      x ≠ .error .crashedNew := by
  rcases h with h | ⟨s', h, hq⟩
  · rw [h, hy]
    refine ⟨fun r' e => ?_, fun s' e => ?_, fun f e => ?_, fun e => ?_⟩ <;> cases e
    rfl
  · rw [h]
    refine ⟨fun r' e => ?_, fun s'' e => ?_, fun f e => ?_, fun e => ?_⟩ <;> cases e
    exact hq

/-- … in the form "ok with the plain result, or crashed into `Q`" -/
theorem CrOut.cases {α : Type} {x : CR P α} {y : R α} {Q : Store P → Prop} {r : α} (h : CrOut x y Q) (hy : y = .ok r) :
    x = .ok r ∨ ∃ s', x = .error (.crashed s') ∧ Q s' := by
  rcases h with h | h
  · left; rw [h, hy]; rfl
  · exact Or.inr h

/-- the guard's two writes succeed on `HoleTWF` tables and restore well-formed tables -/
theorem cr_fillHole {s : Store P} {n hole idx : Nat} (h : s.HoleTWF n hole idx) (sh sq : Nat) :
    ∃ s1, fillHole s hole idx sh sq = .ok s1 ∧ s1.TWF n ∧ s1.map = s.map ∧ s1.size = s.size ∧ s1.ticks = s.ticks := by
  have h1 : hole < s.heap.size := by rw [h.heap_size]; exact h.hole_lt
  have h2 : idx < s.qp.size := by rw [h.qp_size]; exact h.idx_lt
  refine ⟨{ s with heap := s.heap.setIfInBounds hole idx, qp := s.qp.setIfInBounds idx hole }, ?_, h.fill, rfl, rfl, rfl⟩
  simp [fillHole, setU_ok _ h1, setU_ok _ h2, bind, Except.bind, pure, Except.pure]

/-! ### `bubble_up` neither reads nor writes `size` (this is why `pushF`, which bumps `size` before the sift-up as the
current crate does, agrees with the plain `push`, which bumps it afterwards) -/

theorem cr_pq_bubbleUpLoop_size (m : Nat) (v : P) (fuel : Nat) : ∀ (s : Store P) (hole : Nat),
    PQ.MaxQ.bubbleUpLoop fuel { s with size := m } hole v =
      (PQ.MaxQ.bubbleUpLoop fuel s hole v).map (fun r => ({ r.1 with size := m }, r.2)) := by
  induction fuel with
  | zero => intro s hole; rfl
  | succ fuel ih =>
    intro s hole
    simp only [PQ.MaxQ.bubbleUpLoop]
    split
    · have e1 : ({ s with size := m } : Store P).prioAt (parent hole) = s.prioAt (parent hole) := rfl
      rw [e1]
      cases s.prioAt (parent hole) with
      | error f => rfl
      | ok pp =>
        simp only [cr_ok_bind]
        split
        · simp only [tick_heap, tick_qp, tick_map, tick_size, tick_ticks]
          cases getU s.heap (parent hole) 201 with
          | error f => rfl
          | ok pi =>
            simp only [cr_ok_bind]
            cases setU s.heap hole pi 202 with
            | error f => rfl
            | ok heap =>
              simp only [cr_ok_bind]
              cases setU s.qp pi hole 203 with
              | error f => rfl
              | ok qp =>
                simp only [cr_ok_bind]
                exact ih { map := s.map, heap := heap, qp := qp, size := s.size, ticks := s.ticks + 1 } (parent hole)
        · rfl
    · rfl

theorem cr_pq_bubbleUp_size (m : Nat) (s : Store P) (i idx : Nat) :
    PQ.MaxQ.bubbleUp { s with size := m } i idx =
      (PQ.MaxQ.bubbleUp s i idx).map (fun r => ({ r.1 with size := m }, r.2)) := by
  unfold PQ.MaxQ.bubbleUp
  dsimp only
  cases unwrapO (s.map.getIndex idx) 204 with
  | error f => rfl
  | ok e =>
    simp only [cr_ok_bind]
    rw [cr_pq_bubbleUpLoop_size]
    cases PQ.MaxQ.bubbleUpLoop (i + 1) s i e.2 with
    | error f => rfl
    | ok r =>
      obtain ⟨s1, pos⟩ := r
      simp only [Except.map, cr_ok_bind]
      cases setU s1.heap pos idx 205 with
      | error f => rfl
      | ok heap =>
        simp only [cr_ok_bind]
        cases setU s1.qp idx pos 206 with
        | error f => rfl
        | ok qp => rfl

theorem cr_map_bind {α : Type} {X' X : R α} {T : α → R α} {g : α → α} (hX : X' = Except.map g X)
    (hT : ∀ r, T (g r) = Except.map g (T r)) : (X' >>= T) = Except.map g (X >>= T) := by
  rw [hX]
  cases X with
  | error f => rfl
  | ok r => exact hT r

theorem cr_dq_bubbleUpMinLoop_size (m : Nat) (v : P) (fuel : Nat) : ∀ (s : Store P) (q : Nat),
    PQ.DQ.bubbleUpMinLoop fuel { s with size := m } q v =
      (PQ.DQ.bubbleUpMinLoop fuel s q v).map (fun r => ({ r.1 with size := m }, r.2)) := by
  induction fuel with
  | zero => intro s q; rfl
  | succ fuel ih =>
    intro s q
    simp only [PQ.DQ.bubbleUpMinLoop]
    split
    · have e1 : ({ s with size := m } : Store P).prioAt (parent (parent q)) = s.prioAt (parent (parent q)) := rfl
      rw [e1]
      cases s.prioAt (parent (parent q)) with
      | error f => rfl
      | ok gpp =>
        simp only [cr_ok_bind]
        split
        · simp only [tick_heap, tick_qp, tick_map, tick_size, tick_ticks]
          cases getU s.heap (parent (parent q)) 320 with
          | error f => rfl
          | ok pi =>
            simp only [cr_ok_bind]
            cases setU s.heap q pi 321 with
            | error f => rfl
            | ok heap =>
              simp only [cr_ok_bind]
              cases setU s.qp pi q 322 with
              | error f => rfl
              | ok qp =>
                simp only [cr_ok_bind]
                exact ih { map := s.map, heap := heap, qp := qp, size := s.size, ticks := s.ticks + 1 } (parent (parent q))
        · rfl
    · rfl

theorem cr_dq_bubbleUpMaxLoop_size (m : Nat) (v : P) (fuel : Nat) : ∀ (s : Store P) (q : Nat),
    PQ.DQ.bubbleUpMaxLoop fuel { s with size := m } q v =
      (PQ.DQ.bubbleUpMaxLoop fuel s q v).map (fun r => ({ r.1 with size := m }, r.2)) := by
  induction fuel with
  | zero => intro s q; rfl
  | succ fuel ih =>
    intro s q
    simp only [PQ.DQ.bubbleUpMaxLoop]
    split
    · have e1 : ({ s with size := m } : Store P).prioAt (parent (parent q)) = s.prioAt (parent (parent q)) := rfl
      rw [e1]
      cases s.prioAt (parent (parent q)) with
      | error f => rfl
      | ok gpp =>
        simp only [cr_ok_bind]
        split
        · simp only [tick_heap, tick_qp, tick_map, tick_size, tick_ticks]
          cases getU s.heap (parent (parent q)) 323 with
          | error f => rfl
          | ok pi =>
            simp only [cr_ok_bind]
            cases setU s.heap q pi 324 with
            | error f => rfl
            | ok heap =>
              simp only [cr_ok_bind]
              cases setU s.qp pi q 325 with
              | error f => rfl
              | ok qp =>
                simp only [cr_ok_bind]
                exact ih { map := s.map, heap := heap, qp := qp, size := s.size, ticks := s.ticks + 1 } (parent (parent q))
        · rfl
    · rfl

theorem cr_dq_bubbleUpMin_size (m : Nat) (s : Store P) (q idx : Nat) :
    PQ.DQ.bubbleUpMin { s with size := m } q idx =
      (PQ.DQ.bubbleUpMin s q idx).map (fun r => ({ r.1 with size := m }, r.2)) := by
  unfold PQ.DQ.bubbleUpMin
  dsimp only
  cases unwrapO (s.map.getIndex idx) 318 with
  | error f => rfl
  | ok e => exact cr_dq_bubbleUpMinLoop_size m e.2 (q + 1) s q

theorem cr_dq_bubbleUpMax_size (m : Nat) (s : Store P) (q idx : Nat) :
    PQ.DQ.bubbleUpMax { s with size := m } q idx =
      (PQ.DQ.bubbleUpMax s q idx).map (fun r => ({ r.1 with size := m }, r.2)) := by
  unfold PQ.DQ.bubbleUpMax
  dsimp only
  cases unwrapO (s.map.getIndex idx) 319 with
  | error f => rfl
  | ok e => exact cr_dq_bubbleUpMaxLoop_size m e.2 (q + 1) s q

theorem cr_dq_bubbleUp_size (m : Nat) (s : Store P) (i idx : Nat) :
    PQ.DQ.bubbleUp { s with size := m } i idx =
      (PQ.DQ.bubbleUp s i idx).map (fun r => ({ r.1 with size := m }, r.2)) := by
  have htail : ∀ r : Store P × Nat,
      (fun (x : Store P × Nat) => (do
        let heap ← setU x.1.heap x.2 idx 316
        let qp ← setU x.1.qp idx x.2 317
        pure ({ x.1 with heap := heap, qp := qp }, x.2) : R (Store P × Nat)))
        ((fun (r : Store P × Nat) => (({ r.1 with size := m } : Store P), r.2)) r) =
      Except.map (fun (r : Store P × Nat) => (({ r.1 with size := m } : Store P), r.2))
        ((fun (x : Store P × Nat) => (do
          let heap ← setU x.1.heap x.2 idx 316
          let qp ← setU x.1.qp idx x.2 317
          pure ({ x.1 with heap := heap, qp := qp }, x.2) : R (Store P × Nat))) r) := by
    rintro ⟨s1, pos⟩
    dsimp only
    cases setU s1.heap pos idx 316 with
    | error f => rfl
    | ok heap =>
      simp only [cr_ok_bind]
      cases setU s1.qp idx pos 317 with
      | error f => rfl
      | ok qp => rfl
  unfold PQ.DQ.bubbleUp
  dsimp only
  cases unwrapO (s.map.getIndex idx) 310 with
  | error f => rfl
  | ok e =>
    simp only [cr_ok_bind]
    by_cases h0 : i > 0
    · simp only [h0, if_true]
      have e1 : ({ s with size := m } : Store P).prioAt (parent i) = s.prioAt (parent i) := rfl
      rw [e1]
      cases s.prioAt (parent i) with
      | error f => rfl
      | ok pp =>
        simp only [cr_ok_bind]
        cases getU s.heap (parent i) 311 with
        | error f => rfl
        | ok pi =>
          simp only [cr_ok_bind, tick_heap, tick_qp, tick_map, tick_size, tick_ticks]
          cases decide (level i % 2 = 0) <;> cases decide (pp < e.2) <;> dsimp only
          · cases setU s.heap i pi 314 with
            | error f => rfl
            | ok heap =>
              simp only [cr_ok_bind]
              cases setU s.qp pi i 315 with
              | error f => rfl
              | ok qp =>
                simp only [cr_ok_bind]
                exact cr_map_bind (cr_dq_bubbleUpMin_size m
                  { map := s.map, heap := heap, qp := qp, size := s.size, ticks := s.ticks + 1 } (parent i) idx) htail
          · exact cr_map_bind (cr_dq_bubbleUpMax_size m s.tick i idx) htail
          · exact cr_map_bind (cr_dq_bubbleUpMin_size m s.tick i idx) htail
          · cases setU s.heap i pi 312 with
            | error f => rfl
            | ok heap =>
              simp only [cr_ok_bind]
              cases setU s.qp pi i 313 with
              | error f => rfl
              | ok qp =>
                simp only [cr_ok_bind]
                exact cr_map_bind (cr_dq_bubbleUpMax_size m
                  { map := s.map, heap := heap, qp := qp, size := s.size, ticks := s.ticks + 1 } (parent i) idx) htail
    · simp only [h0, if_false]
      exact htail (s, i)

end Rules

/-- closes `CrOut x y Q` when `x` is `y` with every plain step lifted (no comparison left) -/
macro "cr_tail" : tactic =>
  `(tactic| ((try dsimp only); repeat (first | exact cr_pure _ _ | exact cr_lift _ _ | exact cr_ok _ _ | (refine cr_bind_lift fun _ _ => ?_; try dsimp only))))

/-! # Target (A): every crash state is well-formed -/
section Safe
variable {P : Type} [LT P] [DecidableLT P] [LE P] [Std.IsLinearPreorder P] [Std.LawfulOrderLT P]

/-! ## `priority_queue/mod.rs`: the sifting procedures -/

/-- `pickLargestF` writes nothing: a crash leaves the store with only the ghost counter advanced (no hypothesis) -/
theorem cr_pq_pickLargestF (fuse : Nat) (s : Store P) (i : Nat) :
    CrOut (MaxQ.pickLargestF fuse s i) (PQ.MaxQ.pickLargest s i) (fun s' => ∃ k, s' = s.tick k) := by
  unfold MaxQ.pickLargestF PQ.MaxQ.pickLargest
  refine cr_bind_lift fun ip hip => ?_
  by_cases hl : left i < s.size
  · simp only [hl, if_true]
    refine cr_bind_lift fun childp hc => ?_
    refine cr_cmp ⟨0, rfl⟩ ?_
    dsimp only
    simp only [decide_eq_true_eq]
    by_cases hr : right i < s.tick.size
    · simp only [hr, if_true]
      refine cr_bind_lift fun rp hrp => ?_
      refine cr_cmp ⟨1, rfl⟩ ?_
      dsimp only
      simp only [decide_eq_true_eq]
      exact cr_pure _ _
    · simp only [hr, if_false]
      exact cr_pure _ _
  · simp only [hl, if_false]
    exact cr_pure _ _

/-- the sift-down loop: swap-based, a crash leaves every swap done so far complete -/
theorem cr_pq_heapifyLoopF (fuse fuel : Nat) : ∀ (s : Store P) (i : Nat), s.WF → i < s.size → s.size - i ≤ fuel →
    CrOut (MaxQ.heapifyLoopF fuse fuel s i) (PQ.MaxQ.heapifyLoop fuel s i)
      (fun s' => s'.WF ∧ s'.map = s.map ∧ s'.size = s.size) := by
  induction fuel with
  | zero => intro s i _ hi hf; omega
  | succ fuel ih =>
    intro s i h hi hf
    obtain ⟨k, L, hpick, _, hL, hLc⟩ := PQ.MaxQ.pickLargest_safe h hi
    simp only [MaxQ.heapifyLoopF, PQ.MaxQ.heapifyLoop]
    refine ((cr_pq_pickLargestF fuse s i).mono ?_).bind ?_
    · rintro s' ⟨k', rfl⟩; exact ⟨tick_TWF.mpr h, rfl, rfl⟩
    · rintro ⟨s0, L0⟩ h0
      rw [hpick] at h0; cases h0
      dsimp only
      by_cases hLi : L = i
      · simp only [hLi, if_true]; exact cr_pure _ _
      · simp only [hLi, if_false]
        have hLi' : i < L := by rcases hLc with h1 | h1 | h1 <;> (try simp only [left, right] at h1) <;> omega
        obtain ⟨s1, hswap, h1wf, h1map, h1size, _, _⟩ := swap_spec h hi hL
        have h1wf' : s1.WF := WF.of_TWF_size h1wf h1size
        have hswap' : (s.tick k).swap i L = .ok (s1.tick k) := by rw [swap_tick, hswap]
        refine cr_bind_lift fun s2 hs2 => ?_
        rw [hswap'] at hs2; cases hs2
        refine (ih (s1.tick k) L (tick_TWF.mpr h1wf') (by simpa [h1size] using hL) (by simp [h1size]; omega)).mono ?_
        rintro s' ⟨a, b, c⟩
        exact ⟨a, by rw [b]; simpa using h1map, by rw [c]; simpa using h1size⟩

/-- **`heapifyF`** -/
theorem cr_pq_heapifyF (fuse : Nat) {s : Store P} {i : Nat} (h : s.WF) (hi : i < s.size) :
    CrOut (MaxQ.heapifyF fuse s i) (PQ.MaxQ.heapify s i) (fun s' => s'.WF ∧ s'.map = s.map ∧ s'.size = s.size) := by
  unfold MaxQ.heapifyF PQ.MaxQ.heapify
  by_cases h1 : s.size ≤ 1
  · simp only [h1, if_true]; exact cr_pure _ _
  · simp only [h1, if_false]
    exact cr_pq_heapifyLoopF fuse s.size s i h hi (by omega)

/-- with at most one element `heapifyF` returns at once, whatever the index -/
theorem cr_pq_heapifyF_small (fuse : Nat) {s : Store P} (i : Nat) (h1 : s.size ≤ 1) : MaxQ.heapifyF fuse s i = .ok s := by
  unfold MaxQ.heapifyF; simp [h1]; rfl

/-- the sift-up loop under the `Hole` guard: a crash fills the hole where it is, which restores well-formed tables -/
theorem cr_pq_bubbleUpLoopF (fuse : Nat) (v : P) (n idx : Nat) (fuel : Nat) : ∀ (s : Store P) (hole : Nat),
    s.HoleTWF n hole idx → hole + 1 ≤ fuel →
    CrOut (MaxQ.bubbleUpLoopF fuse idx fuel s hole v) (PQ.MaxQ.bubbleUpLoop fuel s hole v)
      (fun s' => s'.TWF n ∧ s'.map = s.map ∧ s'.size = s.size) := by
  induction fuel with
  | zero => intro s hole _ hf; omega
  | succ fuel ih =>
    intro s hole h hf
    simp only [MaxQ.bubbleUpLoopF, PQ.MaxQ.bubbleUpLoop]
    by_cases h0 : hole > 0
    · simp only [h0, if_true]
      have hppn : parent hole < n := by have := h.hole_lt; simp only [parent]; omega
      have hppne : parent hole ≠ hole := by simp only [parent]; omega
      obtain ⟨pi, x, hpi, hx, hxp⟩ := h.prioAt_ok hppn hppne
      refine cr_bind_lift fun pp hpp => ?_
      obtain ⟨sf, hfill, hf1, hf2, hf3, _⟩ := cr_fillHole h 205 206
      refine cr_cmpHole hfill ⟨hf1, hf2, hf3⟩ ?_
      dsimp only
      simp only [decide_eq_true_eq]
      by_cases hlt : pp < v
      · simp only [hlt, if_true]
        refine cr_bind_lift fun parentIndex hpI => ?_
        refine cr_bind_lift fun heap hheap => ?_
        refine cr_bind_lift fun qp hqp => ?_
        have e1 : parentIndex = pi := by
          have := getU_eq_ok_iff.1 hpI
          rw [tick_heap, hpi] at this; exact (Option.some.inj this).symm
        subst e1
        obtain ⟨_, rfl⟩ := setU_eq_ok_iff.1 hheap
        obtain ⟨_, rfl⟩ := setU_eq_ok_iff.1 hqp
        have hstep := (h.tick (k := 1)).step hppn hppne (by simpa using hpi)
        have hpl : parent hole < hole := by simp only [parent]; omega
        exact (ih _ (parent hole) hstep (by omega)).mono (fun s' hs' => hs')
      · simp only [hlt, if_false]; exact cr_pure _ _
    · simp only [h0, if_false]; exact cr_pure _ _

/-- **`bubbleUpF(i, idx)`** on well-formed tables of length `n` with `heap[i] = idx` -/
theorem cr_pq_bubbleUpF (fuse : Nat) {s : Store P} {n i idx : Nat} (h : s.TWF n) (hi : s.heap[i]? = some idx) :
    CrOut (MaxQ.bubbleUpF fuse s i idx) (PQ.MaxQ.bubbleUp s i idx)
      (fun s' => s'.TWF n ∧ s'.map = s.map ∧ s'.size = s.size) := by
  unfold MaxQ.bubbleUpF PQ.MaxQ.bubbleUp
  refine cr_bind_lift fun e he => ?_
  refine (cr_pq_bubbleUpLoopF fuse e.2 n idx (i + 1) s i (h.toHole hi) (Nat.le_refl _)).bind ?_
  rintro ⟨s1, pos⟩ h1
  cr_tail

/-- **`upHeapifyF(i)`**: crash in the sift-up ⇒ hole filled, crash in the sift-down ⇒ the store at that moment -/
theorem cr_pq_upHeapifyF (fuse : Nat) {s : Store P} {i : Nat} (h : s.WF) (hi : i < s.size) :
    CrOut (MaxQ.upHeapifyF fuse s i) (PQ.MaxQ.upHeapify s i) (fun s' => s'.WF ∧ s'.map = s.map ∧ s'.size = s.size) := by
  unfold MaxQ.upHeapifyF PQ.MaxQ.upHeapify
  refine cr_bind_lift fun tmp ht => ?_
  have hidx := getU_eq_ok_iff.1 ht
  obtain ⟨s1, pos, hb, h1, hm1, hsz1, hle⟩ := PQ.MaxQ.bubbleUp_tables h hidx
  refine ((cr_pq_bubbleUpF fuse h hidx).mono ?_).bind ?_
  · rintro s' ⟨a, b, c⟩; exact ⟨WF.of_TWF_size a c, b, c⟩
  · rintro ⟨s2, p2⟩ h2
    rw [hb] at h2; cases h2
    dsimp only
    have h1wf : s1.WF := WF.of_TWF_size h1 hsz1
    refine (cr_pq_heapifyF fuse h1wf (i := pos) (by rw [hsz1]; omega)).mono ?_
    rintro s' ⟨a, b, c⟩; exact ⟨a, b.trans hm1, c.trans hsz1⟩

theorem cr_pq_heapBuildLoopF (fuse : Nat) : ∀ (k : Nat) (s : Store P), s.WF → k < s.size →
    CrOut (MaxQ.heapBuildLoopF fuse s k) (PQ.MaxQ.heapBuildLoop s k)
      (fun s' => s'.WF ∧ s'.map = s.map ∧ s'.size = s.size) := by
  intro k
  induction k with
  | zero =>
    intro s h hk
    simp only [MaxQ.heapBuildLoopF, PQ.MaxQ.heapBuildLoop]
    exact cr_pq_heapifyF fuse h hk
  | succ k ih =>
    intro s h hk
    simp only [MaxQ.heapBuildLoopF, PQ.MaxQ.heapBuildLoop]
    obtain ⟨s1, hh, hwf, hm, hsz⟩ := PQ.MaxQ.heapify_safe h hk
    refine (cr_pq_heapifyF fuse h hk).bind ?_
    intro s2 h2
    rw [hh] at h2; cases h2
    refine (ih s1 hwf (by rw [hsz]; omega)).mono ?_
    rintro s' ⟨a, b, c⟩; exact ⟨a, b.trans hm, c.trans hsz⟩

/-- **`heapBuildF`**: a crash leaves the partially rebuilt store, which is well-formed and has the same map and size -/
theorem cr_pq_heapBuildF (fuse : Nat) {s : Store P} (h : s.WF) :
    CrOut (MaxQ.heapBuildF fuse s) (PQ.MaxQ.heapBuild s) (fun s' => s'.WF ∧ s'.map = s.map ∧ s'.size = s.size) := by
  unfold MaxQ.heapBuildF PQ.MaxQ.heapBuild
  by_cases h0 : s.size = 0
  · simp only [h0, if_true]; exact cr_pure _ _
  · simp only [h0, if_false]
    refine cr_bind_lift fun top ht => ?_
    have : top = parent s.size := by simp [PQ.MaxQ.parentC, h0] at ht; exact ht.symm
    subst this
    exact cr_pq_heapBuildLoopF fuse _ s h (parent_lt (by omega))

/-! ## `priority_queue/mod.rs`: the public operations -/

theorem cr_asNew {α : Type} {x : CR P α} {y : R α} {Q : Store P → Prop} (h : CrOut x y Q) :
    asNew x = liftR y ∨ asNew x = .error .crashedNew := by
  rcases h with h | ⟨s', h, _⟩
  · left; rw [h]; cases y <;> rfl
  · right; rw [h]; rfl

theorem cr_pq_popF_zero (fuse : Nat) {s : Store P} (h0 : s.size = 0) : MaxQ.popF fuse s = .ok (s, none) := by
  unfold MaxQ.popF; rw [h0]; rfl

theorem cr_pq_popF_one (fuse : Nat) {s : Store P} (h1 : s.size = 1) : MaxQ.popF fuse s = liftR (s.swapRemove 0) := by
  unfold MaxQ.popF; rw [h1]; rfl

theorem cr_pq_popF_many (fuse : Nat) {s : Store P} (h2 : 2 ≤ s.size) :
    MaxQ.popF fuse s = (do let (s, r) ← liftR (s.swapRemove 0); let s ← MaxQ.heapifyF fuse s 0; pure (s, r)) := by
  obtain ⟨n, hn⟩ : ∃ n, s.size = n + 2 := ⟨s.size - 2, by omega⟩
  unfold MaxQ.popF; rw [hn]; rfl

/-- the common tail of `pop`/`pop_if`: the removal is complete, then the fused sift-down at the root -/
theorem cr_pq_thenHeapify (fuse : Nat) {y : R (Store P × Option (Item × P))} {Q : Store P → Prop}
    (hy : ∀ s1 r, y = .ok (s1, r) → s1.WF ∧ 0 < s1.size ∧ ∀ s', s'.WF → s'.size = s1.size → Q s') :
    CrOut (do let (s, r) ← liftR y; let s ← MaxQ.heapifyF fuse s 0; pure (s, r))
      (do let (s, r) ← y; let s ← PQ.MaxQ.heapify s 0; pure (s, r)) Q := by
  refine cr_bind_lift ?_
  rintro ⟨s1, r⟩ h1
  obtain ⟨hwf, hpos, hQ⟩ := hy s1 r h1
  dsimp only
  refine ((cr_pq_heapifyF fuse hwf hpos).mono ?_).bind (fun _ _ => cr_pure _ _)
  rintro s' ⟨a, _, c⟩; exact hQ s' a c

/-- **`popF`**: crash ⇒ the root entry is gone (and lost), the store is well-formed with one element less -/
theorem cr_pq_popF (fuse : Nat) {s : Store P} (h : s.WF) :
    CrOut (MaxQ.popF fuse s) (PQ.MaxQ.pop s) (fun s' => s'.WF ∧ s'.size = s.size - 1) := by
  by_cases h0 : s.size = 0
  · rw [cr_pq_popF_zero fuse h0, PQ.MaxQ.pop_zero h0]; exact cr_ok _ _
  by_cases h1 : s.size = 1
  · rw [cr_pq_popF_one fuse h1, PQ.MaxQ.pop_one h1]; exact cr_lift _ _
  rw [cr_pq_popF_many fuse (by omega), PQ.MaxQ.pop_many (by omega)]
  obtain ⟨s1, e, hsr, _, h1wf, h1sz, _⟩ := swapRemove_spec h (pos := 0) (by omega)
  refine cr_pq_thenHeapify fuse ?_
  intro s1' r hy
  rw [hsr] at hy; cases hy
  exact ⟨h1wf, by omega, fun s' a b => ⟨a, by omega⟩⟩

theorem cr_pq_popIfF_zero (fuse : Nat) {s : Store P} (f : Item → P → Bool × Item × P) (h0 : s.size = 0) :
    MaxQ.popIfF fuse s f = .ok (s, none) := by
  unfold MaxQ.popIfF; rw [h0]; rfl

theorem cr_pq_popIfF_one (fuse : Nat) {s : Store P} (f : Item → P → Bool × Item × P) (h1 : s.size = 1) :
    MaxQ.popIfF fuse s f = liftR (s.swapRemoveIf 0 f) := by
  unfold MaxQ.popIfF; rw [h1]; rfl

theorem cr_pq_popIfF_many (fuse : Nat) {s : Store P} (f : Item → P → Bool × Item × P) (h2 : 2 ≤ s.size) :
    MaxQ.popIfF fuse s f =
      (do let (s, r) ← liftR (s.swapRemoveIf 0 f); let s ← MaxQ.heapifyF fuse s 0; pure (s, r)) := by
  obtain ⟨n, hn⟩ : ∃ n, s.size = n + 2 := ⟨s.size - 2, by omega⟩
  unfold MaxQ.popIfF; rw [hn]; rfl

/-- **`popIfF`** with a key-preserving predicate -/
theorem cr_pq_popIfF (fuse : Nat) {s : Store P} (h : s.WF) (f : Item → P → Bool × Item × P)
    (hf : ∀ it p, (f it p).2.1.key = it.key) :
    CrOut (MaxQ.popIfF fuse s f) (PQ.MaxQ.popIf s f) (fun s' => s'.WF ∧ (s'.size = s.size ∨ s'.size = s.size - 1)) := by
  by_cases h0 : s.size = 0
  · rw [cr_pq_popIfF_zero fuse f h0, PQ.MaxQ.popIf_zero f h0]; exact cr_ok _ _
  by_cases h1 : s.size = 1
  · rw [cr_pq_popIfF_one fuse f h1, PQ.MaxQ.popIf_one f h1]; exact cr_lift _ _
  rw [cr_pq_popIfF_many fuse f (by omega), PQ.MaxQ.popIf_many f (by omega)]
  obtain ⟨e, _, htrue, hfalse⟩ := swapRemoveIf_spec f h (pos := 0) (by omega) hf
  refine cr_pq_thenHeapify fuse ?_
  intro s1' r hy
  cases hr : (f e.1 e.2).1 with
  | true =>
    obtain ⟨s1, hsr, h1wf, h1sz, _⟩ := htrue hr
    rw [hsr] at hy; cases hy
    exact ⟨h1wf, by omega, fun s' a b => ⟨a, Or.inr (by omega)⟩⟩
  | false =>
    obtain ⟨s1, hsr, h1wf, h1sz, _⟩ := hfalse hr
    rw [hsr] at hy; cases hy
    exact ⟨h1wf, by omega, fun s' a b => ⟨a, Or.inl (by omega)⟩⟩

/-- evaluation of `pushF` for a stored key -/
theorem cr_pq_pushF_present (fuse : Nat) {s : Store P} {it : Item} {p : P} {i pos : Nat} {e : Item × P}
    (hf : IMap.find? s.map it.key = some i) (he : s.map[i]? = some e) (hq : s.qp[i]? = some pos) :
    MaxQ.pushF fuse s it p = (do let s' ← MaxQ.upHeapifyF fuse (s.setEntry i (e.1, p)) pos; pure (s', some e.2)) := by
  unfold MaxQ.pushF
  rw [IMap.insertFull_of_find?_some hf he p]
  simp only [getU_ok hq, liftR_ok, cr_ok_bind]
  rfl

/-- evaluation of `pushF` for a new key: the sift-up runs on the store whose `size` is already bumped -/
theorem cr_pq_pushF_absent (fuse : Nat) {s : Store P} {it : Item} {p : P} (hf : IMap.find? s.map it.key = none) :
    MaxQ.pushF fuse s it p =
      (do let (s', _) ← MaxQ.bubbleUpF fuse { PQ.MaxQ.pushPre s it p with size := s.size + 1 } s.size s.size
          pure (s', none)) := by
  unfold MaxQ.pushF
  rw [IMap.insertFull_of_find?_none hf p]
  rfl

/-- **`pushF`**.  Stored item: crash ⇒ well-formed, same size (the priority is already replaced).  New item: crash ⇒
well-formed **with `size = s.size + 1`**: the new element is in (the guard has put it where the hole was). -/
theorem cr_pq_pushF (fuse : Nat) {s : Store P} (h : s.WF) (it : Item) (p : P) :
    CrOut (MaxQ.pushF fuse s it p) (PQ.MaxQ.push s it p)
      (fun s' => s'.WF ∧ s'.size = if (s.abs it.key).isSome then s.size else s.size + 1) := by
  rcases IMap.insertFull_cases s.map it p with ⟨i, e, hf, he, hk, hins⟩ | ⟨hf, hins⟩
  · have hil : i < s.size := by have := lt_size_of_getElem? he; rw [h.map_size] at this; exact this
    obtain ⟨pos, hq, hpl⟩ := h.qp_some hil
    have h1 : (s.setEntry i (e.1, p)).WF := setEntry_TWF h he rfl
    rw [cr_pq_pushF_present fuse hf he hq, PQ.MaxQ.push_eval_present hf he hq]
    refine ((cr_pq_upHeapifyF fuse h1 (i := pos) hpl).mono ?_).bind (fun _ _ => cr_pure _ _)
    rintro s' ⟨a, b, c⟩
    refine ⟨a, ?_⟩
    rw [PQ.MaxQ.abs_isSome_iff_find?, hf, c]; rfl
  · rw [cr_pq_pushF_absent fuse hf, PQ.MaxQ.push_eval_absent hf]
    have hT : (PQ.MaxQ.pushPre s it p).TWF (s.size + 1) := PQ.MaxQ.pushPre_TWF h hf
    have hlast := PQ.MaxQ.pushPre_heap_last h it p
    obtain ⟨s3, pos, hb, h3, hm3, hsz3, _⟩ := PQ.MaxQ.bubbleUp_tables hT hlast
    have hsz3' : s3.size = s.size := hsz3
    have hT' : ({ PQ.MaxQ.pushPre s it p with size := s.size + 1 } : Store P).TWF (s.size + 1) :=
      TWF.congr hT rfl rfl rfl
    have hcr := cr_pq_bubbleUpF fuse hT' (i := s.size) (idx := s.size) hlast
    rw [cr_pq_bubbleUp_size, hb] at hcr
    rw [hb]
    refine (hcr.mono ?_).bind_ok rfl ?_
    · rintro s' ⟨a, b, c⟩
      have c' : s'.size = s.size + 1 := c
      refine ⟨WF.of_TWF_size a c', ?_⟩
      rw [PQ.MaxQ.abs_isSome_iff_find?, hf, c']; rfl
    · dsimp only
      rw [cr_ok_bind]
      dsimp only
      rw [hsz3']
      exact cr_ok _ _

/-- **`pushIncreaseF`**: a crash in the pre-check returns the store untouched; afterwards as `pushF` -/
theorem cr_pq_pushIncreaseF (fuse : Nat) {s : Store P} (h : s.WF) (it : Item) (p : P) :
    CrOut (MaxQ.pushIncreaseF fuse s it p) (PQ.MaxQ.pushIncrease s it p)
      (fun s' => s'.WF ∧ (s'.size = s.size ∨ s'.size = s.size + 1)) := by
  have hmono : ∀ (t : Store P), t.size = s.size → ∀ s' : Store P,
      (s'.WF ∧ s'.size = if (t.abs it.key).isSome then t.size else t.size + 1) →
      s'.WF ∧ (s'.size = s.size ∨ s'.size = s.size + 1) := by
    rintro t ht s' ⟨a, b⟩
    refine ⟨a, ?_⟩
    split at b <;> omega
  unfold MaxQ.pushIncreaseF PQ.MaxQ.pushIncrease
  cases s.getPriority it.key with
  | none => exact (cr_pq_pushF fuse h it p).mono (hmono s rfl)
  | some q =>
    dsimp only
    refine cr_cmp ⟨h, Or.inl rfl⟩ ?_
    dsimp only
    simp only [decide_eq_true_eq]
    by_cases hlt : q < p
    · simp only [hlt, if_true]
      exact (cr_pq_pushF fuse (s := s.tick) (tick_TWF.mpr h) it p).mono (hmono s.tick rfl)
    · simp only [hlt, if_false]; exact cr_pure _ _

/-- **`pushDecreaseF`** -/
theorem cr_pq_pushDecreaseF (fuse : Nat) {s : Store P} (h : s.WF) (it : Item) (p : P) :
    CrOut (MaxQ.pushDecreaseF fuse s it p) (PQ.MaxQ.pushDecrease s it p)
      (fun s' => s'.WF ∧ (s'.size = s.size ∨ s'.size = s.size + 1)) := by
  have hmono : ∀ (t : Store P), t.size = s.size → ∀ s' : Store P,
      (s'.WF ∧ s'.size = if (t.abs it.key).isSome then t.size else t.size + 1) →
      s'.WF ∧ (s'.size = s.size ∨ s'.size = s.size + 1) := by
    rintro t ht s' ⟨a, b⟩
    refine ⟨a, ?_⟩
    split at b <;> omega
  unfold MaxQ.pushDecreaseF PQ.MaxQ.pushDecrease
  cases s.getPriority it.key with
  | none => exact (cr_pq_pushF fuse h it p).mono (hmono s rfl)
  | some q =>
    dsimp only
    refine cr_cmp ⟨h, Or.inl rfl⟩ ?_
    dsimp only
    simp only [decide_eq_true_eq]
    by_cases hlt : p < q
    · simp only [hlt, if_true]
      exact (cr_pq_pushF fuse (s := s.tick) (tick_TWF.mpr h) it p).mono (hmono s.tick rfl)
    · simp only [hlt, if_false]; exact cr_pure _ _

/-- **`changePriorityF`**: the new priority is stored before the fused `upHeapifyF` -/
theorem cr_pq_changePriorityF (fuse : Nat) {s : Store P} (h : s.WF) (k : Nat) (p : P) :
    CrOut (MaxQ.changePriorityF fuse s k p) (PQ.MaxQ.changePriority s k p) (fun s' => s'.WF ∧ s'.size = s.size) := by
  unfold MaxQ.changePriorityF PQ.MaxQ.changePriority
  refine cr_bind_lift ?_
  rintro ⟨s1, r⟩ h1
  cases hl : IMap.lookup s.map k with
  | none =>
    rw [changePriority_spec_none hl] at h1; cases h1
    exact cr_pure _ _
  | some e =>
    obtain ⟨s1', pos, hcp, hpl, _, hwf1, hsz1, _⟩ := changePriority_spec_some h hl p
    rw [hcp] at h1; cases h1
    dsimp only
    refine ((cr_pq_upHeapifyF fuse hwf1 (i := pos) (by rw [hsz1]; exact hpl)).mono ?_).bind (fun _ _ => cr_pure _ _)
    rintro s' ⟨a, _, c⟩; exact ⟨a, c.trans hsz1⟩

/-- **`changePriorityByF`** -/
theorem cr_pq_changePriorityByF (fuse : Nat) {s : Store P} (h : s.WF) (k : Nat) (g : P → P) :
    CrOut (MaxQ.changePriorityByF fuse s k g) (PQ.MaxQ.changePriorityBy s k g)
      (fun s' => s'.WF ∧ s'.size = s.size) := by
  unfold MaxQ.changePriorityByF PQ.MaxQ.changePriorityBy
  refine cr_bind_lift ?_
  rintro ⟨s1, r⟩ h1
  cases hl : IMap.lookup s.map k with
  | none =>
    rw [changePriorityBy_spec_none hl] at h1; cases h1
    exact cr_pure _ _
  | some e =>
    obtain ⟨s1', pos, hcp, hpl, _, hwf1, hsz1, _⟩ := changePriorityBy_spec_some h hl g
    rw [hcp] at h1; cases h1
    dsimp only
    refine ((cr_pq_upHeapifyF fuse hwf1 (i := pos) (by rw [hsz1]; exact hpl)).mono ?_).bind (fun _ _ => cr_pure _ _)
    rintro s' ⟨a, _, c⟩; exact ⟨a, c.trans hsz1⟩

/-- **`removeF`**: the store-level removal is complete before the fused `upHeapifyF` -/
theorem cr_pq_removeF (fuse : Nat) {s : Store P} (h : s.WF) (k : Nat) :
    CrOut (MaxQ.removeF fuse s k) (PQ.MaxQ.remove s k) (fun s' => s'.WF ∧ s'.size = s.size - 1) := by
  unfold MaxQ.removeF PQ.MaxQ.remove
  refine cr_bind_lift ?_
  rintro ⟨s1, r⟩ h1
  cases hl : IMap.lookup s.map k with
  | none =>
    rw [remove_spec_none hl] at h1; cases h1
    exact cr_pure _ _
  | some e =>
    obtain ⟨s1', pos, hr, hpl, _, hwf1, hsz1, _⟩ := remove_spec_some h hl
    rw [hr] at h1; cases h1
    dsimp only
    by_cases hp : pos < s1.size
    · simp only [hp, if_true]
      refine ((cr_pq_upHeapifyF fuse hwf1 (i := pos) hp).mono ?_).bind (fun _ _ => cr_pure _ _)
      rintro s' ⟨a, _, c⟩; exact ⟨a, c.trans hsz1⟩
    · simp only [hp, if_false]; exact cr_pure _ _

/-- **`retainMutF`** with a key-preserving closure: store-level retain (complete), then the fused rebuild -/
theorem cr_pq_retainMutF (fuse : Nat) {s : Store P} (h : s.WF) (f : Item → P → Bool × Item × P)
    (hf : ∀ it p, (f it p).2.1.key = it.key) :
    CrOut (MaxQ.retainMutF fuse s f) (PQ.MaxQ.retainMut s f)
      (fun s' => s'.WF ∧ s'.map = s.map.retain f) := by
  unfold MaxQ.retainMutF PQ.MaxQ.retainMut
  refine (cr_pq_heapBuildF fuse (wf_retainMut h hf)).mono ?_
  rintro s' ⟨a, b, _⟩; exact ⟨a, by rw [b, retainMut_map]⟩

/-- **`appendF`**: store-level append (complete), then the fused rebuild of the receiver -/
theorem cr_pq_appendF (fuse : Nat) {s o : Store P} (hs : s.WF) (ho : o.WF) :
    CrOut (MaxQ.appendF fuse s o) (PQ.MaxQ.append s o) (fun s' => s'.WF ∧ s'.map = (Store.append s o).1.map) := by
  unfold MaxQ.appendF PQ.MaxQ.append
  dsimp only
  refine ((cr_pq_heapBuildF fuse (wf_append_fst hs ho)).mono ?_).bind (fun _ _ => cr_pure _ _)
  rintro s' ⟨a, b, _⟩; exact ⟨a, b⟩

/-- **`ofStoreF`** (`From<DoublePriorityQueue>`) -/
theorem cr_pq_ofStoreF (fuse : Nat) {s : Store P} (h : s.WF) :
    CrOut (MaxQ.ofStoreF fuse s) (PQ.MaxQ.ofStore s) (fun s' => s'.WF ∧ s'.map = s.map ∧ s'.size = s.size) :=
  cr_pq_heapBuildF fuse h

/-- the constructors end in `.ok` (the plain result) or in `crashedNew`; never in a fault, never in a surviving store -/
theorem cr_pq_fromVecF (fuse : Nat) (v : Array (Item × P)) :
    MaxQ.fromVecF fuse v = liftR (PQ.MaxQ.fromVec v) ∨ MaxQ.fromVecF fuse v = .error .crashedNew :=
  cr_asNew (cr_pq_heapBuildF fuse (wf_fromVec v))

/-- (an announced lower bound `≥ capLimit` is the capacity panic of the plain `fromIter`, before any comparison) -/
theorem cr_pq_fromIterF (fuse : Nat) (lo : Nat) (xs : Array (Item × P)) :
    MaxQ.fromIterF fuse lo xs = liftR (PQ.MaxQ.fromIter lo xs) ∨ MaxQ.fromIterF fuse lo xs = .error .crashedNew := by
  unfold MaxQ.fromIterF
  rcases reserveC_cases lo with ⟨hlo, hr⟩ | ⟨hlo, hr⟩
  · rw [PQ.MaxQ.fromIter_of_lt xs hlo, hr]
    exact cr_asNew (cr_pq_heapBuildF fuse (wf_fromIter xs))
  · rw [PQ.MaxQ.fromIter_of_ge xs hlo, hr]
    exact .inl rfl

theorem cr_pq_deserializeF (fuse : Nat) (hint : Option Nat) (xs : Array (Item × P)) :
    MaxQ.deserializeF fuse hint xs = liftR (PQ.MaxQ.deserialize hint xs) ∨
      MaxQ.deserializeF fuse hint xs = .error .crashedNew := by
  have h0 : MaxQ.deserializeF fuse hint xs = asNew (MaxQ.heapBuildF fuse (Store.visitSeq xs)) := by
    unfold MaxQ.deserializeF
    cases hint with
    | none => rfl
    | some h => simp only [reserveC_min_4096]; rfl
  rw [h0, PQ.MaxQ.deserialize_eq]
  exact cr_asNew (cr_pq_heapBuildF fuse (wf_visitSeq xs))

/-- **`pushAllF`**: the `j`-th push crashes ⇒ the store after `j - 1` pushes with the crashed `j`-th push as per `pushF` -/
theorem cr_pq_pushAllF (fuse : Nat) : ∀ (l : List (Item × P)) {s : Store P}, s.WF →
    CrOut (MaxQ.pushAllF fuse l s) (PQ.MaxQ.pushAll l s) (fun s' => s'.WF) := by
  intro l
  induction l with
  | nil => intro s h; exact cr_pure _ _
  | cons e l ih =>
    intro s h
    simp only [MaxQ.pushAllF, PQ.MaxQ.pushAll]
    obtain ⟨s1, h1, h1wf, _⟩ := PQ.MaxQ.push_safe h e.1 e.2
    refine ((cr_pq_pushF fuse h e.1 e.2).mono (fun _ hs => hs.1)).bind ?_
    rintro ⟨s2, r⟩ h2
    rw [h1] at h2; cases h2
    exact ih h1wf

/-- **`extendF`**, both strategies -/
theorem cr_pq_extendF (fuse : Nat) {s : Store P} (h : s.WF) (lo : Nat) (xs : Array (Item × P)) :
    CrOut (MaxQ.extendF fuse s lo xs) (PQ.MaxQ.extend s lo xs) (fun s' => s'.WF) := by
  unfold MaxQ.extendF PQ.MaxQ.extend
  refine cr_bind_lift (fun _ _ => ?_)
  dsimp only
  cases (if lo ≠ 0 then betterToRebuild s.size lo else false) with
  | true =>
    simp only [if_true]
    exact (cr_pq_heapBuildF fuse (wf_extend h xs)).mono (fun _ hs => hs.1)
  | false =>
    simp only [Bool.false_eq_true, if_false]
    exact cr_pq_pushAllF fuse xs.toList h

/-- **`iterMutDropF`**: the writes of the program have been applied, then the fused rebuild -/
theorem cr_pq_iterMutDropF (fuse : Nat) {s : Store P} (h : s.WF) (prog : List (ICall × IMWrite P)) :
    CrOut (MaxQ.iterMutDropF fuse s prog)
      (do let (outs, m) ← iterMutRun .pq s.map.size prog PIterMut.new (DIterMut.new s.map.size) s.map
          let s' ← PQ.MaxQ.heapBuild { s with map := m }
          pure (s', outs))
      (fun s' => s'.WF ∧ s'.size = s.size) := by
  unfold MaxQ.iterMutDropF
  obtain ⟨outs, m', hrun, hwf1, _⟩ := hist_iterMutRun_wf h .pq prog
  dsimp only
  refine cr_bind_lift ?_
  rintro ⟨o, m⟩ h1
  rw [hrun] at h1; cases h1
  dsimp only
  refine ((cr_pq_heapBuildF fuse hwf1).mono ?_).bind (fun _ _ => cr_pure _ _)
  rintro s' ⟨a, _, c⟩; exact ⟨a, c⟩

/-! ## `double_priority_queue/mod.rs`: the sifting procedures -/

/-- a position whose priority can be read is in range -/
theorem cr_lt_of_prioAt {s : Store P} {n p : Nat} {x : P} (h : s.TWF n) (hp : s.prioAt p = .ok x) : p < n := by
  have h1 := prioAt_eq_ok_iff.1 hp
  unfold Store.pr at h1
  cases hh : s.heap[p]? with
  | none => rw [hh] at h1; cases h1
  | some i => have := lt_size_of_getElem? hh; rw [h.heap_size] at this; exact this

/-- the fold of `min_by_key`, comparison by comparison: without a crash it is the plain fold and the counter has advanced by
the number of candidates folded; a crash leaves the store with only the counter advanced (no hypothesis) -/
theorem cr_dq_minFoldF (fuse : Nat) : ∀ (ys : List (Nat × P)) (s : Store P) (acc : Nat × P),
    CrOut (DQ.minFoldF fuse ys s acc)
      (.ok (s.tick ys.length, ys.foldl (fun acc y => if y.2 < acc.2 then y else acc) acc))
      (fun s' => ∃ k, s' = s.tick k) := by
  intro ys
  induction ys with
  | nil => intro s acc; exact cr_ok _ _
  | cons y ys ih =>
    intro s acc
    simp only [DQ.minFoldF]
    refine cr_cmp ⟨0, rfl⟩ ?_
    dsimp only
    simp only [decide_eq_true_eq, List.foldl_cons, List.length_cons]
    have e : s.tick (ys.length + 1) = (s.tick).tick ys.length := by rw [tick_tick, Nat.add_comm]
    rw [e]
    refine (ih s.tick _).mono ?_
    rintro s' ⟨k, rfl⟩; exact ⟨1 + k, tick_tick _ _ _⟩

theorem cr_dq_maxFoldF (fuse : Nat) : ∀ (ys : List (Nat × P)) (s : Store P) (acc : Nat × P),
    CrOut (DQ.maxFoldF fuse ys s acc)
      (.ok (s.tick ys.length, ys.foldl (fun acc y => if y.2 < acc.2 then acc else y) acc))
      (fun s' => ∃ k, s' = s.tick k) := by
  intro ys
  induction ys with
  | nil => intro s acc; exact cr_ok _ _
  | cons y ys ih =>
    intro s acc
    simp only [DQ.maxFoldF]
    refine cr_cmp ⟨0, rfl⟩ ?_
    dsimp only
    simp only [decide_eq_true_eq, List.foldl_cons, List.length_cons]
    have e : s.tick (ys.length + 1) = (s.tick).tick ys.length := by rw [tick_tick, Nat.add_comm]
    rw [e]
    refine (ih s.tick _).mono ?_
    rintro s' ⟨k, rfl⟩; exact ⟨1 + k, tick_tick _ _ _⟩

/-- **`minByKeyF`** = the plain `min_by_key` plus `length - 1` ticks, or a crash with only the counter advanced -/
theorem cr_dq_minByKeyF (fuse : Nat) (s : Store P) (cs : List (Nat × P)) :
    CrOut (DQ.minByKeyF fuse s cs) (.ok (s.tick (cs.length - 1), PQ.DQ.minByKey cs)) (fun s' => ∃ k, s' = s.tick k) := by
  cases cs with
  | nil => exact cr_ok _ _
  | cons x xs =>
    simp only [DQ.minByKeyF, PQ.DQ.minByKey, List.length_cons, Nat.add_sub_cancel]
    exact (cr_dq_minFoldF fuse xs s x).bind_ok rfl (cr_ok _ _)

theorem cr_dq_maxByKeyF (fuse : Nat) (s : Store P) (cs : List (Nat × P)) :
    CrOut (DQ.maxByKeyF fuse s cs) (.ok (s.tick (cs.length - 1), PQ.DQ.maxByKey cs)) (fun s' => ∃ k, s' = s.tick k) := by
  cases cs with
  | nil => exact cr_ok _ _
  | cons x xs =>
    simp only [DQ.maxByKeyF, PQ.DQ.maxByKey, List.length_cons, Nat.add_sub_cancel]
    exact (cr_dq_maxFoldF fuse xs s x).bind_ok rfl (cr_ok _ _)

/-- the trickle-down loop of the min levels: three comparison sites per iteration, all between complete statements -/
theorem cr_dq_heapifyMinLoopF (fuse fuel : Nat) : ∀ (s : Store P) (i : Nat), s.WF → s.size - i ≤ fuel → 0 < fuel →
    CrOut (DQ.heapifyMinLoopF fuse fuel s i) (PQ.DQ.heapifyMinLoop fuel s i)
      (fun s' => s'.WF ∧ s'.map = s.map ∧ s'.size = s.size) := by
  induction fuel with
  | zero => intro s i _ _ hf; omega
  | succ fuel ih =>
    intro s i h hf _
    simp only [DQ.heapifyMinLoopF, PQ.DQ.heapifyMinLoop]
    refine cr_bind_lift fun last hlast => ?_
    refine cr_bind_lift fun bound hbound => ?_
    by_cases hb : i ≤ bound
    · simp only [hb, if_true]
      refine cr_bind_lift fun cs hcs => ?_
      refine ((cr_dq_minByKeyF fuse s cs).mono ?_).bind_ok rfl ?_
      · rintro s' ⟨k, rfl⟩; exact ⟨tick_TWF.mpr h, rfl, rfl⟩
      dsimp only
      refine cr_bind_lift fun c hc => ?_
      refine cr_bind_lift fun pc hpc => ?_
      refine cr_bind_lift fun pm hpm => ?_
      have hw0 : (s.tick (cs.length - 1)).WF := tick_TWF.mpr h
      refine cr_cmp ⟨hw0, rfl, rfl⟩ ?_
      dsimp only
      simp only [decide_eq_true_eq]
      by_cases hlt : pc < pm
      · simp only [hlt, if_true]
        have hcn : c.1 < s.size := cr_lt_of_prioAt hw0 hpc
        have hin : i < s.size := cr_lt_of_prioAt hw0 hpm
        have hw1 : ((s.tick (cs.length - 1)).tick).WF := tick_TWF.mpr hw0
        obtain ⟨s1, hsw, h1wf, h1map, h1size, _, _⟩ := swap_spec hw1 (a := c.1) (b := i) hcn hin
        have h1wf' : s1.WF := WF.of_TWF_size h1wf h1size
        have h1map' : s1.map = s.map := h1map
        have h1size' : s1.size = s.size := h1size
        refine cr_bind_lift fun s1' hs1 => ?_
        rw [hsw] at hs1; cases hs1
        by_cases hgt : c.1 > right i
        · simp only [hgt, if_true]
          refine cr_bind_lift fun p hp => ?_
          refine cr_bind_lift fun pc' hpc' => ?_
          refine cr_bind_lift fun pp hpp => ?_
          refine cr_cmp ⟨h1wf', h1map', h1size'⟩ ?_
          dsimp only
          simp only [decide_eq_true_eq]
          have hpn : p < s1.size := cr_lt_of_prioAt h1wf' hpp
          have hfuel : s.size - c.1 ≤ fuel ∧ 0 < fuel := by simp only [right] at hgt; omega
          by_cases hlt2 : pp < pc'
          · simp only [hlt2, if_true]
            have hw2 : (s1.tick).WF := tick_TWF.mpr h1wf'
            obtain ⟨s2, hsw2, h2wf, h2map, h2size, _, _⟩ :=
              swap_spec hw2 (a := c.1) (b := p) (by show c.1 < s1.size; rw [h1size']; exact hcn) hpn
            have h2size' : s2.size = s.size := h2size.trans h1size'
            refine cr_bind_lift fun s2' hs2 => ?_
            rw [hsw2] at hs2; cases hs2
            refine (ih s2 c.1 (WF.of_TWF_size h2wf h2size) (by rw [h2size']; exact hfuel.1) hfuel.2).mono ?_
            rintro s' ⟨a, b, d⟩; exact ⟨a, b.trans (h2map.trans h1map'), d.trans h2size'⟩
          · simp only [hlt2, if_false]
            refine (cr_pure _ _).bind ?_
            intro s2 hs2; cases hs2
            refine (ih s1.tick c.1 (tick_TWF.mpr h1wf') (by rw [tick_size, h1size']; exact hfuel.1) hfuel.2).mono ?_
            rintro s' ⟨a, b, d⟩; exact ⟨a, b.trans h1map', d.trans h1size'⟩
        · simp only [hgt, if_false]; exact cr_pure _ _
      · simp only [hlt, if_false]; exact cr_pure _ _
    · simp only [hb, if_false]; exact cr_pure _ _

/-- the trickle-down loop of the max levels: three comparison sites per iteration, all between complete statements -/
theorem cr_dq_heapifyMaxLoopF (fuse fuel : Nat) : ∀ (s : Store P) (i : Nat), s.WF → s.size - i ≤ fuel → 0 < fuel →
    CrOut (DQ.heapifyMaxLoopF fuse fuel s i) (PQ.DQ.heapifyMaxLoop fuel s i)
      (fun s' => s'.WF ∧ s'.map = s.map ∧ s'.size = s.size) := by
  induction fuel with
  | zero => intro s i _ _ hf; omega
  | succ fuel ih =>
    intro s i h hf _
    simp only [DQ.heapifyMaxLoopF, PQ.DQ.heapifyMaxLoop]
    refine cr_bind_lift fun last hlast => ?_
    refine cr_bind_lift fun bound hbound => ?_
    by_cases hb : i ≤ bound
    · simp only [hb, if_true]
      refine cr_bind_lift fun cs hcs => ?_
      refine ((cr_dq_maxByKeyF fuse s cs).mono ?_).bind_ok rfl ?_
      · rintro s' ⟨k, rfl⟩; exact ⟨tick_TWF.mpr h, rfl, rfl⟩
      dsimp only
      refine cr_bind_lift fun c hc => ?_
      refine cr_bind_lift fun pc hpc => ?_
      refine cr_bind_lift fun pm hpm => ?_
      have hw0 : (s.tick (cs.length - 1)).WF := tick_TWF.mpr h
      refine cr_cmp ⟨hw0, rfl, rfl⟩ ?_
      dsimp only
      simp only [decide_eq_true_eq]
      by_cases hlt : pm < pc
      · simp only [hlt, if_true]
        have hcn : c.1 < s.size := cr_lt_of_prioAt hw0 hpc
        have hin : i < s.size := cr_lt_of_prioAt hw0 hpm
        have hw1 : ((s.tick (cs.length - 1)).tick).WF := tick_TWF.mpr hw0
        obtain ⟨s1, hsw, h1wf, h1map, h1size, _, _⟩ := swap_spec hw1 (a := c.1) (b := i) hcn hin
        have h1wf' : s1.WF := WF.of_TWF_size h1wf h1size
        have h1map' : s1.map = s.map := h1map
        have h1size' : s1.size = s.size := h1size
        refine cr_bind_lift fun s1' hs1 => ?_
        rw [hsw] at hs1; cases hs1
        by_cases hgt : c.1 > right i
        · simp only [hgt, if_true]
          refine cr_bind_lift fun p hp => ?_
          refine cr_bind_lift fun pc' hpc' => ?_
          refine cr_bind_lift fun pp hpp => ?_
          refine cr_cmp ⟨h1wf', h1map', h1size'⟩ ?_
          dsimp only
          simp only [decide_eq_true_eq]
          have hpn : p < s1.size := cr_lt_of_prioAt h1wf' hpp
          have hfuel : s.size - c.1 ≤ fuel ∧ 0 < fuel := by simp only [right] at hgt; omega
          by_cases hlt2 : pc' < pp
          · simp only [hlt2, if_true]
            have hw2 : (s1.tick).WF := tick_TWF.mpr h1wf'
            obtain ⟨s2, hsw2, h2wf, h2map, h2size, _, _⟩ :=
              swap_spec hw2 (a := c.1) (b := p) (by show c.1 < s1.size; rw [h1size']; exact hcn) hpn
            have h2size' : s2.size = s.size := h2size.trans h1size'
            refine cr_bind_lift fun s2' hs2 => ?_
            rw [hsw2] at hs2; cases hs2
            refine (ih s2 c.1 (WF.of_TWF_size h2wf h2size) (by rw [h2size']; exact hfuel.1) hfuel.2).mono ?_
            rintro s' ⟨a, b, d⟩; exact ⟨a, b.trans (h2map.trans h1map'), d.trans h2size'⟩
          · simp only [hlt2, if_false]
            refine (cr_pure _ _).bind ?_
            intro s2 hs2; cases hs2
            refine (ih s1.tick c.1 (tick_TWF.mpr h1wf') (by rw [tick_size, h1size']; exact hfuel.1) hfuel.2).mono ?_
            rintro s' ⟨a, b, d⟩; exact ⟨a, b.trans h1map', d.trans h1size'⟩
        · simp only [hgt, if_false]; exact cr_pure _ _
      · simp only [hlt, if_false]; exact cr_pure _ _
    · simp only [hb, if_false]; exact cr_pure _ _

/-- **`DQ.heapifyF`** at any position (also out of range) -/
theorem cr_dq_heapifyF (fuse : Nat) {s : Store P} (h : s.WF) (i : Nat) :
    CrOut (DQ.heapifyF fuse s i) (PQ.DQ.heapify s i) (fun s' => s'.WF ∧ s'.map = s.map ∧ s'.size = s.size) := by
  unfold DQ.heapifyF PQ.DQ.heapify
  by_cases h1 : s.size ≤ 1
  · simp only [h1, if_true]; exact cr_pure _ _
  · simp only [h1, if_false]
    by_cases hl : level i % 2 = 0
    · simp only [hl, if_true]; exact cr_dq_heapifyMinLoopF fuse s.size s i h (by omega) (by omega)
    · simp only [hl, if_false]; exact cr_dq_heapifyMaxLoopF fuse s.size s i h (by omega) (by omega)

/-- the grandparent loop of `bubble_up_min` under the `Hole` guard -/
theorem cr_dq_bubbleUpMinLoopF (fuse : Nat) (v : P) (n idx : Nat) (fuel : Nat) : ∀ (s : Store P) (q : Nat),
    s.HoleTWF n q idx → q < fuel →
    CrOut (DQ.bubbleUpMinLoopF fuse idx fuel s q v) (PQ.DQ.bubbleUpMinLoop fuel s q v)
      (fun s' => s'.TWF n ∧ s'.map = s.map ∧ s'.size = s.size) := by
  induction fuel with
  | zero => intro s q _ hf; omega
  | succ fuel ih =>
    intro s q h hf
    simp only [DQ.bubbleUpMinLoopF, PQ.DQ.bubbleUpMinLoop]
    by_cases hc : q > 0 ∧ parent q > 0
    · simp only [hc, and_self, if_true]
      obtain ⟨h1, h2⟩ := hc
      have hgq := (PQ.Up.anc_gp h1 h2).lt
      have hqn := h.hole_lt
      obtain ⟨gpi, eg, hgpi, hgpin, _, _, _⟩ := PQ.Up.hole_read h (p := parent (parent q)) (by omega) (by omega)
      refine cr_bind_lift fun gpp hgpp => ?_
      obtain ⟨sf, hfill, hf1, hf2, hf3, _⟩ := cr_fillHole h 316 317
      refine cr_cmpHole hfill ⟨hf1, hf2, hf3⟩ ?_
      dsimp only
      simp only [decide_eq_true_eq]
      by_cases hlt : v < gpp
      · simp only [hlt, if_true]
        refine cr_bind_lift fun gpi' hg => ?_
        refine cr_bind_lift fun heap hheap => ?_
        refine cr_bind_lift fun qp hqp => ?_
        have e1 : gpi' = gpi := by
          have := getU_eq_ok_iff.1 hg
          rw [tick_heap, hgpi] at this; exact (Option.some.inj this).symm
        subst e1
        obtain ⟨_, rfl⟩ := setU_eq_ok_iff.1 hheap
        obtain ⟨_, rfl⟩ := setU_eq_ok_iff.1 hqp
        have hstep := HoleTWF.step (h.tick (k := 1)) (pp := parent (parent q)) (by omega) (by omega) hgpi
        exact (ih _ (parent (parent q)) hstep (by omega)).mono (fun s' hs' => hs')
      · simp only [hlt, if_false]; exact cr_pure _ _
    · simp only [hc, if_false]; exact cr_pure _ _

/-- the grandparent loop of `bubble_up_max` under the `Hole` guard -/
theorem cr_dq_bubbleUpMaxLoopF (fuse : Nat) (v : P) (n idx : Nat) (fuel : Nat) : ∀ (s : Store P) (q : Nat),
    s.HoleTWF n q idx → q < fuel →
    CrOut (DQ.bubbleUpMaxLoopF fuse idx fuel s q v) (PQ.DQ.bubbleUpMaxLoop fuel s q v)
      (fun s' => s'.TWF n ∧ s'.map = s.map ∧ s'.size = s.size) := by
  induction fuel with
  | zero => intro s q _ hf; omega
  | succ fuel ih =>
    intro s q h hf
    simp only [DQ.bubbleUpMaxLoopF, PQ.DQ.bubbleUpMaxLoop]
    by_cases hc : q > 0 ∧ parent q > 0
    · simp only [hc, and_self, if_true]
      obtain ⟨h1, h2⟩ := hc
      have hgq := (PQ.Up.anc_gp h1 h2).lt
      have hqn := h.hole_lt
      obtain ⟨gpi, eg, hgpi, hgpin, _, _, _⟩ := PQ.Up.hole_read h (p := parent (parent q)) (by omega) (by omega)
      refine cr_bind_lift fun gpp hgpp => ?_
      obtain ⟨sf, hfill, hf1, hf2, hf3, _⟩ := cr_fillHole h 316 317
      refine cr_cmpHole hfill ⟨hf1, hf2, hf3⟩ ?_
      dsimp only
      simp only [decide_eq_true_eq]
      by_cases hlt : gpp < v
      · simp only [hlt, if_true]
        refine cr_bind_lift fun gpi' hg => ?_
        refine cr_bind_lift fun heap hheap => ?_
        refine cr_bind_lift fun qp hqp => ?_
        have e1 : gpi' = gpi := by
          have := getU_eq_ok_iff.1 hg
          rw [tick_heap, hgpi] at this; exact (Option.some.inj this).symm
        subst e1
        obtain ⟨_, rfl⟩ := setU_eq_ok_iff.1 hheap
        obtain ⟨_, rfl⟩ := setU_eq_ok_iff.1 hqp
        have hstep := HoleTWF.step (h.tick (k := 1)) (pp := parent (parent q)) (by omega) (by omega) hgpi
        exact (ih _ (parent (parent q)) hstep (by omega)).mono (fun s' hs' => hs')
      · simp only [hlt, if_false]; exact cr_pure _ _
    · simp only [hc, if_false]; exact cr_pure _ _

/-- **`bubbleUpMinF`** with the hole at `q` -/
theorem cr_dq_bubbleUpMinF (fuse : Nat) {s : Store P} {n q idx : Nat} (h : s.HoleTWF n q idx) :
    CrOut (DQ.bubbleUpMinF fuse s q idx) (PQ.DQ.bubbleUpMin s q idx)
      (fun s' => s'.TWF n ∧ s'.map = s.map ∧ s'.size = s.size) := by
  unfold DQ.bubbleUpMinF PQ.DQ.bubbleUpMin
  refine cr_bind_lift fun e he => ?_
  exact cr_dq_bubbleUpMinLoopF fuse e.2 n idx (q + 1) s q h (by omega)

/-- **`bubbleUpMaxF`** with the hole at `q` -/
theorem cr_dq_bubbleUpMaxF (fuse : Nat) {s : Store P} {n q idx : Nat} (h : s.HoleTWF n q idx) :
    CrOut (DQ.bubbleUpMaxF fuse s q idx) (PQ.DQ.bubbleUpMax s q idx)
      (fun s' => s'.TWF n ∧ s'.map = s.map ∧ s'.size = s.size) := by
  unfold DQ.bubbleUpMaxF PQ.DQ.bubbleUpMax
  refine cr_bind_lift fun e he => ?_
  exact cr_dq_bubbleUpMaxLoopF fuse e.2 n idx (q + 1) s q h (by omega)

/-- **`DQ.bubbleUpF(i, idx)`** on well-formed tables of length `n` with `heap[i] = idx`: the guard is created before the
comparison with the parent; wherever the fuse fires, the hole is filled at the position reached -/
theorem cr_dq_bubbleUpF (fuse : Nat) {s : Store P} {n i idx : Nat} (h : s.TWF n) (hi : s.heap[i]? = some idx) :
    CrOut (DQ.bubbleUpF fuse s i idx) (PQ.DQ.bubbleUp s i idx)
      (fun s' => s'.TWF n ∧ s'.map = s.map ∧ s'.size = s.size) := by
  have hH := h.toHole hi
  unfold DQ.bubbleUpF PQ.DQ.bubbleUp
  refine cr_bind_lift fun e he => ?_
  dsimp only
  by_cases h0 : i > 0
  · simp only [h0, if_true]
    have hin := hH.hole_lt
    have hpi := parent_lt h0
    obtain ⟨ppi, ep, hppi, hppin, _, _, _⟩ := PQ.Up.hole_read hH (p := parent i) (by omega) (by omega)
    refine cr_bind_lift fun pp hpp => ?_
    refine cr_bind_lift fun parentIndex hpI => ?_
    have e1 : parentIndex = ppi := by
      have := getU_eq_ok_iff.1 hpI
      rw [hppi] at this; exact (Option.some.inj this).symm
    subst e1
    obtain ⟨sf, hfill, hf1, hf2, hf3, _⟩ := cr_fillHole hH 316 317
    refine cr_cmpHole hfill ⟨hf1, hf2, hf3⟩ ?_
    dsimp only
    have hstep := HoleTWF.step (hH.tick (k := 1)) (pp := parent i) (by omega) (by omega) hppi
    cases decide (level i % 2 = 0) <;> cases decide (pp < e.2) <;> dsimp only
    · refine cr_bind_lift fun heap hheap => ?_
      refine cr_bind_lift fun qp hqp => ?_
      obtain ⟨_, rfl⟩ := setU_eq_ok_iff.1 hheap
      obtain ⟨_, rfl⟩ := setU_eq_ok_iff.1 hqp
      refine (cr_dq_bubbleUpMinF fuse hstep).bind ?_
      rintro ⟨s1, pos⟩ _; cr_tail
    · refine (cr_dq_bubbleUpMaxF fuse (hH.tick (k := 1))).bind ?_
      rintro ⟨s1, pos⟩ _; cr_tail
    · refine (cr_dq_bubbleUpMinF fuse (hH.tick (k := 1))).bind ?_
      rintro ⟨s1, pos⟩ _; cr_tail
    · refine cr_bind_lift fun heap hheap => ?_
      refine cr_bind_lift fun qp hqp => ?_
      obtain ⟨_, rfl⟩ := setU_eq_ok_iff.1 hheap
      obtain ⟨_, rfl⟩ := setU_eq_ok_iff.1 hqp
      refine (cr_dq_bubbleUpMaxF fuse hstep).bind ?_
      rintro ⟨s1, pos⟩ _; cr_tail
  · simp only [h0, if_false]
    refine (cr_pure _ _).bind ?_
    rintro ⟨s1, pos⟩ _; cr_tail

/-- **`DQ.upHeapifyF(i)`** at any position: fused sift-up (hole filled on a crash), then the fused sift-downs -/
theorem cr_dq_upHeapifyF (fuse : Nat) {s : Store P} (h : s.WF) (i : Nat) :
    CrOut (DQ.upHeapifyF fuse s i) (PQ.DQ.upHeapify s i) (fun s' => s'.WF ∧ s'.map = s.map ∧ s'.size = s.size) := by
  unfold DQ.upHeapifyF PQ.DQ.upHeapify
  cases hidx : s.heap[i]? with
  | none => exact cr_pure _ _
  | some tmp =>
    dsimp only
    obtain ⟨s1, pos, hb, h1, hm1, hsz1, _⟩ := PQ.DQ.bubbleUp_tables h hidx
    have h1wf : s1.WF := WF.of_TWF_size h1 hsz1
    refine ((cr_dq_bubbleUpF fuse h hidx).mono ?_).bind ?_
    · rintro s' ⟨a, b, c⟩; exact ⟨WF.of_TWF_size a c, b, c⟩
    · rintro ⟨s2, p2⟩ h2
      rw [hb] at h2; cases h2
      dsimp only
      have hQ1 : ∀ s' : Store P, (s'.WF ∧ s'.map = s1.map ∧ s'.size = s1.size) →
          (s'.WF ∧ s'.map = s.map ∧ s'.size = s.size) := by
        rintro s' ⟨a, b, c⟩; exact ⟨a, b.trans hm1, c.trans hsz1⟩
      by_cases hne : i = pos
      · simp only [hne, ne_eq, not_true_eq_false, if_false]
        refine (cr_pure _ _).bind ?_
        intro s2' h2'; cases h2'
        exact (cr_dq_heapifyF fuse h1wf pos).mono hQ1
      · simp only [hne, ne_eq, not_false_eq_true, if_true]
        obtain ⟨s2, hr, hwf2, hm2, hsz2, _⟩ := PQ.DQ.heapify_safe h1wf i
        refine ((cr_dq_heapifyF fuse h1wf i).mono hQ1).bind ?_
        intro s2' h2'
        rw [hr] at h2'; cases h2'
        refine (cr_dq_heapifyF fuse hwf2 pos).mono ?_
        rintro s' ⟨a, b, c⟩; exact ⟨a, (b.trans hm2).trans hm1, (c.trans hsz2).trans hsz1⟩

theorem cr_dq_heapBuildLoopF (fuse : Nat) : ∀ (k : Nat) (s : Store P), s.WF →
    CrOut (DQ.heapBuildLoopF fuse s k) (PQ.DQ.heapBuildLoop s k)
      (fun s' => s'.WF ∧ s'.map = s.map ∧ s'.size = s.size) := by
  intro k
  induction k with
  | zero =>
    intro s h
    simp only [DQ.heapBuildLoopF, PQ.DQ.heapBuildLoop]
    exact cr_dq_heapifyF fuse h 0
  | succ k ih =>
    intro s h
    simp only [DQ.heapBuildLoopF, PQ.DQ.heapBuildLoop]
    obtain ⟨s1, hh, hwf, hm, hsz, _⟩ := PQ.DQ.heapify_safe h (k + 1)
    refine (cr_dq_heapifyF fuse h (k + 1)).bind ?_
    intro s2 h2
    rw [hh] at h2; cases h2
    refine (ih s1 hwf).mono ?_
    rintro s' ⟨a, b, c⟩; exact ⟨a, b.trans hm, c.trans hsz⟩

/-- **`DQ.heapBuildF`**: a crash leaves the partially rebuilt store, well-formed, same map and size -/
theorem cr_dq_heapBuildF (fuse : Nat) {s : Store P} (h : s.WF) :
    CrOut (DQ.heapBuildF fuse s) (PQ.DQ.heapBuild s) (fun s' => s'.WF ∧ s'.map = s.map ∧ s'.size = s.size) := by
  unfold DQ.heapBuildF PQ.DQ.heapBuild
  by_cases h0 : s.size = 0
  · simp only [h0, if_true]; exact cr_pure _ _
  · simp only [h0, if_false]
    refine cr_bind_lift fun top ht => ?_
    exact cr_dq_heapBuildLoopF fuse top s h

/-- **`findMaxF`**: one comparison, nothing written: a crash leaves the store exactly as it was (no hypothesis) -/
theorem cr_dq_findMaxF (fuse : Nat) (s : Store P) :
    CrOut (DQ.findMaxF fuse s) (PQ.DQ.findMax s) (fun s' => s' = s) := by
  unfold DQ.findMaxF PQ.DQ.findMax
  generalize s.size = n
  match n with
  | 0 => exact cr_pure _ _
  | 1 => exact cr_pure _ _
  | 2 => exact cr_pure _ _
  | n + 3 =>
    dsimp only
    refine cr_bind_lift fun p1 h1 => ?_
    refine cr_bind_lift fun p2 h2 => ?_
    refine cr_cmp rfl ?_
    dsimp only
    simp only [decide_eq_true_eq]
    exact cr_pure _ _

/-- **`peekMaxF`**: crash ⇒ unchanged -/
theorem cr_dq_peekMaxF (fuse : Nat) (s : Store P) :
    CrOut (DQ.peekMaxF fuse s) (PQ.DQ.peekMax s) (fun s' => s' = s) := by
  unfold DQ.peekMaxF PQ.DQ.peekMax
  refine (cr_dq_findMaxF fuse s).bind ?_
  rintro ⟨s1, r⟩ _
  cases r <;> cr_tail

/-- **`peekMaxMutWriteF`**: `find_max` runs before the reference is handed out: crash ⇒ unchanged -/
theorem cr_dq_peekMaxMutWriteF (fuse : Nat) (s : Store P) (w : Item → Item) :
    CrOut (DQ.peekMaxMutWriteF fuse s w) (PQ.DQ.peekMaxMutWrite s w) (fun s' => s' = s) := by
  unfold DQ.peekMaxMutWriteF PQ.DQ.peekMaxMutWrite
  refine (cr_dq_findMaxF fuse s).bind ?_
  rintro ⟨s1, r⟩ _
  cases r with
  | none => exact cr_pure _ _
  | some pos =>
    dsimp only
    refine cr_bind_lift fun i _ => ?_
    cases s1.map.getIndex i <;> exact cr_pure _ _

/-- the common tail of the pops: the removal is complete, then the fused sift-down at the vacated position -/
theorem cr_dq_thenHeapify (fuse : Nat) (i : Nat) {y : R (Store P × Option (Item × P))} {Q : Store P → Prop}
    (hy : ∀ s1 r, y = .ok (s1, r) → s1.WF ∧ ∀ s', s'.WF → s'.size = s1.size → Q s') :
    CrOut (do let (s, r) ← liftR y; let s ← DQ.heapifyF fuse s i; pure (s, r))
      (do let (s, r) ← y; let s ← PQ.DQ.heapify s i; pure (s, r)) Q := by
  refine cr_bind_lift ?_
  rintro ⟨s1, r⟩ h1
  obtain ⟨hwf, hQ⟩ := hy s1 r h1
  dsimp only
  refine ((cr_dq_heapifyF fuse hwf i).mono ?_).bind (fun _ _ => cr_pure _ _)
  rintro s' ⟨a, _, c⟩; exact hQ s' a c

theorem cr_dq_thenUpHeapify (fuse : Nat) (i : Nat) {y : R (Store P × Option (Item × P))} {Q : Store P → Prop}
    (hy : ∀ s1 r, y = .ok (s1, r) → s1.WF ∧ ∀ s', s'.WF → s'.size = s1.size → Q s') :
    CrOut (do let (s, r) ← liftR y; let s ← DQ.upHeapifyF fuse s i; pure (s, r))
      (do let (s, r) ← y; let s ← PQ.DQ.upHeapify s i; pure (s, r)) Q := by
  refine cr_bind_lift ?_
  rintro ⟨s1, r⟩ h1
  obtain ⟨hwf, hQ⟩ := hy s1 r h1
  dsimp only
  refine ((cr_dq_upHeapifyF fuse hwf i).mono ?_).bind (fun _ _ => cr_pure _ _)
  rintro s' ⟨a, _, c⟩; exact hQ s' a c

/-- **`popMinF`**: crash ⇒ the minimum is gone (and lost), well-formed with one element less -/
theorem cr_dq_popMinF (fuse : Nat) {s : Store P} (h : s.WF) :
    CrOut (DQ.popMinF fuse s) (PQ.DQ.popMin s) (fun s' => s'.WF ∧ s'.size = s.size - 1) := by
  unfold DQ.popMinF PQ.DQ.popMin
  by_cases h0 : s.size = 0
  · rw [PQ.DQ.findMin_empty h0]; exact cr_pure _ _
  · rw [PQ.DQ.findMin_spec (by omega)]
    dsimp only
    obtain ⟨s1, e, hsr, _, h1wf, h1sz, _⟩ := swapRemove_spec h (pos := 0) (by omega)
    refine cr_dq_thenHeapify fuse 0 ?_
    intro s1' r hy
    rw [hsr] at hy; cases hy
    exact ⟨h1wf, fun s' a b => ⟨a, by omega⟩⟩

/-- **`popMaxF`**: crash in `find_max` ⇒ unchanged; afterwards as `popMinF` -/
theorem cr_dq_popMaxF (fuse : Nat) {s : Store P} (h : s.WF) :
    CrOut (DQ.popMaxF fuse s) (PQ.DQ.popMax s) (fun s' => s'.WF ∧ (s'.size = s.size ∨ s'.size = s.size - 1)) := by
  unfold DQ.popMaxF PQ.DQ.popMax
  obtain ⟨k, r, hfm, _, hr0, hr1⟩ := PQ.DQ.findMax_safe h
  refine ((cr_dq_findMaxF fuse s).mono ?_).bind ?_
  · rintro s' rfl; exact ⟨h, Or.inl rfl⟩
  · rintro ⟨s1, r'⟩ h1
    rw [hfm] at h1; cases h1
    by_cases h0 : s.size = 0
    · rw [hr0 h0]; exact cr_pure _ _
    · obtain ⟨p, rfl, hp⟩ := hr1 (by omega)
      dsimp only
      have hwt : (s.tick k).WF := tick_TWF.mpr h
      obtain ⟨s1, e, hsr, _, h1wf, h1sz, _⟩ := swapRemove_spec hwt (pos := p) hp
      refine cr_dq_thenHeapify fuse p ?_
      intro s1' r hy
      rw [hsr] at hy; cases hy
      exact ⟨h1wf, fun s' a b => ⟨a, Or.inr (by rw [b, h1sz]; rfl)⟩⟩

/-- **`popMinIfF`** with a key-preserving predicate -/
theorem cr_dq_popMinIfF (fuse : Nat) {s : Store P} (h : s.WF) (f : Item → P → Bool × Item × P)
    (hf : ∀ it p, (f it p).2.1.key = it.key) :
    CrOut (DQ.popMinIfF fuse s f) (PQ.DQ.popMinIf s f) (fun s' => s'.WF ∧ (s'.size = s.size ∨ s'.size = s.size - 1)) := by
  unfold DQ.popMinIfF PQ.DQ.popMinIf
  by_cases h0 : s.size = 0
  · rw [PQ.DQ.findMin_empty h0]; exact cr_pure _ _
  · rw [PQ.DQ.findMin_spec (by omega)]
    dsimp only
    obtain ⟨e, _, htrue, hfalse⟩ := swapRemoveIf_spec f h (pos := 0) (by omega) hf
    refine cr_dq_thenHeapify fuse 0 ?_
    intro s1' r hy
    cases hr : (f e.1 e.2).1 with
    | true =>
      obtain ⟨s1, hsr, h1wf, h1sz, _⟩ := htrue hr
      rw [hsr] at hy; cases hy
      exact ⟨h1wf, fun s' a b => ⟨a, Or.inr (by omega)⟩⟩
    | false =>
      obtain ⟨s1, hsr, h1wf, h1sz, _⟩ := hfalse hr
      rw [hsr] at hy; cases hy
      exact ⟨h1wf, fun s' a b => ⟨a, Or.inl (by omega)⟩⟩

/-- **`popMaxIfF`**: `find_max` (crash ⇒ predicate not called, unchanged), predicate and removal, then the fused `upHeapifyF` -/
theorem cr_dq_popMaxIfF (fuse : Nat) {s : Store P} (h : s.WF) (f : Item → P → Bool × Item × P)
    (hf : ∀ it p, (f it p).2.1.key = it.key) :
    CrOut (DQ.popMaxIfF fuse s f) (PQ.DQ.popMaxIf s f) (fun s' => s'.WF ∧ (s'.size = s.size ∨ s'.size = s.size - 1)) := by
  unfold DQ.popMaxIfF PQ.DQ.popMaxIf
  obtain ⟨k, r, hfm, _, hr0, hr1⟩ := PQ.DQ.findMax_safe h
  refine ((cr_dq_findMaxF fuse s).mono ?_).bind ?_
  · rintro s' rfl; exact ⟨h, Or.inl rfl⟩
  · rintro ⟨s1, r'⟩ h1
    rw [hfm] at h1; cases h1
    by_cases h0 : s.size = 0
    · rw [hr0 h0]; exact cr_pure _ _
    · obtain ⟨p, rfl, hp⟩ := hr1 (by omega)
      dsimp only
      have hwt : (s.tick k).WF := tick_TWF.mpr h
      obtain ⟨e, _, htrue, hfalse⟩ := swapRemoveIf_spec f hwt (pos := p) hp hf
      refine cr_dq_thenUpHeapify fuse p ?_
      intro s1' r hy
      cases hr : (f e.1 e.2).1 with
      | true =>
        obtain ⟨s1, hsr, h1wf, h1sz, _⟩ := htrue hr
        rw [hsr] at hy; cases hy
        exact ⟨h1wf, fun s' a b => ⟨a, Or.inr (by rw [b, h1sz]; rfl)⟩⟩
      | false =>
        obtain ⟨s1, hsr, h1wf, h1sz, _⟩ := hfalse hr
        rw [hsr] at hy; cases hy
        exact ⟨h1wf, fun s' a b => ⟨a, Or.inl (by rw [b, h1sz]; rfl)⟩⟩

/-- evaluation of the plain `DQ.push` for a stored key -/
theorem cr_dq_push_present {s : Store P} {it : Item} {p : P} {i pos : Nat} {e : Item × P}
    (hf : IMap.find? s.map it.key = some i) (he : s.map[i]? = some e) (hq : s.qp[i]? = some pos) :
    PQ.DQ.push s it p = (do let s' ← PQ.DQ.upHeapify (s.setEntry i (e.1, p)) pos; pure (s', some e.2)) := by
  unfold PQ.DQ.push
  rw [IMap.insertFull_of_find?_some hf he p]
  simp only [getU_ok hq, bind, Except.bind, pure, Except.pure]
  rfl

theorem cr_dq_push_absent {s : Store P} {it : Item} {p : P} (hf : IMap.find? s.map it.key = none) :
    PQ.DQ.push s it p =
      (do let (s', _) ← PQ.DQ.bubbleUp (PQ.MaxQ.pushPre s it p) s.size s.size
          pure ({ s' with size := s'.size + 1 }, none)) := by
  unfold PQ.DQ.push
  rw [IMap.insertFull_of_find?_none hf p]
  rfl

theorem cr_dq_pushF_present (fuse : Nat) {s : Store P} {it : Item} {p : P} {i pos : Nat} {e : Item × P}
    (hf : IMap.find? s.map it.key = some i) (he : s.map[i]? = some e) (hq : s.qp[i]? = some pos) :
    DQ.pushF fuse s it p = (do let s' ← DQ.upHeapifyF fuse (s.setEntry i (e.1, p)) pos; pure (s', some e.2)) := by
  unfold DQ.pushF
  rw [IMap.insertFull_of_find?_some hf he p]
  simp only [getU_ok hq, liftR_ok, cr_ok_bind]
  rfl

theorem cr_dq_pushF_absent (fuse : Nat) {s : Store P} {it : Item} {p : P} (hf : IMap.find? s.map it.key = none) :
    DQ.pushF fuse s it p =
      (do let (s', _) ← DQ.bubbleUpF fuse { PQ.MaxQ.pushPre s it p with size := s.size + 1 } s.size s.size
          pure (s', none)) := by
  unfold DQ.pushF
  rw [IMap.insertFull_of_find?_none hf p]
  rfl

/-- **`DQ.pushF`** (as `MaxQ.pushF`: new item ⇒ a crashed store has `size = s.size + 1`) -/
theorem cr_dq_pushF (fuse : Nat) {s : Store P} (h : s.WF) (it : Item) (p : P) :
    CrOut (DQ.pushF fuse s it p) (PQ.DQ.push s it p)
      (fun s' => s'.WF ∧ s'.size = if (s.abs it.key).isSome then s.size else s.size + 1) := by
  rcases IMap.insertFull_cases s.map it p with ⟨i, e, hf, he, hk, hins⟩ | ⟨hf, hins⟩
  · have hil : i < s.size := by have := lt_size_of_getElem? he; rw [h.map_size] at this; exact this
    obtain ⟨pos, hq, hpl⟩ := h.qp_some hil
    have h1 : (s.setEntry i (e.1, p)).WF := setEntry_TWF h he rfl
    rw [cr_dq_pushF_present fuse hf he hq, cr_dq_push_present hf he hq]
    refine ((cr_dq_upHeapifyF fuse h1 pos).mono ?_).bind (fun _ _ => cr_pure _ _)
    rintro s' ⟨a, b, c⟩
    refine ⟨a, ?_⟩
    rw [PQ.MaxQ.abs_isSome_iff_find?, hf, c]; rfl
  · rw [cr_dq_pushF_absent fuse hf, cr_dq_push_absent hf]
    have hT : (PQ.MaxQ.pushPre s it p).TWF (s.size + 1) := PQ.MaxQ.pushPre_TWF h hf
    have hlast := PQ.MaxQ.pushPre_heap_last h it p
    obtain ⟨s3, pos, hb, h3, hm3, hsz3, _⟩ := PQ.DQ.bubbleUp_tables hT hlast
    have hsz3' : s3.size = s.size := hsz3
    have hT' : ({ PQ.MaxQ.pushPre s it p with size := s.size + 1 } : Store P).TWF (s.size + 1) :=
      TWF.congr hT rfl rfl rfl
    have hcr := cr_dq_bubbleUpF fuse hT' (i := s.size) (idx := s.size) hlast
    rw [cr_dq_bubbleUp_size, hb] at hcr
    rw [hb]
    refine (hcr.mono ?_).bind_ok rfl ?_
    · rintro s' ⟨a, b, c⟩
      have c' : s'.size = s.size + 1 := c
      refine ⟨WF.of_TWF_size a c', ?_⟩
      rw [PQ.MaxQ.abs_isSome_iff_find?, hf, c']; rfl
    · dsimp only
      rw [cr_ok_bind]
      dsimp only
      rw [hsz3']
      exact cr_ok _ _

/-- **`DQ.pushIncreaseF`**: crash in the pre-check ⇒ the store untouched -/
theorem cr_dq_pushIncreaseF (fuse : Nat) {s : Store P} (h : s.WF) (it : Item) (p : P) :
    CrOut (DQ.pushIncreaseF fuse s it p) (PQ.DQ.pushIncrease s it p)
      (fun s' => s'.WF ∧ (s'.size = s.size ∨ s'.size = s.size + 1)) := by
  have hmono : ∀ (t : Store P), t.size = s.size → ∀ s' : Store P,
      (s'.WF ∧ s'.size = if (t.abs it.key).isSome then t.size else t.size + 1) →
      s'.WF ∧ (s'.size = s.size ∨ s'.size = s.size + 1) := by
    rintro t ht s' ⟨a, b⟩
    refine ⟨a, ?_⟩
    split at b <;> omega
  unfold DQ.pushIncreaseF PQ.DQ.pushIncrease
  cases s.getPriority it.key with
  | none => exact (cr_dq_pushF fuse h it p).mono (hmono s rfl)
  | some q =>
    dsimp only
    refine cr_cmp ⟨h, Or.inl rfl⟩ ?_
    dsimp only
    simp only [decide_eq_true_eq]
    by_cases hlt : q < p
    · simp only [hlt, if_true]
      exact (cr_dq_pushF fuse (s := s.tick) (tick_TWF.mpr h) it p).mono (hmono s.tick rfl)
    · simp only [hlt, if_false]; exact cr_pure _ _

/-- **`DQ.pushDecreaseF`** -/
theorem cr_dq_pushDecreaseF (fuse : Nat) {s : Store P} (h : s.WF) (it : Item) (p : P) :
    CrOut (DQ.pushDecreaseF fuse s it p) (PQ.DQ.pushDecrease s it p)
      (fun s' => s'.WF ∧ (s'.size = s.size ∨ s'.size = s.size + 1)) := by
  have hmono : ∀ (t : Store P), t.size = s.size → ∀ s' : Store P,
      (s'.WF ∧ s'.size = if (t.abs it.key).isSome then t.size else t.size + 1) →
      s'.WF ∧ (s'.size = s.size ∨ s'.size = s.size + 1) := by
    rintro t ht s' ⟨a, b⟩
    refine ⟨a, ?_⟩
    split at b <;> omega
  unfold DQ.pushDecreaseF PQ.DQ.pushDecrease
  cases s.getPriority it.key with
  | none => exact (cr_dq_pushF fuse h it p).mono (hmono s rfl)
  | some q =>
    dsimp only
    refine cr_cmp ⟨h, Or.inl rfl⟩ ?_
    dsimp only
    simp only [decide_eq_true_eq]
    by_cases hlt : p < q
    · simp only [hlt, if_true]
      exact (cr_dq_pushF fuse (s := s.tick) (tick_TWF.mpr h) it p).mono (hmono s.tick rfl)
    · simp only [hlt, if_false]; exact cr_pure _ _

/-- **`DQ.changePriorityF`** -/
theorem cr_dq_changePriorityF (fuse : Nat) {s : Store P} (h : s.WF) (k : Nat) (p : P) :
    CrOut (DQ.changePriorityF fuse s k p) (PQ.DQ.changePriority s k p) (fun s' => s'.WF ∧ s'.size = s.size) := by
  unfold DQ.changePriorityF PQ.DQ.changePriority
  refine cr_bind_lift ?_
  rintro ⟨s1, r⟩ h1
  cases hl : IMap.lookup s.map k with
  | none =>
    rw [changePriority_spec_none hl] at h1; cases h1
    exact cr_pure _ _
  | some e =>
    obtain ⟨s1', pos, hcp, hpl, _, hwf1, hsz1, _⟩ := changePriority_spec_some h hl p
    rw [hcp] at h1; cases h1
    dsimp only
    refine ((cr_dq_upHeapifyF fuse hwf1 pos).mono ?_).bind (fun _ _ => cr_pure _ _)
    rintro s' ⟨a, _, c⟩; exact ⟨a, c.trans hsz1⟩

/-- **`DQ.changePriorityByF`** -/
theorem cr_dq_changePriorityByF (fuse : Nat) {s : Store P} (h : s.WF) (k : Nat) (g : P → P) :
    CrOut (DQ.changePriorityByF fuse s k g) (PQ.DQ.changePriorityBy s k g) (fun s' => s'.WF ∧ s'.size = s.size) := by
  unfold DQ.changePriorityByF PQ.DQ.changePriorityBy
  refine cr_bind_lift ?_
  rintro ⟨s1, r⟩ h1
  cases hl : IMap.lookup s.map k with
  | none =>
    rw [changePriorityBy_spec_none hl] at h1; cases h1
    exact cr_pure _ _
  | some e =>
    obtain ⟨s1', pos, hcp, hpl, _, hwf1, hsz1, _⟩ := changePriorityBy_spec_some h hl g
    rw [hcp] at h1; cases h1
    dsimp only
    refine ((cr_dq_upHeapifyF fuse hwf1 pos).mono ?_).bind (fun _ _ => cr_pure _ _)
    rintro s' ⟨a, _, c⟩; exact ⟨a, c.trans hsz1⟩

/-- **`DQ.removeF`** -/
theorem cr_dq_removeF (fuse : Nat) {s : Store P} (h : s.WF) (k : Nat) :
    CrOut (DQ.removeF fuse s k) (PQ.DQ.remove s k) (fun s' => s'.WF ∧ s'.size = s.size - 1) := by
  unfold DQ.removeF PQ.DQ.remove
  refine cr_bind_lift ?_
  rintro ⟨s1, r⟩ h1
  cases hl : IMap.lookup s.map k with
  | none =>
    rw [remove_spec_none hl] at h1; cases h1
    exact cr_pure _ _
  | some e =>
    obtain ⟨s1', pos, hr, hpl, _, hwf1, hsz1, _⟩ := remove_spec_some h hl
    rw [hr] at h1; cases h1
    dsimp only
    by_cases hp : pos < s1.size
    · simp only [hp, if_true]
      refine ((cr_dq_upHeapifyF fuse hwf1 pos).mono ?_).bind (fun _ _ => cr_pure _ _)
      rintro s' ⟨a, _, c⟩; exact ⟨a, c.trans hsz1⟩
    · simp only [hp, if_false]; exact cr_pure _ _

/-- **`DQ.retainMutF`** -/
theorem cr_dq_retainMutF (fuse : Nat) {s : Store P} (h : s.WF) (f : Item → P → Bool × Item × P)
    (hf : ∀ it p, (f it p).2.1.key = it.key) :
    CrOut (DQ.retainMutF fuse s f) (PQ.DQ.retainMut s f) (fun s' => s'.WF ∧ s'.map = s.map.retain f) := by
  unfold DQ.retainMutF PQ.DQ.retainMut
  refine (cr_dq_heapBuildF fuse (wf_retainMut h hf)).mono ?_
  rintro s' ⟨a, b, _⟩; exact ⟨a, by rw [b, retainMut_map]⟩

/-- **`DQ.appendF`** -/
theorem cr_dq_appendF (fuse : Nat) {s o : Store P} (hs : s.WF) (ho : o.WF) :
    CrOut (DQ.appendF fuse s o) (PQ.DQ.append s o) (fun s' => s'.WF ∧ s'.map = (Store.append s o).1.map) := by
  unfold DQ.appendF PQ.DQ.append
  dsimp only
  refine ((cr_dq_heapBuildF fuse (wf_append_fst hs ho)).mono ?_).bind (fun _ _ => cr_pure _ _)
  rintro s' ⟨a, b, _⟩; exact ⟨a, b⟩

/-- **`DQ.ofStoreF`** (`From<PriorityQueue>`) -/
theorem cr_dq_ofStoreF (fuse : Nat) {s : Store P} (h : s.WF) :
    CrOut (DQ.ofStoreF fuse s) (PQ.DQ.ofStore s) (fun s' => s'.WF ∧ s'.map = s.map ∧ s'.size = s.size) :=
  cr_dq_heapBuildF fuse h

theorem cr_dq_fromVecF (fuse : Nat) (v : Array (Item × P)) :
    DQ.fromVecF fuse v = liftR (PQ.DQ.fromVec v) ∨ DQ.fromVecF fuse v = .error .crashedNew :=
  cr_asNew (cr_dq_heapBuildF fuse (wf_fromVec v))

/-- (an announced lower bound `≥ capLimit` is the capacity panic of the plain `fromIter`, before any comparison) -/
theorem cr_dq_fromIterF (fuse : Nat) (lo : Nat) (xs : Array (Item × P)) :
    DQ.fromIterF fuse lo xs = liftR (PQ.DQ.fromIter lo xs) ∨ DQ.fromIterF fuse lo xs = .error .crashedNew := by
  unfold DQ.fromIterF
  rcases reserveC_cases lo with ⟨hlo, hr⟩ | ⟨hlo, hr⟩
  · rw [PQ.DQ.fromIter_of_lt xs hlo, hr]
    exact cr_asNew (cr_dq_heapBuildF fuse (wf_fromIter xs))
  · rw [PQ.DQ.fromIter_of_ge xs hlo, hr]
    exact .inl rfl

theorem cr_dq_deserializeF (fuse : Nat) (hint : Option Nat) (xs : Array (Item × P)) :
    DQ.deserializeF fuse hint xs = liftR (PQ.DQ.deserialize hint xs) ∨
      DQ.deserializeF fuse hint xs = .error .crashedNew := by
  have h0 : DQ.deserializeF fuse hint xs = asNew (DQ.heapBuildF fuse (Store.visitSeq xs)) := by
    unfold DQ.deserializeF
    cases hint with
    | none => rfl
    | some h => simp only [reserveC_min_4096]; rfl
  rw [h0, PQ.DQ.deserialize_eq]
  exact cr_asNew (cr_dq_heapBuildF fuse (wf_visitSeq xs))

/-- **`DQ.pushAllF`** -/
theorem cr_dq_pushAllF (fuse : Nat) : ∀ (l : List (Item × P)) {s : Store P}, s.WF →
    CrOut (DQ.pushAllF fuse l s) (PQ.DQ.pushAll l s) (fun s' => s'.WF) := by
  intro l
  induction l with
  | nil => intro s h; exact cr_pure _ _
  | cons e l ih =>
    intro s h
    simp only [DQ.pushAllF, PQ.DQ.pushAll]
    obtain ⟨s1, h1, h1wf, _⟩ := PQ.DQ.push_safe h e.1 e.2
    refine ((cr_dq_pushF fuse h e.1 e.2).mono (fun _ hs => hs.1)).bind ?_
    rintro ⟨s2, r⟩ h2
    rw [h1] at h2; cases h2
    exact ih h1wf

/-- **`DQ.extendF`**, both strategies -/
theorem cr_dq_extendF (fuse : Nat) {s : Store P} (h : s.WF) (lo : Nat) (xs : Array (Item × P)) :
    CrOut (DQ.extendF fuse s lo xs) (PQ.DQ.extend s lo xs) (fun s' => s'.WF) := by
  unfold DQ.extendF PQ.DQ.extend
  refine cr_bind_lift (fun _ _ => ?_)
  dsimp only
  cases (if lo ≠ 0 then betterToRebuild s.size lo else false) with
  | true =>
    simp only [if_true]
    exact (cr_dq_heapBuildF fuse (wf_extend h xs)).mono (fun _ hs => hs.1)
  | false =>
    simp only [Bool.false_eq_true, if_false]
    exact cr_dq_pushAllF fuse xs.toList h

/-- **`DQ.iterMutDropF`** -/
theorem cr_dq_iterMutDropF (fuse : Nat) {s : Store P} (h : s.WF) (prog : List (ICall × IMWrite P)) :
    CrOut (DQ.iterMutDropF fuse s prog)
      (do let (outs, m) ← iterMutRun .dpq s.map.size prog PIterMut.new (DIterMut.new s.map.size) s.map
          let s' ← PQ.DQ.heapBuild { s with map := m }
          pure (s', outs))
      (fun s' => s'.WF ∧ s'.size = s.size) := by
  unfold DQ.iterMutDropF
  obtain ⟨outs, m', hrun, hwf1, _⟩ := hist_iterMutRun_wf h .dpq prog
  dsimp only
  refine cr_bind_lift ?_
  rintro ⟨o, m⟩ h1
  rw [hrun] at h1; cases h1
  dsimp only
  refine ((cr_dq_heapBuildF fuse hwf1).mono ?_).bind (fun _ _ => cr_pure _ _)
  rintro s' ⟨a, _, c⟩; exact ⟨a, c⟩

/-! ## Histories: one fused operation on a queue -/

omit [LT P] [DecidableLT P] [LE P] [Std.IsLinearPreorder P] [Std.LawfulOrderLT P] in
/-- lifting a plain result to the queue level does not depend on the kind tag -/
theorem cr_liftQ_liftR {α : Type} (k k' : Kind) (y : R α) : (liftQ k (liftR y) : CRQ P α) = liftQ k' (liftR y) := by
  cases y <;> rfl

omit [LE P] [Std.IsLinearPreorder P] [Std.LawfulOrderLT P] in
/-- a fused store-level computation followed by a pure repackaging, at the queue level -/
theorem cr_liftQ_bind {α β : Type} {x : CR P α} {y : R α} {W : Store P → Prop} (k : Kind) (h : CrOut x y W)
    {f : α → CRQ P β} {g : α → R β} (hfg : ∀ a, f a = liftQ k (liftR (g a))) :
    (liftQ k x >>= f) = liftQ k (liftR (y >>= g)) ∨
      ∃ s', (liftQ k x >>= f) = .error (.crashed ⟨k, s'⟩) ∧ W s' := by
  rcases h with h | ⟨s', h, hw⟩
  · left
    rw [h]
    cases y with
    | error e => rfl
    | ok a => exact hfg a
  · right; rw [h]; exact ⟨s', rfl, hw⟩

omit [LE P] [Std.IsLinearPreorder P] [Std.LawfulOrderLT P] in
/-- the same for a constructor twin (`asNew`) -/
theorem cr_liftQ_bind_new {α β : Type} {x : CR P α} {y : R α} (k : Kind)
    (h : x = liftR y ∨ x = .error .crashedNew)
    {f : α → CRQ P β} {g : α → R β} (hfg : ∀ a, f a = liftQ k (liftR (g a))) :
    (liftQ k x >>= f) = liftQ k (liftR (y >>= g)) ∨ (liftQ k x >>= f) = .error .crashedNew := by
  rcases h with h | h
  · left
    rw [h]
    cases y with
    | error e => rfl
    | ok a => exact hfg a
  · right; rw [h]; rfl

/-- the three possible outcomes of a fused operation on a queue: it is the plain operation, or it crashed into a queue `q'`
with `W q'`, or it crashed while building a fresh queue (the old one is untouched) -/
def StepOut (x : CRQ P (Q P × Out P)) (y : R (Q P × Out P)) (k : Kind) (W : Q P → Prop) : Prop :=
  x = liftQ k (liftR y) ∨ (∃ q', x = .error (.crashed q') ∧ W q') ∨ x = .error .crashedNew

omit [LE P] [Std.IsLinearPreorder P] [Std.LawfulOrderLT P] in
theorem cr_stepOut_of {x : CRQ P (Q P × Out P)} {y : R (Q P × Out P)} {k k' : Kind} {W : Store P → Prop}
    (h : x = liftQ k (liftR y) ∨ ∃ s', x = .error (.crashed ⟨k, s'⟩) ∧ W s') (hW : ∀ s', W s' → s'.WF) :
    StepOut x y k' QWF := by
  rcases h with h | ⟨s', h, hw⟩
  · left; rw [h]; exact cr_liftQ_liftR k k' y
  · right; left; exact ⟨⟨k, s'⟩, h, hW s' hw⟩

omit [LE P] [Std.IsLinearPreorder P] [Std.LawfulOrderLT P] in
theorem cr_stepOut_of_new {x : CRQ P (Q P × Out P)} {y : R (Q P × Out P)} {k : Kind}
    (h : x = liftQ k (liftR y) ∨ x = .error .crashedNew) : StepOut x y k QWF := by
  rcases h with h | h
  · left; exact h
  · right; right; exact h

/-- **One fused operation**: on a well-formed queue, a legal operation run with any fuse either is the plain operation, or
crashes into a well-formed queue, or (constructors only) drops the fresh queue and leaves the old one untouched. -/
theorem cr_stepF_out (fuse : Nat) {q : Q P} {op : Op P} (hq : QWF q) (hl : op.Legal) :
    StepOut (stepF fuse q op) (step q op) q.kind QWF := by
  obtain ⟨k, s⟩ := q
  have h : s.WF := hq
  cases op with
  | push it p =>
    cases k
    · exact cr_stepOut_of (cr_liftQ_bind .pq (cr_pq_pushF fuse h it p) (fun _ => rfl)) (fun _ hs => hs.1)
    · exact cr_stepOut_of (cr_liftQ_bind .dpq (cr_dq_pushF fuse h it p) (fun _ => rfl)) (fun _ hs => hs.1)
  | pushIncrease it p =>
    cases k
    · exact cr_stepOut_of (cr_liftQ_bind .pq (cr_pq_pushIncreaseF fuse h it p) (fun _ => rfl)) (fun _ hs => hs.1)
    · exact cr_stepOut_of (cr_liftQ_bind .dpq (cr_dq_pushIncreaseF fuse h it p) (fun _ => rfl)) (fun _ hs => hs.1)
  | pushDecrease it p =>
    cases k
    · exact cr_stepOut_of (cr_liftQ_bind .pq (cr_pq_pushDecreaseF fuse h it p) (fun _ => rfl)) (fun _ hs => hs.1)
    · exact cr_stepOut_of (cr_liftQ_bind .dpq (cr_dq_pushDecreaseF fuse h it p) (fun _ => rfl)) (fun _ hs => hs.1)
  | changePriority key p =>
    cases k
    · exact cr_stepOut_of (cr_liftQ_bind .pq (cr_pq_changePriorityF fuse h key p) (fun _ => rfl)) (fun _ hs => hs.1)
    · exact cr_stepOut_of (cr_liftQ_bind .dpq (cr_dq_changePriorityF fuse h key p) (fun _ => rfl)) (fun _ hs => hs.1)
  | changePriorityBy key g =>
    cases k
    · exact cr_stepOut_of (cr_liftQ_bind .pq (cr_pq_changePriorityByF fuse h key g) (fun _ => rfl)) (fun _ hs => hs.1)
    · exact cr_stepOut_of (cr_liftQ_bind .dpq (cr_dq_changePriorityByF fuse h key g) (fun _ => rfl)) (fun _ hs => hs.1)
  | remove key =>
    cases k
    · exact cr_stepOut_of (cr_liftQ_bind .pq (cr_pq_removeF fuse h key) (fun _ => rfl)) (fun _ hs => hs.1)
    · exact cr_stepOut_of (cr_liftQ_bind .dpq (cr_dq_removeF fuse h key) (fun _ => rfl)) (fun _ hs => hs.1)
  | getMut key w => exact Or.inl rfl
  | popFront =>
    cases k
    · exact cr_stepOut_of (cr_liftQ_bind .pq (cr_pq_popF fuse h) (fun _ => rfl)) (fun _ hs => hs.1)
    · exact cr_stepOut_of (cr_liftQ_bind .dpq (cr_dq_popMinF fuse h) (fun _ => rfl)) (fun _ hs => hs.1)
  | popBack =>
    cases k
    · exact Or.inl rfl
    · exact cr_stepOut_of (cr_liftQ_bind .dpq (cr_dq_popMaxF fuse h) (fun _ => rfl)) (fun _ hs => hs.1)
  | popFrontIf f =>
    cases k
    · exact cr_stepOut_of (cr_liftQ_bind .pq (cr_pq_popIfF fuse h f hl) (fun _ => rfl)) (fun _ hs => hs.1)
    · exact cr_stepOut_of (cr_liftQ_bind .dpq (cr_dq_popMinIfF fuse h f hl) (fun _ => rfl)) (fun _ hs => hs.1)
  | popBackIf f =>
    cases k
    · exact Or.inl rfl
    · exact cr_stepOut_of (cr_liftQ_bind .dpq (cr_dq_popMaxIfF fuse h f hl) (fun _ => rfl)) (fun _ hs => hs.1)
  | peekFrontMut w =>
    cases k
    · exact cr_stepOut_of (W := fun _ => False)
        (cr_liftQ_bind .pq (cr_lift (PQ.MaxQ.peekMutWrite s w) _) (fun _ => rfl)) (fun _ hs => hs.elim)
    · exact cr_stepOut_of (W := fun _ => False)
        (cr_liftQ_bind .dpq (cr_lift (PQ.DQ.peekMinMutWrite s w) _) (fun _ => rfl)) (fun _ hs => hs.elim)
  | peekBackMut w =>
    cases k
    · exact Or.inl rfl
    · exact cr_stepOut_of (cr_liftQ_bind .dpq (cr_dq_peekMaxMutWriteF fuse s w) (fun _ => rfl)) (fun _ hs => hs ▸ h)
  | retainMut f =>
    cases k
    · exact cr_stepOut_of (cr_liftQ_bind .pq (cr_pq_retainMutF fuse h f hl) (fun _ => rfl)) (fun _ hs => hs.1)
    · exact cr_stepOut_of (cr_liftQ_bind .dpq (cr_dq_retainMutF fuse h f hl) (fun _ => rfl)) (fun _ hs => hs.1)
  | iterMut leak prog =>
    obtain ⟨outs, m', hrun, hwf1, _⟩ := hist_iterMutRun_wf h k prog
    cases leak with
    | true =>
      left
      show (liftQ k (liftR (iterMutRun k s.map.size prog PIterMut.new (DIterMut.new s.map.size) s.map)) >>= _) =
        liftQ k (liftR (iterMutRun k s.map.size prog PIterMut.new (DIterMut.new s.map.size) s.map >>= _))
      rw [hrun]; rfl
    | false =>
      have e1 : stepF fuse ⟨k, s⟩ (.iterMut false prog) =
          (liftQ k (heapBuildKF fuse k { s with map := m' }) >>= fun s' => pure (⟨k, s'⟩, .outs outs)) := by
        show (liftQ k (liftR (iterMutRun k s.map.size prog PIterMut.new (DIterMut.new s.map.size) s.map)) >>= _) = _
        rw [hrun]; rfl
      have e2 : step ⟨k, s⟩ (.iterMut false prog) =
          (heapBuildK k { s with map := m' } >>= fun s' => pure (⟨k, s'⟩, .outs outs)) := by
        show (iterMutRun k s.map.size prog PIterMut.new (DIterMut.new s.map.size) s.map >>= _) = _
        rw [hrun]; rfl
      rw [e1, e2]
      cases k
      · exact cr_stepOut_of (cr_liftQ_bind .pq (cr_pq_heapBuildF fuse hwf1) (fun _ => rfl)) (fun _ hs => hs.1)
      · exact cr_stepOut_of (cr_liftQ_bind .dpq (cr_dq_heapBuildF fuse hwf1) (fun _ => rfl)) (fun _ hs => hs.1)
  | extend lo xs =>
    cases k
    · exact cr_stepOut_of (cr_liftQ_bind .pq (cr_pq_extendF fuse h lo xs) (fun _ => rfl)) (fun _ hs => hs)
    · exact cr_stepOut_of (cr_liftQ_bind .dpq (cr_dq_extendF fuse h lo xs) (fun _ => rfl)) (fun _ hs => hs)
  | append o =>
    have ho : o.WF := hl
    cases k
    · exact cr_stepOut_of (cr_liftQ_bind .pq (cr_pq_appendF fuse h ho) (fun _ => rfl)) (fun _ hs => hs.1)
    · exact cr_stepOut_of (cr_liftQ_bind .dpq (cr_dq_appendF fuse h ho) (fun _ => rfl)) (fun _ hs => hs.1)
  | fromVec xs =>
    cases k
    · exact cr_stepOut_of_new (cr_liftQ_bind_new .pq (cr_pq_fromVecF fuse xs) (fun _ => rfl))
    · exact cr_stepOut_of_new (cr_liftQ_bind_new .dpq (cr_dq_fromVecF fuse xs) (fun _ => rfl))
  | fromIter lo xs =>
    cases k
    · exact cr_stepOut_of_new (cr_liftQ_bind_new .pq (cr_pq_fromIterF fuse lo xs) (fun _ => rfl))
    · exact cr_stepOut_of_new (cr_liftQ_bind_new .dpq (cr_dq_fromIterF fuse lo xs) (fun _ => rfl))
  | deserialize hint xs =>
    cases k
    · exact cr_stepOut_of_new (cr_liftQ_bind_new .pq (cr_pq_deserializeF fuse hint xs) (fun _ => rfl))
    · exact cr_stepOut_of_new (cr_liftQ_bind_new .dpq (cr_dq_deserializeF fuse hint xs) (fun _ => rfl))
  | convert =>
    cases k
    · exact cr_stepOut_of (cr_liftQ_bind .dpq (cr_dq_ofStoreF fuse h) (fun _ => rfl)) (fun _ hs => hs.1)
    · exact cr_stepOut_of (cr_liftQ_bind .pq (cr_pq_ofStoreF fuse h) (fun _ => rfl)) (fun _ hs => hs.1)
  | clear => exact Or.inl rfl
  | drain => exact Or.inl rfl
  | capacityOp => exact Or.inl rfl

/-- **Target (A), histories.**  A legal operation on a well-formed queue, run with ANY fuse: a normal return leaves a
well-formed queue (it is the plain operation's return), a crash leaves a well-formed queue, and there is no model fault. -/
theorem cr_stepF_wf (fuse : Nat) {q : Q P} {op : Op P} (hq : QWF q) (hl : op.Legal) :
    (∀ q' o, stepF fuse q op = .ok (q', o) → QWF q') ∧
    (∀ q', stepF fuse q op = .error (.crashed q') → QWF q') ∧
    (∀ f, stepF fuse q op ≠ .error (.fault f)) := by
  obtain ⟨q1, o1, hs, hwf⟩ := hist_step_safe hq hl
  rcases cr_stepF_out fuse hq hl with h | ⟨q', h, hw⟩ | h
  · rw [h, hs]
    refine ⟨fun q' o e => ?_, fun q' e => ?_, fun f e => ?_⟩ <;> cases e
    exact hwf
  · rw [h]
    refine ⟨fun q' o e => ?_, fun q'' e => ?_, fun f e => ?_⟩ <;> cases e
    exact hw
  · rw [h]
    refine ⟨fun q' o e => ?_, fun q'' e => ?_, fun f e => ?_⟩ <;> cases e

/-- a normal return of the fused operation is the return of the plain operation -/
theorem cr_stepF_ok (fuse : Nat) {q : Q P} {op : Op P} (hq : QWF q) (hl : op.Legal) {r : Q P × Out P}
    (hr : stepF fuse q op = .ok r) : step q op = .ok r := by
  obtain ⟨q1, o1, hs, hwf⟩ := hist_step_safe hq hl
  rcases cr_stepF_out fuse hq hl with h | ⟨q', h, hw⟩ | h
  · rw [h, hs] at hr; cases hr; exact hs
  · rw [h] at hr; cases hr
  · rw [h] at hr; cases hr

/-- whatever queue the caller holds after the operation stopped (`StopQ.survivor`: the crashed queue, or the old queue when a
fresh one was being built) is well-formed -/
theorem cr_survivor_wf (fuse : Nat) {q : Q P} {op : Op P} (hq : QWF q) (hl : op.Legal) {e : StopQ P}
    (he : stepF fuse q op = .error e) : ∃ q', e.survivor q = some q' ∧ QWF q' := by
  obtain ⟨_, h2, h3⟩ := cr_stepF_wf fuse hq hl
  cases e with
  | fault f => exact absurd he (h3 f)
  | crashed q' => exact ⟨q', rfl, h2 q' he⟩
  | crashedNew => exact ⟨q, rfl, hq⟩

/-! ## Sequences of operations, each with its own fuse -/

/-- run a sequence of operations, the `j`-th with fuse `prog[j].1`; whenever a fuse fires the run continues from the queue
that survives the crash (the crashed queue, or the old one if a fresh queue was being built); a model fault stops the run.
Returns the final queue and the number of crashes. -/
def runF (q : Q P) : List (Nat × Op P) → Except Fault (Q P × Nat)
  | [] => .ok (q, 0)
  | (fuse, op) :: rest =>
    match stepF fuse q op with
    | .ok (q', _) => runF q' rest
    | .error (.crashed q') => (runF q' rest).map fun r => (r.1, r.2 + 1)
    | .error .crashedNew => (runF q rest).map fun r => (r.1, r.2 + 1)
    | .error (.fault f) => .error f

/-- any sequence of legal operations with arbitrary fuses, from a well-formed queue: no model fault, well-formed at the end -/
theorem cr_runF_wf (prog : List (Nat × Op P)) : ∀ {q : Q P}, QWF q → (∀ x ∈ prog, x.2.Legal) →
    ∃ q' n, runF q prog = .ok (q', n) ∧ QWF q' := by
  induction prog with
  | nil => intro q hq _; exact ⟨q, 0, rfl, hq⟩
  | cons x rest ih =>
    intro q hq hl
    obtain ⟨fuse, op⟩ := x
    have hlop : op.Legal := hl (fuse, op) List.mem_cons_self
    have hlr : ∀ x ∈ rest, x.2.Legal := fun x hx => hl x (List.mem_cons_of_mem _ hx)
    obtain ⟨h1, h2, h3⟩ := cr_stepF_wf fuse hq hlop
    simp only [runF]
    cases hs : stepF fuse q op with
    | ok r =>
      obtain ⟨q1, o⟩ := r
      exact ih (h1 q1 o hs) hlr
    | error e =>
      cases e with
      | fault f => exact absurd hs (h3 f)
      | crashed q1 =>
        obtain ⟨q', n, hr, hw⟩ := ih (h2 q1 hs) hlr
        exact ⟨q', n + 1, by simp only [hr, Except.map], hw⟩
      | crashedNew =>
        obtain ⟨q', n, hr, hw⟩ := ih hq hlr
        exact ⟨q', n + 1, by simp only [hr, Except.map], hw⟩

/-! ## The three clauses of target (A), spelled out

For every twin, `cr_three_post (cr_… : CrOut (fF fuse …) (f …) Q) (the plain *_safe lemma)` gives: a normal return satisfies the
postcondition of the plain function, a crash state satisfies `Q`, and there is neither a model fault nor `crashedNew`.
Spelled out for one twin of each sort (swap-based loop, hole loop, public operation of either kind). -/

omit [LE P] [Std.IsLinearPreorder P] [Std.LawfulOrderLT P] in
theorem cr_three_post {α : Type} {x : CR P α} {y : R α} {W : Store P → Prop} {post : α → Prop} (h : CrOut x y W)
    (hy : ∃ r, y = .ok r ∧ post r) :
    (∀ r, x = .ok r → post r) ∧ (∀ s', x = .error (.crashed s') → W s') ∧ (∀ f, x ≠ .error (.fault f)) ∧
      x ≠ .error .crashedNew := by
  obtain ⟨r, hr, hp⟩ := hy
  obtain ⟨h1, h2, h3, h4⟩ := cr_three h hr
  exact ⟨fun r' e => (h1 r' e) ▸ hp, h2, h3, h4⟩

theorem cr_pq_heapifyLoopF_three (fuse fuel : Nat) {s : Store P} {i : Nat} (h : s.WF) (hi : i < s.size)
    (hf : s.size - i ≤ fuel) :
    (∀ r, MaxQ.heapifyLoopF fuse fuel s i = .ok r → r.WF ∧ r.map = s.map ∧ r.size = s.size) ∧
    (∀ s', MaxQ.heapifyLoopF fuse fuel s i = .error (.crashed s') → s'.WF ∧ s'.map = s.map ∧ s'.size = s.size) ∧
    (∀ f, MaxQ.heapifyLoopF fuse fuel s i ≠ .error (.fault f)) ∧
    MaxQ.heapifyLoopF fuse fuel s i ≠ .error .crashedNew :=
  cr_three_post (cr_pq_heapifyLoopF fuse fuel s i h hi hf) (PQ.MaxQ.heapifyLoop_safe fuel s i h hi hf)

theorem cr_pq_bubbleUpLoopF_three (fuse : Nat) (v : P) {n idx fuel : Nat} {s : Store P} {hole : Nat}
    (h : s.HoleTWF n hole idx) (hf : hole + 1 ≤ fuel) :
    (∀ r, MaxQ.bubbleUpLoopF fuse idx fuel s hole v = .ok r → r.1.HoleTWF n r.2 idx ∧ r.1.map = s.map ∧
        r.1.size = s.size ∧ r.2 ≤ hole) ∧
    (∀ s', MaxQ.bubbleUpLoopF fuse idx fuel s hole v = .error (.crashed s') → s'.TWF n ∧ s'.map = s.map ∧
        s'.size = s.size) ∧
    (∀ f, MaxQ.bubbleUpLoopF fuse idx fuel s hole v ≠ .error (.fault f)) ∧
    MaxQ.bubbleUpLoopF fuse idx fuel s hole v ≠ .error .crashedNew := by
  refine cr_three_post (cr_pq_bubbleUpLoopF fuse v n idx fuel s hole h hf) ?_
  obtain ⟨s', pos, h1, h2, h3, h4, h5⟩ := PQ.MaxQ.bubbleUpLoop_tables v n idx fuel s hole h hf
  exact ⟨(s', pos), h1, h2, h3, h4, h5⟩

/-- `pushF` on a well-formed store: normal return = the postcondition of `push_safe`; crash ⇒ well-formed, and **for a new
item `size = s.size + 1`**; no fault -/
theorem cr_pq_pushF_three (fuse : Nat) {s : Store P} (h : s.WF) (it : Item) (p : P) :
    (∀ r, MaxQ.pushF fuse s it p = .ok r → r.1.WF ∧ r.1.abs = absPush s.abs it p ∧ r.2 = (s.abs it.key).map (·.2) ∧
        r.1.size = if (s.abs it.key).isSome then s.size else s.size + 1) ∧
    (∀ s', MaxQ.pushF fuse s it p = .error (.crashed s') → s'.WF ∧
        s'.size = if (s.abs it.key).isSome then s.size else s.size + 1) ∧
    (∀ f, MaxQ.pushF fuse s it p ≠ .error (.fault f)) ∧ MaxQ.pushF fuse s it p ≠ .error .crashedNew := by
  refine cr_three_post (cr_pq_pushF fuse h it p) ?_
  obtain ⟨s', h1, h2, h3, h4⟩ := PQ.MaxQ.push_safe h it p
  exact ⟨_, h1, h2, h3, rfl, h4⟩

theorem cr_dq_pushF_three (fuse : Nat) {s : Store P} (h : s.WF) (it : Item) (p : P) :
    (∀ r, DQ.pushF fuse s it p = .ok r → r.1.WF ∧ r.1.abs = absPush s.abs it p ∧ r.2 = (s.abs it.key).map (·.2) ∧
        r.1.size = if (s.abs it.key).isSome then s.size else s.size + 1) ∧
    (∀ s', DQ.pushF fuse s it p = .error (.crashed s') → s'.WF ∧
        s'.size = if (s.abs it.key).isSome then s.size else s.size + 1) ∧
    (∀ f, DQ.pushF fuse s it p ≠ .error (.fault f)) ∧ DQ.pushF fuse s it p ≠ .error .crashedNew := by
  refine cr_three_post (cr_dq_pushF fuse h it p) ?_
  obtain ⟨s', h1, h2, h3, h4⟩ := PQ.DQ.push_safe h it p
  exact ⟨_, h1, h2, h3, rfl, h4⟩

/-- a crashed `pushF` of a NEW item has already counted it -/
theorem cr_pq_pushF_new_size (fuse : Nat) {s s' : Store P} (h : s.WF) {it : Item} {p : P} (hn : s.abs it.key = none)
    (hc : MaxQ.pushF fuse s it p = .error (.crashed s')) : s'.WF ∧ s'.size = s.size + 1 := by
  have := (cr_pq_pushF_three fuse h it p).2.1 s' hc
  rw [hn] at this; exact this

theorem cr_dq_pushF_new_size (fuse : Nat) {s s' : Store P} (h : s.WF) {it : Item} {p : P} (hn : s.abs it.key = none)
    (hc : DQ.pushF fuse s it p = .error (.crashed s')) : s'.WF ∧ s'.size = s.size + 1 := by
  have := (cr_dq_pushF_three fuse h it p).2.1 s' hc
  rw [hn] at this; exact this

end Safe

/-! ## Target (B): with the fuse off the twins are the plain functions (no hypothesis at all) -/
section Erasure
variable {P : Type} [LT P] [DecidableLT P]

theorem cr_er_ite {α : Type} (c : Prop) [Decidable c] (a b : R α) :
    (liftR (if c then a else b) : CR P α) = if c then liftR a else liftR b := by
  split <;> rfl

theorem cr_er_bind {α β : Type} {x : CR P α} {y : R α} {f : α → CR P β} {g : α → R β} (hx : x = liftR y)
    (h : ∀ a, f a = liftR (g a)) : (x >>= f) = liftR (y >>= g) := by
  rw [hx]
  cases y with
  | error e => rfl
  | ok a => exact h a

theorem cr_er_asNew {α : Type} (y : R α) : asNew (liftR y : CR P α) = liftR y := by
  cases y <;> rfl

/-! ### `priority_queue/mod.rs` -/

theorem cr_er_pq_pickLargestF (s : Store P) (i : Nat) :
    MaxQ.pickLargestF 0 s i = liftR (PQ.MaxQ.pickLargest s i) := by
  unfold MaxQ.pickLargestF PQ.MaxQ.pickLargest
  simp only [liftR_bind, liftR_pure, cr_er_ite, cmpF_zero, cr_ok_bind, decide_eq_true_eq]

theorem cr_er_pq_heapifyLoopF (fuel : Nat) : ∀ (s : Store P) (i : Nat),
    MaxQ.heapifyLoopF 0 fuel s i = liftR (PQ.MaxQ.heapifyLoop fuel s i) := by
  induction fuel with
  | zero => intro s i; rfl
  | succ fuel ih =>
    intro s i
    simp only [MaxQ.heapifyLoopF, PQ.MaxQ.heapifyLoop, cr_er_pq_pickLargestF, ih, liftR_bind, liftR_pure, cr_er_ite]

theorem cr_er_pq_heapifyF (s : Store P) (i : Nat) : MaxQ.heapifyF 0 s i = liftR (PQ.MaxQ.heapify s i) := by
  simp only [MaxQ.heapifyF, PQ.MaxQ.heapify, cr_er_pq_heapifyLoopF, liftR_pure, cr_er_ite]

theorem cr_er_pq_bubbleUpLoopF (mp : Nat) (fuel : Nat) : ∀ (s : Store P) (pos : Nat) (v : P),
    MaxQ.bubbleUpLoopF 0 mp fuel s pos v = liftR (PQ.MaxQ.bubbleUpLoop fuel s pos v) := by
  induction fuel with
  | zero => intro s i v; rfl
  | succ fuel ih =>
    intro s i v
    simp only [MaxQ.bubbleUpLoopF, PQ.MaxQ.bubbleUpLoop, ih, liftR_bind, liftR_pure, cr_er_ite, cmpHoleF_zero,
      cr_ok_bind, decide_eq_true_eq]

theorem cr_er_pq_bubbleUpF (s : Store P) (i idx : Nat) :
    MaxQ.bubbleUpF 0 s i idx = liftR (PQ.MaxQ.bubbleUp s i idx) := by
  simp only [MaxQ.bubbleUpF, PQ.MaxQ.bubbleUp, cr_er_pq_bubbleUpLoopF, liftR_bind, liftR_pure]

theorem cr_er_pq_upHeapifyF (s : Store P) (i : Nat) : MaxQ.upHeapifyF 0 s i = liftR (PQ.MaxQ.upHeapify s i) := by
  simp only [MaxQ.upHeapifyF, PQ.MaxQ.upHeapify, cr_er_pq_bubbleUpF, cr_er_pq_heapifyF, liftR_bind, liftR_pure]

theorem cr_er_pq_heapBuildLoopF : ∀ (k : Nat) (s : Store P),
    MaxQ.heapBuildLoopF 0 s k = liftR (PQ.MaxQ.heapBuildLoop s k) := by
  intro k
  induction k with
  | zero => intro s; simp only [MaxQ.heapBuildLoopF, PQ.MaxQ.heapBuildLoop, cr_er_pq_heapifyF]
  | succ k ih =>
    intro s
    simp only [MaxQ.heapBuildLoopF, PQ.MaxQ.heapBuildLoop, cr_er_pq_heapifyF, ih, liftR_bind]

theorem cr_er_pq_heapBuildF (s : Store P) : MaxQ.heapBuildF 0 s = liftR (PQ.MaxQ.heapBuild s) := by
  simp only [MaxQ.heapBuildF, PQ.MaxQ.heapBuild, cr_er_pq_heapBuildLoopF, liftR_bind, liftR_pure, cr_er_ite]

theorem cr_er_pq_popF (s : Store P) : MaxQ.popF 0 s = liftR (PQ.MaxQ.pop s) := by
  unfold MaxQ.popF PQ.MaxQ.pop
  generalize s.size = n
  match n with
  | 0 => rfl
  | 1 => rfl
  | n + 2 =>
    dsimp only
    refine cr_er_bind rfl ?_
    rintro ⟨s1, r⟩
    simp only [cr_er_pq_heapifyF, liftR_bind, liftR_pure]

theorem cr_er_pq_popIfF (s : Store P) (f : Item → P → Bool × Item × P) :
    MaxQ.popIfF 0 s f = liftR (PQ.MaxQ.popIf s f) := by
  unfold MaxQ.popIfF PQ.MaxQ.popIf
  generalize s.size = n
  match n with
  | 0 => rfl
  | 1 => rfl
  | n + 2 =>
    dsimp only
    refine cr_er_bind rfl ?_
    rintro ⟨s1, r⟩
    simp only [cr_er_pq_heapifyF, liftR_bind, liftR_pure]

/-- `bubble_up` keeps `size` (consequence of its not reading it) -/
theorem cr_pq_bubbleUp_size_eq {s s' : Store P} {i idx pos : Nat} (h : PQ.MaxQ.bubbleUp s i idx = .ok (s', pos)) :
    s'.size = s.size := by
  have h2 : PQ.MaxQ.bubbleUp s i idx = (PQ.MaxQ.bubbleUp s i idx).map (fun r => ({ r.1 with size := s.size }, r.2)) :=
    cr_pq_bubbleUp_size s.size s i idx
  rw [h] at h2
  simp only [Except.map] at h2
  have h3 := congrArg (fun r : R (Store P × Nat) => match r with | .ok x => x.1.size | .error _ => 0) h2
  exact h3

/-- **`pushF`**: the one intended difference to `push` — `size` is bumped before the sift-up instead of after it — does not
show in the result, because `bubble_up` neither reads nor writes `size` -/
theorem cr_er_pq_pushF (s : Store P) (it : Item) (p : P) : MaxQ.pushF 0 s it p = liftR (PQ.MaxQ.push s it p) := by
  unfold MaxQ.pushF PQ.MaxQ.push
  generalize s.map.insertFull it p = t
  obtain ⟨map, idx, old⟩ := t
  cases old with
  | some oldp =>
    simp only [cr_er_pq_upHeapifyF, liftR_bind, liftR_pure]
  | none =>
    have key : ∀ t0 : Store P, (MaxQ.bubbleUpF 0 { t0 with size := t0.size + 1 } t0.size t0.size >>=
          fun (x : Store P × Nat) => (pure (x.1, none) : CR P (Store P × Option P))) =
        liftR (PQ.MaxQ.bubbleUp t0 t0.size t0.size >>=
          fun (x : Store P × Nat) => (pure ({ x.1 with size := x.1.size + 1 }, none) : R (Store P × Option P))) := by
      intro t0
      rw [cr_er_pq_bubbleUpF, cr_pq_bubbleUp_size]
      cases hb : PQ.MaxQ.bubbleUp t0 t0.size t0.size with
      | error e => rfl
      | ok r =>
        obtain ⟨s3, pos⟩ := r
        have hsz : s3.size = t0.size := cr_pq_bubbleUp_size_eq hb
        simp only [Except.map, liftR_ok, cr_ok_bind, liftR_pure, cr_pure_eq, hsz]
    exact key { map := map, heap := s.heap.push s.size, qp := s.qp.push s.size, size := s.size, ticks := s.ticks }

theorem cr_er_pq_pushIncreaseF (s : Store P) (it : Item) (p : P) :
    MaxQ.pushIncreaseF 0 s it p = liftR (PQ.MaxQ.pushIncrease s it p) := by
  unfold MaxQ.pushIncreaseF PQ.MaxQ.pushIncrease
  cases s.getPriority it.key with
  | none => exact cr_er_pq_pushF s it p
  | some q =>
    simp only [cmpF_zero, cr_ok_bind, decide_eq_true_eq, cr_er_pq_pushF, cr_er_ite, liftR_pure]

theorem cr_er_pq_pushDecreaseF (s : Store P) (it : Item) (p : P) :
    MaxQ.pushDecreaseF 0 s it p = liftR (PQ.MaxQ.pushDecrease s it p) := by
  unfold MaxQ.pushDecreaseF PQ.MaxQ.pushDecrease
  cases s.getPriority it.key with
  | none => exact cr_er_pq_pushF s it p
  | some q =>
    simp only [cmpF_zero, cr_ok_bind, decide_eq_true_eq, cr_er_pq_pushF, cr_er_ite, liftR_pure]

theorem cr_er_pq_changePriorityF (s : Store P) (k : Nat) (p : P) :
    MaxQ.changePriorityF 0 s k p = liftR (PQ.MaxQ.changePriority s k p) := by
  unfold MaxQ.changePriorityF PQ.MaxQ.changePriority
  refine cr_er_bind rfl ?_
  rintro ⟨s1, r⟩
  cases r with
  | none => rfl
  | some x => simp only [cr_er_pq_upHeapifyF, liftR_bind, liftR_pure]

theorem cr_er_pq_changePriorityByF (s : Store P) (k : Nat) (g : P → P) :
    MaxQ.changePriorityByF 0 s k g = liftR (PQ.MaxQ.changePriorityBy s k g) := by
  unfold MaxQ.changePriorityByF PQ.MaxQ.changePriorityBy
  refine cr_er_bind rfl ?_
  rintro ⟨s1, r⟩
  cases r with
  | none => rfl
  | some x => simp only [cr_er_pq_upHeapifyF, liftR_bind, liftR_pure]

theorem cr_er_pq_removeF (s : Store P) (k : Nat) : MaxQ.removeF 0 s k = liftR (PQ.MaxQ.remove s k) := by
  unfold MaxQ.removeF PQ.MaxQ.remove
  refine cr_er_bind rfl ?_
  rintro ⟨s1, r⟩
  cases r with
  | none => rfl
  | some x => simp only [cr_er_pq_upHeapifyF, liftR_bind, liftR_pure, cr_er_ite]

theorem cr_er_pq_retainMutF (s : Store P) (f : Item → P → Bool × Item × P) :
    MaxQ.retainMutF 0 s f = liftR (PQ.MaxQ.retainMut s f) := cr_er_pq_heapBuildF _

theorem cr_er_pq_appendF (s o : Store P) : MaxQ.appendF 0 s o = liftR (PQ.MaxQ.append s o) := by
  simp only [MaxQ.appendF, PQ.MaxQ.append, cr_er_pq_heapBuildF, liftR_bind, liftR_pure]

theorem cr_er_pq_ofStoreF (s : Store P) : MaxQ.ofStoreF 0 s = liftR (PQ.MaxQ.ofStore s) := cr_er_pq_heapBuildF _

theorem cr_er_pq_fromVecF (v : Array (Item × P)) : MaxQ.fromVecF 0 v = liftR (PQ.MaxQ.fromVec v) := by
  simp only [MaxQ.fromVecF, PQ.MaxQ.fromVec, cr_er_pq_heapBuildF, cr_er_asNew]

theorem cr_er_pq_fromIterF (lo : Nat) (xs : Array (Item × P)) :
    MaxQ.fromIterF 0 lo xs = liftR (PQ.MaxQ.fromIter lo xs) := by
  simp only [MaxQ.fromIterF, PQ.MaxQ.fromIter, cr_er_pq_heapBuildF, cr_er_asNew, liftR_bind]

theorem cr_er_pq_deserializeF (hint : Option Nat) (xs : Array (Item × P)) :
    MaxQ.deserializeF 0 hint xs = liftR (PQ.MaxQ.deserialize hint xs) := by
  cases hint <;>
    simp only [MaxQ.deserializeF, PQ.MaxQ.deserialize, cr_er_pq_heapBuildF, cr_er_asNew, liftR_bind, reserveC_min_4096] <;> rfl

theorem cr_er_pq_pushAllF : ∀ (l : List (Item × P)) (s : Store P),
    MaxQ.pushAllF 0 l s = liftR (PQ.MaxQ.pushAll l s) := by
  intro l
  induction l with
  | nil => intro s; rfl
  | cons e l ih =>
    intro s
    simp only [MaxQ.pushAllF, PQ.MaxQ.pushAll, cr_er_pq_pushF, ih, liftR_bind]

theorem cr_er_pq_extendF (s : Store P) (lo : Nat) (xs : Array (Item × P)) :
    MaxQ.extendF 0 s lo xs = liftR (PQ.MaxQ.extend s lo xs) := by
  simp only [MaxQ.extendF, PQ.MaxQ.extend, cr_er_pq_heapBuildF, cr_er_pq_pushAllF, cr_er_ite, liftR_bind]

theorem cr_er_pq_iterMutDropF (s : Store P) (prog : List (ICall × IMWrite P)) :
    MaxQ.iterMutDropF 0 s prog =
      liftR (do let (outs, m) ← iterMutRun .pq s.map.size prog PIterMut.new (DIterMut.new s.map.size) s.map
                let s' ← PQ.MaxQ.heapBuild { s with map := m }
                pure (s', outs)) := by
  simp only [MaxQ.iterMutDropF, cr_er_pq_heapBuildF, liftR_bind, liftR_pure]

/-! ### `double_priority_queue/mod.rs` -/

theorem cr_er_dq_minFoldF : ∀ (ys : List (Nat × P)) (s : Store P) (acc : Nat × P),
    DQ.minFoldF 0 ys s acc = .ok (s.tick ys.length, ys.foldl (fun acc y => if y.2 < acc.2 then y else acc) acc) := by
  intro ys
  induction ys with
  | nil => intro s acc; rfl
  | cons y ys ih =>
    intro s acc
    simp only [DQ.minFoldF, cmpF_zero, cr_ok_bind, ih, decide_eq_true_eq, List.foldl_cons, List.length_cons, tick_tick]
    rw [Nat.add_comm]

theorem cr_er_dq_maxFoldF : ∀ (ys : List (Nat × P)) (s : Store P) (acc : Nat × P),
    DQ.maxFoldF 0 ys s acc = .ok (s.tick ys.length, ys.foldl (fun acc y => if y.2 < acc.2 then acc else y) acc) := by
  intro ys
  induction ys with
  | nil => intro s acc; rfl
  | cons y ys ih =>
    intro s acc
    simp only [DQ.maxFoldF, cmpF_zero, cr_ok_bind, ih, decide_eq_true_eq, List.foldl_cons, List.length_cons, tick_tick]
    rw [Nat.add_comm]

/-- the threaded fold of `minByKeyF` is the plain `min_by_key` plus `length - 1` ticks (what the plain model ticks at once) -/
theorem cr_er_dq_minByKeyF (s : Store P) (cs : List (Nat × P)) :
    DQ.minByKeyF 0 s cs = .ok (s.tick (cs.length - 1), PQ.DQ.minByKey cs) := by
  cases cs with
  | nil => rfl
  | cons x xs => simp only [DQ.minByKeyF, PQ.DQ.minByKey, cr_er_dq_minFoldF, cr_ok_bind, List.length_cons,
      Nat.add_sub_cancel, cr_pure_eq]

theorem cr_er_dq_maxByKeyF (s : Store P) (cs : List (Nat × P)) :
    DQ.maxByKeyF 0 s cs = .ok (s.tick (cs.length - 1), PQ.DQ.maxByKey cs) := by
  cases cs with
  | nil => rfl
  | cons x xs => simp only [DQ.maxByKeyF, PQ.DQ.maxByKey, cr_er_dq_maxFoldF, cr_ok_bind, List.length_cons,
      Nat.add_sub_cancel, cr_pure_eq]

theorem cr_er_dq_heapifyMinLoopF (fuel : Nat) : ∀ (s : Store P) (i : Nat),
    DQ.heapifyMinLoopF 0 fuel s i = liftR (PQ.DQ.heapifyMinLoop fuel s i) := by
  induction fuel with
  | zero => intro s i; rfl
  | succ fuel ih =>
    intro s i
    simp only [DQ.heapifyMinLoopF, PQ.DQ.heapifyMinLoop, ih, cr_er_dq_minByKeyF, cmpF_zero, cr_ok_bind, liftR_bind,
      liftR_pure, cr_er_ite, decide_eq_true_eq]

theorem cr_er_dq_heapifyMaxLoopF (fuel : Nat) : ∀ (s : Store P) (i : Nat),
    DQ.heapifyMaxLoopF 0 fuel s i = liftR (PQ.DQ.heapifyMaxLoop fuel s i) := by
  induction fuel with
  | zero => intro s i; rfl
  | succ fuel ih =>
    intro s i
    simp only [DQ.heapifyMaxLoopF, PQ.DQ.heapifyMaxLoop, ih, cr_er_dq_maxByKeyF, cmpF_zero, cr_ok_bind, liftR_bind,
      liftR_pure, cr_er_ite, decide_eq_true_eq]

theorem cr_er_dq_heapifyF (s : Store P) (i : Nat) : DQ.heapifyF 0 s i = liftR (PQ.DQ.heapify s i) := by
  simp only [DQ.heapifyF, PQ.DQ.heapify, cr_er_dq_heapifyMinLoopF, cr_er_dq_heapifyMaxLoopF, liftR_pure, cr_er_ite]

theorem cr_er_dq_bubbleUpMinLoopF (mp : Nat) (fuel : Nat) : ∀ (s : Store P) (pos : Nat) (v : P),
    DQ.bubbleUpMinLoopF 0 mp fuel s pos v = liftR (PQ.DQ.bubbleUpMinLoop fuel s pos v) := by
  induction fuel with
  | zero => intro s i v; rfl
  | succ fuel ih =>
    intro s i v
    simp only [DQ.bubbleUpMinLoopF, PQ.DQ.bubbleUpMinLoop, ih, liftR_bind, liftR_pure, cr_er_ite, cmpHoleF_zero,
      cr_ok_bind, decide_eq_true_eq]

theorem cr_er_dq_bubbleUpMaxLoopF (mp : Nat) (fuel : Nat) : ∀ (s : Store P) (pos : Nat) (v : P),
    DQ.bubbleUpMaxLoopF 0 mp fuel s pos v = liftR (PQ.DQ.bubbleUpMaxLoop fuel s pos v) := by
  induction fuel with
  | zero => intro s i v; rfl
  | succ fuel ih =>
    intro s i v
    simp only [DQ.bubbleUpMaxLoopF, PQ.DQ.bubbleUpMaxLoop, ih, liftR_bind, liftR_pure, cr_er_ite, cmpHoleF_zero,
      cr_ok_bind, decide_eq_true_eq]

theorem cr_er_dq_bubbleUpMinF (s : Store P) (i idx : Nat) :
    DQ.bubbleUpMinF 0 s i idx = liftR (PQ.DQ.bubbleUpMin s i idx) := by
  simp only [DQ.bubbleUpMinF, PQ.DQ.bubbleUpMin, cr_er_dq_bubbleUpMinLoopF, liftR_bind]

theorem cr_er_dq_bubbleUpMaxF (s : Store P) (i idx : Nat) :
    DQ.bubbleUpMaxF 0 s i idx = liftR (PQ.DQ.bubbleUpMax s i idx) := by
  simp only [DQ.bubbleUpMaxF, PQ.DQ.bubbleUpMax, cr_er_dq_bubbleUpMaxLoopF, liftR_bind]

theorem cr_er_dq_bubbleUpF (s : Store P) (i idx : Nat) :
    DQ.bubbleUpF 0 s i idx = liftR (PQ.DQ.bubbleUp s i idx) := by
  unfold DQ.bubbleUpF PQ.DQ.bubbleUp
  refine cr_er_bind rfl fun e => ?_
  dsimp only
  by_cases h0 : i > 0
  · simp only [h0, if_true]
    refine cr_er_bind rfl fun pp => ?_
    refine cr_er_bind rfl fun pi => ?_
    simp only [cmpHoleF_zero, cr_ok_bind]
    cases decide (level i % 2 = 0) <;> cases decide (pp < e.2) <;>
      simp only [cr_er_dq_bubbleUpMinF, cr_er_dq_bubbleUpMaxF, liftR_bind, liftR_pure]
  · simp only [h0, if_false, liftR_bind, liftR_pure]

theorem cr_er_dq_upHeapifyF (s : Store P) (i : Nat) : DQ.upHeapifyF 0 s i = liftR (PQ.DQ.upHeapify s i) := by
  unfold DQ.upHeapifyF PQ.DQ.upHeapify
  cases s.heap[i]? with
  | none => rfl
  | some tmp =>
    simp only [cr_er_dq_bubbleUpF, cr_er_dq_heapifyF, liftR_bind, liftR_pure, cr_er_ite]

theorem cr_er_dq_heapBuildLoopF : ∀ (k : Nat) (s : Store P),
    DQ.heapBuildLoopF 0 s k = liftR (PQ.DQ.heapBuildLoop s k) := by
  intro k
  induction k with
  | zero => intro s; simp only [DQ.heapBuildLoopF, PQ.DQ.heapBuildLoop, cr_er_dq_heapifyF]
  | succ k ih =>
    intro s
    simp only [DQ.heapBuildLoopF, PQ.DQ.heapBuildLoop, cr_er_dq_heapifyF, ih, liftR_bind]

theorem cr_er_dq_heapBuildF (s : Store P) : DQ.heapBuildF 0 s = liftR (PQ.DQ.heapBuild s) := by
  simp only [DQ.heapBuildF, PQ.DQ.heapBuild, cr_er_dq_heapBuildLoopF, liftR_bind, liftR_pure, cr_er_ite]

theorem cr_er_dq_findMaxF (s : Store P) : DQ.findMaxF 0 s = liftR (PQ.DQ.findMax s) := by
  unfold DQ.findMaxF PQ.DQ.findMax
  generalize s.size = n
  match n with
  | 0 => rfl
  | 1 => rfl
  | 2 => rfl
  | n + 3 =>
    dsimp only
    simp only [cmpF_zero, cr_ok_bind, liftR_bind, liftR_pure, decide_eq_true_eq]

theorem cr_er_dq_peekMaxF (s : Store P) : DQ.peekMaxF 0 s = liftR (PQ.DQ.peekMax s) := by
  unfold DQ.peekMaxF PQ.DQ.peekMax
  refine cr_er_bind (cr_er_dq_findMaxF s) ?_
  rintro ⟨s1, r⟩
  cases r with
  | none => rfl
  | some i => simp only [liftR_bind, liftR_pure]

theorem cr_er_dq_peekMaxMutWriteF (s : Store P) (w : Item → Item) :
    DQ.peekMaxMutWriteF 0 s w = liftR (PQ.DQ.peekMaxMutWrite s w) := by
  unfold DQ.peekMaxMutWriteF PQ.DQ.peekMaxMutWrite
  refine cr_er_bind (cr_er_dq_findMaxF s) ?_
  rintro ⟨s1, r⟩
  cases r with
  | none => rfl
  | some pos =>
    dsimp only
    refine cr_er_bind rfl fun i => ?_
    cases s1.map.getIndex i <;> rfl

theorem cr_er_dq_popMinF (s : Store P) : DQ.popMinF 0 s = liftR (PQ.DQ.popMin s) := by
  unfold DQ.popMinF PQ.DQ.popMin
  cases PQ.DQ.findMin s with
  | none => rfl
  | some i =>
    dsimp only
    refine cr_er_bind rfl ?_
    rintro ⟨s1, r⟩
    simp only [cr_er_dq_heapifyF, liftR_bind, liftR_pure]

theorem cr_er_dq_popMaxF (s : Store P) : DQ.popMaxF 0 s = liftR (PQ.DQ.popMax s) := by
  unfold DQ.popMaxF PQ.DQ.popMax
  refine cr_er_bind (cr_er_dq_findMaxF s) ?_
  rintro ⟨s1, r⟩
  cases r with
  | none => rfl
  | some i =>
    dsimp only
    refine cr_er_bind rfl ?_
    rintro ⟨s2, r2⟩
    simp only [cr_er_dq_heapifyF, liftR_bind, liftR_pure]

theorem cr_er_dq_popMinIfF (s : Store P) (f : Item → P → Bool × Item × P) :
    DQ.popMinIfF 0 s f = liftR (PQ.DQ.popMinIf s f) := by
  unfold DQ.popMinIfF PQ.DQ.popMinIf
  cases PQ.DQ.findMin s with
  | none => rfl
  | some i =>
    dsimp only
    refine cr_er_bind rfl ?_
    rintro ⟨s1, r⟩
    simp only [cr_er_dq_heapifyF, liftR_bind, liftR_pure]

theorem cr_er_dq_popMaxIfF (s : Store P) (f : Item → P → Bool × Item × P) :
    DQ.popMaxIfF 0 s f = liftR (PQ.DQ.popMaxIf s f) := by
  unfold DQ.popMaxIfF PQ.DQ.popMaxIf
  refine cr_er_bind (cr_er_dq_findMaxF s) ?_
  rintro ⟨s1, r⟩
  cases r with
  | none => rfl
  | some i =>
    dsimp only
    refine cr_er_bind rfl ?_
    rintro ⟨s2, r2⟩
    simp only [cr_er_dq_upHeapifyF, liftR_bind, liftR_pure]

theorem cr_dq_bubbleUp_size_eq {s s' : Store P} {i idx pos : Nat} (h : PQ.DQ.bubbleUp s i idx = .ok (s', pos)) :
    s'.size = s.size := by
  have h2 : PQ.DQ.bubbleUp s i idx = (PQ.DQ.bubbleUp s i idx).map (fun r => ({ r.1 with size := s.size }, r.2)) :=
    cr_dq_bubbleUp_size s.size s i idx
  rw [h] at h2
  simp only [Except.map] at h2
  have h3 := congrArg (fun r : R (Store P × Nat) => match r with | .ok x => x.1.size | .error _ => 0) h2
  exact h3

theorem cr_er_dq_pushF (s : Store P) (it : Item) (p : P) : DQ.pushF 0 s it p = liftR (PQ.DQ.push s it p) := by
  unfold DQ.pushF PQ.DQ.push
  generalize s.map.insertFull it p = t
  obtain ⟨map, idx, old⟩ := t
  cases old with
  | some oldp =>
    simp only [cr_er_dq_upHeapifyF, liftR_bind, liftR_pure]
  | none =>
    have key : ∀ t0 : Store P, (DQ.bubbleUpF 0 { t0 with size := t0.size + 1 } t0.size t0.size >>=
          fun (x : Store P × Nat) => (pure (x.1, none) : CR P (Store P × Option P))) =
        liftR (PQ.DQ.bubbleUp t0 t0.size t0.size >>=
          fun (x : Store P × Nat) => (pure ({ x.1 with size := x.1.size + 1 }, none) : R (Store P × Option P))) := by
      intro t0
      rw [cr_er_dq_bubbleUpF, cr_dq_bubbleUp_size]
      cases hb : PQ.DQ.bubbleUp t0 t0.size t0.size with
      | error e => rfl
      | ok r =>
        obtain ⟨s3, pos⟩ := r
        have hsz : s3.size = t0.size := cr_dq_bubbleUp_size_eq hb
        simp only [Except.map, liftR_ok, cr_ok_bind, liftR_pure, cr_pure_eq, hsz]
    exact key { map := map, heap := s.heap.push s.size, qp := s.qp.push s.size, size := s.size, ticks := s.ticks }

theorem cr_er_dq_pushIncreaseF (s : Store P) (it : Item) (p : P) :
    DQ.pushIncreaseF 0 s it p = liftR (PQ.DQ.pushIncrease s it p) := by
  unfold DQ.pushIncreaseF PQ.DQ.pushIncrease
  cases s.getPriority it.key with
  | none => exact cr_er_dq_pushF s it p
  | some q =>
    simp only [cmpF_zero, cr_ok_bind, decide_eq_true_eq, cr_er_dq_pushF, cr_er_ite, liftR_pure]

theorem cr_er_dq_pushDecreaseF (s : Store P) (it : Item) (p : P) :
    DQ.pushDecreaseF 0 s it p = liftR (PQ.DQ.pushDecrease s it p) := by
  unfold DQ.pushDecreaseF PQ.DQ.pushDecrease
  cases s.getPriority it.key with
  | none => exact cr_er_dq_pushF s it p
  | some q =>
    simp only [cmpF_zero, cr_ok_bind, decide_eq_true_eq, cr_er_dq_pushF, cr_er_ite, liftR_pure]

theorem cr_er_dq_changePriorityF (s : Store P) (k : Nat) (p : P) :
    DQ.changePriorityF 0 s k p = liftR (PQ.DQ.changePriority s k p) := by
  unfold DQ.changePriorityF PQ.DQ.changePriority
  refine cr_er_bind rfl ?_
  rintro ⟨s1, r⟩
  cases r with
  | none => rfl
  | some x => simp only [cr_er_dq_upHeapifyF, liftR_bind, liftR_pure]

theorem cr_er_dq_changePriorityByF (s : Store P) (k : Nat) (g : P → P) :
    DQ.changePriorityByF 0 s k g = liftR (PQ.DQ.changePriorityBy s k g) := by
  unfold DQ.changePriorityByF PQ.DQ.changePriorityBy
  refine cr_er_bind rfl ?_
  rintro ⟨s1, r⟩
  cases r with
  | none => rfl
  | some x => simp only [cr_er_dq_upHeapifyF, liftR_bind, liftR_pure]

theorem cr_er_dq_removeF (s : Store P) (k : Nat) : DQ.removeF 0 s k = liftR (PQ.DQ.remove s k) := by
  unfold DQ.removeF PQ.DQ.remove
  refine cr_er_bind rfl ?_
  rintro ⟨s1, r⟩
  cases r with
  | none => rfl
  | some x => simp only [cr_er_dq_upHeapifyF, liftR_bind, liftR_pure, cr_er_ite]

theorem cr_er_dq_retainMutF (s : Store P) (f : Item → P → Bool × Item × P) :
    DQ.retainMutF 0 s f = liftR (PQ.DQ.retainMut s f) := cr_er_dq_heapBuildF _

theorem cr_er_dq_appendF (s o : Store P) : DQ.appendF 0 s o = liftR (PQ.DQ.append s o) := by
  simp only [DQ.appendF, PQ.DQ.append, cr_er_dq_heapBuildF, liftR_bind, liftR_pure]

theorem cr_er_dq_ofStoreF (s : Store P) : DQ.ofStoreF 0 s = liftR (PQ.DQ.ofStore s) := cr_er_dq_heapBuildF _

theorem cr_er_dq_fromVecF (v : Array (Item × P)) : DQ.fromVecF 0 v = liftR (PQ.DQ.fromVec v) := by
  simp only [DQ.fromVecF, PQ.DQ.fromVec, cr_er_dq_heapBuildF, cr_er_asNew]

theorem cr_er_dq_fromIterF (lo : Nat) (xs : Array (Item × P)) :
    DQ.fromIterF 0 lo xs = liftR (PQ.DQ.fromIter lo xs) := by
  simp only [DQ.fromIterF, PQ.DQ.fromIter, cr_er_dq_heapBuildF, cr_er_asNew, liftR_bind]

theorem cr_er_dq_deserializeF (hint : Option Nat) (xs : Array (Item × P)) :
    DQ.deserializeF 0 hint xs = liftR (PQ.DQ.deserialize hint xs) := by
  cases hint <;>
    simp only [DQ.deserializeF, PQ.DQ.deserialize, cr_er_dq_heapBuildF, cr_er_asNew, liftR_bind, reserveC_min_4096] <;> rfl

theorem cr_er_dq_pushAllF : ∀ (l : List (Item × P)) (s : Store P),
    DQ.pushAllF 0 l s = liftR (PQ.DQ.pushAll l s) := by
  intro l
  induction l with
  | nil => intro s; rfl
  | cons e l ih =>
    intro s
    simp only [DQ.pushAllF, PQ.DQ.pushAll, cr_er_dq_pushF, ih, liftR_bind]

theorem cr_er_dq_extendF (s : Store P) (lo : Nat) (xs : Array (Item × P)) :
    DQ.extendF 0 s lo xs = liftR (PQ.DQ.extend s lo xs) := by
  simp only [DQ.extendF, PQ.DQ.extend, cr_er_dq_heapBuildF, cr_er_dq_pushAllF, cr_er_ite, liftR_bind]

theorem cr_er_dq_iterMutDropF (s : Store P) (prog : List (ICall × IMWrite P)) :
    DQ.iterMutDropF 0 s prog =
      liftR (do let (outs, m) ← iterMutRun .dpq s.map.size prog PIterMut.new (DIterMut.new s.map.size) s.map
                let s' ← PQ.DQ.heapBuild { s with map := m }
                pure (s', outs)) := by
  simp only [DQ.iterMutDropF, cr_er_dq_heapBuildF, liftR_bind, liftR_pure]

/-! ### histories -/

theorem cr_er_heapBuildKF (k : Kind) (s : Store P) : heapBuildKF 0 k s = liftR (heapBuildK k s) := by
  cases k
  · exact cr_er_pq_heapBuildF s
  · exact cr_er_dq_heapBuildF s

theorem cr_er_step {α β : Type} {x : CR P α} {y : R α} (k : Kind) (hx : x = liftR y)
    {f : α → CRQ P β} {g : α → R β} (hfg : ∀ a, f a = liftQ k (liftR (g a))) :
    (liftQ k x >>= f) = liftQ k (liftR (y >>= g)) := by
  rw [hx]
  cases y with
  | error e => rfl
  | ok a => exact hfg a

/-- **Target (B): erasure.**  With the fuse off, every fused operation is the plain operation of `Ops.step`, for every
queue (well-formed or not) and every operation (legal or not). -/
theorem cr_stepF_zero (q : Q P) (op : Op P) : stepF 0 q op = liftQ q.kind (liftR (step q op)) := by
  obtain ⟨k, s⟩ := q
  cases op with
  | push it p =>
    cases k
    · exact cr_er_step .pq (cr_er_pq_pushF s it p) (fun _ => rfl)
    · exact cr_er_step .dpq (cr_er_dq_pushF s it p) (fun _ => rfl)
  | pushIncrease it p =>
    cases k
    · exact cr_er_step .pq (cr_er_pq_pushIncreaseF s it p) (fun _ => rfl)
    · exact cr_er_step .dpq (cr_er_dq_pushIncreaseF s it p) (fun _ => rfl)
  | pushDecrease it p =>
    cases k
    · exact cr_er_step .pq (cr_er_pq_pushDecreaseF s it p) (fun _ => rfl)
    · exact cr_er_step .dpq (cr_er_dq_pushDecreaseF s it p) (fun _ => rfl)
  | changePriority key p =>
    cases k
    · exact cr_er_step .pq (cr_er_pq_changePriorityF s key p) (fun _ => rfl)
    · exact cr_er_step .dpq (cr_er_dq_changePriorityF s key p) (fun _ => rfl)
  | changePriorityBy key g =>
    cases k
    · exact cr_er_step .pq (cr_er_pq_changePriorityByF s key g) (fun _ => rfl)
    · exact cr_er_step .dpq (cr_er_dq_changePriorityByF s key g) (fun _ => rfl)
  | remove key =>
    cases k
    · exact cr_er_step .pq (cr_er_pq_removeF s key) (fun _ => rfl)
    · exact cr_er_step .dpq (cr_er_dq_removeF s key) (fun _ => rfl)
  | getMut key w => rfl
  | popFront =>
    cases k
    · exact cr_er_step .pq (cr_er_pq_popF s) (fun _ => rfl)
    · exact cr_er_step .dpq (cr_er_dq_popMinF s) (fun _ => rfl)
  | popBack =>
    cases k
    · rfl
    · exact cr_er_step .dpq (cr_er_dq_popMaxF s) (fun _ => rfl)
  | popFrontIf f =>
    cases k
    · exact cr_er_step .pq (cr_er_pq_popIfF s f) (fun _ => rfl)
    · exact cr_er_step .dpq (cr_er_dq_popMinIfF s f) (fun _ => rfl)
  | popBackIf f =>
    cases k
    · rfl
    · exact cr_er_step .dpq (cr_er_dq_popMaxIfF s f) (fun _ => rfl)
  | peekFrontMut w =>
    cases k
    · exact cr_er_step .pq (y := PQ.MaxQ.peekMutWrite s w) rfl (fun _ => rfl)
    · exact cr_er_step .dpq (y := PQ.DQ.peekMinMutWrite s w) rfl (fun _ => rfl)
  | peekBackMut w =>
    cases k
    · rfl
    · exact cr_er_step .dpq (cr_er_dq_peekMaxMutWriteF s w) (fun _ => rfl)
  | retainMut f =>
    cases k
    · exact cr_er_step .pq (cr_er_pq_retainMutF s f) (fun _ => rfl)
    · exact cr_er_step .dpq (cr_er_dq_retainMutF s f) (fun _ => rfl)
  | iterMut leak prog =>
    refine cr_er_step k (y := iterMutRun k s.map.size prog PIterMut.new (DIterMut.new s.map.size) s.map) rfl ?_
    rintro ⟨outs, m⟩
    cases leak with
    | true => rfl
    | false => exact cr_er_step k (cr_er_heapBuildKF k _) (fun _ => rfl)
  | extend lo xs =>
    cases k
    · exact cr_er_step .pq (cr_er_pq_extendF s lo xs) (fun _ => rfl)
    · exact cr_er_step .dpq (cr_er_dq_extendF s lo xs) (fun _ => rfl)
  | append o =>
    cases k
    · exact cr_er_step .pq (cr_er_pq_appendF s _) (fun _ => rfl)
    · exact cr_er_step .dpq (cr_er_dq_appendF s _) (fun _ => rfl)
  | fromVec xs =>
    cases k
    · exact cr_er_step .pq (cr_er_pq_fromVecF xs) (fun _ => rfl)
    · exact cr_er_step .dpq (cr_er_dq_fromVecF xs) (fun _ => rfl)
  | fromIter lo xs =>
    cases k
    · exact cr_er_step .pq (cr_er_pq_fromIterF lo xs) (fun _ => rfl)
    · exact cr_er_step .dpq (cr_er_dq_fromIterF lo xs) (fun _ => rfl)
  | deserialize hint xs =>
    cases k
    · exact cr_er_step .pq (cr_er_pq_deserializeF hint xs) (fun _ => rfl)
    · exact cr_er_step .dpq (cr_er_dq_deserializeF hint xs) (fun _ => rfl)
  | convert =>
    cases k
    · have h := cr_er_step (β := Q P × Out P) .dpq (cr_er_dq_ofStoreF s)
        (f := fun s' => pure (⟨.dpq, s'⟩, .unit)) (g := fun s' => pure (⟨.dpq, s'⟩, .unit)) (fun _ => rfl)
      exact h.trans (cr_liftQ_liftR .dpq .pq _)
    · have h := cr_er_step (β := Q P × Out P) .pq (cr_er_pq_ofStoreF s)
        (f := fun s' => pure (⟨.pq, s'⟩, .unit)) (g := fun s' => pure (⟨.pq, s'⟩, .unit)) (fun _ => rfl)
      exact h.trans (cr_liftQ_liftR .pq .dpq _)
  | clear => rfl
  | drain => rfl
  | capacityOp => rfl

end Erasure
end PQ.Crash
