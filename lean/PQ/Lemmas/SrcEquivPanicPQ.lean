import PQ.Lemmas.SrcEquivPanic2
set_option linter.unusedSimpArgs false
set_option linter.unusedSectionVars false
/-! # Unwinding tie, part 2: `PriorityQueue` (sift-down, rebuild, and the public operations) -/
namespace PQ.SrcEquivF
open PQ PQ.Src PQ.SrcGen PQ.SrcF PQ.Crash PQ.SrcEquiv
variable {P : Type} [LT P] [DecidableLT P]

theorem callF_storeSwap (fuse : Nat) (s : Store P) (a b n : Nat) :
    toCRcall (callWithF (execF prog unwind fuse false (n + 1)) (exec prog (n + 1)) prog unwind .storeSwap s [a, b] [] [])
      = liftR ((fun s' => (s', Val.unit)) <$> s.swap a b) := by
  rw [callF_pf fuse (n + 1) .storeSwap s _ _ _ rfl, call_storeSwap]

def hKF (fuse f : Nat) (s : Store P) (i lg : Nat) : CR P (Store P) :=
  if lg = i then pure s else do let s ← liftR (s.swap i lg); Crash.MaxQ.heapifyLoopF fuse f s lg

def hStepF (fuse : Nat) (s : Store P) (i lg : Nat) : CR P (Store P × Nat × Nat) := do
  let s1 ← liftR (s.swap i lg)
  let r ← Crash.MaxQ.pickLargestF fuse s1 lg
  pure (r.1, lg, r.2)

theorem hKF_succ (fuse f : Nat) (s : Store P) (i lg : Nat) (h : lg ≠ i) :
    hKF fuse (f + 1) s i lg = hStepF fuse s i lg >>= fun b => hKF fuse f b.1 b.2.1 b.2.2 := by
  simp only [hKF, hStepF, h, ↓reduceIte, Crash.MaxQ.heapifyLoopF, bind_assoc, pure_bind]

def hPickF (fuse : Nat) (s : Store P) (i : Nat) : CR P (Store P × Nat × Nat) := do
  let r ← Crash.MaxQ.pickLargestF fuse s i
  pure (r.1, i, r.2)

theorem heapifyLoopF_succ (fuse f : Nat) (s : Store P) (i : Nat) :
    Crash.MaxQ.heapifyLoopF fuse (f + 1) s i = hPickF fuse s i >>= fun b => hKF fuse f b.1 b.2.1 b.2.2 := by
  simp only [Crash.MaxQ.heapifyLoopF, hKF, hPickF, bind_assoc, pure_bind]

theorem pqHeapify_loop_bodyF (fuse g : Nat) (recF : Stmt → St P → CF P (St P × Flow P)) (byRef : FnId → Bool) (st : St P) :
    toCR fill0 proj03 (execStepF fuse false (exec prog (g + 2)) (callWith (exec prog (g + 1)) prog) recF
        (callWithF (execF prog unwind fuse false (g + 1)) (exec prog (g + 1)) prog unwind) byRef pqHeapify_loop1_body st)
      = (fun b => (b, Flow.normal)) <$> hStepF fuse st.s (st.n 0) (st.n 3) := by
  simp only [pqHeapify_loop1_body, esF_seq, esF_ite, esF_call, esF_setN, esF_setP, esF_skip, exec_setN, exec_setP, exec_skip,
    evalN, evalNs, evalP, evalPs, evalBF, evalB, call_storePrioAt,
    St.setS, St.setN, St.setP, upd, ↓reduceIte, Nat.reduceEqDiff, pure_bind, bind_assoc, liftF_bind, liftF_pure,
    liftF_ite, liftF_error, iteF_bind, errorF_bind, map_eq_pure_bind]
  simp only [toCR_fill0_fromCall_bind, callF_storeSwap, toCR_liftF_bind, toCR_fill0_cmpAt_bind, toCR_ite, toCR_pure,
    hStepF, Crash.MaxQ.pickLargestF, cmpF_bind, liftR_bind, liftR_pure, map_eq_pure_bind, bind_assoc, pure_bind,
    iteC_bind, errorC_bind, proj03, upd, ↓reduceIte, Nat.reduceEqDiff, decide_eq_true_eq, Bool.false_eq_true]
  repeat' first
    | rfl
    | (refine liftR_bind_congr_ok fun _ _ => ?_)
    | split
    | (exfalso; simp only [size_tick] at *; omega)

theorem pqHeapify_loop_condF (fuse : Nat) (callf : CallF P) (st : St P) :
    evalBF fuse callf st pqHeapify_loop1_cond = pure (st.s, decide (st.n 3 ≠ st.n 0)) := by
  simp only [pqHeapify_loop1_cond, evalBF, evalB, evalN, pure_bind, bind_assoc]
  rfl

theorem pqHeapify_loopF (fuse : Nat) (f : Nat) : ∀ (k : Nat) (st : St P), f ≤ k →
    hKF fuse f st.s (st.n 0) (st.n 3) ≠ .error (.fault .fuel) →
    toCR fill0 (fun st' => st'.s)
        (execF prog unwind fuse false (k + 2) (.while pqHeapify_loop1_cond pqHeapify_loop1_body) st)
      = (fun s' => (s', Flow.normal)) <$> hKF fuse f st.s (st.n 0) (st.n 3) := by
  induction f with
  | zero =>
    intro k st _ hne
    rw [execF, esF_while, pqHeapify_loop_condF]
    have hb := pqHeapify_loop_bodyF fuse k (execF prog unwind fuse false (k + 1)) (fun f => (unwind f).2) st
    by_cases hc : st.n 3 = st.n 0
    · simp only [hKF, hc, ↓reduceIte, ne_eq, not_true_eq_false, decide_false, pure_bind, Bool.false_eq_true]
      rfl
    · unfold hKF at hne ⊢
      simp only [hc, ↓reduceIte, ne_eq, not_false_eq_true, decide_true, pure_bind, St.setS] at hne ⊢
      unfold hStepF at hb
      cases hs : st.s.swap (st.n 0) (st.n 3) with
      | ok s1 => simp [hs, Crash.MaxQ.heapifyLoopF, liftR_ok, okC_bind] at hne
      | error e =>
        simp only [hs, liftR_error, errorC_bind, map_eq_pure_bind] at hb ⊢
        refine toCR_bind_of fill0 proj03 _ _ (.error (.fault e)) hb _ (fun _ => .error (.fault e)) ?_
        intro st' hx
        rw [hx] at hb
        cases hb
  | succ f ih =>
    intro k st hk hne
    obtain ⟨k, rfl⟩ : ∃ k', k = k' + 1 := ⟨k - 1, by omega⟩
    rw [execF, esF_while, pqHeapify_loop_condF]
    have hb := pqHeapify_loop_bodyF fuse (k + 1) (execF prog unwind fuse false (k + 1 + 1)) (fun f => (unwind f).2) st
    by_cases hc : st.n 3 = st.n 0
    · simp only [hKF, hc, ↓reduceIte, ne_eq, not_true_eq_false, decide_false, pure_bind, Bool.false_eq_true]
      rfl
    · rw [hKF_succ _ _ _ _ _ hc] at hne ⊢
      simp only [hc, ↓reduceIte, ne_eq, not_false_eq_true, decide_true, pure_bind, St.setS, map_bind]
      refine toCR_bind_of fill0 proj03 _ _ _ hb _ _ ?_
      intro st2 hx
      refine ih k st2 (by omega) ?_
      rw [hx] at hb
      cases hy : hStepF fuse st.s (st.n 0) (st.n 3) with
      | error e => rw [hy] at hb; cases hb
      | ok b =>
        rw [hy] at hb hne
        simp only [toCR, Functor.map, Except.map, Except.ok.injEq, Prod.mk.injEq, and_true] at hb
        subst hb
        simpa only [okC_bind, proj03] using hne

theorem pqHeapify_part1F (fuse g : Nat) (recF : Stmt → St P → CF P (St P × Flow P)) (callfF : CallFF P)
    (byRef : FnId → Bool) (st : St P) (h : ¬ st.s.size ≤ 1) :
    toCR fill0 proj03 (execStepF fuse false (exec prog (g + 2)) (callWith (exec prog (g + 1)) prog) recF callfF byRef
        pqHeapify_part1 st)
      = (fun b => (b, Flow.normal)) <$> hPickF fuse st.s (st.n 0) := by
  simp only [pqHeapify_part1, esF_seq, esF_ite, esF_call, esF_setN, esF_setP, esF_skip, exec_setN, exec_setP, exec_skip,
    evalN, evalNs, evalP, evalPs, evalBF, evalB, call_storePrioAt, h,
    St.setS, St.setN, St.setP, upd, ↓reduceIte, Nat.reduceEqDiff, pure_bind, bind_assoc, liftF_bind, liftF_pure,
    liftF_ite, liftF_error, iteF_bind, errorF_bind, map_eq_pure_bind, decide_false, Bool.false_eq_true]
  simp only [toCR_liftF_bind, toCR_fill0_cmpAt_bind, toCR_ite, toCR_pure,
    hPickF, Crash.MaxQ.pickLargestF, cmpF_bind, liftR_bind, liftR_pure, map_eq_pure_bind, bind_assoc, pure_bind,
    iteC_bind, errorC_bind, proj03, upd, ↓reduceIte, Nat.reduceEqDiff, decide_eq_true_eq, Bool.false_eq_true]
  repeat' first
    | rfl
    | (refine liftR_bind_congr_ok fun _ _ => ?_)
    | split
    | (exfalso; simp only [size_tick] at *; omega)

/-! postconditions in the crash monad -/
def PostC {α : Type} (x : CR P α) (Q : α → Prop) : Prop := ∀ a, x = .ok a → Q a
theorem PostC.pure {α : Type} {a : α} {Q : α → Prop} (h : Q a) : PostC (pure a : CR P α) Q := by
  intro b hb; cases hb; exact h
theorem PostC.triv {α : Type} (x : CR P α) : PostC x (fun _ => True) := fun _ _ => trivial
theorem PostC.bind {α β : Type} {x : CR P α} {f : α → CR P β} {Q1 : α → Prop} {Q : β → Prop}
    (hx : PostC x Q1) (hf : ∀ a, Q1 a → PostC (f a) Q) : PostC (x >>= f) Q := by
  cases x with
  | error e => intro b hb; cases hb
  | ok a => exact hf a (hx a rfl)
theorem PostC.ite {α : Type} {c : Prop} [Decidable c] {a b : CR P α} {Q : α → Prop}
    (ha : c → PostC a Q) (hb : ¬c → PostC b Q) : PostC (if c then a else b) Q := by
  split
  · exact ha ‹_›
  · exact hb ‹_›
theorem PostC.liftR {α : Type} {x : R α} {Q : α → Prop} (h : Post x Q) : PostC (liftR x : CR P α) Q := by
  cases x with
  | error e => intro b hb; cases hb
  | ok a => intro b hb; cases hb; exact h a rfl
theorem PostC.cmpF_bind {α : Type} {fuse : Nat} {s : Store P} {a b : P} {g : Store P × Bool → CR P α} {Q : α → Prop}
    (h : PostC (g (s.tick, decide (a < b))) Q) : PostC (cmpF fuse s a b >>= g) Q := by
  rw [SrcEquivF.cmpF_bind]
  split
  · intro b hb; cases hb
  · exact h
theorem NoFuelC.cmpF_bind {α : Type} {fuse : Nat} {s : Store P} {a b : P} {g : Store P × Bool → CR P α}
    (h : NoFuelC (g (s.tick, decide (a < b)))) : NoFuelC (cmpF fuse s a b >>= g) := by
  rw [SrcEquivF.cmpF_bind]
  split
  · intro h; cases h
  · exact h

theorem pickLargestF_post (fuse : Nat) (s : Store P) (i : Nat) :
    PostC (Crash.MaxQ.pickLargestF fuse s i) (fun r => r.1.size = s.size ∧ (r.2 = i ∨ (i < r.2 ∧ r.2 < s.size))) := by
  unfold Crash.MaxQ.pickLargestF
  refine PostC.bind (PostC.triv _) fun ip _ => PostC.ite (fun hl => ?_) (fun _ => PostC.pure ⟨rfl, Or.inl rfl⟩)
  refine PostC.bind (PostC.triv _) fun cp _ => PostC.cmpF_bind ?_
  refine PostC.ite (fun hr => PostC.bind (PostC.triv _) fun rp _ => PostC.cmpF_bind (PostC.pure ⟨rfl, ?_⟩))
    (fun _ => PostC.pure ⟨rfl, ?_⟩)
  all_goals
    simp only [Arith.left, Arith.right, size_tick] at *
    repeat' split
    all_goals omega

theorem pickLargestF_noFuel (fuse : Nat) (s : Store P) (i : Nat) : NoFuelC (Crash.MaxQ.pickLargestF fuse s i) := by
  unfold Crash.MaxQ.pickLargestF
  refine NoFuelC.bind (NoFuelC.liftR (NoFuel.prioAt _ _)) fun _ _ => NoFuelC.ite (fun _ => ?_) (fun _ => NoFuelC.pure _)
  refine NoFuelC.bind (NoFuelC.liftR (NoFuel.prioAt _ _)) fun _ _ => NoFuelC.cmpF_bind ?_
  refine NoFuelC.ite (fun _ => ?_) (fun _ => NoFuelC.pure _)
  exact NoFuelC.bind (NoFuelC.liftR (NoFuel.prioAt _ _)) fun _ _ => NoFuelC.cmpF_bind (NoFuelC.pure _)

theorem heapifyLoopF_noFuel (fuse : Nat) (f : Nat) : ∀ (s : Store P) (i : Nat), 1 ≤ f → s.size ≤ f + i →
    NoFuelC (Crash.MaxQ.heapifyLoopF fuse f s i) := by
  induction f with
  | zero => intro s i h; omega
  | succ f ih =>
    intro s i _ hsz
    rw [Crash.MaxQ.heapifyLoopF]
    refine NoFuelC.bind (pickLargestF_noFuel fuse s i) fun r hr => ?_
    have hspec := pickLargestF_post fuse s i r hr
    obtain ⟨s', lg⟩ := r
    refine NoFuelC.ite (fun _ => NoFuelC.pure _) fun hne => NoFuelC.bind (NoFuelC.liftR (NoFuel.swap _ _ _)) fun s'' hs => ?_
    have h2 := swap_post s' i lg s'' (by cases hx : s'.swap i lg <;> simp_all [liftR])
    simp only at hspec h2
    exact ih s'' lg (by omega) (by omega)

/-- `PriorityQueue::heapify` when the `fuse`-th comparison panics = `Crash.MaxQ.heapifyF` (no guard: the store as it is,
every swap done so far complete) -/
theorem pqHeapifyF (fuse : Nat) (s : Store P) (i : Nat) (fuel : Nat) (h : fuel ≥ s.size + 2) :
    runF prog unwind fuse false fuel .pqHeapify s [i] = (fun s' => (s', Val.unit)) <$> Crash.MaxQ.heapifyF fuse s i := by
  obtain ⟨k, rfl⟩ : ∃ k, fuel = k + 2 := ⟨fuel - 2, by omega⟩
  rw [runF_frame0 prog unwind fuse false (k + 1) .pqHeapify _ s _ _ _ rfl rfl]
  unfold Crash.MaxQ.heapifyF
  rw [execF, pqHeapify_body, esF_seq]
  by_cases hsz : s.size ≤ 1
  · simp only [pqHeapify_part1, esF_seq, esF_ite, evalBF, evalB, evalN, hsz, bindN, bindP, bindV, upd, St.setS,
      pure_bind, bind_assoc, liftF_bind, liftF_pure, decide_true, ↓reduceIte]
    rfl
  · simp only [hsz, ↓reduceIte]
    obtain ⟨n, hn⟩ : ∃ n, s.size = n + 1 := ⟨s.size - 1, by omega⟩
    have hne := heapifyLoopF_noFuel fuse s.size s i (by omega) (by omega)
    rw [hn, heapifyLoopF_succ] at hne ⊢
    refine frame0_of_toCR _ _ ?_
    have h1 := pqHeapify_part1F fuse k (execF prog unwind fuse false (k + 1))
      (callWithF (execF prog unwind fuse false (k + 1)) (exec prog (k + 1)) prog unwind) (fun f => (unwind f).2)
      { s := s, n := bindN [0] [i], p := bindP [] [], v := bindV [] [] } hsz
    simp only [bindN, upd, ↓reduceIte] at h1
    rw [map_bind]
    refine toCR_bind_of fill0 proj03 _ _ _ h1 _ _ ?_
    intro st' hx
    rw [execF_succ]
    refine pqHeapify_loopF fuse n k st' (by omega) ?_
    rw [hx] at h1
    cases hy : hPickF fuse s i with
    | error e => rw [hy] at h1; cases h1
    | ok b =>
      rw [hy] at h1 hne
      simp only [toCR, Functor.map, Except.map, Except.ok.injEq, Prod.mk.injEq, and_true] at h1
      subst h1
      simpa only [NoFuelC, okC_bind, proj03] using hne

/-! ## `up_heapify`, `heap_build` -/

theorem call_pqHeapifyF (fuse : Nat) (s : Store P) (i n : Nat) (h : n ≥ s.size + 2) :
    toCRcall (callWithF (execF prog unwind fuse false n) (exec prog n) prog unwind .pqHeapify s [i] [] [])
      = (fun s' => (s', Val.unit)) <$> Crash.MaxQ.heapifyF fuse s i := by
  rw [← runF_eq]; exact pqHeapifyF fuse s i n h

theorem call_pqBubbleUpF (fuse : Nat) (s : Store P) (pos mp n : Nat) (h : n ≥ pos + 2) :
    toCRcall (callWithF (execF prog unwind fuse false n) (exec prog n) prog unwind .pqBubbleUp s [pos, mp] [] [])
      = (fun r => (r.1, Val.nat r.2)) <$> Crash.MaxQ.bubbleUpF fuse s pos mp := by
  rw [← runF_eq]; exact pqBubbleUpF fuse s pos mp n h

theorem bindC_congr_ok {α β : Type} {x : CR P α} {f g : α → CR P β} (h : ∀ a, x = .ok a → f a = g a) :
    x >>= f = x >>= g := by
  cases x with
  | error e => rfl
  | ok a => exact h a rfl

theorem fillHole_post_size (s : Store P) (pos mp h q : Nat) : Post (fillHole s pos mp h q) (fun s' => s'.size = s.size) := by
  unfold fillHole
  exact Post.bind (Post.triv _) fun _ _ => Post.bind (Post.triv _) fun _ _ => Post.pure rfl

theorem PostC.cmpHoleF_bind {α : Type} {fuse : Nat} {s : Store P} {a b : P} {pos mp h q : Nat}
    {g : Store P × Bool → CR P α} {Q : α → Prop}
    (hg : PostC (g (s.tick, decide (a < b))) Q) : PostC (cmpHoleF fuse s a b pos mp h q >>= g) Q := by
  rw [SrcEquivF.cmpHoleF_bind]
  split
  · cases fillHole s pos mp h q <;> (intro b hb; cases hb)
  · exact hg

theorem bubbleUpLoopF_post_size (fuse mp : Nat) (f : Nat) : ∀ (s : Store P) (pos : Nat) (prio : P),
    PostC (Crash.MaxQ.bubbleUpLoopF fuse mp f s pos prio) (fun r => r.1.size = s.size) := by
  induction f with
  | zero => intro s pos prio r hr; cases hr
  | succ f ih =>
    intro s pos prio
    rw [Crash.MaxQ.bubbleUpLoopF]
    refine PostC.ite (fun _ => ?_) (fun _ => PostC.pure rfl)
    refine PostC.bind (PostC.triv _) fun pp _ => PostC.cmpHoleF_bind ?_
    refine PostC.ite (fun _ => ?_) (fun _ => PostC.pure rfl)
    refine PostC.bind (PostC.triv _) fun _ _ => PostC.bind (PostC.triv _) fun _ _ => PostC.bind (PostC.triv _) fun _ _ => ?_
    intro r hr
    rw [ih _ _ _ r hr]; rfl

theorem bubbleUpF_post_size (fuse : Nat) (s : Store P) (pos mp : Nat) :
    PostC (Crash.MaxQ.bubbleUpF fuse s pos mp) (fun r => r.1.size = s.size) := by
  unfold Crash.MaxQ.bubbleUpF
  refine PostC.bind (PostC.triv _) fun e _ => PostC.bind (bubbleUpLoopF_post_size _ _ _ s pos e.2) fun r hr => ?_
  exact PostC.bind (PostC.triv _) fun _ _ => PostC.bind (PostC.triv _) fun _ _ => PostC.pure hr

theorem pqUpHeapifyF (fuse : Nat) (s : Store P) (i : Nat) (fuel : Nat) (h : fuel ≥ s.size + min i s.heap.size + 3) :
    runF prog unwind fuse false fuel .pqUpHeapify s [i] = (fun s' => (s', Val.unit)) <$> Crash.MaxQ.upHeapifyF fuse s i := by
  obtain ⟨k, rfl⟩ : ∃ k, fuel = k + 1 := ⟨fuel - 1, by omega⟩
  rw [runF_frame0 prog unwind fuse false k .pqUpHeapify _ s _ _ _ rfl rfl]
  unfold Crash.MaxQ.upHeapifyF
  rw [execF, pqUpHeapify_body]
  srcF_eval
  srcF_cr
  refine liftR_bind_congr_ok fun tmp htmp => ?_
  have hi : i < s.heap.size := getElem?_some_lt ((getU_ok_iff _ _ _ _).mp htmp)
  rw [call_pqBubbleUpF _ _ _ _ _ (by omega)]
  simp only [map_eq_pure_bind, bind_assoc, pure_bind]
  refine bindC_congr_ok fun r hr => ?_
  have hsz := bubbleUpF_post_size fuse s i tmp r hr
  srcF_cr
  rw [call_pqHeapifyF _ _ _ _ (by omega)]
  srcF_cr

theorem heapifyLoopF_post_size (fuse : Nat) (f : Nat) : ∀ (s : Store P) (i : Nat),
    PostC (Crash.MaxQ.heapifyLoopF fuse f s i) (fun s' => s'.size = s.size) := by
  induction f with
  | zero => intro s i r hr; cases hr
  | succ f ih =>
    intro s i
    rw [Crash.MaxQ.heapifyLoopF]
    refine PostC.bind (pickLargestF_post fuse s i) fun r hr => PostC.ite (fun _ => PostC.pure hr.1) fun _ => ?_
    refine PostC.bind (PostC.liftR (swap_post _ _ _)) fun s2 h2 => ?_
    intro r' hr'
    rw [ih _ _ r' hr', h2, hr.1]

theorem heapifyF_post_size (fuse : Nat) (s : Store P) (i : Nat) :
    PostC (Crash.MaxQ.heapifyF fuse s i) (fun s' => s'.size = s.size) := by
  unfold Crash.MaxQ.heapifyF
  exact PostC.ite (fun _ => PostC.pure rfl) (fun _ => heapifyLoopF_post_size _ _ _ _)

/-- the `for … rev` loop of `heap_build` (both queues): any body that behaves like the fused `heapify(j)` on stores of size `n` -/
theorem heapBuild_forF (n : Nat) (bodyF : Nat → St P → CF P (St P × Flow P)) (heapF : Store P → Nat → CR P (Store P))
    (loopF : Store P → Nat → CR P (Store P))
    (hpost : ∀ s j, PostC (heapF s j) (fun s' => s'.size = s.size))
    (hbody : ∀ j (st : St P), st.s.size = n →
      toCR fill0 (fun st' => st'.s) (bodyF j st) = (fun s' => (s', Flow.normal)) <$> heapF st.s j)
    (loop0 : ∀ s, loopF s 0 = heapF s 0) (loopS : ∀ s k, loopF s (k + 1) = heapF s (k + 1) >>= fun s' => loopF s' k) :
    ∀ (h : Nat) (st : St P), st.s.size = n →
    toCR fill0 (fun st' => st'.s) (forDownF bodyF h st) = (fun s' => (s', Flow.normal)) <$> loopF st.s h := by
  intro h
  induction h with
  | zero =>
    intro st hn
    rw [forDownF, loop0, map_eq_pure_bind]
    refine toCR_bind_of fill0 (fun st' => st'.s) _ _ _ (hbody 0 st hn) _ _ ?_
    intro st' _
    rfl
  | succ h ih =>
    intro st hn
    rw [forDownF, loopS, map_bind]
    refine toCR_bind_of fill0 (fun st' => st'.s) _ _ _ (hbody (h + 1) st hn) _ _ ?_
    intro st' hx
    refine ih st' ?_
    have hb := hbody (h + 1) st hn
    rw [hx] at hb
    cases hy : heapF st.s (h + 1) with
    | error e => rw [hy] at hb; cases hb
    | ok s' =>
      rw [hy] at hb
      simp only [toCR, Functor.map, Except.map, Except.ok.injEq, Prod.mk.injEq, and_true] at hb
      have := hpost st.s (h + 1) s' hy
      simp only at this
      rw [hb, this, hn]

theorem pqHeapBuildF (fuse : Nat) (s : Store P) (fuel : Nat) (h : fuel ≥ s.size + 3) :
    runF prog unwind fuse false fuel .pqHeapBuild s [] = (fun s' => (s', Val.unit)) <$> Crash.MaxQ.heapBuildF fuse s := by
  obtain ⟨k, rfl⟩ : ∃ k, fuel = k + 1 := ⟨fuel - 1, by omega⟩
  rw [runF_frame0 prog unwind fuse false k .pqHeapBuild _ s _ _ _ rfl rfl]
  unfold Crash.MaxQ.heapBuildF
  rw [execF, pqHeapBuild_body]
  by_cases hsz : s.size = 0
  · srcF_eval [hsz]
    rfl
  · srcF_eval [hsz, MaxQ.parentC]
    srcF_cr [hsz]
    show _ = (fun s' => (s', Val.unit)) <$> _
    refine frame0_of_toCR (P := P) _ _ (heapBuild_forF (P := P) s.size _ (Crash.MaxQ.heapifyF fuse) (Crash.MaxQ.heapBuildLoopF fuse)
      (heapifyF_post_size fuse) ?_ (fun _ => rfl) (fun _ _ => rfl) _ _ rfl)
    intro j st hn
    srcF_eval
    srcF_cr
    rw [call_pqHeapifyF _ _ _ _ (by omega)]
    srcF_cr

/-! ## the public operations of `PriorityQueue` -/

theorem size_cases (n : Nat) : n = 0 ∨ n = 1 ∨ ∃ m, n = m + 2 := by
  by_cases h0 : n = 0
  · exact Or.inl h0
  by_cases h1 : n = 1
  · exact Or.inr (Or.inl h1)
  exact Or.inr (Or.inr ⟨n - 2, by omega⟩)

theorem popF_many (fuse : Nat) (s : Store P) (n : Nat) (hn : s.size = n + 2) :
    Crash.MaxQ.popF fuse s
      = (liftR (s.swapRemove 0) >>= fun r => Crash.MaxQ.heapifyF fuse r.1 0 >>= fun s' => pure (s', r.2)) := by
  unfold Crash.MaxQ.popF; rw [hn]; rfl

/-- `PriorityQueue::pop` under a panicking comparison = `Crash.MaxQ.popF` (the removal is complete, the entry lost) -/
theorem pqPopF (fuse : Nat) (s : Store P) (fuel : Nat) (h : fuel ≥ s.size + 3) :
    runF prog unwind fuse false fuel .pqPop s [] = (fun r => (r.1, Val.optEntry r.2)) <$> Crash.MaxQ.popF fuse s := by
  obtain ⟨k, rfl⟩ : ∃ k, fuel = k + 2 := ⟨fuel - 2, by omega⟩
  rw [runF_frame0 prog unwind fuse false (k + 1) .pqPop _ s _ _ _ rfl rfl]
  rw [execF, pqPop_body]
  obtain h0 | h1 | ⟨n, hn⟩ := size_cases s.size
  · unfold Crash.MaxQ.popF
    srcF_eval [h0]
    rfl
  · unfold Crash.MaxQ.popF
    srcF_eval [h1]
    srcF_cr [call_storeSwapRemove]
  · rw [popF_many fuse s n hn]
    srcF_eval [hn]
    srcF_cr [call_storeSwapRemove]
    refine liftR_bind_congr_ok fun r hr => ?_
    have hsz := swapRemove_post_size s 0 r hr
    rw [call_pqHeapifyF _ _ _ _ (by simp only at hsz; omega)]
    srcF_cr

theorem popIfF_many (fuse : Nat) (s : Store P) (f : Item → P → Bool × Item × P) (n : Nat) (hn : s.size = n + 2) :
    Crash.MaxQ.popIfF fuse s f
      = (liftR (s.swapRemoveIf 0 f) >>= fun r => Crash.MaxQ.heapifyF fuse r.1 0 >>= fun s' => pure (s', r.2)) := by
  unfold Crash.MaxQ.popIfF; rw [hn]; rfl

/-- `PriorityQueue::pop_if` under a panicking comparison = `Crash.MaxQ.popIfF` -/
theorem pqPopIfF (fuse : Nat) (s : Store P) (f : Item → P → Bool × Item × P) (fuel : Nat) (h : fuel ≥ s.size + 4) :
    runF prog unwind fuse false fuel .pqPopIf s [] [] [Val.pred f]
      = (fun r => (r.1, Val.optEntry r.2)) <$> Crash.MaxQ.popIfF fuse s f := by
  obtain ⟨k, rfl⟩ : ∃ k, fuel = k + 3 := ⟨fuel - 3, by omega⟩
  rw [runF_frame0 prog unwind fuse false (k + 2) .pqPopIf _ s _ _ _ rfl rfl]
  rw [execF, pqPopIf_body]
  obtain h0 | h1 | ⟨n, hn⟩ := size_cases s.size
  · unfold Crash.MaxQ.popIfF
    srcF_eval [h0]
    rfl
  · unfold Crash.MaxQ.popIfF
    srcF_eval [h1]
    srcF_cr [call_storeSwapRemoveIf]
  · rw [popIfF_many fuse s f n hn]
    srcF_eval [hn]
    srcF_cr [call_storeSwapRemoveIf]
    refine liftR_bind_congr_ok fun r hr => ?_
    have hsz := swapRemoveIf_post_size s 0 f r hr
    rw [call_pqHeapifyF _ _ _ _ (by simp only at hsz; omega)]
    srcF_cr

theorem call_pqUpHeapifyF (fuse : Nat) (s : Store P) (i n : Nat) (h : n ≥ s.size + min i s.heap.size + 3) :
    toCRcall (callWithF (execF prog unwind fuse false n) (exec prog n) prog unwind .pqUpHeapify s [i] [] [])
      = (fun s' => (s', Val.unit)) <$> Crash.MaxQ.upHeapifyF fuse s i := by
  rw [← runF_eq]; exact pqUpHeapifyF fuse s i n h

/-- `PriorityQueue::remove` under a panicking comparison = `Crash.MaxQ.removeF` -/
theorem pqRemoveF (fuse : Nat) (s : Store P) (k : Nat) (fuel : Nat) (h : fuel ≥ 2 * s.size + 4) :
    runF prog unwind fuse false fuel .pqRemove s [k]
      = (fun r => (r.1, Val.optEntry r.2)) <$> Crash.MaxQ.removeF fuse s k := by
  obtain ⟨n, rfl⟩ : ∃ n, fuel = n + 2 := ⟨fuel - 2, by omega⟩
  rw [runF_frame0 prog unwind fuse false (n + 1) .pqRemove _ s _ _ _ rfl rfl]
  unfold Crash.MaxQ.removeF
  rw [execF, pqRemove_body]
  srcF_eval
  srcF_cr [call_storeRemove]
  refine liftR_bind_congr_ok fun r hr => ?_
  have hsz := remove_post_size s k r hr
  obtain ⟨s', res⟩ := r
  cases res with
  | none => srcF_cr
  | some x =>
    obtain ⟨it, p, pos⟩ := x
    have hsz' := hsz _ rfl
    simp only at hsz'
    srcF_cr
    by_cases hlt : pos < s'.size
    · simp only [hlt, ↓reduceIte, decide_true]
      rw [call_pqUpHeapifyF _ _ _ _ (by omega)]
      srcF_cr
    · simp only [hlt, ↓reduceIte, decide_false]

/-- `PriorityQueue::change_priority` under a panicking comparison = `Crash.MaxQ.changePriorityF` -/
theorem pqChangePriorityF (fuse : Nat) (s : Store P) (k : Nat) (p : P) (fuel : Nat) (h : fuel ≥ s.size + s.heap.size + 5) :
    runF prog unwind fuse false fuel .pqChangePriority s [k] [p]
      = (fun r => (r.1, Val.optP r.2)) <$> Crash.MaxQ.changePriorityF fuse s k p := by
  obtain ⟨n, rfl⟩ : ∃ n, fuel = n + 2 := ⟨fuel - 2, by omega⟩
  rw [runF_frame0 prog unwind fuse false (n + 1) .pqChangePriority _ s _ _ _ rfl rfl]
  unfold Crash.MaxQ.changePriorityF
  rw [execF, pqChangePriority_body]
  srcF_eval
  srcF_cr [call_storeChangePriority]
  refine liftR_bind_congr_ok fun r hr => ?_
  obtain ⟨hsz, hhp⟩ := changePriority_post s k p r hr
  obtain ⟨s', res⟩ := r
  cases res with
  | none => srcF_cr
  | some x =>
    obtain ⟨old, pos⟩ := x
    simp only at hsz hhp
    srcF_cr
    rw [call_pqUpHeapifyF _ _ _ _ (by rw [hsz, hhp]; omega)]
    srcF_cr

/-- `PriorityQueue::change_priority_by` under a panicking comparison = `Crash.MaxQ.changePriorityByF` -/
theorem pqChangePriorityByF (fuse : Nat) (s : Store P) (k : Nat) (g : P → P) (fuel : Nat)
    (h : fuel ≥ s.size + s.heap.size + 5) :
    runF prog unwind fuse false fuel .pqChangePriorityBy s [k] [] [Val.setter g]
      = (fun r => (r.1, Val.bool r.2)) <$> Crash.MaxQ.changePriorityByF fuse s k g := by
  obtain ⟨n, rfl⟩ : ∃ n, fuel = n + 2 := ⟨fuel - 2, by omega⟩
  rw [runF_frame0 prog unwind fuse false (n + 1) .pqChangePriorityBy _ s _ _ _ rfl rfl]
  unfold Crash.MaxQ.changePriorityByF
  rw [execF, pqChangePriorityBy_body]
  srcF_eval
  srcF_cr [call_storeChangePriorityBy]
  refine liftR_bind_congr_ok fun r hr => ?_
  obtain ⟨hsz, hhp⟩ := changePriorityBy_post s k g r hr
  obtain ⟨s', res⟩ := r
  cases res with
  | none => srcF_cr
  | some pos =>
    simp only at hsz hhp
    srcF_cr
    rw [call_pqUpHeapifyF _ _ _ _ (by rw [hsz, hhp]; omega)]
    srcF_cr

/-- `PriorityQueue::push` (new or present item) under a panicking comparison = `Crash.MaxQ.pushF` -/
theorem pqPushF (fuse : Nat) (s : Store P) (it : Item) (p : P) (fuel : Nat) (h : fuel ≥ s.size + s.heap.size + 5) :
    runF prog unwind fuse false fuel .pqPush s [] [p] [Val.item it]
      = (fun r => (r.1, Val.optP r.2)) <$> Crash.MaxQ.pushF fuse s it p := by
  cases hf : IMap.find? s.map it.key with
  | none => exact pqPushF_new fuse s it p hf fuel (by omega)
  | some i =>
    obtain ⟨k, rfl⟩ : ∃ k, fuel = k + 1 := ⟨fuel - 1, by omega⟩
    rw [runF_frame0 prog unwind fuse false k .pqPush _ s _ _ _ rfl rfl]
    unfold Crash.MaxQ.pushF
    obtain ⟨e, he, _⟩ := IMap.find?_getElem? hf
    rw [IMap.insertFull_of_find?_some hf he]
    rw [execF, pqPush_body]
    srcF_eval [hf, he]
    simp only [Option.isSome_some, ↓reduceIte]
    srcF_cr
    refine liftR_bind_congr_ok fun pos hpos => ?_
    rw [call_pqUpHeapifyF _ _ _ _ (by simp only; omega)]
    srcF_cr

theorem call_pqPushF (fuse : Nat) (s : Store P) (it : Item) (p : P) (n : Nat) (h : n ≥ s.size + s.heap.size + 5) :
    toCRcall (callWithF (execF prog unwind fuse false n) (exec prog n) prog unwind .pqPush s [] [p] [Val.item it])
      = (fun r => (r.1, Val.optP r.2)) <$> Crash.MaxQ.pushF fuse s it p := by
  rw [← runF_eq]; exact pqPushF fuse s it p n h

/-- `PriorityQueue::push_increase` under a panicking comparison = `Crash.MaxQ.pushIncreaseF` (a panic of the pre-comparison
leaves the store untouched) -/
theorem pqPushIncreaseF (fuse : Nat) (s : Store P) (it : Item) (p : P) (fuel : Nat) (h : fuel ≥ s.size + s.heap.size + 6) :
    runF prog unwind fuse false fuel .pqPushIncrease s [] [p] [Val.item it]
      = (fun r => (r.1, Val.optP r.2)) <$> Crash.MaxQ.pushIncreaseF fuse s it p := by
  obtain ⟨n, rfl⟩ : ∃ n, fuel = n + 1 := ⟨fuel - 1, by omega⟩
  rw [runF_frame0 prog unwind fuse false n .pqPushIncrease _ s _ _ _ rfl rfl]
  unfold Crash.MaxQ.pushIncreaseF
  rw [execF, pqPushIncrease_body]
  srcF_eval
  cases hq : s.getPriority it.key with
  | none =>
    srcF_eval
    srcF_cr
    rw [call_pqPushF _ _ _ _ _ (by omega)]
    srcF_cr
  | some q =>
    srcF_eval
    srcF_cr
    by_cases hfz : s.ticks + 1 = fuse
    · simp only [hfz, ↓reduceIte]
    · simp only [hfz, ↓reduceIte]
      by_cases hlt : q < p
      · simp only [hlt, ↓reduceIte, decide_true]
        rw [call_pqPushF _ _ _ _ _ (by simp only [size_tick, heap_tick]; omega)]
        srcF_cr
      · simp only [hlt, ↓reduceIte, decide_false]
/-- `PriorityQueue::push_decrease` under a panicking comparison = `Crash.MaxQ.pushDecreaseF` (a panic of the pre-comparison
leaves the store untouched) -/
theorem pqPushDecreaseF (fuse : Nat) (s : Store P) (it : Item) (p : P) (fuel : Nat) (h : fuel ≥ s.size + s.heap.size + 6) :
    runF prog unwind fuse false fuel .pqPushDecrease s [] [p] [Val.item it]
      = (fun r => (r.1, Val.optP r.2)) <$> Crash.MaxQ.pushDecreaseF fuse s it p := by
  obtain ⟨n, rfl⟩ : ∃ n, fuel = n + 1 := ⟨fuel - 1, by omega⟩
  rw [runF_frame0 prog unwind fuse false n .pqPushDecrease _ s _ _ _ rfl rfl]
  unfold Crash.MaxQ.pushDecreaseF
  rw [execF, pqPushDecrease_body]
  srcF_eval
  cases hq : s.getPriority it.key with
  | none =>
    srcF_eval
    srcF_cr
    rw [call_pqPushF _ _ _ _ _ (by omega)]
    srcF_cr
  | some q =>
    srcF_eval
    srcF_cr
    by_cases hfz : s.ticks + 1 = fuse
    · simp only [hfz, ↓reduceIte]
    · simp only [hfz, ↓reduceIte]
      by_cases hlt : p < q
      · simp only [hlt, ↓reduceIte, decide_true]
        rw [call_pqPushF _ _ _ _ _ (by simp only [size_tick, heap_tick]; omega)]
        srcF_cr
      · simp only [hlt, ↓reduceIte, decide_false]
end PQ.SrcEquivF
