import PQ.Lemmas.SrcEquivBulkQ
/-!
# Source-translated tie, phase 5.3c: `Extend` of both queues

The strategy choice (`better_to_rebuild`): rebuild (`Store::extend`, then `heap_build`) or push one by one.  The fuel
bound of the push loop needs the size counter and the length of the heap table to grow by at most one per `push`
(`Shape`, `push_post_grow`).
-/
set_option linter.unusedSimpArgs false
set_option linter.unusedSectionVars false
namespace PQ.SrcEquiv
open PQ PQ.Src PQ.SrcGen
variable {P : Type} [LT P] [DecidableLT P]

/-! ## the shape of the store (size counter, length of the heap table) under the heap operations -/

/-- same size counter, same length of the heap table -/
def Shape (s s' : Store P) : Prop := s'.size = s.size ∧ s'.heap.size = s.heap.size

theorem Shape.refl (s : Store P) : Shape s s := ⟨rfl, rfl⟩
theorem Shape.trans {a b c : Store P} (h1 : Shape a b) (h2 : Shape b c) : Shape a c :=
  ⟨h2.1.trans h1.1, h2.2.trans h1.2⟩

theorem setU_post_size {α : Type} (a : Array α) (i : Nat) (v : α) (site : Nat) :
    Post (setU a i v site) (fun a' => a'.size = a.size) := by
  unfold setU
  split
  · intro b hb; cases hb; simp
  · intro b hb; cases hb

theorem swapC_post_size {α : Type} (a : Array α) (i j site : Nat) :
    Post (swapC a i j site) (fun a' => a'.size = a.size) := by
  unfold swapC
  split
  · intro b hb; cases hb; simp
  · intro b hb; cases hb

theorem swap_post_shape (s : Store P) (a b : Nat) : Post (s.swap a b) (Shape s) := by
  unfold Store.swap
  refine Post.bind (Post.triv _) fun _ _ => Post.bind (Post.triv _) fun _ _ => Post.bind (Post.triv _) fun _ _ =>
    Post.bind (swapC_post_size _ _ _ _) fun heap hh => Post.pure ⟨rfl, hh⟩

theorem pickLargest_post_shape (s : Store P) (i : Nat) : Post (MaxQ.pickLargest s i) (fun r => Shape s r.1) := by
  unfold MaxQ.pickLargest
  refine Post.bind (Post.triv _) fun _ _ => Post.ite (fun _ => ?_) (fun _ => Post.pure (Shape.refl s))
  refine Post.bind (Post.triv _) fun _ _ => Post.ite (fun _ => ?_) (fun _ => Post.pure ⟨rfl, rfl⟩)
  exact Post.bind (Post.triv _) fun _ _ => Post.pure ⟨rfl, rfl⟩

theorem heapifyLoop_post_shape (f : Nat) : ∀ (s : Store P) (i : Nat), Post (MaxQ.heapifyLoop f s i) (Shape s) := by
  induction f with
  | zero => intro s i r hr; cases hr
  | succ f ih =>
    intro s i
    rw [MaxQ.heapifyLoop]
    refine Post.bind (pickLargest_post_shape s i) fun r hr => ?_
    obtain ⟨s1, lg⟩ := r
    refine Post.ite (fun _ => Post.pure hr) fun _ => Post.bind (swap_post_shape _ _ _) fun s2 h2 => ?_
    intro r hr2
    exact (hr.trans h2).trans (ih _ _ r hr2)

theorem heapify_post_shape (s : Store P) (i : Nat) : Post (MaxQ.heapify s i) (Shape s) := by
  unfold MaxQ.heapify
  exact Post.ite (fun _ => Post.pure (Shape.refl s)) fun _ => heapifyLoop_post_shape _ _ _

theorem bStep_post_shape (s : Store P) (pos : Nat) (prio : P) :
    Post (bStep s pos prio) (fun b => Shape s b.1.1) := by
  unfold bStep
  refine Post.bind (Post.triv _) fun pp _ => Post.ite (fun _ => ?_) (fun _ => Post.pure ⟨rfl, rfl⟩)
  exact Post.bind (Post.triv _) fun _ _ => Post.bind (setU_post_size _ _ _ _) fun heap hh =>
    Post.bind (Post.triv _) fun _ _ => Post.pure ⟨rfl, hh⟩

theorem bubbleUpLoop_post_shape (f : Nat) : ∀ (s : Store P) (pos : Nat) (prio : P),
    Post (MaxQ.bubbleUpLoop f s pos prio) (fun r => Shape s r.1) := by
  induction f with
  | zero => intro s pos prio r hr; cases hr
  | succ f ih =>
    intro s pos prio
    rw [bubbleUpLoop_succ]
    refine Post.ite (fun _ => Post.bind (bStep_post_shape s pos prio) fun b hb => ?_) (fun _ => Post.pure (Shape.refl s))
    refine Post.ite (fun _ => ?_) (fun _ => Post.pure hb)
    intro r hr
    exact hb.trans (ih _ _ _ r hr)

theorem bubbleUp_post_shape (s : Store P) (pos mp : Nat) : Post (MaxQ.bubbleUp s pos mp) (fun r => Shape s r.1) := by
  unfold MaxQ.bubbleUp
  refine Post.bind (Post.triv _) fun e _ => Post.bind (bubbleUpLoop_post_shape _ s pos e.2) fun r hr => ?_
  exact Post.bind (setU_post_size _ _ _ _) fun heap hh => Post.bind (Post.triv _) fun _ _ =>
    Post.pure ⟨hr.1, hh.trans hr.2⟩

theorem upHeapify_post_shape (s : Store P) (i : Nat) : Post (MaxQ.upHeapify s i) (Shape s) := by
  unfold MaxQ.upHeapify
  refine Post.bind (Post.triv _) fun _ _ => Post.bind (bubbleUp_post_shape _ _ _) fun r hr => ?_
  intro s' hs'
  exact hr.trans (heapify_post_shape _ _ s' hs')

/-- `push` adds at most one to the size counter and to the length of the heap table -/
theorem push_post_grow (s : Store P) (it : Item) (p : P) :
    Post (MaxQ.push s it p) (fun r => r.1.size ≤ s.size + 1 ∧ r.1.heap.size ≤ s.heap.size + 1) := by
  unfold MaxQ.push
  cases hf : IMap.find? s.map it.key with
  | none =>
    rw [IMap.insertFull_of_find?_none hf]
    refine Post.bind (bubbleUp_post_shape _ _ _) fun r hr => Post.pure ?_
    obtain ⟨h1, h2⟩ := hr
    simp only [Array.size_push] at h1 h2 ⊢
    omega
  | some i =>
    obtain ⟨e, he, _⟩ := IMap.find?_getElem? hf
    rw [IMap.insertFull_of_find?_some hf he]
    refine Post.bind (Post.triv _) fun pos _ => Post.bind (upHeapify_post_shape _ _) fun s' hs' => Post.pure ?_
    obtain ⟨h1, h2⟩ := hs'
    simp only at h1 h2 ⊢
    omega

/-! ## `Extend for PriorityQueue` -/

theorem call_storeExtend (s : Store P) (lo : Nat) (xs : Array (Item × P)) (n : Nat) :
    callWith (exec prog (n + 1)) prog .storeExtend s [] [] [Val.iter lo xs] = pure (s.extend xs, Val.unit) :=
  storeExtend s lo xs (n + 1) (by omega)

/-- the `for (item, priority) in iter { self.push(item, priority); }` loop is `MaxQ.pushAll` -/
theorem forList_pushAll {β : Type} (k : Nat) (body : Item × P → St P → R (St P × Flow P))
    (G : Item × P → St P → Store P × Option P → St P) (hG : ∀ e st r, (G e st r).s = r.1)
    (hbody : ∀ e st, k ≥ st.s.size + st.s.heap.size + 5 →
      body e st = MaxQ.push st.s e.1 e.2 >>= fun r => pure (G e st r, Flow.normal))
    (K : St P × Flow P → R β) (enc : Store P → β) (hK : ∀ st', K (st', .normal) = pure (enc st'.s)) :
    ∀ (l : List (Item × P)) (st : St P), k ≥ st.s.size + st.s.heap.size + 2 * l.length + 5 →
      forList body l st >>= K = enc <$> MaxQ.pushAll l st.s := by
  intro l
  induction l with
  | nil => intro st _; simp only [forList, MaxQ.pushAll, pure_bind, hK]; rfl
  | cons e l ih =>
    intro st hk
    simp only [List.length_cons] at hk
    rw [forList, hbody e st (by omega), MaxQ.pushAll]
    cases hp : MaxQ.push st.s e.1 e.2 with
    | error f => rfl
    | ok r =>
      have hg := push_post_grow st.s e.1 e.2 r hp
      simp only [ok_bind, pure_bind]
      have := ih (G e st r) (by rw [hG]; omega)
      rw [hG] at this
      exact this

/-- the registers after one round of the push loop of `extend` -/
def extG (e : Item × P) (st : St P) (r : Store P × Option P) : St P :=
  { s := r.1, n := st.n, p := upd st.p 5 (some e.snd),
    v := upd (upd st.v 4 (some (Val.item e.fst))) 6 (some (Val.optP r.2)) }

/-- `Extend for PriorityQueue` = `MaxQ.extend` (strategy choice by `better_to_rebuild`) -/
theorem pqExtend (s : Store P) (lo : Nat) (xs : Array (Item × P)) (fuel : Nat)
    (h : fuel ≥ s.size + s.heap.size + 2 * xs.size + (s.extend xs).size + 7) :
    Src.run SrcGen.prog fuel .pqExtend s [] [] [Val.iter lo xs]
      = (fun s' => (s', Val.unit)) <$> MaxQ.extend s lo xs := by
  obtain ⟨n, rfl⟩ : ∃ n, fuel = n + 2 := ⟨fuel - 2, by omega⟩
  src_enter [prog, SrcGen.pqExtend]
  unfold MaxQ.extend
  src_eval [pqExtend_body]
  simp only [call_storeExtend, pure_bind, call_pqHeapBuild _ _ (by omega : n + 1 ≥ (s.extend xs).size + 3),
    ne_eq, Nat.succ_ne_zero, not_false_eq_true, not_true_eq_false, ↓reduceIte, Bool.false_eq_true,
    Nat.one_ne_zero, map_eq_pure_bind, Function.comp]
  have loop : ∀ (st0 : St P) (body : Item × P → St P → R (St P × Flow P)), st0.s = s →
      (∀ e st, n + 1 ≥ st.s.size + st.s.heap.size + 5 →
        body e st = MaxQ.push st.s e.1 e.2 >>= fun r => pure (extG e st r, Flow.normal)) →
      forList body xs.toList st0 >>= fin = MaxQ.pushAll xs.toList s >>= fun a => pure (a, Val.unit) := by
    intro st0 body h0 hbody
    have := forList_pushAll (n + 1) body extG (fun _ _ _ => rfl) hbody fin (fun s' => (s', Val.unit))
      (fun st' => rfl) xs.toList st0 (by rw [h0]; simp only [Array.length_toList]; omega)
    rw [this, h0]
    simp only [map_eq_pure_bind, Function.comp]
  have hbody : ∀ (e : Item × P) (st : St P), n + 1 ≥ st.s.size + st.s.heap.size + 5 →
      (callWith (exec prog (n + 1)) prog FnId.pqPush st.s [] [e.snd] [Val.item e.fst] >>= fun __x =>
          pure (({ s := __x.fst, n := st.n, p := upd st.p 5 (some e.snd), v := upd (upd st.v 4 (some (Val.item e.fst))) 6 (some __x.snd) } : St P), (Flow.normal : Flow P)))
        = MaxQ.push st.s e.1 e.2 >>= fun r => pure (extG e st r, (Flow.normal : Flow P)) := by
    intro e st hb
    rw [call_pqPush _ _ _ _ hb]
    simp only [map_eq_pure_bind, bind_assoc, pure_bind, Function.comp, extG]
  by_cases hlo : lo = 0
  · subst hlo
    have hr0 : (reserveC 0 : R Unit) = pure () := by unfold reserveC capLimit; rfl
    simp only [↓reduceIte, hr0, pure_bind, Bool.false_eq_true]
    exact loop _ _ rfl hbody
  · simp only [hlo, ↓reduceIte]
    refine bind_congr_ok fun _ _ => ?_
    by_cases hb : Arith.betterToRebuild s.size lo = true
    · simp only [hb, ↓reduceIte, not_false_eq_true, bind_assoc, pure_bind]
    · simp only [hb, ↓reduceIte, not_false_eq_true, Bool.false_eq_true]
      exact loop _ _ rfl hbody

/-! ## the same for the min-max heap -/

theorem dDownMin_post_shape (s : Store P) (i : Nat) : Post (dDownMin s i) (fun r => Shape s r.1.1) := by
  unfold dDownMin
  refine Post.bind (Post.triv _) fun cs _ => Post.bind (Post.triv _) fun c _ => Post.bind (Post.triv _) fun pc _ =>
    Post.bind (Post.triv _) fun pm _ => Post.ite (fun _ => ?_) (fun _ => Post.pure ⟨rfl, rfl⟩)
  refine Post.bind (swap_post_shape _ _ _) fun s1 h1 => Post.ite (fun _ => ?_) (fun _ => Post.pure ⟨h1.1, h1.2⟩)
  refine Post.bind (Post.triv _) fun p _ => Post.bind (Post.triv _) fun _ _ => Post.bind (Post.triv _) fun _ _ => ?_
  dsimp only
  refine Post.ite (fun _ => Post.bind (swap_post_shape _ _ _) fun s2 h2 => Post.pure ?_)
    (fun _ => Post.bind (Post.pure (Q := fun (s2 : Store P) => Shape s s2) ⟨h1.1, h1.2⟩) fun s2 h2 => Post.pure h2)
  exact ⟨h2.1.trans h1.1, h2.2.trans h1.2⟩

theorem dDownMax_post_shape (s : Store P) (i : Nat) : Post (dDownMax s i) (fun r => Shape s r.1.1) := by
  unfold dDownMax
  refine Post.bind (Post.triv _) fun cs _ => Post.bind (Post.triv _) fun c _ => Post.bind (Post.triv _) fun pc _ =>
    Post.bind (Post.triv _) fun pm _ => Post.ite (fun _ => ?_) (fun _ => Post.pure ⟨rfl, rfl⟩)
  refine Post.bind (swap_post_shape _ _ _) fun s1 h1 => Post.ite (fun _ => ?_) (fun _ => Post.pure ⟨h1.1, h1.2⟩)
  refine Post.bind (Post.triv _) fun p _ => Post.bind (Post.triv _) fun _ _ => Post.bind (Post.triv _) fun _ _ => ?_
  dsimp only
  refine Post.ite (fun _ => Post.bind (swap_post_shape _ _ _) fun s2 h2 => Post.pure ?_)
    (fun _ => Post.bind (Post.pure (Q := fun (s2 : Store P) => Shape s s2) ⟨h1.1, h1.2⟩) fun s2 h2 => Post.pure h2)
  exact ⟨h2.1.trans h1.1, h2.2.trans h1.2⟩

theorem heapifyMinLoop_post_shape (f : Nat) : ∀ (s : Store P) (i : Nat), Post (DQ.heapifyMinLoop f s i) (Shape s) := by
  induction f with
  | zero => intro s i r hr; cases hr
  | succ f ih =>
    intro s i
    rw [heapifyMinLoop_succ]
    refine Post.bind (Post.triv _) fun b _ => Post.ite (fun _ => ?_) (fun _ => Post.pure (Shape.refl s))
    refine Post.bind (dDownMin_post_shape s i) fun r hr => Post.ite (fun _ => ?_) (fun _ => Post.pure hr)
    intro s' hs'
    exact hr.trans (ih _ _ s' hs')

theorem heapifyMaxLoop_post_shape (f : Nat) : ∀ (s : Store P) (i : Nat), Post (DQ.heapifyMaxLoop f s i) (Shape s) := by
  induction f with
  | zero => intro s i r hr; cases hr
  | succ f ih =>
    intro s i
    rw [heapifyMaxLoop_succ]
    refine Post.bind (Post.triv _) fun b _ => Post.ite (fun _ => ?_) (fun _ => Post.pure (Shape.refl s))
    refine Post.bind (dDownMax_post_shape s i) fun r hr => Post.ite (fun _ => ?_) (fun _ => Post.pure hr)
    intro s' hs'
    exact hr.trans (ih _ _ s' hs')

theorem dq_heapify_post_shape (s : Store P) (i : Nat) : Post (DQ.heapify s i) (Shape s) := by
  unfold DQ.heapify
  exact Post.ite (fun _ => Post.pure (Shape.refl s)) fun _ =>
    Post.ite (fun _ => heapifyMinLoop_post_shape _ _ _) (fun _ => heapifyMaxLoop_post_shape _ _ _)

theorem dStepMin_post_shape (s : Store P) (pos : Nat) (prio : P) : Post (dStepMin s pos prio) (fun b => Shape s b.1.1) := by
  unfold dStepMin
  refine Post.bind (Post.triv _) fun pp _ => Post.ite (fun _ => ?_) (fun _ => Post.pure ⟨rfl, rfl⟩)
  exact Post.bind (Post.triv _) fun _ _ => Post.bind (setU_post_size _ _ _ _) fun heap hh =>
    Post.bind (Post.triv _) fun _ _ => Post.pure ⟨rfl, hh⟩

theorem dStepMax_post_shape (s : Store P) (pos : Nat) (prio : P) : Post (dStepMax s pos prio) (fun b => Shape s b.1.1) := by
  unfold dStepMax
  refine Post.bind (Post.triv _) fun pp _ => Post.ite (fun _ => ?_) (fun _ => Post.pure ⟨rfl, rfl⟩)
  exact Post.bind (Post.triv _) fun _ _ => Post.bind (setU_post_size _ _ _ _) fun heap hh =>
    Post.bind (Post.triv _) fun _ _ => Post.pure ⟨rfl, hh⟩

theorem bubbleUpMinLoop_post_shape (f : Nat) : ∀ (s : Store P) (pos : Nat) (prio : P),
    Post (DQ.bubbleUpMinLoop f s pos prio) (fun r => Shape s r.1) := by
  induction f with
  | zero => intro s pos prio r hr; cases hr
  | succ f ih =>
    intro s pos prio
    rw [bubbleUpMinLoop_succ]
    refine Post.ite (fun _ => Post.bind (dStepMin_post_shape s pos prio) fun b hb => ?_) (fun _ => Post.pure (Shape.refl s))
    refine Post.ite (fun _ => ?_) (fun _ => Post.pure hb)
    intro r hr
    exact hb.trans (ih _ _ _ r hr)

theorem bubbleUpMaxLoop_post_shape (f : Nat) : ∀ (s : Store P) (pos : Nat) (prio : P),
    Post (DQ.bubbleUpMaxLoop f s pos prio) (fun r => Shape s r.1) := by
  induction f with
  | zero => intro s pos prio r hr; cases hr
  | succ f ih =>
    intro s pos prio
    rw [bubbleUpMaxLoop_succ]
    refine Post.ite (fun _ => Post.bind (dStepMax_post_shape s pos prio) fun b hb => ?_) (fun _ => Post.pure (Shape.refl s))
    refine Post.ite (fun _ => ?_) (fun _ => Post.pure hb)
    intro r hr
    exact hb.trans (ih _ _ _ r hr)

theorem dq_bubbleUp_post_shape (s : Store P) (pos mp : Nat) : Post (DQ.bubbleUp s pos mp) (fun r => Shape s r.1) := by
  unfold DQ.bubbleUp
  refine Post.bind (Post.triv _) fun e _ => ?_
  dsimp only
  have tail : ∀ (x : Store P × Nat), Shape s x.1 → Post (do
      let heap ← setU x.1.heap x.2 mp 316
      let qp ← setU x.1.qp mp x.2 317
      pure (({ x.1 with heap := heap, qp := qp } : Store P), x.2)) (fun r => Shape s r.1) := fun x hx =>
    Post.bind (setU_post_size _ _ _ _) fun heap hh => Post.bind (Post.triv _) fun _ _ => Post.pure ⟨hx.1, hh.trans hx.2⟩
  have hmin : ∀ (s' : Store P) p, Shape s s' → Post (DQ.bubbleUpMin s' p mp) (fun r => Shape s r.1) := by
    intro s' p hs'
    unfold DQ.bubbleUpMin
    refine Post.bind (Post.triv _) fun e _ => ?_
    intro r hr
    exact hs'.trans (bubbleUpMinLoop_post_shape _ _ _ _ r hr)
  have hmax : ∀ (s' : Store P) p, Shape s s' → Post (DQ.bubbleUpMax s' p mp) (fun r => Shape s r.1) := by
    intro s' p hs'
    unfold DQ.bubbleUpMax
    refine Post.bind (Post.triv _) fun e _ => ?_
    intro r hr
    exact hs'.trans (bubbleUpMaxLoop_post_shape _ _ _ _ r hr)
  refine Post.ite (fun _ => ?_) (fun _ => Post.bind (Post.pure (Q := fun (r : Store P × Nat) => Shape s r.1) (Shape.refl s)) tail)
  refine Post.bind (Post.triv _) fun pp _ => Post.bind (Post.triv _) fun pi _ => ?_
  split
  · exact Post.bind (setU_post_size _ _ _ _) fun _ hh => Post.bind (Post.triv _) fun _ _ => Post.bind (hmax _ _ ⟨rfl, hh⟩) tail
  · exact Post.bind (hmin _ _ ⟨rfl, rfl⟩) tail
  · exact Post.bind (hmax _ _ ⟨rfl, rfl⟩) tail
  · exact Post.bind (setU_post_size _ _ _ _) fun _ hh => Post.bind (Post.triv _) fun _ _ => Post.bind (hmin _ _ ⟨rfl, hh⟩) tail

theorem dq_upHeapify_post_shape (s : Store P) (i : Nat) : Post (DQ.upHeapify s i) (Shape s) := by
  unfold DQ.upHeapify
  split
  · exact Post.pure (Shape.refl s)
  · refine Post.bind (dq_bubbleUp_post_shape _ _ _) fun r hr => ?_
    obtain ⟨s1, pos⟩ := r
    dsimp only
    refine Post.ite (fun _ => Post.bind (dq_heapify_post_shape _ _) fun s2 h2 => ?_)
      (fun _ => Post.bind (Post.pure (Q := fun (s2 : Store P) => Shape s1 s2) (Shape.refl s1)) fun s2 h2 => ?_)
    · intro s3 hs3
      exact (hr.trans h2).trans (dq_heapify_post_shape _ _ s3 hs3)
    · intro s3 hs3
      exact (hr.trans h2).trans (dq_heapify_post_shape _ _ s3 hs3)

theorem dq_push_post_grow (s : Store P) (it : Item) (p : P) :
    Post (DQ.push s it p) (fun r => r.1.size ≤ s.size + 1 ∧ r.1.heap.size ≤ s.heap.size + 1) := by
  unfold DQ.push
  cases hf : IMap.find? s.map it.key with
  | none =>
    rw [IMap.insertFull_of_find?_none hf]
    refine Post.bind (dq_bubbleUp_post_shape _ _ _) fun r hr => Post.pure ?_
    obtain ⟨h1, h2⟩ := hr
    simp only [Array.size_push] at h1 h2 ⊢
    omega
  | some i =>
    obtain ⟨e, he, _⟩ := IMap.find?_getElem? hf
    rw [IMap.insertFull_of_find?_some hf he]
    refine Post.bind (Post.triv _) fun pos _ => Post.bind (dq_upHeapify_post_shape _ _) fun s' hs' => Post.pure ?_
    obtain ⟨h1, h2⟩ := hs'
    simp only at h1 h2 ⊢
    omega
/-! ## `Extend for DoublePriorityQueue` -/

/-- the `for (item, priority) in iter { self.push(item, priority); }` loop is `DQ.pushAll` -/
theorem dq_forList_pushAll {β : Type} (k : Nat) (body : Item × P → St P → R (St P × Flow P))
    (G : Item × P → St P → Store P × Option P → St P) (hG : ∀ e st r, (G e st r).s = r.1)
    (hbody : ∀ e st, k ≥ st.s.size + st.s.heap.size + 6 →
      body e st = DQ.push st.s e.1 e.2 >>= fun r => pure (G e st r, Flow.normal))
    (K : St P × Flow P → R β) (enc : Store P → β) (hK : ∀ st', K (st', .normal) = pure (enc st'.s)) :
    ∀ (l : List (Item × P)) (st : St P), k ≥ st.s.size + st.s.heap.size + 2 * l.length + 6 →
      forList body l st >>= K = enc <$> DQ.pushAll l st.s := by
  intro l
  induction l with
  | nil => intro st _; simp only [forList, DQ.pushAll, pure_bind, hK]; rfl
  | cons e l ih =>
    intro st hk
    simp only [List.length_cons] at hk
    rw [forList, hbody e st (by omega), DQ.pushAll]
    cases hp : DQ.push st.s e.1 e.2 with
    | error f => rfl
    | ok r =>
      have hg := dq_push_post_grow st.s e.1 e.2 r hp
      simp only [ok_bind, pure_bind]
      have := ih (G e st r) (by rw [hG]; omega)
      rw [hG] at this
      exact this

/-- the registers after one round of the push loop of `extend` (min-max heap) -/
def dqExtG (e : Item × P) (st : St P) (r : Store P × Option P) : St P :=
  { s := r.1, n := st.n, p := upd st.p 5 (some e.snd),
    v := upd (upd st.v 4 (some (Val.item e.fst))) 6 (some (Val.optP r.2)) }

/-- `Extend for DoublePriorityQueue` = `DQ.extend` (strategy choice by `better_to_rebuild`) -/
theorem dqExtend (s : Store P) (lo : Nat) (xs : Array (Item × P)) (fuel : Nat)
    (h : fuel ≥ s.size + s.heap.size + 2 * xs.size + (s.extend xs).size + 8) :
    Src.run SrcGen.prog fuel .dqExtend s [] [] [Val.iter lo xs]
      = (fun s' => (s', Val.unit)) <$> DQ.extend s lo xs := by
  obtain ⟨n, rfl⟩ : ∃ n, fuel = n + 2 := ⟨fuel - 2, by omega⟩
  src_enter [prog, SrcGen.dqExtend]
  unfold DQ.extend
  src_eval [dqExtend_body]
  simp only [call_storeExtend, pure_bind, call_dqHeapBuild _ _ (by omega : n + 1 ≥ (s.extend xs).size + 4),
    ne_eq, Nat.succ_ne_zero, not_false_eq_true, not_true_eq_false, ↓reduceIte, Bool.false_eq_true,
    Nat.one_ne_zero, map_eq_pure_bind, Function.comp]
  have loop : ∀ (st0 : St P) (body : Item × P → St P → R (St P × Flow P)), st0.s = s →
      (∀ e st, n + 1 ≥ st.s.size + st.s.heap.size + 6 →
        body e st = DQ.push st.s e.1 e.2 >>= fun r => pure (dqExtG e st r, Flow.normal)) →
      forList body xs.toList st0 >>= fin = DQ.pushAll xs.toList s >>= fun a => pure (a, Val.unit) := by
    intro st0 body h0 hbody
    have := dq_forList_pushAll (n + 1) body dqExtG (fun _ _ _ => rfl) hbody fin (fun s' => (s', Val.unit))
      (fun st' => rfl) xs.toList st0 (by rw [h0]; simp only [Array.length_toList]; omega)
    rw [this, h0]
    simp only [map_eq_pure_bind, Function.comp]
  have hbody : ∀ (e : Item × P) (st : St P), n + 1 ≥ st.s.size + st.s.heap.size + 6 →
      (callWith (exec prog (n + 1)) prog FnId.dqPush st.s [] [e.snd] [Val.item e.fst] >>= fun __x =>
          pure (({ s := __x.fst, n := st.n, p := upd st.p 5 (some e.snd), v := upd (upd st.v 4 (some (Val.item e.fst))) 6 (some __x.snd) } : St P), (Flow.normal : Flow P)))
        = DQ.push st.s e.1 e.2 >>= fun r => pure (dqExtG e st r, (Flow.normal : Flow P)) := by
    intro e st hb
    rw [call_dqPush _ _ _ _ hb]
    simp only [map_eq_pure_bind, bind_assoc, pure_bind, Function.comp, dqExtG]
  by_cases hlo : lo = 0
  · subst hlo
    have hr0 : (reserveC 0 : R Unit) = pure () := by unfold reserveC capLimit; rfl
    simp only [↓reduceIte, hr0, pure_bind, Bool.false_eq_true]
    exact loop _ _ rfl hbody
  · simp only [hlo, ↓reduceIte]
    refine bind_congr_ok fun _ _ => ?_
    by_cases hb : Arith.betterToRebuild s.size lo = true
    · simp only [hb, ↓reduceIte, not_false_eq_true, bind_assoc, pure_bind]
    · simp only [hb, ↓reduceIte, not_false_eq_true, Bool.false_eq_true]
      exact loop _ _ rfl hbody


end PQ.SrcEquiv
