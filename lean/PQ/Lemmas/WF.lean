import PQ.Lemmas.Basic
/-!
# Table well-formedness: basic consequences and preservation by `Store.swap`
-/
set_option linter.unusedSimpArgs false
namespace PQ
namespace Store
variable {P : Type}

theorem TWF.heap_lt {s : Store P} {n p i : Nat} (h : s.TWF n) (hp : s.heap[p]? = some i) : i < n := by
  have hp' : p < n := by have := lt_size_of_getElem? hp; rw [h.heap_size] at this; exact this
  obtain ⟨i', h1, h2⟩ := h.heap_qp p hp'
  rw [hp] at h1; cases h1
  have := lt_size_of_getElem? h2; rw [h.qp_size] at this; exact this

theorem TWF.qp_lt {s : Store P} {n p i : Nat} (h : s.TWF n) (hi : s.qp[i]? = some p) : p < n := by
  have hi' : i < n := by have := lt_size_of_getElem? hi; rw [h.qp_size] at this; exact this
  obtain ⟨p', h1, h2⟩ := h.qp_heap i hi'
  rw [hi] at h1; cases h1
  have := lt_size_of_getElem? h2; rw [h.heap_size] at this; exact this

theorem TWF.qp_of_heap {s : Store P} {n p i : Nat} (h : s.TWF n) (hp : s.heap[p]? = some i) : s.qp[i]? = some p := by
  have hp' : p < n := by have := lt_size_of_getElem? hp; rw [h.heap_size] at this; exact this
  obtain ⟨i', h1, h2⟩ := h.heap_qp p hp'
  rw [hp] at h1; cases h1; exact h2

theorem TWF.heap_of_qp {s : Store P} {n p i : Nat} (h : s.TWF n) (hi : s.qp[i]? = some p) : s.heap[p]? = some i := by
  have hi' : i < n := by have := lt_size_of_getElem? hi; rw [h.qp_size] at this; exact this
  obtain ⟨p', h1, h2⟩ := h.qp_heap i hi'
  rw [hi] at h1; cases h1; exact h2

theorem TWF.heap_some {s : Store P} {n p : Nat} (h : s.TWF n) (hp : p < n) : ∃ i, s.heap[p]? = some i ∧ i < n := by
  obtain ⟨i, h1, _⟩ := h.heap_qp p hp
  exact ⟨i, h1, h.heap_lt h1⟩

theorem TWF.qp_some {s : Store P} {n i : Nat} (h : s.TWF n) (hi : i < n) : ∃ p, s.qp[i]? = some p ∧ p < n := by
  obtain ⟨p, h1, _⟩ := h.qp_heap i hi
  exact ⟨p, h1, h.qp_lt h1⟩

theorem TWF.heap_inj {s : Store P} {n p q i : Nat} (h : s.TWF n) (hp : s.heap[p]? = some i) (hq : s.heap[q]? = some i) : p = q := by
  have h1 := h.qp_of_heap hp; have h2 := h.qp_of_heap hq
  rw [h1] at h2; cases h2; rfl

theorem TWF.map_some {s : Store P} {n i : Nat} (h : s.TWF n) (hi : i < n) : ∃ e, s.map[i]? = some e := by
  have : i < s.map.size := by rw [h.map_size]; exact hi
  exact ⟨s.map[i], by simp [this]⟩

theorem TWF.pr_some {s : Store P} {n p : Nat} (h : s.TWF n) (hp : p < n) : ∃ x, s.pr p = some x := by
  obtain ⟨i, h1, h2⟩ := h.heap_some hp
  obtain ⟨e, he⟩ := h.map_some h2
  exact ⟨e.2, by simp [pr, h1, he]⟩

theorem TWF.entryAt_some {s : Store P} {n p : Nat} (h : s.TWF n) (hp : p < n) : ∃ e, s.entryAt p = some e := by
  obtain ⟨i, h1, h2⟩ := h.heap_some hp
  obtain ⟨e, he⟩ := h.map_some h2
  exact ⟨e, by simp [entryAt, h1, he]⟩

theorem pr_eq_entryAt (s : Store P) (p : Nat) : s.pr p = (s.entryAt p).map (·.2) := by
  unfold pr entryAt; split <;> rfl

/-- `get_priority_from_position` succeeds exactly when the position holds a priority -/
theorem prioAt_eq_ok_iff {s : Store P} {pos : Nat} {x : P} : s.prioAt pos = .ok x ↔ s.pr pos = some x := by
  unfold prioAt pr getU IMap.getIndex unwrapO
  cases h1 : s.heap[pos]? with
  | none => simp [bind, Except.bind]
  | some i =>
    cases h2 : s.map[i]? with
    | none => simp [bind, Except.bind, h2]
    | some e => simp [bind, Except.bind, h2, pure, Except.pure]

theorem TWF.prioAt_ok {s : Store P} {n p : Nat} (h : s.TWF n) (hp : p < n) : ∃ x, s.prioAt p = .ok x ∧ s.pr p = some x := by
  obtain ⟨x, hx⟩ := h.pr_some hp
  exact ⟨x, prioAt_eq_ok_iff.mpr hx, hx⟩

/-- ticking changes nothing but the ghost counter -/
@[simp] theorem tick_map (s : Store P) (k : Nat) : (s.tick k).map = s.map := rfl
@[simp] theorem tick_heap (s : Store P) (k : Nat) : (s.tick k).heap = s.heap := rfl
@[simp] theorem tick_qp (s : Store P) (k : Nat) : (s.tick k).qp = s.qp := rfl
@[simp] theorem tick_size (s : Store P) (k : Nat) : (s.tick k).size = s.size := rfl
@[simp] theorem tick_ticks (s : Store P) (k : Nat) : (s.tick k).ticks = s.ticks + k := rfl
@[simp] theorem tick_pr (s : Store P) (k p : Nat) : (s.tick k).pr p = s.pr p := rfl
@[simp] theorem tick_entryAt (s : Store P) (k p : Nat) : (s.tick k).entryAt p = s.entryAt p := rfl
theorem tick_TWF {s : Store P} {n k : Nat} : (s.tick k).TWF n ↔ s.TWF n :=
  ⟨fun h => ⟨h.1, h.2, h.3, h.4, h.5, h.6⟩, fun h => ⟨h.1, h.2, h.3, h.4, h.5, h.6⟩⟩
theorem tick_tick (s : Store P) (a b : Nat) : (s.tick a).tick b = s.tick (a + b) := by
  simp [tick, Nat.add_assoc]
theorem tick_zero (s : Store P) : s.tick 0 = s := rfl
@[simp] theorem tick_prioAt (s : Store P) (k p : Nat) : (s.tick k).prioAt p = s.prioAt p := rfl

theorem swap_tick (s : Store P) (k a b : Nat) :
    (s.tick k).swap a b = (match s.swap a b with | .ok s' => .ok (s'.tick k) | .error e => .error e) := by
  unfold swap
  simp only [tick_heap, tick_qp, bind, Except.bind, pure, Except.pure]
  cases getU s.heap a 101 with
  | error e => rfl
  | ok ia =>
    cases getU s.heap b 102 with
    | error e => rfl
    | ok ib =>
      dsimp only
      cases swapC s.qp ia ib 103 with
      | error e => rfl
      | ok qp =>
        dsimp only
        cases swapC s.heap a b 104 with
        | error e => rfl
        | ok heap => rfl

/-- the position permutation performed by a swap -/
def swapPos (a b p : Nat) : Nat := if p = a then b else if p = b then a else p

/-- **`Store::swap`** on two valid positions: succeeds, keeps the tables well-formed, leaves the map alone and
exchanges what the two positions hold. -/
theorem swap_spec {s : Store P} {n a b : Nat} (h : s.TWF n) (ha : a < n) (hb : b < n) :
    ∃ s', s.swap a b = .ok s' ∧ s'.TWF n ∧ s'.map = s.map ∧ s'.size = s.size ∧ s'.ticks = s.ticks ∧
      (∀ p, s'.heap[p]? = s.heap[swapPos a b p]?) := by
  obtain ⟨ia, hia, hia'⟩ := h.heap_some ha
  obtain ⟨ib, hib, hib'⟩ := h.heap_some hb
  have qa := h.qp_of_heap hia
  have qb := h.qp_of_heap hib
  refine ⟨{ s with qp := (s.qp.setIfInBounds ia b).setIfInBounds ib a, heap := (s.heap.setIfInBounds a ib).setIfInBounds b ia }, ?_, ?_, rfl, rfl, rfl, ?_⟩
  · simp [swap, getU_ok hia, getU_ok hib, swapC_ok qa qb, swapC_ok hia hib, bind, Except.bind, pure, Except.pure]
  · have hs := h.heap_size; have qs := h.qp_size
    refine ⟨h.map_size, by simp [hs], by simp [qs], ?_, ?_, h.nodup⟩
    · intro p hp
      obtain ⟨i, hi, hi2⟩ := h.heap_qp p hp
      by_cases hpb : p = b
      · subst hpb; refine ⟨ia, ?_, ?_⟩
        · simp [Array.getElem?_setIfInBounds, hs, hp]
        · by_cases hab : ia = ib
          · have := h.heap_inj hia (hab ▸ hib); subst this
            simp [Array.getElem?_setIfInBounds, qs, hab, hib']
          · simp [Array.getElem?_setIfInBounds, qs, hia', hab, Ne.symm hab]
      · by_cases hpa : p = a
        · subst hpa; refine ⟨ib, ?_, ?_⟩
          · simp [Array.getElem?_setIfInBounds, hs, hp, hpb, Ne.symm hpb]
          · simp [Array.getElem?_setIfInBounds, qs, hib']
        · refine ⟨i, ?_, ?_⟩
          · simp [Array.getElem?_setIfInBounds, hs, hpa, hpb, Ne.symm hpa, Ne.symm hpb, hi]
          · have h1 : ia ≠ i := fun e => hpa (h.heap_inj (e ▸ hi) hia)
            have h2 : ib ≠ i := fun e => hpb (h.heap_inj (e ▸ hi) hib)
            simp [Array.getElem?_setIfInBounds, qs, h1, h2, hi2]
    · intro i hi
      obtain ⟨p, hp, hp2⟩ := h.qp_heap i hi
      by_cases hib2 : i = ib
      · subst hib2; refine ⟨a, ?_, ?_⟩
        · simp [Array.getElem?_setIfInBounds, qs, hi]
        · have : p = b := h.heap_inj hp2 hib
          subst this
          by_cases hab : a = p
          · subst hab; rw [hia] at hib; cases hib
            simp [Array.getElem?_setIfInBounds, hs, ha]
          · simp [Array.getElem?_setIfInBounds, hs, ha, hab, Ne.symm hab]
      · by_cases hia2 : i = ia
        · subst hia2; refine ⟨b, ?_, ?_⟩
          · simp [Array.getElem?_setIfInBounds, qs, hi, hib2, Ne.symm hib2]
          · simp [Array.getElem?_setIfInBounds, hs, hb]
        · refine ⟨p, ?_, ?_⟩
          · simp [Array.getElem?_setIfInBounds, qs, hia2, hib2, Ne.symm hia2, Ne.symm hib2, hp]
          · have h1 : a ≠ p := fun e => hia2 (by rw [← e] at hp2; rw [hia] at hp2; cases hp2; rfl)
            have h2 : b ≠ p := fun e => hib2 (by rw [← e] at hp2; rw [hib] at hp2; cases hp2; rfl)
            simp [Array.getElem?_setIfInBounds, hs, h1, h2, hp2]
  · intro p
    have hs := h.heap_size
    unfold swapPos
    by_cases hpb : p = b
    · subst hpb
      by_cases hpa : p = a
      · subst hpa; simp [Array.getElem?_setIfInBounds, hs, ha]
        exact (Array.getElem?_eq_some_iff.mp hia).2.symm
      · simp [Array.getElem?_setIfInBounds, hs, hb, hpa, hia]
    · by_cases hpa : p = a
      · subst hpa; simp [Array.getElem?_setIfInBounds, hs, ha, hpb, Ne.symm hpb, hib]
      · simp [Array.getElem?_setIfInBounds, hs, hpa, hpb, Ne.symm hpa, Ne.symm hpb]

end Store

/-! ## the capacity request at the head of `extend` / `from_iter` / `deserialize`

`extend` and `from_iter` start with `reserveC lo`: below `capLimit` they are the plain strategies, from `capLimit` on they
are the capacity-overflow panic and nothing else.  `deserialize` caps its request at 4096: the announced length never
matters. -/
section Capacity
open Arith
variable {P : Type} [LT P] [DecidableLT P]

theorem MaxQ.extend_of_lt {s : Store P} {lo : Nat} (xs : Array (Item × P)) (h : lo < capLimit) :
    MaxQ.extend s lo xs =
      if (if lo ≠ 0 then betterToRebuild s.size lo else false) = true then MaxQ.heapBuild (s.extend xs)
      else MaxQ.pushAll xs.toList s := by
  unfold MaxQ.extend; exact reserveC_bind_of_lt _ h

theorem MaxQ.extend_of_ge {s : Store P} {lo : Nat} (xs : Array (Item × P)) (h : capLimit ≤ lo) :
    MaxQ.extend s lo xs = .error .capacity := by
  unfold MaxQ.extend; exact reserveC_bind_of_ge _ h

theorem MaxQ.extend_ok_lt {s s' : Store P} {lo : Nat} {xs : Array (Item × P)} (h : MaxQ.extend s lo xs = .ok s') :
    lo < capLimit := by
  unfold MaxQ.extend at h; exact (reserveC_bind_eq_ok.1 h).1

theorem DQ.extend_of_lt {s : Store P} {lo : Nat} (xs : Array (Item × P)) (h : lo < capLimit) :
    DQ.extend s lo xs =
      if (if lo ≠ 0 then betterToRebuild s.size lo else false) = true then DQ.heapBuild (s.extend xs)
      else DQ.pushAll xs.toList s := by
  unfold DQ.extend; exact reserveC_bind_of_lt _ h

theorem DQ.extend_of_ge {s : Store P} {lo : Nat} (xs : Array (Item × P)) (h : capLimit ≤ lo) :
    DQ.extend s lo xs = .error .capacity := by
  unfold DQ.extend; exact reserveC_bind_of_ge _ h

theorem DQ.extend_ok_lt {s s' : Store P} {lo : Nat} {xs : Array (Item × P)} (h : DQ.extend s lo xs = .ok s') :
    lo < capLimit := by
  unfold DQ.extend at h; exact (reserveC_bind_eq_ok.1 h).1

theorem MaxQ.fromIter_of_lt {lo : Nat} (xs : Array (Item × P)) (h : lo < capLimit) :
    MaxQ.fromIter lo xs = MaxQ.heapBuild (Store.fromIter xs) := by
  unfold MaxQ.fromIter; exact reserveC_bind_of_lt _ h

theorem MaxQ.fromIter_of_ge {lo : Nat} (xs : Array (Item × P)) (h : capLimit ≤ lo) :
    MaxQ.fromIter lo xs = .error .capacity := by
  unfold MaxQ.fromIter; exact reserveC_bind_of_ge _ h

theorem MaxQ.fromIter_eq_ok {lo : Nat} {xs : Array (Item × P)} {s' : Store P} :
    MaxQ.fromIter lo xs = .ok s' ↔ lo < capLimit ∧ MaxQ.heapBuild (Store.fromIter xs) = .ok s' := by
  unfold MaxQ.fromIter; exact reserveC_bind_eq_ok

theorem DQ.fromIter_of_lt {lo : Nat} (xs : Array (Item × P)) (h : lo < capLimit) :
    DQ.fromIter lo xs = DQ.heapBuild (Store.fromIter xs) := by
  unfold DQ.fromIter; exact reserveC_bind_of_lt _ h

theorem DQ.fromIter_of_ge {lo : Nat} (xs : Array (Item × P)) (h : capLimit ≤ lo) :
    DQ.fromIter lo xs = .error .capacity := by
  unfold DQ.fromIter; exact reserveC_bind_of_ge _ h

theorem DQ.fromIter_eq_ok {lo : Nat} {xs : Array (Item × P)} {s' : Store P} :
    DQ.fromIter lo xs = .ok s' ↔ lo < capLimit ∧ DQ.heapBuild (Store.fromIter xs) = .ok s' := by
  unfold DQ.fromIter; exact reserveC_bind_eq_ok

/-- the announced length never matters: the pre-allocation is capped -/
theorem MaxQ.deserialize_eq (hint : Option Nat) (xs : Array (Item × P)) :
    MaxQ.deserialize hint xs = MaxQ.heapBuild (Store.visitSeq xs) := by
  unfold MaxQ.deserialize
  cases hint with
  | none => rfl
  | some h => simp only [reserveC_min_4096]; rfl

theorem DQ.deserialize_eq (hint : Option Nat) (xs : Array (Item × P)) :
    DQ.deserialize hint xs = DQ.heapBuild (Store.visitSeq xs) := by
  unfold DQ.deserialize
  cases hint with
  | none => rfl
  | some h => simp only [reserveC_min_4096]; rfl

end Capacity
end PQ
