import PQ.Lemmas.TablesOnly
/-!
# The tables-only invariant: `PriorityQueue` (binary max-heap) — every procedure and every public operation

`TO.SafeR post r` (see `TablesOnly.lean`): `r` is `.ok` with `post`, or the ordinary panic `unwrapNone`.  No order law is
used anywhere: priorities are compared with an arbitrary decidable `<`.
-/
set_option linter.unusedSimpArgs false
set_option linter.unusedSectionVars false
set_option linter.unusedVariables false
namespace PQ
namespace TO
namespace MaxQ
open PQ.MaxQ PQ.Arith
variable {P : Type} [LT P] [DecidableLT P]

/-- what the sifting procedures leave alone -/
def Frame (s s' : Store P) : Prop := s'.map = s.map ∧ s'.size = s.size

theorem pickLargest_to {s : Store P} {n i : Nat} (hh : s.heap.size = n) (hs : s.size = n) (hi : i < n) :
    SafeR (fun r => r.1.heap = s.heap ∧ r.1.qp = s.qp ∧ r.1.map = s.map ∧ r.1.size = s.size ∧ r.2 < n ∧
        (r.2 = i ∨ i < r.2)) (pickLargest s i) := by
  unfold pickLargest
  dsimp only
  refine SafeR.bind (prioAt_to (by omega)) fun ip _ => ?_
  split
  · rename_i hl
    refine SafeR.bind (prioAt_to (by omega)) fun childp _ => ?_
    split
    · rename_i hr
      refine SafeR.bind (prioAt_to (by simp only [Store.tick_size, Store.tick_heap] at hr ⊢; omega)) fun rp _ => ?_
      refine SafeR.pure ⟨rfl, rfl, rfl, rfl, ?_, ?_⟩
      · dsimp only; simp only [Store.tick_size] at hr; split <;> (try split) <;> omega
      · dsimp only; simp only [left, right]; split <;> (try split) <;> omega
    · refine SafeR.pure ⟨rfl, rfl, rfl, rfl, ?_, ?_⟩
      · dsimp only; split <;> omega
      · dsimp only; simp only [left]; split <;> omega
  · exact SafeR.pure ⟨rfl, rfl, rfl, rfl, hi, .inl rfl⟩

theorem heapifyLoop_to (n : Nat) (fuel : Nat) : ∀ (s : Store P) (i : Nat), Tab s n → s.size = n → i < n → n - i ≤ fuel →
    SafeR (fun s' => Tab s' n ∧ s'.map = s.map ∧ s'.size = s.size) (heapifyLoop fuel s i) := by
  induction fuel with
  | zero => intro s i _ _ hi hf; omega
  | succ fuel ih =>
    intro s i h hs hi hf
    unfold heapifyLoop
    refine SafeR.bind (pickLargest_to h.heap_size hs hi) fun r hr => ?_
    obtain ⟨s1, L⟩ := r
    obtain ⟨h1, h2, h3, h4, h5, h6⟩ := hr
    dsimp only at h1 h2 h3 h4 h5 h6 ⊢
    split
    · exact SafeR.pure ⟨h.congr h1 h2, h3, h4⟩
    · rename_i hne
      have hlt : i < L := by rcases h6 with h6 | h6 <;> omega
      refine SafeR.bind (swap_to (h.congr h1 h2) hi h5) fun s2 hs2 => ?_
      obtain ⟨t2, m2, z2⟩ := hs2
      refine SafeR.mono (ih s2 L t2 (by rw [z2, h4, hs]) h5 (by omega)) fun s' hs' => ?_
      exact ⟨hs'.1, by rw [hs'.2.1, m2, h3], by rw [hs'.2.2, z2, h4]⟩


theorem heapify_to {s : Store P} {n i : Nat} (h : Tab s n) (hs : s.size = n) (hi : i < n) :
    SafeR (fun s' => Tab s' n ∧ s'.map = s.map ∧ s'.size = s.size) (heapify s i) := by
  unfold heapify
  split
  · exact SafeR.pure ⟨h, rfl, rfl⟩
  · exact heapifyLoop_to n s.size s i h hs hi (by omega)

theorem bubbleUpLoop_to (v : P) (n idx : Nat) (fuel : Nat) : ∀ (s : Store P) (hole : Nat),
    Hole s n hole idx → hole < fuel →
    SafeR (fun r => Hole r.1 n r.2 idx ∧ r.1.map = s.map ∧ r.1.size = s.size ∧ r.2 ≤ hole)
      (bubbleUpLoop fuel s hole v) := by
  induction fuel with
  | zero => intro s hole _ hf; omega
  | succ fuel ih =>
    intro s hole h hf
    unfold bubbleUpLoop
    split
    · rename_i h0
      have hppn : parent hole < n := by have := h.hole_lt; simp only [parent]; omega
      have hppne : parent hole ≠ hole := by simp only [parent]; omega
      refine SafeR.bind (prioAt_to (by rw [h.heap_size]; exact hppn)) fun pp _ => ?_
      dsimp only
      split
      · refine SafeR.bind (getU_to 201 (by show parent hole < s.heap.size; rw [h.heap_size]; exact hppn)) fun pi hpi => ?_
        obtain ⟨pi', hpi', hpin⟩ := h.heap_some hppn hppne
        have hpi2 : s.heap[parent hole]? = some pi := hpi
        rw [hpi'] at hpi2; cases hpi2
        refine SafeR.bind (setU_to _ 202 (by show hole < s.heap.size; rw [h.heap_size]; exact h.hole_lt)) fun heap hheap => ?_
        refine SafeR.bind (setU_to _ 203 (by show pi < s.qp.size; rw [h.qp_size]; exact hpin)) fun qp hqp => ?_
        subst hheap; subst hqp
        have hstep := (h.tick (k := 1)).step hppn hppne (by simpa using hpi')
        refine SafeR.mono (ih _ (parent hole) hstep (by simp only [parent]; omega)) fun r hr => ?_
        exact ⟨hr.1, hr.2.1, hr.2.2.1, by have := hr.2.2.2; simp only [parent] at this ⊢; omega⟩
      · exact SafeR.pure ⟨h.tick, rfl, rfl, Nat.le_refl _⟩
    · exact SafeR.pure ⟨h, rfl, rfl, Nat.le_refl _⟩

/-- `bubble_up(i, idx)` with `heap[i] = idx` -/
theorem bubbleUp_to {s : Store P} {n i idx : Nat} (h : Tab s n) (hi : s.heap[i]? = some idx) :
    SafeR (fun r => Tab r.1 n ∧ r.1.map = s.map ∧ r.1.size = s.size ∧ r.2 ≤ i) (bubbleUp s i idx) := by
  unfold bubbleUp
  refine SafeR.bind (unwrapO_to _ 204) fun e _ => ?_
  refine SafeR.bind (bubbleUpLoop_to e.2 n idx (i + 1) s i (h.toHole hi) (Nat.lt_succ_self _)) fun r hr => ?_
  obtain ⟨s1, pos⟩ := r
  obtain ⟨hh, hm, hz, hle⟩ := hr
  dsimp only at hh hm hz hle ⊢
  refine SafeR.bind (setU_to _ 205 (by rw [hh.heap_size]; exact hh.hole_lt)) fun heap hheap => ?_
  refine SafeR.bind (setU_to _ 206 (by rw [hh.qp_size]; exact hh.idx_lt)) fun qp hqp => ?_
  subst hheap; subst hqp
  exact SafeR.pure ⟨hh.fill, hm, hz, hle⟩

theorem upHeapify_to {s : Store P} {n i : Nat} (h : Tab s n) (hs : s.size = n) (hi : i < n) :
    SafeR (fun s' => Tab s' n ∧ s'.map = s.map ∧ s'.size = s.size) (upHeapify s i) := by
  unfold upHeapify
  refine SafeR.bind (getU_to 207 (by rw [h.heap_size]; exact hi)) fun tmp htmp => ?_
  refine SafeR.bind (bubbleUp_to h htmp) fun r hr => ?_
  obtain ⟨s1, pos⟩ := r
  obtain ⟨ht, hm, hz, hle⟩ := hr
  dsimp only at ht hm hz hle ⊢
  refine SafeR.mono (heapify_to ht (by rw [hz, hs]) (by omega)) fun s' hs' => ?_
  exact ⟨hs'.1, by rw [hs'.2.1, hm], by rw [hs'.2.2, hz]⟩

theorem heapBuildLoop_to (n : Nat) : ∀ (k : Nat) (s : Store P), Tab s n → s.size = n → k < n →
    SafeR (fun s' => Tab s' n ∧ s'.map = s.map ∧ s'.size = s.size) (heapBuildLoop s k) := by
  intro k
  induction k with
  | zero => intro s h hs hk; exact heapify_to h hs hk
  | succ k ih =>
    intro s h hs hk
    unfold heapBuildLoop
    refine SafeR.bind (heapify_to h hs hk) fun s1 hs1 => ?_
    refine SafeR.mono (ih s1 hs1.1 (by rw [hs1.2.2, hs]) (by omega)) fun s' hs' => ?_
    exact ⟨hs'.1, by rw [hs'.2.1, hs1.2.1], by rw [hs'.2.2, hs1.2.2]⟩

/-- **`heap_build`** from the tables-only invariant -/
theorem heapBuild_to {s : Store P} (h : s.TablesOnlyWF) :
    SafeR (fun s' => s'.TablesOnlyWF ∧ s'.map = s.map ∧ s'.size = s.size) (heapBuild s) := by
  obtain ⟨ht, hm⟩ := towf_iff.1 h
  unfold heapBuild
  split
  · exact SafeR.pure ⟨h, rfl, rfl⟩
  · rename_i h0
    unfold parentC
    rw [if_neg h0]
    refine SafeR.mono (heapBuildLoop_to s.size (parent s.size) s ht rfl (by simp only [parent]; omega)) fun s' hs' => ?_
    exact ⟨towf_of_tab hs'.1 hs'.2.2 (by rw [hs'.2.1]; exact hm), hs'.2.1, hs'.2.2⟩


/-! ## the public operations -/

theorem towf_tick {s : Store P} (h : s.TablesOnlyWF) (k : Nat) : (s.tick k).TablesOnlyWF :=
  ⟨h.heap_size, h.qp_size, h.map_le, h.heap_qp, h.qp_heap⟩

theorem peekMutWrite_to {s : Store P} (h : s.TablesOnlyWF) (w : Item → Item) :
    SafeR (fun r => r.1.TablesOnlyWF) (peekMutWrite s w) := by
  unfold peekMutWrite
  split
  · exact SafeR.pure h
  · rename_i h0
    refine SafeR.bind (getU_to 209 (by rw [h.heap_size]; omega)) fun i _ => ?_
    split
    · exact SafeR.pure (towf_map_update h (by simp))
    · exact SafeR.pure h

theorem pop_cases (s : Store P) :
    (s.size = 0 ∧ pop s = .ok (s, none)) ∨ (s.size = 1 ∧ pop s = s.swapRemove 0) ∨
      (2 ≤ s.size ∧ pop s = (do let (s, r) ← s.swapRemove 0; let s ← heapify s 0; pure (s, r))) := by
  by_cases h0 : s.size = 0
  · exact .inl ⟨h0, by unfold pop; rw [h0]; rfl⟩
  · by_cases h1 : s.size = 1
    · exact .inr (.inl ⟨h1, by unfold pop; rw [h1]; rfl⟩)
    · obtain ⟨n, hn⟩ : ∃ n, s.size = n + 2 := ⟨s.size - 2, by omega⟩
      exact .inr (.inr ⟨by omega, by unfold pop; rw [hn]; rfl⟩)

theorem popIf_cases (s : Store P) (f : Item → P → Bool × Item × P) :
    (s.size = 0 ∧ popIf s f = .ok (s, none)) ∨ (s.size = 1 ∧ popIf s f = s.swapRemoveIf 0 f) ∨
      (2 ≤ s.size ∧ popIf s f = (do let (s, r) ← s.swapRemoveIf 0 f; let s ← heapify s 0; pure (s, r))) := by
  by_cases h0 : s.size = 0
  · exact .inl ⟨h0, by unfold popIf; rw [h0]; rfl⟩
  · by_cases h1 : s.size = 1
    · exact .inr (.inl ⟨h1, by unfold popIf; rw [h1]; rfl⟩)
    · obtain ⟨n, hn⟩ : ∃ n, s.size = n + 2 := ⟨s.size - 2, by omega⟩
      exact .inr (.inr ⟨by omega, by unfold popIf; rw [hn]; rfl⟩)

theorem pop_to {s : Store P} (h : s.TablesOnlyWF) : SafeR (fun r => r.1.TablesOnlyWF) (pop s) := by
  obtain ⟨ht, hm⟩ := towf_iff.1 h
  rcases pop_cases s with ⟨h0, he⟩ | ⟨h1, he⟩ | ⟨h2, he⟩ <;> rw [he]
  · exact SafeR.pure h
  · exact SafeR.mono (swapRemove_to ht rfl hm (by omega)) fun r hr => towf_of_tab hr.1 hr.2.1 hr.2.2.1
  · refine SafeR.bind (swapRemove_to ht rfl hm (by omega)) fun r hr => ?_
    obtain ⟨s1, e⟩ := r
    dsimp only at hr ⊢
    refine SafeR.bind (heapify_to hr.1 hr.2.1 (by omega)) fun s2 hs2 => ?_
    exact SafeR.pure (towf_of_tab hs2.1 (by rw [hs2.2.2, hr.2.1]) (by rw [hs2.2.1]; exact hr.2.2.1))

theorem popIf_to {s : Store P} (h : s.TablesOnlyWF) (f : Item → P → Bool × Item × P) :
    SafeR (fun r => r.1.TablesOnlyWF) (popIf s f) := by
  obtain ⟨ht, hm⟩ := towf_iff.1 h
  rcases popIf_cases s f with ⟨h0, he⟩ | ⟨h1, he⟩ | ⟨h2, he⟩ <;> rw [he]
  · exact SafeR.pure h
  · refine SafeR.mono (swapRemoveIf_to f ht rfl hm (by omega)) fun r hr => ?_
    rcases hr with hr | hr
    · exact towf_of_tab hr.1 hr.2.1 hr.2.2.1
    · exact towf_of_tab hr.1 hr.2.1 hr.2.2.1
  · refine SafeR.bind (swapRemoveIf_to f ht rfl hm (by omega)) fun r hr => ?_
    obtain ⟨s1, e⟩ := r
    dsimp only at hr ⊢
    rcases hr with hr | hr
    · refine SafeR.bind (heapify_to hr.1 hr.2.1 (by omega)) fun s2 hs2 => ?_
      exact SafeR.pure (towf_of_tab hs2.1 (by rw [hs2.2.2, hr.2.1]) (by rw [hs2.2.1]; exact hr.2.2.1))
    · refine SafeR.bind (heapify_to hr.1 hr.2.1 (by omega)) fun s2 hs2 => ?_
      exact SafeR.pure (towf_of_tab hs2.1 (by rw [hs2.2.2, hr.2.1]) (by rw [hs2.2.1]; exact hr.2.2.1))

theorem push_to {s : Store P} (h : s.TablesOnlyWF) (it : Item) (p : P) :
    SafeR (fun r => r.1.TablesOnlyWF) (push s it p) := by
  obtain ⟨ht, hm⟩ := towf_iff.1 h
  unfold push
  rcases IMap.insertFull_cases s.map it p with ⟨i, e, hf, he, hk, hins⟩ | ⟨hf, hins⟩
  · rw [hins]
    dsimp only
    have hil : i < s.map.size := lt_size_of_getElem? he
    refine SafeR.bind (getU_to 210 (by show i < s.qp.size; rw [ht.qp_size]; omega)) fun pos hpos => ?_
    have hposn : pos < s.size := ht.qp_lt hpos
    refine SafeR.bind (upHeapify_to (s := { s with map := s.map.setIfInBounds i (e.1, p) }) (ht.congr rfl rfl) rfl hposn)
      fun s' hs' => ?_
    exact SafeR.pure (towf_of_tab hs'.1 hs'.2.2 (by rw [hs'.2.1]; simpa using hm))
  · rw [hins]
    dsimp only
    refine SafeR.bind (bubbleUp_to (s := { s with map := s.map.push (it, p), qp := s.qp.push s.size, heap := s.heap.push s.size })
      ((ht.push).congr rfl rfl) ht.push_last) fun r hr => ?_
    obtain ⟨s1, pos⟩ := r
    obtain ⟨h1, h2, h3, _⟩ := hr
    dsimp only at h1 h2 h3 ⊢
    refine SafeR.pure (towf_of_tab (n := s.size + 1) (h1.congr rfl rfl) (by show s1.size + 1 = _; rw [h3]) ?_)
    show s1.map.size ≤ _
    rw [h2]; simp; omega

theorem pushIncrease_to {s : Store P} (h : s.TablesOnlyWF) (it : Item) (p : P) :
    SafeR (fun r => r.1.TablesOnlyWF) (pushIncrease s it p) := by
  unfold pushIncrease
  split
  · exact push_to h it p
  · dsimp only
    split
    · exact push_to (towf_tick h 1) it p
    · exact SafeR.pure (towf_tick h 1)

theorem pushDecrease_to {s : Store P} (h : s.TablesOnlyWF) (it : Item) (p : P) :
    SafeR (fun r => r.1.TablesOnlyWF) (pushDecrease s it p) := by
  unfold pushDecrease
  split
  · exact push_to h it p
  · dsimp only
    split
    · exact push_to (towf_tick h 1) it p
    · exact SafeR.pure (towf_tick h 1)

theorem changePriority_to {s : Store P} (h : s.TablesOnlyWF) (k : Nat) (p : P) :
    SafeR (fun r => r.1.TablesOnlyWF) (changePriority s k p) := by
  obtain ⟨ht, hm⟩ := towf_iff.1 h
  unfold changePriority
  refine SafeR.bind (TO.changePriority_to (k := k) p ht hm) fun r hr => ?_
  obtain ⟨s1, o⟩ := r
  obtain ⟨h1, h2, h3, h4, h5, h6⟩ := hr
  dsimp only at h1 h2 h3 h4 h5 h6 ⊢
  split
  · rename_i old pos
    refine SafeR.bind (upHeapify_to (ht.congr h1 h2) h3 (h6 old pos rfl)) fun s' hs' => ?_
    exact SafeR.pure (towf_of_tab hs'.1 (by rw [hs'.2.2, h3]) (by rw [hs'.2.1, h4]; exact hm))
  · exact SafeR.pure (towf_of_tab (ht.congr h1 h2) h3 (by rw [h4]; exact hm))

theorem changePriorityBy_to {s : Store P} (h : s.TablesOnlyWF) (k : Nat) (g : P → P) :
    SafeR (fun r => r.1.TablesOnlyWF) (changePriorityBy s k g) := by
  obtain ⟨ht, hm⟩ := towf_iff.1 h
  unfold changePriorityBy
  refine SafeR.bind (TO.changePriorityBy_to (k := k) g ht hm) fun r hr => ?_
  obtain ⟨s1, o⟩ := r
  obtain ⟨h1, h2, h3, h4, h5, h6⟩ := hr
  dsimp only at h1 h2 h3 h4 h5 h6 ⊢
  split
  · rename_i pos
    refine SafeR.bind (upHeapify_to (ht.congr h1 h2) h3 (h6 pos rfl)) fun s' hs' => ?_
    exact SafeR.pure (towf_of_tab hs'.1 (by rw [hs'.2.2, h3]) (by rw [hs'.2.1, h4]; exact hm))
  · exact SafeR.pure (towf_of_tab (ht.congr h1 h2) h3 (by rw [h4]; exact hm))

theorem remove_to {s : Store P} (h : s.TablesOnlyWF) (k : Nat) :
    SafeR (fun r => r.1.TablesOnlyWF) (remove s k) := by
  obtain ⟨ht, hm⟩ := towf_iff.1 h
  unfold remove
  refine SafeR.bind (TO.remove_to (k := k) ht rfl hm) fun r hr => ?_
  obtain ⟨s1, o⟩ := r
  dsimp only at hr ⊢
  rcases hr with ⟨h1, h2⟩ | ⟨h1, h2, h3, h4, it, p, pos, h5, h6⟩
  · subst h1; subst h2
    exact SafeR.pure h
  · subst h5
    dsimp only
    split
    · rename_i hlt
      refine SafeR.bind (upHeapify_to h1 h2 (by omega)) fun s' hs' => ?_
      exact SafeR.pure (towf_of_tab hs'.1 (by rw [hs'.2.2, h2]) (by rw [hs'.2.1]; exact h3))
    · exact SafeR.pure (towf_of_tab h1 h2 h3)

theorem retainMut_to {s : Store P} (h : s.TablesOnlyWF) (f : Item → P → Bool × Item × P) :
    SafeR (fun s' => s'.TablesOnlyWF) (retainMut s f) :=
  SafeR.mono (heapBuild_to (towf_retainMut h f)) fun _ hs' => hs'.1

theorem append_to {s o : Store P} (h : s.TablesOnlyWF) (ho : o.TablesOnlyWF) :
    SafeR (fun r => r.1.TablesOnlyWF) (append s o) := by
  unfold append
  have := towf_append h ho
  revert this
  cases s.append o with
  | mk s1 o1 =>
    intro this
    dsimp only
    refine SafeR.bind (heapBuild_to this) fun s' hs' => ?_
    exact SafeR.pure hs'.1

theorem ofStore_to {s : Store P} (h : s.TablesOnlyWF) : SafeR (fun s' => s'.TablesOnlyWF) (ofStore s) :=
  SafeR.mono (heapBuild_to h) fun _ hs' => hs'.1

theorem pushAll_to (l : List (Item × P)) : ∀ {s : Store P}, s.TablesOnlyWF →
    SafeR (fun s' => s'.TablesOnlyWF) (pushAll l s) := by
  induction l with
  | nil => intro s h; exact SafeR.pure h
  | cons e es ih =>
    intro s h
    unfold pushAll
    refine SafeR.bind (push_to h e.1 e.2) fun r hr => ?_
    exact ih hr

theorem extend_to {s : Store P} (h : s.TablesOnlyWF) {lo : Nat} (hlo : lo < capLimit) (xs : Array (Item × P)) :
    SafeR (fun s' => s'.TablesOnlyWF) (extend s lo xs) := by
  rw [PQ.MaxQ.extend_of_lt xs hlo]
  by_cases hb : (if lo ≠ 0 then betterToRebuild s.size lo else false) = true
  · rw [if_pos hb]
    exact SafeR.mono (heapBuild_to (towf_extend h xs)) fun _ hs' => hs'.1
  · rw [if_neg hb]
    exact pushAll_to _ h

end MaxQ
end TO
end PQ
