import PQ.Lemmas.BulkProps
/-!
# Sorted consumption of a queue that is only well-formed (all names carry the prefix `swf_`)

The theorems of `PQ/Props/C06.lean` assume the full invariant (`MaxQ.Inv s` / `DQ.Inv s`).  A queue left by a leaked
`iter_mut` guard or by a caught panic inside `Ord::cmp` is only *well-formed* (`s.WF`: the index tables are mutually
inverse bijections agreeing with `size`; NO heap order).  This file proves the order-free halves of the C06 theorems
from `s.WF` alone: the sorted vectors and the sorted iterators never fault, yield each stored element exactly once and
then `None` forever, and `len`/`size_hint` (the `size` of the store the iterator still holds) are exact at every step.
Nothing is said about the ORDER of the answers (there is none to speak of on such a queue).

No operation involved needs the heap order to be fault-free.
-/
set_option linter.unusedSimpArgs false
set_option linter.unusedSectionVars false
set_option linter.unusedVariables false
namespace PQ
open Store
variable {P : Type} [LT P] [DecidableLT P] [LE P] [Std.IsLinearPreorder P] [Std.LawfulOrderLT P]

/-! ## A concrete well-formed store that is ordered neither as a max-heap nor as a min-max heap -/

/-- five entries, priorities by heap position: 3 / 9 1 / 5 7 (the root is neither the greatest nor the smallest) -/
def swf_exU : Store Nat :=
  { map := #[(⟨1, 10⟩, 3), (⟨2, 20⟩, 9), (⟨3, 30⟩, 1), (⟨4, 40⟩, 5), (⟨5, 50⟩, 7)],
    heap := #[0, 1, 2, 3, 4], qp := #[0, 1, 2, 3, 4], size := 5 }

theorem swf_exU_wf : swf_exU.WF := by decide +kernel

theorem swf_exU_not_maxHeap : ¬ MaxQ.Inv swf_exU := by decide +kernel

theorem swf_exU_not_minMaxHeap : ¬ swf_exU.MinMaxHeap := fun hm => by
  have := hm 0 2 (Anc.parent (d := 2) (by decide)) (by decide) 3 1 (by decide +kernel) (by decide +kernel)
  revert this; decide

/-! ## `PriorityQueue` -/

/-- **`into_sorted_vec` of a well-formed `PriorityQueue`** (no order hypothesis): never faults, yields a permutation of
the stored entries (every element exactly once: as many as `len`, the stored ones, with pairwise distinct items) -/
theorem swf_pq_sorted_vec {s : Store P} (h : s.WF) :
    ∃ l, MaxQ.intoSortedVec s = .ok l ∧ l.Perm s.map.toList ∧ l.length = s.size ∧ (∀ e, e ∈ l ↔ s.Mem e) ∧
      (l.map (·.1.key)).Nodup := by
  obtain ⟨l, hl, hlen, hmem, hnd⟩ := MaxQ.intoSortedVec_safe h
  exact ⟨l, hl, bp_perm_of_mem h hnd hmem, hlen, hmem, hnd⟩

/-- the "sorted" vector of the unordered `swf_exU` is a permutation of its entries that is NOT sorted -/
example : swf_exU.WF ∧ ¬ MaxQ.Inv swf_exU ∧ bp_okR (MaxQ.intoSortedVec swf_exU)
    (fun l => l.map (·.2) = [3, 9, 7, 5, 1]) := by decide +kernel

theorem swf_popCalls (n : Nat) : ∀ {s : Store P}, s.WF →
    ∃ l s', MaxQ.intoSortedVec s = .ok l ∧
      bp_popCalls n s = .ok ((l.take n).map some ++ List.replicate (n - l.length) none, s') ∧
      s'.WF ∧ s'.size = s.size - n ∧ MaxQ.intoSortedVec s' = .ok (l.drop n) := by
  induction n with
  | zero =>
    intro s h
    obtain ⟨l, hl, _⟩ := MaxQ.intoSortedVec_safe h
    exact ⟨l, s, hl, by simp [bp_popCalls, pure, Except.pure], h, by simp, by simpa using hl⟩
  | succ n ih =>
    intro s h
    obtain ⟨h0, h1⟩ := MaxQ.pop_safe h
    rcases Nat.eq_zero_or_pos s.size with hz | hpos
    · obtain ⟨l, s', hl, hrun, hwf, hsz, hrest⟩ := ih h
      have hnil : MaxQ.intoSortedVec s = .ok [] := by
        unfold MaxQ.intoSortedVec; rw [hz]; exact MaxQ.drainSorted_nil 0 hz
      rw [hnil] at hl; cases hl
      refine ⟨[], s', hnil, ?_, hwf, by omega, by simpa using hrest⟩
      simp only [bp_popCalls, h0 hz, bind, Except.bind, hrun, pure, Except.pure]
      simp [List.replicate_succ]
    · obtain ⟨s1, e, hpop, _, hwf1, _, hsz1⟩ := h1 hpos
      obtain ⟨l, s', hl, hrun, hwf, hsz, hrest⟩ := ih hwf1
      have hcons : MaxQ.intoSortedVec s = .ok (e :: l) := by
        unfold MaxQ.intoSortedVec at hl ⊢
        have : s.size = s1.size + 1 := by omega
        rw [this]
        exact MaxQ.drainSorted_cons hpop hl
      refine ⟨e :: l, s', hcons, ?_, hwf, by omega, by simpa using hrest⟩
      simp only [bp_popCalls, hpop, bind, Except.bind, hrun, pure, Except.pure]
      simp

/-- **`into_sorted_iter` of a well-formed `PriorityQueue`, consumed from the front** (no order hypothesis): with `l`
the vector `into_sorted_vec` would give, ANY number `n` of `next` calls never faults and answers the first `n` elements
of `l` (all of `l` when `n ≥ len`) and then `None` forever; the iterator then holds a well-formed queue of `len - n`
elements (what `len`/`size_hint` report) whose own vector is the rest of `l` -/
theorem swf_pq_sorted_iter {s : Store P} (h : s.WF) :
    ∃ l, MaxQ.intoSortedVec s = .ok l ∧
      ∀ n, ∃ s', bp_popCalls n s = .ok ((l.take n).map some ++ List.replicate (n - l.length) none, s') ∧
        s'.WF ∧ s'.size = s.size - n ∧ MaxQ.intoSortedVec s' = .ok (l.drop n) := by
  obtain ⟨l, hl, _⟩ := MaxQ.intoSortedVec_safe h
  refine ⟨l, hl, fun n => ?_⟩
  obtain ⟨l', s', hl', hrun, hwf, hsz, hrest⟩ := swf_popCalls n h
  rw [hl] at hl'; cases hl'
  exact ⟨s', hrun, hwf, hsz, hrest⟩

example : swf_exU.WF ∧ ¬ MaxQ.Inv swf_exU ∧
    bp_okR (bp_popCalls 7 swf_exU) (fun r => r.1.map (fun o => o.map (·.2)) =
      [some 3, some 9, some 7, some 5, some 1, none, none] ∧ r.2.size = 0) ∧
    bp_okR (bp_popCalls 2 swf_exU) (fun r => r.1.map (fun o => o.map (·.2)) = [some 3, some 9] ∧ r.2.size = 3) := by
  decide +kernel

/-! ## `DoublePriorityQueue`: the sorted vectors -/

/-- **`into_ascending_sorted_vec` of a well-formed `DoublePriorityQueue`** (no order hypothesis): never faults, a
permutation of the stored entries -/
theorem swf_dpq_ascending {s : Store P} (h : s.WF) :
    ∃ l, DQ.intoAscendingSortedVec s = .ok l ∧ l.Perm s.map.toList ∧ l.length = s.size ∧ (∀ e, e ∈ l ↔ s.Mem e) ∧
      (l.map (·.1.key)).Nodup := by
  obtain ⟨l, hl, hlen, hmem, hnd⟩ := DQ.intoAscendingSortedVec_safe h
  exact ⟨l, hl, bp_perm_of_mem h hnd hmem, hlen, hmem, hnd⟩

example : swf_exU.WF ∧ ¬ swf_exU.MinMaxHeap ∧ bp_okR (DQ.intoAscendingSortedVec swf_exU)
    (fun l => l.map (·.2) = [3, 1, 5, 7, 9]) := ⟨swf_exU_wf, swf_exU_not_minMaxHeap, by decide +kernel⟩

/-- **`into_descending_sorted_vec` of a well-formed `DoublePriorityQueue`** (no order hypothesis): never faults, a
permutation of the stored entries -/
theorem swf_dpq_descending {s : Store P} (h : s.WF) :
    ∃ l, DQ.intoDescendingSortedVec s = .ok l ∧ l.Perm s.map.toList ∧ l.length = s.size ∧ (∀ e, e ∈ l ↔ s.Mem e) ∧
      (l.map (·.1.key)).Nodup := by
  obtain ⟨l, hl, hlen, hmem, hnd⟩ := DQ.intoDescendingSortedVec_safe h
  exact ⟨l, hl, bp_perm_of_mem h hnd hmem, hlen, hmem, hnd⟩

example : swf_exU.WF ∧ ¬ swf_exU.MinMaxHeap ∧ bp_okR (DQ.intoDescendingSortedVec swf_exU)
    (fun l => l.map (·.2) = [9, 7, 5, 1, 3]) := ⟨swf_exU_wf, swf_exU_not_minMaxHeap, by decide +kernel⟩

/-! ## `DoublePriorityQueue`: the double-ended sorted iterator -/

/-- **the state of the double-ended sorted iterator of a well-formed queue before call `j`**: it is the state reached
by the first `j` calls, it is well-formed, its size is the original size minus the number of entries handed out so far;
if it is empty, call `j` and every later call answer `none`; otherwise call `j` answers an entry it holds -/
theorem swf_sortedCalls_at {s s' : Store P} (h : s.WF) {calls : List Bool} {outs : List (Option (Item × P))}
    (hrun : DQ.sortedCalls calls s = .ok (outs, s')) (j : Nat) (hj : j < calls.length) :
    ∃ sj, DQ.sortedCalls (calls.take j) s = .ok (outs.take j, sj) ∧ sj.WF ∧
      sj.size + ((outs.take j).filterMap id).length = s.size ∧
      (sj.size = 0 → ∀ j', j ≤ j' → j' < calls.length → outs[j']? = some none) ∧
      (0 < sj.size → ∃ e, outs[j]? = some (some e) ∧ sj.Mem e) := by
  obtain ⟨o1, sj, hr1, hwf1, hlen1, _, _, _⟩ := DQ.sortedCalls_safe h (calls.take j)
  obtain ⟨o2, s2, hr2, _, hlen2, _, _, _⟩ := DQ.sortedCalls_safe hwf1 (calls.drop j)
  have happ := bp_sortedCalls_append _ _ _ _ _ _ _ hr1 hr2
  rw [List.take_append_drop, hrun] at happ
  simp only [Except.ok.injEq, Prod.mk.injEq] at happ
  obtain ⟨houts, _⟩ := happ
  have hl1 : o1.length = j := by rw [hlen1, List.length_take]; omega
  have htake : outs.take j = o1 := by rw [houts, List.take_left' hl1]
  have hget : ∀ j', j ≤ j' → outs[j']? = o2[j' - j]? := by
    intro j' hjj
    rw [houts, List.getElem?_append_right (by omega), hl1]
  refine ⟨sj, by rw [htake]; exact hr1, hwf1, by rw [htake]; exact bp_sortedCalls_count _ h hr1, ?_, ?_⟩
  · intro hz j' hjj hj'
    have := bp_sortedCalls_zero (calls.drop j) hwf1 hz
    rw [hr2] at this
    simp only [Except.ok.injEq, Prod.mk.injEq] at this
    rw [hget j' hjj, this.1, List.getElem?_replicate, if_pos (by rw [List.length_drop]; omega)]
  · intro hpos
    have hdrop : calls.drop j = calls[j] :: calls.drop (j + 1) := List.drop_eq_getElem_cons hj
    rw [hdrop] at hr2
    obtain ⟨s1, r, rest, hstep, _, rfl⟩ := bp_sortedCalls_cons_inv hr2
    obtain ⟨s1', e, hstep', hheld, _, _, _, _⟩ := (DQ.sortedStep_core hwf1 calls[j]).2 hpos
    rw [hstep] at hstep'
    simp only [Except.ok.injEq, Prod.mk.injEq] at hstep'
    obtain ⟨_, rfl⟩ := hstep'
    exact ⟨e, by rw [hget j (Nat.le_refl _)]; simp, (DQ.mem_iff_abs hwf1).2 hheld⟩

/-- **every stored element exactly once**: the entries handed out by a run of the double-ended sorted iterator
together with the entries still held afterwards are a permutation of the entries stored at the start -/
theorem swf_sortedCalls_perm {s s' : Store P} (h : s.WF) (h' : s'.WF) {calls : List Bool}
    {outs : List (Option (Item × P))} (hsr : DQ.SortedRun DQ.HeldQ s.abs calls outs s'.abs) :
    ((outs.filterMap id) ++ s'.map.toList).Perm s.map.toList := by
  have hnd : ((outs.filterMap id).map (·.1.key)).Nodup := DQ.SortedRun.nodup (fun _ _ _ hq => hq) hsr
  obtain ⟨hheld, hkeep⟩ := DQ.SortedRun.held (fun _ _ _ hq => hq) hsr
  have hout : ∀ e, e ∈ outs.filterMap id ↔ some e ∈ outs := by
    intro e
    rw [List.mem_filterMap]
    constructor
    · rintro ⟨o, ho, hoe⟩
      simp only [id_eq] at hoe; subst hoe; exact ho
    · intro he
      exact ⟨some e, he, rfl⟩
  have hmem' : ∀ e, e ∈ s'.map.toList ↔ s'.Mem e := by
    intro e
    rw [Array.mem_toList_iff, Array.mem_iff_getElem?]
    rfl
  apply bp_perm_of_mem h
  · rw [List.map_append, List.nodup_append]
    refine ⟨hnd, IMap.noDupKeys_iff_nodup.1 h'.nodup, ?_⟩
    intro a ha b hb hab
    obtain ⟨ea, hea, rfl⟩ := List.mem_map.1 ha
    obtain ⟨eb, heb, rfl⟩ := List.mem_map.1 hb
    have h1 := (hheld ea ((hout ea).1 hea)).2
    have h2 := (DQ.mem_iff_abs h').1 ((hmem' eb).1 heb)
    rw [← hab, h1] at h2
    cases h2
  · intro e
    rw [List.mem_append, hout, hmem', DQ.mem_iff_abs h, DQ.mem_iff_abs h']
    constructor
    · rintro (he | he)
      · exact (hheld e he).1
      · rw [← hkeep e.1.key]
        · exact he
        · intro e' he' hk
          have := (hheld e' he').2
          rw [hk, he] at this
          cases this
    · intro he
      by_cases hex : ∃ e', some e' ∈ outs ∧ e'.1.key = e.1.key
      · obtain ⟨e', he', hk⟩ := hex
        have := (hheld e' he').1
        rw [hk, he] at this
        cases this
        exact Or.inl he'
      · right
        rw [hkeep e.1.key]
        · exact he
        · intro e' he' hk
          exact hex ⟨e', he', hk⟩

/-- **the double-ended sorted iterator of a well-formed `DoublePriorityQueue`** (no order hypothesis), for EVERY
interleaving `calls` of `next` (`false`) and `next_back` (`true`), calls after exhaustion included.  It never faults.
With `outs` the answers and `s'` the queue held afterwards:

* the entries handed out have pairwise distinct items (the two ends never return the same element), each was stored
  at the start and is not held afterwards;
* the entries handed out together with the entries still held are a permutation of the entries stored at the start
  (each stored element exactly once);
* call by call: before call `j` the iterator holds `sj`, the state after the first `j` calls; `sj` is a well-formed
  queue whose length (= what `len`/`size_hint` report) is the original length minus the number of entries handed out
  so far; if `sj` is empty call `j` AND EVERY LATER CALL answer `None`; otherwise call `j` answers an entry held by `sj`;
* afterwards the iterator holds a well-formed queue of `len - (number of entries handed out)` elements. -/
theorem swf_dpq_deque {s : Store P} (h : s.WF) (calls : List Bool) :
    ∃ outs s', DQ.sortedCalls calls s = .ok (outs, s') ∧ s'.WF ∧ outs.length = calls.length ∧
      ((outs.filterMap id).map (·.1.key)).Nodup ∧
      (∀ e, some e ∈ outs → s.Mem e ∧ ¬ s'.Mem e) ∧
      ((outs.filterMap id) ++ s'.map.toList).Perm s.map.toList ∧
      (∀ e, s.Mem e ↔ (some e ∈ outs ∨ s'.Mem e)) ∧
      s'.size = s.size - (outs.filterMap id).length ∧ (outs.filterMap id).length = min s.size calls.length ∧
      (∀ j, j < calls.length →
        ∃ sj, DQ.sortedCalls (calls.take j) s = .ok (outs.take j, sj) ∧ sj.WF ∧
          sj.size = s.size - ((outs.take j).filterMap id).length ∧
          (sj.size = 0 → ∀ j', j ≤ j' → j' < calls.length → outs[j']? = some none) ∧
          (0 < sj.size → ∃ e, outs[j]? = some (some e) ∧ sj.Mem e)) := by
  obtain ⟨outs, s', hrun, hwf, hlen, hsz, hsr, hnd⟩ := DQ.sortedCalls_safe h calls
  have hcount := bp_sortedCalls_count calls h hrun
  have hheld := (DQ.SortedRun.held (fun _ _ _ hq => hq) hsr).1
  have hperm := swf_sortedCalls_perm h hwf hsr
  refine ⟨outs, s', hrun, hwf, hlen, hnd, fun e he => ?_, hperm, fun e => ?_, by omega, by omega, fun j hj => ?_⟩
  · obtain ⟨h1, h2⟩ := hheld e he
    refine ⟨(DQ.mem_iff_abs h).2 h1, fun hm => ?_⟩
    rw [(DQ.mem_iff_abs hwf).1 hm] at h2; cases h2
  · have h1 : s.Mem e ↔ e ∈ s.map.toList := by
      rw [Array.mem_toList_iff, Array.mem_iff_getElem?]; rfl
    have h2 : s'.Mem e ↔ e ∈ s'.map.toList := by
      rw [Array.mem_toList_iff, Array.mem_iff_getElem?]; rfl
    rw [h1, h2, ← hperm.mem_iff, List.mem_append, List.mem_filterMap]
    constructor
    · rintro (⟨o, ho, hoe⟩ | hm)
      · simp only [id_eq] at hoe; subst hoe; exact Or.inl ho
      · exact Or.inr hm
    · rintro (he | hm)
      · exact Or.inl ⟨some e, he, rfl⟩
      · exact Or.inr hm
  · obtain ⟨sj, h1, h2, h3, h4, h5⟩ := swf_sortedCalls_at h hrun j hj
    exact ⟨sj, h1, h2, by omega, h4, h5⟩

/-- on the unordered `swf_exU` the two ends hand out every entry once (in no particular order), then `None` forever;
after three calls the iterator still holds exactly the two entries not handed out -/
example : swf_exU.WF ∧ ¬ swf_exU.MinMaxHeap ∧
    bp_okR (DQ.sortedCalls [false, true, false, true, true, false, false] swf_exU)
      (fun r => r.1.map (fun o => o.map (·.2)) = [some 3, some 9, some 1, some 7, some 5, none, none] ∧
        r.2.size = 0) ∧
    bp_okR (DQ.sortedCalls [false, true, false] swf_exU)
      (fun r => r.1.map (fun o => o.map (·.2)) = [some 3, some 9, some 1] ∧ r.2.size = 2 ∧
        r.2.map.toList.map (·.2) = [7, 5]) :=
  ⟨swf_exU_wf, swf_exU_not_minMaxHeap, by decide +kernel⟩

end PQ

#print axioms PQ.swf_pq_sorted_vec
#print axioms PQ.swf_pq_sorted_iter
#print axioms PQ.swf_dpq_ascending
#print axioms PQ.swf_dpq_descending
#print axioms PQ.swf_dpq_deque
