import PQ.Model.SrcF
import PQ.Lemmas.SrcEquivDQ
import PQ.Lemmas.SrcEquivStore2
/-!
# Source-translated tie under panics (`SrcEquivF`)

`PQ/Model/SrcF.lean` gives the generated terms a second meaning in which the `fuse`-th comparison of two priorities panics
and the frames unwind (running the translated `Drop for Hole`).  The theorems here say that this meaning coincides with the
fused twins of `PQ/Model/Crash.lean`: the same result when nothing panics, and otherwise the same store after unwinding
(or the same fault of the guard's writes).
-/
set_option linter.unusedSimpArgs false
set_option linter.unusedSectionVars false
namespace PQ.SrcEquivF
open PQ PQ.Src PQ.SrcGen PQ.SrcF PQ.Crash PQ.SrcEquiv
variable {P : Type} [LT P] [DecidableLT P]

/-! ## monad facts for the fused interpreter -/
theorem errorF_bind {α β : Type} (e : StopF P) (f : α → CF P β) : ((Except.error e : CF P α) >>= f) = Except.error e := rfl
theorem okF_bind {α β : Type} (a : α) (f : α → CF P β) : ((Except.ok a : CF P α) >>= f) = f a := rfl
theorem errorC_bind {α β : Type} (e : Stop P) (f : α → CR P β) : ((Except.error e : CR P α) >>= f) = Except.error e := rfl
theorem okC_bind {α β : Type} (a : α) (f : α → CR P β) : ((Except.ok a : CR P α) >>= f) = f a := rfl
@[simp] theorem liftF_ok {α : Type} (a : α) : (liftF (.ok a : R α) : CF P α) = .ok a := rfl
@[simp] theorem liftF_error {α : Type} (f : Fault) : (liftF (.error f : R α) : CF P α) = .error (.fault f) := rfl
@[simp] theorem liftF_pure {α : Type} (a : α) : (liftF (pure a : R α) : CF P α) = pure a := rfl
theorem liftF_bind {α β : Type} (x : R α) (f : α → R β) :
    (liftF (x >>= f) : CF P β) = liftF x >>= fun a => liftF (f a) := by
  cases x <;> rfl
theorem liftF_ite {α : Type} (c : Prop) [Decidable c] (a b : R α) :
    (liftF (if c then a else b) : CF P α) = if c then liftF a else liftF b := by split <;> rfl
theorem iteF_bind {α β : Type} (c : Prop) [Decidable c] (a b : CF P α) (f : α → CF P β) :
    (if c then a else b) >>= f = if c then a >>= f else b >>= f := by split <;> rfl
theorem iteC_bind {α β : Type} (c : Prop) [Decidable c] (a b : CR P α) (f : α → CR P β) :
    (if c then a else b) >>= f = if c then a >>= f else b >>= f := by split <;> rfl

/-! explicit equations of `execStepF` (the one for `.while` is used only where a loop is entered) -/
section
variable (fuse : Nat) (dropFuse : Bool) (plain : Stmt → St P → R (St P × Flow P)) (callf : CallF P)
  (recF : Stmt → St P → CF P (St P × Flow P)) (callfF : CallFF P) (byRef : FnId → Bool) (st : St P)

theorem esF_seq (a b : Stmt) :
    execStepF fuse dropFuse plain callf recF callfF byRef (.seq a b) st =
      (execStepF fuse dropFuse plain callf recF callfF byRef a st >>= fun r => match r.2 with
        | .normal => execStepF fuse dropFuse plain callf recF callfF byRef b r.1
        | fl => pure (r.1, fl)) := rfl
theorem esF_ite (c : BExpr) (t e : Stmt) :
    execStepF fuse dropFuse plain callf recF callfF byRef (.ite c t e) st =
      (evalBF fuse callf st c >>= fun r =>
        if r.2 then execStepF fuse dropFuse plain callf recF callfF byRef t (st.setS r.1)
        else execStepF fuse dropFuse plain callf recF callfF byRef e (st.setS r.1)) := rfl
theorem esF_while (c : BExpr) (body : Stmt) :
    execStepF fuse dropFuse plain callf recF callfF byRef (.while c body) st =
      (evalBF fuse callf st c >>= fun r =>
        if r.2 then
          execStepF fuse dropFuse plain callf recF callfF byRef body (st.setS r.1) >>= fun x =>
            match x.2 with
            | .normal => recF (.while c body) x.1
            | .brk => pure (x.1, .normal)
            | .ret v => pure (x.1, .ret v)
        else pure (st.setS r.1, .normal)) := rfl
theorem esF_setN (v : Var) (e : NExpr) :
    execStepF fuse dropFuse plain callf recF callfF byRef (.setN v e) st = liftF (plain (.setN v e) st) := rfl
theorem esF_setP (v : Var) (e : PExpr) :
    execStepF fuse dropFuse plain callf recF callfF byRef (.setP v e) st = liftF (plain (.setP v e) st) := rfl
theorem esF_heapSetU (site : Nat) (i x : NExpr) :
    execStepF fuse dropFuse plain callf recF callfF byRef (.heapSetU site i x) st = liftF (plain (.heapSetU site i x) st) := rfl
theorem esF_qpSetU (site : Nat) (i x : NExpr) :
    execStepF fuse dropFuse plain callf recF callfF byRef (.qpSetU site i x) st = liftF (plain (.qpSetU site i x) st) := rfl
theorem esF_brk : execStepF fuse dropFuse plain callf recF callfF byRef .brk st = liftF (plain .brk st) := rfl
theorem esF_skip : execStepF fuse dropFuse plain callf recF callfF byRef .skip st = liftF (plain .skip st) := rfl
theorem esF_retN (e : NExpr) :
    execStepF fuse dropFuse plain callf recF callfF byRef (.retN e) st = liftF (plain (.retN e) st) := rfl
end

/-! the plain interpreter on the leaf statements (any positive fuel) -/
theorem exec_setN (prog : Prog) (n : Nat) (v : Var) (e : NExpr) (st : St P) :
    exec prog (n + 1) (.setN v e) st = (evalN st e >>= fun x => pure (st.setN v x, Flow.normal)) := rfl
theorem exec_setP (prog : Prog) (n : Nat) (v : Var) (e : PExpr) (st : St P) :
    exec prog (n + 1) (.setP v e) st
      = (evalP (callWith (exec prog n) prog) st e >>= fun r => pure ((st.setS r.1).setP v r.2, Flow.normal)) := rfl
theorem exec_heapSetU (prog : Prog) (n : Nat) (site : Nat) (i x : NExpr) (st : St P) :
    exec prog (n + 1) (.heapSetU site i x) st = (evalN st i >>= fun i => evalN st x >>= fun x =>
      setU st.s.heap i x site >>= fun heap => pure (st.setS { st.s with heap := heap }, Flow.normal)) := rfl
theorem exec_qpSetU (prog : Prog) (n : Nat) (site : Nat) (i x : NExpr) (st : St P) :
    exec prog (n + 1) (.qpSetU site i x) st = (evalN st i >>= fun i => evalN st x >>= fun x =>
      setU st.s.qp i x site >>= fun qp => pure (st.setS { st.s with qp := qp }, Flow.normal)) := rfl
theorem exec_brk (prog : Prog) (n : Nat) (st : St P) : exec prog (n + 1) .brk st = pure (st, Flow.brk) := rfl
theorem exec_skip (prog : Prog) (n : Nat) (st : St P) : exec prog (n + 1) .skip st = pure (st, Flow.normal) := rfl
theorem exec_retN (prog : Prog) (n : Nat) (e : NExpr) (st : St P) :
    exec prog (n + 1) (.retN e) st = (evalN st e >>= fun x => pure (st, Flow.ret (.nat x))) := rfl

theorem execF_succ (prog : Prog) (uw : Unwind) (fuse : Nat) (dropFuse : Bool) (k : Nat) (c : Stmt) (st : St P) :
    execStepF fuse dropFuse (exec prog (k + 1)) (callWith (exec prog k) prog) (execF prog uw fuse dropFuse k)
      (callWithF (execF prog uw fuse dropFuse k) (exec prog k) prog uw) (fun f => (uw f).2) c st
      = execF prog uw fuse dropFuse (k + 1) c st := rfl

/-- a fused frame result in the crash model's vocabulary: `fill` is the frame's unwind code (run on the panic state),
`proj` what is kept of a normal completion -/
def toCR {β : Type} (fill : St P → R (Store P)) (proj : St P → β) : CF P (St P × Flow P) → CR P (β × Flow P)
  | .ok r => .ok (proj r.1, r.2)
  | .error (.fault f) => .error (.fault f)
  | .error (.panic stp) =>
    match fill stp with
    | .ok s' => .error (.crashed s')
    | .error f => .error (.fault f)

theorem toCR_bind {β : Type} (fill : St P → R (Store P)) (proj : St P → β) (x : CF P (St P × Flow P))
    (k : St P × Flow P → CF P (St P × Flow P)) :
    toCR fill proj (x >>= k) = match x with
      | .ok r => toCR fill proj (k r)
      | .error e => toCR fill proj (.error e) := by
  cases x <;> rfl

theorem liftR_ite {α : Type} (c : Prop) [Decidable c] (a b : R α) :
    (liftR (if c then a else b) : CR P α) = if c then liftR a else liftR b := by split <;> rfl

theorem toCR_liftF_bind {α β : Type} (fill : St P → R (Store P)) (proj : St P → β) (x : R α)
    (k : α → CF P (St P × Flow P)) :
    toCR fill proj (liftF x >>= k) = liftR x >>= fun a => toCR fill proj (k a) := by
  cases x <;> rfl

theorem toCR_cmpAt_bind {β : Type} (fill : St P → R (Store P)) (proj : St P → β) (fuse : Nat) (st : St P) (a b : P)
    (k : Store P × Bool → CF P (St P × Flow P)) :
    toCR fill proj (cmpAt fuse st a b >>= k) =
      if st.s.ticks + 1 = fuse then
        (match fill st with
          | .ok s' => .error (.crashed s')
          | .error f => .error (.fault f))
      else toCR fill proj (k (st.s.tick, decide (a < b))) := by
  unfold cmpAt
  split <;> rfl

theorem cmpHoleF_bind {α : Type} (fuse : Nat) (s : Store P) (a b : P) (pos mp h q : Nat)
    (g : Store P × Bool → CR P α) :
    cmpHoleF fuse s a b pos mp h q >>= g =
      if s.ticks + 1 = fuse then
        (match fillHole s pos mp h q with
          | .ok s' => .error (.crashed s')
          | .error f => .error (.fault f))
      else g (s.tick, decide (a < b)) := by
  unfold cmpHoleF
  split
  · cases fillHole s pos mp h q <;> rfl
  · rfl

theorem toCR_ite {β : Type} (fill : St P → R (Store P)) (proj : St P → β) (c : Prop) [Decidable c]
    (a b : CF P (St P × Flow P)) :
    toCR fill proj (if c then a else b) = if c then toCR fill proj a else toCR fill proj b := by split <;> rfl

theorem toCR_pure {β : Type} (fill : St P → R (Store P)) (proj : St P → β) (r : St P × Flow P) :
    toCR fill proj (pure r) = pure (proj r.1, r.2) := rfl

theorem liftR_bind_congr_ok {α β : Type} {x : R α} {f g : α → CR P β} (h : ∀ a, x = .ok a → f a = g a) :
    liftR x >>= f = liftR x >>= g := by
  cases x with
  | error e => rfl
  | ok a => exact h a rfl

/-- the hole of `PriorityQueue::bubble_up`: registers 3 (position) and 4 (map position) -/
def fillPQ (stp : St P) : R (Store P) := fillHole stp.s (stp.n 3) (stp.n 4) 205 206

theorem pqBubbleUp_loop_condF (fuse : Nat) (callf : CallF P) (st : St P) :
    evalBF fuse callf st pqBubbleUp_loop1_cond = pure (st.s, decide (st.n 3 > 0)) := by
  simp only [pqBubbleUp_loop1_cond, evalBF, evalB, evalN, pure_bind, bind_assoc]
  rfl

theorem pqBubbleUp_loopF (fuse mp : Nat) (f : Nat) : ∀ (k : Nat) (st : St P) (prio : P), f ≤ k → st.p 2 = some prio →
    st.n 4 = mp →
    Crash.MaxQ.bubbleUpLoopF fuse mp f st.s (st.n 3) prio ≠ .error (.fault .fuel) →
    toCR fillPQ (fun st' => (st'.s, st'.n 3, st'.n 4, st'.p 2))
        (execF prog unwind fuse false (k + 1) (.while pqBubbleUp_loop1_cond pqBubbleUp_loop1_body) st)
      = (fun r => ((r.1, r.2, mp, some prio), Flow.normal)) <$> Crash.MaxQ.bubbleUpLoopF fuse mp f st.s (st.n 3) prio := by
  induction f with
  | zero => intro k st prio _ _ _ hne; exact absurd rfl hne
  | succ f ih =>
    intro k st prio hk hp hmp hne
    obtain ⟨k, rfl⟩ : ∃ k', k = k' + 1 := ⟨k - 1, by omega⟩
    rw [execF, esF_while, pqBubbleUp_loop_condF]
    simp only [pure_bind, Crash.MaxQ.bubbleUpLoopF] at hne ⊢
    by_cases hc : st.n 3 > 0
    · have h0 : ¬ st.n 3 = 0 := by omega
      simp only [hc, ↓reduceIte, decide_true] at hne ⊢
      simp only [pqBubbleUp_loop1_body, esF_seq, esF_ite, esF_setN, esF_heapSetU, esF_qpSetU, esF_brk, exec_setN,
        exec_heapSetU, exec_qpSetU, exec_brk, evalN, evalP, evalBF,
        St.setS, St.setN, St.setP, upd, h0, hp, ↓reduceIte, Nat.reduceEqDiff, pure_bind, bind_assoc, liftF_bind, liftF_pure,
        liftF_ite, liftF_error, iteF_bind, errorF_bind, Store.prioAt, liftR_bind, liftR_pure]
      simp only [toCR_liftF_bind, toCR_cmpAt_bind, toCR_ite, toCR_pure, map_bind, cmpHoleF_bind, iteC_bind, fillPQ, upd,
        ↓reduceIte, Nat.reduceEqDiff, hmp, map_pure, heap_tick, qp_tick]
      rw [← pqBubbleUp_loop1_body]
      refine liftR_bind_congr_ok fun i hi => liftR_bind_congr_ok fun e he => ?_
      have hi' : getU st.s.heap (Arith.parent (st.n 3)) 201 = .ok i := by
        rw [getU_ok_iff] at hi ⊢; exact hi
      by_cases hfz : st.s.ticks + 1 = fuse
      · simp only [hfz, ↓reduceIte]
        cases fillHole st.s (st.n 3) mp 205 206 <;> rfl
      · simp only [hfz, ↓reduceIte]
        by_cases hlt : e.2 < prio
        · simp only [hlt, decide_true, ↓reduceIte, hi', liftR_ok, okC_bind, map_bind]
          refine liftR_bind_congr_ok fun heap hh => liftR_bind_congr_ok fun qp hq => ?_
          refine ih k _ prio (by omega) hp (by simp [upd, hmp]) ?_
          have := hne
          simp only [Store.prioAt, liftR_bind, bind_assoc, hi, he, liftR_ok, okC_bind, cmpHoleF_bind, hfz, ↓reduceIte,
            hlt, decide_true, heap_tick, qp_tick, hi', hh, hq, liftR_pure, pure_bind] at this
          simpa [upd] using this
        · simp only [hlt, decide_false, Bool.false_eq_true, ↓reduceIte, hp, map_pure]
    · simp only [hc, ↓reduceIte, decide_false, Bool.false_eq_true, toCR_pure, map_pure, St.setS, hmp, hp]

/-! the twins never report `.fuel` either -/

def NoFuelC {α : Type} (x : CR P α) : Prop := x ≠ .error (.fault .fuel)

theorem NoFuelC.pure {α : Type} (a : α) : NoFuelC (pure a : CR P α) := by intro h; cases h
theorem NoFuelC.liftR {α : Type} {x : R α} (h : NoFuel x) : NoFuelC (liftR x : CR P α) := by
  cases x with
  | ok a => intro h'; cases h'
  | error e =>
    intro h'
    have : e = Fault.fuel := by
      have h'' : (Except.error (Stop.fault e) : CR P α) = .error (.fault .fuel) := h'
      injection h'' with h''
      injection h''
    exact h (by rw [this])
theorem NoFuelC.bind {α β : Type} {x : CR P α} {f : α → CR P β} (hx : NoFuelC x) (hf : ∀ a, x = .ok a → NoFuelC (f a)) :
    NoFuelC (x >>= f) := by
  cases x with
  | error e =>
    intro h
    have h' : (Except.error e : CR P β) = .error (.fault .fuel) := h
    injection h' with h'
    exact hx (by rw [h'])
  | ok a => exact hf a rfl
theorem NoFuelC.ite {α : Type} {c : Prop} [Decidable c] {a b : CR P α} (ha : c → NoFuelC a) (hb : ¬c → NoFuelC b) :
    NoFuelC (if c then a else b) := by
  split
  · exact ha ‹_›
  · exact hb ‹_›

theorem fillHole_noFuel (s : Store P) (pos mp h q : Nat) : NoFuel (fillHole s pos mp h q) := by
  unfold fillHole; no_fuel

theorem NoFuelC.cmpHoleF_bind {α : Type} (fuse : Nat) (s : Store P) (a b : P) (pos mp h q : Nat)
    (g : Store P × Bool → CR P α) (hg : ∀ r, NoFuelC (g r)) : NoFuelC (cmpHoleF fuse s a b pos mp h q >>= g) := by
  rw [SrcEquivF.cmpHoleF_bind]
  split
  · have := fillHole_noFuel s pos mp h q
    cases hf : fillHole s pos mp h q with
    | ok s' => intro h'; cases h'
    | error e =>
      rw [hf] at this
      intro h'
      have h'' : (Except.error (Stop.fault e) : CR P α) = .error (.fault .fuel) := h'
      injection h'' with h''
      injection h'' with h''
      exact this (by rw [h''])
  · exact hg _

theorem bubbleUpLoopF_noFuel (fuse mp : Nat) (f : Nat) : ∀ (s : Store P) (pos : Nat) (prio : P), pos < f →
    NoFuelC (Crash.MaxQ.bubbleUpLoopF fuse mp f s pos prio) := by
  induction f with
  | zero => intro s pos prio h; omega
  | succ f ih =>
    intro s pos prio h
    rw [Crash.MaxQ.bubbleUpLoopF]
    refine NoFuelC.ite (fun hpos => ?_) (fun _ => NoFuelC.pure _)
    refine NoFuelC.bind (NoFuelC.liftR (NoFuel.prioAt _ _)) fun pp _ => ?_
    refine NoFuelC.cmpHoleF_bind _ _ _ _ _ _ _ _ _ fun r => ?_
    refine NoFuelC.ite (fun _ => ?_) (fun _ => NoFuelC.pure _)
    refine NoFuelC.bind (NoFuelC.liftR (NoFuel.getU _ _ _)) fun _ _ => NoFuelC.bind (NoFuelC.liftR (NoFuel.setU _ _ _ _))
      fun _ _ => NoFuelC.bind (NoFuelC.liftR (NoFuel.setU _ _ _ _)) fun _ _ => ?_
    refine ih _ _ _ ?_
    simp only [Arith.parent]
    omega

theorem pq_unwind_eq (n : Nat) (stp : St P) :
    exec prog (n + 1) (unwind FnId.pqBubbleUp).1 stp
      = (fun s' => (({ stp with s := s' } : St P), Flow.normal)) <$> fillPQ stp := by
  simp only [unwind, pqBubbleUp_unwind, exec, es2, es15, es16, evalN, fillPQ, fillHole, St.setS, bind_assoc, pure_bind, map_eq_pure_bind,
    Function.comp]
  src_close

/-- `PriorityQueue::bubble_up` when the `fuse`-th comparison panics = `Crash.MaxQ.bubbleUpF`: the same result, or the
same store after the `Hole` guard has run -/
theorem pqBubbleUpF (fuse : Nat) (s : Store P) (position mapPosition : Nat) (fuel : Nat) (h : fuel ≥ position + 2) :
    runF prog unwind fuse false fuel .pqBubbleUp s [position, mapPosition]
      = (fun r => (r.1, Val.nat r.2)) <$> Crash.MaxQ.bubbleUpF fuse s position mapPosition := by
  obtain ⟨k, rfl⟩ : ∃ k, fuel = k + 2 := ⟨fuel - 2, by omega⟩
  unfold runF callWithF Crash.MaxQ.bubbleUpF
  simp only [prog, SrcGen.pqBubbleUp, pq_unwind_eq]
  rw [execF, pqBubbleUp_body, esF_seq]
  simp only [pqBubbleUp_part1, esF_seq, esF_setN, esF_setP, exec_setN, exec_setP, evalN, evalP, bindN, bindP, bindV, upd,
    St.setS, St.setN, St.setP, ↓reduceIte, Nat.reduceEqDiff, pure_bind, bind_assoc, liftF_bind, liftF_pure]
  cases he : unwrapO (s.map.getIndex mapPosition) 204 with
  | error f => rfl
  | ok e =>
    simp only [liftF_ok, okF_bind, liftR_ok, okC_bind, pure_bind]
    rw [execF_succ]
    have hl := pqBubbleUp_loopF fuse mapPosition (position + 1) (k + 1)
      { s := s, n := upd (upd (upd (upd (fun _ => 0) 1 mapPosition) 0 position) 3 position) 4 mapPosition,
        p := upd (fun _ => none) 2 (some e.snd) } e.snd (by omega) (by simp [upd]) (by simp [upd])
      (by have := bubbleUpLoopF_noFuel fuse mapPosition (position + 1) s position e.snd (by omega)
          simpa [upd, NoFuelC] using this)
    simp only [upd, ↓reduceIte, Nat.reduceEqDiff] at hl
    generalize MaxQ.bubbleUpLoopF fuse mapPosition (position + 1) s position e.snd = y at hl ⊢
    cases hx : execF prog unwind fuse false (k + 1 + 1) (Stmt.while pqBubbleUp_loop1_cond pqBubbleUp_loop1_body)
        { s := s, n := upd (upd (upd (upd (fun _ => 0) 1 mapPosition) 0 position) 3 position) 4 mapPosition,
          p := upd (fun _ => none) 2 (some e.snd) } with
    | ok r =>
      obtain ⟨st', fl⟩ := r
      rw [hx] at hl
      cases y with
      | error ey => simp [toCR, Functor.map, Except.map] at hl
      | ok yr =>
        simp only [toCR, Functor.map, Except.map, Except.ok.injEq, Prod.mk.injEq] at hl
        obtain ⟨⟨h1, h2, h3, h4⟩, h5⟩ := hl
        subst h5
        simp only [okF_bind, okC_bind, pqBubbleUp_part2, esF_seq, esF_setN, esF_heapSetU, esF_qpSetU, esF_retN, exec_setN,
          exec_heapSetU, exec_qpSetU, exec_retN, evalN, upd, St.setS, St.setN, ↓reduceIte, Nat.reduceEqDiff, pure_bind,
          bind_assoc, liftF_bind, liftF_pure, h1, h2, h3]
        cases hh : setU yr.fst.heap yr.snd mapPosition 205 with
        | error f => rfl
        | ok heap =>
          simp only [liftF_ok, okF_bind, liftR_ok, okC_bind]
          cases hq : setU yr.fst.qp mapPosition yr.snd 206 with
          | error f => rfl
          | ok qp => rfl
    | error er =>
      rw [hx] at hl
      cases er with
      | fault f =>
        cases y with
        | ok yr => simp [toCR, Functor.map, Except.map] at hl
        | error ey =>
          simp only [toCR, Functor.map, Except.map, Except.error.injEq] at hl
          subst hl
          rfl
      | panic stp =>
        simp only [toCR] at hl
        simp only [errorF_bind]
        cases hf : fillPQ stp with
        | ok s' =>
          rw [hf] at hl
          cases y with
          | ok yr => simp [Functor.map, Except.map] at hl
          | error ey =>
            simp only [Functor.map, Except.map, Except.error.injEq] at hl
            subst hl
            rfl
        | error f =>
          rw [hf] at hl
          cases y with
          | ok yr => simp [Functor.map, Except.map] at hl
          | error ey =>
            simp only [Functor.map, Except.map, Except.error.injEq] at hl
            subst hl
            rfl
/-! ## `Store::clear` when the `Drop` of an element panics -/

/-- if dropping the elements panics (`self.map.clear()`), the index tables are already empty and the size counter is
already `0` (the map is left to IndexMap: modelled as untouched) -/
theorem storeClearF (s : Store P) (fuse : Nat) (fuel : Nat) (h : fuel ≥ 1) :
    runF prog unwind fuse true fuel .storeClear s []
      = .error (.crashed { s with heap := #[], qp := #[], size := 0 }) := by
  obtain ⟨n, rfl⟩ : ∃ n, fuel = n + 1 := ⟨fuel - 1, by omega⟩
  unfold runF callWithF
  simp only [prog, SrcGen.storeClear]
  rw [execF, storeClear_body]
  simp only [esF_seq, execStepF, exec, es2, es35, es36, es38, evalN, St.setS, pure_bind, bind_assoc, liftF_bind, liftF_pure,
    liftF_ok, okF_bind, errorF_bind, ↓reduceIte, unwind, es1]
  rfl

/-! ## `PriorityQueue::push` of a NEW item when a comparison panics -/

/-! more explicit equations of `execStepF` and of the plain interpreter on leaf statements -/
section
variable (fuse : Nat) (dropFuse : Bool) (plain : Stmt → St P → R (St P × Flow P)) (callf : CallF P)
  (recF : Stmt → St P → CF P (St P × Flow P)) (callfF : CallFF P) (byRef : FnId → Bool) (st : St P)
theorem esF_callN (v : Var) (f : FnId) (nargs : List NExpr) (pargs : List PExpr) :
    execStepF fuse dropFuse plain callf recF callfF byRef (.callN v f nargs pargs) st =
      (liftF (evalNs st nargs) >>= fun xs => liftF (evalPs callf st pargs) >>= fun r =>
        fromCall (st.setS r.1) (if byRef f then some v else none) (callfF f r.1 xs r.2 []) >>= fun c =>
          match c.2 with
          | .nat x => pure ((st.setS c.1).setN v x, Flow.normal)
          | _ => .error (.fault stuck)) := rfl
theorem esF_entryMatch (iv eidx : Var) (occ vac : Stmt) :
    execStepF fuse dropFuse plain callf recF callfF byRef (.entryMatch iv eidx occ vac) st =
      (match st.v iv with
        | some (.item it) =>
          match st.s.map.find? it.key with
          | some i => execStepF fuse dropFuse plain callf recF callfF byRef occ (st.setN eidx i)
          | none => execStepF fuse dropFuse plain callf recF callfF byRef vac st
        | _ => .error (.fault stuck)) := rfl
theorem esF_leaf_setVNoneP (v : Var) :
    execStepF fuse dropFuse plain callf recF callfF byRef (.setVNoneP v) st = liftF (plain (.setVNoneP v) st) := rfl
theorem esF_leaf_vacantInsert (iv : Var) (p : PExpr) :
    execStepF fuse dropFuse plain callf recF callfF byRef (.vacantInsert iv p) st = liftF (plain (.vacantInsert iv p) st) := rfl
theorem esF_leaf_qpPush (e : NExpr) :
    execStepF fuse dropFuse plain callf recF callfF byRef (.qpPush e) st = liftF (plain (.qpPush e) st) := rfl
theorem esF_leaf_heapPush (e : NExpr) :
    execStepF fuse dropFuse plain callf recF callfF byRef (.heapPush e) st = liftF (plain (.heapPush e) st) := rfl
theorem esF_leaf_sizeInc :
    execStepF fuse dropFuse plain callf recF callfF byRef .sizeInc st = liftF (plain .sizeInc st) := rfl
theorem esF_leaf_retNoneP :
    execStepF fuse dropFuse plain callf recF callfF byRef .retNoneP st = liftF (plain .retNoneP st) := rfl
end

theorem exec_setVNoneP (prog : Prog) (n : Nat) (v : Var) (st : St P) :
    exec prog (n + 1) (.setVNoneP v) st = pure (st.setV v (.optP none), Flow.normal) := rfl
theorem exec_vacantInsert (prog : Prog) (n : Nat) (iv : Var) (p : PExpr) (st : St P) :
    exec prog (n + 1) (.vacantInsert iv p) st = (evalP (callWith (exec prog n) prog) st p >>= fun r =>
      match st.v iv with
      | some (.item it) => pure (st.setS { r.1 with map := r.1.map.push (it, r.2) }, Flow.normal)
      | _ => .error stuck) := rfl
theorem exec_qpPush (prog : Prog) (n : Nat) (e : NExpr) (st : St P) :
    exec prog (n + 1) (.qpPush e) st = (evalN st e >>= fun x =>
      pure (st.setS { st.s with qp := st.s.qp.push x }, Flow.normal)) := rfl
theorem exec_heapPush (prog : Prog) (n : Nat) (e : NExpr) (st : St P) :
    exec prog (n + 1) (.heapPush e) st = (evalN st e >>= fun x =>
      pure (st.setS { st.s with heap := st.s.heap.push x }, Flow.normal)) := rfl
theorem exec_sizeInc (prog : Prog) (n : Nat) (st : St P) :
    exec prog (n + 1) .sizeInc st = pure (st.setS { st.s with size := st.s.size + 1 }, Flow.normal) := rfl
theorem exec_retNoneP (prog : Prog) (n : Nat) (st : St P) :
    exec prog (n + 1) .retNoneP st = pure (st, Flow.ret (.optP none)) := rfl

/-- a fused call seen from outside: only the store survives a panic -/
def toCRcall {α : Type} : Except (CallStop P) α → CR P α
  | .ok a => .ok a
  | .error (.fault f) => .error (.fault f)
  | .error (.panic s _) => .error (.crashed s)

theorem runF_eq (prog : Prog) (uw : Unwind) (fuse : Nat) (dropFuse : Bool) (fuel : Nat) (f : FnId) (s : Store P)
    (nargs : List Nat) (pargs : List P) (vargs : List (Val P)) :
    runF prog uw fuse dropFuse fuel f s nargs pargs vargs
      = toCRcall (callWithF (execF prog uw fuse dropFuse fuel) (exec prog fuel) prog uw f s nargs pargs vargs) := by
  unfold runF toCRcall
  split <;> simp_all

/-- `PriorityQueue::push` of an item that is not in the queue, when the `fuse`-th comparison panics = `Crash.MaxQ.pushF`:
in particular the store that survives a panic already counts the new element (`size += 1` precedes the sift-up) and the
guard has put it where the hole was -/
theorem pqPushF_new (fuse : Nat) (s : Store P) (it : Item) (p : P) (hnew : IMap.find? s.map it.key = none)
    (fuel : Nat) (h : fuel ≥ s.size + 4) :
    runF prog unwind fuse false fuel .pqPush s [] [p] [Val.item it]
      = (fun r => (r.1, Val.optP r.2)) <$> Crash.MaxQ.pushF fuse s it p := by
  obtain ⟨k, rfl⟩ : ∃ k, fuel = k + 1 := ⟨fuel - 1, by omega⟩
  have hb := pqBubbleUpF fuse
    { map := Array.push s.map (it, p), heap := s.heap.push s.size, qp := s.qp.push s.size, size := s.size + 1,
      ticks := s.ticks } s.size s.size k (by omega)
  rw [runF_eq] at hb
  unfold runF callWithF Crash.MaxQ.pushF
  rw [IMap.insertFull_of_find?_none hnew]
  simp only [prog, SrcGen.pqPush]
  rw [execF, pqPush_body]
  simp only [esF_seq, esF_setN, esF_ite, esF_callN, esF_entryMatch, esF_leaf_setVNoneP, esF_leaf_vacantInsert,
    esF_leaf_qpPush, esF_leaf_heapPush, esF_leaf_sizeInc, esF_leaf_retNoneP, exec_setN, exec_setVNoneP, exec_vacantInsert,
    exec_qpPush, exec_heapPush, exec_sizeInc, exec_retNoneP,
    evalN, evalNs, evalP, evalPs, evalB, evalBF, bindN, bindP, bindV, upd, St.setS, St.setN, St.setP, St.setV,
    hnew, ↓reduceIte, Nat.reduceEqDiff, pure_bind, bind_assoc, liftF_bind, liftF_pure, liftF_ok, okF_bind, unwind,
    Option.isSome_none, Bool.false_eq_true, esF_skip, exec_skip]
  generalize callWithF (execF prog SrcGen.unwind fuse false k) (exec prog k) prog SrcGen.unwind FnId.pqBubbleUp
      { map := Array.push s.map (it, p), heap := s.heap.push s.size, qp := s.qp.push s.size, size := s.size + 1,
        ticks := s.ticks } [s.size, s.size] [] [] = c at hb ⊢
  generalize MaxQ.bubbleUpF fuse
      { map := Array.push s.map (it, p), heap := s.heap.push s.size, qp := s.qp.push s.size, size := s.size + 1,
        ticks := s.ticks } s.size s.size = y at hb ⊢
  cases c with
  | ok r =>
    cases y with
    | error ey => simp [toCRcall, Functor.map, Except.map] at hb
    | ok yr =>
      simp only [toCRcall, Functor.map, Except.map, Except.ok.injEq] at hb
      subst hb
      rfl
  | error ce =>
    cases ce with
    | fault f =>
      cases y with
      | ok yr => simp [toCRcall, Functor.map, Except.map] at hb
      | error ey =>
        simp only [toCRcall, Functor.map, Except.map, Except.error.injEq] at hb
        subst hb
        rfl
    | panic s' ret =>
      cases y with
      | ok yr => simp [toCRcall, Functor.map, Except.map] at hb
      | error ey =>
        simp only [toCRcall, Functor.map, Except.map, Except.error.injEq] at hb
        subst hb
        rfl
/-! ## `DoublePriorityQueue::bubble_up_min` / `bubble_up_max` under panics -/

/-- the hole a `&mut Hole` callee works on: registers 0 (position) and 1 (map position); the write sites are those of the
owner's guard -/
def fillDQ (mp : Nat) (stp : St P) : R (Store P) := fillHole stp.s (stp.n 0) mp 316 317

theorem dqBubbleUpMin_loop_condF (fuse : Nat) (callf : CallF P) (st : St P) :
    evalBF fuse callf st dqBubbleUpMin_loop1_cond
      = pure (st.s, decide (st.n 0 > 0 ∧ Arith.parent (st.n 0) > 0)) := by
  simp only [dqBubbleUpMin_loop1_cond, evalBF, evalB]
  by_cases h : st.n 0 > 0
  · have h1 : ¬ st.n 0 = 0 := by omega
    simp [evalN, h, h1, liftF_bind, St.setS]
  · simp [evalN, h, liftF_bind]

theorem dqBubbleUpMin_loopF (fuse mp : Nat) (f : Nat) : ∀ (k : Nat) (st : St P) (prio : P), f ≤ k → st.p 2 = some prio →
    st.n 1 = mp →
    Crash.DQ.bubbleUpMinLoopF fuse mp f st.s (st.n 0) prio ≠ .error (.fault .fuel) →
    toCR (fillDQ mp) (fun st' => (st'.s, st'.n 0, st'.n 1, st'.p 2))
        (execF prog unwind fuse false (k + 1) (.while dqBubbleUpMin_loop1_cond dqBubbleUpMin_loop1_body) st)
      = (fun r => ((r.1, r.2, mp, some prio), Flow.normal)) <$> Crash.DQ.bubbleUpMinLoopF fuse mp f st.s (st.n 0) prio := by
  induction f with
  | zero => intro k st prio _ _ _ hne; exact absurd rfl hne
  | succ f ih =>
    intro k st prio hk hp hmp hne
    obtain ⟨k, rfl⟩ : ∃ k', k = k' + 1 := ⟨k - 1, by omega⟩
    rw [execF, esF_while, dqBubbleUpMin_loop_condF]
    simp only [pure_bind, Crash.DQ.bubbleUpMinLoopF] at hne ⊢
    by_cases hc : st.n 0 > 0 ∧ Arith.parent (st.n 0) > 0
    · have h0 : ¬ st.n 0 = 0 := by omega
      have h1 : ¬ Arith.parent (st.n 0) = 0 := by omega
      simp only [hc, and_self, ↓reduceIte, decide_true] at hne ⊢
      simp only [dqBubbleUpMin_loop1_body, esF_seq, esF_ite, esF_setN, esF_heapSetU, esF_qpSetU, esF_brk, exec_setN,
        exec_heapSetU, exec_qpSetU, exec_brk, evalN, evalP, evalBF,
        St.setS, St.setN, St.setP, upd, h0, h1, hp, ↓reduceIte, Nat.reduceEqDiff, pure_bind, bind_assoc, liftF_bind, liftF_pure,
        liftF_ite, liftF_error, iteF_bind, errorF_bind, Store.prioAt, liftR_bind, liftR_pure]
      simp only [toCR_liftF_bind, toCR_cmpAt_bind, toCR_ite, toCR_pure, map_bind, cmpHoleF_bind, iteC_bind, fillDQ, upd,
        ↓reduceIte, Nat.reduceEqDiff, hmp, map_pure, heap_tick, qp_tick]
      rw [← dqBubbleUpMin_loop1_body]
      refine liftR_bind_congr_ok fun i hi => liftR_bind_congr_ok fun e he => ?_
      have hi' : getU st.s.heap (Arith.parent (Arith.parent (st.n 0))) 320 = .ok i := by
        rw [getU_ok_iff] at hi ⊢; exact hi
      by_cases hfz : st.s.ticks + 1 = fuse
      · simp only [hfz, ↓reduceIte]
        cases fillHole st.s (st.n 0) mp 316 317 <;> rfl
      · simp only [hfz, ↓reduceIte]
        by_cases hlt : prio < e.2
        · simp only [hlt, decide_true, ↓reduceIte, hi', liftR_ok, okC_bind, map_bind]
          refine liftR_bind_congr_ok fun heap hh => liftR_bind_congr_ok fun qp hq => ?_
          refine ih k _ prio (by omega) hp (by simp [upd, hmp]) ?_
          have := hne
          simp only [Store.prioAt, liftR_bind, bind_assoc, hi, he, liftR_ok, okC_bind, cmpHoleF_bind, hfz, ↓reduceIte,
            hlt, decide_true, heap_tick, qp_tick, hi', hh, hq, liftR_pure, pure_bind] at this
          simpa [upd] using this
        · simp only [hlt, decide_false, Bool.false_eq_true, ↓reduceIte, hp, map_pure]
    · simp only [hc, ↓reduceIte, decide_false, Bool.false_eq_true, toCR_pure, map_pure, St.setS, hmp, hp]
theorem dqBubbleUpMax_loop_condF (fuse : Nat) (callf : CallF P) (st : St P) :
    evalBF fuse callf st dqBubbleUpMax_loop1_cond
      = pure (st.s, decide (st.n 0 > 0 ∧ Arith.parent (st.n 0) > 0)) := by
  simp only [dqBubbleUpMax_loop1_cond, evalBF, evalB]
  by_cases h : st.n 0 > 0
  · have h1 : ¬ st.n 0 = 0 := by omega
    simp [evalN, h, h1, liftF_bind, St.setS]
  · simp [evalN, h, liftF_bind]

theorem dqBubbleUpMax_loopF (fuse mp : Nat) (f : Nat) : ∀ (k : Nat) (st : St P) (prio : P), f ≤ k → st.p 2 = some prio →
    st.n 1 = mp →
    Crash.DQ.bubbleUpMaxLoopF fuse mp f st.s (st.n 0) prio ≠ .error (.fault .fuel) →
    toCR (fillDQ mp) (fun st' => (st'.s, st'.n 0, st'.n 1, st'.p 2))
        (execF prog unwind fuse false (k + 1) (.while dqBubbleUpMax_loop1_cond dqBubbleUpMax_loop1_body) st)
      = (fun r => ((r.1, r.2, mp, some prio), Flow.normal)) <$> Crash.DQ.bubbleUpMaxLoopF fuse mp f st.s (st.n 0) prio := by
  induction f with
  | zero => intro k st prio _ _ _ hne; exact absurd rfl hne
  | succ f ih =>
    intro k st prio hk hp hmp hne
    obtain ⟨k, rfl⟩ : ∃ k', k = k' + 1 := ⟨k - 1, by omega⟩
    rw [execF, esF_while, dqBubbleUpMax_loop_condF]
    simp only [pure_bind, Crash.DQ.bubbleUpMaxLoopF] at hne ⊢
    by_cases hc : st.n 0 > 0 ∧ Arith.parent (st.n 0) > 0
    · have h0 : ¬ st.n 0 = 0 := by omega
      have h1 : ¬ Arith.parent (st.n 0) = 0 := by omega
      simp only [hc, and_self, ↓reduceIte, decide_true] at hne ⊢
      simp only [dqBubbleUpMax_loop1_body, esF_seq, esF_ite, esF_setN, esF_heapSetU, esF_qpSetU, esF_brk, exec_setN,
        exec_heapSetU, exec_qpSetU, exec_brk, evalN, evalP, evalBF,
        St.setS, St.setN, St.setP, upd, h0, h1, hp, ↓reduceIte, Nat.reduceEqDiff, pure_bind, bind_assoc, liftF_bind, liftF_pure,
        liftF_ite, liftF_error, iteF_bind, errorF_bind, Store.prioAt, liftR_bind, liftR_pure]
      simp only [toCR_liftF_bind, toCR_cmpAt_bind, toCR_ite, toCR_pure, map_bind, cmpHoleF_bind, iteC_bind, fillDQ, upd,
        ↓reduceIte, Nat.reduceEqDiff, hmp, map_pure, heap_tick, qp_tick]
      rw [← dqBubbleUpMax_loop1_body]
      refine liftR_bind_congr_ok fun i hi => liftR_bind_congr_ok fun e he => ?_
      have hi' : getU st.s.heap (Arith.parent (Arith.parent (st.n 0))) 323 = .ok i := by
        rw [getU_ok_iff] at hi ⊢; exact hi
      by_cases hfz : st.s.ticks + 1 = fuse
      · simp only [hfz, ↓reduceIte]
        cases fillHole st.s (st.n 0) mp 316 317 <;> rfl
      · simp only [hfz, ↓reduceIte]
        by_cases hlt : e.2 < prio
        · simp only [hlt, decide_true, ↓reduceIte, hi', liftR_ok, okC_bind, map_bind]
          refine liftR_bind_congr_ok fun heap hh => liftR_bind_congr_ok fun qp hq => ?_
          refine ih k _ prio (by omega) hp (by simp [upd, hmp]) ?_
          have := hne
          simp only [Store.prioAt, liftR_bind, bind_assoc, hi, he, liftR_ok, okC_bind, cmpHoleF_bind, hfz, ↓reduceIte,
            hlt, decide_true, heap_tick, qp_tick, hi', hh, hq, liftR_pure, pure_bind] at this
          simpa [upd] using this
        · simp only [hlt, decide_false, Bool.false_eq_true, ↓reduceIte, hp, map_pure]
    · simp only [hc, ↓reduceIte, decide_false, Bool.false_eq_true, toCR_pure, map_pure, St.setS, hmp, hp]

theorem bubbleUpMinLoopF_noFuel (fuse mp : Nat) (f : Nat) : ∀ (s : Store P) (pos : Nat) (prio : P), pos < f →
    NoFuelC (Crash.DQ.bubbleUpMinLoopF fuse mp f s pos prio) := by
  induction f with
  | zero => intro s pos prio h; omega
  | succ f ih =>
    intro s pos prio h
    rw [Crash.DQ.bubbleUpMinLoopF]
    refine NoFuelC.ite (fun hpos => ?_) (fun _ => NoFuelC.pure _)
    refine NoFuelC.bind (NoFuelC.liftR (NoFuel.prioAt _ _)) fun pp _ => ?_
    refine NoFuelC.cmpHoleF_bind _ _ _ _ _ _ _ _ _ fun r => ?_
    refine NoFuelC.ite (fun _ => ?_) (fun _ => NoFuelC.pure _)
    refine NoFuelC.bind (NoFuelC.liftR (NoFuel.getU _ _ _)) fun _ _ => NoFuelC.bind (NoFuelC.liftR (NoFuel.setU _ _ _ _))
      fun _ _ => NoFuelC.bind (NoFuelC.liftR (NoFuel.setU _ _ _ _)) fun _ _ => ?_
    refine ih _ _ _ ?_
    simp only [Arith.parent] at hpos ⊢
    omega

theorem bubbleUpMaxLoopF_noFuel (fuse mp : Nat) (f : Nat) : ∀ (s : Store P) (pos : Nat) (prio : P), pos < f →
    NoFuelC (Crash.DQ.bubbleUpMaxLoopF fuse mp f s pos prio) := by
  induction f with
  | zero => intro s pos prio h; omega
  | succ f ih =>
    intro s pos prio h
    rw [Crash.DQ.bubbleUpMaxLoopF]
    refine NoFuelC.ite (fun hpos => ?_) (fun _ => NoFuelC.pure _)
    refine NoFuelC.bind (NoFuelC.liftR (NoFuel.prioAt _ _)) fun pp _ => ?_
    refine NoFuelC.cmpHoleF_bind _ _ _ _ _ _ _ _ _ fun r => ?_
    refine NoFuelC.ite (fun _ => ?_) (fun _ => NoFuelC.pure _)
    refine NoFuelC.bind (NoFuelC.liftR (NoFuel.getU _ _ _)) fun _ _ => NoFuelC.bind (NoFuelC.liftR (NoFuel.setU _ _ _ _))
      fun _ _ => NoFuelC.bind (NoFuelC.liftR (NoFuel.setU _ _ _ _)) fun _ _ => ?_
    refine ih _ _ _ ?_
    simp only [Arith.parent] at hpos ⊢
    omega

/-- a call of a `&mut Hole` callee seen from its owner: the owner's guard fills the hole where the callee left it -/
def callCR (mp : Nat) : Except (CallStop P) (Store P × Val P) → CR P (Store P × Nat)
  | .ok (s', .nat p) => .ok (s', p)
  | .ok _ => .error (.fault stuck)
  | .error (.fault f) => .error (.fault f)
  | .error (.panic s' r) =>
    match fillHole s' r mp 316 317 with
    | .ok s'' => .error (.crashed s'')
    | .error f => .error (.fault f)

/-- `bubble_up_min(map, hole, priority)` under panics, seen from the owner of the hole = `Crash.DQ.bubbleUpMinLoopF` -/
theorem call_dqBubbleUpMinF (fuse : Nat) (s : Store P) (pos mp : Nat) (prio : P) (n : Nat) (h : n ≥ pos + 2) :
    callCR mp (callWithF (execF prog unwind fuse false n) (exec prog n) prog unwind .dqBubbleUpMin s [pos, mp] [prio] [])
      = Crash.DQ.bubbleUpMinLoopF fuse mp (pos + 1) s pos prio := by
  obtain ⟨k, rfl⟩ : ∃ k, n = k + 2 := ⟨n - 2, by omega⟩
  unfold callWithF
  simp only [prog, SrcGen.dqBubbleUpMin]
  rw [execF, dqBubbleUpMin_body, esF_seq, execF_succ]
  have hl := dqBubbleUpMin_loopF fuse mp (pos + 1) (k + 1)
    { s := s, n := bindN [0, 1] [pos, mp], p := bindP [2] [prio], v := bindV [] [] } prio (by omega)
    (by simp [bindP, upd]) (by simp [bindN, upd])
    (by have := bubbleUpMinLoopF_noFuel fuse mp (pos + 1) s pos prio (by omega)
        simpa [bindN, upd, NoFuelC] using this)
  simp only [bindN, bindP, bindV] at hl ⊢
  have e0 : upd (upd (fun _ => 0) 1 mp) 0 pos 0 = pos := rfl
  simp only [e0] at hl
  generalize Crash.DQ.bubbleUpMinLoopF fuse mp (pos + 1) s pos prio = y at hl ⊢
  cases hx : execF prog unwind fuse false (k + 1 + 1) (Stmt.while dqBubbleUpMin_loop1_cond dqBubbleUpMin_loop1_body)
      { s := s, n := upd (upd (fun _ => 0) 1 mp) 0 pos, p := upd (fun _ => none) 2 (some prio), v := fun _ => none } with
  | ok r =>
    obtain ⟨st', fl⟩ := r
    rw [hx] at hl
    cases y with
    | error ey => simp [toCR, Functor.map, Except.map] at hl
    | ok yr =>
      simp only [toCR, Functor.map, Except.map, Except.ok.injEq, Prod.mk.injEq] at hl
      obtain ⟨⟨h1, h2, h3, h4⟩, h5⟩ := hl
      subst h5
      simp only [okF_bind, dqBubbleUpMin_part1, esF_retN, exec_retN, evalN, liftF_bind, liftF_pure, pure_bind, h1, h2, callCR]
      show Except.ok (st'.s, yr.snd) = Except.ok yr
      rw [h1]
  | error er =>
    rw [hx] at hl
    cases er with
    | fault f =>
      cases y with
      | ok yr => simp [toCR, Functor.map, Except.map] at hl
      | error ey =>
        simp only [toCR, Functor.map, Except.map, Except.error.injEq] at hl
        subst hl
        rfl
    | panic stp =>
      simp only [toCR, fillDQ] at hl
      simp only [errorF_bind, unwind, exec_skip, callCR]
      show (match fillHole stp.s (stp.n 0) mp 316 317 with
        | Except.ok s'' => Except.error (Stop.crashed s'')
        | Except.error f => Except.error (Stop.fault f)) = y
      cases hf : fillHole stp.s (stp.n 0) mp 316 317 with
      | ok s' =>
        rw [hf] at hl
        cases y with
        | ok yr => simp [Functor.map, Except.map] at hl
        | error ey =>
          simp only [Functor.map, Except.map, Except.error.injEq] at hl
          subst hl
          rfl
      | error f =>
        rw [hf] at hl
        cases y with
        | ok yr => simp [Functor.map, Except.map] at hl
        | error ey =>
          simp only [Functor.map, Except.map, Except.error.injEq] at hl
          subst hl
          rfl
/-- `bubble_up_max(map, hole, priority)` under panics, seen from the owner of the hole = `Crash.DQ.bubbleUpMaxLoopF` -/
theorem call_dqBubbleUpMaxF (fuse : Nat) (s : Store P) (pos mp : Nat) (prio : P) (n : Nat) (h : n ≥ pos + 2) :
    callCR mp (callWithF (execF prog unwind fuse false n) (exec prog n) prog unwind .dqBubbleUpMax s [pos, mp] [prio] [])
      = Crash.DQ.bubbleUpMaxLoopF fuse mp (pos + 1) s pos prio := by
  obtain ⟨k, rfl⟩ : ∃ k, n = k + 2 := ⟨n - 2, by omega⟩
  unfold callWithF
  simp only [prog, SrcGen.dqBubbleUpMax]
  rw [execF, dqBubbleUpMax_body, esF_seq, execF_succ]
  have hl := dqBubbleUpMax_loopF fuse mp (pos + 1) (k + 1)
    { s := s, n := bindN [0, 1] [pos, mp], p := bindP [2] [prio], v := bindV [] [] } prio (by omega)
    (by simp [bindP, upd]) (by simp [bindN, upd])
    (by have := bubbleUpMaxLoopF_noFuel fuse mp (pos + 1) s pos prio (by omega)
        simpa [bindN, upd, NoFuelC] using this)
  simp only [bindN, bindP, bindV] at hl ⊢
  have e0 : upd (upd (fun _ => 0) 1 mp) 0 pos 0 = pos := rfl
  simp only [e0] at hl
  generalize Crash.DQ.bubbleUpMaxLoopF fuse mp (pos + 1) s pos prio = y at hl ⊢
  cases hx : execF prog unwind fuse false (k + 1 + 1) (Stmt.while dqBubbleUpMax_loop1_cond dqBubbleUpMax_loop1_body)
      { s := s, n := upd (upd (fun _ => 0) 1 mp) 0 pos, p := upd (fun _ => none) 2 (some prio), v := fun _ => none } with
  | ok r =>
    obtain ⟨st', fl⟩ := r
    rw [hx] at hl
    cases y with
    | error ey => simp [toCR, Functor.map, Except.map] at hl
    | ok yr =>
      simp only [toCR, Functor.map, Except.map, Except.ok.injEq, Prod.mk.injEq] at hl
      obtain ⟨⟨h1, h2, h3, h4⟩, h5⟩ := hl
      subst h5
      simp only [okF_bind, dqBubbleUpMax_part1, esF_retN, exec_retN, evalN, liftF_bind, liftF_pure, pure_bind, h1, h2, callCR]
      show Except.ok (st'.s, yr.snd) = Except.ok yr
      rw [h1]
  | error er =>
    rw [hx] at hl
    cases er with
    | fault f =>
      cases y with
      | ok yr => simp [toCR, Functor.map, Except.map] at hl
      | error ey =>
        simp only [toCR, Functor.map, Except.map, Except.error.injEq] at hl
        subst hl
        rfl
    | panic stp =>
      simp only [toCR, fillDQ] at hl
      simp only [errorF_bind, unwind, exec_skip, callCR]
      show (match fillHole stp.s (stp.n 0) mp 316 317 with
        | Except.ok s'' => Except.error (Stop.crashed s'')
        | Except.error f => Except.error (Stop.fault f)) = y
      cases hf : fillHole stp.s (stp.n 0) mp 316 317 with
      | ok s' =>
        rw [hf] at hl
        cases y with
        | ok yr => simp [Functor.map, Except.map] at hl
        | error ey =>
          simp only [Functor.map, Except.map, Except.error.injEq] at hl
          subst hl
          rfl
      | error f =>
        rw [hf] at hl
        cases y with
        | ok yr => simp [Functor.map, Except.map] at hl
        | error ey =>
          simp only [Functor.map, Except.map, Except.error.injEq] at hl
          subst hl
          rfl

/-! ## `DoublePriorityQueue::bubble_up` under panics -/

section
variable (fuse : Nat) (dropFuse : Bool) (plain : Stmt → St P → R (St P × Flow P)) (callf : CallF P)
  (recF : Stmt → St P → CF P (St P × Flow P)) (callfF : CallFF P) (byRef : FnId → Bool) (st : St P)
theorem esF_match2 (c1 c2 : BExpr) (tt tf ft ff : Stmt) :
    execStepF fuse dropFuse plain callf recF callfF byRef (.match2 c1 c2 tt tf ft ff) st =
      (evalBF fuse callf st c1 >>= fun r1 => evalBF fuse callf (st.setS r1.1) c2 >>= fun r2 =>
        match r1.2, r2.2 with
        | true, true => execStepF fuse dropFuse plain callf recF callfF byRef tt (st.setS r2.1)
        | true, false => execStepF fuse dropFuse plain callf recF callfF byRef tf (st.setS r2.1)
        | false, true => execStepF fuse dropFuse plain callf recF callfF byRef ft (st.setS r2.1)
        | false, false => execStepF fuse dropFuse plain callf recF callfF byRef ff (st.setS r2.1)) := rfl
end

def fillDQo (stp : St P) : R (Store P) := fillHole stp.s (stp.n 3) (stp.n 4) 316 317

theorem dq_unwind_eq (n : Nat) (stp : St P) :
    exec prog (n + 1) (unwind FnId.dqBubbleUp).1 stp
      = (fun s' => (({ stp with s := s' } : St P), Flow.normal)) <$> fillDQo stp := by
  simp only [unwind, dqBubbleUp_unwind, exec, es2, es15, es16, evalN, fillDQo, fillHole, St.setS, bind_assoc, pure_bind,
    map_eq_pure_bind, Function.comp]
  src_close

/-- the frame of `DoublePriorityQueue::bubble_up` seen from outside: result, fault, or the store after its guard has run -/
def frameDQ (x : CF P (St P × Flow P)) : CR P (Store P × Val P) :=
  match (match x with
      | .ok (st, fl) =>
        (match fl with
          | .ret v => (.ok (st.s, v) : Except (CallStop P) (Store P × Val P))
          | .normal => .ok (st.s, .unit)
          | .brk => .error (.fault stuck))
      | .error (.fault e) => .error (.fault e)
      | .error (.panic stp) =>
        (match (fun s' => (({ stp with s := s' } : St P), (Flow.normal : Flow P))) <$> fillDQo stp with
          | .ok (st2, _) => .error (.panic st2.s (st2.n ([0, 1].headD 0)))
          | .error e => .error (.fault e))) with
  | .ok r => .ok r
  | .error (.fault e) => .error (.fault e)
  | .error (.panic s' _) => .error (.crashed s')

theorem frameDQ_liftF_bind {α : Type} (x : R α) (k : α → CF P (St P × Flow P)) :
    frameDQ (liftF x >>= k) = liftR x >>= fun a => frameDQ (k a) := by
  cases x <;> rfl

theorem frameDQ_cmpAt_bind (fuse : Nat) (st : St P) (a b : P) (k : Store P × Bool → CF P (St P × Flow P)) :
    frameDQ (cmpAt fuse st a b >>= k) =
      if st.s.ticks + 1 = fuse then
        (match fillDQo st with
          | .ok s' => .error (.crashed s')
          | .error f => .error (.fault f))
      else frameDQ (k (st.s.tick, decide (a < b))) := by
  unfold cmpAt
  split
  · simp only [errorF_bind, frameDQ]
    cases fillDQo st <;> rfl
  · rfl

theorem frameDQ_ite (c : Prop) [Decidable c] (a b : CF P (St P × Flow P)) :
    frameDQ (if c then a else b) = if c then frameDQ a else frameDQ b := by split <;> rfl

theorem frameDQ_fromCall_bind (st0 : St P) (c : Except (CallStop P) (Store P × Val P))
    (k : Store P × Val P → CF P (St P × Flow P)) :
    frameDQ (fromCall st0 (some 3) c >>= k) =
      match c with
      | .ok r => frameDQ (k r)
      | .error (.fault f) => .error (.fault f)
      | .error (.panic s' r) =>
        (match fillHole s' r (st0.n 4) 316 317 with
          | .ok s'' => .error (.crashed s'')
          | .error f => .error (.fault f)) := by
  cases c with
  | ok r => rfl
  | error e =>
    cases e with
    | fault f => rfl
    | panic s' r =>
      simp only [fromCall, errorF_bind, frameDQ, fillDQo, St.setS, St.setN, upd, ↓reduceIte, Nat.reduceEqDiff]
      cases fillHole s' r (st0.n 4) 316 317 <;> rfl

theorem dqBubbleUpF (fuse : Nat) (s : Store P) (position mapPosition : Nat) (fuel : Nat) (h : fuel ≥ position + 3) :
    runF prog unwind fuse false fuel .dqBubbleUp s [position, mapPosition]
      = (fun r => (r.1, Val.nat r.2)) <$> Crash.DQ.bubbleUpF fuse s position mapPosition := by
  obtain ⟨k, rfl⟩ : ∃ k, fuel = k + 2 := ⟨fuel - 2, by omega⟩
  unfold runF callWithF Crash.DQ.bubbleUpF
  simp only [prog, SrcGen.dqBubbleUp, dq_unwind_eq]
  rw [execF, dqBubbleUp_body]
  show frameDQ _ = _
  simp only [esF_seq, esF_setN, esF_setP, esF_ite, esF_match2, esF_heapSetU, esF_qpSetU, esF_callN, esF_retN, esF_skip,
    exec_setN, exec_setP, exec_heapSetU, exec_qpSetU, exec_retN, exec_skip, evalN, evalNs, evalP, evalPs, evalB, evalBF,
    bindN, bindP, bindV, upd, St.setS, St.setN, St.setP, ↓reduceIte, Nat.reduceEqDiff, pure_bind, bind_assoc, liftF_bind,
    liftF_pure, liftF_ite, liftF_error, iteF_bind, errorF_bind, unwind]
  simp only [frameDQ_liftF_bind, map_bind]
  refine liftR_bind_congr_ok fun e he => ?_
  have hmap : s.map.getIndex mapPosition = some e := (unwrapO_ok_iff _ _ _).mp he
  by_cases hpos : position > 0
  · have h0 : ¬ position = 0 := by omega
    simp only [hpos, h0, decide_true, ↓reduceIte, frameDQ_liftF_bind, frameDQ_cmpAt_bind, Store.prioAt, liftR_bind,
      bind_assoc, map_bind, cmpHoleF_bind, iteC_bind, fillDQo, upd, Nat.reduceEqDiff, liftR_pure, pure_bind]
    refine liftR_bind_congr_ok fun i hi => liftR_bind_congr_ok fun pe hpe => ?_
    have hi' : getU s.heap (Arith.parent position) 311 = .ok i := by
      rw [getU_ok_iff] at hi ⊢; exact hi
    simp only [hi', liftR_ok, okC_bind]
    by_cases hfz : s.ticks + 1 = fuse
    · simp only [hfz, ↓reduceIte]
      cases fillHole s position mapPosition 316 317 <;> rfl
    · simp only [hfz, ↓reduceIte]
      have hmap' : (s.tick 1).map.getIndex mapPosition = some e := hmap
      cases hb1 : decide (Arith.level position % 2 = 0) <;> cases hb2 : decide (pe.2 < e.2) <;> simp only []
      · -- (false, false): crossing, then the min loop
        simp only [frameDQ_liftF_bind, bind_assoc, DQ.bubbleUpMinF, hmap', unwrapO_some, liftR_ok, okC_bind, map_bind]
        refine liftR_bind_congr_ok fun hp _ => liftR_bind_congr_ok fun qp _ => ?_
        rw [frameDQ_fromCall_bind]
        have hc := call_dqBubbleUpMinF fuse { map := s.tick.map, heap := hp, qp := qp, size := s.tick.size, ticks := s.tick.ticks } (Arith.parent position) mapPosition e.2 (k + 1) (by simp only [Arith.parent]; omega)
        generalize callWithF (execF prog SrcGen.unwind fuse false (k + 1)) (exec prog (k + 1)) prog SrcGen.unwind
          FnId.dqBubbleUpMin { map := s.tick.map, heap := hp, qp := qp, size := s.tick.size, ticks := s.tick.ticks } [Arith.parent position, mapPosition] [e.snd] [] = cc at hc ⊢
        rw [← hc]
        cases cc with
        | ok r =>
          obtain ⟨s2, v⟩ := r
          cases v with
          | nat pfin =>
            simp only [callCR, okC_bind, pure_bind, okF_bind, frameDQ_liftF_bind, liftF_bind, liftF_pure, bind_assoc]
            refine liftR_bind_congr_ok fun hp2 _ => liftR_bind_congr_ok fun qp2 _ => ?_
            rfl
          | _ => rfl
        | error ce =>
          cases ce with
          | fault f => rfl
          | panic s2 r2 =>
            simp only [callCR, upd, ↓reduceIte, Nat.reduceEqDiff]
            cases fillHole s2 r2 mapPosition 316 317 <;> rfl
      · -- (false, true): the max loop from the original position
        simp only [frameDQ_liftF_bind, bind_assoc, DQ.bubbleUpMaxF, hmap', unwrapO_some, liftR_ok, okC_bind, map_bind]
        rw [frameDQ_fromCall_bind]
        have hc := call_dqBubbleUpMaxF fuse s.tick position mapPosition e.2 (k + 1) (by omega)
        generalize callWithF (execF prog SrcGen.unwind fuse false (k + 1)) (exec prog (k + 1)) prog SrcGen.unwind
          FnId.dqBubbleUpMax s.tick [position, mapPosition] [e.snd] [] = cc at hc ⊢
        rw [← hc]
        cases cc with
        | ok r =>
          obtain ⟨s2, v⟩ := r
          cases v with
          | nat pfin =>
            simp only [callCR, okC_bind, pure_bind, okF_bind, frameDQ_liftF_bind, liftF_bind, liftF_pure, bind_assoc]
            refine liftR_bind_congr_ok fun hp2 _ => liftR_bind_congr_ok fun qp2 _ => ?_
            rfl
          | _ => rfl
        | error ce =>
          cases ce with
          | fault f => rfl
          | panic s2 r2 =>
            simp only [callCR, upd, ↓reduceIte, Nat.reduceEqDiff]
            cases fillHole s2 r2 mapPosition 316 317 <;> rfl
      · -- (true, false): the min loop from the original position
        simp only [frameDQ_liftF_bind, bind_assoc, DQ.bubbleUpMinF, hmap', unwrapO_some, liftR_ok, okC_bind, map_bind]
        rw [frameDQ_fromCall_bind]
        have hc := call_dqBubbleUpMinF fuse s.tick position mapPosition e.2 (k + 1) (by omega)
        generalize callWithF (execF prog SrcGen.unwind fuse false (k + 1)) (exec prog (k + 1)) prog SrcGen.unwind
          FnId.dqBubbleUpMin s.tick [position, mapPosition] [e.snd] [] = cc at hc ⊢
        rw [← hc]
        cases cc with
        | ok r =>
          obtain ⟨s2, v⟩ := r
          cases v with
          | nat pfin =>
            simp only [callCR, okC_bind, pure_bind, okF_bind, frameDQ_liftF_bind, liftF_bind, liftF_pure, bind_assoc]
            refine liftR_bind_congr_ok fun hp2 _ => liftR_bind_congr_ok fun qp2 _ => ?_
            rfl
          | _ => rfl
        | error ce =>
          cases ce with
          | fault f => rfl
          | panic s2 r2 =>
            simp only [callCR, upd, ↓reduceIte, Nat.reduceEqDiff]
            cases fillHole s2 r2 mapPosition 316 317 <;> rfl
      · -- (true, true): crossing, then the max loop
        simp only [frameDQ_liftF_bind, bind_assoc, DQ.bubbleUpMaxF, hmap', unwrapO_some, liftR_ok, okC_bind, map_bind]
        refine liftR_bind_congr_ok fun hp _ => liftR_bind_congr_ok fun qp _ => ?_
        rw [frameDQ_fromCall_bind]
        have hc := call_dqBubbleUpMaxF fuse { map := s.tick.map, heap := hp, qp := qp, size := s.tick.size, ticks := s.tick.ticks } (Arith.parent position) mapPosition e.2 (k + 1) (by simp only [Arith.parent]; omega)
        generalize callWithF (execF prog SrcGen.unwind fuse false (k + 1)) (exec prog (k + 1)) prog SrcGen.unwind
          FnId.dqBubbleUpMax { map := s.tick.map, heap := hp, qp := qp, size := s.tick.size, ticks := s.tick.ticks } [Arith.parent position, mapPosition] [e.snd] [] = cc at hc ⊢
        rw [← hc]
        cases cc with
        | ok r =>
          obtain ⟨s2, v⟩ := r
          cases v with
          | nat pfin =>
            simp only [callCR, okC_bind, pure_bind, okF_bind, frameDQ_liftF_bind, liftF_bind, liftF_pure, bind_assoc]
            refine liftR_bind_congr_ok fun hp2 _ => liftR_bind_congr_ok fun qp2 _ => ?_
            rfl
          | _ => rfl
        | error ce =>
          cases ce with
          | fault f => rfl
          | panic s2 r2 =>
            simp only [callCR, upd, ↓reduceIte, Nat.reduceEqDiff]
            cases fillHole s2 r2 mapPosition 316 317 <;> rfl
  · simp only [hpos, decide_false, Bool.false_eq_true, ↓reduceIte, pure_bind, liftF_pure, frameDQ_liftF_bind,
      bind_assoc, liftR_pure, upd, Nat.reduceEqDiff, map_bind]
    refine liftR_bind_congr_ok fun hp2 _ => liftR_bind_congr_ok fun qp2 _ => ?_
    rfl

/-! ## `DoublePriorityQueue::push` of a new item under panics -/

/-- `DoublePriorityQueue::push` of an item that is not in the queue, when the `fuse`-th comparison panics = `Crash.DQ.pushF`:
in particular the store that survives a panic already counts the new element (`size += 1` precedes the sift-up) and the
guard has put it where the hole was -/
theorem dqPushF_new (fuse : Nat) (s : Store P) (it : Item) (p : P) (hnew : IMap.find? s.map it.key = none)
    (fuel : Nat) (h : fuel ≥ s.size + 5) :
    runF prog unwind fuse false fuel .dqPush s [] [p] [Val.item it]
      = (fun r => (r.1, Val.optP r.2)) <$> Crash.DQ.pushF fuse s it p := by
  obtain ⟨k, rfl⟩ : ∃ k, fuel = k + 1 := ⟨fuel - 1, by omega⟩
  have hb := dqBubbleUpF fuse
    { map := Array.push s.map (it, p), heap := s.heap.push s.size, qp := s.qp.push s.size, size := s.size + 1,
      ticks := s.ticks } s.size s.size k (by omega)
  rw [runF_eq] at hb
  unfold runF callWithF Crash.DQ.pushF
  rw [IMap.insertFull_of_find?_none hnew]
  simp only [prog, SrcGen.dqPush]
  rw [execF, dqPush_body]
  simp only [esF_seq, esF_setN, esF_ite, esF_callN, esF_entryMatch, esF_leaf_setVNoneP, esF_leaf_vacantInsert,
    esF_leaf_qpPush, esF_leaf_heapPush, esF_leaf_sizeInc, esF_leaf_retNoneP, exec_setN, exec_setVNoneP, exec_vacantInsert,
    exec_qpPush, exec_heapPush, exec_sizeInc, exec_retNoneP,
    evalN, evalNs, evalP, evalPs, evalB, evalBF, bindN, bindP, bindV, upd, St.setS, St.setN, St.setP, St.setV,
    hnew, ↓reduceIte, Nat.reduceEqDiff, pure_bind, bind_assoc, liftF_bind, liftF_pure, liftF_ok, okF_bind, unwind,
    Option.isSome_none, Bool.false_eq_true, esF_skip, exec_skip]
  generalize callWithF (execF prog SrcGen.unwind fuse false k) (exec prog k) prog SrcGen.unwind FnId.dqBubbleUp
      { map := Array.push s.map (it, p), heap := s.heap.push s.size, qp := s.qp.push s.size, size := s.size + 1,
        ticks := s.ticks } [s.size, s.size] [] [] = c at hb ⊢
  generalize DQ.bubbleUpF fuse
      { map := Array.push s.map (it, p), heap := s.heap.push s.size, qp := s.qp.push s.size, size := s.size + 1,
        ticks := s.ticks } s.size s.size = y at hb ⊢
  cases c with
  | ok r =>
    cases y with
    | error ey => simp [toCRcall, Functor.map, Except.map] at hb
    | ok yr =>
      simp only [toCRcall, Functor.map, Except.map, Except.ok.injEq] at hb
      subst hb
      rfl
  | error ce =>
    cases ce with
    | fault f =>
      cases y with
      | ok yr => simp [toCRcall, Functor.map, Except.map] at hb
      | error ey =>
        simp only [toCRcall, Functor.map, Except.map, Except.error.injEq] at hb
        subst hb
        rfl
    | panic s' ret =>
      cases y with
      | ok yr => simp [toCRcall, Functor.map, Except.map] at hb
      | error ey =>
        simp only [toCRcall, Functor.map, Except.map, Except.error.injEq] at hb
        subst hb
        rfl
end PQ.SrcEquivF
