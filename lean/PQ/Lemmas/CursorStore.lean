import PQ.Props.C13
/-!
# The slice cursor run over a store: what `iter` / `into_iter` / `drain` yield, as ENTRIES (helper lemmas for C13 / C16)

`Cursor` (Model/Iter.lean) yields slot numbers.  `iter()`, `into_iter()` and `drain()` are that cursor over the map's entry
vector: `n := s.map.size`, slot `i ↦ s.map[i]`.  The lemmas below make the link explicit: the yielded ENTRIES are pairwise
distinct stored entries, and with at least `len` advancing calls they are a permutation of the stored entries — "every
stored element exactly once" for entries, not just for indices.
-/
namespace PQ
variable {P : Type}

/-- the entries a run of the cursor hands out -/
def Cursor.entries (m : IMap P) (calls : List ICall) : List (Item × P) :=
  (slots (Cursor.run (Cursor.new m.size) calls)).filterMap (m[·]?)

theorem list_range_filterMap_getElem? {α : Type} (l : List α) : (List.range l.length).filterMap (l[·]?) = l := by
  induction l with
  | nil => rfl
  | cons a t ih =>
    rw [List.length_cons, List.range_succ_eq_map, List.filterMap_cons]
    simp only [List.getElem?_cons_zero, List.filterMap_map]
    simpa [Function.comp_def] using ih

theorem range_filterMap_getElem? (m : IMap P) : (List.range m.size).filterMap (m[·]?) = m.toList := by
  cases m with
  | mk l => simpa using list_range_filterMap_getElem? l

/-- with at least `len` advancing calls the cursor hands out exactly the stored entries, each once -/
theorem Cursor.entries_perm (m : IMap P) (calls : List ICall) (h : m.size ≤ adv calls) :
    (Cursor.entries m calls).Perm m.toList := by
  have hp := (C13_cursor_exhaust m.size calls).2.2.1 h
  have := hp.filterMap (m[·]?)
  rwa [range_filterMap_getElem?] at this

/-- in general: the handed-out entries are stored entries at pairwise distinct slots, `min len (#advancing calls)` of them -/
theorem Cursor.entries_sub (m : IMap P) (calls : List ICall) :
    (slots (Cursor.run (Cursor.new m.size) calls)).Nodup ∧
    (∀ i ∈ slots (Cursor.run (Cursor.new m.size) calls), i < m.size) ∧
    (Cursor.entries m calls).length = min m.size (adv calls) := by
  have h1 := C13_cursor_nodup m.size calls
  have h2 := (C13_cursor_exhaust m.size calls).1
  refine ⟨h1.1, h1.2, ?_⟩
  unfold Cursor.entries
  have : ∀ l : List Nat, (∀ i ∈ l, i < m.size) → (l.filterMap (m[·]?)).length = l.length := by
    intro l hl
    induction l with
    | nil => rfl
    | cons a t ih =>
      have ha : a < m.size := hl a (by simp)
      simp [ha, ih (fun i hi => hl i (by simp [hi]))]
  rw [this _ h1.2, h2]

/-- keys of the handed-out entries are pairwise distinct when the map has unique keys (a well-formed store) -/
theorem Cursor.entries_keys_nodup (m : IMap P) (hm : m.NoDupKeys) (calls : List ICall) :
    ((Cursor.entries m calls).map (·.1.key)).Nodup := by
  have h1 := C13_cursor_nodup m.size calls
  unfold Cursor.entries
  generalize slots (Cursor.run (Cursor.new m.size) calls) = l at h1
  obtain ⟨hnd, hlt⟩ := h1
  induction l with
  | nil => simp
  | cons a t ih =>
    have ha : a < m.size := hlt a (by simp)
    have hnd' := List.nodup_cons.1 hnd
    simp only [List.filterMap_cons, ha, Array.getElem?_eq_getElem, List.map_cons, List.nodup_cons]
    refine ⟨?_, ih hnd'.2 (fun i hi => hlt i (by simp [hi]))⟩
    intro hmem
    obtain ⟨e, he, hk⟩ := List.mem_map.1 hmem
    obtain ⟨j, hj, hje⟩ := List.mem_filterMap.1 he
    have hja : a = j := hm a j m[a] e (by simp [ha]) hje hk.symm
    exact hnd'.1 (hja ▸ hj)

end PQ
