import PQ.Lemmas.Spec
import PQ.Lemmas.PQOps
import PQ.Lemmas.DQOps
import PQ.Model.Ops
import PQ.Props.C09
/-!
# Histories: lifting the operation-level theorems to arbitrary finite lists of public operations

* Part (a): `iterMutRun` (the `iter_mut` program runner of `PQ/Model/Ops.lean`) never faults, only rewrites payloads and
  priorities, hands out what the iterator machine of the queue kind hands out (so, by C09, no slot twice) and leaves in
  slot `j` the entry obtained by applying the write attached to the unique call that yielded `j`.
* Part (b)–(f): `QWF`, `QInv`; every `step` keeps `QWF` (leaked `iter_mut` guards included) and, leaks excluded, keeps
  `QInv`; `run` likewise, by induction on the history; every rebuilding operation re-establishes `QInv` from `QWF`.
-/
set_option linter.unusedSimpArgs false
set_option linter.unusedSectionVars false
set_option linter.unusedVariables false
namespace PQ
open Arith Store
variable {P : Type} [LT P] [DecidableLT P] [LE P] [Std.IsLinearPreorder P] [Std.LawfulOrderLT P]

/-! ## (a) `iter_mut` programs -/

/-- the effect of a write through a yielded `(&mut I, &mut P)` on the entry: the key cannot be written -/
def IMWrite.apply (w : IMWrite P) (e : Item × P) : Item × P :=
  (match w.payload with | some pl => { e.1 with payload := pl } | none => e.1,
   match w.prio with | some p => p | none => e.2)

theorem hist_apply_key (w : IMWrite P) (e : Item × P) : (w.apply e).1.key = e.1.key := by
  unfold IMWrite.apply
  cases w.payload <;> rfl

theorem hist_applyWrite_eq (m : IMap P) (i : Nat) (w : IMWrite P) :
    IMap.applyWrite m i w = match m[i]? with | some e => m.setIfInBounds i (w.apply e) | none => m := rfl

theorem hist_size_applyWrite (m : IMap P) (i : Nat) (w : IMWrite P) : (IMap.applyWrite m i w).size = m.size := by
  rw [hist_applyWrite_eq]
  split
  · exact Array.size_setIfInBounds ..
  · rfl

/-- contents after one write: slot `i` gets the written entry, every other slot is untouched -/
theorem hist_getElem?_applyWrite (m : IMap P) (i : Nat) (w : IMWrite P) (j : Nat) :
    (IMap.applyWrite m i w)[j]? = if j = i then (m[j]?).map w.apply else m[j]? := by
  rw [hist_applyWrite_eq]
  cases hi : m[i]? with
  | none =>
    show m[j]? = _
    split
    · subst_vars; rw [hi]; rfl
    · rfl
  | some e =>
    show (m.setIfInBounds i (w.apply e))[j]? = _
    rw [Array.getElem?_setIfInBounds]
    have hil : i < m.size := (Array.getElem?_eq_some_iff.1 hi).1
    by_cases hji : j = i
    · subst hji; rw [if_pos rfl, if_pos rfl, if_pos hil, hi]; rfl
    · rw [if_neg hji, if_neg (fun h => hji h.symm)]

theorem hist_keys_applyWrite (m : IMap P) (i : Nat) (w : IMWrite P) (j : Nat) :
    ((IMap.applyWrite m i w)[j]?).map (fun e : Item × P => e.1.key) = (m[j]?).map (fun e : Item × P => e.1.key) := by
  rw [hist_getElem?_applyWrite]
  split
  · cases m[j]? with
    | none => rfl
    | some e => simp [hist_apply_key]
  · rfl

/-- the writes of a program applied along the outputs of the machine: output `t` (if it is a slot) receives write `t` -/
def hist_applyOuts : List IOut → List (IMWrite P) → IMap P → IMap P
  | o :: os, w :: ws, m =>
    hist_applyOuts os ws (match o with | .slot (some i) => IMap.applyWrite m i w | _ => m)
  | _, _, m => m

theorem hist_size_applyOuts (outs : List IOut) : ∀ (ws : List (IMWrite P)) (m : IMap P),
    (hist_applyOuts outs ws m).size = m.size := by
  induction outs with
  | nil => intro ws m; cases ws <;> rfl
  | cons o os ih =>
    intro ws m
    cases ws with
    | nil => rfl
    | cons w ws =>
      simp only [hist_applyOuts]
      rw [ih]
      split
      · exact hist_size_applyWrite ..
      · rfl

theorem hist_keys_applyOuts (outs : List IOut) : ∀ (ws : List (IMWrite P)) (m : IMap P) (j : Nat),
    ((hist_applyOuts outs ws m)[j]?).map (fun e : Item × P => e.1.key) = (m[j]?).map (fun e : Item × P => e.1.key) := by
  induction outs with
  | nil => intro ws m j; cases ws <;> rfl
  | cons o os ih =>
    intro ws m j
    cases ws with
    | nil => rfl
    | cons w ws =>
      simp only [hist_applyOuts]
      rw [ih]
      split
      · exact hist_keys_applyWrite ..
      · rfl

/-- a slot no call yielded is untouched -/
theorem hist_applyOuts_untouched (outs : List IOut) : ∀ (ws : List (IMWrite P)) (m : IMap P) (j : Nat),
    j ∉ slots outs → (hist_applyOuts outs ws m)[j]? = m[j]? := by
  induction outs with
  | nil => intro ws m j _; cases ws <;> rfl
  | cons o os ih =>
    intro ws m j hj
    cases ws with
    | nil => rfl
    | cons w ws =>
      simp only [hist_applyOuts]
      cases o with
      | slot i =>
        cases i with
        | none => exact ih ws m j (by simpa using hj)
        | some i =>
          have hj' : j ≠ i ∧ j ∉ slots os := by simpa using hj
          rw [ih ws _ j hj'.2, hist_getElem?_applyWrite, if_neg hj'.1]
      | len k => exact ih ws m j (by simpa using hj)
      | hint lo hi => exact ih ws m j (by simpa using hj)
      | unsupported => exact ih ws m j (by simpa using hj)

theorem hist_mem_slots_of_getElem? {outs : List IOut} {t j : Nat} (h : outs[t]? = some (.slot (some j))) :
    j ∈ slots outs := by
  induction outs generalizing t with
  | nil => simp at h
  | cons o os ih =>
    cases t with
    | zero =>
      simp only [List.getElem?_cons_zero, Option.some.injEq] at h
      subst h; simp
    | succ t =>
      simp only [List.getElem?_cons_succ] at h
      have := ih h
      cases o with
      | slot i => cases i <;> simp [this]
      | len k => simpa using this
      | hint lo hi => simpa using this
      | unsupported => simpa using this

/-- when no slot is yielded twice, the call that yielded `j` is unique -/
theorem hist_yield_unique {outs : List IOut} (hnd : (slots outs).Nodup) {t t' j : Nat}
    (h : outs[t]? = some (.slot (some j))) (h' : outs[t']? = some (.slot (some j))) : t = t' := by
  induction outs generalizing t t' with
  | nil => simp at h
  | cons o os ih =>
    have hnd' : (slots os).Nodup := by
      cases o with
      | slot i =>
        cases i with
        | none => simpa using hnd
        | some i => exact (List.nodup_cons.1 (by simpa using hnd)).2
      | len k => simpa using hnd
      | hint lo hi => simpa using hnd
      | unsupported => simpa using hnd
    cases t with
    | zero =>
      cases t' with
      | zero => rfl
      | succ t' =>
        simp only [List.getElem?_cons_zero, Option.some.injEq] at h
        simp only [List.getElem?_cons_succ] at h'
        subst h
        have hn : j ∉ slots os := (List.nodup_cons.1 (by simpa using hnd)).1
        exact absurd (hist_mem_slots_of_getElem? h') hn
    | succ t =>
      cases t' with
      | zero =>
        simp only [List.getElem?_cons_zero, Option.some.injEq] at h'
        simp only [List.getElem?_cons_succ] at h
        subst h'
        have hn : j ∉ slots os := (List.nodup_cons.1 (by simpa using hnd)).1
        exact absurd (hist_mem_slots_of_getElem? h) hn
      | succ t' =>
        simp only [List.getElem?_cons_succ] at h h'
        rw [ih hnd' h h']

/-- **final contents**: when no slot is yielded twice, the slot yielded by call `t` holds the old entry with write `t`
applied -/
theorem hist_applyOuts_yielded (outs : List IOut) : ∀ (ws : List (IMWrite P)) (m : IMap P) (t j : Nat) (w : IMWrite P),
    (slots outs).Nodup → outs[t]? = some (.slot (some j)) → ws[t]? = some w →
    (hist_applyOuts outs ws m)[j]? = (m[j]?).map w.apply := by
  induction outs with
  | nil => intro ws m t j w _ h; simp at h
  | cons o os ih =>
    intro ws m t j w hnd ho hw
    cases ws with
    | nil => simp at hw
    | cons w0 ws =>
      simp only [hist_applyOuts]
      cases t with
      | zero =>
        simp only [List.getElem?_cons_zero, Option.some.injEq] at ho hw
        subst ho; subst hw
        have hn : j ∉ slots os := (List.nodup_cons.1 (by simpa using hnd)).1
        rw [hist_applyOuts_untouched os ws _ j hn, hist_getElem?_applyWrite, if_pos rfl]
      | succ t =>
        simp only [List.getElem?_cons_succ] at ho hw
        have hmem := hist_mem_slots_of_getElem? ho
        cases o with
        | slot i =>
          cases i with
          | none => exact ih ws m t j w (by simpa using hnd) ho hw
          | some i =>
            have hc := List.nodup_cons.1 (show (i :: slots os).Nodup by simpa using hnd)
            have hji : j ≠ i := fun h => hc.1 (h ▸ hmem)
            rw [ih ws _ t j w hc.2 ho hw, hist_getElem?_applyWrite, if_neg hji]
        | len k => exact ih ws m t j w (by simpa using hnd) ho hw
        | hint lo hi => exact ih ws m t j w (by simpa using hnd) ho hw
        | unsupported => exact ih ws m t j w (by simpa using hnd) ho hw

/-- `iterMutRun` on a `PriorityQueue`, from ANY machine state: no fault; the outputs are those of `PIterMut.run` on the
calls; the map is the old one with the writes applied along the outputs -/
theorem hist_iterMutRun_pq (n : Nat) (prog : List (ICall × IMWrite P)) : ∀ (pit : PIterMut) (dit : DIterMut) (m : IMap P),
    iterMutRun .pq n prog pit dit m =
      .ok (PIterMut.run n pit (prog.map (·.1)),
           hist_applyOuts (PIterMut.run n pit (prog.map (·.1))) (prog.map (·.2)) m) := by
  induction prog with
  | nil => intro pit dit m; rfl
  | cons cw rest ih =>
    intro pit dit m
    obtain ⟨c, w⟩ := cw
    simp only [iterMutRun, bind, Except.bind, pure, Except.pure, ih, List.map_cons, PIterMut.run_cons, hist_applyOuts]
    rfl

/-- `iterMutRun` on a `DoublePriorityQueue`, from any machine state with `pos ≤ back ≤ n`: no fault; the outputs are
those of the slice cursor (= `DIterMut.run`, see `hist_iterMutRun_dpq_run` below) -/
theorem hist_iterMutRun_dpq (n : Nat) (prog : List (ICall × IMWrite P)) :
    ∀ (pit : PIterMut) (dit : DIterMut) (m : IMap P), dit.pos ≤ dit.back → dit.back ≤ n →
    iterMutRun .dpq n prog pit dit m =
      .ok (Cursor.run dit.toCursor (prog.map (·.1)),
           hist_applyOuts (Cursor.run dit.toCursor (prog.map (·.1))) (prog.map (·.2)) m) := by
  induction prog with
  | nil => intro pit dit m _ _; rfl
  | cons cw rest ih =>
    intro pit dit m h1 h2
    obtain ⟨c, w⟩ := cw
    have hw := DIterMut.cursor_step_wf dit.toCursor n h1 h2 c
    have ih' := ih pit ⟨(dit.toCursor.step c).1.front, (dit.toCursor.step c).1.back⟩
    simp only [iterMutRun, bind, Except.bind, pure, Except.pure, DIterMut.step_eq_cursor n dit h1 h2 c, List.map_cons,
      Cursor.run_cons, hist_applyOuts]
    rw [ih' _ hw.1 hw.2]
    rfl


/-- the same, phrased with the machine's own run: the outputs of the program ARE `DIterMut.run` on its calls, no slot is
yielded twice and every yielded slot lies between the two cursors -/
theorem hist_iterMutRun_dpq_run (n : Nat) (prog : List (ICall × IMWrite P)) (pit : PIterMut) (dit : DIterMut) (m : IMap P)
    (h1 : dit.pos ≤ dit.back) (h2 : dit.back ≤ n) :
    ∃ outs, DIterMut.run n dit (prog.map (·.1)) = .ok outs ∧
      iterMutRun .dpq n prog pit dit m = .ok (outs, hist_applyOuts outs (prog.map (·.2)) m) ∧
      (slots outs).Nodup ∧ ∀ i ∈ slots outs, dit.pos ≤ i ∧ i < dit.back :=
  ⟨_, (DIterMut.run_exec_eq_cursor n dit h1 h2 _).1, hist_iterMutRun_dpq n prog pit dit m h1 h2,
    Cursor.slots_nodup _ _, Cursor.slots_bounds _ _⟩

/-- `PriorityQueue::iter_mut` from any machine state: no slot twice, only slots `pos ≤ i < n` -/
theorem hist_iterMutRun_pq_nodup (n : Nat) (calls : List ICall) (pit : PIterMut) :
    (slots (PIterMut.run n pit calls)).Nodup ∧ ∀ i ∈ slots (PIterMut.run n pit calls), pit.pos ≤ i ∧ i < n := by
  rw [PIterMut.slots_eq]
  refine ⟨List.nodup_range', fun i hi => ?_⟩
  have := List.mem_range'_1.1 hi
  omega

theorem hist_pIterMut_run_length (n : Nat) (calls : List ICall) : ∀ (it : PIterMut),
    (PIterMut.run n it calls).length = calls.length := by
  induction calls with
  | nil => intro it; rfl
  | cons x xs ih => intro it; simp [PIterMut.run_cons, ih]

/-- **(a), all facts together.**  An `iter_mut` program run on a map `m` with the machine of either queue kind, started
fresh (`n = m.size`): it never faults; the outputs are exactly the machine's outputs on the calls; no slot is yielded
twice and only stored slots are yielded (C09); the map keeps its size and the key of every slot; the slot yielded by
call `t` holds the old entry with write `t` applied, every slot not yielded is unchanged. -/
theorem hist_iterMutRun_spec (kind : Kind) (m : IMap P) (prog : List (ICall × IMWrite P)) :
    ∃ outs m', iterMutRun kind m.size prog PIterMut.new (DIterMut.new m.size) m = .ok (outs, m') ∧
      (match kind with
        | .pq => outs = PIterMut.run m.size PIterMut.new (prog.map (·.1))
        | .dpq => DIterMut.run m.size (DIterMut.new m.size) (prog.map (·.1)) = .ok outs) ∧
      outs.length = prog.length ∧
      (slots outs).Nodup ∧ (∀ i ∈ slots outs, i < m.size) ∧
      m'.size = m.size ∧
      (∀ j : Nat, (m'[j]?).map (fun e : Item × P => e.1.key) = (m[j]?).map (fun e : Item × P => e.1.key)) ∧
      (∀ (t j : Nat) (w : IMWrite P), outs[t]? = some (IOut.slot (some j)) → (prog[t]?).map (·.2) = some w →
        m'[j]? = (m[j]?).map w.apply) ∧
      (∀ j : Nat, j ∉ slots outs → m'[j]? = m[j]?) := by
  cases kind with
  | pq =>
    have hnd := C09_pq_nodup m.size (prog.map (·.1))
    refine ⟨_, _, hist_iterMutRun_pq m.size prog PIterMut.new (DIterMut.new m.size) m, rfl, ?_, hnd.1, hnd.2,
      hist_size_applyOuts _ _ _, hist_keys_applyOuts _ _ _, ?_, fun j hj => hist_applyOuts_untouched _ _ _ j hj⟩
    · rw [hist_pIterMut_run_length, List.length_map]
    · intro t j w ho hw
      exact hist_applyOuts_yielded _ _ m t j w hnd.1 ho (by rw [List.getElem?_map]; exact hw)
  | dpq =>
    have hrun := DIterMut.run_eq_cursor m.size (prog.map (·.1))
    have hnd := C09_dpq_nodup m.size (prog.map (·.1)) _ hrun
    refine ⟨_, _, hist_iterMutRun_dpq m.size prog PIterMut.new (DIterMut.new m.size) m (Nat.zero_le _) (Nat.le_refl _),
      hrun, ?_, hnd.1, hnd.2,
      hist_size_applyOuts _ _ _, hist_keys_applyOuts _ _ _, ?_, fun j hj => hist_applyOuts_untouched _ _ _ j hj⟩
    · show (Cursor.run _ _).length = _
      rw [Cursor.run_length, List.length_map]
    · intro t j w ho hw
      exact hist_applyOuts_yielded _ _ m t j w hnd.1 ho (by rw [List.getElem?_map]; exact hw)

/-- consequence for the store: after the program the store (same tables, rewritten map) is still well-formed, keys are
still unique and every key is still found in the same slot -/
theorem hist_iterMutRun_wf {s : Store P} (h : s.WF) (kind : Kind) (prog : List (ICall × IMWrite P)) :
    ∃ outs m', iterMutRun kind s.map.size prog PIterMut.new (DIterMut.new s.map.size) s.map = .ok (outs, m') ∧
      ({ s with map := m' } : Store P).WF ∧ IMap.NoDupKeys m' ∧ m'.size = s.map.size ∧
      (∀ k, IMap.find? m' k = IMap.find? s.map k) ∧ outs.length = prog.length := by
  obtain ⟨outs, m', hrun, _, hlen, _, _, hsz, hkeys, _, _⟩ := hist_iterMutRun_spec kind s.map prog
  have hnd : IMap.NoDupKeys m' := h.nodup.congr_keys hkeys
  exact ⟨outs, m', hrun, wf_of_map_update h hsz hnd, hnd, hsz, fun k => IMap.find?_congr_keys hkeys k, hlen⟩

/-! ## (b) the two invariants of a queue of either kind -/

/-- the invariant of the queue kind: `WF` plus the heap order of that kind -/
def QInv (q : Q P) : Prop :=
  match q.kind with
  | .pq => MaxQ.Inv q.s
  | .dpq => DQ.Inv q.s

/-- what every unchecked access trusts: the index tables are mutually inverse bijections of `0..size`, all lengths agree
with `size`, keys are unique (no order) -/
def QWF (q : Q P) : Prop := q.s.WF

theorem QInv.wf {q : Q P} (h : QInv q) : QWF q := by
  obtain ⟨k, s⟩ := q
  cases k
  · exact (h : MaxQ.Inv s).1
  · exact (h : DQ.Inv s).1

theorem hist_qinv_pq {s : Store P} : QInv ⟨.pq, s⟩ ↔ MaxQ.Inv s := Iff.rfl
theorem hist_qinv_dpq {s : Store P} : QInv ⟨.dpq, s⟩ ↔ DQ.Inv s := Iff.rfl

theorem hist_new_wf (k : Kind) : QWF (Q.new k : Q P) := wf_empty

theorem hist_new_inv (k : Kind) : QInv (Q.new k : Q P) := by
  cases k
  · exact ⟨wf_empty, fun p hp hps => by simp [Q.new, Store.empty] at hps⟩
  · exact DQ.inv_empty

/-- the leaked guard: `iter_mut` whose `Drop` (the rebuild) never runs -/
def Op.isLeak : Op P → Bool
  | .iterMut true _ => true
  | _ => false

/-- the operations that end in `heap_build` (or produce an empty queue) whatever the order was before -/
def Op.rebuilds : Op P → Bool
  | .retainMut _ | .iterMut false _ | .fromVec _ | .fromIter _ _ | .deserialize _ _ | .convert | .append _ | .clear
  | .drain => true
  | _ => false

/-! ## total forms of the operation-level theorems (one existential per operation, no case split) -/

namespace MaxQ

theorem hist_pushIncrease_wf {s : Store P} (h : s.WF) (it : Item) (p : P) :
    ∃ s' r, pushIncrease s it p = .ok (s', r) ∧ s'.WF := by
  obtain ⟨h0, h1, h2⟩ := pushIncrease_safe h it p
  cases ha : s.abs it.key with
  | none => obtain ⟨s', hp, hwf, _⟩ := h0 ha; exact ⟨s', _, hp, hwf⟩
  | some e =>
    by_cases hlt : e.2 < p
    · obtain ⟨s', hp, hwf, _⟩ := h1 e ha hlt; exact ⟨s', _, hp, hwf⟩
    · exact ⟨s.tick, _, h2 e ha hlt, tick_TWF.mpr h⟩

theorem hist_pushIncrease_inv {s : Store P} (h : Inv s) (it : Item) (p : P) :
    ∃ s' r, pushIncrease s it p = .ok (s', r) ∧ Inv s' := by
  obtain ⟨h0, h1, h2⟩ := pushIncrease_spec h it p
  cases ha : s.abs it.key with
  | none => obtain ⟨s', hp, hwf, _⟩ := h0 ha; exact ⟨s', _, hp, hwf⟩
  | some e =>
    by_cases hlt : e.2 < p
    · obtain ⟨s', hp, hwf, _⟩ := h1 e ha hlt; exact ⟨s', _, hp, hwf⟩
    · exact ⟨s.tick, _, (h2 e ha hlt).1, (h2 e ha hlt).2.1⟩

theorem hist_pushDecrease_wf {s : Store P} (h : s.WF) (it : Item) (p : P) :
    ∃ s' r, pushDecrease s it p = .ok (s', r) ∧ s'.WF := by
  obtain ⟨h0, h1, h2⟩ := pushDecrease_safe h it p
  cases ha : s.abs it.key with
  | none => obtain ⟨s', hp, hwf, _⟩ := h0 ha; exact ⟨s', _, hp, hwf⟩
  | some e =>
    by_cases hlt : p < e.2
    · obtain ⟨s', hp, hwf, _⟩ := h1 e ha hlt; exact ⟨s', _, hp, hwf⟩
    · exact ⟨s.tick, _, h2 e ha hlt, tick_TWF.mpr h⟩

theorem hist_pushDecrease_inv {s : Store P} (h : Inv s) (it : Item) (p : P) :
    ∃ s' r, pushDecrease s it p = .ok (s', r) ∧ Inv s' := by
  obtain ⟨h0, h1, h2⟩ := pushDecrease_spec h it p
  cases ha : s.abs it.key with
  | none => obtain ⟨s', hp, hwf, _⟩ := h0 ha; exact ⟨s', _, hp, hwf⟩
  | some e =>
    by_cases hlt : p < e.2
    · obtain ⟨s', hp, hwf, _⟩ := h1 e ha hlt; exact ⟨s', _, hp, hwf⟩
    · exact ⟨s.tick, _, (h2 e ha hlt).1, (h2 e ha hlt).2.1⟩

theorem hist_changePriority_wf {s : Store P} (h : s.WF) (k : Nat) (p : P) :
    ∃ s' r, changePriority s k p = .ok (s', r) ∧ s'.WF := by
  obtain ⟨h0, h1⟩ := changePriority_safe h k p
  cases ha : s.abs k with
  | none => exact ⟨s, _, h0 ha, h⟩
  | some e => obtain ⟨s', hp, hwf, _⟩ := h1 e ha; exact ⟨s', _, hp, hwf⟩

theorem hist_changePriority_inv {s : Store P} (h : Inv s) (k : Nat) (p : P) :
    ∃ s' r, changePriority s k p = .ok (s', r) ∧ Inv s' := by
  obtain ⟨h0, h1⟩ := changePriority_spec h k p
  cases ha : s.abs k with
  | none => exact ⟨s, _, h0 ha, h⟩
  | some e => obtain ⟨s', hp, hwf, _⟩ := h1 e ha; exact ⟨s', _, hp, hwf⟩

theorem hist_changePriorityBy_wf {s : Store P} (h : s.WF) (k : Nat) (g : P → P) :
    ∃ s' r, changePriorityBy s k g = .ok (s', r) ∧ s'.WF := by
  obtain ⟨h0, h1⟩ := changePriorityBy_safe h k g
  cases ha : s.abs k with
  | none => exact ⟨s, _, h0 ha, h⟩
  | some e => obtain ⟨s', hp, hwf, _⟩ := h1 e ha; exact ⟨s', _, hp, hwf⟩

theorem hist_changePriorityBy_inv {s : Store P} (h : Inv s) (k : Nat) (g : P → P) :
    ∃ s' r, changePriorityBy s k g = .ok (s', r) ∧ Inv s' := by
  obtain ⟨h0, h1⟩ := changePriorityBy_spec h k g
  cases ha : s.abs k with
  | none => exact ⟨s, _, h0 ha, h⟩
  | some e => obtain ⟨s', hp, hwf, _⟩ := h1 e ha; exact ⟨s', _, hp, hwf⟩

theorem hist_remove_wf {s : Store P} (h : s.WF) (k : Nat) : ∃ s' r, remove s k = .ok (s', r) ∧ s'.WF := by
  obtain ⟨h0, h1⟩ := remove_safe h k
  cases ha : s.abs k with
  | none => exact ⟨s, _, h0 ha, h⟩
  | some e => obtain ⟨s', hp, hwf, _⟩ := h1 e ha; exact ⟨s', _, hp, hwf⟩

theorem hist_remove_inv {s : Store P} (h : Inv s) (k : Nat) : ∃ s' r, remove s k = .ok (s', r) ∧ Inv s' := by
  obtain ⟨h0, h1⟩ := remove_spec h k
  cases ha : s.abs k with
  | none => exact ⟨s, _, h0 ha, h⟩
  | some e => obtain ⟨s', hp, hwf, _⟩ := h1 e ha; exact ⟨s', _, hp, hwf⟩

theorem hist_pop_wf {s : Store P} (h : s.WF) : ∃ s' r, pop s = .ok (s', r) ∧ s'.WF := by
  obtain ⟨h0, h1⟩ := pop_safe h
  rcases Nat.eq_zero_or_pos s.size with hz | hn
  · exact ⟨s, _, h0 hz, h⟩
  · obtain ⟨s', e, hp, _, hwf, _⟩ := h1 hn; exact ⟨s', _, hp, hwf⟩

theorem hist_pop_inv {s : Store P} (h : Inv s) : ∃ s' r, pop s = .ok (s', r) ∧ Inv s' := by
  obtain ⟨h0, h1⟩ := pop_spec h
  rcases Nat.eq_zero_or_pos s.size with hz | hn
  · exact ⟨s, _, h0 hz, h⟩
  · obtain ⟨s', e, hp, _, _, hwf, _⟩ := h1 hn; exact ⟨s', _, hp, hwf⟩

theorem hist_popIf_wf {s : Store P} (h : s.WF) (f : Item → P → Bool × Item × P)
    (hf : ∀ it p, (f it p).2.1.key = it.key) : ∃ s' r, popIf s f = .ok (s', r) ∧ s'.WF := by
  obtain ⟨h0, h1⟩ := popIf_safe h f hf
  rcases Nat.eq_zero_or_pos s.size with hz | hn
  · exact ⟨s, _, h0 hz, h⟩
  · obtain ⟨e, _, ht, hfl⟩ := h1 hn
    cases hr : (f e.1 e.2).1 with
    | true => obtain ⟨s', hp, hwf, _⟩ := ht hr; exact ⟨s', _, hp, hwf⟩
    | false => obtain ⟨s', hp, hwf, _⟩ := hfl hr; exact ⟨s', _, hp, hwf⟩

theorem hist_popIf_inv {s : Store P} (h : Inv s) (f : Item → P → Bool × Item × P)
    (hf : ∀ it p, (f it p).2.1.key = it.key) : ∃ s' r, popIf s f = .ok (s', r) ∧ Inv s' := by
  obtain ⟨h0, h1⟩ := popIf_spec h f hf
  rcases Nat.eq_zero_or_pos s.size with hz | hn
  · exact ⟨s, _, h0 hz, h⟩
  · obtain ⟨e, _, _, ht, hfl⟩ := h1 hn
    cases hr : (f e.1 e.2).1 with
    | true => obtain ⟨s', hp, hwf, _⟩ := ht hr; exact ⟨s', _, hp, hwf⟩
    | false => obtain ⟨s', hp, hwf, _⟩ := hfl hr; exact ⟨s', _, hp, hwf⟩

theorem hist_peekMutWrite_wf {s : Store P} (h : s.WF) (w : Item → Item) (hw : ∀ it, (w it).key = it.key) :
    ∃ s' r, peekMutWrite s w = .ok (s', r) ∧ s'.WF := by
  obtain ⟨h0, h1⟩ := peekMutWrite_safe h w hw
  rcases Nat.eq_zero_or_pos s.size with hz | hn
  · exact ⟨s, _, h0 hz, h⟩
  · obtain ⟨s', e, hp, _, hwf, _⟩ := h1 hn; exact ⟨s', _, hp, hwf⟩

theorem hist_peekMutWrite_inv {s : Store P} (h : Inv s) (w : Item → Item) (hw : ∀ it, (w it).key = it.key) :
    ∃ s' r, peekMutWrite s w = .ok (s', r) ∧ Inv s' := by
  obtain ⟨h0, h1⟩ := peekMutWrite_spec h w hw
  rcases Nat.eq_zero_or_pos s.size with hz | hn
  · exact ⟨s, _, h0 hz, h⟩
  · obtain ⟨s', e, hp, _, _, hwf, _⟩ := h1 hn; exact ⟨s', _, hp, hwf⟩

end MaxQ

/-! ### `get_mut` followed by a key-preserving write (the same function for both kinds) -/

/-- `get_mut` + write: total, keeps `WF`, and leaves the priority at every heap position as it was -/
theorem hist_getMutWrite {s : Store P} (h : s.WF) (k : Nat) (w : Item → Item) (hw : ∀ it, (w it).key = it.key) :
    (s.getMutWrite k w).1.WF ∧ (s.getMutWrite k w).1.size = s.size ∧ ∀ q, (s.getMutWrite k w).1.pr q = s.pr q := by
  cases hl : IMap.lookup s.map k with
  | none =>
    rw [getMutWrite_spec_none hl w]
    exact ⟨h, rfl, fun _ => rfl⟩
  | some e =>
    obtain ⟨s', pos, hg, _, hep, hwf, hsz, _, _, _, hent, _⟩ := getMutWrite_spec_some h hl w (hw e.1)
    rw [hg]
    refine ⟨hwf, hsz, fun q => ?_⟩
    show s'.pr q = s.pr q
    rw [pr_eq_entryAt, pr_eq_entryAt, hent q]
    split
    · subst_vars; rw [hep]; rfl
    · rfl

theorem hist_getMutWrite_maxInv {s : Store P} (h : MaxQ.Inv s) (k : Nat) (w : Item → Item)
    (hw : ∀ it, (w it).key = it.key) : MaxQ.Inv (s.getMutWrite k w).1 := by
  obtain ⟨hwf, hsz, hpr⟩ := hist_getMutWrite h.1 k w hw
  exact ⟨hwf, MaxQ.maxHeap_of_prefix h.2 (Nat.le_of_eq hsz) (fun q _ => hpr q)⟩

theorem hist_getMutWrite_dqInv {s : Store P} (h : DQ.Inv s) (k : Nat) (w : Item → Item)
    (hw : ∀ it, (w it).key = it.key) : DQ.Inv (s.getMutWrite k w).1 := by
  obtain ⟨hwf, hsz, hpr⟩ := hist_getMutWrite h.1 k w hw
  exact ⟨hwf, DQ.minMaxHeap_congr hpr hsz h.2⟩

/-! ## (c) one step keeps `QWF` — every constructor of `Op`, both kinds, leaked guards included -/

/-- closes a goal `∃ q' o, step ⟨kind, s⟩ op = .ok (q', o) ∧ I q'` given the evaluation `he` of the queue-level function
and the invariant `hI` of the resulting store -/
local macro "hist_close " he:term ", " hI:term : tactic =>
  `(tactic| (simp only [step, $he:term, bind, Except.bind, pure, Except.pure]; exact ⟨_, _, rfl, $hI⟩))

theorem hist_step_safe {q : Q P} {op : Op P} (hq : QWF q) (hl : op.Legal) :
    ∃ q' o, step q op = .ok (q', o) ∧ QWF q' := by
  obtain ⟨k, s⟩ := q
  have h : s.WF := hq
  cases op with
  | push it p =>
    cases k
    · obtain ⟨s', he, hwf, _⟩ := MaxQ.push_safe h it p; hist_close he, hwf
    · obtain ⟨s', he, hwf, _⟩ := DQ.push_safe h it p; hist_close he, hwf
  | pushIncrease it p =>
    cases k
    · obtain ⟨s', r, he, hwf⟩ := MaxQ.hist_pushIncrease_wf h it p; hist_close he, hwf
    · obtain ⟨s', r, he, hwf, _⟩ := DQ.pushIncrease_safe h it p; hist_close he, hwf
  | pushDecrease it p =>
    cases k
    · obtain ⟨s', r, he, hwf⟩ := MaxQ.hist_pushDecrease_wf h it p; hist_close he, hwf
    · obtain ⟨s', r, he, hwf, _⟩ := DQ.pushDecrease_safe h it p; hist_close he, hwf
  | changePriority key p =>
    cases k
    · obtain ⟨s', r, he, hwf⟩ := MaxQ.hist_changePriority_wf h key p; hist_close he, hwf
    · obtain ⟨s', he, hwf, _⟩ := DQ.changePriority_safe h key p; hist_close he, hwf
  | changePriorityBy key g =>
    cases k
    · obtain ⟨s', r, he, hwf⟩ := MaxQ.hist_changePriorityBy_wf h key g; hist_close he, hwf
    · obtain ⟨s', he, hwf, _⟩ := DQ.changePriorityBy_safe h key g; hist_close he, hwf
  | remove key =>
    cases k
    · obtain ⟨s', r, he, hwf⟩ := MaxQ.hist_remove_wf h key; hist_close he, hwf
    · obtain ⟨s', he, hwf, _⟩ := DQ.remove_safe h key; hist_close he, hwf
  | getMut key w =>
    exact ⟨_, _, rfl, (hist_getMutWrite h key w hl).1⟩
  | popFront =>
    cases k
    · obtain ⟨s', r, he, hwf⟩ := MaxQ.hist_pop_wf h; hist_close he, hwf
    · obtain ⟨s', r, he, hwf, _⟩ := DQ.popMin_safe h; hist_close he, hwf
  | popBack =>
    cases k
    · exact ⟨_, _, rfl, h⟩
    · obtain ⟨s', r, he, hwf, _⟩ := DQ.popMax_safe h; hist_close he, hwf
  | popFrontIf f =>
    cases k
    · obtain ⟨s', r, he, hwf⟩ := MaxQ.hist_popIf_wf h f hl; hist_close he, hwf
    · obtain ⟨s', r, he, hwf, _⟩ := DQ.popMinIf_safe h f hl; hist_close he, hwf
  | popBackIf f =>
    cases k
    · exact ⟨_, _, rfl, h⟩
    · obtain ⟨s', r, he, hwf, _⟩ := DQ.popMaxIf_safe h f hl; hist_close he, hwf
  | peekFrontMut w =>
    cases k
    · obtain ⟨s', r, he, hwf⟩ := MaxQ.hist_peekMutWrite_wf h w hl; hist_close he, hwf
    · obtain ⟨s', r, he, hwf, _⟩ := DQ.peekMinMutWrite_safe h w hl; hist_close he, hwf
  | peekBackMut w =>
    cases k
    · exact ⟨_, _, rfl, h⟩
    · obtain ⟨s', r, he, hwf, _⟩ := DQ.peekMaxMutWrite_safe h w hl; hist_close he, hwf
  | retainMut f =>
    cases k
    · obtain ⟨s', he, hwf, _⟩ := MaxQ.retainMut_safe h f hl; hist_close he, hwf
    · obtain ⟨s', he, hwf, _⟩ := DQ.retainMut_safe h f hl; hist_close he, hwf
  | iterMut leak prog =>
    obtain ⟨outs, m', hrun, hwf1, _⟩ := hist_iterMutRun_wf h k prog
    cases leak with
    | true => hist_close hrun, hwf1
    | false =>
      cases k
      · obtain ⟨s', he, hwf, _⟩ := MaxQ.heapBuild_safe hwf1
        simp only [step, hrun, heapBuildK, he, bind, Except.bind, pure, Except.pure]
        exact ⟨_, _, rfl, hwf⟩
      · obtain ⟨s', he, hwf, _⟩ := DQ.heapBuild_safe hwf1
        simp only [step, hrun, heapBuildK, he, bind, Except.bind, pure, Except.pure]
        exact ⟨_, _, rfl, hwf⟩
  | extend lo xs =>
    have hlo : lo < capLimit := Nat.lt_of_le_of_lt hl.1 hl.2
    cases k
    · obtain ⟨s', he, hwf, _⟩ := MaxQ.extend_safe h lo xs hlo; hist_close he, hwf
    · obtain ⟨s', he, hwf, _⟩ := DQ.extend_safe h lo xs hlo; hist_close he, hwf
  | append o =>
    have ho : o.WF := hl
    cases k
    · obtain ⟨s', o', he, hwf, _⟩ := MaxQ.append_safe h ho; hist_close he, hwf
    · obtain ⟨s', o', he, hwf, _⟩ := DQ.append_safe h ho; hist_close he, hwf
  | fromVec xs =>
    cases k
    · obtain ⟨s', he, hwf, _⟩ := MaxQ.fromVec_safe xs; hist_close he, hwf
    · obtain ⟨s', he, hwf, _⟩ := DQ.fromVec_safe xs; hist_close he, hwf
  | fromIter lo xs =>
    have hlo : lo < capLimit := Nat.lt_of_le_of_lt hl.1 hl.2
    cases k
    · obtain ⟨s', he, hwf, _⟩ := MaxQ.fromIter_safe lo xs hlo; hist_close he, hwf
    · obtain ⟨s', he, hwf, _⟩ := DQ.fromIter_safe lo xs hlo; hist_close he, hwf
  | deserialize hint xs =>
    cases k
    · obtain ⟨s', he, hwf, _⟩ := MaxQ.deserialize_safe hint xs; hist_close he, hwf
    · obtain ⟨s', he, hwf, _⟩ := DQ.deserialize_safe hint xs; hist_close he, hwf
  | convert =>
    cases k
    · obtain ⟨s', he, hwf, _⟩ := DQ.ofStore_safe h; hist_close he, hwf
    · obtain ⟨s', he, hwf, _⟩ := MaxQ.ofStore_safe h; hist_close he, hwf
  | clear => exact ⟨_, _, rfl, wf_clear s⟩
  | drain => exact ⟨_, _, rfl, wf_drain s⟩
  | capacityOp => exact ⟨_, _, rfl, h⟩


/-! ## total forms for the `DoublePriorityQueue` operations under `DQ.Inv` -/

namespace DQ

theorem hist_pushIncrease_inv {s : Store P} (h : Inv s) (it : Item) (p : P) :
    ∃ s' r, pushIncrease s it p = .ok (s', r) ∧ Inv s' := by
  obtain ⟨h0, h1, h2⟩ := pushIncrease_spec h it p
  cases ha : s.abs it.key with
  | none => obtain ⟨s', hp, hwf, _⟩ := h0 ha; exact ⟨s', _, hp, hwf⟩
  | some e =>
    by_cases hlt : e.2 < p
    · obtain ⟨s', hp, hwf, _⟩ := h1 e ha hlt; exact ⟨s', _, hp, hwf⟩
    · exact ⟨s.tick, _, h2 e ha hlt, inv_tick h 1⟩

theorem hist_pushDecrease_inv {s : Store P} (h : Inv s) (it : Item) (p : P) :
    ∃ s' r, pushDecrease s it p = .ok (s', r) ∧ Inv s' := by
  obtain ⟨h0, h1, h2⟩ := pushDecrease_spec h it p
  cases ha : s.abs it.key with
  | none => obtain ⟨s', hp, hwf, _⟩ := h0 ha; exact ⟨s', _, hp, hwf⟩
  | some e =>
    by_cases hlt : p < e.2
    · obtain ⟨s', hp, hwf, _⟩ := h1 e ha hlt; exact ⟨s', _, hp, hwf⟩
    · exact ⟨s.tick, _, h2 e ha hlt, inv_tick h 1⟩

theorem hist_changePriority_inv {s : Store P} (h : Inv s) (k : Nat) (p : P) :
    ∃ s' r, changePriority s k p = .ok (s', r) ∧ Inv s' := by
  obtain ⟨h0, h1⟩ := changePriority_spec h k p
  cases ha : s.abs k with
  | none => exact ⟨s, _, h0 ha, h⟩
  | some e => obtain ⟨s', hp, hwf, _⟩ := h1 e ha; exact ⟨s', _, hp, hwf⟩

theorem hist_changePriorityBy_inv {s : Store P} (h : Inv s) (k : Nat) (g : P → P) :
    ∃ s' r, changePriorityBy s k g = .ok (s', r) ∧ Inv s' := by
  obtain ⟨h0, h1⟩ := changePriorityBy_spec h k g
  cases ha : s.abs k with
  | none => exact ⟨s, _, h0 ha, h⟩
  | some e => obtain ⟨s', hp, hwf, _⟩ := h1 e ha; exact ⟨s', _, hp, hwf⟩

theorem hist_remove_inv {s : Store P} (h : Inv s) (k : Nat) : ∃ s' r, remove s k = .ok (s', r) ∧ Inv s' := by
  obtain ⟨h0, h1⟩ := remove_spec h k
  cases ha : s.abs k with
  | none => exact ⟨s, _, h0 ha, h⟩
  | some e => obtain ⟨s', hp, hwf, _⟩ := h1 e ha; exact ⟨s', _, hp, hwf⟩

theorem hist_popMin_inv {s : Store P} (h : Inv s) : ∃ s' r, popMin s = .ok (s', r) ∧ Inv s' := by
  obtain ⟨h0, h1⟩ := popMin_spec h
  rcases Nat.eq_zero_or_pos s.size with hz | hn
  · exact ⟨s, _, h0 hz, h⟩
  · obtain ⟨s', e, hp, _, _, hwf, _⟩ := h1 hn; exact ⟨s', _, hp, hwf⟩

theorem hist_popMax_inv {s : Store P} (h : Inv s) : ∃ s' r, popMax s = .ok (s', r) ∧ Inv s' := by
  obtain ⟨h0, h1⟩ := popMax_spec h
  rcases Nat.eq_zero_or_pos s.size with hz | hn
  · exact ⟨s, _, h0 hz, h⟩
  · obtain ⟨k, s', e, hp, _, _, _, hwf, _⟩ := h1 hn; exact ⟨s', _, hp, hwf⟩

theorem hist_popMinIf_inv {s : Store P} (h : Inv s) (f : Item → P → Bool × Item × P)
    (hf : ∀ it p, (f it p).2.1.key = it.key) : ∃ s' r, popMinIf s f = .ok (s', r) ∧ Inv s' := by
  obtain ⟨h0, h1⟩ := popMinIf_spec h f hf
  rcases Nat.eq_zero_or_pos s.size with hz | hn
  · exact ⟨s, _, h0 hz, h⟩
  · obtain ⟨e, _, _, ht, hfl⟩ := h1 hn
    cases hr : (f e.1 e.2).1 with
    | true => obtain ⟨s', hp, hwf, _⟩ := ht hr; exact ⟨s', _, hp, hwf⟩
    | false => obtain ⟨s', hp, hwf, _⟩ := hfl hr; exact ⟨s', _, hp, hwf⟩

theorem hist_popMaxIf_inv {s : Store P} (h : Inv s) (f : Item → P → Bool × Item × P)
    (hf : ∀ it p, (f it p).2.1.key = it.key) : ∃ s' r, popMaxIf s f = .ok (s', r) ∧ Inv s' := by
  obtain ⟨h0, h1⟩ := popMaxIf_spec h f hf
  rcases Nat.eq_zero_or_pos s.size with hz | hn
  · exact ⟨s, _, h0 hz, h⟩
  · obtain ⟨k, e, _, _, _, ht, hfl⟩ := h1 hn
    cases hr : (f e.1 e.2).1 with
    | true => obtain ⟨s', hp, hwf, _⟩ := ht hr; exact ⟨s', _, hp, hwf⟩
    | false => obtain ⟨s', hp, hwf, _⟩ := hfl hr; exact ⟨s', _, hp, hwf⟩

theorem hist_peekMinMutWrite_inv {s : Store P} (h : Inv s) (w : Item → Item) (hw : ∀ it, (w it).key = it.key) :
    ∃ s' r, peekMinMutWrite s w = .ok (s', r) ∧ Inv s' := by
  obtain ⟨h0, h1⟩ := peekMinMutWrite_spec h w hw
  rcases Nat.eq_zero_or_pos s.size with hz | hn
  · exact ⟨s, _, h0 hz, h⟩
  · obtain ⟨s', e, hp, _, _, hwf, _⟩ := h1 hn; exact ⟨s', _, hp, hwf⟩

theorem hist_peekMaxMutWrite_inv {s : Store P} (h : Inv s) (w : Item → Item) (hw : ∀ it, (w it).key = it.key) :
    ∃ s' r, peekMaxMutWrite s w = .ok (s', r) ∧ Inv s' := by
  obtain ⟨h0, h1⟩ := peekMaxMutWrite_spec h w hw
  rcases Nat.eq_zero_or_pos s.size with hz | hn
  · exact ⟨s, _, h0 hz, h⟩
  · obtain ⟨k, s', e, hp, _, _, _, hwf, _⟩ := h1 hn; exact ⟨s', _, hp, hwf⟩

end DQ

/-- an emptied store satisfies both order invariants -/
theorem hist_inv_of_empty {s : Store P} (hwf : s.WF) (h0 : s.size = 0) : MaxQ.Inv s ∧ DQ.Inv s :=
  ⟨⟨hwf, fun p hp hps => by omega⟩, ⟨hwf, fun a d _ hd => by omega⟩⟩

/-! ## (f) the rebuilding operations re-establish the order from `QWF` alone -/

/-- after a leaked `iter_mut` guard (or from any other merely well-formed state) every operation that ends in
`heap_build` — `retain`/`retain_mut`, a dropped `iter_mut` guard, `From<Vec>`, `FromIterator`, `Deserialize`, the
conversion to the other kind, `append` — and `clear`/`drain` yield a queue satisfying the full invariant -/
theorem hist_step_rebuild {q : Q P} {op : Op P} (hq : QWF q) (hl : op.Legal) (hr : op.rebuilds = true) :
    ∃ q' o, step q op = .ok (q', o) ∧ QInv q' := by
  obtain ⟨k, s⟩ := q
  have h : s.WF := hq
  cases op with
  | retainMut f =>
    cases k
    · obtain ⟨s', he, hinv, _⟩ := MaxQ.retainMut_spec h f hl; hist_close he, hinv
    · obtain ⟨s', he, hinv, _⟩ := DQ.retainMut_spec h f hl; hist_close he, hinv
  | iterMut leak prog =>
    obtain ⟨outs, m', hrun, hwf1, _⟩ := hist_iterMutRun_wf h k prog
    cases leak with
    | true => simp [Op.rebuilds] at hr
    | false =>
      cases k
      · obtain ⟨s', he, hwf, _, _, hm⟩ := MaxQ.heapBuild_spec hwf1
        simp only [step, hrun, heapBuildK, he, bind, Except.bind, pure, Except.pure]
        exact ⟨_, _, rfl, (⟨hwf, hm⟩ : MaxQ.Inv s')⟩
      · obtain ⟨s', he, hwf, _, _, hm⟩ := DQ.heapBuild_spec hwf1
        simp only [step, hrun, heapBuildK, he, bind, Except.bind, pure, Except.pure]
        exact ⟨_, _, rfl, (⟨hwf, hm⟩ : DQ.Inv s')⟩
  | append o =>
    have ho : o.WF := hl
    cases k
    · obtain ⟨s', o', he, hinv, _⟩ := MaxQ.append_spec h ho; hist_close he, hinv
    · obtain ⟨s', o', he, hinv, _⟩ := DQ.append_spec h ho; hist_close he, hinv
  | fromVec xs =>
    cases k
    · obtain ⟨s', he, hinv, _⟩ := MaxQ.fromVec_spec xs; hist_close he, hinv
    · obtain ⟨s', he, hinv, _⟩ := DQ.fromVec_spec xs; hist_close he, hinv
  | fromIter lo xs =>
    have hlo : lo < capLimit := Nat.lt_of_le_of_lt hl.1 hl.2
    cases k
    · obtain ⟨s', he, hinv, _⟩ := MaxQ.fromIter_spec lo xs hlo; hist_close he, hinv
    · obtain ⟨s', he, hinv, _⟩ := DQ.fromIter_spec lo xs hlo; hist_close he, hinv
  | deserialize hint xs =>
    cases k
    · obtain ⟨s', he, hinv, _⟩ := MaxQ.deserialize_spec hint xs; hist_close he, hinv
    · obtain ⟨s', he, hinv, _⟩ := DQ.deserialize_spec hint xs; hist_close he, hinv
  | convert =>
    cases k
    · obtain ⟨s', he, hinv, _⟩ := DQ.ofStore_spec h; hist_close he, hinv
    · obtain ⟨s', he, hinv, _⟩ := MaxQ.ofStore_spec h; hist_close he, hinv
  | clear =>
    cases k
    · exact ⟨_, _, rfl, (hist_inv_of_empty (wf_clear s) rfl).1⟩
    · exact ⟨_, _, rfl, (hist_inv_of_empty (wf_clear s) rfl).2⟩
  | drain =>
    cases k
    · exact ⟨_, _, rfl, (hist_inv_of_empty (wf_drain s) rfl).1⟩
    · exact ⟨_, _, rfl, (hist_inv_of_empty (wf_drain s) rfl).2⟩
  | _ => simp [Op.rebuilds] at hr

/-! ## (d) one step keeps `QInv`, unless it is a leaked `iter_mut` guard -/

theorem hist_step_inv {q : Q P} {op : Op P} (hq : QInv q) (hl : op.Legal) (hn : op.isLeak = false) :
    ∃ q' o, step q op = .ok (q', o) ∧ QInv q' := by
  by_cases hr : op.rebuilds = true
  · exact hist_step_rebuild hq.wf hl hr
  obtain ⟨k, s⟩ := q
  cases op with
  | push it p =>
    cases k
    · obtain ⟨s', he, hinv, _⟩ := MaxQ.push_spec hq it p; hist_close he, hinv
    · obtain ⟨s', he, hinv, _⟩ := DQ.push_spec hq it p; hist_close he, hinv
  | pushIncrease it p =>
    cases k
    · obtain ⟨s', r, he, hinv⟩ := MaxQ.hist_pushIncrease_inv hq it p; hist_close he, hinv
    · obtain ⟨s', r, he, hinv⟩ := DQ.hist_pushIncrease_inv hq it p; hist_close he, hinv
  | pushDecrease it p =>
    cases k
    · obtain ⟨s', r, he, hinv⟩ := MaxQ.hist_pushDecrease_inv hq it p; hist_close he, hinv
    · obtain ⟨s', r, he, hinv⟩ := DQ.hist_pushDecrease_inv hq it p; hist_close he, hinv
  | changePriority key p =>
    cases k
    · obtain ⟨s', r, he, hinv⟩ := MaxQ.hist_changePriority_inv hq key p; hist_close he, hinv
    · obtain ⟨s', r, he, hinv⟩ := DQ.hist_changePriority_inv hq key p; hist_close he, hinv
  | changePriorityBy key g =>
    cases k
    · obtain ⟨s', r, he, hinv⟩ := MaxQ.hist_changePriorityBy_inv hq key g; hist_close he, hinv
    · obtain ⟨s', r, he, hinv⟩ := DQ.hist_changePriorityBy_inv hq key g; hist_close he, hinv
  | remove key =>
    cases k
    · obtain ⟨s', r, he, hinv⟩ := MaxQ.hist_remove_inv hq key; hist_close he, hinv
    · obtain ⟨s', r, he, hinv⟩ := DQ.hist_remove_inv hq key; hist_close he, hinv
  | getMut key w =>
    cases k
    · exact ⟨_, _, rfl, hist_getMutWrite_maxInv hq key w hl⟩
    · exact ⟨_, _, rfl, hist_getMutWrite_dqInv hq key w hl⟩
  | popFront =>
    cases k
    · obtain ⟨s', r, he, hinv⟩ := MaxQ.hist_pop_inv hq; hist_close he, hinv
    · obtain ⟨s', r, he, hinv⟩ := DQ.hist_popMin_inv hq; hist_close he, hinv
  | popBack =>
    cases k
    · exact ⟨_, _, rfl, hq⟩
    · obtain ⟨s', r, he, hinv⟩ := DQ.hist_popMax_inv hq; hist_close he, hinv
  | popFrontIf f =>
    cases k
    · obtain ⟨s', r, he, hinv⟩ := MaxQ.hist_popIf_inv hq f hl; hist_close he, hinv
    · obtain ⟨s', r, he, hinv⟩ := DQ.hist_popMinIf_inv hq f hl; hist_close he, hinv
  | popBackIf f =>
    cases k
    · exact ⟨_, _, rfl, hq⟩
    · obtain ⟨s', r, he, hinv⟩ := DQ.hist_popMaxIf_inv hq f hl; hist_close he, hinv
  | peekFrontMut w =>
    cases k
    · obtain ⟨s', r, he, hinv⟩ := MaxQ.hist_peekMutWrite_inv hq w hl; hist_close he, hinv
    · obtain ⟨s', r, he, hinv⟩ := DQ.hist_peekMinMutWrite_inv hq w hl; hist_close he, hinv
  | peekBackMut w =>
    cases k
    · exact ⟨_, _, rfl, hq⟩
    · obtain ⟨s', r, he, hinv⟩ := DQ.hist_peekMaxMutWrite_inv hq w hl; hist_close he, hinv
  | extend lo xs =>
    have hlo : lo < capLimit := Nat.lt_of_le_of_lt hl.1 hl.2
    cases k
    · obtain ⟨s', he, hinv, _⟩ := MaxQ.extend_spec hq lo xs hlo; hist_close he, hinv
    · obtain ⟨s', he, hinv, _⟩ := DQ.extend_spec hq lo xs hlo; hist_close he, hinv
  | capacityOp => exact ⟨_, _, rfl, hq⟩
  | iterMut leak prog =>
    cases leak with
    | true => simp [Op.isLeak] at hn
    | false => simp [Op.rebuilds] at hr
  | _ => simp [Op.rebuilds] at hr

/-! ## (e) histories -/

/-- **every history of legal operations runs without fault and ends in a well-formed queue** (leaked `iter_mut` guards
allowed anywhere) -/
theorem hist_run_safe (ops : List (Op P)) : ∀ {q : Q P}, QWF q → (∀ op ∈ ops, op.Legal) →
    ∃ q' outs, run q ops = .ok (q', outs) ∧ QWF q' ∧ outs.length = ops.length := by
  induction ops with
  | nil => intro q hq _; exact ⟨q, [], rfl, hq, rfl⟩
  | cons op ops ih =>
    intro q hq hl
    obtain ⟨q1, o, h1, hq1⟩ := hist_step_safe hq (hl op (List.mem_cons_self ..))
    obtain ⟨q2, os, h2, hq2, hlen⟩ := ih hq1 (fun op' h' => hl op' (List.mem_cons_of_mem _ h'))
    refine ⟨q2, o :: os, ?_, hq2, by simp [hlen]⟩
    simp only [run, h1, h2, bind, Except.bind, pure, Except.pure]

/-- **every history of legal operations without a leaked guard keeps the invariant of the (final) queue kind** -/
theorem hist_run_inv (ops : List (Op P)) : ∀ {q : Q P}, QInv q → (∀ op ∈ ops, op.Legal) →
    (∀ op ∈ ops, op.isLeak = false) →
    ∃ q' outs, run q ops = .ok (q', outs) ∧ QInv q' ∧ outs.length = ops.length := by
  induction ops with
  | nil => intro q hq _ _; exact ⟨q, [], rfl, hq, rfl⟩
  | cons op ops ih =>
    intro q hq hl hn
    obtain ⟨q1, o, h1, hq1⟩ := hist_step_inv hq (hl op (List.mem_cons_self ..)) (hn op (List.mem_cons_self ..))
    obtain ⟨q2, os, h2, hq2, hlen⟩ := ih hq1 (fun op' h' => hl op' (List.mem_cons_of_mem _ h'))
      (fun op' h' => hn op' (List.mem_cons_of_mem _ h'))
    refine ⟨q2, o :: os, ?_, hq2, by simp [hlen]⟩
    simp only [run, h1, h2, bind, Except.bind, pure, Except.pure]

/-- a history splits: running `a ++ b` is running `a`, then `b` from the state reached -/
theorem hist_run_append (a b : List (Op P)) : ∀ (q : Q P) (q1 : Q P) (o1 : List (Out P)), run q a = .ok (q1, o1) →
    run q (a ++ b) = (match run q1 b with | .ok (q2, o2) => .ok (q2, o1 ++ o2) | .error f => .error f) := by
  induction a with
  | nil =>
    intro q q1 o1 h
    simp only [run, pure, Except.pure, Except.ok.injEq, Prod.mk.injEq] at h
    obtain ⟨rfl, rfl⟩ := h
    simp only [List.nil_append]
    cases run q b with
    | error f => rfl
    | ok x => rfl
  | cons op a ih =>
    intro q q1 o1 h
    simp only [run, bind, Except.bind, pure, Except.pure, List.cons_append] at h ⊢
    cases hs : step q op with
    | error f => rw [hs] at h; cases h
    | ok x =>
      obtain ⟨q0, o⟩ := x
      rw [hs] at h
      simp only at h ⊢
      cases hr : run q0 a with
      | error f => rw [hr] at h; cases h
      | ok y =>
        obtain ⟨q1', o1'⟩ := y
        rw [hr] at h
        simp only [Except.ok.injEq, Prod.mk.injEq] at h
        obtain ⟨rfl, rfl⟩ := h
        rw [ih q0 q1' o1' hr]
        cases run q1' b with
        | error f => rfl
        | ok z => rfl

/-- **a leak is healed by the next rebuilding operation**: any legal history whose leaked guards are all followed (not
necessarily immediately) by a rebuilding operation, with no order-dependent claim in between, ends in `QInv`.  Stated
for the basic shape `pre ++ [rebuild] ++ post`: `pre` arbitrary (leaks allowed), `post` leak-free. -/
theorem hist_run_heal (pre post : List (Op P)) (op : Op P) {q : Q P} (hq : QWF q)
    (hpre : ∀ o ∈ pre, o.Legal) (hop : op.Legal) (hr : op.rebuilds = true)
    (hpost : ∀ o ∈ post, o.Legal) (hn : ∀ o ∈ post, o.isLeak = false) :
    ∃ q' outs, run q (pre ++ op :: post) = .ok (q', outs) ∧ QInv q' := by
  obtain ⟨q1, o1, h1, hq1, _⟩ := hist_run_safe pre hq hpre
  obtain ⟨q2, o, h2, hq2⟩ := hist_step_rebuild hq1 hop hr
  obtain ⟨q3, o3, h3, hq3, _⟩ := hist_run_inv post hq2 hpost hn
  refine ⟨q3, o1 ++ o :: o3, ?_, hq3⟩
  rw [hist_run_append pre (op :: post) q q1 o1 h1]
  simp only [run, h2, h3, bind, Except.bind, pure, Except.pure]


/-- the double-ended sorted iterator IS a history of `pop_min`/`pop_max` operations (`false` = `next` = `pop_min`,
`true` = `next_back` = `pop_max`) -/
theorem hist_run_sortedCalls (calls : List Bool) : ∀ (s : Store P),
    run ⟨.dpq, s⟩ (calls.map fun b => if b = true then Op.popBack else Op.popFront) =
      (match DQ.sortedCalls calls s with
       | .ok (outs, s') => .ok (⟨.dpq, s'⟩, outs.map Out.entry)
       | .error f => .error f) := by
  induction calls with
  | nil => intro s; rfl
  | cons b bs ih =>
    intro s
    cases b with
    | false =>
      simp only [List.map_cons, run, step, DQ.sortedCalls, bind, Except.bind, pure, Except.pure, Bool.false_eq_true,
        if_false]
      cases h : DQ.popMin s with
      | error f => rfl
      | ok x =>
        obtain ⟨s1, r⟩ := x
        simp only [ih s1]
        cases DQ.sortedCalls bs s1 with
        | error f => rfl
        | ok y => rfl
    | true =>
      simp only [List.map_cons, run, step, DQ.sortedCalls, bind, Except.bind, pure, Except.pure, if_true]
      cases h : DQ.popMax s with
      | error f => rfl
      | ok x =>
        obtain ⟨s1, r⟩ := x
        simp only [ih s1]
        cases DQ.sortedCalls bs s1 with
        | error f => rfl
        | ok y => rfl

/-! ## Non-vacuity: concrete programs and histories (evaluated by the kernel) -/
section Examples

/-- `r` succeeded and its value satisfies `q` -/
def hist_okR {α : Type} (r : R α) (q : α → Prop) : Prop :=
  match r with
  | .ok x => q x
  | .error _ => False

instance {α : Type} (r : R α) (q : α → Prop) [DecidablePred q] : Decidable (hist_okR r q) := by
  unfold hist_okR; split <;> infer_instance

/-- the entry an operation returned, if it is of that form (`Out` has no decidable equality: closures aside, compare
through this projection) -/
def hist_outEntry {P : Type} : Out P → Option (Option (Item × P))
  | .entry e => some e
  | _ => none

theorem hist_okR_iff {α : Type} {r : R α} {q : α → Prop} : hist_okR r q ↔ ∃ x, r = .ok x ∧ q x := by
  unfold hist_okR
  split
  · rename_i x; exact ⟨fun h => ⟨x, rfl, h⟩, fun ⟨y, hy, hq⟩ => by cases hy; exact hq⟩
  · exact ⟨False.elim, fun ⟨y, hy, _⟩ => by cases hy⟩

private def exM : IMap Nat := #[(⟨1, 10⟩, 5), (⟨2, 20⟩, 9), (⟨3, 30⟩, 7), (⟨4, 40⟩, 1)]

/-- calls from both ends with a write each; the fifth call finds the cursors met -/
private def exProg : List (ICall × IMWrite Nat) :=
  [(.next, ⟨some 100, none⟩), (.nextBack, ⟨none, some 44⟩), (.len, ⟨some 0, some 0⟩), (.next, ⟨some 3, some 21⟩),
   (.nextBack, ⟨none, none⟩), (.next, ⟨some 77, some 77⟩)]

-- (a) on the `DoublePriorityQueue` machine: slots 0, 3, 1, 2 once each; keys kept; write `t` lands in the slot of call `t`
example : hist_okR (iterMutRun .dpq 4 exProg PIterMut.new (DIterMut.new 4) exM) (fun r =>
    r.1 = [.slot (some 0), .slot (some 3), .len 2, .slot (some 1), .slot (some 2), .slot none] ∧
    r.2 = #[(⟨1, 10⟩, 100), (⟨2, 21⟩, 3), (⟨3, 30⟩, 7), (⟨4, 44⟩, 1)]) := by decide +kernel
-- … and on the `PriorityQueue` machine (`next_back`/`len` are not offered: those writes go nowhere)
example : hist_okR (iterMutRun .pq 4 exProg PIterMut.new (DIterMut.new 4) exM) (fun r =>
    r.1 = [.slot (some 0), .unsupported, .unsupported, .slot (some 1), .unsupported, .slot (some 2)] ∧
    r.2 = #[(⟨1, 10⟩, 100), (⟨2, 21⟩, 3), (⟨3, 77⟩, 77), (⟨4, 40⟩, 1)]) := by decide +kernel

/-- a history with a leaked guard in the middle: pushes, a leaked `iter_mut` that makes the root the smallest, a `pop`
on the disordered queue, a `change_priority`, then a `retain` that heals -/
private def exHist : List (Op Nat) :=
  [.push ⟨1, 0⟩ 5, .push ⟨2, 0⟩ 9, .push ⟨3, 0⟩ 7, .push ⟨4, 0⟩ 1, .push ⟨5, 0⟩ 3, .pushIncrease ⟨1, 1⟩ 6,
   .iterMut true [(.next, ⟨some 0, none⟩), (.next, ⟨some 50, some 1⟩)],
   .popFront, .changePriority 3 2]

example : ∀ op ∈ exHist, op.Legal := by
  intro op h
  simp only [exHist, List.mem_cons, List.not_mem_nil, or_false] at h
  rcases h with h | h | h | h | h | h | h | h | h <;> subst h <;> exact trivial

-- `hist_run_safe`: the run succeeds, the result is well-formed — but NOT ordered (key 1 with priority 0 sits above
-- key 4 with priority 1), also after the `pop` and the `change_priority` that followed the leak
example : hist_okR (run (Q.new .pq) exHist) (fun r => r.1.s.WF ∧ ¬ MaxQ.Inv r.1.s ∧ r.1.s.size = 4 ∧ r.2.length = 9 ∧
    r.1.s.heap = #[1, 0, 2, 3] ∧ r.1.s.abs 1 = some (⟨1, 0⟩, 0) ∧ r.1.s.abs 4 = some (⟨4, 0⟩, 1)) := by
  decide +kernel
-- `hist_run_heal`: one rebuilding operation later the full invariant is back
example : hist_okR (run (Q.new .pq) (exHist ++ [.retainMut (fun it p => (true, it, p)), .push ⟨9, 0⟩ 8]))
    (fun r => MaxQ.Inv r.1.s ∧ r.1.s.size = 5 ∧ MaxQ.peek r.1.s = some (⟨9, 0⟩, 8)) := by decide +kernel
-- `hist_run_inv` with a conversion inside the history: the final kind is `dpq`
example : hist_okR (run (Q.new .pq) [.push ⟨1, 0⟩ 5, .push ⟨2, 0⟩ 9, .push ⟨3, 0⟩ 7, .convert, .popBack, .popFront])
    (fun r => r.1.kind = .dpq ∧ r.1.s.WF ∧ r.1.s.size = 1 ∧ r.1.s.abs 3 = some (⟨3, 0⟩, 7)) := by decide +kernel

end Examples

end PQ
