import PQ.Lemmas.Spec
import PQ.Lemmas.PQOps
import PQ.Lemmas.DQOps
import PQ.Model.Ops
import PQ.Props.C09
/-!
# Histories: lifting the operation-level theorems to arbitrary finite lists of public operations

* Part (a): `iterMutRun` (the `iter_mut` program runner of `PQ/Model/Ops.lean`) never faults, only rewrites payloads and
  priorities, hands out what the iterator machine of the queue kind hands out (so, by C09, no slot twice) and leaves in
  slot `j` the entry obtained by applying the write attached to the unique call that yielded `j`.
* Part (b)–(f): `QWF`, `QInv`; every `step` keeps `QWF` (leaked `iter_mut` guards included) and, leaks excluded, keeps
  `QInv`; `run` likewise, by induction on the history; every rebuilding operation re-establishes `QInv` from `QWF`.
-/
set_option linter.unusedSimpArgs false
set_option linter.unusedSectionVars false
set_option linter.unusedVariables false
namespace PQ
open Arith Store
variable {P : Type} [LT P] [DecidableLT P] [LE P] [Std.IsLinearPreorder P] [Std.LawfulOrderLT P]

/-! ## (a) `iter_mut` programs -/

/-- the effect of a write through a yielded `(&mut I, &mut P)` on the entry: the key cannot be written -/
def IMWrite.apply (w : IMWrite P) (e : Item × P) : Item × P :=
  (match w.payload with | some pl => { e.1 with payload := pl } | none => e.1,
   match w.prio with | some p => p | none => e.2)

theorem hist_apply_key (w : IMWrite P) (e : Item × P) : (w.apply e).1.key = e.1.key := by
  unfold IMWrite.apply
  cases w.payload <;> rfl

theorem hist_applyWrite_eq (m : IMap P) (i : Nat) (w : IMWrite P) :
    IMap.applyWrite m i w = match m[i]? with | some e => m.setIfInBounds i (w.apply e) | none => m := rfl

theorem hist_size_applyWrite (m : IMap P) (i : Nat) (w : IMWrite P) : (IMap.applyWrite m i w).size = m.size := by
  rw [hist_applyWrite_eq]
  split
  · exact Array.size_setIfInBounds ..
  · rfl

/-- contents after one write: slot `i` gets the written entry, every other slot is untouched -/
theorem hist_getElem?_applyWrite (m : IMap P) (i : Nat) (w : IMWrite P) (j : Nat) :
    (IMap.applyWrite m i w)[j]? = if j = i then (m[j]?).map w.apply else m[j]? := by
  rw [hist_applyWrite_eq]
  cases hi : m[i]? with
  | none =>
    show m[j]? = _
    split
    · subst_vars; rw [hi]; rfl
    · rfl
  | some e =>
    show (m.setIfInBounds i (w.apply e))[j]? = _
    rw [Array.getElem?_setIfInBounds]
    have hil : i < m.size := (Array.getElem?_eq_some_iff.1 hi).1
    by_cases hji : j = i
    · subst hji; rw [if_pos rfl, if_pos rfl, if_pos hil, hi]; rfl
    · rw [if_neg hji, if_neg (fun h => hji h.symm)]

theorem hist_keys_applyWrite (m : IMap P) (i : Nat) (w : IMWrite P) (j : Nat) :
    ((IMap.applyWrite m i w)[j]?).map (fun e : Item × P => e.1.key) = (m[j]?).map (fun e : Item × P => e.1.key) := by
  rw [hist_getElem?_applyWrite]
  split
  · cases m[j]? with
    | none => rfl
    | some e => simp [hist_apply_key]
  · rfl

/-- the writes of a program applied along the outputs of the machine: output `t` (if it is a slot) receives write `t` -/
def hist_applyOuts : List IOut → List (IMWrite P) → IMap P → IMap P
  | o :: os, w :: ws, m =>
    hist_applyOuts os ws (match o with | .slot (some i) => IMap.applyWrite m i w | _ => m)
  | _, _, m => m

theorem hist_size_applyOuts (outs : List IOut) : ∀ (ws : List (IMWrite P)) (m : IMap P),
    (hist_applyOuts outs ws m).size = m.size := by
  induction outs with
  | nil => intro ws m; cases ws <;> rfl
  | cons o os ih =>
    intro ws m
    cases ws with
    | nil => rfl
    | cons w ws =>
      simp only [hist_applyOuts]
      rw [ih]
      split
      · exact hist_size_applyWrite ..
      · rfl

theorem hist_keys_applyOuts (outs : List IOut) : ∀ (ws : List (IMWrite P)) (m : IMap P) (j : Nat),
    ((hist_applyOuts outs ws m)[j]?).map (fun e : Item × P => e.1.key) = (m[j]?).map (fun e : Item × P => e.1.key) := by
  induction outs with
  | nil => intro ws m j; cases ws <;> rfl
  | cons o os ih =>
    intro ws m j
    cases ws with
    | nil => rfl
    | cons w ws =>
      simp only [hist_applyOuts]
      rw [ih]
      split
      · exact hist_keys_applyWrite ..
      · rfl

/-- a slot no call yielded is untouched -/
theorem hist_applyOuts_untouched (outs : List IOut) : ∀ (ws : List (IMWrite P)) (m : IMap P) (j : Nat),
    j ∉ slots outs → (hist_applyOuts outs ws m)[j]? = m[j]? := by
  induction outs with
  | nil => intro ws m j _; cases ws <;> rfl
  | cons o os ih =>
    intro ws m j hj
    cases ws with
    | nil => rfl
    | cons w ws =>
      simp only [hist_applyOuts]
      cases o with
      | slot i =>
        cases i with
        | none => exact ih ws m j (by simpa using hj)
        | some i =>
          have hj' : j ≠ i ∧ j ∉ slots os := by simpa using hj
          rw [ih ws _ j hj'.2, hist_getElem?_applyWrite, if_neg hj'.1]
      | len k => exact ih ws m j (by simpa using hj)
      | hint lo hi => exact ih ws m j (by simpa using hj)
      | unsupported => exact ih ws m j (by simpa using hj)

theorem hist_mem_slots_of_getElem? {outs : List IOut} {t j : Nat} (h : outs[t]? = some (.slot (some j))) :
    j ∈ slots outs := by
  induction outs generalizing t with
  | nil => simp at h
  | cons o os ih =>
    cases t with
    | zero =>
      simp only [List.getElem?_cons_zero, Option.some.injEq] at h
      subst h; simp
    | succ t =>
      simp only [List.getElem?_cons_succ] at h
      have := ih h
      cases o with
      | slot i => cases i <;> simp [this]
      | len k => simpa using this
      | hint lo hi => simpa using this
      | unsupported => simpa using this

/-- when no slot is yielded twice, the call that yielded `j` is unique -/
theorem hist_yield_unique {outs : List IOut} (hnd : (slots outs).Nodup) {t t' j : Nat}
    (h : outs[t]? = some (.slot (some j))) (h' : outs[t']? = some (.slot (some j))) : t = t' := by
  induction outs generalizing t t' with
  | nil => simp at h
  | cons o os ih =>
    have hnd' : (slots os).Nodup := by
      cases o with
      | slot i =>
        cases i with
        | none => simpa using hnd
        | some i => exact (List.nodup_cons.1 (by simpa using hnd)).2
      | len k => simpa using hnd
      | hint lo hi => simpa using hnd
      | unsupported => simpa using hnd
    cases t with
    | zero =>
      cases t' with
      | zero => rfl
      | succ t' =>
        simp only [List.getElem?_cons_zero, Option.some.injEq] at h
        simp only [List.getElem?_cons_succ] at h'
        subst h
        have hn : j ∉ slots os := (List.nodup_cons.1 (by simpa using hnd)).1
        exact absurd (hist_mem_slots_of_getElem? h') hn
    | succ t =>
      cases t' with
      | zero =>
        simp only [List.getElem?_cons_zero, Option.some.injEq] at h'
        simp only [List.getElem?_cons_succ] at h
        subst h'
        have hn : j ∉ slots os := (List.nodup_cons.1 (by simpa using hnd)).1
        exact absurd (hist_mem_slots_of_getElem? h) hn
      | succ t' =>
        simp only [List.getElem?_cons_succ] at h h'
        rw [ih hnd' h h']

/-- **final contents**: when no slot is yielded twice, the slot yielded by call `t` holds the old entry with write `t`
applied -/
theorem hist_applyOuts_yielded (outs : List IOut) : ∀ (ws : List (IMWrite P)) (m : IMap P) (t j : Nat) (w : IMWrite P),
    (slots outs).Nodup → outs[t]? = some (.slot (some j)) → ws[t]? = some w →
    (hist_applyOuts outs ws m)[j]? = (m[j]?).map w.apply := by
  induction outs with
  | nil => intro ws m t j w _ h; simp at h
  | cons o os ih =>
    intro ws m t j w hnd ho hw
    cases ws with
    | nil => simp at hw
    | cons w0 ws =>
      simp only [hist_applyOuts]
      cases t with
      | zero =>
        simp only [List.getElem?_cons_zero, Option.some.injEq] at ho hw
        subst ho; subst hw
        have hn : j ∉ slots os := (List.nodup_cons.1 (by simpa using hnd)).1
        rw [hist_applyOuts_untouched os ws _ j hn, hist_getElem?_applyWrite, if_pos rfl]
      | succ t =>
        simp only [List.getElem?_cons_succ] at ho hw
        have hmem := hist_mem_slots_of_getElem? ho
        cases o with
        | slot i =>
          cases i with
          | none => exact ih ws m t j w (by simpa using hnd) ho hw
          | some i =>
            have hc := List.nodup_cons.1 (show (i :: slots os).Nodup by simpa using hnd)
            have hji : j ≠ i := fun h => hc.1 (h ▸ hmem)
            rw [ih ws _ t j w hc.2 ho hw, hist_getElem?_applyWrite, if_neg hji]
        | len k => exact ih ws m t j w (by simpa using hnd) ho hw
        | hint lo hi => exact ih ws m t j w (by simpa using hnd) ho hw
        | unsupported => exact ih ws m t j w (by simpa using hnd) ho hw

/-- `iterMutRun` on a `PriorityQueue`, from ANY machine state: no fault; the outputs are those of `PIterMut.run` on the
calls; the map is the old one with the writes applied along the outputs -/
theorem hist_iterMutRun_pq (n : Nat) (prog : List (ICall × IMWrite P)) : ∀ (pit : PIterMut) (dit : DIterMut) (m : IMap P),
    iterMutRun .pq n prog pit dit m =
      .ok (PIterMut.run n pit (prog.map (·.1)),
           hist_applyOuts (PIterMut.run n pit (prog.map (·.1))) (prog.map (·.2)) m) := by
  induction prog with
  | nil => intro pit dit m; rfl
  | cons cw rest ih =>
    intro pit dit m
    obtain ⟨c, w⟩ := cw
    simp only [iterMutRun, bind, Except.bind, pure, Except.pure, ih, List.map_cons, PIterMut.run_cons, hist_applyOuts]
    rfl

/-- `iterMutRun` on a `DoublePriorityQueue`, from any machine state with `pos ≤ back ≤ n`: no fault; the outputs are
those of the slice cursor (= `DIterMut.run`, see `hist_iterMutRun_dpq_run`) -/
theorem hist_iterMutRun_dpq (n : Nat) (prog : List (ICall × IMWrite P)) :
    ∀ (pit : PIterMut) (dit : DIterMut) (m : IMap P), dit.pos ≤ dit.back → dit.back ≤ n →
    iterMutRun .dpq n prog pit dit m =
      .ok (Cursor.run dit.toCursor (prog.map (·.1)),
           hist_applyOuts (Cursor.run dit.toCursor (prog.map (·.1))) (prog.map (·.2)) m) := by
  induction prog with
  | nil => intro pit dit m _ _; rfl
  | cons cw rest ih =>
    intro pit dit m h1 h2
    obtain ⟨c, w⟩ := cw
    have hw := DIterMut.cursor_step_wf dit.toCursor n h1 h2 c
    have ih' := ih pit ⟨(dit.toCursor.step c).1.front, (dit.toCursor.step c).1.back⟩
    simp only [iterMutRun, bind, Except.bind, pure, Except.pure, DIterMut.step_eq_cursor n dit h1 h2 c, List.map_cons,
      Cursor.run_cons, hist_applyOuts]
    rw [ih' _ hw.1 hw.2]
    rfl

end PQ
