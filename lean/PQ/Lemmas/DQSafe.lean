import PQ.Lemmas.Spec
/-!
# `DoublePriorityQueue`: every public operation is fault-free on a well-formed store (no order hypothesis)

After a leaked `iter_mut` guard the store is well-formed (`WF`) but not ordered; property C04 needs that every
operation is still fault-free, keeps `WF` and has the right abstract contents.  That is the content of the
`*_safe` theorems of this file: they assume `s.WF` ONLY.

Each `*_safe` theorem is obtained from a `*_core` theorem which, in addition, carries the conditional order
statement "if the store was a min-max heap, the result is one (and the entry addressed is an extreme)".  The
operation-level refinement theorems (`PQ/Lemmas/DQOps.lean`) are the other projection of the `*_core` theorems.
-/
set_option linter.unusedSimpArgs false
set_option linter.unusedSectionVars false
set_option linter.unusedVariables false
namespace PQ
open Arith Store
variable {P : Type} [LT P] [DecidableLT P] [LE P] [Std.IsLinearPreorder P] [Std.LawfulOrderLT P]

namespace DQ

/-! ## Generic helpers -/

theorem ok_pair_inj {ε α β : Type} {a a' : α} {b b' : β}
    (h : (Except.ok (a, b) : Except ε (α × β)) = .ok (a', b')) : a = a' ∧ b = b' := by
  cases h; exact ⟨rfl, rfl⟩

theorem rel_congr {s s' : Store P} {a d d' : Nat} (ha : s'.pr a = s.pr a) (hd : s'.pr d = s.pr d')
    (h : s.Rel a d') : s'.Rel a d := by
  intro x y hx hy
  rw [ha] at hx; rw [hd] at hy
  exact h x y hx hy

theorem pr_congr_of_entryAt {s s' : Store P} {p q : Nat} (h : s'.entryAt p = s.entryAt q) : s'.pr p = s.pr q := by
  rw [pr_eq_entryAt, pr_eq_entryAt, h]

/-- pairs not involving `pos` stay in order when the entries at all other positions below the new size are unchanged -/
theorem rel_frame {s s' : Store P} {pos : Nat} (hm : s.MinMaxHeap) (hsz : s'.size ≤ s.size)
    (hent : ∀ p, p < s'.size → p ≠ pos → s'.entryAt p = s.entryAt p) :
    ∀ a d, Anc a d → d < s'.size → a ≠ pos → d ≠ pos → s'.Rel a d := by
  intro a d had hd ha hdp
  have := had.lt
  exact rel_congr (pr_congr_of_entryAt (hent a (by omega) ha)) (pr_congr_of_entryAt (hent d hd hdp))
    (hm a d had (by omega))

/-- same priorities at every position, same size: same order -/
theorem minMaxHeap_congr {s s' : Store P} (hpr : ∀ q, s'.pr q = s.pr q) (hsz : s'.size = s.size)
    (hm : s.MinMaxHeap) : s'.MinMaxHeap := by
  intro a d had hd
  rw [hsz] at hd
  exact rel_congr (hpr a) (hpr d) (hm a d had hd)

theorem abs_of_entryAt {s : Store P} (h : s.WF) {p : Nat} {e : Item × P} (he : s.entryAt p = some e) :
    s.abs e.1.key = some e :=
  (mem_iff_lookup h).1 (entryAt_mem he)

theorem abs_none_of_size_zero {s : Store P} (h : s.WF) (h0 : s.size = 0) (k : Nat) : s.abs k = none := by
  have := (h.tables_empty_of_size_zero h0).1
  show IMap.lookup s.map k = none
  rw [this]; rfl

theorem size_pos_of_abs {s : Store P} (h : s.WF) {k : Nat} {e : Item × P} (he : s.abs k = some e) : 0 < s.size := by
  rcases Nat.eq_zero_or_pos s.size with h0 | h0
  · rw [abs_none_of_size_zero h h0] at he; cases he
  · exact h0

/-! ## The sifting procedures -/

/-- `heapify` from `WF` only, plus the conditional order statement -/
theorem heapify_core {s : Store P} (h : s.WF) (i : Nat) :
    ∃ s', heapify s i = .ok s' ∧ s'.WF ∧ s'.map = s.map ∧ s'.size = s.size ∧
      ((∀ a d, Anc a d → d < s.size → a ≠ i → s.Rel a d) → s'.MinMaxHeap) := by
  obtain ⟨s', hrun, hwf, hmap, hsz, _⟩ := heapify_safe h i
  refine ⟨s', hrun, hwf, hmap, hsz, ?_⟩
  intro hpre
  by_cases hi : i < s.size
  · obtain ⟨s'', hrun', _, _, _, hfrom, _⟩ := heapify_spec (lo := 0) h hi (Nat.zero_le _)
      (fun a d had hd _ hai => hpre a d had hd hai)
    rw [hrun] at hrun'; cases hrun'
    exact (minMaxHeap_iff_from _).mpr hfrom
  · rw [heapify_noop (by omega)] at hrun; cases hrun
    intro a d had hd
    exact hpre a d had hd (by have := had.lt; omega)

/-- `up_heapify` from `WF` only (any position, also out of range), plus the conditional order statement -/
theorem upHeapify_core {s : Store P} (h : s.WF) (i : Nat) :
    ∃ s', upHeapify s i = .ok s' ∧ s'.WF ∧ s'.map = s.map ∧ s'.size = s.size ∧
      ((∀ a d, Anc a d → d < s.size → a ≠ i → d ≠ i → s.Rel a d) → s'.MinMaxHeap) := by
  by_cases hi : i < s.size
  · obtain ⟨idx, hidx, _⟩ := TWF.heap_some h hi
    obtain ⟨s1, pos, hrun1, hwf1, hm1, hsz1, _, _⟩ := bubbleUp_tables h hidx
    have hwf1' : s1.WF := by unfold Store.WF; rw [hsz1]; exact hwf1
    have hmid : ∃ s2, (if i ≠ pos then heapify s1 i else pure s1) = .ok s2 ∧ s2.WF ∧ s2.map = s1.map ∧
        s2.size = s1.size := by
      by_cases hne : i = pos
      · exact ⟨s1, by simp [hne, pure, Except.pure], hwf1', rfl, rfl⟩
      · obtain ⟨s2, hr, hw, hm, hs, _⟩ := heapify_safe hwf1' i
        exact ⟨s2, by simp [hne, hr], hw, hm, hs⟩
    obtain ⟨s2, hrun2, hwf2, hm2, hsz2⟩ := hmid
    obtain ⟨s3, hrun3, hwf3, hm3, hsz3, _⟩ := heapify_safe hwf2 pos
    have hrun : upHeapify s i = .ok s3 := by
      simp only [upHeapify, hidx, hrun1, bind, Except.bind]
      by_cases hne : i = pos
      · simp only [hne, ne_eq, not_true_eq_false, if_false, pure, Except.pure] at hrun2 ⊢
        cases hrun2; exact hrun3
      · simp only [hne, ne_eq, not_false_eq_true, if_true] at hrun2 ⊢
        rw [hrun2]; exact hrun3
    refine ⟨s3, hrun, hwf3, by rw [hm3, hm2, hm1], by rw [hsz3, hsz2, hsz1], ?_⟩
    intro hpre
    obtain ⟨s', hrun', _, _, _, hmm⟩ := upHeapify_spec h hi hpre
    rw [hrun] at hrun'; cases hrun'
    exact hmm
  · have hnone : s.heap[i]? = none := by
      apply Array.getElem?_eq_none; rw [h.heap_size]; omega
    refine ⟨s, upHeapify_noop hnone, h, rfl, rfl, ?_⟩
    intro hpre a d had hd
    have := had.lt
    exact hpre a d had hd (by omega) (by omega)

/-! ## `find_max`, the peeks -/

theorem heapBuild_safe {s : Store P} (h : s.WF) :
    ∃ s', heapBuild s = .ok s' ∧ s'.WF ∧ s'.map = s.map ∧ s'.size = s.size ∧ s'.MinMaxHeap :=
  heapBuild_spec h

/-- `find_max` from `WF` only: at most one comparison, a valid position among `0, 1, 2`; in a min-max heap that position
holds a maximum -/
theorem findMax_core {s : Store P} (h : s.WF) :
    (s.size = 0 → findMax s = .ok (s, none)) ∧
    (0 < s.size → ∃ k p, findMax s = .ok (s.tick k, some p) ∧ k ≤ 1 ∧ p < s.size ∧ p ≤ 2 ∧
        (s.MinMaxHeap → ∃ e, s.entryAt p = some e ∧ s.IsMax e)) := by
  refine ⟨findMax_empty, fun hn => ?_⟩
  have key : ∃ k p, findMax s = .ok (s.tick k, some p) ∧ k ≤ 1 ∧ p < s.size ∧ p ≤ 2 := by
    by_cases hs1 : s.size = 1
    · exact ⟨0, 0, by simp [findMax, hs1, pure, Except.pure, tick_zero], by omega, hn, by omega⟩
    · by_cases hs2 : s.size = 2
      · exact ⟨0, 1, by simp [findMax, hs2, pure, Except.pure, tick_zero], by omega, by omega, by omega⟩
      · obtain ⟨n, hsz⟩ : ∃ n, s.size = n + 3 := ⟨s.size - 3, by omega⟩
        obtain ⟨x1, hp1, _⟩ := TWF.prioAt_ok h (show 1 < s.size by omega)
        obtain ⟨x2, hp2, _⟩ := TWF.prioAt_ok h (show 2 < s.size by omega)
        refine ⟨1, if x2 < x1 then 1 else 2, ?_, by omega, by split <;> omega, by split <;> omega⟩
        simp [findMax, hsz, hp1, hp2, bind, Except.bind, pure, Except.pure, Store.tick]
  obtain ⟨k, p, hrun, hk, hp, hp2⟩ := key
  refine ⟨k, p, hrun, hk, hp, hp2, ?_⟩
  intro hm
  obtain ⟨k', p', e, hrun', _, _, he, hmax⟩ := findMax_spec h hm hn
  rw [hrun] at hrun'
  have := (ok_pair_inj hrun').2
  cases this
  exact ⟨e, he, hmax⟩

theorem findMax_safe {s : Store P} (h : s.WF) :
    ∃ k r, findMax s = .ok (s.tick k, r) ∧ k ≤ 1 ∧ (s.size = 0 → r = none) ∧
      (0 < s.size → ∃ p, r = some p ∧ p < s.size) := by
  obtain ⟨h0, h1⟩ := findMax_core h
  rcases Nat.eq_zero_or_pos s.size with hz | hn
  · exact ⟨0, none, h0 hz, by omega, fun _ => rfl, fun hn => by omega⟩
  · obtain ⟨k, p, hrun, hk, hp, _⟩ := h1 hn
    exact ⟨k, some p, hrun, hk, fun hz => by omega, fun _ => ⟨p, rfl, hp⟩⟩

/-- `peek_min` from `WF` only -/
theorem peekMin_core {s : Store P} (h : s.WF) :
    (s.size = 0 → peekMin s = .ok none) ∧
    (0 < s.size → ∃ e, peekMin s = .ok (some e) ∧ s.entryAt 0 = some e ∧ s.abs e.1.key = some e ∧
        (s.MinMaxHeap → s.IsMin e)) := by
  refine ⟨peekMin_empty, fun hn => ?_⟩
  obtain ⟨e, he⟩ := TWF.entryAt_some h hn
  refine ⟨e, by simp [peekMin, findMin_spec hn, dq_entryAt_ok he], he, abs_of_entryAt h he, ?_⟩
  intro hm
  obtain ⟨e', he', hmin⟩ := root_isMin h hm hn
  rw [he] at he'; cases he'; exact hmin

theorem peekMin_safe {s : Store P} (h : s.WF) :
    ∃ r, peekMin s = .ok r ∧ (s.size = 0 → r = none) ∧
      (0 < s.size → ∃ e, r = some e ∧ s.abs e.1.key = some e) := by
  obtain ⟨h0, h1⟩ := peekMin_core h
  rcases Nat.eq_zero_or_pos s.size with hz | hn
  · exact ⟨none, h0 hz, fun _ => rfl, fun hn => by omega⟩
  · obtain ⟨e, hrun, _, ha, _⟩ := h1 hn
    exact ⟨some e, hrun, fun hz => by omega, fun _ => ⟨e, rfl, ha⟩⟩

/-- `peek_max` from `WF` only -/
theorem peekMax_core {s : Store P} (h : s.WF) :
    (s.size = 0 → peekMax s = .ok (s, none)) ∧
    (0 < s.size → ∃ k p e, peekMax s = .ok (s.tick k, some e) ∧ findMax s = .ok (s.tick k, some p) ∧ k ≤ 1 ∧
        p < s.size ∧ p ≤ 2 ∧ s.entryAt p = some e ∧ s.abs e.1.key = some e ∧ (s.MinMaxHeap → s.IsMax e)) := by
  refine ⟨peekMax_empty, fun hn => ?_⟩
  obtain ⟨k, p, hrun, hk, hp, hp2, hord⟩ := (findMax_core h).2 hn
  obtain ⟨e, he⟩ := TWF.entryAt_some h hp
  have he' : (s.tick k).entryAt p = some e := he
  refine ⟨k, p, e, ?_, hrun, hk, hp, hp2, he, abs_of_entryAt h he, ?_⟩
  · simp [peekMax, hrun, dq_entryAt_ok he', bind, Except.bind, pure, Except.pure]
  · intro hm
    obtain ⟨e', he'', hmax⟩ := hord hm
    rw [he] at he''; cases he''; exact hmax

theorem peekMax_safe {s : Store P} (h : s.WF) :
    ∃ k r, peekMax s = .ok (s.tick k, r) ∧ k ≤ 1 ∧ (s.size = 0 → r = none) ∧
      (0 < s.size → ∃ e, r = some e ∧ s.abs e.1.key = some e) := by
  obtain ⟨h0, h1⟩ := peekMax_core h
  rcases Nat.eq_zero_or_pos s.size with hz | hn
  · exact ⟨0, none, h0 hz, by omega, fun _ => rfl, fun hn => by omega⟩
  · obtain ⟨k, p, e, hrun, _, hk, _, _, _, ha, _⟩ := h1 hn
    exact ⟨k, some e, hrun, hk, fun hz => by omega, fun _ => ⟨e, rfl, ha⟩⟩

/-! ## `peek_min_mut` / `peek_max_mut` followed by a key-preserving write to the item -/

/-- overwriting the item stored at heap position `p` by one with the same key -/
theorem writeItem_at {s : Store P} (h : s.WF) {p : Nat} (hp : p < s.size) (w : Item → Item)
    (hw : ∀ it, (w it).key = it.key) :
    ∃ i e, s.heap[p]? = some i ∧ s.map.getIndex i = some e ∧ s.entryAt p = some e ∧
      ({ s with map := s.map.setItem i (w e.1) } : Store P).WF ∧
      ({ s with map := s.map.setItem i (w e.1) } : Store P).abs = absSet s.abs e.1.key (w e.1, e.2) ∧
      (∀ q, ({ s with map := s.map.setItem i (w e.1) } : Store P).pr q = s.pr q) := by
  obtain ⟨i, hh, hil⟩ := h.heap_some hp
  obtain ⟨e, he⟩ := h.map_some hil
  have hep : s.entryAt p = some e := by simp [Store.entryAt, hh, he]
  obtain ⟨h1, h2, h3⟩ := setEntry_spec (e' := (w e.1, e.2)) h hh he (hw _)
  have heq : ({ s with map := s.map.setItem i (w e.1) } : Store P) = s.setEntry i (w e.1, e.2) := by
    rw [IMap.setItem_of_getElem? he]; rfl
  refine ⟨i, e, hh, he, hep, ?_⟩
  rw [heq]
  refine ⟨h1, ?_, ?_⟩
  · funext k; exact h3 k
  · intro q
    rw [pr_eq_entryAt, pr_eq_entryAt, h2]
    split
    · subst_vars; rw [hep]; rfl
    · rfl

theorem peekMinMutWrite_core {s : Store P} (h : s.WF) (w : Item → Item) (hw : ∀ it, (w it).key = it.key) :
    (s.size = 0 → peekMinMutWrite s w = .ok (s, none)) ∧
    (0 < s.size → ∃ s' e, peekMinMutWrite s w = .ok (s', some e) ∧ peekMin s = .ok (some e) ∧ s'.WF ∧
        s'.size = s.size ∧ s'.abs = absSet s.abs e.1.key (w e.1, e.2) ∧
        (s.MinMaxHeap → s'.MinMaxHeap ∧ s.IsMin e)) := by
  constructor
  · intro h0; simp [peekMinMutWrite, findMin_empty h0, pure, Except.pure]
  · intro hn
    obtain ⟨i, e, hh, he, hep, hwf, habs, hpr⟩ := writeItem_at h hn w hw
    obtain ⟨e', hpk, hep', _, hmin⟩ := (peekMin_core h).2 hn
    rw [hep] at hep'; cases hep'
    refine ⟨_, e, ?_, hpk, hwf, rfl, habs, fun hm => ⟨minMaxHeap_congr hpr rfl hm, hmin hm⟩⟩
    simp [peekMinMutWrite, findMin_spec hn, getU_ok hh, he, bind, Except.bind, pure, Except.pure]

theorem peekMinMutWrite_safe {s : Store P} (h : s.WF) (w : Item → Item) (hw : ∀ it, (w it).key = it.key) :
    ∃ s' r, peekMinMutWrite s w = .ok (s', r) ∧ s'.WF ∧ s'.size = s.size ∧ peekMin s = .ok r ∧
      (s.size = 0 → s' = s ∧ r = none) ∧
      (0 < s.size → ∃ e, r = some e ∧ s.abs e.1.key = some e ∧ s'.abs = absSet s.abs e.1.key (w e.1, e.2)) := by
  obtain ⟨h0, h1⟩ := peekMinMutWrite_core h w hw
  rcases Nat.eq_zero_or_pos s.size with hz | hn
  · exact ⟨s, none, h0 hz, h, rfl, peekMin_empty hz, fun _ => ⟨rfl, rfl⟩, fun hn => by omega⟩
  · obtain ⟨s', e, hrun, hpk, hwf, hsz, habs, _⟩ := h1 hn
    obtain ⟨e', hpk', _, ha, _⟩ := (peekMin_core h).2 hn
    rw [hpk] at hpk'; cases hpk'
    exact ⟨s', some e, hrun, hwf, hsz, hpk, fun hz => by omega, fun _ => ⟨e, rfl, ha, habs⟩⟩

theorem peekMaxMutWrite_core {s : Store P} (h : s.WF) (w : Item → Item) (hw : ∀ it, (w it).key = it.key) :
    (s.size = 0 → peekMaxMutWrite s w = .ok (s, none)) ∧
    (0 < s.size → ∃ k s' e, peekMaxMutWrite s w = .ok (s', some e) ∧ peekMax s = .ok (s.tick k, some e) ∧ k ≤ 1 ∧
        s'.WF ∧ s'.size = s.size ∧ s.abs e.1.key = some e ∧ s'.abs = absSet s.abs e.1.key (w e.1, e.2) ∧
        (s.MinMaxHeap → s'.MinMaxHeap ∧ s.IsMax e)) := by
  constructor
  · intro h0; simp [peekMaxMutWrite, findMax_empty h0, bind, Except.bind, pure, Except.pure]
  · intro hn
    obtain ⟨k, p, e, hpk, hfm, hk, hp, _, hep, ha, hmax⟩ := (peekMax_core h).2 hn
    have hwt : (s.tick k).WF := tick_WF.mpr h
    obtain ⟨i, e', hh, he, hep', hwf, habs, hpr⟩ := writeItem_at hwt (p := p) hp w hw
    have : s.entryAt p = some e' := hep'
    rw [hep] at this; cases this
    have hh' : s.heap[p]? = some i := hh
    have he' : s.map.getIndex i = some e := he
    refine ⟨k, _, e, ?_, hpk, hk, hwf, rfl, ha, habs, fun hm => ⟨minMaxHeap_congr (s := s.tick k) hpr rfl hm, hmax hm⟩⟩
    simp [peekMaxMutWrite, hfm, getU_ok hh', he', bind, Except.bind, pure, Except.pure]

theorem peekMaxMutWrite_safe {s : Store P} (h : s.WF) (w : Item → Item) (hw : ∀ it, (w it).key = it.key) :
    ∃ s' r, peekMaxMutWrite s w = .ok (s', r) ∧ s'.WF ∧ s'.size = s.size ∧
      (s.size = 0 → s' = s ∧ r = none) ∧
      (0 < s.size → ∃ k e, r = some e ∧ peekMax s = .ok (s.tick k, some e) ∧ s.abs e.1.key = some e ∧
        s'.abs = absSet s.abs e.1.key (w e.1, e.2)) := by
  obtain ⟨h0, h1⟩ := peekMaxMutWrite_core h w hw
  rcases Nat.eq_zero_or_pos s.size with hz | hn
  · exact ⟨s, none, h0 hz, h, rfl, fun _ => ⟨rfl, rfl⟩, fun hn => by omega⟩
  · obtain ⟨k, s', e, hrun, hpk, _, hwf, hsz, ha, habs, _⟩ := h1 hn
    exact ⟨s', some e, hrun, hwf, hsz, fun hz => by omega, fun _ => ⟨k, e, rfl, hpk, ha, habs⟩⟩

/-! ## `pop_min`, `pop_max` -/

theorem popMin_core {s : Store P} (h : s.WF) :
    (s.size = 0 → popMin s = .ok (s, none)) ∧
    (0 < s.size → ∃ s' e, popMin s = .ok (s', some e) ∧ peekMin s = .ok (some e) ∧ s.abs e.1.key = some e ∧ s'.WF ∧
        s'.abs = absRemove s.abs e.1.key ∧ s'.size = s.size - 1 ∧ (s.MinMaxHeap → s'.MinMaxHeap ∧ s.IsMin e)) := by
  constructor
  · intro h0; simp [popMin, findMin_empty h0, pure, Except.pure]
  · intro hn
    obtain ⟨s1, e, hsr, he, hwf1, hsz1, _, hent, hlook⟩ := swapRemove_spec h hn
    obtain ⟨s2, hrun, hwf2, hmap2, hsz2, hord⟩ := heapify_core hwf1 0
    obtain ⟨e', hpk, hep', ha, hmin⟩ := (peekMin_core h).2 hn
    rw [he] at hep'; cases hep'
    refine ⟨s2, e, ?_, hpk, ha, hwf2, ?_, by omega, ?_⟩
    · simp [popMin, findMin_spec hn, hsr, hrun, bind, Except.bind, pure, Except.pure]
    · funext k
      show IMap.lookup s2.map k = _
      rw [hmap2, hlook k]; rfl
    · intro hm
      refine ⟨hord ?_, hmin hm⟩
      intro a d had hd ha0
      refine rel_frame (pos := 0) hm (by omega) ?_ a d had hd ha0 (by have := had.pos; omega)
      intro p hp hp0
      rw [hent p (by omega), if_neg hp0]

theorem popMin_safe {s : Store P} (h : s.WF) :
    ∃ s' r, popMin s = .ok (s', r) ∧ s'.WF ∧ peekMin s = .ok r ∧ (s.size = 0 → s' = s ∧ r = none) ∧
      (0 < s.size → ∃ e, r = some e ∧ s.abs e.1.key = some e ∧ s'.abs = absRemove s.abs e.1.key ∧
        s'.size = s.size - 1) := by
  obtain ⟨h0, h1⟩ := popMin_core h
  rcases Nat.eq_zero_or_pos s.size with hz | hn
  · exact ⟨s, none, h0 hz, h, peekMin_empty hz, fun _ => ⟨rfl, rfl⟩, fun hn => by omega⟩
  · obtain ⟨s', e, hrun, hpk, ha, hwf, habs, hsz, _⟩ := h1 hn
    exact ⟨s', some e, hrun, hwf, hpk, fun hz => by omega, fun _ => ⟨e, rfl, ha, habs, hsz⟩⟩

theorem popMax_core {s : Store P} (h : s.WF) :
    (s.size = 0 → popMax s = .ok (s, none)) ∧
    (0 < s.size → ∃ k s' e, popMax s = .ok (s', some e) ∧ peekMax s = .ok (s.tick k, some e) ∧ k ≤ 1 ∧
        s.abs e.1.key = some e ∧ s'.WF ∧ s'.abs = absRemove s.abs e.1.key ∧ s'.size = s.size - 1 ∧
        (s.MinMaxHeap → s'.MinMaxHeap ∧ s.IsMax e)) := by
  constructor
  · intro h0; simp [popMax, findMax_empty h0, bind, Except.bind, pure, Except.pure]
  · intro hn
    obtain ⟨k, p, e, hpk, hfm, hk, hp, hp2, hep, ha, hmax⟩ := (peekMax_core h).2 hn
    have hwt : (s.tick k).WF := tick_WF.mpr h
    obtain ⟨s1, e', hsr, he, hwf1, hsz1, htk1, hent, hlook⟩ := swapRemove_spec hwt (pos := p) hp
    have : s.entryAt p = some e' := he
    rw [hep] at this; cases this
    simp only [tick_size, tick_entryAt, tick_map, tick_ticks] at hsz1 hent hlook htk1
    obtain ⟨s2, hrun, hwf2, hmap2, hsz2, hord⟩ := heapify_core hwf1 p
    refine ⟨k, s2, e, ?_, hpk, hk, ha, hwf2, ?_, by omega, ?_⟩
    · simp [popMax, hfm, hsr, hrun, bind, Except.bind, pure, Except.pure]
    · funext k
      show IMap.lookup s2.map k = _
      rw [hmap2, hlook k]; rfl
    · intro hm
      refine ⟨hord ?_, hmax hm⟩
      intro a d had hd hap
      have hfr : ∀ q, q < s1.size → q ≠ p → s1.entryAt q = s.entryAt q := by
        intro q hq hqp
        rw [hent q (by omega), if_neg hqp]
      by_cases hdp : d = p
      · subst hdp
        -- the only ancestor of position 1 or 2 is the root; the entry moved into `d` was below the root
        have ha0 : a = 0 := by
          rcases had.cases_child with e0 | e0
          · rw [e0]; simp only [parent]; omega
          · exfalso
            have : parent d = 0 := by simp only [parent]; omega
            rw [this] at e0; exact not_anc_zero a e0
        subst ha0
        have hd0 := had.pos
        refine rel_congr (d' := s.size - 1) (pr_congr_of_entryAt (hfr 0 (by omega) (by omega))) ?_
          (hm 0 (s.size - 1) (Anc.zero (by omega)) (by omega))
        apply pr_congr_of_entryAt
        rw [hent d (by omega), if_pos rfl]
      · exact rel_frame (pos := p) hm (by omega) hfr a d had hd hap hdp

theorem popMax_safe {s : Store P} (h : s.WF) :
    ∃ s' r, popMax s = .ok (s', r) ∧ s'.WF ∧ (s.size = 0 → s' = s ∧ r = none) ∧
      (0 < s.size → ∃ k e, r = some e ∧ peekMax s = .ok (s.tick k, some e) ∧ s.abs e.1.key = some e ∧
        s'.abs = absRemove s.abs e.1.key ∧ s'.size = s.size - 1) := by
  obtain ⟨h0, h1⟩ := popMax_core h
  rcases Nat.eq_zero_or_pos s.size with hz | hn
  · exact ⟨s, none, h0 hz, h, fun _ => ⟨rfl, rfl⟩, fun hn => by omega⟩
  · obtain ⟨k, s', e, hrun, hpk, _, ha, hwf, habs, hsz, _⟩ := h1 hn
    exact ⟨s', some e, hrun, hwf, fun hz => by omega, fun _ => ⟨k, e, rfl, hpk, ha, habs, hsz⟩⟩

/-! ## `pop_min_if`, `pop_max_if` (the predicate may rewrite the entry but not its key) -/

theorem popMinIf_core {s : Store P} (h : s.WF) (f : Item → P → Bool × Item × P)
    (hf : ∀ it p, (f it p).2.1.key = it.key) :
    (s.size = 0 → popMinIf s f = .ok (s, none)) ∧
    (0 < s.size → ∃ e, peekMin s = .ok (some e) ∧ s.abs e.1.key = some e ∧ (s.MinMaxHeap → s.IsMin e) ∧
      ((f e.1 e.2).1 = true → ∃ s', popMinIf s f = .ok (s', some ((f e.1 e.2).2.1, (f e.1 e.2).2.2)) ∧ s'.WF ∧
          s'.abs = absRemove s.abs e.1.key ∧ s'.size = s.size - 1 ∧ (s.MinMaxHeap → s'.MinMaxHeap)) ∧
      ((f e.1 e.2).1 = false → ∃ s', popMinIf s f = .ok (s', none) ∧ s'.WF ∧
          s'.abs = absSet s.abs e.1.key ((f e.1 e.2).2.1, (f e.1 e.2).2.2) ∧ s'.size = s.size ∧
          (s.MinMaxHeap → s'.MinMaxHeap))) := by
  constructor
  · intro h0; simp [popMinIf, findMin_empty h0, pure, Except.pure]
  · intro hn
    obtain ⟨e, hep, htrue, hfalse⟩ := swapRemoveIf_spec f h hn hf
    obtain ⟨e', hpk, hep', ha, hmin⟩ := (peekMin_core h).2 hn
    rw [hep] at hep'; cases hep'
    refine ⟨e, hpk, ha, hmin, ?_, ?_⟩
    · intro hr
      obtain ⟨s1, hsr, hwf1, hsz1, _, hent, hlook⟩ := htrue hr
      obtain ⟨s2, hrun, hwf2, hmap2, hsz2, hord⟩ := heapify_core hwf1 0
      refine ⟨s2, ?_, hwf2, ?_, by omega, ?_⟩
      · simp [popMinIf, findMin_spec hn, hsr, hrun, bind, Except.bind, pure, Except.pure]
      · funext k
        show IMap.lookup s2.map k = _
        rw [hmap2, hlook k]; rfl
      · intro hm
        apply hord
        intro a d had hd ha0
        refine rel_frame (pos := 0) hm (by omega) ?_ a d had hd ha0 (by have := had.pos; omega)
        intro p hp hp0
        rw [hent p (by omega), if_neg hp0]
    · intro hr
      obtain ⟨s1, hsr, hwf1, hsz1, _, _, _, hent, hlook⟩ := hfalse hr
      obtain ⟨s2, hrun, hwf2, hmap2, hsz2, hord⟩ := heapify_core hwf1 0
      refine ⟨s2, ?_, hwf2, ?_, by omega, ?_⟩
      · simp [popMinIf, findMin_spec hn, hsr, hrun, bind, Except.bind, pure, Except.pure]
      · funext k
        show IMap.lookup s2.map k = _
        rw [hmap2, hlook k]; rfl
      · intro hm
        apply hord
        intro a d had hd ha0
        refine rel_frame (pos := 0) hm (by omega) ?_ a d had hd ha0 (by have := had.pos; omega)
        intro p hp hp0
        rw [hent p, if_neg hp0]

theorem popMinIf_safe {s : Store P} (h : s.WF) (f : Item → P → Bool × Item × P)
    (hf : ∀ it p, (f it p).2.1.key = it.key) :
    ∃ s' r, popMinIf s f = .ok (s', r) ∧ s'.WF ∧ (s.size = 0 → s' = s ∧ r = none) ∧
      (0 < s.size → ∃ e, peekMin s = .ok (some e) ∧ s.abs e.1.key = some e ∧
        ((f e.1 e.2).1 = true → r = some ((f e.1 e.2).2.1, (f e.1 e.2).2.2) ∧ s'.abs = absRemove s.abs e.1.key ∧
          s'.size = s.size - 1) ∧
        ((f e.1 e.2).1 = false → r = none ∧ s'.abs = absSet s.abs e.1.key ((f e.1 e.2).2.1, (f e.1 e.2).2.2) ∧
          s'.size = s.size)) := by
  obtain ⟨h0, h1⟩ := popMinIf_core h f hf
  rcases Nat.eq_zero_or_pos s.size with hz | hn
  · exact ⟨s, none, h0 hz, h, fun _ => ⟨rfl, rfl⟩, fun hn => by omega⟩
  · obtain ⟨e, hpk, ha, _, ht, hfl⟩ := h1 hn
    cases hr : (f e.1 e.2).1 with
    | true =>
      obtain ⟨s', hrun, hwf, habs, hsz, _⟩ := ht hr
      exact ⟨s', _, hrun, hwf, fun hz => by omega, fun _ => ⟨e, hpk, ha, fun _ => ⟨rfl, habs, hsz⟩,
        fun hc => by rw [hr] at hc; cases hc⟩⟩
    | false =>
      obtain ⟨s', hrun, hwf, habs, hsz, _⟩ := hfl hr
      exact ⟨s', _, hrun, hwf, fun hz => by omega, fun _ => ⟨e, hpk, ha,
        (fun hc => by rw [hr] at hc; cases hc), fun _ => ⟨rfl, habs, hsz⟩⟩⟩

theorem popMaxIf_core {s : Store P} (h : s.WF) (f : Item → P → Bool × Item × P)
    (hf : ∀ it p, (f it p).2.1.key = it.key) :
    (s.size = 0 → popMaxIf s f = .ok (s, none)) ∧
    (0 < s.size → ∃ k e, peekMax s = .ok (s.tick k, some e) ∧ k ≤ 1 ∧ s.abs e.1.key = some e ∧
      (s.MinMaxHeap → s.IsMax e) ∧
      ((f e.1 e.2).1 = true → ∃ s', popMaxIf s f = .ok (s', some ((f e.1 e.2).2.1, (f e.1 e.2).2.2)) ∧ s'.WF ∧
          s'.abs = absRemove s.abs e.1.key ∧ s'.size = s.size - 1 ∧ (s.MinMaxHeap → s'.MinMaxHeap)) ∧
      ((f e.1 e.2).1 = false → ∃ s', popMaxIf s f = .ok (s', none) ∧ s'.WF ∧
          s'.abs = absSet s.abs e.1.key ((f e.1 e.2).2.1, (f e.1 e.2).2.2) ∧ s'.size = s.size ∧
          (s.MinMaxHeap → s'.MinMaxHeap))) := by
  constructor
  · intro h0; simp [popMaxIf, findMax_empty h0, bind, Except.bind, pure, Except.pure]
  · intro hn
    obtain ⟨k, p, e, hpk, hfm, hk, hp, hp2, hep, ha, hmax⟩ := (peekMax_core h).2 hn
    have hwt : (s.tick k).WF := tick_WF.mpr h
    obtain ⟨e', hep', htrue, hfalse⟩ := swapRemoveIf_spec f hwt (pos := p) hp hf
    have : s.entryAt p = some e' := hep'
    rw [hep] at this; cases this
    refine ⟨k, e, hpk, hk, ha, hmax, ?_, ?_⟩
    · intro hr
      obtain ⟨s1, hsr, hwf1, hsz1, _, hent, hlook⟩ := htrue hr
      simp only [tick_size, tick_entryAt, tick_map] at hsz1 hent hlook
      obtain ⟨s2, hrun, hwf2, hmap2, hsz2, hord⟩ := upHeapify_core hwf1 p
      refine ⟨s2, ?_, hwf2, ?_, by omega, ?_⟩
      · simp [popMaxIf, hfm, hsr, hrun, bind, Except.bind, pure, Except.pure]
      · funext k
        show IMap.lookup s2.map k = _
        rw [hmap2, hlook k]; rfl
      · intro hm
        apply hord
        refine rel_frame (pos := p) hm (by omega) ?_
        intro q hq hqp
        rw [hent q (by omega), if_neg hqp]
    · intro hr
      obtain ⟨s1, hsr, hwf1, hsz1, _, _, _, hent, hlook⟩ := hfalse hr
      simp only [tick_size, tick_entryAt, tick_map] at hsz1 hent hlook
      obtain ⟨s2, hrun, hwf2, hmap2, hsz2, hord⟩ := upHeapify_core hwf1 p
      refine ⟨s2, ?_, hwf2, ?_, by omega, ?_⟩
      · simp [popMaxIf, hfm, hsr, hrun, bind, Except.bind, pure, Except.pure]
      · funext k
        show IMap.lookup s2.map k = _
        rw [hmap2, hlook k]; rfl
      · intro hm
        apply hord
        refine rel_frame (pos := p) hm (by omega) ?_
        intro q hq hqp
        rw [hent q, if_neg hqp]

theorem popMaxIf_safe {s : Store P} (h : s.WF) (f : Item → P → Bool × Item × P)
    (hf : ∀ it p, (f it p).2.1.key = it.key) :
    ∃ s' r, popMaxIf s f = .ok (s', r) ∧ s'.WF ∧ (s.size = 0 → s' = s ∧ r = none) ∧
      (0 < s.size → ∃ k e, peekMax s = .ok (s.tick k, some e) ∧ s.abs e.1.key = some e ∧
        ((f e.1 e.2).1 = true → r = some ((f e.1 e.2).2.1, (f e.1 e.2).2.2) ∧ s'.abs = absRemove s.abs e.1.key ∧
          s'.size = s.size - 1) ∧
        ((f e.1 e.2).1 = false → r = none ∧ s'.abs = absSet s.abs e.1.key ((f e.1 e.2).2.1, (f e.1 e.2).2.2) ∧
          s'.size = s.size)) := by
  obtain ⟨h0, h1⟩ := popMaxIf_core h f hf
  rcases Nat.eq_zero_or_pos s.size with hz | hn
  · exact ⟨s, none, h0 hz, h, fun _ => ⟨rfl, rfl⟩, fun hn => by omega⟩
  · obtain ⟨k, e, hpk, _, ha, _, ht, hfl⟩ := h1 hn
    cases hr : (f e.1 e.2).1 with
    | true =>
      obtain ⟨s', hrun, hwf, habs, hsz, _⟩ := ht hr
      exact ⟨s', _, hrun, hwf, fun hz => by omega, fun _ => ⟨k, e, hpk, ha, fun _ => ⟨rfl, habs, hsz⟩,
        fun hc => by rw [hr] at hc; cases hc⟩⟩
    | false =>
      obtain ⟨s', hrun, hwf, habs, hsz, _⟩ := hfl hr
      exact ⟨s', _, hrun, hwf, fun hz => by omega, fun _ => ⟨k, e, hpk, ha,
        (fun hc => by rw [hr] at hc; cases hc), fun _ => ⟨rfl, habs, hsz⟩⟩⟩

/-! ## `push`, `push_increase`, `push_decrease` -/

theorem push_core {s : Store P} (h : s.WF) (it : Item) (p : P) :
    ∃ s', push s it p = .ok (s', (s.abs it.key).map (·.2)) ∧ s'.WF ∧ s'.abs = absPush s.abs it p ∧
      s'.size = (if (s.abs it.key).isSome then s.size else s.size + 1) ∧ (s.MinMaxHeap → s'.MinMaxHeap) := by
  have hlk : ∀ k, IMap.lookup (IMap.insertFull s.map it p).1 k = absPush s.abs it p k :=
    fun k => IMap.lookup_insertFull s.map it p k
  rcases IMap.insertFull_cases s.map it p with ⟨i, e, hf, he, hk, hins⟩ | ⟨hf, hins⟩
  · have hl : s.abs it.key = some e := IMap.lookup_eq_some_iff_find?.2 ⟨i, hf, he⟩
    have hil : i < s.size := by have := lt_size_of_getElem? he; rw [h.map_size] at this; exact this
    obtain ⟨pos, hq, hpl⟩ := h.qp_some hil
    have hh := h.heap_of_qp hq
    obtain ⟨h1, h2, h3⟩ := setEntry_spec (e' := (e.1, p)) h hh he rfl
    obtain ⟨s2, hrun, hwf2, hmap2, hsz2, hord⟩ := upHeapify_core (s := s.setEntry i (e.1, p)) h1 pos
    refine ⟨s2, ?_, hwf2, ?_, ?_, ?_⟩
    · simp only [push, hins]
      rw [hl]
      have hrun' : upHeapify ({ s with map := Array.setIfInBounds s.map i (e.1, p) } : Store P) pos = .ok s2 := hrun
      simp only [getU_ok hq, bind, Except.bind, hrun', pure, Except.pure, Option.map]
    · funext k
      rw [← hlk k, hins]
      show IMap.lookup s2.map k = _
      rw [hmap2]; rfl
    · rw [hl, hsz2]; rfl
    · intro hm
      apply hord
      refine rel_frame (pos := pos) hm (Nat.le_refl _) ?_
      intro q hq hqp
      rw [h2 q, if_neg hqp]
  · have hl : s.abs it.key = none := IMap.lookup_eq_none_iff_find?.2 hf
    have hpt := wf_pushTail h (e := (it, p)) hf
    have hT : ({ s with map := s.map.push (it, p), heap := s.heap.push s.size, qp := s.qp.push s.size } : Store P).TWF
        (s.size + 1) := ⟨hpt.map_size, hpt.heap_size, hpt.qp_size, hpt.heap_qp, hpt.qp_heap, hpt.nodup⟩
    have hlast := heap_pushTail_last h (it, p)
    obtain ⟨s2, pos, hrun, hT2, hmap2, hsz2, _, _⟩ := bubbleUp_tables hT (i := s.size) (idx := s.size) hlast
    refine ⟨{ s2 with size := s2.size + 1 }, ?_, ?_, ?_, ?_, ?_⟩
    · simp only [push, hins]
      rw [hl]
      simp only [hrun, bind, Except.bind, pure, Except.pure, Option.map]
    · show Store.TWF _ (s2.size + 1)
      rw [hsz2]
      exact ⟨hT2.map_size, hT2.heap_size, hT2.qp_size, hT2.heap_qp, hT2.qp_heap, hT2.nodup⟩
    · funext k
      rw [← hlk k, hins]
      show IMap.lookup s2.map k = _
      rw [hmap2]
    · rw [hl]; show s2.size + 1 = s.size + 1
      rw [hsz2]
    · intro hm
      obtain ⟨s2', pos', hrun', _, _, _, hord⟩ := bubbleUp_push_spec s.size hT hlast (by
        intro a d had hd
        have := had.lt
        refine rel_congr (s := s) ?_ ?_ (hm a d had hd)
        · exact pr_congr_of_entryAt ((entryAt_pushTail h (it, p) a).trans (if_neg (by omega)))
        · exact pr_congr_of_entryAt ((entryAt_pushTail h (it, p) d).trans (if_neg (by omega))))
      rw [hrun] at hrun'; cases hrun'
      intro a d had hd
      exact hord a d had (by rw [← hsz2]; exact hd)

theorem push_safe {s : Store P} (h : s.WF) (it : Item) (p : P) :
    ∃ s', push s it p = .ok (s', (s.abs it.key).map (·.2)) ∧ s'.WF ∧ s'.abs = absPush s.abs it p ∧
      s'.size = (if (s.abs it.key).isSome then s.size else s.size + 1) := by
  obtain ⟨s', h1, h2, h3, h4, _⟩ := push_core h it p
  exact ⟨s', h1, h2, h3, h4⟩

/-- evaluation of `push_increase`: absent ⇒ `push`; present with a smaller priority ⇒ one comparison, then `push`;
otherwise one comparison and nothing else (the new priority is handed back) -/
theorem pushIncrease_eval (s : Store P) (it : Item) (p : P) :
    (s.abs it.key = none → pushIncrease s it p = push s it p) ∧
    (∀ e, s.abs it.key = some e → (e.2 < p → pushIncrease s it p = push s.tick it p) ∧
      (¬ e.2 < p → pushIncrease s it p = .ok (s.tick, some p))) := by
  constructor
  · intro hl
    have : s.getPriority it.key = none := by rw [getPriority_eq_lookup]; show (s.abs it.key).map _ = none; rw [hl]; rfl
    simp only [pushIncrease, this]
  · intro e hl
    have : s.getPriority it.key = some e.2 := by
      rw [getPriority_eq_lookup]; show (s.abs it.key).map _ = _; rw [hl]; rfl
    constructor
    · intro hlt; simp only [pushIncrease, this, hlt, if_true]
    · intro hlt; simp only [pushIncrease, this, hlt, if_false]; rfl

theorem pushDecrease_eval (s : Store P) (it : Item) (p : P) :
    (s.abs it.key = none → pushDecrease s it p = push s it p) ∧
    (∀ e, s.abs it.key = some e → (p < e.2 → pushDecrease s it p = push s.tick it p) ∧
      (¬ p < e.2 → pushDecrease s it p = .ok (s.tick, some p))) := by
  constructor
  · intro hl
    have : s.getPriority it.key = none := by rw [getPriority_eq_lookup]; show (s.abs it.key).map _ = none; rw [hl]; rfl
    simp only [pushDecrease, this]
  · intro e hl
    have : s.getPriority it.key = some e.2 := by
      rw [getPriority_eq_lookup]; show (s.abs it.key).map _ = _; rw [hl]; rfl
    constructor
    · intro hlt; simp only [pushDecrease, this, hlt, if_true]
    · intro hlt; simp only [pushDecrease, this, hlt, if_false]; rfl

theorem pushIncrease_core {s : Store P} (h : s.WF) (it : Item) (p : P) :
    ∃ s' r, pushIncrease s it p = .ok (s', r) ∧ s'.WF ∧
      (s.abs it.key = none → r = none ∧ s'.abs = absPush s.abs it p ∧ s'.size = s.size + 1) ∧
      (∀ e, s.abs it.key = some e →
        (e.2 < p → r = some e.2 ∧ s'.abs = absPush s.abs it p ∧ s'.size = s.size) ∧
        (¬ e.2 < p → s' = s.tick ∧ r = some p)) ∧
      (s.MinMaxHeap → s'.MinMaxHeap) := by
  obtain ⟨e0, e1⟩ := pushIncrease_eval s it p
  cases hl : s.abs it.key with
  | none =>
    obtain ⟨s', h1, h2, h3, h4, h5⟩ := push_core h it p
    rw [hl] at h1 h4
    exact ⟨s', none, by rw [e0 hl]; exact h1, h2, fun _ => ⟨rfl, h3, h4⟩, (fun e he => by cases he), h5⟩
  | some e =>
    by_cases hlt : e.2 < p
    · obtain ⟨s', h1, h2, h3, h4, h5⟩ := push_core (s := s.tick) (tick_WF.mpr h) it p
      have hl' : (s.tick).abs it.key = some e := hl
      rw [hl'] at h1 h4
      refine ⟨s', some e.2, by rw [(e1 e hl).1 hlt]; exact h1, h2, (fun hc => by cases hc), ?_, h5⟩
      intro e' he'; cases he'
      exact ⟨fun _ => ⟨rfl, h3, h4⟩, fun hc => absurd hlt hc⟩
    · refine ⟨s.tick, some p, (e1 e hl).2 hlt, tick_WF.mpr h, (fun hc => by cases hc), ?_, fun hm => hm⟩
      intro e' he'; cases he'
      exact ⟨fun hc => absurd hc hlt, fun _ => ⟨rfl, rfl⟩⟩

theorem pushDecrease_core {s : Store P} (h : s.WF) (it : Item) (p : P) :
    ∃ s' r, pushDecrease s it p = .ok (s', r) ∧ s'.WF ∧
      (s.abs it.key = none → r = none ∧ s'.abs = absPush s.abs it p ∧ s'.size = s.size + 1) ∧
      (∀ e, s.abs it.key = some e →
        (p < e.2 → r = some e.2 ∧ s'.abs = absPush s.abs it p ∧ s'.size = s.size) ∧
        (¬ p < e.2 → s' = s.tick ∧ r = some p)) ∧
      (s.MinMaxHeap → s'.MinMaxHeap) := by
  obtain ⟨e0, e1⟩ := pushDecrease_eval s it p
  cases hl : s.abs it.key with
  | none =>
    obtain ⟨s', h1, h2, h3, h4, h5⟩ := push_core h it p
    rw [hl] at h1 h4
    exact ⟨s', none, by rw [e0 hl]; exact h1, h2, fun _ => ⟨rfl, h3, h4⟩, (fun e he => by cases he), h5⟩
  | some e =>
    by_cases hlt : p < e.2
    · obtain ⟨s', h1, h2, h3, h4, h5⟩ := push_core (s := s.tick) (tick_WF.mpr h) it p
      have hl' : (s.tick).abs it.key = some e := hl
      rw [hl'] at h1 h4
      refine ⟨s', some e.2, by rw [(e1 e hl).1 hlt]; exact h1, h2, (fun hc => by cases hc), ?_, h5⟩
      intro e' he'; cases he'
      exact ⟨fun _ => ⟨rfl, h3, h4⟩, fun hc => absurd hlt hc⟩
    · refine ⟨s.tick, some p, (e1 e hl).2 hlt, tick_WF.mpr h, (fun hc => by cases hc), ?_, fun hm => hm⟩
      intro e' he'; cases he'
      exact ⟨fun hc => absurd hc hlt, fun _ => ⟨rfl, rfl⟩⟩

theorem pushIncrease_safe {s : Store P} (h : s.WF) (it : Item) (p : P) :
    ∃ s' r, pushIncrease s it p = .ok (s', r) ∧ s'.WF ∧
      (s.abs it.key = none → r = none ∧ s'.abs = absPush s.abs it p ∧ s'.size = s.size + 1) ∧
      (∀ e, s.abs it.key = some e →
        (e.2 < p → r = some e.2 ∧ s'.abs = absPush s.abs it p ∧ s'.size = s.size) ∧
        (¬ e.2 < p → s' = s.tick ∧ r = some p)) := by
  obtain ⟨s', r, h1, h2, h3, h4, _⟩ := pushIncrease_core h it p
  exact ⟨s', r, h1, h2, h3, h4⟩

theorem pushDecrease_safe {s : Store P} (h : s.WF) (it : Item) (p : P) :
    ∃ s' r, pushDecrease s it p = .ok (s', r) ∧ s'.WF ∧
      (s.abs it.key = none → r = none ∧ s'.abs = absPush s.abs it p ∧ s'.size = s.size + 1) ∧
      (∀ e, s.abs it.key = some e →
        (p < e.2 → r = some e.2 ∧ s'.abs = absPush s.abs it p ∧ s'.size = s.size) ∧
        (¬ p < e.2 → s' = s.tick ∧ r = some p)) := by
  obtain ⟨s', r, h1, h2, h3, h4, _⟩ := pushDecrease_core h it p
  exact ⟨s', r, h1, h2, h3, h4⟩

/-! ## `change_priority`, `change_priority_by`, `remove` -/

theorem changePriority_core {s : Store P} (h : s.WF) (k : Nat) (p : P) :
    (s.abs k = none → changePriority s k p = .ok (s, none)) ∧
    (∀ e, s.abs k = some e → ∃ s', changePriority s k p = .ok (s', some e.2) ∧ s'.WF ∧
        s'.abs = absSet s.abs k (e.1, p) ∧ s'.size = s.size ∧ (s.MinMaxHeap → s'.MinMaxHeap)) := by
  constructor
  · intro hl
    simp [changePriority, changePriority_spec_none hl, bind, Except.bind, pure, Except.pure]
  · intro e hl
    obtain ⟨s1, pos, hrun1, hpl, hep, hwf1, hsz1, _, _, _, hent, hlook⟩ := changePriority_spec_some h hl p
    obtain ⟨s2, hrun, hwf2, hmap2, hsz2, hord⟩ := upHeapify_core hwf1 pos
    refine ⟨s2, ?_, hwf2, ?_, by omega, ?_⟩
    · simp [changePriority, hrun1, hrun, bind, Except.bind, pure, Except.pure]
    · funext k'
      show IMap.lookup s2.map k' = _
      rw [hmap2, hlook k']; rfl
    · intro hm
      apply hord
      refine rel_frame (pos := pos) hm (by omega) ?_
      intro q hq hqp
      rw [hent q, if_neg hqp]

theorem changePriority_safe {s : Store P} (h : s.WF) (k : Nat) (p : P) :
    ∃ s', changePriority s k p = .ok (s', (s.abs k).map (·.2)) ∧ s'.WF ∧ s'.size = s.size ∧
      (s.abs k = none → s' = s) ∧ (∀ e, s.abs k = some e → s'.abs = absSet s.abs k (e.1, p)) := by
  obtain ⟨h0, h1⟩ := changePriority_core h k p
  cases hl : s.abs k with
  | none => exact ⟨s, h0 hl, h, rfl, fun _ => rfl, fun e he => by cases he⟩
  | some e =>
    obtain ⟨s', hrun, hwf, habs, hsz, _⟩ := h1 e hl
    exact ⟨s', hrun, hwf, hsz, (fun hc => by cases hc), fun e' he' => by cases he'; exact habs⟩

theorem changePriorityBy_core {s : Store P} (h : s.WF) (k : Nat) (setter : P → P) :
    (s.abs k = none → changePriorityBy s k setter = .ok (s, false)) ∧
    (∀ e, s.abs k = some e → ∃ s', changePriorityBy s k setter = .ok (s', true) ∧ s'.WF ∧
        s'.abs = absSet s.abs k (e.1, setter e.2) ∧ s'.size = s.size ∧ (s.MinMaxHeap → s'.MinMaxHeap)) := by
  constructor
  · intro hl
    simp [changePriorityBy, changePriorityBy_spec_none hl, bind, Except.bind, pure, Except.pure]
  · intro e hl
    obtain ⟨s1, pos, hrun1, hpl, hep, hwf1, hsz1, _, _, _, hent, hlook⟩ := changePriorityBy_spec_some h hl setter
    obtain ⟨s2, hrun, hwf2, hmap2, hsz2, hord⟩ := upHeapify_core hwf1 pos
    refine ⟨s2, ?_, hwf2, ?_, by omega, ?_⟩
    · simp [changePriorityBy, hrun1, hrun, bind, Except.bind, pure, Except.pure]
    · funext k'
      show IMap.lookup s2.map k' = _
      rw [hmap2, hlook k']; rfl
    · intro hm
      apply hord
      refine rel_frame (pos := pos) hm (by omega) ?_
      intro q hq hqp
      rw [hent q, if_neg hqp]

theorem changePriorityBy_safe {s : Store P} (h : s.WF) (k : Nat) (setter : P → P) :
    ∃ s', changePriorityBy s k setter = .ok (s', (s.abs k).isSome) ∧ s'.WF ∧ s'.size = s.size ∧
      (s.abs k = none → s' = s) ∧ (∀ e, s.abs k = some e → s'.abs = absSet s.abs k (e.1, setter e.2)) := by
  obtain ⟨h0, h1⟩ := changePriorityBy_core h k setter
  cases hl : s.abs k with
  | none => exact ⟨s, h0 hl, h, rfl, fun _ => rfl, fun e he => by cases he⟩
  | some e =>
    obtain ⟨s', hrun, hwf, habs, hsz, _⟩ := h1 e hl
    exact ⟨s', hrun, hwf, hsz, (fun hc => by cases hc), fun e' he' => by cases he'; exact habs⟩

theorem remove_core {s : Store P} (h : s.WF) (k : Nat) :
    (s.abs k = none → remove s k = .ok (s, none)) ∧
    (∀ e, s.abs k = some e → ∃ s', remove s k = .ok (s', some e) ∧ s'.WF ∧
        s'.abs = absRemove s.abs k ∧ s'.size = s.size - 1 ∧ (s.MinMaxHeap → s'.MinMaxHeap)) := by
  constructor
  · intro hl
    simp [remove, remove_spec_none hl, bind, Except.bind, pure, Except.pure]
  · intro e hl
    obtain ⟨s1, pos, hrun1, hpl, hep, hwf1, hsz1, _, hent, hlook⟩ := remove_spec_some h hl
    have hfr : ∀ q, q < s1.size → q ≠ pos → s1.entryAt q = s.entryAt q := by
      intro q hq hqp
      rw [hent q (by omega), if_neg hqp]
    by_cases hps : pos < s1.size
    · obtain ⟨s2, hrun, hwf2, hmap2, hsz2, hord⟩ := upHeapify_core hwf1 pos
      refine ⟨s2, ?_, hwf2, ?_, by omega, ?_⟩
      · simp [remove, hrun1, hps, hrun, bind, Except.bind, pure, Except.pure]
      · funext k'
        show IMap.lookup s2.map k' = _
        rw [hmap2, hlook k']; rfl
      · intro hm
        apply hord
        exact rel_frame (pos := pos) hm (by omega) hfr
    · refine ⟨s1, ?_, hwf1, ?_, hsz1, ?_⟩
      · simp [remove, hrun1, hps, bind, Except.bind, pure, Except.pure]
      · funext k'
        exact hlook k'
      · intro hm a d had hd
        have := had.lt
        exact rel_frame (pos := pos) hm (by omega) hfr a d had hd (by omega) (by omega)

theorem remove_safe {s : Store P} (h : s.WF) (k : Nat) :
    ∃ s', remove s k = .ok (s', s.abs k) ∧ s'.WF ∧ s'.abs = absRemove s.abs k ∧
      s'.size = (if (s.abs k).isSome then s.size - 1 else s.size) ∧ (s.abs k = none → s' = s) := by
  obtain ⟨h0, h1⟩ := remove_core h k
  cases hl : s.abs k with
  | none =>
    refine ⟨s, h0 hl, h, ?_, rfl, fun _ => rfl⟩
    funext k'
    show s.abs k' = if k' = k then none else s.abs k'
    split
    · subst_vars; exact hl
    · rfl
  | some e =>
    obtain ⟨s', hrun, hwf, habs, hsz, _⟩ := h1 e hl
    exact ⟨s', hrun, hwf, habs, hsz, fun hc => by cases hc⟩

/-! ## Bulk operations: everything that ends in `heap_build` yields a min-max heap from `WF` alone -/

theorem ofStore_safe {s : Store P} (h : s.WF) :
    ∃ s', ofStore s = .ok s' ∧ s'.WF ∧ s'.MinMaxHeap ∧ s'.abs = s.abs ∧ s'.size = s.size := by
  obtain ⟨s', hrun, hwf, hmap, hsz, hmm⟩ := heapBuild_spec h
  exact ⟨s', hrun, hwf, hmm, by funext k; show IMap.lookup s'.map k = _; rw [hmap], hsz⟩

theorem retainMut_safe {s : Store P} (h : s.WF) (f : Item → P → Bool × Item × P)
    (hf : ∀ it p, (f it p).2.1.key = it.key) :
    ∃ s', retainMut s f = .ok s' ∧ s'.WF ∧ s'.MinMaxHeap ∧
      s'.abs = (fun k => (s.abs k).bind (IMap.retainStep f)) ∧ s'.map.toList = s.map.toList.filterMap (IMap.retainStep f) ∧
      s'.size = (s.map.toList.filterMap (IMap.retainStep f)).length := by
  have hwf1 := wf_retainMut h hf
  obtain ⟨s', hrun, hwf, hmap, hsz, hmm⟩ := heapBuild_spec hwf1
  refine ⟨s', hrun, hwf, hmm, ?_, by rw [hmap]; exact toList_retainMut s f, ?_⟩
  · funext k
    show IMap.lookup s'.map k = _
    rw [hmap]; exact lookup_retainMut h hf k
  · rw [hsz, size_retainMut, ← Array.length_toList, IMap.toList_retain']

theorem append_safe {s o : Store P} (hs : s.WF) (ho : o.WF) :
    ∃ s' o', append s o = .ok (s', o') ∧ s'.WF ∧ s'.MinMaxHeap ∧ o'.WF ∧ o'.MinMaxHeap ∧ o'.size = 0 ∧
      (∀ k, o'.abs k = none) ∧
      (∀ k, s'.abs k = if o.size > s.size then (o.abs k).or (s.abs k) else (s.abs k).or (o.abs k)) := by
  obtain ⟨s', hrun, hwf, hmap, hsz, hmm⟩ := heapBuild_spec (wf_append_fst hs ho)
  have ho' := wf_append_snd hs ho
  obtain ⟨_, _, _, ho0, _⟩ := append_snd_tables hs ho
  refine ⟨s', (Store.append s o).2, ?_, hwf, hmm, ho', ?_, ho0, fun k => lookup_append_snd hs ho k, ?_⟩
  · simp only [append, hrun, bind, Except.bind, pure, Except.pure]
  · intro a d _ hd; rw [ho0] at hd; omega
  · intro k
    show IMap.lookup s'.map k = _
    rw [hmap]; exact lookup_append' hs ho k

theorem fromVec_safe (v : Array (Item × P)) :
    ∃ s', fromVec v = .ok s' ∧ s'.WF ∧ s'.MinMaxHeap ∧
      (∀ k, s'.abs k = v.toList.find? (fun e => e.1.key == k)) ∧
      s'.size = (v.toList.map (·.1.key)).eraseDups.length := by
  obtain ⟨s', hrun, hwf, hmap, hsz, hmm⟩ := heapBuild_spec (wf_fromVec v)
  refine ⟨s', hrun, hwf, hmm, ?_, by rw [hsz, size_fromVec]⟩
  intro k
  show IMap.lookup s'.map k = _
  rw [hmap]; exact lookup_fromVec v k

/-- `FromIterator`, every `size_hint` lower bound below the capacity limit -/
theorem fromIter_safe (lo : Nat) (xs : Array (Item × P)) (hlo : lo < capLimit) :
    ∃ s', fromIter lo xs = .ok s' ∧ s'.WF ∧ s'.MinMaxHeap ∧
      (∀ k, s'.abs k = xs.toList.reverse.find? (fun e => e.1.key == k)) ∧
      s'.size = (xs.toList.map (·.1.key)).eraseDups.length := by
  obtain ⟨s', hrun, hwf, hmap, hsz, hmm⟩ := heapBuild_spec (wf_fromIter xs)
  refine ⟨s', by rw [fromIter_of_lt xs hlo]; exact hrun, hwf, hmm, ?_, by rw [hsz, size_fromIter]⟩
  intro k
  show IMap.lookup s'.map k = _
  rw [hmap]; exact lookup_fromIter xs k

/-- the deserializer is total: EVERY input sequence, under EVERY announced length, yields a well-formed min-max heap -/
theorem deserialize_safe (hint : Option Nat) (xs : Array (Item × P)) :
    ∃ s', deserialize hint xs = .ok s' ∧ s'.WF ∧ s'.MinMaxHeap ∧
      s'.abs = xs.foldl Store.absStep (fun _ => none) ∧
      s'.size = (xs.toList.map (·.1.key)).eraseDups.length := by
  obtain ⟨s', hrun, hwf, hmap, hsz, hmm⟩ := heapBuild_spec (wf_visitSeq xs)
  refine ⟨s', by rw [deserialize_eq]; exact hrun, hwf, hmm, ?_, by rw [hsz, size_visitSeq]⟩
  show IMap.lookup s'.map = _
  rw [hmap]; exact lookup_visitSeq_fold xs

/-! ## `extend`: both strategies -/

theorem absPush_eq_absStep (f : Nat → Option (Item × P)) (e : Item × P) : absPush f e.1 e.2 = Store.absStep f e := by
  funext k
  unfold absPush Store.absStep
  split
  · subst_vars; rfl
  · rfl

theorem pushAll_core (es : List (Item × P)) : ∀ {s : Store P}, s.WF →
    ∃ s', pushAll es s = .ok s' ∧ s'.WF ∧ s'.abs = es.foldl Store.absStep s.abs ∧ (s.MinMaxHeap → s'.MinMaxHeap) := by
  induction es with
  | nil => intro s h; exact ⟨s, rfl, h, rfl, fun hm => hm⟩
  | cons e es ih =>
    intro s h
    obtain ⟨s1, hrun1, hwf1, habs1, _, hord1⟩ := push_core h e.1 e.2
    obtain ⟨s2, hrun2, hwf2, habs2, hord2⟩ := ih hwf1
    refine ⟨s2, ?_, hwf2, ?_, fun hm => hord2 (hord1 hm)⟩
    · simp only [pushAll, hrun1, bind, Except.bind]; exact hrun2
    · rw [habs2, habs1, absPush_eq_absStep, List.foldl_cons]

theorem pushAll_safe {s : Store P} (h : s.WF) (es : List (Item × P)) :
    ∃ s', pushAll es s = .ok s' ∧ s'.WF ∧ s'.abs = es.foldl Store.absStep s.abs := by
  obtain ⟨s', h1, h2, h3, _⟩ := pushAll_core es h
  exact ⟨s', h1, h2, h3⟩

theorem extend_core {s : Store P} (h : s.WF) (lo : Nat) (xs : Array (Item × P)) (hlo : lo < capLimit) :
    ∃ s', extend s lo xs = .ok s' ∧ s'.WF ∧ s'.abs = xs.foldl Store.absStep s.abs ∧ (s.MinMaxHeap → s'.MinMaxHeap) := by
  have hcases : extend s lo xs = heapBuild (s.extend xs) ∨ extend s lo xs = pushAll xs.toList s := by
    rw [extend_of_lt xs hlo]
    cases (if lo ≠ 0 then betterToRebuild s.size lo else false) <;> simp
  rcases hcases with hc | hc <;> rw [hc]
  · obtain ⟨s', hrun, hwf, hmap, hsz, hmm⟩ := heapBuild_spec (wf_extend h xs)
    refine ⟨s', hrun, hwf, ?_, fun _ => hmm⟩
    show IMap.lookup s'.map = _
    rw [hmap]; exact lookup_extend s xs
  · obtain ⟨s', hrun, hwf, habs, hord⟩ := pushAll_core xs.toList h
    refine ⟨s', hrun, hwf, ?_, hord⟩
    rw [habs, Array.foldl_toList]

theorem extend_safe {s : Store P} (h : s.WF) (lo : Nat) (xs : Array (Item × P)) (hlo : lo < capLimit) :
    ∃ s', extend s lo xs = .ok s' ∧ s'.WF ∧ s'.abs = xs.foldl Store.absStep s.abs := by
  obtain ⟨s', h1, h2, h3, _⟩ := extend_core h lo xs hlo
  exact ⟨s', h1, h2, h3⟩

/-! ## The double-ended sorted iterator (`into_sorted_iter`: `next` = `pop_min`, `next_back` = `pop_max`) -/

/-- `e` is held by the abstract state `f` and no held priority is smaller -/
def AbsIsMin (f : Nat → Option (Item × P)) (e : Item × P) : Prop :=
  f e.1.key = some e ∧ ∀ k e', f k = some e' → ¬ e'.2 < e.2

/-- `e` is held by the abstract state `f` and no held priority is greater -/
def AbsIsMax (f : Nat → Option (Item × P)) (e : Item × P) : Prop :=
  f e.1.key = some e ∧ ∀ k e', f k = some e' → ¬ e.2 < e'.2

theorem mem_iff_abs {s : Store P} (h : s.WF) {e : Item × P} : s.Mem e ↔ s.abs e.1.key = some e :=
  mem_iff_lookup h

theorem abs_key {s : Store P} {k : Nat} {e : Item × P} (h : s.abs k = some e) : e.1.key = k := IMap.lookup_key h

theorem isMin_iff_abs {s : Store P} (h : s.WF) {e : Item × P} : s.IsMin e ↔ AbsIsMin s.abs e := by
  unfold Store.IsMin AbsIsMin
  rw [mem_iff_abs h]
  constructor
  · rintro ⟨h1, h2⟩
    refine ⟨h1, fun k e' he' => h2 e' ((mem_iff_abs h).2 ?_)⟩
    rw [abs_key he']; exact he'
  · rintro ⟨h1, h2⟩
    exact ⟨h1, fun e' he' => h2 _ e' ((mem_iff_abs h).1 he')⟩

theorem isMax_iff_abs {s : Store P} (h : s.WF) {e : Item × P} : s.IsMax e ↔ AbsIsMax s.abs e := by
  unfold Store.IsMax AbsIsMax
  rw [mem_iff_abs h]
  constructor
  · rintro ⟨h1, h2⟩
    refine ⟨h1, fun k e' he' => h2 e' ((mem_iff_abs h).2 ?_)⟩
    rw [abs_key he']; exact he'
  · rintro ⟨h1, h2⟩
    exact ⟨h1, fun e' he' => h2 _ e' ((mem_iff_abs h).1 he')⟩

/-- **Abstract run of the double-ended sorted iterator.**  `SortedRun Q f calls outs f'`: started in the abstract state
`f`, the call sequence `calls` (`false` = `next`, `true` = `next_back`) produced the outputs `outs` and left the state
`f'`.  A call returns `none` exactly when nothing is held; otherwise it returns an entry `e` with `Q b f e` (for the
sorted iterator: a minimum for `next`, a maximum for `next_back`, of what is held at that moment) and that key is removed. -/
def SortedRun (Q : Bool → (Nat → Option (Item × P)) → Item × P → Prop) :
    (Nat → Option (Item × P)) → List Bool → List (Option (Item × P)) → (Nat → Option (Item × P)) → Prop
  | f, [], [], f' => f' = f
  | f, _ :: bs, none :: outs, f' => (∀ k, f k = none) ∧ SortedRun Q f bs outs f'
  | f, b :: bs, some e :: outs, f' => Q b f e ∧ SortedRun Q (absRemove f e.1.key) bs outs f'
  | _, _, _, _ => False

/-- the predicate of the unordered run: the entry returned is held -/
def HeldQ : Bool → (Nat → Option (Item × P)) → Item × P → Prop := fun _ f e => f e.1.key = some e

/-- the predicate of the sorted run: `next` returns a minimum, `next_back` a maximum -/
def ExtremeQ : Bool → (Nat → Option (Item × P)) → Item × P → Prop :=
  fun b f e => if b = true then AbsIsMax f e else AbsIsMin f e

theorem ExtremeQ.held {b : Bool} {f : Nat → Option (Item × P)} {e : Item × P} (h : ExtremeQ b f e) : HeldQ b f e := by
  unfold ExtremeQ at h
  split at h
  · exact h.1
  · exact h.1

theorem SortedRun.mono {Q Q' : Bool → (Nat → Option (Item × P)) → Item × P → Prop} (hQ : ∀ b f e, Q b f e → Q' b f e) :
    ∀ {calls : List Bool} {f : Nat → Option (Item × P)} {outs : List (Option (Item × P))} {f' : Nat → Option (Item × P)},
      SortedRun Q f calls outs f' → SortedRun Q' f calls outs f' := by
  intro calls
  induction calls with
  | nil =>
    intro f outs f' h
    cases outs with
    | nil => exact h
    | cons o outs => exact h
  | cons b bs ih =>
    intro f outs f' h
    cases outs with
    | nil => exact h
    | cons o outs =>
      cases o with
      | none => exact ⟨h.1, ih h.2⟩
      | some e => exact ⟨hQ _ _ _ h.1, ih h.2⟩

theorem SortedRun.length {Q : Bool → (Nat → Option (Item × P)) → Item × P → Prop} :
    ∀ {calls : List Bool} {f : Nat → Option (Item × P)} {outs : List (Option (Item × P))} {f' : Nat → Option (Item × P)},
      SortedRun Q f calls outs f' → outs.length = calls.length := by
  intro calls
  induction calls with
  | nil =>
    intro f outs f' h
    cases outs with
    | nil => rfl
    | cons o outs => exact absurd h (by simp [SortedRun])
  | cons b bs ih =>
    intro f outs f' h
    cases outs with
    | nil => exact absurd h (by simp [SortedRun])
    | cons o outs =>
      cases o with
      | none => simp [ih h.2]
      | some e => simp [ih h.2]

/-- every entry returned was held at the start and is not held at the end; the keys not returned are untouched -/
theorem SortedRun.held {Q : Bool → (Nat → Option (Item × P)) → Item × P → Prop} (hQ : ∀ b f e, Q b f e → f e.1.key = some e) :
    ∀ {calls : List Bool} {f : Nat → Option (Item × P)} {outs : List (Option (Item × P))} {f' : Nat → Option (Item × P)},
      SortedRun Q f calls outs f' →
        (∀ e, some e ∈ outs → f e.1.key = some e ∧ f' e.1.key = none) ∧
        (∀ k, (∀ e, some e ∈ outs → e.1.key ≠ k) → f' k = f k) := by
  intro calls
  induction calls with
  | nil =>
    intro f outs f' h
    cases outs with
    | nil => cases h; exact ⟨(fun e he => by cases he), fun k _ => rfl⟩
    | cons o outs => exact absurd h (by simp [SortedRun])
  | cons b bs ih =>
    intro f outs f' h
    cases outs with
    | nil => exact absurd h (by simp [SortedRun])
    | cons o outs =>
      cases o with
      | none =>
        obtain ⟨h1, h2⟩ := ih h.2
        refine ⟨?_, ?_⟩
        · intro e he
          rcases List.mem_cons.1 he with hc | hc
          · cases hc
          · exact h1 e hc
        · intro k hk
          exact h2 k (fun e he => hk e (List.mem_cons_of_mem _ he))
      | some e0 =>
        obtain ⟨h1, h2⟩ := ih h.2
        have h0 := hQ _ _ _ h.1
        have hne : ∀ e, some e ∈ outs → e.1.key ≠ e0.1.key := by
          intro e he hk
          have := (h1 e he).1
          unfold absRemove at this
          rw [if_pos hk] at this
          cases this
        refine ⟨?_, ?_⟩
        · intro e he
          rcases List.mem_cons.1 he with hc | hc
          · cases hc
            refine ⟨h0, ?_⟩
            rw [h2 _ hne]
            unfold absRemove
            rw [if_pos rfl]
          · have := (h1 e hc).1
            unfold absRemove at this
            split at this
            · cases this
            · exact ⟨this, (h1 e hc).2⟩
        · intro k hk
          rw [h2 k (fun e he => hk e (List.mem_cons_of_mem _ he))]
          unfold absRemove
          rw [if_neg]
          intro hc
          exact hk e0 (List.mem_cons_self ..) hc.symm

/-- the entries returned have pairwise distinct keys -/
theorem SortedRun.nodup {Q : Bool → (Nat → Option (Item × P)) → Item × P → Prop} (hQ : ∀ b f e, Q b f e → f e.1.key = some e) :
    ∀ {calls : List Bool} {f : Nat → Option (Item × P)} {outs : List (Option (Item × P))} {f' : Nat → Option (Item × P)},
      SortedRun Q f calls outs f' → ((outs.filterMap id).map (·.1.key)).Nodup := by
  intro calls
  induction calls with
  | nil =>
    intro f outs f' h
    cases outs with
    | nil => simp
    | cons o outs => exact absurd h (by simp [SortedRun])
  | cons b bs ih =>
    intro f outs f' h
    cases outs with
    | nil => exact absurd h (by simp [SortedRun])
    | cons o outs =>
      cases o with
      | none => simpa using ih h.2
      | some e0 =>
        have h1 := fun e he => ((SortedRun.held hQ h.2).1 e he).1
        show ((e0 :: outs.filterMap id).map (·.1.key)).Nodup
        rw [List.map_cons, List.nodup_cons]
        refine ⟨?_, ih h.2⟩
        intro hmem
        obtain ⟨e, he, hk⟩ := List.mem_map.1 hmem
        have he' : some e ∈ outs := by
          obtain ⟨o, ho, hoe⟩ := List.mem_filterMap.1 he
          simp only [id_eq] at hoe; subst hoe; exact ho
        have := h1 e he'
        unfold absRemove at this
        rw [if_pos hk] at this
        cases this

/-- one call of the double-ended sorted iterator -/
theorem sortedStep_core {s : Store P} (h : s.WF) (b : Bool) :
    (s.size = 0 → (if b = true then popMax s else popMin s) = .ok (s, none)) ∧
    (0 < s.size → ∃ s1 e, (if b = true then popMax s else popMin s) = .ok (s1, some e) ∧ s.abs e.1.key = some e ∧
        s1.WF ∧ s1.abs = absRemove s.abs e.1.key ∧ s1.size = s.size - 1 ∧
        (s.MinMaxHeap → s1.MinMaxHeap ∧ ExtremeQ b s.abs e)) := by
  cases b with
  | false =>
    obtain ⟨h0, h1⟩ := popMin_core h
    refine ⟨fun hz => by simpa using h0 hz, fun hn => ?_⟩
    obtain ⟨s1, e, hrun, _, ha, hwf, habs, hsz, hord⟩ := h1 hn
    refine ⟨s1, e, by simpa using hrun, ha, hwf, habs, hsz, fun hm => ⟨(hord hm).1, ?_⟩⟩
    have := (isMin_iff_abs h).1 (hord hm).2
    simpa [ExtremeQ] using this
  | true =>
    obtain ⟨h0, h1⟩ := popMax_core h
    refine ⟨fun hz => by simpa using h0 hz, fun hn => ?_⟩
    obtain ⟨_, s1, e, hrun, _, _, ha, hwf, habs, hsz, hord⟩ := h1 hn
    refine ⟨s1, e, by simpa using hrun, ha, hwf, habs, hsz, fun hm => ⟨(hord hm).1, ?_⟩⟩
    have := (isMax_iff_abs h).1 (hord hm).2
    simpa [ExtremeQ] using this

theorem sortedCalls_cons_ok {b : Bool} {bs : List Bool} {s s1 s2 : Store P} {r : Option (Item × P)}
    {rest : List (Option (Item × P))} (h1 : (if b = true then popMax s else popMin s) = .ok (s1, r))
    (h2 : sortedCalls bs s1 = .ok (rest, s2)) : sortedCalls (b :: bs) s = .ok (r :: rest, s2) := by
  cases b
  · simp only [Bool.false_eq_true, if_false] at h1
    simp only [sortedCalls, Bool.false_eq_true, if_false, h1, bind, Except.bind, h2, pure, Except.pure]
  · simp only [if_true] at h1
    simp only [sortedCalls, if_true, h1, bind, Except.bind, h2, pure, Except.pure]

theorem sortedCalls_core (calls : List Bool) : ∀ {s : Store P}, s.WF →
    ∃ outs s', sortedCalls calls s = .ok (outs, s') ∧ s'.WF ∧ outs.length = calls.length ∧
      s'.size = s.size - min s.size calls.length ∧ SortedRun HeldQ s.abs calls outs s'.abs ∧
      (s.MinMaxHeap → s'.MinMaxHeap ∧ SortedRun ExtremeQ s.abs calls outs s'.abs) := by
  induction calls with
  | nil =>
    intro s h
    exact ⟨[], s, rfl, h, rfl, by simp, by simp [SortedRun], fun hm => ⟨hm, by simp [SortedRun]⟩⟩
  | cons b bs ih =>
    intro s h
    obtain ⟨h0, h1⟩ := sortedStep_core h b
    rcases Nat.eq_zero_or_pos s.size with hz | hn
    · obtain ⟨outs, s', hrun, hwf, hlen, hsz, hrunH, hord⟩ := ih h
      refine ⟨none :: outs, s', ?_, hwf, by simp [hlen], by rw [hsz, hz]; simp, ?_, ?_⟩
      · exact sortedCalls_cons_ok (h0 hz) hrun
      · exact ⟨abs_none_of_size_zero h hz, hrunH⟩
      · intro hm
        exact ⟨(hord hm).1, abs_none_of_size_zero h hz, (hord hm).2⟩
    · obtain ⟨s1, e, hrun1, ha, hwf1, habs1, hsz1, hord1⟩ := h1 hn
      obtain ⟨outs, s', hrun, hwf, hlen, hsz, hrunH, hord⟩ := ih hwf1
      refine ⟨some e :: outs, s', ?_, hwf, by simp [hlen], ?_, ?_, ?_⟩
      · exact sortedCalls_cons_ok hrun1 hrun
      · rw [hsz, hsz1, List.length_cons]; omega
      · refine ⟨ha, ?_⟩
        rw [← habs1]; exact hrunH
      · intro hm
        obtain ⟨hm1, hq⟩ := hord1 hm
        refine ⟨(hord hm1).1, hq, ?_⟩
        rw [← habs1]; exact (hord hm1).2

theorem sortedCalls_safe {s : Store P} (h : s.WF) (calls : List Bool) :
    ∃ outs s', sortedCalls calls s = .ok (outs, s') ∧ s'.WF ∧ outs.length = calls.length ∧
      s'.size = s.size - min s.size calls.length ∧ SortedRun HeldQ s.abs calls outs s'.abs ∧
      ((outs.filterMap id).map (·.1.key)).Nodup := by
  obtain ⟨outs, s', h1, h2, h3, h4, h5, _⟩ := sortedCalls_core calls h
  exact ⟨outs, s', h1, h2, h3, h4, h5, SortedRun.nodup (fun _ _ _ hq => hq) h5⟩

/-! ## Draining in sorted order -/

theorem drainAsc_core (fuel : Nat) : ∀ {s : Store P}, s.WF → s.size < fuel →
    ∃ l, drainAsc fuel s = .ok l ∧ l.length = s.size ∧ (∀ e, e ∈ l ↔ s.abs e.1.key = some e) ∧
      (l.map (·.1.key)).Nodup ∧ (s.MinMaxHeap → l.Pairwise (fun a b => ¬ b.2 < a.2)) := by
  induction fuel with
  | zero => intro s _ hf; omega
  | succ fuel ih =>
    intro s h hf
    obtain ⟨h0, h1⟩ := popMin_core h
    rcases Nat.eq_zero_or_pos s.size with hz | hn
    · refine ⟨[], ?_, by simp [hz], ?_, by simp, fun _ => List.Pairwise.nil⟩
      · simp only [drainAsc, h0 hz, bind, Except.bind, pure, Except.pure]
      · intro e
        rw [abs_none_of_size_zero h hz]
        simp
    · obtain ⟨s1, e, hrun1, _, ha, hwf1, habs1, hsz1, hord1⟩ := h1 hn
      obtain ⟨l, hrun, hlen, hmem, hnd, hpw⟩ := ih hwf1 (by omega)
      have hmem1 : ∀ x, x ∈ l ↔ (x.1.key ≠ e.1.key ∧ s.abs x.1.key = some x) := by
        intro x
        rw [hmem x, habs1]
        unfold absRemove
        by_cases hk : x.1.key = e.1.key
        · simp [hk]
        · simp [hk]
      refine ⟨e :: l, ?_, by simp [hlen]; omega, ?_, ?_, ?_⟩
      · simp only [drainAsc, hrun1, bind, Except.bind, hrun, pure, Except.pure]
      · intro x
        rw [List.mem_cons, hmem1]
        constructor
        · rintro (rfl | ⟨_, hx⟩)
          · exact ha
          · exact hx
        · intro hx
          by_cases hk : x.1.key = e.1.key
          · left
            rw [hk, ha] at hx
            exact (Option.some.inj hx).symm
          · exact Or.inr ⟨hk, hx⟩
      · rw [List.map_cons, List.nodup_cons]
        refine ⟨?_, hnd⟩
        intro hc
        obtain ⟨x, hx, hk⟩ := List.mem_map.1 hc
        exact ((hmem1 x).1 hx).1 hk
      · intro hm
        obtain ⟨hm1, hmin⟩ := hord1 hm
        rw [List.pairwise_cons]
        refine ⟨?_, hpw hm1⟩
        intro x hx
        exact hmin.2 x ((mem_iff_abs h).2 ((hmem1 x).1 hx).2)

theorem drainDesc_core (fuel : Nat) : ∀ {s : Store P}, s.WF → s.size < fuel →
    ∃ l, drainDesc fuel s = .ok l ∧ l.length = s.size ∧ (∀ e, e ∈ l ↔ s.abs e.1.key = some e) ∧
      (l.map (·.1.key)).Nodup ∧ (s.MinMaxHeap → l.Pairwise (fun a b => ¬ a.2 < b.2)) := by
  induction fuel with
  | zero => intro s _ hf; omega
  | succ fuel ih =>
    intro s h hf
    obtain ⟨h0, h1⟩ := popMax_core h
    rcases Nat.eq_zero_or_pos s.size with hz | hn
    · refine ⟨[], ?_, by simp [hz], ?_, by simp, fun _ => List.Pairwise.nil⟩
      · simp only [drainDesc, h0 hz, bind, Except.bind, pure, Except.pure]
      · intro e
        rw [abs_none_of_size_zero h hz]
        simp
    · obtain ⟨_, s1, e, hrun1, _, _, ha, hwf1, habs1, hsz1, hord1⟩ := h1 hn
      obtain ⟨l, hrun, hlen, hmem, hnd, hpw⟩ := ih hwf1 (by omega)
      have hmem1 : ∀ x, x ∈ l ↔ (x.1.key ≠ e.1.key ∧ s.abs x.1.key = some x) := by
        intro x
        rw [hmem x, habs1]
        unfold absRemove
        by_cases hk : x.1.key = e.1.key
        · simp [hk]
        · simp [hk]
      refine ⟨e :: l, ?_, by simp [hlen]; omega, ?_, ?_, ?_⟩
      · simp only [drainDesc, hrun1, bind, Except.bind, hrun, pure, Except.pure]
      · intro x
        rw [List.mem_cons, hmem1]
        constructor
        · rintro (rfl | ⟨_, hx⟩)
          · exact ha
          · exact hx
        · intro hx
          by_cases hk : x.1.key = e.1.key
          · left
            rw [hk, ha] at hx
            exact (Option.some.inj hx).symm
          · exact Or.inr ⟨hk, hx⟩
      · rw [List.map_cons, List.nodup_cons]
        refine ⟨?_, hnd⟩
        intro hc
        obtain ⟨x, hx, hk⟩ := List.mem_map.1 hc
        exact ((hmem1 x).1 hx).1 hk
      · intro hm
        obtain ⟨hm1, hmax⟩ := hord1 hm
        rw [List.pairwise_cons]
        refine ⟨?_, hpw hm1⟩
        intro x hx
        exact hmax.2 x ((mem_iff_abs h).2 ((hmem1 x).1 hx).2)

theorem intoAscendingSortedVec_core {s : Store P} (h : s.WF) :
    ∃ l, intoAscendingSortedVec s = .ok l ∧ l.length = s.size ∧ (∀ e, e ∈ l ↔ s.Mem e) ∧
      (l.map (·.1.key)).Nodup ∧ (s.MinMaxHeap → l.Pairwise (fun a b => ¬ b.2 < a.2)) := by
  obtain ⟨l, h1, h2, h3, h4, h5⟩ := drainAsc_core (s.size + 1) h (Nat.lt_succ_self _)
  exact ⟨l, h1, h2, fun e => (h3 e).trans (mem_iff_abs h).symm, h4, h5⟩

theorem intoDescendingSortedVec_core {s : Store P} (h : s.WF) :
    ∃ l, intoDescendingSortedVec s = .ok l ∧ l.length = s.size ∧ (∀ e, e ∈ l ↔ s.Mem e) ∧
      (l.map (·.1.key)).Nodup ∧ (s.MinMaxHeap → l.Pairwise (fun a b => ¬ a.2 < b.2)) := by
  obtain ⟨l, h1, h2, h3, h4, h5⟩ := drainDesc_core (s.size + 1) h (Nat.lt_succ_self _)
  exact ⟨l, h1, h2, fun e => (h3 e).trans (mem_iff_abs h).symm, h4, h5⟩

theorem drainAsc_safe {s : Store P} (h : s.WF) {fuel : Nat} (hf : s.size < fuel) :
    ∃ l, drainAsc fuel s = .ok l ∧ l.length = s.size ∧ (∀ e, e ∈ l ↔ s.Mem e) ∧ (l.map (·.1.key)).Nodup := by
  obtain ⟨l, h1, h2, h3, h4, _⟩ := drainAsc_core fuel h hf
  exact ⟨l, h1, h2, fun e => (h3 e).trans (mem_iff_abs h).symm, h4⟩

theorem drainDesc_safe {s : Store P} (h : s.WF) {fuel : Nat} (hf : s.size < fuel) :
    ∃ l, drainDesc fuel s = .ok l ∧ l.length = s.size ∧ (∀ e, e ∈ l ↔ s.Mem e) ∧ (l.map (·.1.key)).Nodup := by
  obtain ⟨l, h1, h2, h3, h4, _⟩ := drainDesc_core fuel h hf
  exact ⟨l, h1, h2, fun e => (h3 e).trans (mem_iff_abs h).symm, h4⟩

theorem intoAscendingSortedVec_safe {s : Store P} (h : s.WF) :
    ∃ l, intoAscendingSortedVec s = .ok l ∧ l.length = s.size ∧ (∀ e, e ∈ l ↔ s.Mem e) ∧ (l.map (·.1.key)).Nodup :=
  drainAsc_safe h (Nat.lt_succ_self _)

theorem intoDescendingSortedVec_safe {s : Store P} (h : s.WF) :
    ∃ l, intoDescendingSortedVec s = .ok l ∧ l.length = s.size ∧ (∀ e, e ∈ l ↔ s.Mem e) ∧ (l.map (·.1.key)).Nodup :=
  drainDesc_safe h (Nat.lt_succ_self _)

/-! ## The sifting procedures, safety form -/

theorem upHeapify_safe {s : Store P} (h : s.WF) (i : Nat) :
    ∃ s', upHeapify s i = .ok s' ∧ s'.WF ∧ s'.map = s.map ∧ s'.size = s.size := by
  obtain ⟨s', h1, h2, h3, h4, _⟩ := upHeapify_core h i
  exact ⟨s', h1, h2, h3, h4⟩

/-- `up_heapify` at a position outside the heap leaves the store alone -/
theorem upHeapify_noop_of_le {s : Store P} (h : s.WF) {i : Nat} (hi : s.size ≤ i) : upHeapify s i = .ok s :=
  upHeapify_noop (Array.getElem?_eq_none (by rw [h.heap_size]; exact hi))

/-! ## Non-vacuity: a well-formed store that is NOT a min-max heap (the state a leaked `iter_mut` guard leaves
behind), on which every operation is nevertheless fault-free -/

theorem ex7_not_heap : ¬ (ex7 : Store Nat).MinMaxHeap := fun hm => by
  have := hm 0 3 (Anc.zero (by decide)) (by decide) 99 10 (by decide) (by decide)
  revert this; decide

example : (ex7 : Store Nat).WF ∧ ¬ (ex7 : Store Nat).MinMaxHeap ∧ 0 < ex7.size := ⟨ex7_WF, ex7_not_heap, by decide⟩

/-- a key-preserving predicate for `pop_min_if` / `pop_max_if` / `retain_mut`, and a key-preserving item write -/
def exPred : Item → Nat → Bool × Item × Nat := fun it p => (p % 20 == 0, ⟨it.key, it.payload + 1⟩, p + 1)
example : ∀ it p, (exPred it p).2.1.key = it.key := fun _ _ => rfl
def exWrite : Item → Item := fun it => ⟨it.key, 77⟩
example : ∀ it, (exWrite it).key = it.key := fun _ => rfl

example : ∃ s' r, popMin ex7 = .ok (s', r) ∧ s'.WF ∧ s'.size = 6 := by
  obtain ⟨s', r, h1, h2, _, _, h3⟩ := popMin_safe ex7_WF
  obtain ⟨_, _, _, _, h4⟩ := h3 (by decide)
  exact ⟨s', r, h1, h2, h4⟩

example : ∃ s' r, popMaxIf ex7 exPred = .ok (s', r) ∧ s'.WF := by
  obtain ⟨s', r, h1, h2, _⟩ := popMaxIf_safe ex7_WF exPred (fun _ _ => rfl)
  exact ⟨s', r, h1, h2⟩

/-- the model on the unordered store: no fault, but (of course) not the extremes: `pop_min` hands out the root (99) and
`pop_max` the larger of positions 1 and 2 (60) -/
example : (popMin ex7).toOption.map (fun r => r.2.map (·.2)) = some (some 99) := by decide +kernel
example : (popMax ex7).toOption.map (fun r => r.2.map (·.2)) = some (some 60) := by decide +kernel
example : (popMaxIf ex7 exPred).toOption.map (fun r => (r.2, r.1.size)) = some (some (⟨2, 1⟩, 61), 6) := by decide +kernel
example : (popMinIf ex7 exPred).toOption.map (fun r => (r.2, r.1.size, r.1.pr 0)) = some (none, 7, some 10) := by
  decide +kernel
example : (push ex7 ⟨9, 0⟩ 5).toOption.map (fun r => (r.2, r.1.size)) = some (none, 8) := by decide +kernel
example : (push ex7 ⟨3, 5⟩ 70).toOption.map (fun r => (r.2, r.1.size, r.1.abs 3)) = some (some 10, 7, some (⟨3, 0⟩, 70)) := by
  decide +kernel
example : (remove ex7 1).toOption.map (fun r => (r.2, r.1.size)) = some (some (⟨1, 0⟩, 50), 6) := by decide +kernel
example : (sortedCalls [false, true, true] ex7).toOption.map (fun r => (r.1.map (fun o => o.map (·.2)), r.2.size)) =
    some ([some 99, some 60, some 50], 4) := by decide +kernel
example : (intoAscendingSortedVec ex7).toOption.map (fun l => l.length) = some 7 := by decide +kernel
example : (peekMinMutWrite ex7 exWrite).toOption.map (fun r => (r.2, r.1.abs 0)) =
    some (some (⟨0, 0⟩, 99), some (⟨0, 77⟩, 99)) := by decide +kernel

end DQ
end PQ
