import PQ.Lemmas.Tables
import PQ.Lemmas.SiftUp
import PQ.Lemmas.Bulk
/-!
# The tables-only invariant: continuations from a store whose map is SHORTER than its tables

When the predicate of `retain` / `retain_mut` (or the `Drop` of a rejected element) panics inside `IndexMap::retain`,
the crate is left with its two index tables and `size` untouched but a shorter map.  `Store.TablesOnlyWF` is what
remains true of such a store: the tables are mutually inverse bijections of `0..size`, and the map is *at most* as long.

This file contains the base of the argument that from such a store no unchecked access is ever out of bounds:

* `TO.SafeR post r`: the result `r` is `.ok a` with `post a`, or it is the fault `unwrapNone` (an ordinary panic of the
  crate's own `Option::unwrap` on a map lookup) — never `oob`, `arith`, `indexPanic`, `fuel`, `capacity`;
* `TO.Tab s n`: the table part of `Store.TWF` (no statement about the map);
* the store-level functions (`swap`, `prioAt`, `swapRemove`, `swapRemoveIf`, `changePriority{,By}`, `remove`, the bulk steps).

The table facts are NOT re-proved: a store `s` with `Tab s n` is sent to the store `toU s n : Store Unit` with the same
tables and an identity map of length `n`; that store is `TWF n`, and the existing lemmas of `Tables.lean` / `WF.lean` /
`SiftUp.lean` apply to it.  The table part of `swap_remove` / `remove` does not read the map (`srTables`, `rmTables`).
-/
set_option linter.unusedSimpArgs false
set_option linter.unusedSectionVars false
set_option linter.unusedVariables false
namespace PQ
namespace TO
variable {P : Type}

/-! ## Results that are `.ok` or the ordinary panic `unwrapNone` -/

/-- the only fault a continuation from a tables-only state can end in: `Option::unwrap` on `None` -/
def OnlyUnwrap : Fault → Prop
  | .unwrapNone _ => True
  | _ => False

/-- `r` is `.ok a` with `post a`, or the ordinary panic `unwrapNone` -/
def SafeR {α : Type} (post : α → Prop) : R α → Prop
  | .ok a => post a
  | .error f => OnlyUnwrap f

theorem SafeR.ok {α : Type} {post : α → Prop} {a : α} (h : post a) : SafeR post (.ok a) := h

theorem SafeR.pure {α : Type} {post : α → Prop} {a : α} (h : post a) : SafeR post (pure a : R α) := h

theorem SafeR.unwrapNone {α : Type} {post : α → Prop} (site : Nat) : SafeR post (.error (.unwrapNone site) : R α) :=
  trivial

theorem SafeR.bind {α β : Type} {x : R α} {f : α → R β} {Q : α → Prop} {post : β → Prop}
    (hx : SafeR Q x) (hf : ∀ a, Q a → SafeR post (f a)) : SafeR post (x >>= f) := by
  cases x with
  | error e => exact hx
  | ok a => exact hf a hx

theorem SafeR.mono {α : Type} {x : R α} {Q post : α → Prop} (hx : SafeR Q x) (h : ∀ a, Q a → post a) :
    SafeR post x := by
  cases x with
  | error e => exact hx
  | ok a => exact h a hx

theorem SafeR.of_ok {α : Type} {x : R α} {post : α → Prop} {a : α} (hx : SafeR post x) (h : x = .ok a) : post a := by
  subst h; exact hx

theorem SafeR.of_error {α : Type} {x : R α} {post : α → Prop} {f : Fault} (hx : SafeR post x) (h : x = .error f) :
    ∃ site, f = .unwrapNone site := by
  subst h
  cases f <;> first | exact ⟨_, rfl⟩ | exact absurd hx (by simp [SafeR, OnlyUnwrap])

theorem SafeR.not_oob {α : Type} {x : R α} {post : α → Prop} (hx : SafeR post x) (site : Nat) : x ≠ .error (.oob site) := by
  intro h; obtain ⟨_, h'⟩ := hx.of_error h; cases h'

theorem SafeR.not_arith {α : Type} {x : R α} {post : α → Prop} (hx : SafeR post x) (site : Nat) :
    x ≠ .error (.arith site) := by
  intro h; obtain ⟨_, h'⟩ := hx.of_error h; cases h'

theorem SafeR.of_eq {α : Type} {x y : R α} {post : α → Prop} (hy : SafeR post y) (h : x = y) : SafeR post x := h ▸ hy

/-- a result known to be `.ok` -/
theorem SafeR.of_exists {α : Type} {x : R α} {post : α → Prop} (h : ∃ a, x = .ok a ∧ post a) : SafeR post x := by
  obtain ⟨a, rfl, h⟩ := h; exact h

/-! ### the primitives -/

theorem getU_to {α : Type} {a : Array α} {i : Nat} (site : Nat) (h : i < a.size) :
    SafeR (fun x => a[i]? = some x) (getU a i site) := by
  have : a[i]? = some a[i] := by simp [h]
  rw [getU_ok this]; exact this

theorem setU_to {α : Type} {a : Array α} {i : Nat} (v : α) (site : Nat) (h : i < a.size) :
    SafeR (fun b => b = a.setIfInBounds i v) (setU a i v site) := by
  rw [setU_ok v h]; exact rfl

theorem unwrapO_to {α : Type} (o : Option α) (site : Nat) : SafeR (fun x => o = some x) (unwrapO o site) := by
  cases o with
  | none => exact trivial
  | some x => exact rfl

theorem decC_to {x : Nat} (site : Nat) (h : 0 < x) : SafeR (fun y => y = x - 1) (decC x site) := by
  have : decC x site = .ok (x - 1) := decC_eq_ok_iff.2 ⟨h, rfl⟩
  rw [this]; exact rfl

theorem prioAt_to {s : Store P} {pos : Nat} (h : pos < s.heap.size) : SafeR (fun _ => True) (s.prioAt pos) := by
  unfold Store.prioAt
  refine SafeR.bind (getU_to 105 h) fun i _ => ?_
  refine SafeR.bind (unwrapO_to _ 106) fun e _ => ?_
  exact SafeR.pure trivial

/-! ## The table part of well-formedness -/

/-- the index tables, read at length `n`, are mutually inverse bijections on `0..n` (nothing about the map) -/
structure Tab (s : Store P) (n : Nat) : Prop where
  heap_size : s.heap.size = n
  qp_size : s.qp.size = n
  heap_qp : ∀ p, p < n → ∃ i, s.heap[p]? = some i ∧ s.qp[i]? = some p
  qp_heap : ∀ i, i < n → ∃ p, s.qp[i]? = some p ∧ s.heap[p]? = some i

/-- the identity map of length `n` over `Unit` priorities: slot `i` holds key `i` -/
def idMap (n : Nat) : IMap Unit := (Array.range n).map fun i => ((⟨i, 0⟩ : Item), ())

theorem idMap_size (n : Nat) : (idMap n).size = n := by simp [idMap]

theorem idMap_getElem? (n i : Nat) : (idMap n)[i]? = if i < n then some ((⟨i, 0⟩ : Item), ()) else none := by
  unfold idMap
  rw [Array.getElem?_map, Array.getElem?_range]
  split <;> rfl

theorem idMap_nodup (n : Nat) : (idMap n).NoDupKeys := by
  intro i j a b ha hb hk
  rw [idMap_getElem?] at ha hb
  split at ha <;> split at hb <;> simp_all
  subst ha; subst hb; exact hk

/-- the same tables over an identity map of length `n` -/
def toU (s : Store P) (n : Nat) : Store Unit :=
  { map := idMap n, heap := s.heap, qp := s.qp, size := s.size, ticks := s.ticks }

theorem Tab.toU {s : Store P} {n : Nat} (h : Tab s n) : (toU s n).TWF n :=
  ⟨idMap_size n, h.heap_size, h.qp_size, h.heap_qp, h.qp_heap, idMap_nodup n⟩

theorem Tab.ofTWF {Q : Type} {s : Store P} {t : Store Q} {n : Nat} (h : t.TWF n) (hh : s.heap = t.heap) (hq : s.qp = t.qp) :
    Tab s n :=
  ⟨by rw [hh]; exact h.heap_size, by rw [hq]; exact h.qp_size, by rw [hh, hq]; exact h.heap_qp,
    by rw [hh, hq]; exact h.qp_heap⟩

theorem Tab.congr {s t : Store P} {n : Nat} (h : Tab s n) (hh : t.heap = s.heap) (hq : t.qp = s.qp) : Tab t n :=
  ⟨by rw [hh]; exact h.heap_size, by rw [hq]; exact h.qp_size, by rw [hh, hq]; exact h.heap_qp,
    by rw [hh, hq]; exact h.qp_heap⟩

theorem Tab.heap_lt {s : Store P} {n p i : Nat} (h : Tab s n) (hp : s.heap[p]? = some i) : i < n :=
  h.toU.heap_lt (s := TO.toU s n) hp

theorem Tab.qp_lt {s : Store P} {n p i : Nat} (h : Tab s n) (hi : s.qp[i]? = some p) : p < n :=
  h.toU.qp_lt (s := TO.toU s n) hi

theorem Tab.heap_some {s : Store P} {n p : Nat} (h : Tab s n) (hp : p < n) : ∃ i, s.heap[p]? = some i ∧ i < n :=
  h.toU.heap_some hp

theorem Tab.qp_some {s : Store P} {n i : Nat} (h : Tab s n) (hi : i < n) : ∃ p, s.qp[i]? = some p ∧ p < n :=
  h.toU.qp_some hi

theorem Tab.tick {s : Store P} {n k : Nat} (h : Tab s n) : Tab (s.tick k) n := ⟨h.1, h.2, h.3, h.4⟩

theorem Tab.empty (s : Store P) (hh : s.heap = #[]) (hq : s.qp = #[]) : Tab s 0 :=
  ⟨by rw [hh]; rfl, by rw [hq]; rfl, fun p hp => by omega, fun p hp => by omega⟩

end TO

/-- **the tables-only invariant**: what is left of `Store.WF` when `IndexMap::retain` is cut short by a panic of its
closure — the index tables are mutually inverse bijections of `0..size` and agree with `size` in length, the map has
AT MOST `size` entries (nothing relates the entries to the tables, and keys need not be unique) -/
structure Store.TablesOnlyWF {P : Type} (s : Store P) : Prop where
  heap_size : s.heap.size = s.size
  qp_size : s.qp.size = s.size
  map_le : s.map.size ≤ s.size
  heap_qp : ∀ p, p < s.size → ∃ i, s.heap[p]? = some i ∧ s.qp[i]? = some p
  qp_heap : ∀ i, i < s.size → ∃ p, s.qp[i]? = some p ∧ s.heap[p]? = some i

namespace TO
variable {P : Type}

theorem towf_iff {s : Store P} : s.TablesOnlyWF ↔ Tab s s.size ∧ s.map.size ≤ s.size :=
  ⟨fun h => ⟨⟨h.heap_size, h.qp_size, h.heap_qp, h.qp_heap⟩, h.map_le⟩,
   fun h => ⟨h.1.heap_size, h.1.qp_size, h.2, h.1.heap_qp, h.1.qp_heap⟩⟩

theorem towf_of_tab {s : Store P} {n : Nat} (h : Tab s n) (hs : s.size = n) (hm : s.map.size ≤ n) : s.TablesOnlyWF :=
  towf_iff.2 ⟨hs ▸ h, hs ▸ hm⟩

/-- every well-formed store satisfies the tables-only invariant -/
theorem towf_of_wf {s : Store P} (h : s.WF) : s.TablesOnlyWF :=
  ⟨h.heap_size, h.qp_size, Nat.le_of_eq h.map_size, h.heap_qp, h.qp_heap⟩

/-- the two differ exactly in the length of the map and the uniqueness of keys -/
theorem wf_iff_towf {s : Store P} : s.WF ↔ s.TablesOnlyWF ∧ s.map.size = s.size ∧ s.map.NoDupKeys :=
  ⟨fun h => ⟨towf_of_wf h, h.map_size, h.nodup⟩,
   fun ⟨h, hm, hn⟩ => ⟨hm, h.heap_size, h.qp_size, h.heap_qp, h.qp_heap, hn⟩⟩

theorem towf_iff_check {s : Store P} :
    s.TablesOnlyWF ↔ s.heap.size = s.size ∧ s.qp.size = s.size ∧ s.map.size ≤ s.size ∧
      (∀ p, p < s.size → (s.heap[p]?).bind (fun i => s.qp[i]?) = some p) ∧
      (∀ i, i < s.size → (s.qp[i]?).bind (fun p => s.heap[p]?) = some i) := by
  constructor
  · intro h
    refine ⟨h.heap_size, h.qp_size, h.map_le, ?_, ?_⟩
    · intro p hp; obtain ⟨i, h1, h2⟩ := h.heap_qp p hp; simp [h1, h2]
    · intro i hi; obtain ⟨p, h1, h2⟩ := h.qp_heap i hi; simp [h1, h2]
  · rintro ⟨h1, h2, h3, h4, h5⟩
    refine ⟨h1, h2, h3, ?_, ?_⟩
    · intro p hp; obtain ⟨i, hi, hi'⟩ := Option.bind_eq_some_iff.1 (h4 p hp); exact ⟨i, hi, hi'⟩
    · intro i hi; obtain ⟨p, hp, hp'⟩ := Option.bind_eq_some_iff.1 (h5 i hi); exact ⟨p, hp, hp'⟩

instance (s : Store P) : Decidable s.TablesOnlyWF := decidable_of_iff _ towf_iff_check.symm


/-! ## `Store::swap` -/

theorem swap_eval {Q : Type} {t : Store Q} {a b ia ib : Nat} (hia : t.heap[a]? = some ia) (hib : t.heap[b]? = some ib)
    (qa : t.qp[ia]? = some a) (qb : t.qp[ib]? = some b) :
    t.swap a b = .ok { t with qp := (t.qp.setIfInBounds ia b).setIfInBounds ib a,
                              heap := (t.heap.setIfInBounds a ib).setIfInBounds b ia } := by
  simp [Store.swap, getU_ok hia, getU_ok hib, swapC_ok qa qb, swapC_ok hia hib, bind, Except.bind, pure, Except.pure]

theorem swap_to {s : Store P} {n a b : Nat} (h : Tab s n) (ha : a < n) (hb : b < n) :
    SafeR (fun s' => Tab s' n ∧ s'.map = s.map ∧ s'.size = s.size) (s.swap a b) := by
  obtain ⟨ia, hia, hia'⟩ := h.heap_some ha
  obtain ⟨ib, hib, hib'⟩ := h.heap_some hb
  have qa : s.qp[ia]? = some a := h.toU.qp_of_heap (s := toU s n) hia
  have qb : s.qp[ib]? = some b := h.toU.qp_of_heap (s := toU s n) hib
  obtain ⟨U', hU, hT, _⟩ := Store.swap_spec h.toU ha hb
  rw [swap_eval (t := toU s n) hia hib qa qb] at hU
  cases hU
  rw [swap_eval hia hib qa qb]
  exact ⟨Tab.ofTWF hT rfl rfl, rfl, rfl⟩

/-! ## `Store::swap_remove`: the table part does not read the map -/

def srTables (heap0 qp0 : Array Nat) (size0 position : Nat) : R (Array Nat × Array Nat × Nat × Nat) := do
  let (head, heap) ← swapRemoveC heap0 position 107
  let size ← decC size0 108
  let qp ←
    if position < size then do
      let hp ← getU heap position 109
      setU qp0 hp position 110
    else pure qp0
  let (_, qp) ← swapRemoveC qp head 111
  let heap ←
    if head < size then do
      let q ← getU qp head 112
      setU heap q head 113
    else pure heap
  pure (heap, qp, size, head)

theorem swapRemove_factor {Q : Type} (t : Store Q) (pos : Nat) :
    t.swapRemove pos =
      (srTables t.heap t.qp t.size pos >>= fun r =>
        match t.map.swapRemoveIndex r.2.2.2 with
        | some (e, map) => pure ({ t with map := map, heap := r.1, qp := r.2.1, size := r.2.2.1 }, some e)
        | none => pure ({ t with heap := r.1, qp := r.2.1, size := r.2.2.1 }, none)) := by
  unfold Store.swapRemove srTables
  simp only [bind, Except.bind, pure, Except.pure]
  repeat' (first | rfl | split)

theorem srTables_head {heap qp : Array Nat} {size pos : Nat} {r : Array Nat × Array Nat × Nat × Nat}
    (h : srTables heap qp size pos = .ok r) : heap[pos]? = some r.2.2.2 := by
  unfold srTables at h
  cases h1 : swapRemoveC heap pos 107 with
  | error e => rw [h1] at h; cases h
  | ok v =>
    obtain ⟨head, heap'⟩ := v
    obtain ⟨l, hl, _⟩ := swapRemoveC_eq_ok_iff.1 h1
    rw [h1] at h
    simp only [bind, Except.bind, pure, Except.pure] at h
    repeat' (split at h)
    all_goals first | (cases h; done) | (cases h; exact hl)

theorem size_swapRemoveIndex_le {m m' : IMap P} {i : Nat} {e : Item × P} (h : m.swapRemoveIndex i = some (e, m')) :
    m'.size = m.size - 1 := IMap.size_swapRemoveIndex h

theorem swapRemoveIndex_none {m : IMap P} {i : Nat} (h : m.swapRemoveIndex i = none) : m.size ≤ i := by
  unfold IMap.swapRemoveIndex at h
  split at h
  · cases h
  · rename_i hn
    by_cases hi : i < m.size
    · exfalso
      have h1 : m[i]? = some m[i] := by simp [hi]
      have h2 : m.back? = some (m[m.size - 1]'(by omega)) := by simp [Array.back?]
      exact hn _ _ h1 h2
    · omega

theorem swapRemove_to {s : Store P} {n pos : Nat} (h : Tab s n) (hs : s.size = n) (hm : s.map.size ≤ n) (hp : pos < n) :
    SafeR (fun r => Tab r.1 (n - 1) ∧ r.1.size = n - 1 ∧ r.1.map.size ≤ n - 1 ∧ r.1.ticks = s.ticks) (s.swapRemove pos) := by
  have hU : (toU s n).WF := by
    have := h.toU; unfold Store.WF; show (toU s n).TWF s.size; rw [hs]; exact this
  obtain ⟨U', e, hev, _, hwf, hsz, _⟩ := Store.swapRemove_spec hU (pos := pos) (by show pos < s.size; omega)
  rw [swapRemove_factor] at hev
  change (srTables s.heap s.qp s.size pos >>= _) = _ at hev
  rw [swapRemove_factor]
  cases hr : srTables s.heap s.qp s.size pos with
  | error f => rw [hr] at hev; cases hev
  | ok r =>
    rw [hr] at hev
    have hhead := srTables_head hr
    have hheadlt : r.2.2.2 < n := h.heap_lt hhead
    have hsz' : U'.size = n - 1 := by rw [hsz]; show s.size - 1 = _; rw [hs]
    have key : U'.heap = r.1 ∧ U'.qp = r.2.1 ∧ U'.size = r.2.2.1 := by
      simp only [bind, Except.bind, pure, Except.pure] at hev
      split at hev <;> cases hev <;> exact ⟨rfl, rfl, rfl⟩
    have hT : U'.TWF (n - 1) := by have := hwf; unfold Store.WF at this; rw [hsz'] at this; exact this
    simp only [bind, Except.bind, pure, Except.pure]
    split
    · rename_i e' map' hm'
      refine ⟨Tab.ofTWF hT key.1.symm key.2.1.symm, by show r.2.2.1 = _; rw [← key.2.2, hsz'], ?_, rfl⟩
      show map'.size ≤ _
      rw [IMap.size_swapRemoveIndex hm']; omega
    · rename_i hm'
      refine ⟨Tab.ofTWF hT key.1.symm key.2.1.symm, by show r.2.2.1 = _; rw [← key.2.2, hsz'], ?_, rfl⟩
      show s.map.size ≤ _
      have := swapRemoveIndex_none hm'; omega

/-! ## `Store::remove` -/

def rmTables (heap0 qp0 : Array Nat) (size0 i : Nat) : R (Array Nat × Array Nat × Nat × Nat) := do
  let size ← decC size0 118
  let (pos, qp) ← swapRemoveC qp0 i 119
  let (_, heap) ← swapRemoveC heap0 pos 120
  let (qp, heap) ←
    if i < size then do
      let qpi ← getU qp i 121
      if qpi = size then do
        let qp ← setU qp i pos 122
        pure (qp, heap)
      else do
        let heap ← setU heap qpi i 123
        pure (qp, heap)
    else pure (qp, heap)
  let (qp, heap) ←
    if pos < size then do
      let hp ← getU heap pos 124
      if hp = size then do
        let heap ← setU heap pos i 125
        pure (qp, heap)
      else do
        let qp ← setU qp hp pos 126
        pure (qp, heap)
    else pure (qp, heap)
  pure (heap, qp, size, pos)

theorem remove_factor {Q : Type} (t : Store Q) (k : Nat) :
    t.remove k =
      match t.map.swapRemoveFull k with
      | none => pure (t, none)
      | some (i, e, map) =>
        rmTables t.heap t.qp t.size i >>= fun r =>
          pure ({ t with map := map, heap := r.1, qp := r.2.1, size := r.2.2.1 }, some (e.1, e.2, r.2.2.2)) := by
  unfold Store.remove
  cases t.map.swapRemoveFull k with
  | none => rfl
  | some v =>
    obtain ⟨i, e, map⟩ := v
    unfold rmTables
    simp only [bind, Except.bind, pure, Except.pure]
    repeat' (first | rfl | split)

theorem idMap_lookup {n i : Nat} (hi : i < n) : IMap.lookup (idMap n) i = some ((⟨i, 0⟩ : Item), ()) := by
  rw [IMap.lookup_eq_some_iff (idMap_nodup n)]
  exact ⟨i, by rw [idMap_getElem?, if_pos hi], rfl⟩

theorem idMap_find? {n i j : Nat} (h : IMap.find? (idMap n) i = some j) : j = i := by
  obtain ⟨⟨e, he, hk⟩, _⟩ := IMap.find?_eq_some_iff.1 h
  rw [idMap_getElem?] at he
  split at he
  · cases he; exact hk
  · cases he

theorem remove_to {s : Store P} {n k : Nat} (h : Tab s n) (hs : s.size = n) (hm : s.map.size ≤ n) :
    SafeR (fun r => (r.2 = none ∧ r.1 = s) ∨
        (Tab r.1 (n - 1) ∧ r.1.size = n - 1 ∧ r.1.map.size ≤ n - 1 ∧ r.1.ticks = s.ticks ∧
          ∃ it p pos, r.2 = some (it, p, pos) ∧ pos < n))
      (s.remove k) := by
  rw [remove_factor]
  cases hf : s.map.swapRemoveFull k with
  | none => exact .inl ⟨rfl, rfl⟩
  | some v =>
    obtain ⟨i, e, map⟩ := v
    obtain ⟨hfi, hri⟩ := IMap.swapRemoveFull_eq_some_iff.1 hf
    have hil : i < n := Nat.lt_of_lt_of_le (IMap.find?_lt_size hfi) hm
    have hU : (toU s n).WF := by
      have := h.toU; unfold Store.WF; show (toU s n).TWF s.size; rw [hs]; exact this
    obtain ⟨U', pos, hev, hpos, _, hwf, hsz, _⟩ := Store.remove_spec_some hU (k := i) (idMap_lookup hil)
    rw [remove_factor] at hev
    cases hfU : (toU s n).map.swapRemoveFull i with
    | none => rw [hfU] at hev; cases hev
    | some vU =>
      obtain ⟨i', eU, mapU⟩ := vU
      have hi' : i' = i := idMap_find? (IMap.swapRemoveFull_eq_some_iff.1 hfU).1
      subst hi'
      rw [hfU] at hev
      change (rmTables s.heap s.qp s.size i' >>= _) = _ at hev
      dsimp only
      cases hr : rmTables s.heap s.qp s.size i' with
      | error f => rw [hr] at hev; cases hev
      | ok r =>
        rw [hr] at hev
        have hev' := Except.ok.inj hev
        have h1 : U' = _ := (congrArg Prod.fst hev').symm
        have h2 : pos = r.2.2.2 := by
          have := congrArg Prod.snd hev'
          simp only [Option.some.injEq, Prod.mk.injEq] at this
          exact this.2.2.symm
        subst h1; subst h2
        have hsz' : r.2.2.1 = n - 1 := by have := hsz; rw [← hs]; exact this
        have hT : (Store.mk mapU r.1 r.2.1 r.2.2.1 s.ticks).TWF (n - 1) := by
          have := hwf; unfold Store.WF at this; rw [← hsz']; exact this
        refine .inr ⟨Tab.ofTWF hT rfl rfl, hsz', ?_, rfl, _, _, _, rfl, by rw [← hs]; exact hpos⟩
        show map.size ≤ _
        rw [IMap.size_swapRemoveIndex hri]; omega

/-! ## `swap_remove_if`, `change_priority{,_by}`, `get_mut` -/

theorem swapRemoveIf_to {s : Store P} {n pos : Nat} (f : Item → P → Bool × Item × P) (h : Tab s n) (hs : s.size = n)
    (hm : s.map.size ≤ n) (hp : pos < n) :
    SafeR (fun r => (Tab r.1 (n - 1) ∧ r.1.size = n - 1 ∧ r.1.map.size ≤ n - 1 ∧ r.1.ticks = s.ticks) ∨
        (Tab r.1 n ∧ r.1.size = n ∧ r.1.map.size ≤ n ∧ r.1.ticks = s.ticks ∧ r.2 = none))
      (s.swapRemoveIf pos f) := by
  unfold Store.swapRemoveIf
  refine SafeR.bind (getU_to 114 (by rw [h.heap_size]; exact hp)) fun head _ => ?_
  refine SafeR.bind (unwrapO_to _ 115) fun e _ => ?_
  dsimp only
  split
  · refine SafeR.mono (swapRemove_to (s := { s with map := s.map.setIfInBounds head ((f e.1 e.2).2.1, (f e.1 e.2).2.2) })
      (h.congr rfl rfl) hs (by simpa using hm) hp) fun r hr => .inl hr
  · exact SafeR.pure (.inr ⟨h.congr rfl rfl, hs, by simpa using hm, rfl, rfl⟩)

theorem changePriority_to {s : Store P} {n k : Nat} (p : P) (h : Tab s n) (hm : s.map.size ≤ n) :
    SafeR (fun r => r.1.heap = s.heap ∧ r.1.qp = s.qp ∧ r.1.size = s.size ∧ r.1.map.size = s.map.size ∧
        r.1.ticks = s.ticks ∧ ∀ old pos, r.2 = some (old, pos) → pos < n)
      (s.changePriority k p) := by
  unfold Store.changePriority
  split
  · rename_i index it old hg
    have hil : index < s.map.size := IMap.find?_lt_size (IMap.getFull_eq_some_iff.1 hg).1
    refine SafeR.bind (getU_to 116 (by rw [h.qp_size]; omega)) fun pos hpos => ?_
    refine SafeR.pure ⟨rfl, rfl, rfl, IMap.size_setPrio _ _ _, rfl, ?_⟩
    intro old' pos' he
    cases he
    exact h.qp_lt hpos
  · exact SafeR.pure ⟨rfl, rfl, rfl, rfl, rfl, fun _ _ he => by cases he⟩

theorem changePriorityBy_to {s : Store P} {n k : Nat} (g : P → P) (h : Tab s n) (hm : s.map.size ≤ n) :
    SafeR (fun r => r.1.heap = s.heap ∧ r.1.qp = s.qp ∧ r.1.size = s.size ∧ r.1.map.size = s.map.size ∧
        r.1.ticks = s.ticks ∧ ∀ pos, r.2 = some pos → pos < n)
      (s.changePriorityBy k g) := by
  unfold Store.changePriorityBy
  split
  · rename_i index it old hg
    have hil : index < s.map.size := IMap.find?_lt_size (IMap.getFull_eq_some_iff.1 hg).1
    refine SafeR.bind (getU_to 117 (by rw [h.qp_size]; omega)) fun pos hpos => ?_
    refine SafeR.pure ⟨rfl, rfl, rfl, IMap.size_setPrio _ _ _, rfl, ?_⟩
    intro pos' he
    cases he
    exact h.qp_lt hpos
  · exact SafeR.pure ⟨rfl, rfl, rfl, rfl, rfl, fun _ he => by cases he⟩

theorem getMutWrite_to (s : Store P) (k : Nat) (w : Item → Item) :
    (s.getMutWrite k w).1.heap = s.heap ∧ (s.getMutWrite k w).1.qp = s.qp ∧ (s.getMutWrite k w).1.size = s.size ∧
      (s.getMutWrite k w).1.map.size = s.map.size ∧ (s.getMutWrite k w).1.ticks = s.ticks := by
  unfold Store.getMutWrite
  split
  · exact ⟨rfl, rfl, rfl, IMap.size_setItem _ _ _, rfl⟩
  · exact ⟨rfl, rfl, rfl, rfl, rfl⟩

/-! ## The moving hole of the sift-up procedures -/

/-- the tables are inverse bijections except that heap position `hole` is vacant and slot `idx` is placed nowhere -/
def Hole (s : Store P) (n hole idx : Nat) : Prop := (toU s n).HoleTWF n hole idx

theorem Tab.toHole {s : Store P} {n pos idx : Nat} (h : Tab s n) (hp : s.heap[pos]? = some idx) : Hole s n pos idx :=
  Store.TWF.toHole h.toU (s := TO.toU s n) hp

theorem Hole.heap_size {s : Store P} {n hole idx : Nat} (h : Hole s n hole idx) : s.heap.size = n :=
  Store.HoleTWF.heap_size (s := TO.toU s n) h
theorem Hole.qp_size {s : Store P} {n hole idx : Nat} (h : Hole s n hole idx) : s.qp.size = n :=
  Store.HoleTWF.qp_size (s := TO.toU s n) h
theorem Hole.hole_lt {s : Store P} {n hole idx : Nat} (h : Hole s n hole idx) : hole < n := Store.HoleTWF.hole_lt (s := TO.toU s n) h
theorem Hole.idx_lt {s : Store P} {n hole idx : Nat} (h : Hole s n hole idx) : idx < n := Store.HoleTWF.idx_lt (s := TO.toU s n) h

theorem Hole.tick {s : Store P} {n hole idx k : Nat} (h : Hole s n hole idx) : Hole (s.tick k) n hole idx :=
  Store.HoleTWF.tick (s := toU s n) (k := k) h

theorem Hole.congr {s t : Store P} {n hole idx : Nat} (h : Hole s n hole idx) (hh : t.heap = s.heap) (hq : t.qp = s.qp) :
    Hole t n hole idx := by
  unfold Hole toU at *
  rw [hh, hq]
  exact ⟨h.1, h.2, h.3, h.4, h.5, h.6, h.7, h.8⟩

/-- a position other than the hole holds a slot that is a valid index of `qp` -/
theorem Hole.heap_some {s : Store P} {n hole idx p : Nat} (h : Hole s n hole idx) (hp : p < n) (hne : p ≠ hole) :
    ∃ i, s.heap[p]? = some i ∧ i < n := by
  obtain ⟨i, _, h2, h3⟩ := Store.HoleTWF.heap_qp (s := TO.toU s n) h p hp hne
  refine ⟨i, h2, ?_⟩
  have : i < s.qp.size := lt_size_of_getElem? h3
  rw [h.qp_size] at this
  exact this

theorem Hole.step {s : Store P} {n hole idx pp pi : Nat} (h : Hole s n hole idx) (hpp : pp < n) (hne : pp ≠ hole)
    (hpi : s.heap[pp]? = some pi) :
    Hole ({ s with heap := s.heap.setIfInBounds hole pi, qp := s.qp.setIfInBounds pi hole } : Store P) n pp idx :=
  Store.HoleTWF.step (s := toU s n) h hpp hne hpi

theorem Hole.fill {s : Store P} {n hole idx : Nat} (h : Hole s n hole idx) :
    Tab ({ s with heap := s.heap.setIfInBounds hole idx, qp := s.qp.setIfInBounds idx hole } : Store P) n :=
  Tab.ofTWF (Store.HoleTWF.fill (s := toU s n) h) rfl rfl

/-! ## The tables `push` of a new item sifts on: one more position and one more slot, `size` not yet bumped -/

theorem Tab.push {s : Store P} {n : Nat} (h : Tab s n) :
    Tab ({ s with qp := s.qp.push n, heap := s.heap.push n } : Store P) (n + 1) := by
  have hhs := h.heap_size
  have hqs := h.qp_size
  refine ⟨by simp [hhs], by simp [hqs], ?_, ?_⟩
  · intro p hp
    by_cases hps : p = n
    · subst hps
      exact ⟨p, by show (s.heap.push p)[p]? = _; rw [Array.getElem?_push, if_pos hhs.symm],
        by show (s.qp.push p)[p]? = _; rw [Array.getElem?_push, if_pos hqs.symm]⟩
    · obtain ⟨i, h1, h2⟩ := h.heap_qp p (by omega)
      have hi := h.heap_lt h1
      refine ⟨i, ?_, ?_⟩
      · show (s.heap.push n)[p]? = _; rw [Array.getElem?_push, if_neg (by omega), h1]
      · show (s.qp.push n)[i]? = _; rw [Array.getElem?_push, if_neg (by omega), h2]
  · intro i hi
    by_cases his : i = n
    · subst his
      exact ⟨i, by show (s.qp.push i)[i]? = _; rw [Array.getElem?_push, if_pos hqs.symm],
        by show (s.heap.push i)[i]? = _; rw [Array.getElem?_push, if_pos hhs.symm]⟩
    · obtain ⟨p, h1, h2⟩ := h.qp_heap i (by omega)
      have hp := h.qp_lt h1
      refine ⟨p, ?_, ?_⟩
      · show (s.qp.push n)[i]? = _; rw [Array.getElem?_push, if_neg (by omega), h1]
      · show (s.heap.push n)[p]? = _; rw [Array.getElem?_push, if_neg (by omega), h2]

theorem Tab.push_last {s : Store P} {n : Nat} (h : Tab s n) : (s.heap.push n)[n]? = some n := by
  rw [Array.getElem?_push, if_pos h.heap_size.symm]

/-! ## The store-level bulk steps keep the tables-only invariant -/

theorem towf_pushTail {s : Store P} (h : s.TablesOnlyWF) (e : Item × P) :
    ({ s with map := s.map.push e, heap := s.heap.push s.size, qp := s.qp.push s.size, size := s.size + 1 } :
      Store P).TablesOnlyWF := by
  obtain ⟨ht, hm⟩ := towf_iff.1 h
  exact towf_of_tab (n := s.size + 1) ((ht.push).congr rfl rfl) rfl (by simp; omega)

theorem towf_map_update {s : Store P} (h : s.TablesOnlyWF) {m' : IMap P} (hm' : m'.size ≤ s.map.size) :
    ({ s with map := m' } : Store P).TablesOnlyWF :=
  ⟨h.heap_size, h.qp_size, Nat.le_trans hm' h.map_le, h.heap_qp, h.qp_heap⟩

theorem towf_pushIfAbsent {s : Store P} (h : s.TablesOnlyWF) (e : Item × P) : (s.pushIfAbsent e).TablesOnlyWF := by
  unfold Store.pushIfAbsent
  split
  · exact h
  · exact towf_pushTail h e

theorem towf_extendStep {s : Store P} (h : s.TablesOnlyWF) (e : Item × P) : (s.extendStep e).TablesOnlyWF := by
  unfold Store.extendStep
  split
  · exact towf_map_update h (by simp)
  · exact towf_pushTail h e

theorem towf_foldl {f : Store P → Item × P → Store P} (hf : ∀ s e, s.TablesOnlyWF → (f s e).TablesOnlyWF)
    (xs : Array (Item × P)) {s : Store P} (h : s.TablesOnlyWF) : (xs.foldl f s).TablesOnlyWF := by
  rw [← Array.foldl_toList]
  generalize xs.toList = l
  induction l generalizing s with
  | nil => exact h
  | cons x l ih => exact ih (hf s x h)

theorem towf_extend {s : Store P} (h : s.TablesOnlyWF) (xs : Array (Item × P)) : (s.extend xs).TablesOnlyWF :=
  towf_foldl (fun s e h => towf_extendStep h e) xs h

theorem towf_clear (s : Store P) : s.clear.TablesOnlyWF := towf_of_wf (Store.wf_clear s)
theorem towf_drain (s : Store P) : s.drain.2.TablesOnlyWF := towf_of_wf (Store.wf_drain s)

/-- `append`: both stores are only required to satisfy the tables-only invariant -/
theorem towf_append {s o : Store P} (hs : s.TablesOnlyWF) (ho : o.TablesOnlyWF) : (s.append o).1.TablesOnlyWF := by
  unfold Store.append
  split
  rename_i s' o' heq
  have : s'.TablesOnlyWF ∧ o'.TablesOnlyWF := by
    split at heq <;> (cases heq; first | exact ⟨ho, hs⟩ | exact ⟨hs, ho⟩)
  split
  · exact this.1
  · exact towf_foldl (fun s e h => towf_pushIfAbsent h e) _ this.1

/-- `retain_mut` on the store: the tables are rebuilt as identity tables, or (same length) only the map is replaced -/
theorem towf_retainMut {s : Store P} (h : s.TablesOnlyWF) (f : Item → P → Bool × Item × P) :
    (s.retainMut f).TablesOnlyWF := by
  unfold Store.retainMut
  dsimp only
  split
  · exact ⟨Array.size_range, Array.size_range, Nat.le_refl _,
      fun p hp => ⟨p, by simp only [Array.getElem?_range, if_pos hp], by simp only [Array.getElem?_range, if_pos hp]⟩,
      fun p hp => ⟨p, by simp only [Array.getElem?_range, if_pos hp], by simp only [Array.getElem?_range, if_pos hp]⟩⟩
  · rename_i heq
    exact ⟨h.heap_size, h.qp_size, by simp at heq; exact Nat.le_of_eq heq, h.heap_qp, h.qp_heap⟩

end TO
end PQ
