import PQ.Model.Ops
import PQ.Lemmas.WF
/-!
# The ghost comparison counter `Store.ticks` is write-only ("frame" laws)

For every function of the model that takes a store we prove that two runs from stores which agree on everything
but the counter stay in lock step: same fault or same outputs, and result stores that again agree on everything but
the counter.  The laws are proved once for a family of relations `Rel d` (`Store.Same` plus a relation `d` between the
two counters that is stable under adding the same amount on both sides); two instances are used:

* `d := anyT` (no constraint): `Rel anyT = Store.Same`, the relation needed for histories (`step`, `run`);
* `d := shiftT k` (`t.ticks = s.ticks + k`): `Rel (shiftT k) s t ↔ t = s.tick k`, the exact commutation law
  `f (s.tick k) a = mapOk (shift k) (f s a)`.

`Store.append` (two stores) satisfies the law when both pairs are related; with the receiver alone shifted only the
`Same` form holds (the result's counter is the counter of whichever store was larger), and that is the form `step` needs.
-/
set_option linter.unusedSimpArgs false
set_option linter.unusedVariables false
set_option linter.unusedSectionVars false
namespace PQ.TickFrame
open PQ

variable {P : Type} {α β γ δ : Type}

/-! ## results related up to a relation -/

def mapOk (f : α → β) : R α → R β
  | .ok a => .ok (f a)
  | .error e => .error e

/-- both fail with the same fault, or both succeed with related values -/
def RelR (r : α → β → Prop) : R α → R β → Prop
  | .ok a, .ok b => r a b
  | .error e, .error e' => e = e'
  | _, _ => False

theorem RelR.pure {r : α → β → Prop} {a : α} {b : β} (h : r a b) : RelR r (Pure.pure a) (Pure.pure b) := h
theorem RelR.ok {r : α → β → Prop} {a : α} {b : β} (h : r a b) : RelR r (.ok a) (.ok b) := h
theorem RelR.error {r : α → β → Prop} (e : Fault) : RelR r (.error e) (.error e) := rfl

theorem RelR.bind {r : α → β → Prop} {r' : γ → δ → Prop} {x : R α} {y : R β} {f : α → R γ} {g : β → R δ}
    (h : RelR r x y) (hfg : ∀ a b, r a b → RelR r' (f a) (g b)) : RelR r' (x >>= f) (y >>= g) := by
  cases x <;> cases y <;> simp only [RelR] at h
  · subst h; rfl
  · exact hfg _ _ h

theorem RelR.bind_same {r' : γ → δ → Prop} (x : R α) {f : α → R γ} {g : α → R δ}
    (hfg : ∀ a, RelR r' (f a) (g a)) : RelR r' (x >>= f) (x >>= g) := by
  cases x
  · rfl
  · exact hfg _

theorem RelR.ite {r : α → β → Prop} {c : Prop} [Decidable c] {a a' : R α} {b b' : R β}
    (h1 : c → RelR r a b) (h2 : ¬c → RelR r a' b') : RelR r (if c then a else a') (if c then b else b') := by
  split
  · exact h1 ‹_›
  · exact h2 ‹_›

theorem RelR.pure_bind {r : γ → δ → Prop} {a : α} {b : β} {f : α → R γ} {g : β → R δ}
    (h : RelR r (f a) (g b)) : RelR r (Pure.pure a >>= f) (Pure.pure b >>= g) := h

theorem RelR.mono {r r' : α → β → Prop} {x : R α} {y : R β} (h : RelR r x y) (hr : ∀ a b, r a b → r' a b) :
    RelR r' x y := by
  cases x <;> cases y <;> simp only [RelR] at h ⊢
  · exact h
  · exact hr _ _ h

theorem RelR.eq_iff {x y : R α} : RelR (· = ·) x y ↔ x = y := by
  cases x <;> cases y <;> simp [RelR]

theorem RelR.error_iff {r : α → β → Prop} {x : R α} {y : R β} (h : RelR r x y) (e : Fault) :
    x = .error e ↔ y = .error e := by
  cases x <;> cases y <;> simp only [RelR] at h
  · subst h; simp
  · simp

theorem RelR.ok_left {r : α → β → Prop} {x : R α} {y : R β} (h : RelR r x y) {a : α} (hx : x = .ok a) :
    ∃ b, y = .ok b ∧ r a b := by
  subst hx
  cases y <;> simp only [RelR] at h
  exact ⟨_, rfl, h⟩

theorem RelR.mapOk_iff {r : α → β → Prop} {x : R α} {y : R β} {f : α → β} (hr : ∀ a b, r a b ↔ b = f a) :
    RelR r x y ↔ y = mapOk f x := by
  cases x <;> cases y <;> simp [RelR, mapOk, hr, eq_comm]

/-! ## stores related up to the counter -/

/-- a relation between two counters that survives adding the same amount on both sides -/
class TickRel (d : Nat → Nat → Prop) : Prop where
  add : ∀ {a b : Nat} (n : Nat), d a b → d (a + n) (b + n)

/-- no constraint on the counters -/
def anyT : Nat → Nat → Prop := fun _ _ => True
/-- the second counter is the first one shifted by `k` -/
def shiftT (k : Nat) : Nat → Nat → Prop := fun a b => b = a + k

instance : TickRel anyT := ⟨fun _ _ => trivial⟩
instance (k : Nat) : TickRel (shiftT k) := ⟨fun n h => by simp only [shiftT] at h ⊢; omega⟩

/-- the two stores agree on everything but the counter, and the counters are related by `d` -/
def Rel (d : Nat → Nat → Prop) (s t : Store P) : Prop := Store.Same s t ∧ d s.ticks t.ticks

theorem Rel_any {s t : Store P} : Rel anyT s t ↔ Store.Same s t := by simp [Rel, anyT]

theorem Rel_shift {s t : Store P} {k : Nat} : Rel (shiftT k) s t ↔ t = s.tick k := by
  obtain ⟨m, hp, q, z, n₁⟩ := s
  obtain ⟨m', hp', q', z', n₂⟩ := t
  simp only [Rel, Store.Same, shiftT, Store.tick, Store.mk.injEq]
  constructor
  · rintro ⟨⟨rfl, rfl, rfl, rfl⟩, rfl⟩; exact ⟨rfl, rfl, rfl, rfl, rfl⟩
  · rintro ⟨rfl, rfl, rfl, rfl, rfl⟩; exact ⟨⟨rfl, rfl, rfl, rfl⟩, rfl⟩

variable {d : Nat → Nat → Prop}

theorem Rel.mk' {m : IMap P} {hp q : Array Nat} {z n₁ n₂ : Nat} (h : d n₁ n₂) :
    Rel d (⟨m, hp, q, z, n₁⟩ : Store P) ⟨m, hp, q, z, n₂⟩ := ⟨⟨rfl, rfl, rfl, rfl⟩, h⟩

theorem Rel.tick [TickRel d] {s t : Store P} (h : Rel d s t) (n : Nat) : Rel d (s.tick n) (t.tick n) :=
  ⟨h.1, TickRel.add n h.2⟩

/-- case analysis: related stores are literally the same record up to the last field -/
theorem Rel.elim {motive : Store P → Store P → Prop} {s t : Store P} (h : Rel d s t)
    (H : ∀ (m : IMap P) (hp q : Array Nat) (z n₁ n₂ : Nat), d n₁ n₂ → motive ⟨m, hp, q, z, n₁⟩ ⟨m, hp, q, z, n₂⟩) :
    motive s t := by
  obtain ⟨m, hp, q, z, n₁⟩ := s
  obtain ⟨m', hp', q', z', n₂⟩ := t
  obtain ⟨⟨h1, h2, h3, h4⟩, h5⟩ := h
  simp only at h1 h2 h3 h4 h5
  subst h1 h2 h3 h4
  exact H _ _ _ _ _ _ h5

/-- pairs `(store, value)`: stores related, values equal -/
def RelP (d : Nat → Nat → Prop) (x y : Store P × β) : Prop := Rel d x.1 y.1 ∧ x.2 = y.2
/-- pairs `(value, store)` -/
def RelQ (d : Nat → Nat → Prop) (x y : β × Store P) : Prop := x.1 = y.1 ∧ Rel d x.2 y.2
/-- pairs of stores -/
def RelSS (d : Nat → Nat → Prop) (x y : Store P × Store P) : Prop := Rel d x.1 y.1 ∧ Rel d x.2 y.2

/-- two queues of the same kind whose stores agree on everything but the ghost counter -/
def QSame (q r : Q P) : Prop := q.kind = r.kind ∧ Store.Same q.s r.s

/-- results of `step`: queues related, outputs equal -/
def QOut (x y : Q P × Out P) : Prop := QSame x.1 y.1 ∧ x.2 = y.2
/-- results of `run` -/
def QOuts (x y : Q P × List (Out P)) : Prop := QSame x.1 y.1 ∧ x.2 = y.2

theorem QSame.refl (q : Q P) : QSame q q := ⟨rfl, rfl, rfl, rfl, rfl⟩

theorem QSame.mk' {k : Kind} {m : IMap P} {hp q : Array Nat} {z n₁ n₂ : Nat} :
    QSame (⟨k, ⟨m, hp, q, z, n₁⟩⟩ : Q P) ⟨k, ⟨m, hp, q, z, n₂⟩⟩ := ⟨rfl, rfl, rfl, rfl, rfl⟩

/-- closes goals `d _ _` from an assumption, through up to three `tick`s -/
macro "tf_tick_d" : tactic => `(tactic| first
  | assumption
  | exact TickRel.add _ (by assumption)
  | exact TickRel.add _ (TickRel.add _ (by assumption))
  | exact TickRel.add _ (TickRel.add _ (TickRel.add _ (by assumption))))

/-- closes goals `Rel d ⟨..⟩ ⟨..⟩` / `RelP d (⟨..⟩, b) (⟨..⟩, b)` between literal records -/
macro "tf_rel_done" : tactic => `(tactic| first
  | exact Rel.mk' (by tf_tick_d)
  | exact ⟨Rel.mk' (by tf_tick_d), rfl⟩
  | exact Rel.tick (by assumption) _
  | exact ⟨Rel.tick (by assumption) _, rfl⟩
  | assumption
  | exact ⟨by assumption, rfl⟩
  | exact ⟨rfl, Rel.mk' (by tf_tick_d)⟩
  | exact ⟨rfl, by assumption⟩)

/-- one structural step of a lock-step proof: identical first computations, `pure`, `if`, `match` -/
macro "tf_frame1" : tactic => `(tactic| first
  | exact RelR.error _
  | exact RelR.pure (by tf_rel_done)
  | exact RelR.ok (by tf_rel_done)
  | exact RelR.pure rfl
  | exact RelR.pure ⟨QSame.mk', rfl⟩
  | exact RelR.pure ⟨QSame.refl _, rfl⟩
  | (with_reducible refine RelR.bind_same _ fun x => ?_)
  | (with_reducible refine RelR.pure_bind ?_; try dsimp only)
  | (refine RelR.ite (fun _ => ?_) (fun _ => ?_))
  | split)
macro "tf_frame" : tactic => `(tactic| repeat' tf_frame1)

/-- bind through a call whose results are related stores; the continuation sees literal records -/
theorem RelR.bindS {r' : γ → δ → Prop} {x y : R (Store P)} {f : Store P → R γ} {g : Store P → R δ}
    (h : RelR (Rel d) x y)
    (hfg : ∀ (m : IMap P) (hp q : Array Nat) (z n₁ n₂ : Nat), d n₁ n₂ →
      RelR r' (f ⟨m, hp, q, z, n₁⟩) (g ⟨m, hp, q, z, n₂⟩)) : RelR r' (x >>= f) (y >>= g) :=
  RelR.bind h fun a b hab => by apply hab.elim; exact hfg

/-- bind through a call whose results are `(store, value)` pairs -/
theorem RelR.bindP {r' : γ → δ → Prop} {x y : R (Store P × β)} {f : Store P × β → R γ} {g : Store P × β → R δ}
    (h : RelR (RelP d) x y)
    (hfg : ∀ (m : IMap P) (hp q : Array Nat) (z n₁ n₂ : Nat) (b : β), d n₁ n₂ →
      RelR r' (f (⟨m, hp, q, z, n₁⟩, b)) (g (⟨m, hp, q, z, n₂⟩, b))) : RelR r' (x >>= f) (y >>= g) :=
  RelR.bind h fun a b hab => by
    obtain ⟨s1, b1⟩ := a
    obtain ⟨s2, b2⟩ := b
    obtain ⟨h1, h2⟩ := hab
    simp only at h1 h2
    subst h2
    apply h1.elim; intro m hp q z n₁ n₂ hd
    exact hfg _ _ _ _ _ _ _ hd

/-- bind through a call whose results are `(value, store)` pairs -/
theorem RelR.bindQ {r' : γ → δ → Prop} {x y : R (β × Store P)} {f : β × Store P → R γ} {g : β × Store P → R δ}
    (h : RelR (RelQ d) x y)
    (hfg : ∀ (m : IMap P) (hp q : Array Nat) (z n₁ n₂ : Nat) (b : β), d n₁ n₂ →
      RelR r' (f (b, ⟨m, hp, q, z, n₁⟩)) (g (b, ⟨m, hp, q, z, n₂⟩))) : RelR r' (x >>= f) (y >>= g) :=
  RelR.bind h fun a b hab => by
    obtain ⟨b1, s1⟩ := a
    obtain ⟨b2, s2⟩ := b
    obtain ⟨h1, h2⟩ := hab
    simp only at h1 h2
    subst h1
    apply h2.elim; intro m hp q z n₁ n₂ hd
    exact hfg _ _ _ _ _ _ _ hd

/-- bind through a call whose results are pairs of stores, of which the continuation uses the first only -/
theorem RelR.bindSS {r' : γ → δ → Prop} {x y : R (Store P × Store P)}
    {f : Store P × Store P → R γ} {g : Store P × Store P → R δ}
    (h : RelR (RelSS d) x y)
    (hfg : ∀ (m : IMap P) (hp q : Array Nat) (z n₁ n₂ : Nat) (o o' : Store P), d n₁ n₂ → Rel d o o' →
      RelR r' (f (⟨m, hp, q, z, n₁⟩, o)) (g (⟨m, hp, q, z, n₂⟩, o'))) : RelR r' (x >>= f) (y >>= g) :=
  RelR.bind h fun a b hab => by
    obtain ⟨s1, o1⟩ := a
    obtain ⟨s2, o2⟩ := b
    obtain ⟨h1, h2⟩ := hab
    simp only at h1 h2
    revert h2
    apply h1.elim; intro m hp q z n₁ n₂ hd h2
    exact hfg _ _ _ _ _ _ _ _ hd h2

/-- bind through a call whose results are equal values -/
theorem RelR.bindE {r' : γ → δ → Prop} {x y : R α} {f : α → R γ} {g : α → R δ}
    (h : RelR (· = ·) x y) (hfg : ∀ a, RelR r' (f a) (g a)) : RelR r' (x >>= f) (y >>= g) :=
  RelR.bind h fun a b hab => by subst hab; exact hfg a

/-- lock-step proof with the given laws for the calls (each `e` a term `foo_rel (by tf_rel_done) _ ..`) -/
syntax "tf_frame_using" "[" term,* "]" : tactic
macro_rules
  | `(tactic| tf_frame_using [$es,*]) => do
    let alts ← es.getElems.mapM fun e => `(tacticSeq| first
      | with_reducible exact $e
      | (with_reducible refine RelR.bindP $e ?_; intro _ _ _ _ _ _ _ _; try dsimp only)
      | (with_reducible refine RelR.bindS $e ?_; intro _ _ _ _ _ _ _; try dsimp only)
      | (with_reducible refine RelR.bindQ $e ?_; intro _ _ _ _ _ _ _ _; try dsimp only)
      | (with_reducible refine RelR.bindSS $e ?_; intro _ _ _ _ _ _ _ _ _ _; try dsimp only)
      | (with_reducible refine RelR.bindE $e ?_; intro _; try dsimp only))
    `(tactic| repeat' (first $[| $alts]* | tf_frame1))

/-! ## Store level -/
section StoreLevel
variable [TickRel d] {s t : Store P}

theorem swap_rel (h : Rel d s t) (a b : Nat) : RelR (Rel d) (s.swap a b) (t.swap a b) := by
  apply h.elim; intro m hp q z n₁ n₂ hd
  simp only [Store.swap]
  tf_frame

theorem prioAt_rel (h : Rel d s t) (pos : Nat) : s.prioAt pos = t.prioAt pos := by
  apply h.elim; intro m hp q z n₁ n₂ hd
  rfl

theorem swapRemove_rel (h : Rel d s t) (pos : Nat) : RelR (RelP d) (s.swapRemove pos) (t.swapRemove pos) := by
  apply h.elim; intro m hp q z n₁ n₂ hd
  simp only [Store.swapRemove]
  tf_frame

theorem retainMut_rel (h : Rel d s t) (f : Item → P → Bool × Item × P) : Rel d (s.retainMut f) (t.retainMut f) := by
  apply h.elim; intro m hp q z n₁ n₂ hd
  simp only [Store.retainMut]
  split <;> tf_rel_done

theorem swapRemoveIf_rel (h : Rel d s t) (pos : Nat) (f : Item → P → Bool × Item × P) :
    RelR (RelP d) (s.swapRemoveIf pos f) (t.swapRemoveIf pos f) := by
  apply h.elim; intro m hp q z n₁ n₂ hd
  simp only [Store.swapRemoveIf]
  refine RelR.bind_same _ fun head => ?_
  refine RelR.bind_same _ fun e => ?_
  split
  · exact swapRemove_rel (Rel.mk' hd) _
  · exact RelR.pure (by tf_rel_done)

theorem changePriority_rel (h : Rel d s t) (k : Nat) (p : P) :
    RelR (RelP d) (s.changePriority k p) (t.changePriority k p) := by
  apply h.elim; intro m hp q z n₁ n₂ hd
  simp only [Store.changePriority]
  tf_frame

theorem changePriorityBy_rel (h : Rel d s t) (k : Nat) (g : P → P) :
    RelR (RelP d) (s.changePriorityBy k g) (t.changePriorityBy k g) := by
  apply h.elim; intro m hp q z n₁ n₂ hd
  simp only [Store.changePriorityBy]
  tf_frame

theorem getPriority_rel (h : Rel d s t) (k : Nat) : s.getPriority k = t.getPriority k := by
  apply h.elim; intro m hp q z n₁ n₂ hd
  rfl

theorem get_rel (h : Rel d s t) (k : Nat) : s.get k = t.get k := by
  apply h.elim; intro m hp q z n₁ n₂ hd
  rfl

theorem getMutWrite_rel (h : Rel d s t) (k : Nat) (w : Item → Item) :
    RelP d (s.getMutWrite k w) (t.getMutWrite k w) := by
  apply h.elim; intro m hp q z n₁ n₂ hd
  simp only [Store.getMutWrite]
  split <;> tf_rel_done

theorem remove_rel (h : Rel d s t) (k : Nat) : RelR (RelP d) (s.remove k) (t.remove k) := by
  apply h.elim; intro m hp q z n₁ n₂ hd
  simp only [Store.remove]
  tf_frame

theorem pushIfAbsent_rel (h : Rel d s t) (e : Item × P) : Rel d (s.pushIfAbsent e) (t.pushIfAbsent e) := by
  apply h.elim; intro m hp q z n₁ n₂ hd
  simp only [Store.pushIfAbsent]
  split <;> tf_rel_done

theorem extendStep_rel (h : Rel d s t) (e : Item × P) : Rel d (s.extendStep e) (t.extendStep e) := by
  apply h.elim; intro m hp q z n₁ n₂ hd
  simp only [Store.extendStep]
  split <;> tf_rel_done

/-- a fold of a step that respects the relation respects it -/
theorem foldl_rel {step : Store P → Item × P → Store P}
    (hstep : ∀ (s t : Store P) (e : Item × P), Rel d s t → Rel d (step s e) (step t e))
    (xs : Array (Item × P)) (h : Rel d s t) : Rel d (xs.foldl step s) (xs.foldl step t) := by
  rw [← Array.foldl_toList, ← Array.foldl_toList]
  generalize xs.toList = l
  induction l generalizing s t with
  | nil => exact h
  | cons e es ih => exact ih (hstep _ _ _ h)

theorem extend_rel (h : Rel d s t) (xs : Array (Item × P)) : Rel d (s.extend xs) (t.extend xs) :=
  foldl_rel (fun _ _ e h => extendStep_rel h e) xs h

theorem clear_rel (h : Rel d s t) : Rel d s.clear t.clear := by
  apply h.elim; intro m hp q z n₁ n₂ hd
  exact Rel.mk' hd

theorem drain_rel (h : Rel d s t) : RelQ d s.drain t.drain := by
  apply h.elim; intro m hp q z n₁ n₂ hd
  exact ⟨rfl, Rel.mk' hd⟩

theorem append_eq (s o : Store P) : s.append o =
    if o.size > s.size then
      (if s.size = 0 then (o, s) else (s.drain.1.foldl Store.pushIfAbsent o, s.drain.2))
    else (if o.size = 0 then (s, o) else (o.drain.1.foldl Store.pushIfAbsent s, o.drain.2)) := by
  simp only [Store.append]; split <;> rfl

/-- `append`: both pairs related (for the exact shift: both inputs shifted by the same `k`) -/
theorem append_rel {o o' : Store P} (h : Rel d s t) (ho : Rel d o o') : RelSS d (s.append o) (t.append o') := by
  have hz : s.size = t.size := h.1.2.2.2
  have hoz : o.size = o'.size := ho.1.2.2.2
  rw [append_eq, append_eq, ← hz, ← hoz]
  split
  · split
    · exact ⟨ho, h⟩
    · exact ⟨by rw [(drain_rel h).1]; exact foldl_rel (fun _ _ e h => pushIfAbsent_rel h e) _ ho, (drain_rel h).2⟩
  · split
    · exact ⟨h, ho⟩
    · exact ⟨by rw [(drain_rel ho).1]; exact foldl_rel (fun _ _ e h => pushIfAbsent_rel h e) _ h, (drain_rel ho).2⟩

end StoreLevel

/-! ## MaxQ -/
namespace MaxQ
open PQ.MaxQ
variable [LT P] [DecidableLT P] [TickRel d] {s t : Store P}

theorem pickLargest_rel (h : Rel d s t) (i : Nat) : RelR (RelP d) (pickLargest s i) (pickLargest t i) := by
  apply h.elim; intro m hp q z n₁ n₂ hd
  simp only [pickLargest, Store.prioAt, Store.tick]
  tf_frame

theorem heapifyLoop_rel (fuel : Nat) (h : Rel d s t) (i : Nat) :
    RelR (Rel d) (heapifyLoop fuel s i) (heapifyLoop fuel t i) := by
  induction fuel generalizing s t i with
  | zero => exact RelR.error _
  | succ n ih =>
    apply h.elim; intro m hp q z n₁ n₂ hd
    simp only [heapifyLoop]
    tf_frame_using [pickLargest_rel (by tf_rel_done) _, swap_rel (by tf_rel_done) _ _, ih (by tf_rel_done) _]

theorem heapify_rel (h : Rel d s t) (i : Nat) : RelR (Rel d) (heapify s i) (heapify t i) := by
  apply h.elim; intro m hp q z n₁ n₂ hd
  simp only [heapify]
  tf_frame_using [heapifyLoop_rel _ (by tf_rel_done) _]

theorem bubbleUpLoop_rel (fuel : Nat) (h : Rel d s t) (pos : Nat) (p : P) :
    RelR (RelP d) (bubbleUpLoop fuel s pos p) (bubbleUpLoop fuel t pos p) := by
  induction fuel generalizing s t pos with
  | zero => exact RelR.error _
  | succ n ih =>
    apply h.elim; intro m hp q z n₁ n₂ hd
    simp only [bubbleUpLoop, Store.prioAt, Store.tick]
    tf_frame_using [ih (by tf_rel_done) _]

theorem bubbleUp_rel (h : Rel d s t) (pos mp : Nat) : RelR (RelP d) (bubbleUp s pos mp) (bubbleUp t pos mp) := by
  apply h.elim; intro m hp q z n₁ n₂ hd
  simp only [bubbleUp]
  tf_frame_using [bubbleUpLoop_rel _ (by tf_rel_done) _ _]

theorem upHeapify_rel (h : Rel d s t) (i : Nat) : RelR (Rel d) (upHeapify s i) (upHeapify t i) := by
  apply h.elim; intro m hp q z n₁ n₂ hd
  simp only [upHeapify]
  tf_frame_using [bubbleUp_rel (by tf_rel_done) _ _, heapify_rel (by tf_rel_done) _]

theorem heapBuildLoop_rel (h : Rel d s t) (k : Nat) : RelR (Rel d) (heapBuildLoop s k) (heapBuildLoop t k) := by
  induction k generalizing s t with
  | zero => simp only [heapBuildLoop]; exact heapify_rel h 0
  | succ n ih =>
    simp only [heapBuildLoop]
    tf_frame_using [heapify_rel h _, ih (by tf_rel_done)]

theorem heapBuild_rel (h : Rel d s t) : RelR (Rel d) (heapBuild s) (heapBuild t) := by
  apply h.elim; intro m hp q z n₁ n₂ hd
  simp only [heapBuild]
  tf_frame_using [heapBuildLoop_rel (by tf_rel_done) _]

theorem peek_rel (h : Rel d s t) : peek s = peek t := by
  apply h.elim; intro m hp q z n₁ n₂ hd
  rfl

theorem peekMutWrite_rel (h : Rel d s t) (w : Item → Item) : RelR (RelP d) (peekMutWrite s w) (peekMutWrite t w) := by
  apply h.elim; intro m hp q z n₁ n₂ hd
  simp only [peekMutWrite]
  tf_frame

theorem pop_rel (h : Rel d s t) : RelR (RelP d) (pop s) (pop t) := by
  apply h.elim; intro m hp q z n₁ n₂ hd
  simp only [pop]
  tf_frame_using [swapRemove_rel (by tf_rel_done) _, heapify_rel (by tf_rel_done) _]

theorem popIf_rel (h : Rel d s t) (f : Item → P → Bool × Item × P) : RelR (RelP d) (popIf s f) (popIf t f) := by
  apply h.elim; intro m hp q z n₁ n₂ hd
  simp only [popIf]
  tf_frame_using [swapRemoveIf_rel (by tf_rel_done) _ _, heapify_rel (by tf_rel_done) _]

theorem push_rel (h : Rel d s t) (it : Item) (p : P) : RelR (RelP d) (push s it p) (push t it p) := by
  apply h.elim; intro m hp q z n₁ n₂ hd
  simp only [push]
  tf_frame_using [upHeapify_rel (by tf_rel_done) _, bubbleUp_rel (by tf_rel_done) _ _]

theorem pushIncrease_rel (h : Rel d s t) (it : Item) (p : P) :
    RelR (RelP d) (pushIncrease s it p) (pushIncrease t it p) := by
  apply h.elim; intro m hp q z n₁ n₂ hd
  simp only [pushIncrease, Store.getPriority, Store.tick]
  tf_frame_using [push_rel (by tf_rel_done) _ _]

theorem pushDecrease_rel (h : Rel d s t) (it : Item) (p : P) :
    RelR (RelP d) (pushDecrease s it p) (pushDecrease t it p) := by
  apply h.elim; intro m hp q z n₁ n₂ hd
  simp only [pushDecrease, Store.getPriority, Store.tick]
  tf_frame_using [push_rel (by tf_rel_done) _ _]

theorem changePriority_rel (h : Rel d s t) (k : Nat) (p : P) :
    RelR (RelP d) (changePriority s k p) (changePriority t k p) := by
  simp only [changePriority]
  tf_frame_using [TickFrame.changePriority_rel h _ _, upHeapify_rel (by tf_rel_done) _]

theorem changePriorityBy_rel (h : Rel d s t) (k : Nat) (g : P → P) :
    RelR (RelP d) (changePriorityBy s k g) (changePriorityBy t k g) := by
  simp only [changePriorityBy]
  tf_frame_using [TickFrame.changePriorityBy_rel h _ _, upHeapify_rel (by tf_rel_done) _]

theorem remove_rel (h : Rel d s t) (k : Nat) : RelR (RelP d) (remove s k) (remove t k) := by
  simp only [remove]
  tf_frame_using [TickFrame.remove_rel h _, upHeapify_rel (by tf_rel_done) _]

theorem retainMut_rel (h : Rel d s t) (f : Item → P → Bool × Item × P) :
    RelR (Rel d) (retainMut s f) (retainMut t f) :=
  heapBuild_rel (TickFrame.retainMut_rel h f)

/-- `append`: both pairs related -/
theorem append_rel {o o' : Store P} (h : Rel d s t) (ho : Rel d o o') :
    RelR (RelSS d) (append s o) (append t o') := by
  have := TickFrame.append_rel h ho
  simp only [append]
  generalize s.append o = x at this
  generalize t.append o' = y at this
  obtain ⟨x1, x2⟩ := x
  obtain ⟨y1, y2⟩ := y
  obtain ⟨h1, h2⟩ := this
  refine RelR.bind (heapBuild_rel h1) fun a b hab => ?_
  exact RelR.pure ⟨hab, h2⟩

theorem ofStore_rel (h : Rel d s t) : RelR (Rel d) (ofStore s) (ofStore t) := heapBuild_rel h

theorem pushAll_rel (es : List (Item × P)) (h : Rel d s t) : RelR (Rel d) (pushAll es s) (pushAll es t) := by
  induction es generalizing s t with
  | nil => exact RelR.pure h
  | cons e es ih =>
    simp only [pushAll]
    tf_frame_using [push_rel h _ _, ih (by tf_rel_done)]

theorem extend_rel (h : Rel d s t) (lo : Nat) (xs : Array (Item × P)) :
    RelR (Rel d) (extend s lo xs) (extend t lo xs) := by
  have hz : s.size = t.size := h.1.2.2.2
  simp only [extend, ← hz]
  tf_frame_using [heapBuild_rel (TickFrame.extend_rel h _), pushAll_rel _ h]

theorem drainSorted_rel (fuel : Nat) (h : Rel d s t) : drainSorted fuel s = drainSorted fuel t := by
  rw [← RelR.eq_iff]
  induction fuel generalizing s t with
  | zero => exact RelR.error _
  | succ n ih =>
    simp only [drainSorted]
    tf_frame_using [pop_rel h, ih (by tf_rel_done)]

theorem intoSortedVec_rel (h : Rel d s t) : intoSortedVec s = intoSortedVec t := by
  have hz : s.size = t.size := h.1.2.2.2
  simp only [intoSortedVec, ← hz]
  exact drainSorted_rel _ h

end MaxQ

/-! ## DQ -/
namespace DQ
open PQ.DQ
variable [LT P] [DecidableLT P] [TickRel d] {s t : Store P}

theorem candidates_go_rel (h : Rel d s t) (l : List Nat) : candidates.go s l = candidates.go t l := by
  apply h.elim; intro m hp q z n₁ n₂ hd
  induction l with
  | nil => rfl
  | cons c cs ih => simp only [candidates.go, ih]

theorem candidates_rel (h : Rel d s t) (i : Nat) : candidates s i = candidates t i :=
  candidates_go_rel h _

theorem heapifyMinLoop_rel (fuel : Nat) (h : Rel d s t) (i : Nat) :
    RelR (Rel d) (heapifyMinLoop fuel s i) (heapifyMinLoop fuel t i) := by
  induction fuel generalizing s t i with
  | zero => exact RelR.error _
  | succ n ih =>
    apply h.elim; intro m hp q z n₁ n₂ hd
    have hc := candidates_rel (Rel.mk' hd : Rel d (⟨m, hp, q, z, n₁⟩ : Store P) ⟨m, hp, q, z, n₂⟩) i
    simp only [heapifyMinLoop, hc, Store.prioAt, Store.tick]
    tf_frame_using [swap_rel (by tf_rel_done) _ _,
      RelR.ite (fun _ => swap_rel (by tf_rel_done) _ _) (fun _ => RelR.pure (by tf_rel_done)), ih (by tf_rel_done) _]

theorem heapifyMaxLoop_rel (fuel : Nat) (h : Rel d s t) (i : Nat) :
    RelR (Rel d) (heapifyMaxLoop fuel s i) (heapifyMaxLoop fuel t i) := by
  induction fuel generalizing s t i with
  | zero => exact RelR.error _
  | succ n ih =>
    apply h.elim; intro m hp q z n₁ n₂ hd
    have hc := candidates_rel (Rel.mk' hd : Rel d (⟨m, hp, q, z, n₁⟩ : Store P) ⟨m, hp, q, z, n₂⟩) i
    simp only [heapifyMaxLoop, hc, Store.prioAt, Store.tick]
    tf_frame_using [swap_rel (by tf_rel_done) _ _,
      RelR.ite (fun _ => swap_rel (by tf_rel_done) _ _) (fun _ => RelR.pure (by tf_rel_done)), ih (by tf_rel_done) _]

theorem heapify_rel (h : Rel d s t) (i : Nat) : RelR (Rel d) (heapify s i) (heapify t i) := by
  apply h.elim; intro m hp q z n₁ n₂ hd
  simp only [heapify]
  tf_frame_using [heapifyMinLoop_rel _ (by tf_rel_done) _, heapifyMaxLoop_rel _ (by tf_rel_done) _]

theorem bubbleUpMinLoop_rel (fuel : Nat) (h : Rel d s t) (pos : Nat) (p : P) :
    RelR (RelP d) (bubbleUpMinLoop fuel s pos p) (bubbleUpMinLoop fuel t pos p) := by
  induction fuel generalizing s t pos with
  | zero => exact RelR.error _
  | succ n ih =>
    apply h.elim; intro m hp q z n₁ n₂ hd
    simp only [bubbleUpMinLoop, Store.prioAt, Store.tick]
    tf_frame_using [ih (by tf_rel_done) _]

theorem bubbleUpMaxLoop_rel (fuel : Nat) (h : Rel d s t) (pos : Nat) (p : P) :
    RelR (RelP d) (bubbleUpMaxLoop fuel s pos p) (bubbleUpMaxLoop fuel t pos p) := by
  induction fuel generalizing s t pos with
  | zero => exact RelR.error _
  | succ n ih =>
    apply h.elim; intro m hp q z n₁ n₂ hd
    simp only [bubbleUpMaxLoop, Store.prioAt, Store.tick]
    tf_frame_using [ih (by tf_rel_done) _]

theorem bubbleUpMin_rel (h : Rel d s t) (pos mp : Nat) :
    RelR (RelP d) (bubbleUpMin s pos mp) (bubbleUpMin t pos mp) := by
  apply h.elim; intro m hp q z n₁ n₂ hd
  simp only [bubbleUpMin]
  tf_frame_using [bubbleUpMinLoop_rel _ (by tf_rel_done) _ _]

theorem bubbleUpMax_rel (h : Rel d s t) (pos mp : Nat) :
    RelR (RelP d) (bubbleUpMax s pos mp) (bubbleUpMax t pos mp) := by
  apply h.elim; intro m hp q z n₁ n₂ hd
  simp only [bubbleUpMax]
  tf_frame_using [bubbleUpMaxLoop_rel _ (by tf_rel_done) _ _]

theorem bubbleUp_rel (h : Rel d s t) (pos mp : Nat) : RelR (RelP d) (bubbleUp s pos mp) (bubbleUp t pos mp) := by
  apply h.elim; intro m hp q z n₁ n₂ hd
  simp only [bubbleUp, Store.prioAt, Store.tick]
  tf_frame_using [bubbleUpMin_rel (by tf_rel_done) _ _, bubbleUpMax_rel (by tf_rel_done) _ _, RelR.pure (by tf_rel_done)]

theorem upHeapify_rel (h : Rel d s t) (i : Nat) : RelR (Rel d) (upHeapify s i) (upHeapify t i) := by
  apply h.elim; intro m hp q z n₁ n₂ hd
  simp only [upHeapify]
  tf_frame_using [bubbleUp_rel (by tf_rel_done) _ _,
    RelR.ite (fun _ => heapify_rel (by tf_rel_done) _) (fun _ => RelR.pure (by tf_rel_done)), heapify_rel (by tf_rel_done) _]

theorem heapBuildLoop_rel (h : Rel d s t) (k : Nat) : RelR (Rel d) (heapBuildLoop s k) (heapBuildLoop t k) := by
  induction k generalizing s t with
  | zero => simp only [heapBuildLoop]; exact heapify_rel h 0
  | succ n ih =>
    simp only [heapBuildLoop]
    tf_frame_using [heapify_rel h _, ih (by tf_rel_done)]

theorem heapBuild_rel (h : Rel d s t) : RelR (Rel d) (heapBuild s) (heapBuild t) := by
  apply h.elim; intro m hp q z n₁ n₂ hd
  simp only [heapBuild]
  tf_frame_using [heapBuildLoop_rel (by tf_rel_done) _]

theorem findMin_rel (h : Rel d s t) : findMin s = findMin t := by
  apply h.elim; intro m hp q z n₁ n₂ hd
  rfl

theorem findMax_rel (h : Rel d s t) : RelR (RelP d) (findMax s) (findMax t) := by
  apply h.elim; intro m hp q z n₁ n₂ hd
  simp only [findMax, Store.prioAt, Store.tick]
  tf_frame

theorem entryAt_rel (h : Rel d s t) (pos site : Nat) : entryAt s pos site = entryAt t pos site := by
  apply h.elim; intro m hp q z n₁ n₂ hd
  rfl

theorem peekMin_rel (h : Rel d s t) : peekMin s = peekMin t := by
  apply h.elim; intro m hp q z n₁ n₂ hd
  rfl

theorem peekMax_rel (h : Rel d s t) : RelR (RelP d) (peekMax s) (peekMax t) := by
  simp only [peekMax, entryAt]
  tf_frame_using [findMax_rel h]

theorem peekMinMutWrite_rel (h : Rel d s t) (w : Item → Item) :
    RelR (RelP d) (peekMinMutWrite s w) (peekMinMutWrite t w) := by
  apply h.elim; intro m hp q z n₁ n₂ hd
  by_cases hz : z = 0 <;> simp only [peekMinMutWrite, findMin, hz, if_true, if_false]
  all_goals tf_frame

theorem peekMaxMutWrite_rel (h : Rel d s t) (w : Item → Item) :
    RelR (RelP d) (peekMaxMutWrite s w) (peekMaxMutWrite t w) := by
  simp only [peekMaxMutWrite]
  tf_frame_using [findMax_rel h]

theorem popMin_rel (h : Rel d s t) : RelR (RelP d) (popMin s) (popMin t) := by
  apply h.elim; intro m hp q z n₁ n₂ hd
  by_cases hz : z = 0 <;> simp only [popMin, findMin, hz, if_true, if_false]
  all_goals tf_frame_using [swapRemove_rel (by tf_rel_done) _, heapify_rel (by tf_rel_done) _]

theorem popMax_rel (h : Rel d s t) : RelR (RelP d) (popMax s) (popMax t) := by
  simp only [popMax]
  tf_frame_using [findMax_rel h, swapRemove_rel (by tf_rel_done) _, heapify_rel (by tf_rel_done) _]

theorem popMinIf_rel (h : Rel d s t) (f : Item → P → Bool × Item × P) :
    RelR (RelP d) (popMinIf s f) (popMinIf t f) := by
  apply h.elim; intro m hp q z n₁ n₂ hd
  by_cases hz : z = 0 <;> simp only [popMinIf, findMin, hz, if_true, if_false]
  all_goals tf_frame_using [swapRemoveIf_rel (by tf_rel_done) _ _, heapify_rel (by tf_rel_done) _]

theorem popMaxIf_rel (h : Rel d s t) (f : Item → P → Bool × Item × P) :
    RelR (RelP d) (popMaxIf s f) (popMaxIf t f) := by
  simp only [popMaxIf]
  tf_frame_using [findMax_rel h, swapRemoveIf_rel (by tf_rel_done) _ _, upHeapify_rel (by tf_rel_done) _]

theorem push_rel (h : Rel d s t) (it : Item) (p : P) : RelR (RelP d) (push s it p) (push t it p) := by
  apply h.elim; intro m hp q z n₁ n₂ hd
  simp only [push]
  tf_frame_using [upHeapify_rel (by tf_rel_done) _, bubbleUp_rel (by tf_rel_done) _ _]

theorem pushIncrease_rel (h : Rel d s t) (it : Item) (p : P) :
    RelR (RelP d) (pushIncrease s it p) (pushIncrease t it p) := by
  apply h.elim; intro m hp q z n₁ n₂ hd
  simp only [pushIncrease, Store.getPriority, Store.tick]
  tf_frame_using [push_rel (by tf_rel_done) _ _]

theorem pushDecrease_rel (h : Rel d s t) (it : Item) (p : P) :
    RelR (RelP d) (pushDecrease s it p) (pushDecrease t it p) := by
  apply h.elim; intro m hp q z n₁ n₂ hd
  simp only [pushDecrease, Store.getPriority, Store.tick]
  tf_frame_using [push_rel (by tf_rel_done) _ _]

theorem changePriority_rel (h : Rel d s t) (k : Nat) (p : P) :
    RelR (RelP d) (changePriority s k p) (changePriority t k p) := by
  simp only [changePriority]
  tf_frame_using [TickFrame.changePriority_rel h _ _, upHeapify_rel (by tf_rel_done) _]

theorem changePriorityBy_rel (h : Rel d s t) (k : Nat) (g : P → P) :
    RelR (RelP d) (changePriorityBy s k g) (changePriorityBy t k g) := by
  simp only [changePriorityBy]
  tf_frame_using [TickFrame.changePriorityBy_rel h _ _, upHeapify_rel (by tf_rel_done) _]

theorem remove_rel (h : Rel d s t) (k : Nat) : RelR (RelP d) (remove s k) (remove t k) := by
  simp only [remove]
  tf_frame_using [TickFrame.remove_rel h _, upHeapify_rel (by tf_rel_done) _]

theorem retainMut_rel (h : Rel d s t) (f : Item → P → Bool × Item × P) :
    RelR (Rel d) (retainMut s f) (retainMut t f) :=
  heapBuild_rel (TickFrame.retainMut_rel h f)

/-- `append`: both pairs related -/
theorem append_rel {o o' : Store P} (h : Rel d s t) (ho : Rel d o o') :
    RelR (RelSS d) (append s o) (append t o') := by
  have := TickFrame.append_rel h ho
  simp only [append]
  generalize s.append o = x at this
  generalize t.append o' = y at this
  obtain ⟨x1, x2⟩ := x
  obtain ⟨y1, y2⟩ := y
  obtain ⟨h1, h2⟩ := this
  refine RelR.bind (heapBuild_rel h1) fun a b hab => ?_
  exact RelR.pure ⟨hab, h2⟩

theorem ofStore_rel (h : Rel d s t) : RelR (Rel d) (ofStore s) (ofStore t) := heapBuild_rel h

theorem pushAll_rel (es : List (Item × P)) (h : Rel d s t) : RelR (Rel d) (pushAll es s) (pushAll es t) := by
  induction es generalizing s t with
  | nil => exact RelR.pure h
  | cons e es ih =>
    simp only [pushAll]
    tf_frame_using [push_rel h _ _, ih (by tf_rel_done)]

theorem extend_rel (h : Rel d s t) (lo : Nat) (xs : Array (Item × P)) :
    RelR (Rel d) (extend s lo xs) (extend t lo xs) := by
  have hz : s.size = t.size := h.1.2.2.2
  simp only [extend, ← hz]
  tf_frame_using [heapBuild_rel (TickFrame.extend_rel h _), pushAll_rel _ h]

theorem sortedCalls_rel (bs : List Bool) (h : Rel d s t) :
    RelR (RelQ d) (sortedCalls bs s) (sortedCalls bs t) := by
  induction bs generalizing s t with
  | nil => exact RelR.pure ⟨rfl, h⟩
  | cons b bs ih =>
    simp only [sortedCalls]
    tf_frame_using [popMax_rel h, popMin_rel h, ih (by tf_rel_done)]

theorem drainAsc_rel (fuel : Nat) (h : Rel d s t) : drainAsc fuel s = drainAsc fuel t := by
  rw [← RelR.eq_iff]
  induction fuel generalizing s t with
  | zero => exact RelR.error _
  | succ n ih =>
    simp only [drainAsc]
    tf_frame_using [popMin_rel h, ih (by tf_rel_done)]

theorem drainDesc_rel (fuel : Nat) (h : Rel d s t) : drainDesc fuel s = drainDesc fuel t := by
  rw [← RelR.eq_iff]
  induction fuel generalizing s t with
  | zero => exact RelR.error _
  | succ n ih =>
    simp only [drainDesc]
    tf_frame_using [popMax_rel h, ih (by tf_rel_done)]

theorem intoAscendingSortedVec_rel (h : Rel d s t) : intoAscendingSortedVec s = intoAscendingSortedVec t := by
  have hz : s.size = t.size := h.1.2.2.2
  simp only [intoAscendingSortedVec, ← hz]
  exact drainAsc_rel _ h

theorem intoDescendingSortedVec_rel (h : Rel d s t) : intoDescendingSortedVec s = intoDescendingSortedVec t := by
  have hz : s.size = t.size := h.1.2.2.2
  simp only [intoDescendingSortedVec, ← hz]
  exact drainDesc_rel _ h

end DQ

/-! ## Ops: histories -/
section OpsLevel
variable [LT P] [DecidableLT P]

theorem heapBuildK_rel [TickRel d] {s t : Store P} (kind : Kind) (h : Rel d s t) :
    RelR (Rel d) (heapBuildK kind s) (heapBuildK kind t) := by
  cases kind
  · exact MaxQ.heapBuild_rel h
  · exact DQ.heapBuild_rel h

private theorem step_lit_push (k : Kind) (m : IMap P) (hp q : Array Nat) (z n₁ n₂ : Nat) {it} {p} :
    RelR QOut (step ⟨k, ⟨m, hp, q, z, n₁⟩⟩ ((.push it p) : Op P)) (step ⟨k, ⟨m, hp, q, z, n₂⟩⟩ (.push it p)) := by
  have hd : anyT n₁ n₂ := trivial
  cases k <;> simp only [step] <;> tf_frame_using [MaxQ.push_rel (by tf_rel_done) _ _, DQ.push_rel (by tf_rel_done) _ _]

private theorem step_lit_pushIncrease (k : Kind) (m : IMap P) (hp q : Array Nat) (z n₁ n₂ : Nat) {it} {p} :
    RelR QOut (step ⟨k, ⟨m, hp, q, z, n₁⟩⟩ ((.pushIncrease it p) : Op P)) (step ⟨k, ⟨m, hp, q, z, n₂⟩⟩ (.pushIncrease it p)) := by
  have hd : anyT n₁ n₂ := trivial
  cases k <;> simp only [step] <;>
    tf_frame_using [MaxQ.pushIncrease_rel (by tf_rel_done) _ _, DQ.pushIncrease_rel (by tf_rel_done) _ _]

private theorem step_lit_pushDecrease (k : Kind) (m : IMap P) (hp q : Array Nat) (z n₁ n₂ : Nat) {it} {p} :
    RelR QOut (step ⟨k, ⟨m, hp, q, z, n₁⟩⟩ ((.pushDecrease it p) : Op P)) (step ⟨k, ⟨m, hp, q, z, n₂⟩⟩ (.pushDecrease it p)) := by
  have hd : anyT n₁ n₂ := trivial
  cases k <;> simp only [step] <;>
    tf_frame_using [MaxQ.pushDecrease_rel (by tf_rel_done) _ _, DQ.pushDecrease_rel (by tf_rel_done) _ _]

private theorem step_lit_changePriority (k : Kind) (m : IMap P) (hp q : Array Nat) (z n₁ n₂ : Nat) {k'} {p} :
    RelR QOut (step ⟨k, ⟨m, hp, q, z, n₁⟩⟩ ((.changePriority k' p) : Op P)) (step ⟨k, ⟨m, hp, q, z, n₂⟩⟩ (.changePriority k' p)) := by
  have hd : anyT n₁ n₂ := trivial
  cases k <;> simp only [step] <;>
    tf_frame_using [MaxQ.changePriority_rel (by tf_rel_done) _ _, DQ.changePriority_rel (by tf_rel_done) _ _]

private theorem step_lit_changePriorityBy (k : Kind) (m : IMap P) (hp q : Array Nat) (z n₁ n₂ : Nat) {k'} {g} :
    RelR QOut (step ⟨k, ⟨m, hp, q, z, n₁⟩⟩ ((.changePriorityBy k' g) : Op P)) (step ⟨k, ⟨m, hp, q, z, n₂⟩⟩ (.changePriorityBy k' g)) := by
  have hd : anyT n₁ n₂ := trivial
  cases k <;> simp only [step] <;>
    tf_frame_using [MaxQ.changePriorityBy_rel (by tf_rel_done) _ _, DQ.changePriorityBy_rel (by tf_rel_done) _ _]

private theorem step_lit_remove (k : Kind) (m : IMap P) (hp q : Array Nat) (z n₁ n₂ : Nat) {k'} :
    RelR QOut (step ⟨k, ⟨m, hp, q, z, n₁⟩⟩ ((.remove k') : Op P)) (step ⟨k, ⟨m, hp, q, z, n₂⟩⟩ (.remove k')) := by
  have hd : anyT n₁ n₂ := trivial
  cases k <;> simp only [step] <;> tf_frame_using [MaxQ.remove_rel (by tf_rel_done) _, DQ.remove_rel (by tf_rel_done) _]

private theorem step_lit_getMut (k : Kind) (m : IMap P) (hp q : Array Nat) (z n₁ n₂ : Nat) {k'} {w} :
    RelR QOut (step ⟨k, ⟨m, hp, q, z, n₁⟩⟩ ((.getMut k' w) : Op P)) (step ⟨k, ⟨m, hp, q, z, n₂⟩⟩ (.getMut k' w)) := by
  have hd : anyT n₁ n₂ := trivial
  have := getMutWrite_rel (Rel.mk' hd : Rel anyT (⟨m, hp, q, z, n₁⟩ : Store P) ⟨m, hp, q, z, n₂⟩) k' w
  simp only [step]
  generalize Store.getMutWrite (⟨m, hp, q, z, n₁⟩ : Store P) k' w = x at this
  generalize Store.getMutWrite (⟨m, hp, q, z, n₂⟩ : Store P) k' w = y at this
  obtain ⟨x1, x2⟩ := x
  obtain ⟨y1, y2⟩ := y
  obtain ⟨h1, h2⟩ := this
  simp only at h1 h2
  subst h2
  exact RelR.pure ⟨⟨rfl, Rel_any.1 h1⟩, rfl⟩

private theorem step_lit_popFront (k : Kind) (m : IMap P) (hp q : Array Nat) (z n₁ n₂ : Nat) :
    RelR QOut (step ⟨k, ⟨m, hp, q, z, n₁⟩⟩ (.popFront : Op P)) (step ⟨k, ⟨m, hp, q, z, n₂⟩⟩ .popFront) := by
  have hd : anyT n₁ n₂ := trivial
  cases k <;> simp only [step] <;> tf_frame_using [MaxQ.pop_rel (by tf_rel_done), DQ.popMin_rel (by tf_rel_done)]

private theorem step_lit_popBack (k : Kind) (m : IMap P) (hp q : Array Nat) (z n₁ n₂ : Nat) :
    RelR QOut (step ⟨k, ⟨m, hp, q, z, n₁⟩⟩ (.popBack : Op P)) (step ⟨k, ⟨m, hp, q, z, n₂⟩⟩ .popBack) := by
  have hd : anyT n₁ n₂ := trivial
  cases k <;> simp only [step] <;> tf_frame_using [DQ.popMax_rel (by tf_rel_done)]

private theorem step_lit_popFrontIf (k : Kind) (m : IMap P) (hp q : Array Nat) (z n₁ n₂ : Nat) {f} :
    RelR QOut (step ⟨k, ⟨m, hp, q, z, n₁⟩⟩ ((.popFrontIf f) : Op P)) (step ⟨k, ⟨m, hp, q, z, n₂⟩⟩ (.popFrontIf f)) := by
  have hd : anyT n₁ n₂ := trivial
  cases k <;> simp only [step] <;> tf_frame_using [MaxQ.popIf_rel (by tf_rel_done) _, DQ.popMinIf_rel (by tf_rel_done) _]

private theorem step_lit_popBackIf (k : Kind) (m : IMap P) (hp q : Array Nat) (z n₁ n₂ : Nat) {f} :
    RelR QOut (step ⟨k, ⟨m, hp, q, z, n₁⟩⟩ ((.popBackIf f) : Op P)) (step ⟨k, ⟨m, hp, q, z, n₂⟩⟩ (.popBackIf f)) := by
  have hd : anyT n₁ n₂ := trivial
  cases k <;> simp only [step] <;> tf_frame_using [DQ.popMaxIf_rel (by tf_rel_done) _]

private theorem step_lit_peekFrontMut (k : Kind) (m : IMap P) (hp q : Array Nat) (z n₁ n₂ : Nat) {w} :
    RelR QOut (step ⟨k, ⟨m, hp, q, z, n₁⟩⟩ ((.peekFrontMut w) : Op P)) (step ⟨k, ⟨m, hp, q, z, n₂⟩⟩ (.peekFrontMut w)) := by
  have hd : anyT n₁ n₂ := trivial
  cases k <;> simp only [step] <;>
    tf_frame_using [MaxQ.peekMutWrite_rel (by tf_rel_done) _, DQ.peekMinMutWrite_rel (by tf_rel_done) _]

private theorem step_lit_peekBackMut (k : Kind) (m : IMap P) (hp q : Array Nat) (z n₁ n₂ : Nat) {w} :
    RelR QOut (step ⟨k, ⟨m, hp, q, z, n₁⟩⟩ ((.peekBackMut w) : Op P)) (step ⟨k, ⟨m, hp, q, z, n₂⟩⟩ (.peekBackMut w)) := by
  have hd : anyT n₁ n₂ := trivial
  cases k <;> simp only [step] <;> tf_frame_using [DQ.peekMaxMutWrite_rel (by tf_rel_done) _]

private theorem step_lit_retainMut (k : Kind) (m : IMap P) (hp q : Array Nat) (z n₁ n₂ : Nat) {f} :
    RelR QOut (step ⟨k, ⟨m, hp, q, z, n₁⟩⟩ ((.retainMut f) : Op P)) (step ⟨k, ⟨m, hp, q, z, n₂⟩⟩ (.retainMut f)) := by
  have hd : anyT n₁ n₂ := trivial
  cases k <;> simp only [step] <;>
    tf_frame_using [MaxQ.retainMut_rel (by tf_rel_done) _, DQ.retainMut_rel (by tf_rel_done) _]

private theorem step_lit_iterMut (k : Kind) (m : IMap P) (hp q : Array Nat) (z n₁ n₂ : Nat) {leak} {prog} :
    RelR QOut (step ⟨k, ⟨m, hp, q, z, n₁⟩⟩ ((.iterMut leak prog) : Op P)) (step ⟨k, ⟨m, hp, q, z, n₂⟩⟩ (.iterMut leak prog)) := by
  have hd : anyT n₁ n₂ := trivial
  simp only [step]
  tf_frame_using [heapBuildK_rel _ (by tf_rel_done)]

private theorem step_lit_extend (k : Kind) (m : IMap P) (hp q : Array Nat) (z n₁ n₂ : Nat) {lo} {xs} :
    RelR QOut (step ⟨k, ⟨m, hp, q, z, n₁⟩⟩ ((.extend lo xs) : Op P)) (step ⟨k, ⟨m, hp, q, z, n₂⟩⟩ (.extend lo xs)) := by
  have hd : anyT n₁ n₂ := trivial
  cases k <;> simp only [step] <;>
    tf_frame_using [MaxQ.extend_rel (by tf_rel_done) _ _, DQ.extend_rel (by tf_rel_done) _ _]

private theorem step_lit_append (k : Kind) (m : IMap P) (hp q : Array Nat) (z n₁ n₂ : Nat) {o : Store P} :
    RelR QOut (step ⟨k, ⟨m, hp, q, z, n₁⟩⟩ ((.append o) : Op P)) (step ⟨k, ⟨m, hp, q, z, n₂⟩⟩ (.append o)) := by
  have hd : anyT n₁ n₂ := trivial
  have ho : Rel anyT o o := Rel_any.2 ⟨rfl, rfl, rfl, rfl⟩
  cases k <;> simp only [step] <;>
    tf_frame_using [MaxQ.append_rel (by tf_rel_done) ho, DQ.append_rel (by tf_rel_done) ho]
  -- the four lengths reported for the drained other queue do not involve the counter
  all_goals
    rename_i hoo
    obtain ⟨⟨h1, h2, h3, h4⟩, _⟩ := hoo
    rw [h1, h2, h3, h4]
    exact RelR.pure ⟨QSame.mk', rfl⟩

private theorem step_lit_fromVec (k : Kind) (m : IMap P) (hp q : Array Nat) (z n₁ n₂ : Nat) {xs} :
    RelR QOut (step ⟨k, ⟨m, hp, q, z, n₁⟩⟩ ((.fromVec xs) : Op P)) (step ⟨k, ⟨m, hp, q, z, n₂⟩⟩ (.fromVec xs)) := by
  have hd : anyT n₁ n₂ := trivial
  cases k <;> simp only [step] <;> tf_frame

private theorem step_lit_fromIter (k : Kind) (m : IMap P) (hp q : Array Nat) (z n₁ n₂ : Nat) {lo} {xs} :
    RelR QOut (step ⟨k, ⟨m, hp, q, z, n₁⟩⟩ ((.fromIter lo xs) : Op P)) (step ⟨k, ⟨m, hp, q, z, n₂⟩⟩ (.fromIter lo xs)) := by
  have hd : anyT n₁ n₂ := trivial
  cases k <;> simp only [step] <;> tf_frame

private theorem step_lit_deserialize (k : Kind) (m : IMap P) (hp q : Array Nat) (z n₁ n₂ : Nat) {hint} {xs} :
    RelR QOut (step ⟨k, ⟨m, hp, q, z, n₁⟩⟩ ((.deserialize hint xs) : Op P))
      (step ⟨k, ⟨m, hp, q, z, n₂⟩⟩ (.deserialize hint xs)) := by
  have hd : anyT n₁ n₂ := trivial
  cases k <;> simp only [step] <;> tf_frame

private theorem step_lit_convert (k : Kind) (m : IMap P) (hp q : Array Nat) (z n₁ n₂ : Nat) :
    RelR QOut (step ⟨k, ⟨m, hp, q, z, n₁⟩⟩ (.convert : Op P)) (step ⟨k, ⟨m, hp, q, z, n₂⟩⟩ .convert) := by
  have hd : anyT n₁ n₂ := trivial
  cases k <;> simp only [step] <;> tf_frame_using [MaxQ.ofStore_rel (by tf_rel_done), DQ.ofStore_rel (by tf_rel_done)]

private theorem step_lit_clear (k : Kind) (m : IMap P) (hp q : Array Nat) (z n₁ n₂ : Nat) :
    RelR QOut (step ⟨k, ⟨m, hp, q, z, n₁⟩⟩ (.clear : Op P)) (step ⟨k, ⟨m, hp, q, z, n₂⟩⟩ .clear) := by
  have hd : anyT n₁ n₂ := trivial
  simp only [step, Store.clear]; tf_frame

private theorem step_lit_drain (k : Kind) (m : IMap P) (hp q : Array Nat) (z n₁ n₂ : Nat) :
    RelR QOut (step ⟨k, ⟨m, hp, q, z, n₁⟩⟩ (.drain : Op P)) (step ⟨k, ⟨m, hp, q, z, n₂⟩⟩ .drain) := by
  have hd : anyT n₁ n₂ := trivial
  simp only [step, Store.drain]; tf_frame

private theorem step_lit_capacityOp (k : Kind) (m : IMap P) (hp q : Array Nat) (z n₁ n₂ : Nat) :
    RelR QOut (step ⟨k, ⟨m, hp, q, z, n₁⟩⟩ (.capacityOp : Op P)) (step ⟨k, ⟨m, hp, q, z, n₂⟩⟩ .capacityOp) := by
  have hd : anyT n₁ n₂ := trivial
  simp only [step]; tf_frame

/-- one public operation: same fault or same output, and the resulting queues again agree up to the counter -/
theorem step_same {q r : Q P} (h : QSame q r) (op : Op P) : RelR QOut (step q op) (step r op) := by
  obtain ⟨k, s⟩ := q
  obtain ⟨k', t⟩ := r
  obtain ⟨hk, hs⟩ := h
  simp only at hk hs
  subst hk
  have hs' : Rel anyT s t := Rel_any.2 hs
  clear hs
  apply hs'.elim; intro m hp q z n₁ n₂ hd
  cases op with
  | push it p => exact step_lit_push _ _ _ _ _ _ _
  | pushIncrease it p => exact step_lit_pushIncrease _ _ _ _ _ _ _
  | pushDecrease it p => exact step_lit_pushDecrease _ _ _ _ _ _ _
  | changePriority k' p => exact step_lit_changePriority _ _ _ _ _ _ _
  | changePriorityBy k' g => exact step_lit_changePriorityBy _ _ _ _ _ _ _
  | remove k' => exact step_lit_remove _ _ _ _ _ _ _
  | getMut k' w => exact step_lit_getMut _ _ _ _ _ _ _
  | popFront => exact step_lit_popFront _ _ _ _ _ _ _
  | popBack => exact step_lit_popBack _ _ _ _ _ _ _
  | popFrontIf f => exact step_lit_popFrontIf _ _ _ _ _ _ _
  | popBackIf f => exact step_lit_popBackIf _ _ _ _ _ _ _
  | peekFrontMut w => exact step_lit_peekFrontMut _ _ _ _ _ _ _
  | peekBackMut w => exact step_lit_peekBackMut _ _ _ _ _ _ _
  | retainMut f => exact step_lit_retainMut _ _ _ _ _ _ _
  | iterMut leak prog => exact step_lit_iterMut _ _ _ _ _ _ _
  | extend lo xs => exact step_lit_extend _ _ _ _ _ _ _
  | append xs => exact step_lit_append _ _ _ _ _ _ _
  | fromVec xs => exact step_lit_fromVec _ _ _ _ _ _ _
  | fromIter lo xs => exact step_lit_fromIter _ _ _ _ _ _ _
  | deserialize hint xs => exact step_lit_deserialize _ _ _ _ _ _ _
  | convert => exact step_lit_convert _ _ _ _ _ _ _
  | clear => exact step_lit_clear _ _ _ _ _ _ _
  | drain => exact step_lit_drain _ _ _ _ _ _ _
  | capacityOp => exact step_lit_capacityOp _ _ _ _ _ _ _

/-- a history: same fault or same outputs, and the resulting queues agree up to the counter -/
theorem run_same {q r : Q P} (h : QSame q r) (ops : List (Op P)) : RelR QOuts (run q ops) (run r ops) := by
  induction ops generalizing q r with
  | nil => exact RelR.pure ⟨h, rfl⟩
  | cons op ops ih =>
    simp only [run]
    refine RelR.bind (step_same h op) ?_
    rintro ⟨q1, o1⟩ ⟨r1, o2⟩ ⟨h1, h2⟩
    simp only at h1 h2
    subst h2
    refine RelR.bind (ih h1) ?_
    rintro ⟨q2, os1⟩ ⟨r2, os2⟩ ⟨h3, h4⟩
    simp only at h3 h4
    subst h4
    exact RelR.pure ⟨h3, rfl⟩

end OpsLevel

/-! ## The exact commutation law: `f (s.tick k) = mapOk (shift k) (f s)`

Instances of the laws above at `d := shiftT k`. -/
section Shift

/-- shift the counter of the store component -/
def tickP (k : Nat) (x : Store P × β) : Store P × β := (x.1.tick k, x.2)
def tickQ (k : Nat) (x : β × Store P) : β × Store P := (x.1, x.2.tick k)

theorem tick_rel (s : Store P) (k : Nat) : Rel (shiftT k) s (s.tick k) := Rel_shift.2 rfl

theorem RelP_shift {x y : Store P × β} {k : Nat} : RelP (shiftT k) x y ↔ y = tickP k x := by
  obtain ⟨x1, x2⟩ := x
  obtain ⟨y1, y2⟩ := y
  simp only [RelP, Rel_shift, tickP, Prod.mk.injEq, eq_comm]

theorem RelQ_shift {x y : β × Store P} {k : Nat} : RelQ (shiftT k) x y ↔ y = tickQ k x := by
  obtain ⟨x1, x2⟩ := x
  obtain ⟨y1, y2⟩ := y
  simp only [RelQ, Rel_shift, tickQ, Prod.mk.injEq, eq_comm]

theorem RelSS_shift {x y : Store P × Store P} {k : Nat} :
    RelSS (shiftT k) x y ↔ y = (x.1.tick k, x.2.tick k) := by
  obtain ⟨x1, x2⟩ := x
  obtain ⟨y1, y2⟩ := y
  simp only [RelSS, Rel_shift, Prod.mk.injEq]

theorem shiftS {k : Nat} {x y : R (Store P)} (h : RelR (Rel (shiftT k)) x y) : y = mapOk (·.tick k) x :=
  (RelR.mapOk_iff fun _ _ => Rel_shift).1 h
theorem shiftP {k : Nat} {x y : R (Store P × β)} (h : RelR (RelP (shiftT k)) x y) : y = mapOk (tickP k) x :=
  (RelR.mapOk_iff fun _ _ => RelP_shift).1 h
theorem shiftQ {k : Nat} {x y : R (β × Store P)} (h : RelR (RelQ (shiftT k)) x y) : y = mapOk (tickQ k) x :=
  (RelR.mapOk_iff fun _ _ => RelQ_shift).1 h
theorem shiftSS {k : Nat} {x y : R (Store P × Store P)} (h : RelR (RelSS (shiftT k)) x y) :
    y = mapOk (fun x => (x.1.tick k, x.2.tick k)) x :=
  (RelR.mapOk_iff fun _ _ => RelSS_shift).1 h

end Shift

section StoreTick

theorem swap_tick (s : Store P) (k : Nat) (a b : Nat) :
    Store.swap (s.tick k) a b = mapOk (·.tick k) (Store.swap s a b) :=
  shiftS (swap_rel (tick_rel s k) a b)

theorem prioAt_tick (s : Store P) (k : Nat) (pos : Nat) :
    Store.prioAt (s.tick k) pos = Store.prioAt s pos :=
  (prioAt_rel (tick_rel s k) pos).symm

theorem swapRemove_tick (s : Store P) (k : Nat) (pos : Nat) :
    Store.swapRemove (s.tick k) pos = mapOk (tickP k) (Store.swapRemove s pos) :=
  shiftP (swapRemove_rel (tick_rel s k) pos)

theorem retainMut_tick (s : Store P) (k : Nat) (f : Item → P → Bool × Item × P) :
    Store.retainMut (s.tick k) f = (Store.retainMut s f).tick k :=
  Rel_shift.1 (retainMut_rel (tick_rel s k) f)

theorem swapRemoveIf_tick (s : Store P) (k : Nat) (pos : Nat) (f : Item → P → Bool × Item × P) :
    Store.swapRemoveIf (s.tick k) pos f = mapOk (tickP k) (Store.swapRemoveIf s pos f) :=
  shiftP (swapRemoveIf_rel (tick_rel s k) pos f)

theorem changePriority_tick (s : Store P) (k : Nat) (key : Nat) (p : P) :
    Store.changePriority (s.tick k) key p = mapOk (tickP k) (Store.changePriority s key p) :=
  shiftP (changePriority_rel (tick_rel s k) key p)

theorem changePriorityBy_tick (s : Store P) (k : Nat) (key : Nat) (g : P → P) :
    Store.changePriorityBy (s.tick k) key g = mapOk (tickP k) (Store.changePriorityBy s key g) :=
  shiftP (changePriorityBy_rel (tick_rel s k) key g)

theorem getPriority_tick (s : Store P) (k : Nat) (key : Nat) :
    Store.getPriority (s.tick k) key = Store.getPriority s key :=
  (getPriority_rel (tick_rel s k) key).symm

theorem get_tick (s : Store P) (k : Nat) (key : Nat) :
    Store.get (s.tick k) key = Store.get s key :=
  (get_rel (tick_rel s k) key).symm

theorem getMutWrite_tick (s : Store P) (k : Nat) (key : Nat) (w : Item → Item) :
    Store.getMutWrite (s.tick k) key w = tickP k (Store.getMutWrite s key w) :=
  RelP_shift.1 (getMutWrite_rel (tick_rel s k) key w)

theorem remove_tick (s : Store P) (k : Nat) (key : Nat) :
    Store.remove (s.tick k) key = mapOk (tickP k) (Store.remove s key) :=
  shiftP (remove_rel (tick_rel s k) key)

theorem pushIfAbsent_tick (s : Store P) (k : Nat) (e : Item × P) :
    Store.pushIfAbsent (s.tick k) e = (Store.pushIfAbsent s e).tick k :=
  Rel_shift.1 (pushIfAbsent_rel (tick_rel s k) e)

theorem extendStep_tick (s : Store P) (k : Nat) (e : Item × P) :
    Store.extendStep (s.tick k) e = (Store.extendStep s e).tick k :=
  Rel_shift.1 (extendStep_rel (tick_rel s k) e)

theorem extend_tick (s : Store P) (k : Nat) (xs : Array (Item × P)) :
    Store.extend (s.tick k) xs = (Store.extend s xs).tick k :=
  Rel_shift.1 (extend_rel (tick_rel s k) xs)

theorem clear_tick (s : Store P) (k : Nat) :
    Store.clear (s.tick k) = (Store.clear s).tick k :=
  Rel_shift.1 (clear_rel (tick_rel s k))

theorem drain_tick (s : Store P) (k : Nat) :
    Store.drain (s.tick k) = tickQ k (Store.drain s) :=
  RelQ_shift.1 (drain_rel (tick_rel s k))

/-- `append`: shifting BOTH inputs by `k` shifts both outputs by `k` -/
theorem append_tick (s o : Store P) (k : Nat) :
    (s.tick k).append (o.tick k) = ((s.append o).1.tick k, (s.append o).2.tick k) :=
  RelSS_shift.1 (append_rel (tick_rel s k) (tick_rel o k))

/-- `append` with the receiver alone shifted: everything but the counters agrees -/
theorem append_tick_same (s o : Store P) (k : Nat) :
    Store.Same (s.append o).1 ((s.tick k).append o).1 ∧ Store.Same (s.append o).2 ((s.tick k).append o).2 :=
  let h := append_rel (d := anyT) (Rel_any.2 (tick_rel s k).1) (Rel_any.2 ⟨rfl, rfl, rfl, rfl⟩)
  ⟨Rel_any.1 h.1, Rel_any.1 h.2⟩

end StoreTick

namespace MaxQ
open PQ.MaxQ
variable [LT P] [DecidableLT P]

theorem pickLargest_tick (s : Store P) (k : Nat) (i : Nat) :
    pickLargest (s.tick k) i = mapOk (tickP k) (pickLargest s i) :=
  shiftP (pickLargest_rel (tick_rel s k) i)

theorem heapifyLoop_tick (fuel : Nat) (s : Store P) (k : Nat) (i : Nat) :
    heapifyLoop fuel (s.tick k) i = mapOk (·.tick k) (heapifyLoop fuel s i) :=
  shiftS (heapifyLoop_rel fuel (tick_rel s k) i)

theorem heapify_tick (s : Store P) (k : Nat) (i : Nat) :
    heapify (s.tick k) i = mapOk (·.tick k) (heapify s i) :=
  shiftS (heapify_rel (tick_rel s k) i)

theorem bubbleUpLoop_tick (fuel : Nat) (s : Store P) (k : Nat) (pos : Nat) (p : P) :
    bubbleUpLoop fuel (s.tick k) pos p = mapOk (tickP k) (bubbleUpLoop fuel s pos p) :=
  shiftP (bubbleUpLoop_rel fuel (tick_rel s k) pos p)

theorem bubbleUp_tick (s : Store P) (k : Nat) (pos mp : Nat) :
    bubbleUp (s.tick k) pos mp = mapOk (tickP k) (bubbleUp s pos mp) :=
  shiftP (bubbleUp_rel (tick_rel s k) pos mp)

theorem upHeapify_tick (s : Store P) (k : Nat) (i : Nat) :
    upHeapify (s.tick k) i = mapOk (·.tick k) (upHeapify s i) :=
  shiftS (upHeapify_rel (tick_rel s k) i)

theorem heapBuildLoop_tick (s : Store P) (k : Nat) (i : Nat) :
    heapBuildLoop (s.tick k) i = mapOk (·.tick k) (heapBuildLoop s i) :=
  shiftS (heapBuildLoop_rel (tick_rel s k) i)

theorem heapBuild_tick (s : Store P) (k : Nat) :
    heapBuild (s.tick k) = mapOk (·.tick k) (heapBuild s) :=
  shiftS (heapBuild_rel (tick_rel s k))

theorem peek_tick (s : Store P) (k : Nat) :
    peek (s.tick k) = peek s :=
  (peek_rel (tick_rel s k)).symm

theorem peekMutWrite_tick (s : Store P) (k : Nat) (w : Item → Item) :
    peekMutWrite (s.tick k) w = mapOk (tickP k) (peekMutWrite s w) :=
  shiftP (peekMutWrite_rel (tick_rel s k) w)

theorem pop_tick (s : Store P) (k : Nat) :
    pop (s.tick k) = mapOk (tickP k) (pop s) :=
  shiftP (pop_rel (tick_rel s k))

theorem popIf_tick (s : Store P) (k : Nat) (f : Item → P → Bool × Item × P) :
    popIf (s.tick k) f = mapOk (tickP k) (popIf s f) :=
  shiftP (popIf_rel (tick_rel s k) f)

theorem push_tick (s : Store P) (k : Nat) (it : Item) (p : P) :
    push (s.tick k) it p = mapOk (tickP k) (push s it p) :=
  shiftP (push_rel (tick_rel s k) it p)

theorem pushIncrease_tick (s : Store P) (k : Nat) (it : Item) (p : P) :
    pushIncrease (s.tick k) it p = mapOk (tickP k) (pushIncrease s it p) :=
  shiftP (pushIncrease_rel (tick_rel s k) it p)

theorem pushDecrease_tick (s : Store P) (k : Nat) (it : Item) (p : P) :
    pushDecrease (s.tick k) it p = mapOk (tickP k) (pushDecrease s it p) :=
  shiftP (pushDecrease_rel (tick_rel s k) it p)

theorem changePriority_tick (s : Store P) (k : Nat) (key : Nat) (p : P) :
    changePriority (s.tick k) key p = mapOk (tickP k) (changePriority s key p) :=
  shiftP (changePriority_rel (tick_rel s k) key p)

theorem changePriorityBy_tick (s : Store P) (k : Nat) (key : Nat) (g : P → P) :
    changePriorityBy (s.tick k) key g = mapOk (tickP k) (changePriorityBy s key g) :=
  shiftP (changePriorityBy_rel (tick_rel s k) key g)

theorem remove_tick (s : Store P) (k : Nat) (key : Nat) :
    remove (s.tick k) key = mapOk (tickP k) (remove s key) :=
  shiftP (remove_rel (tick_rel s k) key)

theorem retainMut_tick (s : Store P) (k : Nat) (f : Item → P → Bool × Item × P) :
    retainMut (s.tick k) f = mapOk (·.tick k) (retainMut s f) :=
  shiftS (retainMut_rel (tick_rel s k) f)

theorem ofStore_tick (s : Store P) (k : Nat) :
    ofStore (s.tick k) = mapOk (·.tick k) (ofStore s) :=
  shiftS (ofStore_rel (tick_rel s k))

theorem pushAll_tick (s : Store P) (k : Nat) (es : List (Item × P)) :
    pushAll es (s.tick k) = mapOk (·.tick k) (pushAll es s) :=
  shiftS (pushAll_rel es (tick_rel s k))

theorem extend_tick (s : Store P) (k : Nat) (lo : Nat) (xs : Array (Item × P)) :
    extend (s.tick k) lo xs = mapOk (·.tick k) (extend s lo xs) :=
  shiftS (extend_rel (tick_rel s k) lo xs)

theorem drainSorted_tick (fuel : Nat) (s : Store P) (k : Nat) :
    drainSorted fuel (s.tick k) = drainSorted fuel s :=
  (drainSorted_rel fuel (tick_rel s k)).symm

theorem intoSortedVec_tick (s : Store P) (k : Nat) :
    intoSortedVec (s.tick k) = intoSortedVec s :=
  (intoSortedVec_rel (tick_rel s k)).symm

/-- `append`: shifting BOTH inputs by `k` shifts both outputs by `k` -/
theorem append_tick (s o : Store P) (k : Nat) :
    append (s.tick k) (o.tick k) = mapOk (fun x => (x.1.tick k, x.2.tick k)) (append s o) :=
  shiftSS (append_rel (tick_rel s k) (tick_rel o k))

/-- `append` with the receiver alone shifted (the form `step` uses): same fault, or results that agree up to the counters -/
theorem append_tick_same (s o : Store P) (k : Nat) :
    RelR (fun x y => Store.Same x.1 y.1 ∧ Store.Same x.2 y.2) (append s o) (append (s.tick k) o) :=
  (append_rel (d := anyT) (Rel_any.2 (tick_rel s k).1) (Rel_any.2 ⟨rfl, rfl, rfl, rfl⟩)).mono
    fun _ _ h => ⟨Rel_any.1 h.1, Rel_any.1 h.2⟩

end MaxQ

namespace DQ
open PQ.DQ
variable [LT P] [DecidableLT P]

theorem candidates_tick (s : Store P) (k : Nat) (i : Nat) :
    candidates (s.tick k) i = candidates s i :=
  (candidates_rel (tick_rel s k) i).symm

theorem heapifyMinLoop_tick (fuel : Nat) (s : Store P) (k : Nat) (i : Nat) :
    heapifyMinLoop fuel (s.tick k) i = mapOk (·.tick k) (heapifyMinLoop fuel s i) :=
  shiftS (heapifyMinLoop_rel fuel (tick_rel s k) i)

theorem heapifyMaxLoop_tick (fuel : Nat) (s : Store P) (k : Nat) (i : Nat) :
    heapifyMaxLoop fuel (s.tick k) i = mapOk (·.tick k) (heapifyMaxLoop fuel s i) :=
  shiftS (heapifyMaxLoop_rel fuel (tick_rel s k) i)

theorem heapify_tick (s : Store P) (k : Nat) (i : Nat) :
    heapify (s.tick k) i = mapOk (·.tick k) (heapify s i) :=
  shiftS (heapify_rel (tick_rel s k) i)

theorem bubbleUpMinLoop_tick (fuel : Nat) (s : Store P) (k : Nat) (pos : Nat) (p : P) :
    bubbleUpMinLoop fuel (s.tick k) pos p = mapOk (tickP k) (bubbleUpMinLoop fuel s pos p) :=
  shiftP (bubbleUpMinLoop_rel fuel (tick_rel s k) pos p)

theorem bubbleUpMaxLoop_tick (fuel : Nat) (s : Store P) (k : Nat) (pos : Nat) (p : P) :
    bubbleUpMaxLoop fuel (s.tick k) pos p = mapOk (tickP k) (bubbleUpMaxLoop fuel s pos p) :=
  shiftP (bubbleUpMaxLoop_rel fuel (tick_rel s k) pos p)

theorem bubbleUpMin_tick (s : Store P) (k : Nat) (pos mp : Nat) :
    bubbleUpMin (s.tick k) pos mp = mapOk (tickP k) (bubbleUpMin s pos mp) :=
  shiftP (bubbleUpMin_rel (tick_rel s k) pos mp)

theorem bubbleUpMax_tick (s : Store P) (k : Nat) (pos mp : Nat) :
    bubbleUpMax (s.tick k) pos mp = mapOk (tickP k) (bubbleUpMax s pos mp) :=
  shiftP (bubbleUpMax_rel (tick_rel s k) pos mp)

theorem bubbleUp_tick (s : Store P) (k : Nat) (pos mp : Nat) :
    bubbleUp (s.tick k) pos mp = mapOk (tickP k) (bubbleUp s pos mp) :=
  shiftP (bubbleUp_rel (tick_rel s k) pos mp)

theorem upHeapify_tick (s : Store P) (k : Nat) (i : Nat) :
    upHeapify (s.tick k) i = mapOk (·.tick k) (upHeapify s i) :=
  shiftS (upHeapify_rel (tick_rel s k) i)

theorem heapBuildLoop_tick (s : Store P) (k : Nat) (i : Nat) :
    heapBuildLoop (s.tick k) i = mapOk (·.tick k) (heapBuildLoop s i) :=
  shiftS (heapBuildLoop_rel (tick_rel s k) i)

theorem heapBuild_tick (s : Store P) (k : Nat) :
    heapBuild (s.tick k) = mapOk (·.tick k) (heapBuild s) :=
  shiftS (heapBuild_rel (tick_rel s k))

theorem findMin_tick (s : Store P) (k : Nat) :
    findMin (s.tick k) = findMin s :=
  (findMin_rel (tick_rel s k)).symm

theorem findMax_tick (s : Store P) (k : Nat) :
    findMax (s.tick k) = mapOk (tickP k) (findMax s) :=
  shiftP (findMax_rel (tick_rel s k))

theorem entryAt_tick (s : Store P) (k : Nat) (pos site : Nat) :
    entryAt (s.tick k) pos site = entryAt s pos site :=
  (entryAt_rel (tick_rel s k) pos site).symm

theorem peekMin_tick (s : Store P) (k : Nat) :
    peekMin (s.tick k) = peekMin s :=
  (peekMin_rel (tick_rel s k)).symm

theorem peekMax_tick (s : Store P) (k : Nat) :
    peekMax (s.tick k) = mapOk (tickP k) (peekMax s) :=
  shiftP (peekMax_rel (tick_rel s k))

theorem peekMinMutWrite_tick (s : Store P) (k : Nat) (w : Item → Item) :
    peekMinMutWrite (s.tick k) w = mapOk (tickP k) (peekMinMutWrite s w) :=
  shiftP (peekMinMutWrite_rel (tick_rel s k) w)

theorem peekMaxMutWrite_tick (s : Store P) (k : Nat) (w : Item → Item) :
    peekMaxMutWrite (s.tick k) w = mapOk (tickP k) (peekMaxMutWrite s w) :=
  shiftP (peekMaxMutWrite_rel (tick_rel s k) w)

theorem popMin_tick (s : Store P) (k : Nat) :
    popMin (s.tick k) = mapOk (tickP k) (popMin s) :=
  shiftP (popMin_rel (tick_rel s k))

theorem popMax_tick (s : Store P) (k : Nat) :
    popMax (s.tick k) = mapOk (tickP k) (popMax s) :=
  shiftP (popMax_rel (tick_rel s k))

theorem popMinIf_tick (s : Store P) (k : Nat) (f : Item → P → Bool × Item × P) :
    popMinIf (s.tick k) f = mapOk (tickP k) (popMinIf s f) :=
  shiftP (popMinIf_rel (tick_rel s k) f)

theorem popMaxIf_tick (s : Store P) (k : Nat) (f : Item → P → Bool × Item × P) :
    popMaxIf (s.tick k) f = mapOk (tickP k) (popMaxIf s f) :=
  shiftP (popMaxIf_rel (tick_rel s k) f)

theorem push_tick (s : Store P) (k : Nat) (it : Item) (p : P) :
    push (s.tick k) it p = mapOk (tickP k) (push s it p) :=
  shiftP (push_rel (tick_rel s k) it p)

theorem pushIncrease_tick (s : Store P) (k : Nat) (it : Item) (p : P) :
    pushIncrease (s.tick k) it p = mapOk (tickP k) (pushIncrease s it p) :=
  shiftP (pushIncrease_rel (tick_rel s k) it p)

theorem pushDecrease_tick (s : Store P) (k : Nat) (it : Item) (p : P) :
    pushDecrease (s.tick k) it p = mapOk (tickP k) (pushDecrease s it p) :=
  shiftP (pushDecrease_rel (tick_rel s k) it p)

theorem changePriority_tick (s : Store P) (k : Nat) (key : Nat) (p : P) :
    changePriority (s.tick k) key p = mapOk (tickP k) (changePriority s key p) :=
  shiftP (changePriority_rel (tick_rel s k) key p)

theorem changePriorityBy_tick (s : Store P) (k : Nat) (key : Nat) (g : P → P) :
    changePriorityBy (s.tick k) key g = mapOk (tickP k) (changePriorityBy s key g) :=
  shiftP (changePriorityBy_rel (tick_rel s k) key g)

theorem remove_tick (s : Store P) (k : Nat) (key : Nat) :
    remove (s.tick k) key = mapOk (tickP k) (remove s key) :=
  shiftP (remove_rel (tick_rel s k) key)

theorem retainMut_tick (s : Store P) (k : Nat) (f : Item → P → Bool × Item × P) :
    retainMut (s.tick k) f = mapOk (·.tick k) (retainMut s f) :=
  shiftS (retainMut_rel (tick_rel s k) f)

theorem ofStore_tick (s : Store P) (k : Nat) :
    ofStore (s.tick k) = mapOk (·.tick k) (ofStore s) :=
  shiftS (ofStore_rel (tick_rel s k))

theorem pushAll_tick (s : Store P) (k : Nat) (es : List (Item × P)) :
    pushAll es (s.tick k) = mapOk (·.tick k) (pushAll es s) :=
  shiftS (pushAll_rel es (tick_rel s k))

theorem extend_tick (s : Store P) (k : Nat) (lo : Nat) (xs : Array (Item × P)) :
    extend (s.tick k) lo xs = mapOk (·.tick k) (extend s lo xs) :=
  shiftS (extend_rel (tick_rel s k) lo xs)

theorem sortedCalls_tick (s : Store P) (k : Nat) (bs : List Bool) :
    sortedCalls bs (s.tick k) = mapOk (tickQ k) (sortedCalls bs s) :=
  shiftQ (sortedCalls_rel bs (tick_rel s k))

theorem drainAsc_tick (fuel : Nat) (s : Store P) (k : Nat) :
    drainAsc fuel (s.tick k) = drainAsc fuel s :=
  (drainAsc_rel fuel (tick_rel s k)).symm

theorem drainDesc_tick (fuel : Nat) (s : Store P) (k : Nat) :
    drainDesc fuel (s.tick k) = drainDesc fuel s :=
  (drainDesc_rel fuel (tick_rel s k)).symm

theorem intoAscendingSortedVec_tick (s : Store P) (k : Nat) :
    intoAscendingSortedVec (s.tick k) = intoAscendingSortedVec s :=
  (intoAscendingSortedVec_rel (tick_rel s k)).symm

theorem intoDescendingSortedVec_tick (s : Store P) (k : Nat) :
    intoDescendingSortedVec (s.tick k) = intoDescendingSortedVec s :=
  (intoDescendingSortedVec_rel (tick_rel s k)).symm

/-- `append`: shifting BOTH inputs by `k` shifts both outputs by `k` -/
theorem append_tick (s o : Store P) (k : Nat) :
    append (s.tick k) (o.tick k) = mapOk (fun x => (x.1.tick k, x.2.tick k)) (append s o) :=
  shiftSS (append_rel (tick_rel s k) (tick_rel o k))

/-- `append` with the receiver alone shifted (the form `step` uses): same fault, or results that agree up to the counters -/
theorem append_tick_same (s o : Store P) (k : Nat) :
    RelR (fun x y => Store.Same x.1 y.1 ∧ Store.Same x.2 y.2) (append s o) (append (s.tick k) o) :=
  (append_rel (d := anyT) (Rel_any.2 (tick_rel s k).1) (Rel_any.2 ⟨rfl, rfl, rfl, rfl⟩)).mono
    fun _ _ h => ⟨Rel_any.1 h.1, Rel_any.1 h.2⟩

end DQ

/-! ## Final theorems -/
section Final
variable [LT P] [DecidableLT P]

/-- `heapBuildK` commutes with shifting the counter -/
theorem heapBuildK_tick (kind : Kind) (s : Store P) (k : Nat) :
    heapBuildK kind (s.tick k) = mapOk (·.tick k) (heapBuildK kind s) :=
  shiftS (heapBuildK_rel kind (tick_rel s k))

/-- The ghost counter has no influence on behaviour: two queues that differ in the counter only fault identically
on every history, and when they do not fault they produce the same outputs and end in queues that again differ in the
counter only.  (The exact shift law does NOT hold for `step`: `fromVec`/`fromIter`/`deserialize` install a store whose
counter does not depend on the old one, and `append` may keep the counter of the other store.) -/
theorem run_ticks_irrelevant (q r : Q P) (h : QSame q r) (ops : List (Op P)) :
    (∀ e, run q ops = .error e ↔ run r ops = .error e) ∧
    (∀ q' outs, run q ops = .ok (q', outs) → ∃ r', run r ops = .ok (r', outs) ∧ QSame q' r') := by
  have hr := run_same h ops
  refine ⟨fun e => hr.error_iff e, fun q' outs hq => ?_⟩
  obtain ⟨⟨r', outs'⟩, h1, h2, h3⟩ := hr.ok_left hq
  simp only at h2 h3
  subst h3
  exact ⟨r', h1, h2⟩

/-- the single-step form -/
theorem step_ticks_irrelevant (q r : Q P) (h : QSame q r) (op : Op P) :
    (∀ e, step q op = .error e ↔ step r op = .error e) ∧
    (∀ q' o, step q op = .ok (q', o) → ∃ r', step r op = .ok (r', o) ∧ QSame q' r') := by
  have hr := step_same h op
  refine ⟨fun e => hr.error_iff e, fun q' o hq => ?_⟩
  obtain ⟨⟨r', o'⟩, h1, h2, h3⟩ := hr.ok_left hq
  simp only at h2 h3
  subst h3
  exact ⟨r', h1, h2⟩

theorem drain_same_new (s : Store P) (k : Kind) : QSame ({ kind := k, s := (s.drain).2 } : Q P) (Q.new k) :=
  ⟨rfl, rfl, rfl, rfl, rfl⟩
theorem clear_same_new (s : Store P) (k : Kind) : QSame ({ kind := k, s := s.clear } : Q P) (Q.new k) :=
  ⟨rfl, rfl, rfl, rfl, rfl⟩

/-- the store left by `drain` / `clear` behaves like `Store.empty` for every later history -/
theorem drained_behaves_like_new (s : Store P) (k : Kind) (ops : List (Op P)) :
    (∀ q' outs, run { kind := k, s := (s.drain).2 } ops = .ok (q', outs) →
      ∃ r', run (Q.new k) ops = .ok (r', outs) ∧ QSame q' r') ∧
    (∀ q' outs, run { kind := k, s := s.clear } ops = .ok (q', outs) →
      ∃ r', run (Q.new k) ops = .ok (r', outs) ∧ QSame q' r') ∧
    (∀ e, run { kind := k, s := (s.drain).2 } ops = .error e ↔ run (Q.new k) ops = .error e) :=
  ⟨(run_ticks_irrelevant _ _ (drain_same_new s k) ops).2, (run_ticks_irrelevant _ _ (clear_same_new s k) ops).2,
    (run_ticks_irrelevant _ _ (drain_same_new s k) ops).1⟩

/-- the `clear` counterpart of the last component -/
theorem cleared_faults_like_new (s : Store P) (k : Kind) (ops : List (Op P)) (e : Fault) :
    run { kind := k, s := s.clear } ops = .error e ↔ run (Q.new k) ops = .error e :=
  (run_ticks_irrelevant _ _ (clear_same_new s k) ops).1 e

/-! ### non-vacuity: concrete related states with different counters, and a history on which the counter really moves -/

/-- a two-element max-queue and the same queue with `7` comparisons on the clock -/
def exQ : Q Nat :=
  { kind := .pq, s := { map := #[(⟨1, 0⟩, 5), (⟨2, 0⟩, 3)], heap := #[0, 1], qp := #[0, 1], size := 2, ticks := 0 } }
def exR : Q Nat := { exQ with s := exQ.s.tick 7 }

example : QSame exQ exR ∧ exQ.s.ticks ≠ exR.s.ticks := ⟨⟨rfl, rfl, rfl, rfl, rfl⟩, by decide⟩

/-- on this history the counters of both runs move (so the statement is not about a frozen field), stay different, and
the outputs agree -/
example :
    (match run exQ [.push ⟨3, 0⟩ 9, .popFront], run exR [.push ⟨3, 0⟩ 9, .popFront] with
      | .ok (q', _), .ok (r', _) =>
        decide (q'.s.ticks = 2 ∧ r'.s.ticks = 9 ∧ q'.s.map = r'.s.map ∧ q'.s.heap = r'.s.heap)
      | _, _ => false) = true := by decide +kernel

/-- a drained non-empty store with a used counter versus `Q.new` -/
example : QSame ({ kind := .dpq, s := (exR.s.drain).2 } : Q Nat) (Q.new .dpq) ∧ (exR.s.drain).2.ticks = 7 :=
  ⟨⟨rfl, rfl, rfl, rfl, rfl⟩, rfl⟩

/-- `Rel (shiftT k)` is inhabited by any store and its shift -/
example : Rel (shiftT 7) exQ.s exR.s := tick_rel _ _

end Final


#print axioms run_ticks_irrelevant
#print axioms drained_behaves_like_new

end PQ.TickFrame
