import PQ.Model.Ops
import PQ.Lemmas.WF
/-!
# The ghost comparison counter `Store.ticks` is write-only ("frame" laws)

For every function of the model that takes a store we prove that two runs from stores which agree on everything
but the counter stay in lock step: same fault or same outputs, and result stores that again agree on everything but
the counter.  The laws are proved once for a family of relations `Rel d` (`Store.Same` plus a relation `d` between the
two counters that is stable under adding the same amount on both sides); two instances are used:

* `d := anyT` (no constraint): `Rel anyT = Store.Same`, the relation needed for histories (`step`, `run`);
* `d := shiftT k` (`t.ticks = s.ticks + k`): `Rel (shiftT k) s t ↔ t = s.tick k`, the exact commutation law
  `f (s.tick k) a = mapOk (shift k) (f s a)`.

`Store.append` (two stores) satisfies the law when both pairs are related; with the receiver alone shifted only the
`Same` form holds (the result's counter is the counter of whichever store was larger), and that is the form `step` needs.
-/
set_option linter.unusedSimpArgs false
set_option linter.unusedVariables false
namespace PQ.TickFrame
open PQ

variable {P : Type} {α β γ δ : Type}

/-! ## results related up to a relation -/

def mapOk (f : α → β) : R α → R β
  | .ok a => .ok (f a)
  | .error e => .error e

/-- both fail with the same fault, or both succeed with related values -/
def RelR (r : α → β → Prop) : R α → R β → Prop
  | .ok a, .ok b => r a b
  | .error e, .error e' => e = e'
  | _, _ => False

theorem RelR.pure {r : α → β → Prop} {a : α} {b : β} (h : r a b) : RelR r (Pure.pure a) (Pure.pure b) := h
theorem RelR.ok {r : α → β → Prop} {a : α} {b : β} (h : r a b) : RelR r (.ok a) (.ok b) := h
theorem RelR.error {r : α → β → Prop} (e : Fault) : RelR r (.error e) (.error e) := rfl

theorem RelR.bind {r : α → β → Prop} {r' : γ → δ → Prop} {x : R α} {y : R β} {f : α → R γ} {g : β → R δ}
    (h : RelR r x y) (hfg : ∀ a b, r a b → RelR r' (f a) (g b)) : RelR r' (x >>= f) (y >>= g) := by
  cases x <;> cases y <;> simp only [RelR] at h
  · subst h; rfl
  · exact hfg _ _ h

theorem RelR.bind_same {r' : γ → δ → Prop} (x : R α) {f : α → R γ} {g : α → R δ}
    (hfg : ∀ a, RelR r' (f a) (g a)) : RelR r' (x >>= f) (x >>= g) := by
  cases x
  · rfl
  · exact hfg _

theorem RelR.mono {r r' : α → β → Prop} {x : R α} {y : R β} (h : RelR r x y) (hr : ∀ a b, r a b → r' a b) :
    RelR r' x y := by
  cases x <;> cases y <;> simp only [RelR] at h ⊢
  · exact h
  · exact hr _ _ h

theorem RelR.eq_iff {x y : R α} : RelR (· = ·) x y ↔ x = y := by
  cases x <;> cases y <;> simp [RelR]

theorem RelR.error_iff {r : α → β → Prop} {x : R α} {y : R β} (h : RelR r x y) (e : Fault) :
    x = .error e ↔ y = .error e := by
  cases x <;> cases y <;> simp only [RelR] at h
  · subst h; simp
  · simp

theorem RelR.ok_left {r : α → β → Prop} {x : R α} {y : R β} (h : RelR r x y) {a : α} (hx : x = .ok a) :
    ∃ b, y = .ok b ∧ r a b := by
  subst hx
  cases y <;> simp only [RelR] at h
  exact ⟨_, rfl, h⟩

theorem RelR.mapOk_iff {r : α → β → Prop} {x : R α} {y : R β} {f : α → β} (hr : ∀ a b, r a b ↔ b = f a) :
    RelR r x y ↔ y = mapOk f x := by
  cases x <;> cases y <;> simp [RelR, mapOk, hr, eq_comm]

/-! ## stores related up to the counter -/

/-- a relation between two counters that survives adding the same amount on both sides -/
class TickRel (d : Nat → Nat → Prop) : Prop where
  add : ∀ {a b : Nat} (n : Nat), d a b → d (a + n) (b + n)

/-- no constraint on the counters -/
def anyT : Nat → Nat → Prop := fun _ _ => True
/-- the second counter is the first one shifted by `k` -/
def shiftT (k : Nat) : Nat → Nat → Prop := fun a b => b = a + k

instance : TickRel anyT := ⟨fun _ _ => trivial⟩
instance (k : Nat) : TickRel (shiftT k) := ⟨fun n h => by simp only [shiftT] at h ⊢; omega⟩

/-- the two stores agree on everything but the counter, and the counters are related by `d` -/
def Rel (d : Nat → Nat → Prop) (s t : Store P) : Prop := Store.Same s t ∧ d s.ticks t.ticks

theorem Rel_any {s t : Store P} : Rel anyT s t ↔ Store.Same s t := by simp [Rel, anyT]

theorem Rel_shift {s t : Store P} {k : Nat} : Rel (shiftT k) s t ↔ t = s.tick k := by
  obtain ⟨m, hp, q, z, n₁⟩ := s
  obtain ⟨m', hp', q', z', n₂⟩ := t
  simp only [Rel, Store.Same, shiftT, Store.tick, Store.mk.injEq]
  constructor
  · rintro ⟨⟨rfl, rfl, rfl, rfl⟩, rfl⟩; exact ⟨rfl, rfl, rfl, rfl, rfl⟩
  · rintro ⟨rfl, rfl, rfl, rfl, rfl⟩; exact ⟨⟨rfl, rfl, rfl, rfl⟩, rfl⟩

variable {d : Nat → Nat → Prop}

theorem Rel.mk' {m : IMap P} {hp q : Array Nat} {z n₁ n₂ : Nat} (h : d n₁ n₂) :
    Rel d (⟨m, hp, q, z, n₁⟩ : Store P) ⟨m, hp, q, z, n₂⟩ := ⟨⟨rfl, rfl, rfl, rfl⟩, h⟩

theorem Rel.tick [TickRel d] {s t : Store P} (h : Rel d s t) (n : Nat) : Rel d (s.tick n) (t.tick n) :=
  ⟨h.1, TickRel.add n h.2⟩

/-- case analysis: related stores are literally the same record up to the last field -/
theorem Rel.elim {motive : Store P → Store P → Prop} {s t : Store P} (h : Rel d s t)
    (H : ∀ (m : IMap P) (hp q : Array Nat) (z n₁ n₂ : Nat), d n₁ n₂ → motive ⟨m, hp, q, z, n₁⟩ ⟨m, hp, q, z, n₂⟩) :
    motive s t := by
  obtain ⟨m, hp, q, z, n₁⟩ := s
  obtain ⟨m', hp', q', z', n₂⟩ := t
  obtain ⟨⟨h1, h2, h3, h4⟩, h5⟩ := h
  simp only at h1 h2 h3 h4 h5
  subst h1 h2 h3 h4
  exact H _ _ _ _ _ _ h5

/-- pairs `(store, value)`: stores related, values equal -/
def RelP (d : Nat → Nat → Prop) (x y : Store P × β) : Prop := Rel d x.1 y.1 ∧ x.2 = y.2
/-- pairs `(value, store)` -/
def RelQ (d : Nat → Nat → Prop) (x y : β × Store P) : Prop := x.1 = y.1 ∧ Rel d x.2 y.2
/-- pairs of stores -/
def RelSS (d : Nat → Nat → Prop) (x y : Store P × Store P) : Prop := Rel d x.1 y.1 ∧ Rel d x.2 y.2

/-- closes goals `d _ _` from an assumption, through up to three `tick`s -/
macro "tick_d" : tactic => `(tactic| first
  | assumption
  | exact TickRel.add _ (by assumption)
  | exact TickRel.add _ (TickRel.add _ (by assumption))
  | exact TickRel.add _ (TickRel.add _ (TickRel.add _ (by assumption))))

/-- closes goals `Rel d ⟨..⟩ ⟨..⟩` / `RelP d (⟨..⟩, b) (⟨..⟩, b)` between literal records -/
macro "rel_done" : tactic => `(tactic| first
  | exact Rel.mk' (by tick_d)
  | exact ⟨Rel.mk' (by tick_d), rfl⟩
  | exact Rel.tick (by assumption) _
  | exact ⟨Rel.tick (by assumption) _, rfl⟩
  | assumption
  | exact ⟨by assumption, rfl⟩)

/-! ## Store level -/
section StoreLevel
variable [TickRel d] {s t : Store P}

theorem swap_rel (h : Rel d s t) (a b : Nat) : RelR (Rel d) (s.swap a b) (t.swap a b) := by
  apply h.elim; intro m hp q z n₁ n₂ hd
  simp only [Store.swap]
  refine RelR.bind_same _ fun ia => ?_
  refine RelR.bind_same _ fun ib => ?_
  refine RelR.bind_same _ fun qp => ?_
  refine RelR.bind_same _ fun heap => ?_
  exact RelR.pure (by rel_done)

theorem prioAt_rel (h : Rel d s t) (pos : Nat) : s.prioAt pos = t.prioAt pos := by
  apply h.elim; intro m hp q z n₁ n₂ hd
  rfl

end StoreLevel

end PQ.TickFrame
