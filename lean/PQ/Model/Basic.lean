/-!
# Basic vocabulary of the model

`Fault` enumerates every way the real code can leave the fault-free path; every `get_unchecked`,
`unwrap`, checked subtraction and bounds-checked std call of the crate becomes an explicit
possible `Fault` in the model, so that "this never happens" is a theorem and not an artefact of
totalised definitions.

No imports outside core Lean: the model must link into the native driver.
-/
namespace PQ

/-- How an operation can fail.  `site` numbers refer to /verif/unsafe_inventory.json. -/
inductive Fault where
  /-- an unchecked (`get_unchecked{,_mut}`) access out of bounds: undefined behaviour in the real code -/
  | oob (site : Nat)
  /-- a bounds-checked std call (`Vec::swap`, `Vec::swap_remove`) out of range: an ordinary panic -/
  | indexPanic (site : Nat)
  /-- `Option::unwrap` on `None`: an ordinary panic -/
  | unwrapNone (site : Nat)
  /-- checked arithmetic (`x - 1` at `0`, `size -= 1` at `0`): a panic with overflow checks on -/
  | arith (site : Nat)
  /-- the documented capacity-overflow panic of `reserve` / `with_capacity` -/
  | capacity
  /-- a loop of the model ran out of fuel (proved impossible) -/
  | fuel
  /-- injected: a user callback panicked -/
  | userPanic
  deriving DecidableEq, Repr, Inhabited

abbrev R := Except Fault

/-- Items carry a `payload` that takes no part in `Eq`/`Hash` (the harness uses a Rust type whose
`Eq`/`Hash` look at `key` only). -/
structure Item where
  key : Nat
  payload : Nat
  deriving DecidableEq, Repr, Inhabited

/-! ## Array access as the crate performs it -/

/-- `slice::get_unchecked(i)`: out of range is undefined behaviour, modelled as the fault `.oob`. -/
@[inline] def getU (a : Array α) (i : Nat) (site : Nat) : R α :=
  match a[i]? with
  | some x => .ok x
  | none => .error (.oob site)

/-- `*slice.get_unchecked_mut(i) = v`. -/
@[inline] def setU (a : Array α) (i : Nat) (v : α) (site : Nat) : R (Array α) :=
  if i < a.size then .ok (a.setIfInBounds i v) else .error (.oob site)

/-- `Vec::swap(i, j)`: bounds-checked, panics when out of range. -/
@[inline] def swapC (a : Array α) (i j : Nat) (site : Nat) : R (Array α) :=
  match a[i]?, a[j]? with
  | some x, some y => .ok ((a.setIfInBounds i y).setIfInBounds j x)
  | _, _ => .error (.indexPanic site)

/-- `Vec::swap_remove(i)`: bounds-checked, panics when out of range; the last element takes the
place of the removed one. -/
@[inline] def swapRemoveC (a : Array α) (i : Nat) (site : Nat) : R (α × Array α) :=
  match a[i]?, a.back? with
  | some x, some l => .ok (x, (a.setIfInBounds i l).pop)
  | _, _ => .error (.indexPanic site)

/-- `Option::unwrap`. -/
@[inline] def unwrapO (o : Option α) (site : Nat) : R α :=
  match o with
  | some x => .ok x
  | none => .error (.unwrapNone site)

/-- `x - 1` on `usize` with overflow checks. -/
@[inline] def decC (x : Nat) (site : Nat) : R Nat :=
  if x = 0 then .error (.arith site) else .ok (x - 1)

end PQ
