import PQ.Model.Iter
import PQ.Lemmas.Defs
/-!
# Histories: a typed alphabet of public operations and the step function of both queue kinds

`Q` is a queue (kind + store).  `step` dispatches to the mirror functions of `PQ.lean` / `DPQ.lean` / `Store.lean`;
property theorems quantify over `List (Op P)` ("for all finite histories of public operations").
Closures are data (`f : Item → P → Bool × Item × P`, `w : Item → Item`, `g : P → P`); iterators are the pairs they yield plus
the lower bound of their `size_hint`; the other queue of `append` is its store; the input of `Deserialize` is the pairs it
contains plus the length it announces.  `Op.Legal` records what the documentation demands of the caller: closures must not
change an item's identity (`Hash`/`Eq`), the other queue of `append` is a (well-formed) queue, and a `size_hint` handed to
`extend` / `from_iter` is a legal one (its lower bound does not exceed what the iterator yields).  The length announced to
`Deserialize` is untrusted input: every value is legal.

(`PQ.Lemmas.Defs` is imported for the *definition* of `Store.WF` only, which `Op.Legal` needs for the argument of `append`;
it contains definitions over core Lean only, so this file still links into the native driver.)
-/
namespace PQ

inductive Kind where
  | pq | dpq
  deriving DecidableEq, Repr, Inhabited

structure Q (P : Type) where
  kind : Kind
  s : Store P

/-- what an operation returns (the variants the API has) -/
inductive Out (P : Type) where
  | unit
  | prio (o : Option P)
  | entry (o : Option (Item × P))
  | bool (b : Bool)
  | entries (l : List (Item × P))
  | outs (l : List IOut)
  /-- `append(&mut other)`: what the call leaves of the OTHER queue, as the four lengths an observer can read from it —
  `other.len()`, and the lengths of its map and of its two index tables (all `0`: `other` is drained, `C07_append`) -/
  | other (len map heap qp : Nat)
  /-- a number (`len()`): produced by observations only (`PQ/Model/Observe.lean`), never by `step` -/
  | nat (n : Nat)
  /-- what `{:?}` lists (`Store.debugEntries`): produced by observations only -/
  | debug (l : List (Nat × Item × P))

inductive Op (P : Type) where
  | push (it : Item) (p : P)
  | pushIncrease (it : Item) (p : P)
  | pushDecrease (it : Item) (p : P)
  | changePriority (k : Nat) (p : P)
  | changePriorityBy (k : Nat) (g : P → P)
  | remove (k : Nat)
  | getMut (k : Nat) (w : Item → Item)
  /-- `pop` (PQ) / `pop_min` (DPQ) -/
  | popFront
  /-- `pop_max` (DPQ only) -/
  | popBack
  /-- `pop_if` (PQ) / `pop_min_if` (DPQ) -/
  | popFrontIf (f : Item → P → Bool × Item × P)
  /-- `pop_max_if` (DPQ only) -/
  | popBackIf (f : Item → P → Bool × Item × P)
  /-- `peek_mut` (PQ) / `peek_min_mut` (DPQ) -/
  | peekFrontMut (w : Item → Item)
  /-- `peek_max_mut` (DPQ only) -/
  | peekBackMut (w : Item → Item)
  | retainMut (f : Item → P → Bool × Item × P)
  /-- `iter_mut`: a program of calls, each followed by a write through the yielded reference; `leak = true` means the
  guard is `mem::forget`-ten (no rebuild) -/
  | iterMut (leak : Bool) (prog : List (ICall × IMWrite P))
  /-- `extend(iter)`: `xs` are the pairs the iterator yields, `lo` the lower bound of its `size_hint` (the upper bound is
  never read by the code and is not part of the model) -/
  | extend (lo : Nat) (xs : Array (Item × P))
  /-- `append(&mut other)` where `other` is ANY queue of the same kind, given by its store (legal when the store is
  well-formed — it need not be ordered: the result is rebuilt) -/
  | append (o : Store P)
  | fromVec (xs : Array (Item × P))
  /-- `FromIterator::from_iter(iter)`: pairs yielded and lower bound of the `size_hint`, as for `extend` -/
  | fromIter (lo : Nat) (xs : Array (Item × P))
  /-- `Deserialize`: `xs` are the pairs the input contains, `hint` the length it ANNOUNCES (`SeqAccess::size_hint`) —
  untrusted input, any value at all -/
  | deserialize (hint : Option Nat) (xs : Array (Item × P))
  /-- `From<the other queue kind>` -/
  | convert
  | clear
  /-- `drain()`: the draining iterator may be consumed in any way, dropped or leaked -/
  | drain
  /-- `with_capacity / reserve / reserve_exact / try_reserve / try_reserve_exact / shrink_to_fit` with an amount that
  the allocator grants: no effect on the modelled state (capacity is not part of it) -/
  | capacityOp

/-- closures must not change the identity of an item; the other queue handed to `append` is a (well-formed) queue; the
`size_hint` of an iterator handed to `extend` / `from_iter` is a LEGAL one: its lower bound does not exceed the number of
pairs the iterator yields (`Iterator::size_hint`'s contract), and that number is one a `Vec` can hold.  `deserialize` is
legal for EVERY announced length: the hint is untrusted input. -/
def Op.Legal {P : Type} : Op P → Prop
  | .getMut _ w | .peekFrontMut w | .peekBackMut w => ∀ it, (w it).key = it.key
  | .popFrontIf f | .popBackIf f | .retainMut f => ∀ it p, (f it p).2.1.key = it.key
  | .append o => o.WF
  | .extend lo xs | .fromIter lo xs => lo ≤ xs.size ∧ xs.size < capLimit
  | _ => True

variable {P : Type} [LT P] [DecidableLT P]

/-- run an `iter_mut` program on the map (slots are yielded by the machine of the queue kind, writes go to the
yielded slot); returns the outputs and the rewritten map -/
def iterMutRun (kind : Kind) (n : Nat) :
    List (ICall × IMWrite P) → PIterMut → DIterMut → IMap P → R (List IOut × IMap P)
  | [], _, _, m => pure ([], m)
  | (c, w) :: rest, pit, dit, m => do
    let (pit', dit', o) ← match kind with
      | .pq => do
        let (it', o) := pit.step n c
        pure (it', dit, o)
      | .dpq => do
        let (it', o) ← dit.step n c
        pure (pit, it', o)
    let m' := match o with
      | .slot (some i) => IMap.applyWrite m i w
      | _ => m
    let (outs, m'') ← iterMutRun kind n rest pit' dit' m'
    pure (o :: outs, m'')

def heapBuildK (kind : Kind) (s : Store P) : R (Store P) :=
  match kind with
  | .pq => MaxQ.heapBuild s
  | .dpq => DQ.heapBuild s

/-- NOT an `Op`: what safe client code can do because `iter_mut` yields references with the lifetime of the queue borrow —
collect them (`iter_mut().collect::<Vec<_>>()`, `.last()`, …), let the guard drop (the heap is rebuilt on the unchanged
priorities), and only then write through them.  Known finding F7: nothing re-orders the queue after these writes. -/
def iterMutLate (kind : Kind) (s : Store P) (prog : List (ICall × IMWrite P)) : R (Store P × List IOut) := do
  let s1 ← heapBuildK kind s
  let n := s1.map.size
  let (outs, m) ← iterMutRun kind n prog PIterMut.new (DIterMut.new n) s1.map
  pure ({ s1 with map := m }, outs)

/-- one public operation -/
def step (q : Q P) : Op P → R (Q P × Out P)
  | .push it p => do
    let (s, r) ← (match q.kind with | .pq => MaxQ.push q.s it p | .dpq => DQ.push q.s it p)
    pure ({ q with s := s }, .prio r)
  | .pushIncrease it p => do
    let (s, r) ← (match q.kind with | .pq => MaxQ.pushIncrease q.s it p | .dpq => DQ.pushIncrease q.s it p)
    pure ({ q with s := s }, .prio r)
  | .pushDecrease it p => do
    let (s, r) ← (match q.kind with | .pq => MaxQ.pushDecrease q.s it p | .dpq => DQ.pushDecrease q.s it p)
    pure ({ q with s := s }, .prio r)
  | .changePriority k p => do
    let (s, r) ← (match q.kind with | .pq => MaxQ.changePriority q.s k p | .dpq => DQ.changePriority q.s k p)
    pure ({ q with s := s }, .prio r)
  | .changePriorityBy k g => do
    let (s, r) ← (match q.kind with | .pq => MaxQ.changePriorityBy q.s k g | .dpq => DQ.changePriorityBy q.s k g)
    pure ({ q with s := s }, .bool r)
  | .remove k => do
    let (s, r) ← (match q.kind with | .pq => MaxQ.remove q.s k | .dpq => DQ.remove q.s k)
    pure ({ q with s := s }, .entry r)
  | .getMut k w =>
    let (s, r) := q.s.getMutWrite k w
    pure ({ q with s := s }, .entry r)
  | .popFront => do
    let (s, r) ← (match q.kind with | .pq => MaxQ.pop q.s | .dpq => DQ.popMin q.s)
    pure ({ q with s := s }, .entry r)
  | .popBack =>
    match q.kind with
    | .pq => pure (q, .unit)
    | .dpq => do
      let (s, r) ← DQ.popMax q.s
      pure ({ q with s := s }, .entry r)
  | .popFrontIf f => do
    let (s, r) ← (match q.kind with | .pq => MaxQ.popIf q.s f | .dpq => DQ.popMinIf q.s f)
    pure ({ q with s := s }, .entry r)
  | .popBackIf f =>
    match q.kind with
    | .pq => pure (q, .unit)
    | .dpq => do
      let (s, r) ← DQ.popMaxIf q.s f
      pure ({ q with s := s }, .entry r)
  | .peekFrontMut w => do
    let (s, r) ← (match q.kind with | .pq => MaxQ.peekMutWrite q.s w | .dpq => DQ.peekMinMutWrite q.s w)
    pure ({ q with s := s }, .entry r)
  | .peekBackMut w =>
    match q.kind with
    | .pq => pure (q, .unit)
    | .dpq => do
      let (s, r) ← DQ.peekMaxMutWrite q.s w
      pure ({ q with s := s }, .entry r)
  | .retainMut f => do
    let s ← (match q.kind with | .pq => MaxQ.retainMut q.s f | .dpq => DQ.retainMut q.s f)
    pure ({ q with s := s }, .unit)
  | .iterMut leak prog => do
    let n := q.s.map.size
    let (outs, m) ← iterMutRun q.kind n prog PIterMut.new (DIterMut.new n) q.s.map
    let s1 := { q.s with map := m }
    let s ← if leak then pure s1 else heapBuildK q.kind s1
    pure ({ q with s := s }, .outs outs)
  | .extend lo xs => do
    let s ← (match q.kind with | .pq => MaxQ.extend q.s lo xs | .dpq => DQ.extend q.s lo xs)
    pure ({ q with s := s }, .unit)
  | .append o => do
    let (s, o') ← (match q.kind with | .pq => MaxQ.append q.s o | .dpq => DQ.append q.s o)
    pure ({ q with s := s }, .other o'.size o'.map.size o'.heap.size o'.qp.size)
  | .fromVec xs => do
    let s ← (match q.kind with | .pq => MaxQ.fromVec xs | .dpq => DQ.fromVec xs)
    pure ({ q with s := s }, .unit)
  | .fromIter lo xs => do
    let s ← (match q.kind with | .pq => MaxQ.fromIter lo xs | .dpq => DQ.fromIter lo xs)
    pure ({ q with s := s }, .unit)
  | .deserialize hint xs => do
    let s ← (match q.kind with | .pq => MaxQ.deserialize hint xs | .dpq => DQ.deserialize hint xs)
    pure ({ q with s := s }, .unit)
  | .convert =>
    match q.kind with
    | .pq => do
      let s ← DQ.ofStore q.s
      pure ({ kind := .dpq, s := s }, .unit)
    | .dpq => do
      let s ← MaxQ.ofStore q.s
      pure ({ kind := .pq, s := s }, .unit)
  | .clear => pure ({ q with s := q.s.clear }, .unit)
  | .drain =>
    let (es, s) := q.s.drain
    pure ({ q with s := s }, .entries es.toList)
  | .capacityOp => pure (q, .unit)

/-- a history: every operation in turn; stops at the first fault -/
def run (q : Q P) : List (Op P) → R (Q P × List (Out P))
  | [] => pure (q, [])
  | op :: ops => do
    let (q', o) ← step q op
    let (q'', os) ← run q' ops
    pure (q'', o :: os)

/-- `new()` of either kind -/
def Q.new (kind : Kind) : Q P := { kind := kind, s := Store.empty }

end PQ
