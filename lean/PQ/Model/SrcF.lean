import PQ.Model.Src
import PQ.Model.Crash
/-!
# The fused interpreter: what the translated code leaves behind when a comparison panics

`PQ.Src.exec` gives the translated functions their fault-free meaning.  This file gives the SAME terms a second meaning,
in which the user's `Ord::cmp` may panic: every comparison of two priorities is a *panic point*; the comparison whose
ordinal (`ticks + 1`, the convention of `PQ/Model/Crash.lean`) equals `fuse` panics (`fuse = 0`: never).  A panic unwinds
the frames; a frame that owns a `Hole` guard runs the guard's `Drop` — the code `unwind f` that the translator inlined
from `impl Drop for Hole` — on the registers the frame has AT THAT MOMENT; a callee that received the hole by `&mut`
(`Fn.byRef`-style: flag in the unwind table) hands its current `hole.position` back to the owner first.
`self.map.clear()` is a panic point of its own (`dropFuse`: the `Drop` of an item or a priority panics).

Everything that is not a panic point or control flow is the plain interpreter, lifted.
-/
namespace PQ.SrcF
open PQ PQ.Src PQ.Arith

variable {P : Type}

/-- how the fused run of one frame stops: an ordinary fault, or a panic with the frame's state at that moment -/
inductive StopF (P : Type) where
  | fault (f : Fault)
  | panic (st : St P)

abbrev CF (P : Type) (α : Type) := Except (StopF P) α

def liftF {α : Type} : R α → CF P α
  | .ok a => .ok a
  | .error f => .error (.fault f)

/-- how a fused call stops: a fault, or a panic after the callee's unwinding: the store it leaves and the current value of
the callee's first `usize` parameter (`hole.position` of a `&mut Hole` callee) -/
inductive CallStop (P : Type) where
  | fault (f : Fault)
  | panic (s : Store P) (ret : Nat)

abbrev CallFF (P : Type) :=
  FnId → Store P → List Nat → List P → List (Val P) → Except (CallStop P) (Store P × Val P)

/-- per function: the code run when a panic unwinds through its frame (`.skip` if it owns no guard), and whether it received a
hole by `&mut` -/
abbrev Unwind := FnId → Stmt × Bool

section
variable [LT P] [DecidableLT P]

/-- the fused comparison `a < b` in state `st` -/
def cmpAt (fuse : Nat) (st : St P) (a b : P) : CF P (Store P × Bool) :=
  if st.s.ticks + 1 = fuse then .error (.panic st) else .ok (st.s.tick, decide (a < b))

/-- boolean expressions with panic points -/
def evalBF (fuse : Nat) (callf : CallF P) (st : St P) : BExpr → CF P (Store P × Bool)
  | .ltP a b => do
    let (s, x) ← liftF (evalP callf st a)
    let (s, y) ← liftF (evalP callf (st.setS s) b)
    cmpAt fuse (st.setS s) x y
  | .gtP a b => do
    let (s, x) ← liftF (evalP callf st a)
    let (s, y) ← liftF (evalP callf (st.setS s) b)
    cmpAt fuse (st.setS s) y x
  | .and a b => do
    let (s, x) ← evalBF fuse callf st a
    if x then evalBF fuse callf (st.setS s) b else pure (s, false)
  | .not a => do
    let (s, x) ← evalBF fuse callf st a
    pure (s, !x)
  | .prioMapOrGt iv p => do
    let (s, x) ← liftF (evalP callf st p)
    match st.v iv with
    | some (.item it) =>
      match s.getPriority it.key with
      | none => pure (s, true)
      | some q => cmpAt fuse (st.setS s) q x
    | _ => .error (.fault stuck)
  | .prioMapOrLt iv p => do
    let (s, x) ← liftF (evalP callf st p)
    match st.v iv with
    | some (.item it) =>
      match s.getPriority it.key with
      | none => pure (s, true)
      | some q => cmpAt fuse (st.setS s) x q
    | _ => .error (.fault stuck)
  | b => liftF (evalB callf st b)

/-- the fold of `min_by_key` with one panic point per comparison -/
def minFoldF (fuse : Nat) (st : St P) : List (Nat × P) → Store P → Nat × P → CF P (Store P × (Nat × P))
  | [], s, acc => pure (s, acc)
  | y :: ys, s, acc => do
    let (s, lt) ← cmpAt fuse (st.setS s) y.2 acc.2
    minFoldF fuse st ys s (if lt then y else acc)

def maxFoldF (fuse : Nat) (st : St P) : List (Nat × P) → Store P → Nat × P → CF P (Store P × (Nat × P))
  | [], s, acc => pure (s, acc)
  | y :: ys, s, acc => do
    let (s, lt) ← cmpAt fuse (st.setS s) y.2 acc.2
    maxFoldF fuse st ys s (if lt then acc else y)

/-- a panic of a callee seen from the caller: the store the callee left; for a `callN` of a by-reference-hole callee the
register that receives the result gets the callee's current hole position -/
def fromCall {α : Type} (st : St P) (wb : Option Var) : Except (CallStop P) α → CF P α
  | .ok a => .ok a
  | .error (.fault f) => .error (.fault f)
  | .error (.panic s r) =>
    match wb with
    | some v => .error (.panic ((st.setS s).setN v r))
    | none => .error (.panic (st.setS s))

/-- loops of the fused interpreter -/
def forDownF (body : Nat → St P → CF P (St P × Flow P)) : Nat → St P → CF P (St P × Flow P)
  | 0, st => do
    let (st, fl) ← body 0 st
    match fl with
    | .ret v => pure (st, .ret v)
    | _ => pure (st, .normal)
  | k + 1, st => do
    let (st, fl) ← body (k + 1) st
    match fl with
    | .normal => forDownF body k st
    | .brk => pure (st, .normal)
    | .ret v => pure (st, .ret v)

def forListF (body : Item × P → St P → CF P (St P × Flow P)) : List (Item × P) → St P → CF P (St P × Flow P)
  | [], st => pure (st, .normal)
  | e :: es, st => do
    let (st, fl) ← body e st
    match fl with
    | .normal => forListF body es st
    | .brk => pure (st, .normal)
    | .ret v => pure (st, .ret v)

/-- one level of the fused interpreter.  `plain` / `callf`: the plain interpreter (for the statements without panic points
and for calls inside priority expressions); `recF` / `callfF`: the fused one with one unit of fuel less; `byRef f`: whether
`f` received a hole by `&mut`. -/
def execStepF (fuse : Nat) (dropFuse : Bool) (plain : Stmt → St P → R (St P × Flow P)) (callf : CallF P)
    (recF : Stmt → St P → CF P (St P × Flow P)) (callfF : CallFF P) (byRef : FnId → Bool) :
    Stmt → St P → CF P (St P × Flow P)
  | .seq a b, st => do
    let (st, fl) ← execStepF fuse dropFuse plain callf recF callfF byRef a st
    match fl with
    | .normal => execStepF fuse dropFuse plain callf recF callfF byRef b st
    | fl => pure (st, fl)
  | .ite c t e, st => do
    let (s, b) ← evalBF fuse callf st c
    if b then execStepF fuse dropFuse plain callf recF callfF byRef t (st.setS s)
    else execStepF fuse dropFuse plain callf recF callfF byRef e (st.setS s)
  | .match2 c1 c2 tt tf ft ff, st => do
    let (s, b1) ← evalBF fuse callf st c1
    let (s, b2) ← evalBF fuse callf (st.setS s) c2
    match b1, b2 with
    | true, true => execStepF fuse dropFuse plain callf recF callfF byRef tt (st.setS s)
    | true, false => execStepF fuse dropFuse plain callf recF callfF byRef tf (st.setS s)
    | false, true => execStepF fuse dropFuse plain callf recF callfF byRef ft (st.setS s)
    | false, false => execStepF fuse dropFuse plain callf recF callfF byRef ff (st.setS s)
  | .while c body, st => do
    let (s, b) ← evalBF fuse callf st c
    if b then do
      let (st, fl) ← execStepF fuse dropFuse plain callf recF callfF byRef body (st.setS s)
      match fl with
      | .normal => recF (.while c body) st
      | .brk => pure (st, .normal)
      | .ret v => pure (st, .ret v)
    else pure (st.setS s, .normal)
  | .forRev v hi body, st => do
    let h ← liftF (evalN st hi)
    forDownF (fun k st => execStepF fuse dropFuse plain callf recF callfF byRef body (st.setN v k)) h st
  | .callN v f nargs pargs, st => do
    let xs ← liftF (evalNs st nargs)
    let (s, ps) ← liftF (evalPs callf st pargs)
    let (s, r) ← fromCall (st.setS s) (if byRef f then some v else none) (callfF f s xs ps [])
    match r with
    | .nat x => pure ((st.setS s).setN v x, .normal)
    | _ => .error (.fault stuck)
  | .call f nargs pargs, st => do
    let xs ← liftF (evalNs st nargs)
    let (s, ps) ← liftF (evalPs callf st pargs)
    let (s, _) ← fromCall (st.setS s) none (callfF f s xs ps [])
    pure (st.setS s, .normal)
  | .callV v f nargs, st => do
    let xs ← liftF (evalNs st nargs)
    let (s, r) ← fromCall st none (callfF f st.s xs [] [])
    pure ((st.setS s).setV v r, .normal)
  | .callX v f nargs pargs vargs, st => do
    let xs ← liftF (evalNs st nargs)
    let (s, ps) ← liftF (evalPs callf st pargs)
    let vs ← liftF (evalVs st vargs)
    let (s, r) ← fromCall (st.setS s) none (callfF f s xs ps vs)
    pure ((st.setS s).setV v r, .normal)
  | .optCallN v f nargs tS tN, st => do
    let xs ← liftF (evalNs st nargs)
    let (s, r) ← fromCall st none (callfF f st.s xs [] [])
    match r with
    | .optNat (some x) => execStepF fuse dropFuse plain callf recF callfF byRef tS ((st.setS s).setN v x)
    | .optNat none => execStepF fuse dropFuse plain callf recF callfF byRef tN (st.setS s)
    | _ => .error (.fault stuck)
  | .ifHeapGet v e t f, st => do
    let i ← liftF (evalN st e)
    match st.s.heap[i]? with
    | some x => execStepF fuse dropFuse plain callf recF callfF byRef t (st.setN v x)
    | none => execStepF fuse dropFuse plain callf recF callfF byRef f st
  | .entryMatch iv eidx occ vac, st =>
    match st.v iv with
    | some (.item it) =>
      match st.s.map.find? it.key with
      | some i => execStepF fuse dropFuse plain callf recF callfF byRef occ (st.setN eidx i)
      | none => execStepF fuse dropFuse plain callf recF callfF byRef vac st
    | _ => .error (.fault stuck)
  | .forEntries src iv pv body, st =>
    match st.v src with
    | some (.entries a) =>
      forListF (fun e st => execStepF fuse dropFuse plain callf recF callfF byRef body
        ((st.setV iv (.item e.1)).setP pv e.2)) a.toList st
    | some (.iter _ a) =>
      forListF (fun e st => execStepF fuse dropFuse plain callf recF callfF byRef body
        ((st.setV iv (.item e.1)).setP pv e.2)) a.toList st
    | some (.seq _ a) =>
      forListF (fun e st => execStepF fuse dropFuse plain callf recF callfF byRef body
        ((st.setV iv (.item e.1)).setP pv e.2)) a.toList st
    | _ => .error (.fault stuck)
  | .firstMinBy v siteP siteU cands, st => do
    let cs ← liftF (evalNs st cands)
    let l ← liftF (candList st.s siteP cs)
    match l with
    | [] => liftF (unwrapO (none : Option (Nat × P)) siteU >>= fun _ => pure (st, Flow.normal))
    | x :: xs => do
      let (s, c) ← minFoldF fuse st xs st.s x
      pure ((st.setS s).setN v c.1, .normal)
  | .lastMaxBy v siteP siteU cands, st => do
    let cs ← liftF (evalNs st cands)
    let l ← liftF (candList st.s siteP cs)
    match l with
    | [] => liftF (unwrapO (none : Option (Nat × P)) siteU >>= fun _ => pure (st, Flow.normal))
    | x :: xs => do
      let (s, c) ← maxFoldF fuse st xs st.s x
      pure ((st.setS s).setN v c.1, .normal)
  | .lastMaxByPos v siteU cands, st => do
    let cs ← liftF (evalNs st cands)
    let (s, l) ← liftF (keysByPrioAt callf st.s cs)
    match l with
    | [] => liftF (unwrapO (none : Option (Nat × P)) siteU >>= fun _ => pure (st, Flow.normal))
    | x :: xs => do
      let (s, c) ← maxFoldF fuse st xs s x
      pure ((st.setS s).setN v c.1, .normal)
  | .mapClear, st =>
    if dropFuse then .error (.panic st) else pure (st.setS { st.s with map := #[] }, .normal)
  | .removeFullThen key vi body res, st =>
    match st.s.map.swapRemoveFull (st.n key) with
    | none => pure (st, .ret (.optRemoved none))
    | some (i, e, map) => do
      let (st, fl) ← execStepF fuse dropFuse plain callf recF callfF byRef body
        ((st.setS { st.s with map := map }).setN vi i)
      match fl with
      | .normal => do
        let p ← liftF (evalN st res)
        pure (st, .ret (.optRemoved (some (e.1, e.2, p))))
      | _ => .error (.fault stuck)
  | .getFullMutThen key vidx body onNone, st =>
    match st.s.map.getFull (st.n key) with
    | some (index, _, _) => execStepF fuse dropFuse plain callf recF callfF byRef body (st.setN vidx index)
    | none => execStepF fuse dropFuse plain callf recF callfF byRef onNone st
  | .mapRemoved key vpos body, st => do
    let (s, r) ← fromCall st none (callfF .storeRemove st.s [st.n key] [] [])
    match r with
    | .optRemoved none => pure (st.setS s, .ret (.optEntry none))
    | .optRemoved (some (it, p, pos)) => do
      let (st, fl) ← execStepF fuse dropFuse plain callf recF callfF byRef body ((st.setS s).setN vpos pos)
      match fl with
      | .normal => pure (st, .ret (.optEntry (some (it, p))))
      | _ => .error (.fault stuck)
    | _ => .error (.fault stuck)
  | .mapChanged key p vpos body, st => do
    let (s, x) ← liftF (evalP callf st p)
    let (s, r) ← fromCall (st.setS s) none (callfF .storeChangePriority s [st.n key] [x] [])
    match r with
    | .optPPos none => pure (st.setS s, .ret (.optP none))
    | .optPPos (some (old, pos)) => do
      let (st, fl) ← execStepF fuse dropFuse plain callf recF callfF byRef body ((st.setS s).setN vpos pos)
      match fl with
      | .normal => pure (st, .ret (.optP (some old)))
      | _ => .error (.fault stuck)
    | _ => .error (.fault stuck)
  | .mapChangedBy key fv vpos body, st =>
    match st.v fv with
    | some g => do
      let (s, r) ← fromCall st none (callfF .storeChangePriorityBy st.s [st.n key] [] [g])
      match r with
      | .optNat none => pure (st.setS s, .ret (.bool false))
      | .optNat (some pos) => do
        let (st, fl) ← execStepF fuse dropFuse plain callf recF callfF byRef body ((st.setS s).setN vpos pos)
        match fl with
        | .normal => pure (st, .ret (.bool true))
        | _ => .error (.fault stuck)
      | _ => .error (.fault stuck)
    | none => .error (.fault stuck)
  | .whileSomeCall ev f body, st => do
    let (s, r) ← fromCall st none (callfF f st.s [] [] [])
    match r with
    | .optEntry (some e) => do
      let (st, fl) ← execStepF fuse dropFuse plain callf recF callfF byRef body ((st.setS s).setV ev (.optEntry (some e)))
      match fl with
      | .normal => recF (.whileSomeCall ev f body) st
      | .brk => pure (st, .normal)
      | .ret v => pure (st, .ret v)
    | .optEntry none => pure (st.setS s, .normal)
    | _ => .error (.fault stuck)
  | c, st => liftF (plain c st)

/-- fused call: run the body; when it panics, run the frame's unwind code (plain: it contains no panic point) on the state
at that moment -/
def callWithF (exF : Stmt → St P → CF P (St P × Flow P)) (unwindStep : Stmt → St P → R (St P × Flow P))
    (prog : Prog) (uw : Unwind) : CallFF P :=
  fun f s nargs pargs vargs =>
    match prog f with
    | none => .error (.fault stuck)
    | some fn =>
      match exF fn.body { s := s, n := bindN fn.nparams nargs, p := bindP fn.pparams pargs, v := bindV fn.vparams vargs } with
      | .ok (st, fl) =>
        match fl with
        | .ret v => .ok (st.s, v)
        | .normal => .ok (st.s, .unit)
        | .brk => .error (.fault stuck)
      | .error (.fault e) => .error (.fault e)
      | .error (.panic stp) =>
        match unwindStep (uw f).1 stp with
        | .ok (st2, _) => .error (.panic st2.s (st2.n (fn.nparams.headD 0)))
        | .error e => .error (.fault e)

/-- the fused interpreter, structurally recursive on the fuel like `Src.exec` (same fuel accounting) -/
def execF (prog : Prog) (uw : Unwind) (fuse : Nat) (dropFuse : Bool) : Nat → Stmt → St P → CF P (St P × Flow P)
  | 0, _, _ => .error (.fault .fuel)
  | fuel + 1, c, st =>
    execStepF fuse dropFuse (exec prog (fuel + 1)) (callWith (exec prog fuel) prog)
      (execF prog uw fuse dropFuse fuel)
      (callWithF (execF prog uw fuse dropFuse fuel) (exec prog fuel) prog uw)
      (fun f => (uw f).2) c st

/-- run the translated function `f` with the `fuse`-th comparison panicking: the result, or what unwinding leaves behind
(in the vocabulary of `PQ/Model/Crash.lean`) -/
def runF (prog : Prog) (uw : Unwind) (fuse : Nat) (dropFuse : Bool) (fuel : Nat) (f : FnId) (s : Store P)
    (nargs : List Nat) (pargs : List P := []) (vargs : List (Val P) := []) : Crash.CR P (Store P × Val P) :=
  match callWithF (execF prog uw fuse dropFuse fuel) (exec prog fuel) prog uw f s nargs pargs vargs with
  | .ok r => .ok r
  | .error (.fault e) => .error (.fault e)
  | .error (.panic s' _) => .error (.crashed s')

end
end PQ.SrcF
