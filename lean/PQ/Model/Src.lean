import PQ.Model.Store
import PQ.Model.Arith
import PQ.Model.Iter
/-!
# A small deep-embedded IR for the index-table / heap functions of the crate, and its interpreter

`tools/gen_src.py` parses the Rust functions listed in `PQ/Model/SRC_README.md` and emits, in
`PQ/Model/SrcGen.lean`, one closed term of the types below per function.  This file gives those terms
their meaning: a total big-step interpreter with a fuel argument, over the model's `Store P` (including
the ghost counter `ticks`), in the model's `R` monad.  `PQ/Lemmas/SrcEquiv*.lean` prove that the
hand-written model functions compute exactly what the interpreter computes on the generated terms.

Only core Lean is imported.  The IR is deliberately specific to what these functions need.

Conventions
* `usize` is `Nat`; the newtypes `Position` / `Index` are erased.
* local variables are numbered by the translator (`Var = Nat`); there are two register files, one for
  `usize` values and one for priority values (`&P`: the map is never changed by the translated
  functions of phases 1 and 3 while such a reference is live; where it is, the translator refuses).
* every memory primitive carries the fault-site number the hand model uses for the same access.
* an ill-formed term (unbound priority register, unknown function, `break` outside a loop, wrong kind of
  return value) evaluates to the reserved fault `stuck`; the equivalence theorems show it never occurs.
-/
namespace PQ.Src
open PQ PQ.Arith

/-- reserved fault of the interpreter for ill-formed IR (no model function ever returns it) -/
def stuck : Fault := .unwrapNone 9999

abbrev Var := Nat

/-- the Rust functions the translator knows about -/
inductive FnId where
  | storeSwap | storePrioAt | storeSwapRemove | storeRemove
  | pqHeapify | pqBubbleUp | pqUpHeapify | pqHeapBuild
  | dqHeapify | dqHeapifyMin | dqHeapifyMax | dqBubbleUp | dqBubbleUpMin | dqBubbleUpMax
  | dqUpHeapify | dqHeapBuild | dqFindMax
  | dqFindMin | pqPop | pqRemove | dqPopMin | dqPopMax | dqRemove
  | storeClear | storeDrain | storeRetainMut | storeAppend | storeSwapRemoveIf | storeChangePriority
  | storeChangePriorityBy
  | pqPush | dqPush | pqChangePriority | dqChangePriority | pqChangePriorityBy | dqChangePriorityBy
  | pqPushIncrease | pqPushDecrease | dqPushIncrease | dqPushDecrease
  | pqPopIf | dqPopMinIf | dqPopMaxIf | pqPeek | dqPeekMin | dqPeekMax | pqPeekMut | dqPeekMinMut | dqPeekMaxMut
  | storeFromVec | storeFromIter | storeExtend | storeVisitSeq
  | pqExtend | dqExtend | pqAppend | dqAppend | pqRetainMut | dqRetainMut | pqRetain | dqRetain
  | storeRetain | pqFromVec | dqFromVec | pqFromIter | dqFromIter | pqFromQueue | dqFromQueue
  | pqDeserialize | dqDeserialize
  | pqIterMutNext | pqIterMutNextBack | pqIterMutLen | pqIterMutSizeHint | pqIterMutDrop
  | dqIterMutNext | dqIterMutNextBack | dqIterMutLen | dqIterMutSizeHint | dqIterMutDrop
  | pqIterMutNew | dqIterMutNew
  | pqSortedNext | dqSortedNext | dqSortedNextBack | dqSortedLen | dqSortedSizeHint
  | drainNext | drainNextBack | drainLen | drainSizeHint
  | iterNext | iterNextBack | iterLen | iterSizeHint
  | intoIterNext | intoIterNextBack | intoIterLen | intoIterSizeHint
  | storeIntoVec | pqIntoVec | dqIntoVec | pqIntoSortedVec | dqIntoAscVec | dqIntoDescVec
  | storeEq | storeSerialize
  deriving DecidableEq, Repr

/-- `usize`-valued expressions: pure except for faults -/
inductive NExpr where
  | lit (n : Nat)
  | var (v : Var)
  | add (a b : NExpr)
  | mul (a b : NExpr)
  | div (a b : NExpr)
  | mod (a b : NExpr)
  /-- checked subtraction: `.arith site` on underflow -/
  | sub (site : Nat) (a b : NExpr)
  | left (a : NExpr)
  | right (a : NExpr)
  | level (a : NExpr)
  /-- `parent(e)`: contains `e - 1`, checked -/
  | parent (site : Nat) (a : NExpr)
  /-- `self.len()` / `self.size` / `self.store.size` -/
  | len
  /-- `*heap.get_unchecked(e)` -/
  | heapGetU (site : Nat) (e : NExpr)
  /-- `*qp.get_unchecked(e)` -/
  | qpGetU (site : Nat) (e : NExpr)
  /-- `self.map.len()` -/
  | mapLen
  /-- `other.size` for the second store in value register `ov` -/
  | otherSize (ov : Var)
  /-- `v.len()` for the sequence in value register `v` -/
  | entriesLen (v : Var)
  /-- `a.min(b)` -/
  | min (a b : NExpr)
  /-- the lower bound of `iter.size_hint()` for the iterator in value register `v` -/
  | iterLo (v : Var)
  deriving Repr

/-- priority-valued expressions (`&P`) -/
inductive PExpr where
  | var (v : Var)
  /-- `map.get_index(e).unwrap().1` -/
  | mapPrio (site : Nat) (e : NExpr)
  /-- call of a translated function that returns `&P` -/
  | call (f : FnId) (args : List NExpr)
  deriving Repr

/-- boolean expressions; comparing two priorities increments `ticks` -/
inductive BExpr where
  | tt | ff
  | ltN (a b : NExpr) | leN (a b : NExpr) | gtN (a b : NExpr) | geN (a b : NExpr)
  | eqN (a b : NExpr) | neN (a b : NExpr)
  | ltP (a b : PExpr) | gtP (a b : PExpr)
  /-- short-circuit `&&` -/
  | and (a b : BExpr)
  /-- `f(i, p)` for the user predicate in value register `fv` on the entry `(i, p) = map.get_index_mut2(idx)`: the
      predicate may rewrite the item and the priority in place -/
  | predAt (fv idx : Var)
  /-- `o.is_some()` for the `Option<P>` in value register `v` -/
  | isSomeV (v : Var)
  /-- `!b` -/
  | not (a : BExpr)
  /-- `self.map.contains_key(&k)` for the item in value register `iv` -/
  | containsKey (iv : Var)
  /-- `self.get_priority(&item).map_or(true, |p| priority > *p)`: absent items answer `true` without a comparison -/
  | prioMapOrGt (iv : Var) (p : PExpr)
  /-- `self.get_priority(&item).map_or(true, |p| priority < *p)` -/
  | prioMapOrLt (iv : Var) (p : PExpr)
  /-- `self.map.insert(item, p).is_none()`: the insertion happens, the answer says whether the item was new -/
  | mapInsertIsNone (iv : Var) (p : PExpr)
  /-- `better_to_rebuild(a, b)` (generated `PQ.Arith.betterToRebuild`) -/
  | betterToRebuild (a b : NExpr)
  deriving Repr

/-- what a method of an iterator hands back (next to the new values of its cursor fields) -/
inductive OExpr where
  /-- nothing (a constructor of the iterator) -/
  | none
  /-- the `Option<(&mut I, &mut P)>` in value register `v` (made by `Stmt.setVSlot`) -/
  | slotV (v : Var)
  /-- `None` -/
  | slotNone
  /-- the raw-pointer reborrow of slot `e` as the tail expression (see `Stmt.setVSlot`) -/
  | slotAt (e : NExpr)
  /-- `len()`: a `usize` -/
  | len (e : NExpr)
  /-- `(len, Some(len))` -/
  | hint (e : NExpr)
  deriving Repr

inductive Stmt where
  | skip
  | seq (a b : Stmt)
  /-- `let v = e;` and `v = e;` -/
  | setN (v : Var) (e : NExpr)
  | setP (v : Var) (e : PExpr)
  /-- `let v = f(args);` for a translated `f` returning `usize` -/
  | callN (v : Var) (f : FnId) (nargs : List NExpr) (pargs : List PExpr)
  /-- `f(args);` -/
  | call (f : FnId) (nargs : List NExpr) (pargs : List PExpr)
  | ite (c : BExpr) (t e : Stmt)
  /-- `match (c1, c2) { (true,true) => tt, (true,false) => tf, (false,true) => ft, (false,false) => ff }` -/
  | match2 (c1 c2 : BExpr) (tt tf ft ff : Stmt)
  | while (c : BExpr) (body : Stmt)
  /-- `for v in (0..=hi).rev() body` -/
  | forRev (v : Var) (hi : NExpr) (body : Stmt)
  | brk
  | ret
  | retN (e : NExpr)
  | retP (e : PExpr)
  /-- `*heap.get_unchecked_mut(i) = x` -/
  | heapSetU (site : Nat) (i x : NExpr)
  /-- `*qp.get_unchecked_mut(i) = x` -/
  | qpSetU (site : Nat) (i x : NExpr)
  /-- `heap.swap(a, b)` -/
  | heapSwap (site : Nat) (a b : NExpr)
  /-- `qp.swap(a, b)` -/
  | qpSwap (site : Nat) (a b : NExpr)
  /-- `let v = heap.swap_remove(e);` -/
  | heapSwapRemove (v : Var) (site : Nat) (e : NExpr)
  /-- `let v = qp.swap_remove(e);` -/
  | qpSwapRemove (v : Var) (site : Nat) (e : NExpr)
  /-- `self.size -= 1;` -/
  | sizeDec (site : Nat)
  /-- `i = *[c1, …].iter().map_while(|i| heap.get(i)…).min_by_key(prio).unwrap().0`: first minimum;
      `siteP` = the `unwrap` of the priority read, `siteU` = the final `unwrap` -/
  | firstMinBy (v : Var) (siteP siteU : Nat) (cands : List NExpr)
  /-- the same with `max_by_key`: last maximum -/
  | lastMaxBy (v : Var) (siteP siteU : Nat) (cands : List NExpr)
  /-- `self.map.swap_remove_index(e)` as the function's result -/
  | retMapSwapRemoveIndex (e : NExpr)
  /-- `self.map.swap_remove_full(item).map(|(i, item, priority)| { body; (item, priority, res) })` as the function's
      result: register `key` holds the key that is looked up, register `vi` receives the slot index -/
  | removeFullThen (key vi : Var) (body : Stmt) (res : NExpr)
  /-- `if let Some(&v) = heap.get(e) { t } else { f }` (bounds-checked read) -/
  | ifHeapGet (v : Var) (e : NExpr) (t f : Stmt)
  /-- `v = *[c1, …].iter().max_by_key(|i| self.store.get_priority_from_position(**i)).unwrap()`: last maximum
      of the positions by the priority found there -/
  | lastMaxByPos (v : Var) (siteU : Nat) (cands : List NExpr)
  /-- `Some(e)` as the function's result -/
  | retSomeN (e : NExpr)
  /-- `None` as the function's result -/
  | retNone
  /-- `let v = f(args);` for a translated `f` returning an `Option<(I, P)>` (kept in a value register) -/
  | callV (v : Var) (f : FnId) (nargs : List NExpr)
  /-- the value register `v` as the function's result -/
  | retV (v : Var)
  /-- `None : Option<(I, P)>` as the function's result -/
  | retNoneE
  /-- `f(args).and_then(|v| tS)` for a translated `f` returning `Option<Position>`; `tN` is what `None` becomes -/
  | optCallN (v : Var) (f : FnId) (nargs : List NExpr) (tS tN : Stmt)
  /-- `self.store.remove(key).map(|(item, priority, pos)| { body; (item, priority) })` as the function's result -/
  | mapRemoved (key vpos : Var) (body : Stmt)
  /-- `self.heap.clear()` -/
  | heapClear
  /-- `self.qp.clear()` -/
  | qpClear
  /-- `self.map.clear()` -/
  | mapClear
  /-- `self.size = e` -/
  | sizeSet (e : NExpr)
  /-- `Drain { iter: self.map.drain(..) }` as the function's result: the entries leave the map (IndexMap's `Drain` empties
      it whether it is consumed, dropped or leaked: trusted base); the value records (ghost) the index tables and the
      size counter at this moment -/
  | retMapDrain
  /-- `self.map.retain2(f)` for the user predicate in value register `fv` -/
  | mapRetain2 (fv : Var)
  /-- `self.heap = (0..e).map(Index).collect()` -/
  | heapSetRange (e : NExpr)
  /-- `self.qp = (0..e).map(Position).collect()` -/
  | qpSetRange (e : NExpr)
  /-- the `unwrap` of `let (i, p) = self.map.get_index_mut2(idx).unwrap();` -/
  | entryMut2 (site : Nat) (idx : NExpr)
  /-- `map.get_full_mut(key).map(|(index, _, p)| body)` as the function's result (`onNone`: what `None` becomes) -/
  | getFullMutThen (key vidx : Var) (body onNone : Stmt)
  /-- `swap(p, &mut x)` where `p` is the priority slot of entry `idx` of the map and `x` a local priority -/
  | swapSlotPrio (idx : NExpr) (x : Var)
  /-- `setter(p)` where `p` is the priority slot of entry `idx` of the map -/
  | applySetterSlot (fv : Var) (idx : NExpr)
  /-- `Some((p, n))` as the function's result -/
  | retSomePN (p : PExpr) (n : NExpr)
  /-- `None : Option<(P, Position)>` as the function's result -/
  | retNonePN
  /-- `std::mem::swap(self, other)` for the second store in value register `ov` -/
  | swapSelfOther (ov : Var)
  /-- `other.drain()` (through the translated `Store::drain`): the entries go to value register `dst` -/
  | drainOther (ov dst : Var)
  /-- `for (k, v) in seq body` for the sequence in value register `src`: the item goes to value register `iv`, the
      priority to priority register `pv` -/
  | forEntries (src iv pv : Var) (body : Stmt)
  /-- `self.map.insert(k, v)` (`IndexMap::insert`: an equal key keeps its slot and its stored item, gets the priority) -/
  | mapInsert (iv : Var) (p : PExpr)
  /-- `self.heap.push(Index(e))` -/
  | heapPush (e : NExpr)
  /-- `self.qp.push(Position(e))` -/
  | qpPush (e : NExpr)
  /-- `self.size += 1` -/
  | sizeInc
  /-- `let v = f(nargs, pargs, vargs);` for a translated `f`: the returned value goes to value register `v` -/
  | callX (v : Var) (f : FnId) (nargs : List NExpr) (pargs : List PExpr) (vargs : List Var)
  /-- `self.map.get_index(e)` as the function's result -/
  | retMapGetIndex (e : NExpr)
  /-- `self.map.get_index_mut2(e).map(|(k, v)| (k, &*v))` as the function's result: slot and entry -/
  | retMapGetIndexMut2 (e : NExpr)
  /-- `let mut o = None;` for an `Option<P>` -/
  | setVNoneP (v : Var)
  /-- `match self.map.entry(item) { Occupied(e) => occ, Vacant(e) => vac }`: `eidx` receives `e.index()` -/
  | entryMatch (iv eidx : Var) (occ vac : Stmt)
  /-- `o = Some(replace(e.get_mut(), p))` for the occupied entry in slot `idx` -/
  | replaceSlotPrio (ov : Var) (idx : NExpr) (p : PExpr)
  /-- `e.insert(p)` for the vacant entry of the item in value register `iv` -/
  | vacantInsert (iv : Var) (p : PExpr)
  /-- `None : Option<P>` as the function's result -/
  | retNoneP
  /-- `Some(p)` as the function's result -/
  | retSomeP (p : PExpr)
  /-- `self.store.change_priority(item, p).map(|(r, pos)| { body; r })` as the function's result -/
  | mapChanged (key : Var) (p : PExpr) (vpos : Var) (body : Stmt)
  /-- `self.store.change_priority_by(item, setter).map(|pos| { body }).is_some()` as the function's result -/
  | mapChangedBy (key fv vpos : Var) (body : Stmt)
  /-- `None : Option<(&mut I, &P)>` as the function's result -/
  | retNoneSlot
  /-- `Store::with_hasher(..)` / `with_default_hasher()`: a fresh empty store -/
  | storeNew
  /-- `Store::with_capacity_and_hasher(e, ..)`: the capacity request (`reserveC`), then a fresh empty store -/
  | storeNewCap (e : NExpr)
  /-- `self.reserve(e)`: only the deterministic capacity-overflow panic is modelled (`reserveC`) -/
  | reserve (e : NExpr)
  /-- `let (_, i, p) = self.map.get_full_mut2(&item).unwrap();`: the slot of the item goes to register `vidx` -/
  | fullMut2 (site : Nat) (iv vidx : Var)
  /-- `*old_item = item` for the item slot of entry `idx` -/
  | slotSetItem (idx : NExpr) (iv : Var)
  /-- `*old_priority = p` for the priority slot of entry `idx` -/
  | slotSetPrio (idx : NExpr) (p : PExpr)
  /-- `if let Some(size) = seq.size_hint() { t } else { f }` -/
  | ifSeqHint (sv vsize : Var) (t f : Stmt)
  /-- `|i, p| predicate(&*i, &*p)`: a read-only predicate used where a mutating one is expected -/
  | adaptPred (dst src : Var)
  /-- `self.store.append(&mut other.store)` through the translated `Store::append`: `other` gets what is left of it -/
  | appendOther (ov : Var)
  /-- TRUSTED primitive "yield slot `e`": `self.pq.store.map.get_index_mut2(e).map(|(i, p)| (i as *mut I, p as *mut P))
      .map(|(i, p)| unsafe { (i.as_mut().unwrap(), p.as_mut().unwrap()) })` — the raw-pointer reborrow that gives the
      references the lifetime of the queue borrow; read as "`Some(slot e)` iff `e < map.len()`" -/
  | setVSlot (v : Var) (e : NExpr)
  /-- return from a method of an iterator: the (new) values of the cursor fields, passed by reference, and the result -/
  | retCursor (fields : List NExpr) (o : OExpr)
  /-- `self.iter.<method>()` for IndexMap's slice iterator (registers 0 and 1 are its two ends): TRUSTED as `Cursor.step` -/
  | retImapIter (c : ICall)
  /-- `self.map.into_iter().map(|(i, _)| i).collect()` -/
  | retMapItems
  /-- `let mut res = Vec::with_capacity(self.store.size)` -/
  | itemsNew (v : Var)
  /-- `res.push(i)` for the item of the entry in value register `ev` -/
  | itemsPush (res ev : Var)
  /-- `while let Some((i, _)) = self.f() { body }` for a translated `f` that returns `Option<(I, P)>`; the entry is put in
      value register `ev`; the next iteration costs one unit of fuel like `while` -/
  | whileSomeCall (ev : Var) (f : FnId) (body : Stmt)
  /-- `self.map == other.map` (IndexMap's `PartialEq`, TRUSTED as `IMap.eqv` with the user's `P1: PartialEq<P2>` in value
      register `fv`) -/
  | retMapEqBy (ov fv : Var)
  /-- `&self.map` as a sequence of entries in slot order -/
  | setVMapEntries (v : Var)
  /-- `serializer.serialize_seq(Some(e))?` (the serializer is trusted not to fail): an empty output announcing `e` elements -/
  | serBegin (v : Var) (e : NExpr)
  /-- `map_serializer.serialize_element(&(k, v))?` -/
  | serElement (sv iv pv : Var)
  deriving Repr

/-- a translated function: its `usize` parameters, its priority parameters, its body -/
structure Fn where
  nparams : List Var
  pparams : List Var
  body : Stmt
  /-- parameters that are neither `usize` nor `&P` / `P`: items, closures (kept in value registers) -/
  vparams : List Var := []
  deriving Repr

abbrev Prog := FnId → Option Fn

variable {P : Type}

/-- what a function hands back -/
inductive Val (P : Type) where
  | unit
  | nat (n : Nat)
  | prio (p : P)
  | optEntry (e : Option (Item × P))
  | optRemoved (r : Option (Item × P × Nat))
  | optNat (r : Option Nat)
  /-- an item, opaque to the IR -/
  | item (it : Item)
  /-- a user predicate `FnMut(&mut I, &mut P) -> bool`: what it answers and what it leaves in the item and the priority -/
  | pred (f : Item → P → Bool × Item × P)
  /-- a user setter `FnOnce(&mut P)` -/
  | setter (g : P → P)
  | optP (o : Option P)
  | optPPos (o : Option (P × Nat))
  | bool (b : Bool)
  /-- what `drain` hands out: the entries, and (ghost) the index tables and the size counter at the moment the
      draining iterator is created -/
  | drained (es : Array (Item × P)) (heap qp : Array Nat) (size : Nat)
  /-- a second store (`other` of `append`) -/
  | store (o : Store P)
  /-- `Option<(&mut I, &P)>`: the slot of the map that is handed out mutably, with its entry -/
  | optSlot (o : Option (Nat × Item × P))
  /-- an iterator over (item, priority) pairs: the lower bound of its `size_hint` and what it yields -/
  | iter (lo : Nat) (xs : Array (Item × P))
  /-- a serde `SeqAccess`: the length the input announces (if any) and the pairs it contains -/
  | seq (hint : Option Nat) (xs : Array (Item × P))
  /-- a user predicate `FnMut(&I, &P) -> bool` -/
  | predRO (g : Item → P → Bool)
  /-- a sequence of (item, priority) pairs: a `Vec`, what an iterator yields, what `drain` hands out -/
  | entries (a : Array (Item × P))
  /-- what a method of an iterator hands back: the values of its cursor fields (by reference) and its result -/
  | cursor (fields : List Nat) (out : Option IOut)
  /-- a `Vec<I>` -/
  | items (l : List Item)
  /-- the user's `P1: PartialEq<P2>` -/
  | eqP (f : P → P → Bool)

inductive Flow (P : Type) where
  | normal
  | brk
  | ret (v : Val P)

/-- interpreter state: the store and the register files (`usize`, `&P`, returned values) -/
structure St (P : Type) where
  s : Store P
  n : Var → Nat
  p : Var → Option P
  v : Var → Option (Val P) := fun _ => none

@[inline] def upd {α : Type} (f : Var → α) (v : Var) (x : α) : Var → α := fun w => if w = v then x else f w

@[simp] theorem upd_same {α : Type} (f : Var → α) (v : Var) (x : α) : upd f v x v = x := by simp [upd]
theorem upd_other {α : Type} (f : Var → α) (v w : Var) (x : α) (h : w ≠ v) : upd f v x w = f w := by simp [upd, h]

@[inline] def St.setN (st : St P) (v : Var) (x : Nat) : St P := { st with n := upd st.n v x }
@[inline] def St.setP (st : St P) (v : Var) (x : P) : St P := { st with p := upd st.p v (some x) }
@[inline] def St.setS (st : St P) (s : Store P) : St P := { st with s := s }
@[inline] def St.setV (st : St P) (v : Var) (x : Val P) : St P := { st with v := upd st.v v (some x) }

def bindN : List Var → List Nat → (Var → Nat)
  | v :: vs, x :: xs => upd (bindN vs xs) v x
  | _, _ => fun _ => 0

def bindP : List Var → List P → (Var → Option P)
  | v :: vs, x :: xs => upd (bindP vs xs) v (some x)
  | _, _ => fun _ => none

def bindV : List Var → List (Val P) → (Var → Option (Val P))
  | v :: vs, x :: xs => upd (bindV vs xs) v (some x)
  | _, _ => fun _ => none

/-! ## expressions -/

def evalN (st : St P) : NExpr → R Nat
  | .min a b => do let x ← evalN st a; let y ← evalN st b; pure (Nat.min x y)
  | .iterLo v => match st.v v with
    | some (.iter lo _) => pure lo
    | _ => .error stuck
  | .otherSize ov => match st.v ov with
    | some (.store o) => pure o.size
    | _ => .error stuck
  | .entriesLen v => match st.v v with
    | some (.entries a) => pure a.size
    | _ => .error stuck
  | .lit n => pure n
  | .var v => pure (st.n v)
  | .add a b => do let x ← evalN st a; let y ← evalN st b; pure (x + y)
  | .mul a b => do let x ← evalN st a; let y ← evalN st b; pure (x * y)
  | .div a b => do let x ← evalN st a; let y ← evalN st b; pure (x / y)
  | .mod a b => do let x ← evalN st a; let y ← evalN st b; pure (x % y)
  | .sub site a b => do
    let x ← evalN st a; let y ← evalN st b
    if x < y then .error (.arith site) else pure (x - y)
  | .left a => do let x ← evalN st a; pure (left x)
  | .right a => do let x ← evalN st a; pure (right x)
  | .level a => do let x ← evalN st a; pure (level x)
  | .parent site a => do
    let x ← evalN st a
    if x = 0 then .error (.arith site) else pure (parent x)
  | .len => pure st.s.size
  | .heapGetU site e => do let i ← evalN st e; getU st.s.heap i site
  | .qpGetU site e => do let i ← evalN st e; getU st.s.qp i site
  | .mapLen => pure st.s.map.size

def evalNs (st : St P) : List NExpr → R (List Nat)
  | [] => pure []
  | e :: es => do let x ← evalN st e; let xs ← evalNs st es; pure (x :: xs)

/-- the result of a method of an iterator -/
def evalO (st : St P) : OExpr → R (Option IOut)
  | .none => pure none
  | .slotV v => match st.v v with
    | some (.optNat o) => pure (some (.slot o))
    | _ => .error stuck
  | .slotNone => pure (some (.slot none))
  | .slotAt e => do
    let x ← evalN st e
    pure (some (.slot (if x < st.s.map.size then some x else none)))
  | .len e => do let x ← evalN st e; pure (some (.len x))
  | .hint e => do let x ← evalN st e; pure (some (.hint x (some x)))

/-- IndexMap's `==` for a given equality of the values: same length and every entry of the left found with an equal value
in the right (`IMap.eqv` is this for `decide (· = ·)`) -/
def eqvBy (f : P → P → Bool) (a b : IMap P) : Bool :=
  a.size == b.size && a.all fun e =>
    match IMap.getFull b e.1.key with
    | some (_, _, q) => f e.2 q
    | none => false

/-- the type of the "call a translated function" callback -/
abbrev CallF (P : Type) := FnId → Store P → List Nat → List P → List (Val P) → R (Store P × Val P)

def evalP (callf : CallF P) (st : St P) : PExpr → R (Store P × P)
  | .var v => match st.p v with
    | some p => pure (st.s, p)
    | none => .error stuck
  | .mapPrio site e => do
    let i ← evalN st e
    let en ← unwrapO (st.s.map.getIndex i) site
    pure (st.s, en.2)
  | .call f args => do
    let xs ← evalNs st args
    let (s, v) ← callf f st.s xs [] []
    match v with
    | .prio p => pure (s, p)
    | _ => .error stuck

/-- the values of the listed value registers -/
def evalVs (st : St P) : List Var → R (List (Val P))
  | [] => pure []
  | v :: vs => match st.v v with
    | some x => do let xs ← evalVs st vs; pure (x :: xs)
    | none => .error stuck

def evalPs (callf : CallF P) (st : St P) : List PExpr → R (Store P × List P)
  | [] => pure (st.s, [])
  | e :: es => do
    let (s, x) ← evalP callf st e
    let (s, xs) ← evalPs callf (st.setS s) es
    pure (s, x :: xs)

section
variable [LT P] [DecidableLT P]

def evalB (callf : CallF P) (st : St P) : BExpr → R (Store P × Bool)
  | .tt => pure (st.s, true)
  | .ff => pure (st.s, false)
  | .ltN a b => do let x ← evalN st a; let y ← evalN st b; pure (st.s, decide (x < y))
  | .leN a b => do let x ← evalN st a; let y ← evalN st b; pure (st.s, decide (x ≤ y))
  | .gtN a b => do let x ← evalN st a; let y ← evalN st b; pure (st.s, decide (x > y))
  | .geN a b => do let x ← evalN st a; let y ← evalN st b; pure (st.s, decide (x ≥ y))
  | .eqN a b => do let x ← evalN st a; let y ← evalN st b; pure (st.s, decide (x = y))
  | .neN a b => do let x ← evalN st a; let y ← evalN st b; pure (st.s, decide (x ≠ y))
  | .ltP a b => do
    let (s, x) ← evalP callf st a
    let (s, y) ← evalP callf (st.setS s) b
    pure (s.tick, decide (x < y))
  | .gtP a b => do
    let (s, x) ← evalP callf st a
    let (s, y) ← evalP callf (st.setS s) b
    pure (s.tick, decide (y < x))
  | .and a b => do
    let (s, x) ← evalB callf st a
    if x then evalB callf (st.setS s) b else pure (s, false)
  | .predAt fv idx =>
    match st.v fv, st.s.map[st.n idx]? with
    | some (.pred f), some e =>
      let r := f e.1 e.2
      pure ({ st.s with map := st.s.map.setIfInBounds (st.n idx) (r.2.1, r.2.2) }, r.1)
    | _, _ => .error stuck
  | .isSomeV v =>
    match st.v v with
    | some (.optP o) => pure (st.s, o.isSome)
    | _ => .error stuck
  | .not a => do
    let (s, x) ← evalB callf st a
    pure (s, !x)
  | .containsKey iv =>
    match st.v iv with
    | some (.item it) => pure (st.s, st.s.map.contains it.key)
    | _ => .error stuck
  | .prioMapOrGt iv p => do
    let (s, x) ← evalP callf st p
    match st.v iv with
    | some (.item it) =>
      match s.getPriority it.key with
      | none => pure (s, true)
      | some q => pure (s.tick, decide (q < x))
    | _ => .error stuck
  | .mapInsertIsNone iv p => do
    let (s, x) ← evalP callf st p
    match st.v iv with
    | some (.item it) =>
      let r := s.map.insertFull it x
      pure ({ s with map := r.1 }, r.2.2.isNone)
    | _ => .error stuck
  | .betterToRebuild a b => do
    let x ← evalN st a
    let y ← evalN st b
    pure (st.s, betterToRebuild x y)
  | .prioMapOrLt iv p => do
    let (s, x) ← evalP callf st p
    match st.v iv with
    | some (.item it) =>
      match s.getPriority it.key with
      | none => pure (s, true)
      | some q => pure (s.tick, decide (x < q))
    | _ => .error stuck

/-! ## the candidate selection of `heapify_min` / `heapify_max` -/

/-- `[c1, …].iter().map_while(|i| heap.get(i.0).map(|index| (i, index)))` with the key closure
`map.get_index(index.0).map(|(_, p)| p).unwrap()` evaluated on each element that is produced -/
def candList (s : Store P) (siteP : Nat) : List Nat → R (List (Nat × P))
  | [] => pure []
  | c :: cs =>
    match s.heap[c]? with
    | none => pure []
    | some idx => do
      let e ← unwrapO (s.map.getIndex idx) siteP
      let rest ← candList s siteP cs
      pure ((c, e.2) :: rest)

/-- `Iterator::min_by_key`: keeps the accumulator unless the next key is strictly smaller -/
def firstMin : List (Nat × P) → Option (Nat × P)
  | [] => none
  | x :: xs => some (xs.foldl (fun acc y => if y.2 < acc.2 then y else acc) x)

/-- `Iterator::max_by_key`: takes the next element unless the accumulator is strictly greater -/
def lastMax : List (Nat × P) → Option (Nat × P)
  | [] => none
  | x :: xs => some (xs.foldl (fun acc y => if y.2 < acc.2 then acc else y) x)

/-- the keys `get_priority_from_position(c)` of the candidates, in order (through the translated function) -/
def keysByPrioAt (callf : CallF P) : Store P → List Nat → R (Store P × List (Nat × P))
  | s, [] => pure (s, [])
  | s, c :: cs => do
    let (s, v) ← callf .storePrioAt s [c] [] []
    match v with
    | .prio p => do
      let (s, rest) ← keysByPrioAt callf s cs
      pure (s, (c, p) :: rest)
    | _ => .error stuck

/-! ## statements -/

/-- `for k in (0..=h).rev()` -/
def forDown (body : Nat → St P → R (St P × Flow P)) : Nat → St P → R (St P × Flow P)
  | 0, st => do
    let (st, fl) ← body 0 st
    match fl with
    | .ret v => pure (st, .ret v)
    | _ => pure (st, .normal)
  | k + 1, st => do
    let (st, fl) ← body (k + 1) st
    match fl with
    | .normal => forDown body k st
    | .brk => pure (st, .normal)
    | .ret v => pure (st, .ret v)

/-- `for e in list` -/
def forList (body : Item × P → St P → R (St P × Flow P)) : List (Item × P) → St P → R (St P × Flow P)
  | [], st => pure (st, .normal)
  | e :: es, st => do
    let (st, fl) ← body e st
    match fl with
    | .normal => forList body es st
    | .brk => pure (st, .normal)
    | .ret v => pure (st, .ret v)

/-- one level of the interpreter: `rec` runs a statement with one unit of fuel less (used for the next
iteration of a `while`), `callf` calls a translated function (also with one unit less) -/
def execStep (rec : Stmt → St P → R (St P × Flow P)) (callf : CallF P) : Stmt → St P → R (St P × Flow P)
  | .skip, st => pure (st, .normal)
  | .seq a b, st => do
    let (st, fl) ← execStep rec callf a st
    match fl with
    | .normal => execStep rec callf b st
    | fl => pure (st, fl)
  | .setN v e, st => do
    let x ← evalN st e
    pure (st.setN v x, .normal)
  | .setP v e, st => do
    let (s, x) ← evalP callf st e
    pure ((st.setS s).setP v x, .normal)
  | .callN v f nargs pargs, st => do
    let xs ← evalNs st nargs
    let (s, ps) ← evalPs callf st pargs
    let (s, r) ← callf f s xs ps []
    match r with
    | .nat x => pure ((st.setS s).setN v x, .normal)
    | _ => .error stuck
  | .call f nargs pargs, st => do
    let xs ← evalNs st nargs
    let (s, ps) ← evalPs callf st pargs
    let (s, _) ← callf f s xs ps []
    pure (st.setS s, .normal)
  | .ite c t e, st => do
    let (s, b) ← evalB callf st c
    if b then execStep rec callf t (st.setS s) else execStep rec callf e (st.setS s)
  | .match2 c1 c2 tt tf ft ff, st => do
    let (s, b1) ← evalB callf st c1
    let (s, b2) ← evalB callf (st.setS s) c2
    match b1, b2 with
    | true, true => execStep rec callf tt (st.setS s)
    | true, false => execStep rec callf tf (st.setS s)
    | false, true => execStep rec callf ft (st.setS s)
    | false, false => execStep rec callf ff (st.setS s)
  | .while c body, st => do
    let (s, b) ← evalB callf st c
    if b then do
      let (st, fl) ← execStep rec callf body (st.setS s)
      match fl with
      | .normal => rec (.while c body) st
      | .brk => pure (st, .normal)
      | .ret v => pure (st, .ret v)
    else pure (st.setS s, .normal)
  | .forRev v hi body, st => do
    let h ← evalN st hi
    forDown (fun k st => execStep rec callf body (st.setN v k)) h st
  | .brk, st => pure (st, .brk)
  | .ret, st => pure (st, .ret .unit)
  | .retN e, st => do
    let x ← evalN st e
    pure (st, .ret (.nat x))
  | .retP e, st => do
    let (s, x) ← evalP callf st e
    pure (st.setS s, .ret (.prio x))
  | .heapSetU site i x, st => do
    let i ← evalN st i
    let x ← evalN st x
    let heap ← setU st.s.heap i x site
    pure (st.setS { st.s with heap := heap }, .normal)
  | .qpSetU site i x, st => do
    let i ← evalN st i
    let x ← evalN st x
    let qp ← setU st.s.qp i x site
    pure (st.setS { st.s with qp := qp }, .normal)
  | .heapSwap site a b, st => do
    let a ← evalN st a
    let b ← evalN st b
    let heap ← swapC st.s.heap a b site
    pure (st.setS { st.s with heap := heap }, .normal)
  | .qpSwap site a b, st => do
    let a ← evalN st a
    let b ← evalN st b
    let qp ← swapC st.s.qp a b site
    pure (st.setS { st.s with qp := qp }, .normal)
  | .heapSwapRemove v site e, st => do
    let i ← evalN st e
    let (x, heap) ← swapRemoveC st.s.heap i site
    pure ((st.setS { st.s with heap := heap }).setN v x, .normal)
  | .qpSwapRemove v site e, st => do
    let i ← evalN st e
    let (x, qp) ← swapRemoveC st.s.qp i site
    pure ((st.setS { st.s with qp := qp }).setN v x, .normal)
  | .sizeDec site, st => do
    let size ← decC st.s.size site
    pure (st.setS { st.s with size := size }, .normal)
  | .firstMinBy v siteP siteU cands, st => do
    let cs ← evalNs st cands
    let l ← candList st.s siteP cs
    let c ← unwrapO (firstMin l) siteU
    pure ((st.setS (st.s.tick (l.length - 1))).setN v c.1, .normal)
  | .lastMaxBy v siteP siteU cands, st => do
    let cs ← evalNs st cands
    let l ← candList st.s siteP cs
    let c ← unwrapO (lastMax l) siteU
    pure ((st.setS (st.s.tick (l.length - 1))).setN v c.1, .normal)
  | .retMapSwapRemoveIndex e, st => do
    let i ← evalN st e
    match st.s.map.swapRemoveIndex i with
    | some (en, map) => pure (st.setS { st.s with map := map }, .ret (.optEntry (some en)))
    | none => pure (st, .ret (.optEntry none))
  | .removeFullThen key vi body res, st =>
    match st.s.map.swapRemoveFull (st.n key) with
    | none => pure (st, .ret (.optRemoved none))
    | some (i, e, map) => do
      let (st, fl) ← execStep rec callf body ((st.setS { st.s with map := map }).setN vi i)
      match fl with
      | .normal => do
        let p ← evalN st res
        pure (st, .ret (.optRemoved (some (e.1, e.2, p))))
      | _ => .error stuck
  | .ifHeapGet v e t f, st => do
    let i ← evalN st e
    match st.s.heap[i]? with
    | some x => execStep rec callf t (st.setN v x)
    | none => execStep rec callf f st
  | .lastMaxByPos v siteU cands, st => do
    let cs ← evalNs st cands
    let (s, l) ← keysByPrioAt callf st.s cs
    let c ← unwrapO (lastMax l) siteU
    pure ((st.setS (s.tick (l.length - 1))).setN v c.1, .normal)
  | .retSomeN e, st => do
    let x ← evalN st e
    pure (st, .ret (.optNat (some x)))
  | .retNone, st => pure (st, .ret (.optNat none))
  | .callV v f nargs, st => do
    let xs ← evalNs st nargs
    let (s, r) ← callf f st.s xs [] []
    pure ((st.setS s).setV v r, .normal)
  | .retV v, st =>
    match st.v v with
    | some r => pure (st, .ret r)
    | none => .error stuck
  | .retNoneE, st => pure (st, .ret (.optEntry none))
  | .optCallN v f nargs tS tN, st => do
    let xs ← evalNs st nargs
    let (s, r) ← callf f st.s xs [] []
    match r with
    | .optNat (some x) => execStep rec callf tS ((st.setS s).setN v x)
    | .optNat none => execStep rec callf tN (st.setS s)
    | _ => .error stuck
  | .mapRemoved key vpos body, st => do
    let (s, r) ← callf .storeRemove st.s [st.n key] [] []
    match r with
    | .optRemoved none => pure (st.setS s, .ret (.optEntry none))
    | .optRemoved (some (it, p, pos)) => do
      let (st, fl) ← execStep rec callf body ((st.setS s).setN vpos pos)
      match fl with
      | .normal => pure (st, .ret (.optEntry (some (it, p))))
      | _ => .error stuck
    | _ => .error stuck
  | .heapClear, st => pure (st.setS { st.s with heap := #[] }, .normal)
  | .qpClear, st => pure (st.setS { st.s with qp := #[] }, .normal)
  | .mapClear, st => pure (st.setS { st.s with map := #[] }, .normal)
  | .sizeSet e, st => do
    let x ← evalN st e
    pure (st.setS { st.s with size := x }, .normal)
  | .retMapDrain, st =>
    pure (st.setS { st.s with map := #[] }, .ret (.drained st.s.map st.s.heap st.s.qp st.s.size))
  | .mapRetain2 fv, st =>
    match st.v fv with
    | some (.pred f) => pure (st.setS { st.s with map := st.s.map.retain f }, .normal)
    | _ => .error stuck
  | .heapSetRange e, st => do
    let x ← evalN st e
    pure (st.setS { st.s with heap := Array.range x }, .normal)
  | .qpSetRange e, st => do
    let x ← evalN st e
    pure (st.setS { st.s with qp := Array.range x }, .normal)
  | .entryMut2 site idx, st => do
    let i ← evalN st idx
    let _ ← unwrapO (st.s.map.getIndex i) site
    pure (st, .normal)
  | .getFullMutThen key vidx body onNone, st =>
    match st.s.map.getFull (st.n key) with
    | some (index, _, _) => execStep rec callf body (st.setN vidx index)
    | none => execStep rec callf onNone st
  | .swapSlotPrio idx x, st => do
    let i ← evalN st idx
    match st.s.map[i]?, st.p x with
    | some e, some q =>
      pure ((st.setS { st.s with map := st.s.map.setIfInBounds i (e.1, q) }).setP x e.2, .normal)
    | _, _ => .error stuck
  | .applySetterSlot fv idx, st => do
    let i ← evalN st idx
    match st.v fv, st.s.map[i]? with
    | some (.setter g), some e =>
      pure (st.setS { st.s with map := st.s.map.setIfInBounds i (e.1, g e.2) }, .normal)
    | _, _ => .error stuck
  | .retSomePN p n, st => do
    let (s, x) ← evalP callf st p
    let y ← evalN (st.setS s) n
    pure (st.setS s, .ret (.optPPos (some (x, y))))
  | .retNonePN, st => pure (st, .ret (.optPPos none))
  | .swapSelfOther ov, st =>
    match st.v ov with
    | some (.store o) => pure ((st.setV ov (.store st.s)).setS o, .normal)
    | _ => .error stuck
  | .drainOther ov dst, st =>
    match st.v ov with
    | some (.store o) => do
      let (o', r) ← callf .storeDrain o [] [] []
      match r with
      | .drained es _ _ _ => pure ((st.setV ov (.store o')).setV dst (.entries es), .normal)
      | _ => .error stuck
    | _ => .error stuck
  | .forEntries src iv pv body, st =>
    match st.v src with
    | some (.entries a) =>
      forList (fun e st => execStep rec callf body ((st.setV iv (.item e.1)).setP pv e.2)) a.toList st
    | some (.iter _ a) =>
      forList (fun e st => execStep rec callf body ((st.setV iv (.item e.1)).setP pv e.2)) a.toList st
    | some (.seq _ a) =>
      forList (fun e st => execStep rec callf body ((st.setV iv (.item e.1)).setP pv e.2)) a.toList st
    | _ => .error stuck
  | .mapInsert iv p, st => do
    let (s, x) ← evalP callf st p
    match st.v iv with
    | some (.item it) => pure (st.setS { s with map := (s.map.insertFull it x).1 }, .normal)
    | _ => .error stuck
  | .heapPush e, st => do
    let x ← evalN st e
    pure (st.setS { st.s with heap := st.s.heap.push x }, .normal)
  | .qpPush e, st => do
    let x ← evalN st e
    pure (st.setS { st.s with qp := st.s.qp.push x }, .normal)
  | .sizeInc, st => pure (st.setS { st.s with size := st.s.size + 1 }, .normal)
  | .callX v f nargs pargs vargs, st => do
    let xs ← evalNs st nargs
    let (s, ps) ← evalPs callf st pargs
    let vs ← evalVs st vargs
    let (s, r) ← callf f s xs ps vs
    pure ((st.setS s).setV v r, .normal)
  | .retMapGetIndex e, st => do
    let i ← evalN st e
    pure (st, .ret (.optEntry (st.s.map.getIndex i)))
  | .retMapGetIndexMut2 e, st => do
    let i ← evalN st e
    pure (st, .ret (.optSlot ((st.s.map.getIndex i).map fun en => (i, en.1, en.2))))
  | .setVNoneP v, st => pure (st.setV v (.optP none), .normal)
  | .entryMatch iv eidx occ vac, st =>
    match st.v iv with
    | some (.item it) =>
      match st.s.map.find? it.key with
      | some i => execStep rec callf occ (st.setN eidx i)
      | none => execStep rec callf vac st
    | _ => .error stuck
  | .replaceSlotPrio ov idx p, st => do
    let i ← evalN st idx
    let (s, x) ← evalP callf st p
    match s.map[i]? with
    | some e => pure ((st.setS { s with map := s.map.setIfInBounds i (e.1, x) }).setV ov (.optP (some e.2)), .normal)
    | none => .error stuck
  | .vacantInsert iv p, st => do
    let (s, x) ← evalP callf st p
    match st.v iv with
    | some (.item it) => pure (st.setS { s with map := s.map.push (it, x) }, .normal)
    | _ => .error stuck
  | .retNoneP, st => pure (st, .ret (.optP none))
  | .retSomeP p, st => do
    let (s, x) ← evalP callf st p
    pure (st.setS s, .ret (.optP (some x)))
  | .mapChanged key p vpos body, st => do
    let (s, x) ← evalP callf st p
    let (s, r) ← callf .storeChangePriority s [st.n key] [x] []
    match r with
    | .optPPos none => pure (st.setS s, .ret (.optP none))
    | .optPPos (some (old, pos)) => do
      let (st, fl) ← execStep rec callf body ((st.setS s).setN vpos pos)
      match fl with
      | .normal => pure (st, .ret (.optP (some old)))
      | _ => .error stuck
    | _ => .error stuck
  | .retNoneSlot, st => pure (st, .ret (.optSlot none))
  | .storeNew, st => pure (st.setS Store.empty, .normal)
  | .storeNewCap e, st => do
    let x ← evalN st e
    reserveC x
    pure (st.setS Store.empty, .normal)
  | .reserve e, st => do
    let x ← evalN st e
    reserveC x
    pure (st, .normal)
  | .fullMut2 site iv vidx, st =>
    match st.v iv with
    | some (.item it) => do
      let i ← unwrapO (st.s.map.find? it.key) site
      pure (st.setN vidx i, .normal)
    | _ => .error stuck
  | .slotSetItem idx iv, st => do
    let i ← evalN st idx
    match st.v iv with
    | some (.item it) => pure (st.setS { st.s with map := st.s.map.setItem i it }, .normal)
    | _ => .error stuck
  | .slotSetPrio idx p, st => do
    let i ← evalN st idx
    let (s, x) ← evalP callf st p
    pure (st.setS { s with map := s.map.setPrio i x }, .normal)
  | .ifSeqHint sv vsize t f, st =>
    match st.v sv with
    | some (.seq (some h) _) => execStep rec callf t (st.setN vsize h)
    | some (.seq none _) => execStep rec callf f st
    | _ => .error stuck
  | .adaptPred dst src, st =>
    match st.v src with
    | some (.predRO g) => pure (st.setV dst (.pred fun i p => (g i p, i, p)), .normal)
    | _ => .error stuck
  | .appendOther ov, st =>
    match st.v ov with
    | some (.store o) => do
      let (s, r) ← callf .storeAppend st.s [] [] [.store o]
      match r with
      | .store o' => pure ((st.setS s).setV ov (.store o'), .normal)
      | _ => .error stuck
    | _ => .error stuck
  | .mapChangedBy key fv vpos body, st =>
    match st.v fv with
    | some g => do
      let (s, r) ← callf .storeChangePriorityBy st.s [st.n key] [] [g]
      match r with
      | .optNat none => pure (st.setS s, .ret (.bool false))
      | .optNat (some pos) => do
        let (st, fl) ← execStep rec callf body ((st.setS s).setN vpos pos)
        match fl with
        | .normal => pure (st, .ret (.bool true))
        | _ => .error stuck
      | _ => .error stuck
    | none => .error stuck

  | .setVSlot v e, st => do
    let x ← evalN st e
    pure (st.setV v (.optNat (if x < st.s.map.size then some x else none)), .normal)
  | .retCursor fields o, st => do
    let fs ← evalNs st fields
    let out ← evalO st o
    pure (st, .ret (.cursor fs out))
  | .retImapIter c, st =>
    let r := Cursor.step ⟨st.n 0, st.n 1⟩ c
    pure (st, .ret (.cursor [r.1.front, r.1.back] (some r.2)))
  | .retMapItems, st => pure (st, .ret (.items (st.s.map.toList.map fun e => e.1)))
  | .itemsNew v, st => pure (st.setV v (.items []), .normal)
  | .itemsPush res ev, st =>
    match st.v res, st.v ev with
    | some (.items l), some (.optEntry (some e)) => pure (st.setV res (.items (l ++ [e.1])), .normal)
    | _, _ => .error stuck
  | .whileSomeCall ev f body, st => do
    let (s, r) ← callf f st.s [] [] []
    match r with
    | .optEntry (some e) => do
      let (st, fl) ← execStep rec callf body ((st.setS s).setV ev (.optEntry (some e)))
      match fl with
      | .normal => rec (.whileSomeCall ev f body) st
      | .brk => pure (st, .normal)
      | .ret v => pure (st, .ret v)
    | .optEntry none => pure (st.setS s, .normal)
    | _ => .error stuck
  | .retMapEqBy ov fv, st =>
    match st.v ov, st.v fv with
    | some (.store o), some (.eqP f) => pure (st, .ret (.bool (eqvBy f st.s.map o.map)))
    | _, _ => .error stuck
  | .setVMapEntries v, st => pure (st.setV v (.entries st.s.map), .normal)
  | .serBegin v e, st => do
    let x ← evalN st e
    pure (st.setV v (.seq (some x) #[]), .normal)
  | .serElement sv iv pv, st =>
    match st.v sv, st.v iv, st.p pv with
    | some (.seq h xs), some (.item it), some p => pure (st.setV sv (.seq h (xs.push (it, p))), .normal)
    | _, _, _ => .error stuck

/-- call of a translated function: fresh registers holding the arguments, run the body, take the
returned value (falling off the end returns `()`) -/
def callWith (ex : Stmt → St P → R (St P × Flow P)) (prog : Prog) : CallF P :=
  fun f s nargs pargs vargs =>
    match prog f with
    | none => .error stuck
    | some fn => do
      let (st, fl) ← ex fn.body
        { s := s, n := bindN fn.nparams nargs, p := bindP fn.pparams pargs, v := bindV fn.vparams vargs }
      match fl with
      | .ret v => pure (st.s, v)
      | .normal => pure (st.s, .unit)
      | .brk => .error stuck

/-- the interpreter: structurally recursive on `fuel`; every `while` iteration after the first and every
call of a translated function costs one unit -/
def exec (prog : Prog) : Nat → Stmt → St P → R (St P × Flow P)
  | 0, _, _ => .error .fuel
  | fuel + 1, c, st => execStep (exec prog fuel) (callWith (exec prog fuel) prog) c st

/-- run the translated function `f` of `prog` on the store `s` with the given arguments -/
def run (prog : Prog) (fuel : Nat) (f : FnId) (s : Store P) (nargs : List Nat) (pargs : List P := [])
    (vargs : List (Val P) := []) : R (Store P × Val P) :=
  callWith (exec prog fuel) prog f s nargs pargs vargs

end
end PQ.Src
