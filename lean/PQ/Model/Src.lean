import PQ.Model.Store
import PQ.Model.Arith
/-!
# A small deep-embedded IR for the index-table / heap functions of the crate, and its interpreter

`tools/gen_src.py` parses the Rust functions listed in `PQ/Model/SRC_README.md` and emits, in
`PQ/Model/SrcGen.lean`, one closed term of the types below per function.  This file gives those terms
their meaning: a total big-step interpreter with a fuel argument, over the model's `Store P` (including
the ghost counter `ticks`), in the model's `R` monad.  `PQ/Lemmas/SrcEquiv*.lean` prove that the
hand-written model functions compute exactly what the interpreter computes on the generated terms.

Only core Lean is imported.  The IR is deliberately specific to what these functions need.

Conventions
* `usize` is `Nat`; the newtypes `Position` / `Index` are erased.
* local variables are numbered by the translator (`Var = Nat`); there are two register files, one for
  `usize` values and one for priority values (`&P`: the map is never changed by the translated
  functions of phases 1 and 3 while such a reference is live; where it is, the translator refuses).
* every memory primitive carries the fault-site number the hand model uses for the same access.
* an ill-formed term (unbound priority register, unknown function, `break` outside a loop, wrong kind of
  return value) evaluates to the reserved fault `stuck`; the equivalence theorems show it never occurs.
-/
namespace PQ.Src
open PQ PQ.Arith

/-- reserved fault of the interpreter for ill-formed IR (no model function ever returns it) -/
def stuck : Fault := .unwrapNone 9999

abbrev Var := Nat

/-- the Rust functions the translator knows about -/
inductive FnId where
  | storeSwap | storePrioAt | storeSwapRemove | storeRemove
  | pqHeapify | pqBubbleUp | pqUpHeapify | pqHeapBuild
  | dqHeapify | dqHeapifyMin | dqHeapifyMax | dqBubbleUp | dqBubbleUpMin | dqBubbleUpMax
  | dqUpHeapify | dqHeapBuild | dqFindMax
  | dqFindMin | pqPop | pqRemove | dqPopMin | dqPopMax | dqRemove
  deriving DecidableEq, Repr

/-- `usize`-valued expressions: pure except for faults -/
inductive NExpr where
  | lit (n : Nat)
  | var (v : Var)
  | add (a b : NExpr)
  | mul (a b : NExpr)
  | div (a b : NExpr)
  | mod (a b : NExpr)
  /-- checked subtraction: `.arith site` on underflow -/
  | sub (site : Nat) (a b : NExpr)
  | left (a : NExpr)
  | right (a : NExpr)
  | level (a : NExpr)
  /-- `parent(e)`: contains `e - 1`, checked -/
  | parent (site : Nat) (a : NExpr)
  /-- `self.len()` / `self.size` / `self.store.size` -/
  | len
  /-- `*heap.get_unchecked(e)` -/
  | heapGetU (site : Nat) (e : NExpr)
  /-- `*qp.get_unchecked(e)` -/
  | qpGetU (site : Nat) (e : NExpr)
  deriving Repr

/-- priority-valued expressions (`&P`) -/
inductive PExpr where
  | var (v : Var)
  /-- `map.get_index(e).unwrap().1` -/
  | mapPrio (site : Nat) (e : NExpr)
  /-- call of a translated function that returns `&P` -/
  | call (f : FnId) (args : List NExpr)
  deriving Repr

/-- boolean expressions; comparing two priorities increments `ticks` -/
inductive BExpr where
  | tt | ff
  | ltN (a b : NExpr) | leN (a b : NExpr) | gtN (a b : NExpr) | geN (a b : NExpr)
  | eqN (a b : NExpr) | neN (a b : NExpr)
  | ltP (a b : PExpr) | gtP (a b : PExpr)
  /-- short-circuit `&&` -/
  | and (a b : BExpr)
  deriving Repr

inductive Stmt where
  | skip
  | seq (a b : Stmt)
  /-- `let v = e;` and `v = e;` -/
  | setN (v : Var) (e : NExpr)
  | setP (v : Var) (e : PExpr)
  /-- `let v = f(args);` for a translated `f` returning `usize` -/
  | callN (v : Var) (f : FnId) (nargs : List NExpr) (pargs : List PExpr)
  /-- `f(args);` -/
  | call (f : FnId) (nargs : List NExpr) (pargs : List PExpr)
  | ite (c : BExpr) (t e : Stmt)
  /-- `match (c1, c2) { (true,true) => tt, (true,false) => tf, (false,true) => ft, (false,false) => ff }` -/
  | match2 (c1 c2 : BExpr) (tt tf ft ff : Stmt)
  | while (c : BExpr) (body : Stmt)
  /-- `for v in (0..=hi).rev() body` -/
  | forRev (v : Var) (hi : NExpr) (body : Stmt)
  | brk
  | ret
  | retN (e : NExpr)
  | retP (e : PExpr)
  /-- `*heap.get_unchecked_mut(i) = x` -/
  | heapSetU (site : Nat) (i x : NExpr)
  /-- `*qp.get_unchecked_mut(i) = x` -/
  | qpSetU (site : Nat) (i x : NExpr)
  /-- `heap.swap(a, b)` -/
  | heapSwap (site : Nat) (a b : NExpr)
  /-- `qp.swap(a, b)` -/
  | qpSwap (site : Nat) (a b : NExpr)
  /-- `let v = heap.swap_remove(e);` -/
  | heapSwapRemove (v : Var) (site : Nat) (e : NExpr)
  /-- `let v = qp.swap_remove(e);` -/
  | qpSwapRemove (v : Var) (site : Nat) (e : NExpr)
  /-- `self.size -= 1;` -/
  | sizeDec (site : Nat)
  /-- `i = *[c1, …].iter().map_while(|i| heap.get(i)…).min_by_key(prio).unwrap().0`: first minimum;
      `siteP` = the `unwrap` of the priority read, `siteU` = the final `unwrap` -/
  | firstMinBy (v : Var) (siteP siteU : Nat) (cands : List NExpr)
  /-- the same with `max_by_key`: last maximum -/
  | lastMaxBy (v : Var) (siteP siteU : Nat) (cands : List NExpr)
  /-- `self.map.swap_remove_index(e)` as the function's result -/
  | retMapSwapRemoveIndex (e : NExpr)
  /-- `self.map.swap_remove_full(item).map(|(i, item, priority)| { body; (item, priority, res) })` as the function's
      result: register `key` holds the key that is looked up, register `vi` receives the slot index -/
  | removeFullThen (key vi : Var) (body : Stmt) (res : NExpr)
  /-- `if let Some(&v) = heap.get(e) { t } else { f }` (bounds-checked read) -/
  | ifHeapGet (v : Var) (e : NExpr) (t f : Stmt)
  /-- `v = *[c1, …].iter().max_by_key(|i| self.store.get_priority_from_position(**i)).unwrap()`: last maximum
      of the positions by the priority found there -/
  | lastMaxByPos (v : Var) (siteU : Nat) (cands : List NExpr)
  /-- `Some(e)` as the function's result -/
  | retSomeN (e : NExpr)
  /-- `None` as the function's result -/
  | retNone
  /-- `let v = f(args);` for a translated `f` returning an `Option<(I, P)>` (kept in a value register) -/
  | callV (v : Var) (f : FnId) (nargs : List NExpr)
  /-- the value register `v` as the function's result -/
  | retV (v : Var)
  /-- `None : Option<(I, P)>` as the function's result -/
  | retNoneE
  /-- `f(args).and_then(|v| tS)` for a translated `f` returning `Option<Position>`; `tN` is what `None` becomes -/
  | optCallN (v : Var) (f : FnId) (nargs : List NExpr) (tS tN : Stmt)
  /-- `self.store.remove(key).map(|(item, priority, pos)| { body; (item, priority) })` as the function's result -/
  | mapRemoved (key vpos : Var) (body : Stmt)
  deriving Repr

/-- a translated function: its `usize` parameters, its priority parameters, its body -/
structure Fn where
  nparams : List Var
  pparams : List Var
  body : Stmt
  deriving Repr

abbrev Prog := FnId → Option Fn

variable {P : Type}

/-- what a function hands back -/
inductive Val (P : Type) where
  | unit
  | nat (n : Nat)
  | prio (p : P)
  | optEntry (e : Option (Item × P))
  | optRemoved (r : Option (Item × P × Nat))
  | optNat (r : Option Nat)

inductive Flow (P : Type) where
  | normal
  | brk
  | ret (v : Val P)

/-- interpreter state: the store and the register files (`usize`, `&P`, returned values) -/
structure St (P : Type) where
  s : Store P
  n : Var → Nat
  p : Var → Option P
  v : Var → Option (Val P) := fun _ => none

@[inline] def upd {α : Type} (f : Var → α) (v : Var) (x : α) : Var → α := fun w => if w = v then x else f w

@[simp] theorem upd_same {α : Type} (f : Var → α) (v : Var) (x : α) : upd f v x v = x := by simp [upd]
theorem upd_other {α : Type} (f : Var → α) (v w : Var) (x : α) (h : w ≠ v) : upd f v x w = f w := by simp [upd, h]

@[inline] def St.setN (st : St P) (v : Var) (x : Nat) : St P := { st with n := upd st.n v x }
@[inline] def St.setP (st : St P) (v : Var) (x : P) : St P := { st with p := upd st.p v (some x) }
@[inline] def St.setS (st : St P) (s : Store P) : St P := { st with s := s }
@[inline] def St.setV (st : St P) (v : Var) (x : Val P) : St P := { st with v := upd st.v v (some x) }

def bindN : List Var → List Nat → (Var → Nat)
  | v :: vs, x :: xs => upd (bindN vs xs) v x
  | _, _ => fun _ => 0

def bindP : List Var → List P → (Var → Option P)
  | v :: vs, x :: xs => upd (bindP vs xs) v (some x)
  | _, _ => fun _ => none

/-! ## expressions -/

def evalN (st : St P) : NExpr → R Nat
  | .lit n => pure n
  | .var v => pure (st.n v)
  | .add a b => do let x ← evalN st a; let y ← evalN st b; pure (x + y)
  | .mul a b => do let x ← evalN st a; let y ← evalN st b; pure (x * y)
  | .div a b => do let x ← evalN st a; let y ← evalN st b; pure (x / y)
  | .mod a b => do let x ← evalN st a; let y ← evalN st b; pure (x % y)
  | .sub site a b => do
    let x ← evalN st a; let y ← evalN st b
    if x < y then .error (.arith site) else pure (x - y)
  | .left a => do let x ← evalN st a; pure (left x)
  | .right a => do let x ← evalN st a; pure (right x)
  | .level a => do let x ← evalN st a; pure (level x)
  | .parent site a => do
    let x ← evalN st a
    if x = 0 then .error (.arith site) else pure (parent x)
  | .len => pure st.s.size
  | .heapGetU site e => do let i ← evalN st e; getU st.s.heap i site
  | .qpGetU site e => do let i ← evalN st e; getU st.s.qp i site

def evalNs (st : St P) : List NExpr → R (List Nat)
  | [] => pure []
  | e :: es => do let x ← evalN st e; let xs ← evalNs st es; pure (x :: xs)

/-- the type of the "call a translated function" callback -/
abbrev CallF (P : Type) := FnId → Store P → List Nat → List P → R (Store P × Val P)

def evalP (callf : CallF P) (st : St P) : PExpr → R (Store P × P)
  | .var v => match st.p v with
    | some p => pure (st.s, p)
    | none => .error stuck
  | .mapPrio site e => do
    let i ← evalN st e
    let en ← unwrapO (st.s.map.getIndex i) site
    pure (st.s, en.2)
  | .call f args => do
    let xs ← evalNs st args
    let (s, v) ← callf f st.s xs []
    match v with
    | .prio p => pure (s, p)
    | _ => .error stuck

def evalPs (callf : CallF P) (st : St P) : List PExpr → R (Store P × List P)
  | [] => pure (st.s, [])
  | e :: es => do
    let (s, x) ← evalP callf st e
    let (s, xs) ← evalPs callf (st.setS s) es
    pure (s, x :: xs)

section
variable [LT P] [DecidableLT P]

def evalB (callf : CallF P) (st : St P) : BExpr → R (Store P × Bool)
  | .tt => pure (st.s, true)
  | .ff => pure (st.s, false)
  | .ltN a b => do let x ← evalN st a; let y ← evalN st b; pure (st.s, decide (x < y))
  | .leN a b => do let x ← evalN st a; let y ← evalN st b; pure (st.s, decide (x ≤ y))
  | .gtN a b => do let x ← evalN st a; let y ← evalN st b; pure (st.s, decide (x > y))
  | .geN a b => do let x ← evalN st a; let y ← evalN st b; pure (st.s, decide (x ≥ y))
  | .eqN a b => do let x ← evalN st a; let y ← evalN st b; pure (st.s, decide (x = y))
  | .neN a b => do let x ← evalN st a; let y ← evalN st b; pure (st.s, decide (x ≠ y))
  | .ltP a b => do
    let (s, x) ← evalP callf st a
    let (s, y) ← evalP callf (st.setS s) b
    pure (s.tick, decide (x < y))
  | .gtP a b => do
    let (s, x) ← evalP callf st a
    let (s, y) ← evalP callf (st.setS s) b
    pure (s.tick, decide (y < x))
  | .and a b => do
    let (s, x) ← evalB callf st a
    if x then evalB callf (st.setS s) b else pure (s, false)

/-! ## the candidate selection of `heapify_min` / `heapify_max` -/

/-- `[c1, …].iter().map_while(|i| heap.get(i.0).map(|index| (i, index)))` with the key closure
`map.get_index(index.0).map(|(_, p)| p).unwrap()` evaluated on each element that is produced -/
def candList (s : Store P) (siteP : Nat) : List Nat → R (List (Nat × P))
  | [] => pure []
  | c :: cs =>
    match s.heap[c]? with
    | none => pure []
    | some idx => do
      let e ← unwrapO (s.map.getIndex idx) siteP
      let rest ← candList s siteP cs
      pure ((c, e.2) :: rest)

/-- `Iterator::min_by_key`: keeps the accumulator unless the next key is strictly smaller -/
def firstMin : List (Nat × P) → Option (Nat × P)
  | [] => none
  | x :: xs => some (xs.foldl (fun acc y => if y.2 < acc.2 then y else acc) x)

/-- `Iterator::max_by_key`: takes the next element unless the accumulator is strictly greater -/
def lastMax : List (Nat × P) → Option (Nat × P)
  | [] => none
  | x :: xs => some (xs.foldl (fun acc y => if y.2 < acc.2 then acc else y) x)

/-- the keys `get_priority_from_position(c)` of the candidates, in order (through the translated function) -/
def keysByPrioAt (callf : CallF P) : Store P → List Nat → R (Store P × List (Nat × P))
  | s, [] => pure (s, [])
  | s, c :: cs => do
    let (s, v) ← callf .storePrioAt s [c] []
    match v with
    | .prio p => do
      let (s, rest) ← keysByPrioAt callf s cs
      pure (s, (c, p) :: rest)
    | _ => .error stuck

/-! ## statements -/

/-- `for k in (0..=h).rev()` -/
def forDown (body : Nat → St P → R (St P × Flow P)) : Nat → St P → R (St P × Flow P)
  | 0, st => do
    let (st, fl) ← body 0 st
    match fl with
    | .ret v => pure (st, .ret v)
    | _ => pure (st, .normal)
  | k + 1, st => do
    let (st, fl) ← body (k + 1) st
    match fl with
    | .normal => forDown body k st
    | .brk => pure (st, .normal)
    | .ret v => pure (st, .ret v)

/-- one level of the interpreter: `rec` runs a statement with one unit of fuel less (used for the next
iteration of a `while`), `callf` calls a translated function (also with one unit less) -/
def execStep (rec : Stmt → St P → R (St P × Flow P)) (callf : CallF P) : Stmt → St P → R (St P × Flow P)
  | .skip, st => pure (st, .normal)
  | .seq a b, st => do
    let (st, fl) ← execStep rec callf a st
    match fl with
    | .normal => execStep rec callf b st
    | fl => pure (st, fl)
  | .setN v e, st => do
    let x ← evalN st e
    pure (st.setN v x, .normal)
  | .setP v e, st => do
    let (s, x) ← evalP callf st e
    pure ((st.setS s).setP v x, .normal)
  | .callN v f nargs pargs, st => do
    let xs ← evalNs st nargs
    let (s, ps) ← evalPs callf st pargs
    let (s, r) ← callf f s xs ps
    match r with
    | .nat x => pure ((st.setS s).setN v x, .normal)
    | _ => .error stuck
  | .call f nargs pargs, st => do
    let xs ← evalNs st nargs
    let (s, ps) ← evalPs callf st pargs
    let (s, _) ← callf f s xs ps
    pure (st.setS s, .normal)
  | .ite c t e, st => do
    let (s, b) ← evalB callf st c
    if b then execStep rec callf t (st.setS s) else execStep rec callf e (st.setS s)
  | .match2 c1 c2 tt tf ft ff, st => do
    let (s, b1) ← evalB callf st c1
    let (s, b2) ← evalB callf (st.setS s) c2
    match b1, b2 with
    | true, true => execStep rec callf tt (st.setS s)
    | true, false => execStep rec callf tf (st.setS s)
    | false, true => execStep rec callf ft (st.setS s)
    | false, false => execStep rec callf ff (st.setS s)
  | .while c body, st => do
    let (s, b) ← evalB callf st c
    if b then do
      let (st, fl) ← execStep rec callf body (st.setS s)
      match fl with
      | .normal => rec (.while c body) st
      | .brk => pure (st, .normal)
      | .ret v => pure (st, .ret v)
    else pure (st.setS s, .normal)
  | .forRev v hi body, st => do
    let h ← evalN st hi
    forDown (fun k st => execStep rec callf body (st.setN v k)) h st
  | .brk, st => pure (st, .brk)
  | .ret, st => pure (st, .ret .unit)
  | .retN e, st => do
    let x ← evalN st e
    pure (st, .ret (.nat x))
  | .retP e, st => do
    let (s, x) ← evalP callf st e
    pure (st.setS s, .ret (.prio x))
  | .heapSetU site i x, st => do
    let i ← evalN st i
    let x ← evalN st x
    let heap ← setU st.s.heap i x site
    pure (st.setS { st.s with heap := heap }, .normal)
  | .qpSetU site i x, st => do
    let i ← evalN st i
    let x ← evalN st x
    let qp ← setU st.s.qp i x site
    pure (st.setS { st.s with qp := qp }, .normal)
  | .heapSwap site a b, st => do
    let a ← evalN st a
    let b ← evalN st b
    let heap ← swapC st.s.heap a b site
    pure (st.setS { st.s with heap := heap }, .normal)
  | .qpSwap site a b, st => do
    let a ← evalN st a
    let b ← evalN st b
    let qp ← swapC st.s.qp a b site
    pure (st.setS { st.s with qp := qp }, .normal)
  | .heapSwapRemove v site e, st => do
    let i ← evalN st e
    let (x, heap) ← swapRemoveC st.s.heap i site
    pure ((st.setS { st.s with heap := heap }).setN v x, .normal)
  | .qpSwapRemove v site e, st => do
    let i ← evalN st e
    let (x, qp) ← swapRemoveC st.s.qp i site
    pure ((st.setS { st.s with qp := qp }).setN v x, .normal)
  | .sizeDec site, st => do
    let size ← decC st.s.size site
    pure (st.setS { st.s with size := size }, .normal)
  | .firstMinBy v siteP siteU cands, st => do
    let cs ← evalNs st cands
    let l ← candList st.s siteP cs
    let c ← unwrapO (firstMin l) siteU
    pure ((st.setS (st.s.tick (l.length - 1))).setN v c.1, .normal)
  | .lastMaxBy v siteP siteU cands, st => do
    let cs ← evalNs st cands
    let l ← candList st.s siteP cs
    let c ← unwrapO (lastMax l) siteU
    pure ((st.setS (st.s.tick (l.length - 1))).setN v c.1, .normal)
  | .retMapSwapRemoveIndex e, st => do
    let i ← evalN st e
    match st.s.map.swapRemoveIndex i with
    | some (en, map) => pure (st.setS { st.s with map := map }, .ret (.optEntry (some en)))
    | none => pure (st, .ret (.optEntry none))
  | .removeFullThen key vi body res, st =>
    match st.s.map.swapRemoveFull (st.n key) with
    | none => pure (st, .ret (.optRemoved none))
    | some (i, e, map) => do
      let (st, fl) ← execStep rec callf body ((st.setS { st.s with map := map }).setN vi i)
      match fl with
      | .normal => do
        let p ← evalN st res
        pure (st, .ret (.optRemoved (some (e.1, e.2, p))))
      | _ => .error stuck
  | .ifHeapGet v e t f, st => do
    let i ← evalN st e
    match st.s.heap[i]? with
    | some x => execStep rec callf t (st.setN v x)
    | none => execStep rec callf f st
  | .lastMaxByPos v siteU cands, st => do
    let cs ← evalNs st cands
    let (s, l) ← keysByPrioAt callf st.s cs
    let c ← unwrapO (lastMax l) siteU
    pure ((st.setS (s.tick (l.length - 1))).setN v c.1, .normal)
  | .retSomeN e, st => do
    let x ← evalN st e
    pure (st, .ret (.optNat (some x)))
  | .retNone, st => pure (st, .ret (.optNat none))
  | .callV v f nargs, st => do
    let xs ← evalNs st nargs
    let (s, r) ← callf f st.s xs []
    pure ((st.setS s).setV v r, .normal)
  | .retV v, st =>
    match st.v v with
    | some r => pure (st, .ret r)
    | none => .error stuck
  | .retNoneE, st => pure (st, .ret (.optEntry none))
  | .optCallN v f nargs tS tN, st => do
    let xs ← evalNs st nargs
    let (s, r) ← callf f st.s xs []
    match r with
    | .optNat (some x) => execStep rec callf tS ((st.setS s).setN v x)
    | .optNat none => execStep rec callf tN (st.setS s)
    | _ => .error stuck
  | .mapRemoved key vpos body, st => do
    let (s, r) ← callf .storeRemove st.s [st.n key] []
    match r with
    | .optRemoved none => pure (st.setS s, .ret (.optEntry none))
    | .optRemoved (some (it, p, pos)) => do
      let (st, fl) ← execStep rec callf body ((st.setS s).setN vpos pos)
      match fl with
      | .normal => pure (st, .ret (.optEntry (some (it, p))))
      | _ => .error stuck
    | _ => .error stuck

/-- call of a translated function: fresh registers holding the arguments, run the body, take the
returned value (falling off the end returns `()`) -/
def callWith (ex : Stmt → St P → R (St P × Flow P)) (prog : Prog) : CallF P :=
  fun f s nargs pargs =>
    match prog f with
    | none => .error stuck
    | some fn => do
      let (st, fl) ← ex fn.body { s := s, n := bindN fn.nparams nargs, p := bindP fn.pparams pargs }
      match fl with
      | .ret v => pure (st.s, v)
      | .normal => pure (st.s, .unit)
      | .brk => .error stuck

/-- the interpreter: structurally recursive on `fuel`; every `while` iteration after the first and every
call of a translated function costs one unit -/
def exec (prog : Prog) : Nat → Stmt → St P → R (St P × Flow P)
  | 0, _, _ => .error .fuel
  | fuel + 1, c, st => execStep (exec prog fuel) (callWith (exec prog fuel) prog) c st

/-- run the translated function `f` of `prog` on the store `s` with the given arguments -/
def run (prog : Prog) (fuel : Nat) (f : FnId) (s : Store P) (nargs : List Nat) (pargs : List P := []) :
    R (Store P × Val P) :=
  callWith (exec prog fuel) prog f s nargs pargs

end
end PQ.Src
