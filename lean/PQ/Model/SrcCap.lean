import PQ.Model.Capacity
/-!
# The capacity forwards of `src/store.rs` as terms

`Store::{reserve, reserve_exact, try_reserve, try_reserve_exact, shrink_to_fit, capacity}` are straight-line sequences of
`self.<collection>.<method>(additional)` with or without `?`.  `tools/gen_src.py` turns each body into a `List CapStmt`
(`PQ/Model/SrcGen.lean`: `capReserve`, …); `execCap` runs such a list over the capacities of the three collections and an
arbitrary allocator (`PQ/Model/Capacity.lean`).  `PQ/Lemmas/SrcEquivCap.lean` proves that this is `Cap.stepC`.

Trusted here: the reading of `Vec::reserve` / `IndexMap::reserve` … as "ask the allocator oracle; `reserve*` panics where
`try_reserve*` reports an error", which is the reading of `PQ/Model/Capacity.lean`.
-/
namespace PQ.SrcCap
open PQ PQ.Cap

/-- the method of the collection that is called -/
inductive CapM where
  | reserve | reserveExact | tryReserve | tryReserveExact | shrinkToFit | capacity
  deriving DecidableEq, Repr

/-- one statement of a capacity forward -/
inductive CapStmt where
  /-- `self.<c>.<m>(additional);` — with `?` before the `;` iff `q` -/
  | call (c : Coll) (m : CapM) (q : Bool)
  /-- the tail expression `self.<c>.<m>()` -/
  | retCall (c : Coll) (m : CapM)
  /-- the tail expression `Ok(())` -/
  | retOk
  deriving DecidableEq, Repr

inductive CapOut where
  | unit | tryOk | tryErr | cap (n : Nat)
  deriving DecidableEq, Repr

/-- run a capacity forward: `len` is the number of elements, `n` the `additional` argument -/
def execCap (a : Alloc) (len n : Nat) : List CapStmt → Caps → R (Caps × CapOut)
  | [], c => pure (c, .unit)
  | .call w m q :: rest, c =>
    match m with
    | .reserve | .reserveExact =>
      -- `reserve` returns `()`: a `?` after it does not type-check
      if q then .error (.unwrapNone 9999)
      else match a.grant w (c.get w) len n with
        | none => .error .capacity
        | some x => execCap a len n rest (c.set w x)
    | .tryReserve | .tryReserveExact =>
      match a.grant w (c.get w) len n with
      | none => if q then pure (c, .tryErr) else execCap a len n rest c
      | some x => execCap a len n rest (c.set w x)
    | .shrinkToFit => if q then .error (.unwrapNone 9999) else execCap a len n rest (c.set w (a.shrink w (c.get w) len))
    | .capacity => if q then .error (.unwrapNone 9999) else execCap a len n rest c
  | .retCall w m :: _, c =>
    match m with
    | .capacity => pure (c, .cap (c.get w))
    | _ => .error (.unwrapNone 9999)
  | .retOk :: _, c => pure (c, .tryOk)

end PQ.SrcCap
