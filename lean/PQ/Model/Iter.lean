import PQ.Model.PQ
import PQ.Model.DPQ
/-!
# Model of the iterator types

* `Cursor` — the double-ended slice cursor behind `Iter`, `IntoIter`, `Drain` (these delegate `next`,
  `next_back`, `len` and — since the F2 fix — `size_hint` to IndexMap's iterators; IndexMap is trusted).
* `PIterMut` — `priority_queue::iterators::IterMut` (front cursor only, no exact size).
* `DIterMut` — `double_priority_queue::iterators::IterMut` (front and back cursor, exact size).
* the sorted iterators are `MaxQ.pop` / `DQ.popMin` / `DQ.popMax` plus the `len`/`size_hint` below.

Iterators are modelled as machines that emit *slot indices*; aliasing of `&mut` is "the same slot is
emitted twice" (C09).
-/
namespace PQ

/-- the calls a client can make on an iterator -/
inductive ICall where
  | next | nextBack | len | sizeHint
  deriving DecidableEq, Repr, Inhabited

/-- what a call returns: a slot (or `none`), a length, or a size hint -/
inductive IOut where
  | slot (i : Option Nat)
  | len (n : Nat)
  | hint (lo : Nat) (hi : Option Nat)
  /-- the call is not offered by this iterator type (e.g. `next_back` on the PQ `IterMut`) -/
  | unsupported
  deriving DecidableEq, Repr, Inhabited

/-- IndexMap's slice iterators: elements `front .. back` remain -/
structure Cursor where
  front : Nat
  back : Nat
  deriving DecidableEq, Repr, Inhabited

namespace Cursor
def new (n : Nat) : Cursor := ⟨0, n⟩
def remaining (c : Cursor) : Nat := c.back - c.front
def step (c : Cursor) : ICall → Cursor × IOut
  | .next => if c.front < c.back then ({ c with front := c.front + 1 }, .slot (some c.front)) else (c, .slot none)
  | .nextBack => if c.front < c.back then ({ c with back := c.back - 1 }, .slot (some (c.back - 1))) else (c, .slot none)
  | .len => (c, .len c.remaining)
  | .sizeHint => (c, .hint c.remaining (some c.remaining))
end Cursor

/-- `priority_queue::IterMut`: `get_index_mut2(pos)`, then `pos += 1` unconditionally.
`n` is `map.len()`.  It declares neither `DoubleEndedIterator` nor `ExactSizeIterator`; `size_hint` is the
default `(0, None)`. -/
structure PIterMut where
  pos : Nat
  deriving DecidableEq, Repr, Inhabited

namespace PIterMut
def new : PIterMut := ⟨0⟩
def step (n : Nat) (it : PIterMut) : ICall → PIterMut × IOut
  | .next => (⟨it.pos + 1⟩, .slot (if it.pos < n then some it.pos else none))
  | .sizeHint => (it, .hint 0 none)
  | .nextBack => (it, .unsupported)
  | .len => (it, .unsupported)
end PIterMut

/-- `double_priority_queue::IterMut` (after the F1 fix): two cursors. `n` is `map.len()`;
`back` starts at `map.len()`. -/
structure DIterMut where
  pos : Nat
  back : Nat
  deriving DecidableEq, Repr, Inhabited

namespace DIterMut
def new (n : Nat) : DIterMut := ⟨0, n⟩
def step (n : Nat) (it : DIterMut) : ICall → R (DIterMut × IOut)
  | .next =>
    if it.pos ≥ it.back then pure (it, .slot none)
    else pure ({ it with pos := it.pos + 1 }, .slot (if it.pos < n then some it.pos else none))
  | .nextBack =>
    if it.pos ≥ it.back then pure (it, .slot none)
    else
      let back := it.back - 1
      pure ({ it with back := back }, .slot (if back < n then some back else none))
  | .len =>
    if it.back < it.pos then .error (.arith 401) else pure (it, .len (it.back - it.pos))
  | .sizeHint =>
    if it.back < it.pos then .error (.arith 402)
    else pure (it, .hint (it.back - it.pos) (some (it.back - it.pos)))
end DIterMut

/-- run a call sequence on a `Cursor` -/
def Cursor.run (c : Cursor) : List ICall → List IOut
  | [] => []
  | x :: xs => let (c', o) := c.step x; o :: Cursor.run c' xs

def PIterMut.run (n : Nat) (it : PIterMut) : List ICall → List IOut
  | [] => []
  | x :: xs => let (it', o) := it.step n x; o :: PIterMut.run n it' xs

def DIterMut.run (n : Nat) (it : DIterMut) : List ICall → R (List IOut)
  | [] => pure []
  | x :: xs => do
    let (it', o) ← it.step n x
    let rest ← DIterMut.run n it' xs
    pure (o :: rest)

/-- a write performed through a yielded `(&mut I, &mut P)` -/
structure IMWrite (P : Type) where
  prio : Option P
  payload : Option Nat

/-- apply a write to slot `i` of the map -/
def IMap.applyWrite {P : Type} (m : IMap P) (i : Nat) (w : IMWrite P) : IMap P :=
  match m[i]? with
  | some e =>
    let it := match w.payload with | some pl => { e.1 with payload := pl } | none => e.1
    let p := match w.prio with | some p => p | none => e.2
    m.setIfInBounds i (it, p)
  | none => m

end PQ
