import PQ.Model.Ops
/-!
# Model of the sorted iterators, WITH their `len` / `size_hint`

* `IntoSortedIter` of `DoublePriorityQueue` (src/double_priority_queue/iterators.rs): owns the queue;
  `next = pq.pop_min()`, `next_back = pq.pop_max()`, `len() = pq.len()`, `size_hint() = (len, Some(len))`;
  declares `ExactSizeIterator`, `FusedIterator`, `DoubleEndedIterator`.
* `IntoSortedIter` of `PriorityQueue` (src/priority_queue/iterators.rs): owns the queue; `next = pq.pop()`;
  NO `size_hint` override (the default of `Iterator::size_hint` is `(0, None)`), no `next_back`, no `len`.

The state of either iterator is the store it owns.  `sortedStep` is one call, `sortedRun` a list of calls (it stops
at the first fault).  Calls an iterator type does not offer answer `.unsupported` and change nothing (such a call does
not type-check in Rust; the answer only keeps the call alphabet `ICall` common to all iterator machines).
-/
namespace PQ

/-- what a call on a sorted iterator returns: an entry (or `None`), a length, a size hint; or the call is not
offered by that iterator type -/
inductive SOut (P : Type) where
  | item (e : Option (Item × P))
  | len (n : Nat)
  | hint (lo : Nat) (hi : Option Nat)
  | unsupported
  deriving DecidableEq, Repr, Inhabited

variable {P : Type} [LT P] [DecidableLT P]

/-- one call on the sorted iterator of the given queue kind that owns the store `s` -/
def sortedStep (kind : Kind) (s : Store P) : ICall → R (Store P × SOut P)
  | .next => do
    let (s', r) ← (match kind with | .pq => MaxQ.pop s | .dpq => DQ.popMin s)
    pure (s', .item r)
  | .nextBack =>
    match kind with
    | .pq => pure (s, .unsupported)
    | .dpq => do
      let (s', r) ← DQ.popMax s
      pure (s', .item r)
  | .len => pure (s, match kind with | .pq => .unsupported | .dpq => .len s.size)
  | .sizeHint => pure (s, match kind with | .pq => .hint 0 none | .dpq => .hint s.size (some s.size))

/-- a list of calls on the sorted iterator; returns the answers and the store the iterator holds afterwards -/
def sortedRun (kind : Kind) : List ICall → Store P → R (List (SOut P) × Store P)
  | [], s => pure ([], s)
  | c :: cs, s => do
    let (s', o) ← sortedStep kind s c
    let (rest, s'') ← sortedRun kind cs s'
    pure (o :: rest, s'')

end PQ
