import PQ.Model.Basic
/-!
# Model of the part of `indexmap::IndexMap` the crate uses

An insertion-ordered map is an array of entries; the slot index of an entry is its position.
Lookup compares `Item.key` only.  No hasher appears anywhere (that is the content of C18).
IndexMap itself is *modelled, not verified* (trusted base); the correspondence check exercises
exactly these operations against the real IndexMap through the crate.
-/
namespace PQ

abbrev IMap (P : Type) := Array (Item × P)

namespace IMap
variable {P : Type}

/-- slot of the entry whose key is `k` -/
def find? (m : IMap P) (k : Nat) : Option Nat :=
  m.findIdx? (fun e => e.1.key == k)

/-- `contains_key` -/
def contains (m : IMap P) (k : Nat) : Bool := (find? m k).isSome

/-- `get_index` -/
@[inline] def getIndex (m : IMap P) (i : Nat) : Option (Item × P) := m[i]?

/-- `get_full`: slot, stored item, priority -/
def getFull (m : IMap P) (k : Nat) : Option (Nat × Item × P) :=
  match find? m k with
  | some i => (match m[i]? with | some e => some (i, e.1, e.2) | none => none)
  | none => none

/-- overwrite the priority stored in slot `i` (via `get_full_mut`, `Entry::get_mut`, …) -/
@[inline] def setPrio (m : IMap P) (i : Nat) (p : P) : IMap P :=
  match m[i]? with
  | some e => m.setIfInBounds i (e.1, p)
  | none => m

/-- overwrite the item stored in slot `i` (via `get_full_mut2`, `get_index_mut2`) -/
@[inline] def setItem (m : IMap P) (i : Nat) (it : Item) : IMap P :=
  match m[i]? with
  | some e => m.setIfInBounds i (it, e.2)
  | none => m

/-- `insert_full` / the `entry` API: an occupied entry keeps its stored item and gets the new
priority (old one returned); a vacant one is appended. Returns the map, the slot and the old priority. -/
def insertFull (m : IMap P) (it : Item) (p : P) : IMap P × Nat × Option P :=
  match find? m it.key with
  | some i =>
    (match m[i]? with
     | some e => (m.setIfInBounds i (e.1, p), i, some e.2)
     | none => (m, i, none))   -- unreachable: `find?` returns valid slots
  | none => (m.push (it, p), m.size, none)

/-- `swap_remove_index` -/
def swapRemoveIndex (m : IMap P) (i : Nat) : Option ((Item × P) × IMap P) :=
  match m[i]?, m.back? with
  | some e, some l => some (e, (m.setIfInBounds i l).pop)
  | _, _ => none

/-- `swap_remove_full` -/
def swapRemoveFull (m : IMap P) (k : Nat) : Option (Nat × (Item × P) × IMap P) :=
  match find? m k with
  | some i => (match swapRemoveIndex m i with | some (e, m') => some (i, e, m') | none => none)
  | none => none

/-- `retain2` with a closure that may rewrite the item and the priority: order preserving, the
closure is called once per entry in slot order (the call log is the entry list itself). -/
def retain (m : IMap P) (f : Item → P → Bool × Item × P) : IMap P :=
  m.foldl (init := #[]) fun acc e =>
    let r := f e.1 e.2
    if r.1 then acc.push (r.2.1, r.2.2) else acc

/-- IndexMap equality: same length and every entry of the left found with an equal value in the right. -/
def eqv [DecidableEq P] (a b : IMap P) : Bool :=
  a.size == b.size && a.all fun e =>
    match getFull b e.1.key with
    | some (_, _, q) => decide (e.2 = q)
    | none => false

end IMap
end PQ
