import PQ.Model.IMap
/-!
# Model of `src/store.rs`

`Store` = the IndexMap plus the two index tables and the size counter.  Every function below is a
statement-for-statement mirror of the Rust function of the same name; `&mut self` methods return the
new store.  Fault sites: 1xx = store.rs.

The ghost field `ticks` counts priority comparisons (`Ord::cmp` calls); it is incremented exactly where the
real code compares two priorities and takes no part in any invariant (C05 is stated about it).
-/
namespace PQ

structure Store (P : Type) where
  /-- item → priority, an entry's slot index is its identity -/
  map : IMap P
  /-- heap position → slot index -/
  heap : Array Nat
  /-- slot index → heap position -/
  qp : Array Nat
  /-- number of live elements -/
  size : Nat
  /-- ghost: number of priority comparisons performed so far -/
  ticks : Nat := 0

/-- the number of elements from which `Vec::reserve` / `Vec::with_capacity` / `IndexMap::reserve` / `with_capacity`
deterministically panic with "capacity overflow": `2^61` elements of at least 8 bytes each exceed `isize::MAX` bytes -/
def capLimit : Nat := 2 ^ 61

/-- `reserve(n)` / `with_capacity(n)` of `Vec` / `IndexMap` with a requested number of elements `n`: the deterministic
**capacity-overflow panic** (`Fault.capacity`, the one documented panic C04 allows) when `n` cannot be represented
(`n ≥ capLimit`), no effect on the modelled state otherwise (capacity is not part of it).  Allocation *failure* below the
limit (the allocator refusing a representable request) is outside the model. -/
def reserveC (n : Nat) : R Unit := if n ≥ capLimit then .error .capacity else pure ()

namespace Store
variable {P : Type}

/-- `with_capacity_and_hasher` (capacity is not part of the state: see C17) -/
def empty : Store P := { map := #[], heap := #[], qp := #[], size := 0 }

/-- the observable core of a store (everything but the ghost counter) -/
def Same (s t : Store P) : Prop :=
  s.map = t.map ∧ s.heap = t.heap ∧ s.qp = t.qp ∧ s.size = t.size

@[inline] def tick (s : Store P) (n : Nat := 1) : Store P := { s with ticks := s.ticks + n }

@[inline] def len (s : Store P) : Nat := s.size
@[inline] def isEmpty (s : Store P) : Bool := s.size == 0

/-- `clear` -/
def clear (s : Store P) : Store P := { s with map := #[], heap := #[], qp := #[], size := 0 }

/-- `drain`: the tables and the size are reset *before* the map's drain iterator is handed out; the
map is emptied by `indexmap::Drain` whether it is consumed, dropped or leaked (trusted base).
Returns the drained entries in slot order. -/
def drain (s : Store P) : Array (Item × P) × Store P :=
  (s.map, { s with map := #[], heap := #[], qp := #[], size := 0 })

/-- `impl Debug for Store` (what `{:?}` of both queue kinds prints): for every heap position in turn the slot index found
there and the entry of that slot, `self.map.get_index(i.0).unwrap()` (site 190: a panic if the table names a slot the
map does not have). -/
def debugEntries (s : Store P) : R (List (Nat × Item × P)) :=
  s.heap.toList.mapM fun i => do
    let e ← unwrapO (s.map.getIndex i) 190
    pure (i, e.1, e.2)

/-- `swap(a, b)`: two `get_unchecked` (sites 101, 102), `qp.swap` (103) and `heap.swap` (104), both bounds-checked. -/
def swap (s : Store P) (a b : Nat) : R (Store P) := do
  let ia ← getU s.heap a 101
  let ib ← getU s.heap b 102
  let qp ← swapC s.qp ia ib 103
  let heap ← swapC s.heap a b 104
  pure { s with qp := qp, heap := heap }

/-- `get_priority_from_position`: `heap.get_unchecked` (105) then `map.get_index(..).unwrap()` (106). -/
def prioAt (s : Store P) (pos : Nat) : R P := do
  let i ← getU s.heap pos 105
  let e ← unwrapO (s.map.getIndex i) 106
  pure e.2

/-- `swap_remove(position)` -/
def swapRemove (s : Store P) (position : Nat) : R (Store P × Option (Item × P)) := do
  let (head, heap) ← swapRemoveC s.heap position 107
  let size ← decC s.size 108
  let qp ←
    if position < size then do
      let hp ← getU heap position 109
      setU s.qp hp position 110
    else pure s.qp
  let (_, qp) ← swapRemoveC qp head 111
  let heap ←
    if head < size then do
      let q ← getU qp head 112
      setU heap q head 113
    else pure heap
  match s.map.swapRemoveIndex head with
  | some (e, map) => pure ({ s with map := map, heap := heap, qp := qp, size := size }, some e)
  | none => pure ({ s with heap := heap, qp := qp, size := size }, none)

/-- `retain_mut` (and `retain`): the closure is data `f : Item → P → keep × item' × priority'`. -/
def retainMut (s : Store P) (f : Item → P → Bool × Item × P) : Store P :=
  let map := s.map.retain f
  if map.size ≠ s.size then
    { s with map := map, size := map.size, heap := Array.range map.size, qp := Array.range map.size }
  else { s with map := map }

/-- `swap_remove_if(position, f)`: `heap.get_unchecked` (114), `get_index_mut2(..).unwrap()` (115), the
predicate may rewrite item and priority, then `swap_remove` if it said so. -/
def swapRemoveIf (s : Store P) (position : Nat) (f : Item → P → Bool × Item × P) :
    R (Store P × Option (Item × P)) := do
  let head ← getU s.heap position 114
  let e ← unwrapO (s.map.getIndex head) 115
  let r := f e.1 e.2
  let s := { s with map := s.map.setIfInBounds head (r.2.1, r.2.2) }
  if r.1 then swapRemove s position else pure (s, none)

/-- `change_priority(item, new)`: returns the old priority and the heap position (`qp.get_unchecked`, 116). -/
def changePriority (s : Store P) (k : Nat) (p : P) : R (Store P × Option (P × Nat)) :=
  match s.map.getFull k with
  | some (index, _, old) => do
    let pos ← getU s.qp index 116
    pure ({ s with map := s.map.setPrio index p }, some (old, pos))
  | none => pure (s, none)

/-- `change_priority_by(item, setter)` (`qp.get_unchecked`, 117) -/
def changePriorityBy (s : Store P) (k : Nat) (setter : P → P) : R (Store P × Option Nat) :=
  match s.map.getFull k with
  | some (index, _, old) => do
    let pos ← getU s.qp index 117
    pure ({ s with map := s.map.setPrio index (setter old) }, some pos)
  | none => pure (s, none)

def getPriority (s : Store P) (k : Nat) : Option P := (s.map.getFull k).map (·.2.2)
def get (s : Store P) (k : Nat) : Option (Item × P) := (s.map.getFull k).map (·.2)

/-- `get_mut`: hands out `&mut I`; the caller's write is the argument `w`. -/
def getMutWrite (s : Store P) (k : Nat) (w : Item → Item) : Store P × Option (Item × P) :=
  match s.map.getFull k with
  | some (index, it, p) => ({ s with map := s.map.setItem index (w it) }, some (it, p))
  | none => (s, none)

/-- `remove(item)`: swap-removal from the map, then the four-case repair of the two tables. -/
def remove (s : Store P) (k : Nat) : R (Store P × Option (Item × P × Nat)) :=
  match s.map.swapRemoveFull k with
  | none => pure (s, none)
  | some (i, e, map) => do
    let size ← decC s.size 118
    let (pos, qp) ← swapRemoveC s.qp i 119
    let (_, heap) ← swapRemoveC s.heap pos 120
    let (qp, heap) ←
      if i < size then do
        let qpi ← getU qp i 121
        if qpi = size then do
          let qp ← setU qp i pos 122
          pure (qp, heap)
        else do
          let heap ← setU heap qpi i 123
          pure (qp, heap)
      else pure (qp, heap)
    let (qp, heap) ←
      if pos < size then do
        let hp ← getU heap pos 124
        if hp = size then do
          let heap ← setU heap pos i 125
          pure (qp, heap)
        else do
          let qp ← setU qp hp pos 126
          pure (qp, heap)
      else pure (qp, heap)
    pure ({ s with map := map, heap := heap, qp := qp, size := size }, some (e.1, e.2, pos))

/-- one step of the loops of `append` / `From<Vec>`: insert only if absent -/
def pushIfAbsent (s : Store P) (e : Item × P) : Store P :=
  if s.map.contains e.1.key then s
  else
    { s with map := s.map.push e, heap := s.heap.push s.size, qp := s.qp.push s.size, size := s.size + 1 }

/-- `append(other)`: returns `(self', other')`. -/
def append (s o : Store P) : Store P × Store P :=
  let (s, o) := if o.size > s.size then (o, s) else (s, o)
  if o.size = 0 then (s, o)
  else
    let (entries, o) := o.drain
    (entries.foldl pushIfAbsent s, o)

/-- `From<Vec<(I, P)>>`: repeated items are ignored (the first priority stays). -/
def fromVec (v : Array (Item × P)) : Store P :=
  v.foldl pushIfAbsent empty

/-- one step of `Extend::extend`: a present item keeps its stored value and gets the new priority. -/
def extendStep (s : Store P) (e : Item × P) : Store P :=
  match s.map.find? e.1.key with
  | some i => { s with map := s.map.setPrio i e.2 }
  | none =>
    { s with map := s.map.push e, heap := s.heap.push s.size, qp := s.qp.push s.size, size := s.size + 1 }

/-- `Extend::extend` of the store (the "rebuild" strategy of the queues uses it) -/
def extend (s : Store P) (xs : Array (Item × P)) : Store P := xs.foldl extendStep s

/-- one step of `FromIterator::from_iter`: a present item is *replaced* by the incoming one. -/
def fromIterStep (s : Store P) (e : Item × P) : Store P :=
  match s.map.find? e.1.key with
  | some i => { s with map := s.map.setIfInBounds i e }
  | none =>
    { s with map := s.map.push e, heap := s.heap.push s.size, qp := s.qp.push s.size, size := s.size + 1 }

def fromIter (xs : Array (Item × P)) : Store P := xs.foldl fromIterStep empty

/-- `visit_seq` of the deserializer: `map.insert` keeps the stored item and overwrites the priority; the
tables grow only when the item was new. -/
def visitSeqStep (s : Store P) (e : Item × P) : Store P :=
  let (map, _, old) := s.map.insertFull e.1 e.2
  match old with
  | some _ => { s with map := map }
  | none => { s with map := map, heap := s.heap.push s.size, qp := s.qp.push s.size, size := s.size + 1 }

def visitSeq (xs : Array (Item × P)) : Store P := xs.foldl visitSeqStep empty

/-- `PartialEq`: compares the maps only -/
def eqv [DecidableEq P] (a b : Store P) : Bool := IMap.eqv a.map b.map

end Store
end PQ
