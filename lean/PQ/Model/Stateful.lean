import PQ.Model.Ops
/-!
# Stateful user closures (`FnMut`): twins of the closure-taking operations that thread the closure's state

In `Store.lean` / `PQ.lean` / `DPQ.lean` a user closure is a pure function `Item → P → Bool × Item × P`, so "how often and in
which order the crate calls it" is not observable there.  The real closures are `FnMut`: they may count, log, or decide
differently on every call.  The twins below are the same functions, statement for statement, with the closure's state `σ`
threaded through every call: `f st item priority = (st', keep, item', priority')`.  `Lemmas/StatefulLemmas.lean` proves
that (a) with a closure that ignores its state each twin IS the plain function, and (b) the final state is the fold of the
closure over exactly the elements the property names, in slot order, once each — whatever the closure decides.

The native driver runs these twins with `σ := the call log` and prints the log the model function itself produced.
-/
namespace PQ
variable {P σ : Type}

/-- a stateful predicate / rewriter: `(&mut I, &mut P) -> bool` as an `FnMut` -/
abbrev PredS (σ P : Type) := σ → Item → P → σ × (Bool × Item × P)

/-- a stateful priority setter: `FnMut(&mut P)` -/
abbrev SetterS (σ P : Type) := σ → P → σ × P

/-- forget the state: the plain closure a state-ignoring stateful one stands for -/
def PredS.lift (g : Item → P → Bool × Item × P) : PredS σ P := fun st it p => (st, g it p)
def SetterS.lift (g : P → P) : SetterS σ P := fun st p => (st, g p)

/-- `IndexMap::retain2` with an `FnMut` closure -/
def IMap.retainS (m : IMap P) (f : PredS σ P) (st : σ) : σ × IMap P :=
  m.foldl (init := (st, (#[] : IMap P))) fun a e =>
    let r := f a.1 e.1 e.2
    (r.1, if r.2.1 then a.2.push (r.2.2.1, r.2.2.2) else a.2)

namespace Store

/-- twin of `Store.retainMut` -/
def retainMutS (s : Store P) (f : PredS σ P) (st : σ) : σ × Store P :=
  let r := s.map.retainS f st
  (r.1,
    if r.2.size ≠ s.size then
      { s with map := r.2, size := r.2.size, heap := Array.range r.2.size, qp := Array.range r.2.size }
    else { s with map := r.2 })

/-- twin of `Store.swapRemoveIf` -/
def swapRemoveIfS (s : Store P) (position : Nat) (f : PredS σ P) (st : σ) :
    R (σ × Store P × Option (Item × P)) := do
  let head ← getU s.heap position 114
  let e ← unwrapO (s.map.getIndex head) 115
  let r := f st e.1 e.2
  let s := { s with map := s.map.setIfInBounds head (r.2.2.1, r.2.2.2) }
  if r.2.1 then do
    let (s, o) ← swapRemove s position
    pure (r.1, s, o)
  else pure (r.1, s, none)

/-- twin of `Store.changePriorityBy` -/
def changePriorityByS (s : Store P) (k : Nat) (setter : SetterS σ P) (st : σ) : R (σ × Store P × Option Nat) :=
  match s.map.getFull k with
  | some (index, _, old) => do
    let pos ← getU s.qp index 117
    let r := setter st old
    pure (r.1, { s with map := s.map.setPrio index r.2 }, some pos)
  | none => pure (st, s, none)

end Store

namespace MaxQ
variable [LT P] [DecidableLT P]

def retainMutS (s : Store P) (f : PredS σ P) (st : σ) : R (σ × Store P) := do
  let r := s.retainMutS f st
  let s ← heapBuild r.2
  pure (r.1, s)

def popIfS (s : Store P) (f : PredS σ P) (st : σ) : R (σ × Store P × Option (Item × P)) :=
  match s.size with
  | 0 => pure (st, s, none)
  | 1 => s.swapRemoveIfS 0 f st
  | _ => do
    let (st, s, r) ← s.swapRemoveIfS 0 f st
    let s ← heapify s 0
    pure (st, s, r)

def changePriorityByS (s : Store P) (k : Nat) (setter : SetterS σ P) (st : σ) : R (σ × Store P × Bool) := do
  let (st, s, r) ← s.changePriorityByS k setter st
  match r with
  | some pos => do
    let s ← upHeapify s pos
    pure (st, s, true)
  | none => pure (st, s, false)

end MaxQ

namespace DQ
variable [LT P] [DecidableLT P]

def retainMutS (s : Store P) (f : PredS σ P) (st : σ) : R (σ × Store P) := do
  let r := s.retainMutS f st
  let s ← heapBuild r.2
  pure (r.1, s)

def popMinIfS (s : Store P) (f : PredS σ P) (st : σ) : R (σ × Store P × Option (Item × P)) :=
  match findMin s with
  | none => pure (st, s, none)
  | some i => do
    let (st, s, r) ← s.swapRemoveIfS i f st
    let s ← heapify s i
    pure (st, s, r)

def popMaxIfS (s : Store P) (f : PredS σ P) (st : σ) : R (σ × Store P × Option (Item × P)) := do
  let (s, r) ← findMax s
  match r with
  | none => pure (st, s, none)
  | some i => do
    let (st, s, r) ← s.swapRemoveIfS i f st
    let s ← upHeapify s i
    pure (st, s, r)

def changePriorityByS (s : Store P) (k : Nat) (setter : SetterS σ P) (st : σ) : R (σ × Store P × Bool) := do
  let (st, s, r) ← s.changePriorityByS k setter st
  match r with
  | some pos => do
    let s ← upHeapify s pos
    pure (st, s, true)
  | none => pure (st, s, false)

end DQ
end PQ
