import PQ.Model.Crash
/-!
# Crash points inside user *callbacks*

`Crash.lean` models panics of `Ord::cmp`.  The other user code that the crate calls in the middle of an operation is

* the **setter** of `change_priority_by`,
* the **predicate** of `pop_if` / `pop_min_if` / `pop_max_if`,
* the **source iterator** (`Iterator::next`) of `extend` and `FromIterator::from_iter`

(and the predicate of `retain` / `retain_mut`, which runs *inside* `IndexMap::retain`: what a panic there leaves behind is a
property of IndexMap, which is trusted base; it is covered by the fault-injection stream of the harness only).

`stepCb k q op` is the operation `op` on `q` in which the `k`-th such callback (counted from 1 within the operation) panics
**on entry** — before it writes anything through the references it was given (this is what the harness injects: the panic is
raised by the first statement of the callback).  It stops with `StopQ.crashed q'`, the queue the real code leaves after
unwinding, or `StopQ.crashedNew` when a fresh queue was being built.  If the operation performs fewer than `k` callbacks
(or `k = 0`) it is the plain operation.

`stepCbW k w q op` is the generalisation in which the panicking setter / predicate may first **write** through the `&mut P`
it was handed and only then panic (real closures can do that): `w = some p` means "`*priority = p; panic!()`", `w = none`
is the panic on entry (`stepCb k = stepCbW k none`).  The crash state then carries the new priority in the entry's slot
(`IMap.setPrio`) and **no re-sift has happened**: it is well-formed but in general not ordered.  (The source iterators of
`extend` / `from_iter` are handed no reference into the queue: `w` is irrelevant for them.  A predicate is also handed
`&mut I`; a write to the item that keeps its identity — the only kind `Op.Legal` admits — changes the payload only and is
not modelled here.)

What unwinding leaves:

* `change_priority_by`: `Store::change_priority_by` looks the item up and calls the setter on `&mut P`; nothing has been
  written yet ⇒ the queue is unchanged.
* `pop_if` (PriorityQueue) / `pop_min_if`: `Store::swap_remove_if` fetches `heap[position]` and the entry and calls the predicate;
  nothing has been written ⇒ unchanged.  `pop_max_if` first runs `find_max` (one comparison, counted) ⇒ unchanged up to the ghost
  counter.
* `extend`: `reserve(lo)` and the choice of the strategy from the `size_hint` come *before* the first `next` (an announced
  lower bound `≥ capLimit` is the capacity-overflow panic of the plain operation: the source is never asked).  Push strategy: the `k - 1` elements
  yielded so far have been pushed (complete pushes) ⇒ `pushAll` of that prefix.  Rebuild strategy: `Store::extend` has
  absorbed the `k - 1` elements (new ones appended to the tables in identity position, priorities of present ones overwritten)
  and `heap_build` does **not** run ⇒ `Store.extend` of the prefix: well-formed but not ordered.  The source is asked
  `xs.size + 1` times (the last call returns `None`), so `1 ≤ k ≤ xs.size + 1`.
* `from_iter`: the queue under construction is dropped ⇒ `crashedNew` (again only when the capacity request for the
  announced lower bound was granted).

No imports outside core Lean: this file links into the native driver.
-/
namespace PQ.Crash
open PQ PQ.Arith
variable {P : Type} [LT P] [DecidableLT P]

/-- the plain operation, as a fused result -/
def liftStep (q : Q P) (op : Op P) : CRQ P (Q P × Out P) :=
  match step q op with
  | .ok r => .ok r
  | .error f => .error (.fault f)

/-- the number of user callbacks (setter / predicate / source-iterator `next`) the operation performs on `q`
(`retain`'s predicate is not modelled, see above) -/
def cbCount (q : Q P) : Op P → Nat
  | .changePriorityBy k _ => if (q.s.map.getFull k).isSome then 1 else 0
  | .popFrontIf _ => if q.s.size = 0 then 0 else 1
  | .popBackIf _ => match q.kind with
    | .pq => 0
    | .dpq => if q.s.size = 0 then 0 else 1
  | .extend lo xs => if lo < capLimit then xs.size + 1 else 0
  | .fromIter lo xs => if lo < capLimit then xs.size + 1 else 0
  | _ => 0

/-- `pushAll` of the queue kind -/
def pushAllK (kind : Kind) (es : List (Item × P)) (s : Store P) : R (Store P) :=
  match kind with
  | .pq => PQ.MaxQ.pushAll es s
  | .dpq => PQ.DQ.pushAll es s

/-- what a callback that was handed the `&mut P` of slot `index` leaves in the store when it stores `w` and then panics:
the priority is overwritten in place, the index tables are untouched (no re-sift) -/
def cbWriteSlot (s : Store P) (index : Nat) : Option P → Store P
  | none => s
  | some p => { s with map := s.map.setPrio index p }

/-- the same for the entry at heap position `pos` (`Store::swap_remove_if` hands out the entry of slot `heap[pos]`) -/
def cbWritePos (s : Store P) (pos : Nat) (w : Option P) : Store P :=
  match s.heap[pos]? with
  | some head => cbWriteSlot s head w
  | none => s

/-- the same for the entry with key `key` (`Store::change_priority_by` hands out the priority found by `get_full_mut`) -/
def cbWriteKey (s : Store P) (key : Nat) (w : Option P) : Store P :=
  match s.map.getFull key with
  | some (index, _, _) => cbWriteSlot s index w
  | none => s

/-- the operation with its `k`-th user callback panicking, after having stored `w` through its `&mut P` when `w = some p`
(setter / predicates only; `w = none`: the panic on entry) -/
def stepCbW (k : Nat) (w : Option P) (q : Q P) (op : Op P) : CRQ P (Q P × Out P) :=
  match op with
  | .changePriorityBy key _ =>
    if k = 1 ∧ (q.s.map.getFull key).isSome then .error (.crashed { q with s := cbWriteKey q.s key w })
    else liftStep q op
  | .popFrontIf _ =>
    if k = 1 then
      match q.kind with
      | .pq => if q.s.size = 0 then liftStep q op else .error (.crashed { q with s := cbWritePos q.s 0 w })
      | .dpq =>
        match PQ.DQ.findMin q.s with
        | none => liftStep q op
        | some i => .error (.crashed { q with s := cbWritePos q.s i w })
    else liftStep q op
  | .popBackIf _ =>
    if k = 1 then
      match q.kind with
      | .pq => liftStep q op
      | .dpq =>
        match PQ.DQ.findMax q.s with
        | .error f => .error (.fault f)
        | .ok (_, none) => liftStep q op
        | .ok (s, some i) => .error (.crashed { q with s := cbWritePos s i w })
    else liftStep q op
  | .extend lo xs =>
    if lo < capLimit ∧ 1 ≤ k ∧ k ≤ xs.size + 1 then
      let pre := xs.extract 0 (k - 1)
      let rebuild := if lo ≠ 0 then betterToRebuild q.s.size lo else false
      if rebuild then .error (.crashed { q with s := q.s.extend pre })
      else
        match pushAllK q.kind pre.toList q.s with
        | .ok s => .error (.crashed { q with s := s })
        | .error f => .error (.fault f)
    else liftStep q op
  | .fromIter lo xs =>
    if lo < capLimit ∧ 1 ≤ k ∧ k ≤ xs.size + 1 then .error .crashedNew else liftStep q op
  | _ => liftStep q op

/-- the operation with its `k`-th user callback panicking on entry -/
def stepCb (k : Nat) (q : Q P) (op : Op P) : CRQ P (Q P × Out P) := stepCbW k none q op

end PQ.Crash
