import PQ.Model.Store
import PQ.Model.Arith
/-!
# Model of `src/double_priority_queue/mod.rs` (min-max heap over the store)

Namespace `PQ.DQ`.  Fault sites 3xx.  `min_by_key` is "first minimum", `max_by_key` is "last maximum",
each performing `k - 1` comparisons on `k` candidates, exactly like `Iterator::min_by/max_by`.
-/
namespace PQ.DQ
open PQ PQ.Arith
variable {P : Type} [LT P] [DecidableLT P]

@[inline] def parentC (i : Nat) (site : Nat) : R Nat :=
  if i = 0 then .error (.arith site) else .ok (parent i)

/-- `Iterator::min_by_key`: fold keeping the accumulator unless the next key is strictly smaller -/
def minByKey : List (Nat × P) → Option (Nat × P)
  | [] => none
  | x :: xs => some (xs.foldl (fun acc y => if y.2 < acc.2 then y else acc) x)

/-- `Iterator::max_by_key`: fold taking the next element unless the accumulator is strictly greater -/
def maxByKey : List (Nat × P) → Option (Nat × P)
  | [] => none
  | x :: xs => some (xs.foldl (fun acc y => if y.2 < acc.2 then acc else y) x)

/-- `[l, r, ll, lr, rl, rr].iter().map_while(|i| heap.get(i))` paired with the priority read through
`map.get_index(index).unwrap()` (site 303) -/
def candidates (s : Store P) (i : Nat) : R (List (Nat × P)) :=
  let l := left i
  let r := right i
  go [l, r, left l, right l, left r, right r]
where
  go : List Nat → R (List (Nat × P))
    | [] => pure []
    | c :: cs =>
      match s.heap[c]? with
      | none => pure []
      | some idx => do
        let e ← unwrapO (s.map.getIndex idx) 303
        let rest ← go cs
        pure ((c, e.2) :: rest)

/-- the `while` loop of `heapify_min` -/
def heapifyMinLoop : Nat → Store P → Nat → R (Store P)
  | 0, _, _ => .error .fuel
  | fuel + 1, s, i => do
    let last ← decC s.size 301
    let bound ← parentC last 302
    if i ≤ bound then do
      let m := i
      let cs ← candidates s i
      let c ← unwrapO (minByKey cs) 304
      let c := c.1
      let s := s.tick (cs.length - 1)
      let pc ← s.prioAt c
      let pm ← s.prioAt m
      let s := s.tick
      if pc < pm then do
        let s ← s.swap c m
        if c > right m then do
          let p ← parentC c 305
          let pc ← s.prioAt c
          let pp ← s.prioAt p
          let s := s.tick
          let s ← if pp < pc then s.swap c p else pure s
          heapifyMinLoop fuel s c
        else pure s
      else pure s
    else pure s

/-- the `while` loop of `heapify_max` -/
def heapifyMaxLoop : Nat → Store P → Nat → R (Store P)
  | 0, _, _ => .error .fuel
  | fuel + 1, s, i => do
    let last ← decC s.size 306
    let bound ← parentC last 307
    if i ≤ bound then do
      let m := i
      let cs ← candidates s i
      let c ← unwrapO (maxByKey cs) 308
      let c := c.1
      let s := s.tick (cs.length - 1)
      let pc ← s.prioAt c
      let pm ← s.prioAt m
      let s := s.tick
      if pm < pc then do
        let s ← s.swap c m
        if c > right m then do
          let p ← parentC c 309
          let pc ← s.prioAt c
          let pp ← s.prioAt p
          let s := s.tick
          let s ← if pc < pp then s.swap c p else pure s
          heapifyMaxLoop fuel s c
        else pure s
      else pure s
    else pure s

/-- `heapify(i)`: dispatch on the parity of the level -/
def heapify (s : Store P) (i : Nat) : R (Store P) :=
  if s.size ≤ 1 then pure s
  else if level i % 2 = 0 then heapifyMinLoop s.size s i
  else heapifyMaxLoop s.size s i

/-- the loop of `bubble_up_min`: climb over grandparents while they are greater than `priority` -/
def bubbleUpMinLoop : Nat → Store P → Nat → P → R (Store P × Nat)
  | 0, _, _, _ => .error .fuel
  | fuel + 1, s, position, priority =>
    if position > 0 ∧ parent position > 0 then do
      let gp := parent (parent position)
      let gpp ← s.prioAt gp
      let s := s.tick
      if priority < gpp then do
        let gpi ← getU s.heap gp 320
        let heap ← setU s.heap position gpi 321
        let qp ← setU s.qp gpi position 322
        bubbleUpMinLoop fuel { s with heap := heap, qp := qp } gp priority
      else pure (s, position)
    else pure (s, position)

/-- the loop of `bubble_up_max` -/
def bubbleUpMaxLoop : Nat → Store P → Nat → P → R (Store P × Nat)
  | 0, _, _, _ => .error .fuel
  | fuel + 1, s, position, priority =>
    if position > 0 ∧ parent position > 0 then do
      let gp := parent (parent position)
      let gpp ← s.prioAt gp
      let s := s.tick
      if gpp < priority then do
        let gpi ← getU s.heap gp 323
        let heap ← setU s.heap position gpi 324
        let qp ← setU s.qp gpi position 325
        bubbleUpMaxLoop fuel { s with heap := heap, qp := qp } gp priority
      else pure (s, position)
    else pure (s, position)

/-- `bubble_up_min(position, map_position)` (reads the priority again: `unwrap`, site 318) -/
def bubbleUpMin (s : Store P) (position mapPosition : Nat) : R (Store P × Nat) := do
  let e ← unwrapO (s.map.getIndex mapPosition) 318
  bubbleUpMinLoop (position + 1) s position e.2

def bubbleUpMax (s : Store P) (position mapPosition : Nat) : R (Store P × Nat) := do
  let e ← unwrapO (s.map.getIndex mapPosition) 319
  bubbleUpMaxLoop (position + 1) s position e.2

/-- `bubble_up(position, map_position)` -/
def bubbleUp (s : Store P) (position mapPosition : Nat) : R (Store P × Nat) := do
  let e ← unwrapO (s.map.getIndex mapPosition) 310
  let priority := e.2
  let (s, position) ←
    if position > 0 then do
      let par := parent position
      let pp ← s.prioAt par
      let parentIndex ← getU s.heap par 311
      let s := s.tick
      match decide (level position % 2 = 0), decide (pp < priority) with
      | true, true => do
        let heap ← setU s.heap position parentIndex 312
        let qp ← setU s.qp parentIndex position 313
        bubbleUpMax { s with heap := heap, qp := qp } par mapPosition
      | true, false => bubbleUpMin s position mapPosition
      | false, true => bubbleUpMax s position mapPosition
      | false, false => do
        let heap ← setU s.heap position parentIndex 314
        let qp ← setU s.qp parentIndex position 315
        bubbleUpMin { s with heap := heap, qp := qp } par mapPosition
    else pure (s, position)
  let heap ← setU s.heap position mapPosition 316
  let qp ← setU s.qp mapPosition position 317
  pure ({ s with heap := heap, qp := qp }, position)

/-- `up_heapify(i)`: sift up, then re-sift both the vacated and the final position -/
def upHeapify (s : Store P) (i : Nat) : R (Store P) :=
  match s.heap[i]? with
  | none => pure s
  | some tmp => do
    let (s, pos) ← bubbleUp s i tmp
    let s ← if i ≠ pos then heapify s i else pure s
    heapify s pos

def heapBuildLoop (s : Store P) : Nat → R (Store P)
  | 0 => heapify s 0
  | k + 1 => do
    let s ← heapify s (k + 1)
    heapBuildLoop s k

def heapBuild (s : Store P) : R (Store P) :=
  if s.size = 0 then pure s
  else do
    let top ← parentC s.size 326
    heapBuildLoop s top

def findMin (s : Store P) : Option Nat :=
  if s.size = 0 then none else some 0

/-- `find_max`: returns the ticked store and the position -/
def findMax (s : Store P) : R (Store P × Option Nat) :=
  match s.size with
  | 0 => pure (s, none)
  | 1 => pure (s, some 0)
  | 2 => pure (s, some 1)
  | _ => do
    let p1 ← s.prioAt 1
    let p2 ← s.prioAt 2
    pure (s.tick, some (if p2 < p1 then 1 else 2))

/-! ## public operations -/

def entryAt (s : Store P) (pos : Nat) (site : Nat) : R (Option (Item × P)) := do
  let i ← getU s.heap pos site
  pure (s.map.getIndex i)

def peekMin (s : Store P) : R (Option (Item × P)) :=
  match findMin s with
  | none => pure none
  | some i => entryAt s i 327

def peekMax (s : Store P) : R (Store P × Option (Item × P)) := do
  let (s, r) ← findMax s
  match r with
  | none => pure (s, none)
  | some i => do
    let e ← entryAt s i 328
    pure (s, e)

def peekMinMutWrite (s : Store P) (w : Item → Item) : R (Store P × Option (Item × P)) :=
  match findMin s with
  | none => pure (s, none)
  | some pos => do
    let i ← getU s.heap pos 329
    match s.map.getIndex i with
    | some e => pure ({ s with map := s.map.setItem i (w e.1) }, some e)
    | none => pure (s, none)

def peekMaxMutWrite (s : Store P) (w : Item → Item) : R (Store P × Option (Item × P)) := do
  let (s, r) ← findMax s
  match r with
  | none => pure (s, none)
  | some pos => do
    let i ← getU s.heap pos 330
    match s.map.getIndex i with
    | some e => pure ({ s with map := s.map.setItem i (w e.1) }, some e)
    | none => pure (s, none)

def popMin (s : Store P) : R (Store P × Option (Item × P)) :=
  match findMin s with
  | none => pure (s, none)
  | some i => do
    let (s, r) ← s.swapRemove i
    let s ← heapify s i
    pure (s, r)

def popMax (s : Store P) : R (Store P × Option (Item × P)) := do
  let (s, r) ← findMax s
  match r with
  | none => pure (s, none)
  | some i => do
    let (s, r) ← s.swapRemove i
    let s ← heapify s i
    pure (s, r)

def popMinIf (s : Store P) (f : Item → P → Bool × Item × P) : R (Store P × Option (Item × P)) :=
  match findMin s with
  | none => pure (s, none)
  | some i => do
    let (s, r) ← s.swapRemoveIf i f
    let s ← heapify s i
    pure (s, r)

def popMaxIf (s : Store P) (f : Item → P → Bool × Item × P) : R (Store P × Option (Item × P)) := do
  let (s, r) ← findMax s
  match r with
  | none => pure (s, none)
  | some i => do
    let (s, r) ← s.swapRemoveIf i f
    let s ← upHeapify s i
    pure (s, r)

def push (s : Store P) (it : Item) (p : P) : R (Store P × Option P) :=
  let (map, idx, old) := s.map.insertFull it p
  let s := { s with map := map }
  match old with
  | some oldp => do
    let pos ← getU s.qp idx 331
    let s ← upHeapify s pos
    pure (s, some oldp)
  | none => do
    let i := s.size
    let s := { s with qp := s.qp.push i, heap := s.heap.push i }
    let (s, _) ← bubbleUp s i i
    pure ({ s with size := s.size + 1 }, none)

def pushIncrease (s : Store P) (it : Item) (p : P) : R (Store P × Option P) :=
  match s.getPriority it.key with
  | none => push s it p
  | some q =>
    let s := s.tick
    if q < p then push s it p else pure (s, some p)

def pushDecrease (s : Store P) (it : Item) (p : P) : R (Store P × Option P) :=
  match s.getPriority it.key with
  | none => push s it p
  | some q =>
    let s := s.tick
    if p < q then push s it p else pure (s, some p)

def changePriority (s : Store P) (k : Nat) (p : P) : R (Store P × Option P) := do
  let (s, r) ← s.changePriority k p
  match r with
  | some (old, pos) => do
    let s ← upHeapify s pos
    pure (s, some old)
  | none => pure (s, none)

def changePriorityBy (s : Store P) (k : Nat) (setter : P → P) : R (Store P × Bool) := do
  let (s, r) ← s.changePriorityBy k setter
  match r with
  | some pos => do
    let s ← upHeapify s pos
    pure (s, true)
  | none => pure (s, false)

def remove (s : Store P) (k : Nat) : R (Store P × Option (Item × P)) := do
  let (s, r) ← s.remove k
  match r with
  | some (it, p, pos) =>
    if pos < s.size then do
      let s ← upHeapify s pos
      pure (s, some (it, p))
    else pure (s, some (it, p))
  | none => pure (s, none)

def retainMut (s : Store P) (f : Item → P → Bool × Item × P) : R (Store P) :=
  heapBuild (s.retainMut f)

def append (s o : Store P) : R (Store P × Store P) := do
  let (s, o) := s.append o
  let s ← heapBuild s
  pure (s, o)

def fromVec (v : Array (Item × P)) : R (Store P) := heapBuild (Store.fromVec v)
/-- `FromIterator::from_iter` with the lower bound `lo` of the iterator's `size_hint` (see `MaxQ.fromIter`) -/
def fromIter (lo : Nat) (xs : Array (Item × P)) : R (Store P) := do
  reserveC lo
  heapBuild (Store.fromIter xs)
/-- `From<PriorityQueue>` -/
def ofStore (s : Store P) : R (Store P) := heapBuild s
/-- `Deserialize` with the announced (untrusted) length `hint` (see `MaxQ.deserialize`): the pre-allocation is capped at
4096 elements -/
def deserialize (hint : Option Nat) (xs : Array (Item × P)) : R (Store P) := do
  match hint with
  | some h => reserveC (min h 4096)
  | none => pure ()
  heapBuild (Store.visitSeq xs)

def pushAll : List (Item × P) → Store P → R (Store P)
  | [], s => pure s
  | e :: es, s => do
    let (s, _) ← push s e.1 e.2
    pushAll es s

/-- `Extend::extend` with the lower bound `lo` of the iterator's `size_hint` (see `MaxQ.extend`): `self.reserve(lo)` first -/
def extend (s : Store P) (lo : Nat) (xs : Array (Item × P)) : R (Store P) := do
  reserveC lo
  let rebuild := if lo ≠ 0 then betterToRebuild s.size lo else false
  if rebuild then heapBuild (s.extend xs) else pushAll xs.toList s

/-- the double-ended sorted iterator: `false` = `next` (pop_min), `true` = `next_back` (pop_max) -/
def sortedCalls : List Bool → Store P → R (List (Option (Item × P)) × Store P)
  | [], s => pure ([], s)
  | b :: bs, s => do
    let (s, r) ← if b then popMax s else popMin s
    let (rest, s) ← sortedCalls bs s
    pure (r :: rest, s)

def drainAsc : Nat → Store P → R (List (Item × P))
  | 0, _ => .error .fuel
  | fuel + 1, s => do
    let (s, r) ← popMin s
    match r with
    | some e => do
      let rest ← drainAsc fuel s
      pure (e :: rest)
    | none => pure []

def drainDesc : Nat → Store P → R (List (Item × P))
  | 0, _ => .error .fuel
  | fuel + 1, s => do
    let (s, r) ← popMax s
    match r with
    | some e => do
      let rest ← drainDesc fuel s
      pure (e :: rest)
    | none => pure []

def intoAscendingSortedVec (s : Store P) : R (List (Item × P)) := drainAsc (s.size + 1) s
def intoDescendingSortedVec (s : Store P) : R (List (Item × P)) := drainDesc (s.size + 1) s

end PQ.DQ
