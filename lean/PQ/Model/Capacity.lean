import PQ.Model.Ops
/-!
# Capacity: the queue together with the capacities of its three collections, over an arbitrary allocator

`Store` (Model/Store.lean) does not carry capacities.  This file puts them next to it: `QC = queue × capacities`, an
operation alphabet `COp` = the plain operations plus `reserve`, `reserve_exact`, `try_reserve`, `try_reserve_exact`,
`shrink_to_fit`, `capacity`, and `stepC`, which mirrors `src/store.rs` l.203-293: each capacity function forwards to the
map, then `heap`, then `qp`, in that order; `try_reserve*` return at the first refusal (`?`), leaving the collections
already grown as they are; `reserve*` panic where the collection's own `reserve` panics.

The allocator is a parameter (`Alloc`): an oracle that, per collection and per request, either refuses or returns a new
capacity that fits — any growth policy, any failure pattern (capacity overflow, out of memory, a limit that differs per
collection).  What the theorems in `Lemmas/CapacityLemmas.lean` say holds for EVERY allocator.
-/
namespace PQ.Cap
open PQ

/-- the three collections of a store -/
inductive Coll where
  | map | heap | qp
  deriving DecidableEq, Repr

structure Caps where
  map : Nat
  heap : Nat
  qp : Nat
  deriving DecidableEq, Repr

def Caps.get (c : Caps) : Coll → Nat
  | .map => c.map
  | .heap => c.heap
  | .qp => c.qp

def Caps.set (c : Caps) : Coll → Nat → Caps
  | .map, n => { c with map := n }
  | .heap, n => { c with heap := n }
  | .qp, n => { c with qp := n }

/-- an allocator / growth policy.  Only the contracts of `Vec` / `IndexMap` are assumed: a granted reservation fits and never
shrinks; `shrink_to_fit` stays between the length and the old capacity; a collection that grows on demand fits its new
length. -/
structure Alloc where
  /-- `try_reserve(additional)` on a collection of capacity `cap` holding `len` elements; `none` = refused -/
  grant : Coll → (cap len additional : Nat) → Option Nat
  grant_fits : ∀ w cap len add c, grant w cap len add = some c → len + add ≤ c ∧ cap ≤ c
  /-- `shrink_to_fit` -/
  shrink : Coll → (cap len : Nat) → Nat
  shrink_fits : ∀ w cap len, len ≤ cap → len ≤ shrink w cap len ∧ shrink w cap len ≤ cap
  /-- the capacity after an ordinary operation left `len'` elements (pushes grow on demand, constructors start afresh) -/
  regrow : Coll → (cap len' : Nat) → Nat
  regrow_fits : ∀ w cap len', len' ≤ regrow w cap len'

structure QC (P : Type) where
  q : Q P
  caps : Caps

/-- `len ≤ capacity` for the three collections -/
def QC.CapsOk {P : Type} (x : QC P) : Prop :=
  x.q.s.size ≤ x.caps.map ∧ x.q.s.size ≤ x.caps.heap ∧ x.q.s.size ≤ x.caps.qp

inductive COp (P : Type) where
  | plain (op : Op P)
  | reserve (n : Nat)
  | reserveExact (n : Nat)
  | tryReserve (n : Nat)
  | tryReserveExact (n : Nat)
  | shrinkToFit
  | capacity

inductive COut (P : Type) where
  | plain (o : Out P)
  | unit
  /-- `Result<(), TryReserveError>` -/
  | tryOk
  | tryErr
  /-- `capacity()` = the map's capacity -/
  | cap (n : Nat)

variable {P : Type} [LT P] [DecidableLT P]

/-- `try_reserve(additional)`: map, then heap, then qp; the first refusal is returned and what was grown stays grown -/
def tryReserve (a : Alloc) (c : Caps) (len n : Nat) : Caps × Bool :=
  match a.grant .map c.map len n with
  | none => (c, false)
  | some m =>
    let c := { c with map := m }
    match a.grant .heap c.heap len n with
    | none => (c, false)
    | some h =>
      let c := { c with heap := h }
      match a.grant .qp c.qp len n with
      | none => (c, false)
      | some q => ({ c with qp := q }, true)

def stepC (a : Alloc) (x : QC P) : COp P → R (QC P × COut P)
  | .plain op => do
    let (q', o) ← step x.q op
    let n := q'.s.size
    pure ({ q := q', caps := ⟨a.regrow .map x.caps.map n, a.regrow .heap x.caps.heap n, a.regrow .qp x.caps.qp n⟩ }, .plain o)
  | .reserve n | .reserveExact n =>
    -- `reserve` panics where `try_reserve` would report an error (the documented capacity-overflow panic)
    match tryReserve a x.caps x.q.s.size n with
    | (c, true) => pure ({ x with caps := c }, .unit)
    | (_, false) => .error .capacity
  | .tryReserve n | .tryReserveExact n =>
    match tryReserve a x.caps x.q.s.size n with
    | (c, true) => pure ({ x with caps := c }, .tryOk)
    | (c, false) => pure ({ x with caps := c }, .tryErr)
  | .shrinkToFit =>
    let n := x.q.s.size
    pure ({ x with caps := ⟨a.shrink .map x.caps.map n, a.shrink .heap x.caps.heap n, a.shrink .qp x.caps.qp n⟩ }, .unit)
  | .capacity => pure (x, .cap x.caps.map)

def runC (a : Alloc) (x : QC P) : List (COp P) → R (QC P × List (COut P))
  | [] => pure (x, [])
  | op :: ops => do
    let (x', o) ← stepC a x op
    let (x'', os) ← runC a x' ops
    pure (x'', o :: os)

/-- the plain operations of a capacity-aware history -/
def plainOps : List (COp P) → List (Op P)
  | [] => []
  | .plain op :: ops => op :: plainOps ops
  | _ :: ops => plainOps ops

/-- the results of the plain operations -/
def plainOuts : List (COut P) → List (Out P)
  | [] => []
  | .plain o :: os => o :: plainOuts os
  | _ :: os => plainOuts os

/-- `new()` / `with_capacity(n)`: an empty queue with whatever capacity the allocator gave (at least 0 = the length) -/
def QC.new (kind : Kind) (caps : Caps) : QC P := { q := Q.new kind, caps := caps }

end PQ.Cap
