import PQ.Model.Ops
/-!
# Observations: the public methods that look at a queue without being operations of the alphabet `Op`

`step` (`PQ/Model/Ops.lean`) executes the operations histories are made of.  The methods below only *observe*: they are
pure functions of the store (`peek_max` of the min-max queue additionally spends one comparison, which shows in the ghost
counter only).  The line-protocol driver executes every observation line of a trace through `observe`, exactly as it executes
every operation line through `step`, so that the driver itself contains parsing and printing only.

Not here: the iterator machines (`iter`, `into_iter`, `drain`, `iter_mut`, `into_sorted_iter`), which are driven call by
call (`PQ/Model/Iter.lean`).

No imports outside the model: links into the native driver.
-/
namespace PQ

/-- the observing methods (of either kind; a method one kind does not have is simply never asked of it) -/
inductive Obs (P : Type) where
  /-- `PriorityQueue::peek` -/
  | peek
  /-- `DoublePriorityQueue::peek_min` -/
  | peekMin
  /-- `DoublePriorityQueue::peek_max` (one comparison when there are three or more elements) -/
  | peekMax
  /-- `get(item)` -/
  | get (k : Nat)
  /-- `get_priority(item)` -/
  | getPriority (k : Nat)
  | len
  | isEmpty
  /-- `into_vec()` / `iter().collect()`: the entries in slot order -/
  | intoVec
  /-- `PriorityQueue::into_sorted_vec` (on a consumed copy: the queue itself is unchanged) -/
  | intoSortedVec
  /-- `DoublePriorityQueue::into_ascending_sorted_vec` -/
  | intoAscVec
  /-- `DoublePriorityQueue::into_descending_sorted_vec` -/
  | intoDescVec
  /-- `{:?}` -/
  | debug
  /-- `self == other` (`PartialEq`), `other` given by its store -/
  | eqv (o : Store P)

variable {P : Type} [LT P] [DecidableLT P] [DecidableEq P]

/-- one observation: the (unchanged, or for `peek_max` ticked) queue and the answer -/
def observe (q : Q P) : Obs P → R (Q P × Out P)
  | .peek => pure (q, .entry (MaxQ.peek q.s))
  | .peekMin => do
    let r ← DQ.peekMin q.s
    pure (q, .entry r)
  | .peekMax => do
    let (s, r) ← DQ.peekMax q.s
    pure ({ q with s := s }, .entry r)
  | .get k => pure (q, .entry (q.s.get k))
  | .getPriority k => pure (q, .prio (q.s.getPriority k))
  | .len => pure (q, .nat q.s.len)
  | .isEmpty => pure (q, .bool q.s.isEmpty)
  | .intoVec => pure (q, .entries q.s.map.toList)
  | .intoSortedVec => do
    let l ← MaxQ.intoSortedVec q.s
    pure (q, .entries l)
  | .intoAscVec => do
    let l ← DQ.intoAscendingSortedVec q.s
    pure (q, .entries l)
  | .intoDescVec => do
    let l ← DQ.intoDescendingSortedVec q.s
    pure (q, .entries l)
  | .debug => do
    let l ← q.s.debugEntries
    pure (q, .debug l)
  | .eqv o => pure (q, .bool (Store.eqv q.s o))

end PQ
