import PQ.Model.Store
import PQ.Model.Arith
/-!
# Model of `src/priority_queue/mod.rs` (binary max-heap over the store)

Namespace `PQ.MaxQ`.  Fault sites 2xx.  Comparisons use `<` on `P` only, oriented exactly as in the
Rust code (`a > b` is `b < a`).  Loops are structural recursions on `fuel`; "fuel never runs out" is
proved, not assumed.
-/
namespace PQ.MaxQ
open PQ PQ.Arith
variable {P : Type} [LT P] [DecidableLT P]

/-- `parent(i)` at a call site: `i.0 - 1` is a checked subtraction -/
@[inline] def parentC (i : Nat) (site : Nat) : R Nat :=
  if i = 0 then .error (.arith site) else .ok (parent i)

/-- the selection of `largest` among `i` and its children, as in both copies of it inside `heapify` -/
def pickLargest (s : Store P) (i : Nat) : R (Store P × Nat) := do
  let l := left i
  let ip ← s.prioAt i
  if l < s.size then do
    let childp ← s.prioAt l
    let s := s.tick
    let largest := if ip < childp then l else i
    let largestp := if ip < childp then childp else ip
    let r := right i
    if r < s.size then do
      let rp ← s.prioAt r
      pure (s.tick, if largestp < rp then r else largest)
    else pure (s, largest)
  else pure (s, i)

/-- the `while largest != i` loop of `heapify` -/
def heapifyLoop : Nat → Store P → Nat → R (Store P)
  | 0, _, _ => .error .fuel
  | fuel + 1, s, i => do
    let (s, largest) ← pickLargest s i
    if largest = i then pure s
    else do
      let s ← s.swap i largest
      heapifyLoop fuel s largest

/-- `heapify(i)`: sift-down -/
def heapify (s : Store P) (i : Nat) : R (Store P) :=
  if s.size ≤ 1 then pure s else heapifyLoop s.size s i

/-- the `while` loop of `bubble_up`: the hole moves up while the parent is smaller than `priority` -/
def bubbleUpLoop : Nat → Store P → Nat → P → R (Store P × Nat)
  | 0, _, _, _ => .error .fuel
  | fuel + 1, s, position, priority =>
    if position > 0 then do
      let parentPos := parent position
      let pp ← s.prioAt parentPos
      let s := s.tick
      if pp < priority then do
        let parentIndex ← getU s.heap parentPos 201
        let heap ← setU s.heap position parentIndex 202
        let qp ← setU s.qp parentIndex position 203
        bubbleUpLoop fuel { s with heap := heap, qp := qp } parentPos priority
      else pure (s, position)
    else pure (s, position)

/-- `bubble_up(position, map_position)`: sift-up with the moving-hole technique -/
def bubbleUp (s : Store P) (position mapPosition : Nat) : R (Store P × Nat) := do
  let e ← unwrapO (s.map.getIndex mapPosition) 204
  let (s, position) ← bubbleUpLoop (position + 1) s position e.2
  let heap ← setU s.heap position mapPosition 205
  let qp ← setU s.qp mapPosition position 206
  pure ({ s with heap := heap, qp := qp }, position)

/-- `up_heapify(i)` -/
def upHeapify (s : Store P) (i : Nat) : R (Store P) := do
  let tmp ← getU s.heap i 207
  let (s, pos) ← bubbleUp s i tmp
  heapify s pos

/-- `for i in (0..=k).rev() { heapify(i) }` -/
def heapBuildLoop (s : Store P) : Nat → R (Store P)
  | 0 => heapify s 0
  | k + 1 => do
    let s ← heapify s (k + 1)
    heapBuildLoop s k

/-- `heap_build` (Floyd) -/
def heapBuild (s : Store P) : R (Store P) :=
  if s.size = 0 then pure s
  else do
    let top ← parentC s.size 208
    heapBuildLoop s top

/-! ## public operations -/

def peek (s : Store P) : Option (Item × P) :=
  match s.heap[0]? with
  | some i => s.map.getIndex i
  | none => none

/-- `peek_mut` with the caller's write to the item as `w` -/
def peekMutWrite (s : Store P) (w : Item → Item) : R (Store P × Option (Item × P)) :=
  if s.size = 0 then pure (s, none)
  else do
    let i ← getU s.heap 0 209
    match s.map.getIndex i with
    | some e => pure ({ s with map := s.map.setItem i (w e.1) }, some e)
    | none => pure (s, none)

def pop (s : Store P) : R (Store P × Option (Item × P)) :=
  match s.size with
  | 0 => pure (s, none)
  | 1 => s.swapRemove 0
  | _ => do
    let (s, r) ← s.swapRemove 0
    let s ← heapify s 0
    pure (s, r)

def popIf (s : Store P) (f : Item → P → Bool × Item × P) : R (Store P × Option (Item × P)) :=
  match s.size with
  | 0 => pure (s, none)
  | 1 => s.swapRemoveIf 0 f
  | _ => do
    let (s, r) ← s.swapRemoveIf 0 f
    let s ← heapify s 0
    pure (s, r)

def push (s : Store P) (it : Item) (p : P) : R (Store P × Option P) :=
  let (map, idx, old) := s.map.insertFull it p
  let s := { s with map := map }
  match old with
  | some oldp => do
    let pos ← getU s.qp idx 210
    let s ← upHeapify s pos
    pure (s, some oldp)
  | none => do
    let i := s.size
    let s := { s with qp := s.qp.push i, heap := s.heap.push i }
    let (s, _) ← bubbleUp s i i
    pure ({ s with size := s.size + 1 }, none)

def pushIncrease (s : Store P) (it : Item) (p : P) : R (Store P × Option P) :=
  match s.getPriority it.key with
  | none => push s it p
  | some q =>
    let s := s.tick
    if q < p then push s it p else pure (s, some p)

def pushDecrease (s : Store P) (it : Item) (p : P) : R (Store P × Option P) :=
  match s.getPriority it.key with
  | none => push s it p
  | some q =>
    let s := s.tick
    if p < q then push s it p else pure (s, some p)

def changePriority (s : Store P) (k : Nat) (p : P) : R (Store P × Option P) := do
  let (s, r) ← s.changePriority k p
  match r with
  | some (old, pos) => do
    let s ← upHeapify s pos
    pure (s, some old)
  | none => pure (s, none)

def changePriorityBy (s : Store P) (k : Nat) (setter : P → P) : R (Store P × Bool) := do
  let (s, r) ← s.changePriorityBy k setter
  match r with
  | some pos => do
    let s ← upHeapify s pos
    pure (s, true)
  | none => pure (s, false)

def remove (s : Store P) (k : Nat) : R (Store P × Option (Item × P)) := do
  let (s, r) ← s.remove k
  match r with
  | some (it, p, pos) =>
    if pos < s.size then do
      let s ← upHeapify s pos
      pure (s, some (it, p))
    else pure (s, some (it, p))
  | none => pure (s, none)

def retainMut (s : Store P) (f : Item → P → Bool × Item × P) : R (Store P) :=
  heapBuild (s.retainMut f)

def append (s o : Store P) : R (Store P × Store P) := do
  let (s, o) := s.append o
  let s ← heapBuild s
  pure (s, o)

def fromVec (v : Array (Item × P)) : R (Store P) := heapBuild (Store.fromVec v)
/-- `FromIterator::from_iter`: `lo` is the lower bound of the iterator's `size_hint` (the only part the code reads; the
upper bound is not part of the model): `Store::from_iter` calls `with_capacity_and_hasher(lo)` when `lo > 0`
(`reserveC 0` is the no-op of the `lo = 0` branch), inserts the pairs `xs` the iterator yields, then `heap_build` -/
def fromIter (lo : Nat) (xs : Array (Item × P)) : R (Store P) := do
  reserveC lo
  heapBuild (Store.fromIter xs)
/-- `From<DoublePriorityQueue>` -/
def ofStore (s : Store P) : R (Store P) := heapBuild s
/-- `Deserialize` (`visit_seq`): `hint` is the length the input ANNOUNCES (`SeqAccess::size_hint`, untrusted), `xs` the
pairs it actually contains.  The code pre-allocates `with_capacity(min(hint, 4096))` — never the announced length itself —
then inserts the pairs and rebuilds. -/
def deserialize (hint : Option Nat) (xs : Array (Item × P)) : R (Store P) := do
  match hint with
  | some h => reserveC (min h 4096)
  | none => pure ()
  heapBuild (Store.visitSeq xs)

/-- the per-element strategy of `extend` -/
def pushAll : List (Item × P) → Store P → R (Store P)
  | [], s => pure s
  | e :: es, s => do
    let (s, _) ← push s e.1 e.2
    pushAll es s

/-- `Extend::extend`: `lo` is the lower bound of the iterator's `size_hint` (the only part read; the upper bound is not
part of the model), `xs` the pairs the iterator yields.  `self.reserve(lo)` comes first (Rust skips the call when
`lo = 0`, which `reserveC 0 = ok` covers): an announced lower bound `≥ capLimit` is the capacity-overflow panic. -/
def extend (s : Store P) (lo : Nat) (xs : Array (Item × P)) : R (Store P) := do
  reserveC lo
  let rebuild := if lo ≠ 0 then betterToRebuild s.size lo else false
  if rebuild then heapBuild (s.extend xs) else pushAll xs.toList s

/-- `into_sorted_vec` / `into_sorted_iter` consumed from the front: pop until empty -/
def drainSorted : Nat → Store P → R (List (Item × P))
  | 0, _ => .error .fuel
  | fuel + 1, s => do
    let (s, r) ← pop s
    match r with
    | some e => do
      let rest ← drainSorted fuel s
      pure (e :: rest)
    | none => pure []

def intoSortedVec (s : Store P) : R (List (Item × P)) := drainSorted (s.size + 1) s

end PQ.MaxQ
