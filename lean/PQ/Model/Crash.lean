import PQ.Model.Ops
/-!
# Fused twins: the model of property C10's crash points

A *crash* is a panic raised by the user's `Ord::cmp` in the middle of an operation of the crate, caught by the caller with
`catch_unwind`.  Every function of `PQ.lean` / `DPQ.lean` / `Ops.lean` that compares priorities gets a *fused twin* here
(suffix `F`, namespaces `PQ.Crash.MaxQ` / `PQ.Crash.DQ` / `PQ.Crash`): the same algorithm, statement for statement, but every
comparison goes through `cmpF` (or `cmpHoleF`).  The comparison whose ordinal equals `fuse` panics; the twin then stops with
`Stop.crashed s'` where `s'` is the store **as the real code leaves it after unwinding**.

## Conventions

* Ordinals are *absolute* values of the ghost counter `Store.ticks`: the comparison performed while the current store is `s`
  has ordinal `s.ticks + 1`.  To make the `k`-th comparison of an operation panic the driver passes `fuse := s.ticks + k`.
  `fuse = 0` means "never" (`s.ticks + 1 ≠ 0`).  The panicking comparison is *not* counted: a crashed store carries the number of
  comparisons that completed.
  - the constructors (`fromVecF`, `fromIterF`, `deserializeF`) start from a fresh store whose counter is `0`: there `fuse = k`;
  - `Store.append` may exchange receiver and argument (`mem::swap`), the ghost counter travels with the store, so the rebuild of
    `appendF` counts from the counter of whichever store became the receiver (this is how the plain model behaves).
* Unwinding runs exactly one piece of crate code that writes to the store: `Drop for Hole` (store.rs), the guard of the sift-up
  functions.  It writes the travelling element into the position the hole has reached: `heap[position] := map_position;
  qp[map_position] := position` (`fillHole`; these are unchecked writes, hence a `Fault` if out of range).  All other comparison
  sites are between complete statements (`Store::swap` contains no user code), so the store is left as it is at that moment.
* Twins take `fuse` as first argument; the sift-up loops additionally take `mapPosition` (the guard needs it); otherwise the
  signatures and bodies are those of the plain originals with `R` replaced by `CR P` (plain sub-computations are lifted with `liftR`).
  The `min_by_key` / `max_by_key` folds thread the store through the fold so that each of their `length - 1` comparisons has its
  own ordinal (the plain model ticks `length - 1` at once).
* `pushF` follows the *current* statement order of `push` (since the F6 fix): `size += 1` happens *before* the sift-up; the plain
  model `push` bumps `size` after `bubbleUp` (equivalent when nothing panics, because `bubbleUp` does not read `size`).
* Operations that build a *new* queue (`From<Vec>`, `FromIterator`, `Deserialize`) drop it when the rebuild panics: they stop
  with `Stop.crashedNew` (no store survives; whatever queue the caller had is untouched).
* `stepF` works on queues (`Q P` = kind + store) and stops with `StopQ`: `StopQ.crashed q'` carries the *kind* too, because
  `From<other kind>` (`Op.convert`) consumes the old queue and rebuilds its store in place as a queue of the *target* kind.

No imports outside core Lean: this file links into the native driver.
-/
namespace PQ.Crash
open PQ PQ.Arith

/-- why a fused computation stopped -/
inductive Stop (P : Type) where
  /-- an ordinary model fault (never happens on well-formed stores) -/
  | fault (f : Fault)
  /-- the fuse fired: `s` is the store after unwinding -/
  | crashed (s : Store P)
  /-- the fuse fired while a *fresh* queue was being built: that queue is dropped, nothing of it survives -/
  | crashedNew

abbrev CR (P : Type) (α : Type) := Except (Stop P) α

/-- lift a plain model computation -/
def liftR {P α : Type} : R α → CR P α
  | .ok a => .ok a
  | .error f => .error (.fault f)

/-- a crash while building a fresh queue: the partially rebuilt store is dropped -/
def asNew {P α : Type} : CR P α → CR P α
  | .error (.crashed _) => .error .crashedNew
  | x => x

variable {P : Type} [LT P] [DecidableLT P]

/-- the fused comparison `a < b` performed while the current store is `s`: the comparison whose ordinal (the ghost counter
`s.ticks + 1`) equals `fuse` panics.  `fuse = 0` means "never".  `onCrash` says what unwinding leaves behind (default: `s` itself,
i.e. the store at that moment with the panicking comparison not counted). -/
def cmpF (fuse : Nat) (s : Store P) (a b : P) (onCrash : Store P := s) : CR P (Store P × Bool) :=
  if s.ticks + 1 = fuse then .error (.crashed onCrash) else .ok (s.tick, decide (a < b))

/-- `Drop for Hole`: `*heap.get_unchecked_mut(position) = map_position; *qp.get_unchecked_mut(map_position) = position`.
The sites are those of the same two writes at the end of the plain `bubbleUp` (205/206 in the PQ, 316/317 in the DPQ). -/
def fillHole (s : Store P) (position mapPosition : Nat) (siteH siteQ : Nat) : R (Store P) := do
  let heap ← setU s.heap position mapPosition siteH
  let qp ← setU s.qp mapPosition position siteQ
  pure { s with heap := heap, qp := qp }

/-- the fused comparison `a < b` performed while a `Hole` guard is alive with the hole at `position`: on a crash the guard fills
the hole (a fault of these writes is reported as `.fault`) -/
def cmpHoleF (fuse : Nat) (s : Store P) (a b : P) (position mapPosition : Nat) (siteH siteQ : Nat) :
    CR P (Store P × Bool) :=
  if s.ticks + 1 = fuse then
    match fillHole s position mapPosition siteH siteQ with
    | .ok s' => .error (.crashed s')
    | .error f => .error (.fault f)
  else .ok (s.tick, decide (a < b))

/-! Unfolding facts (all by computation) for whoever proves things about the twins. -/
omit [LT P] [DecidableLT P] in
@[simp] theorem liftR_ok {α : Type} (a : α) : (liftR (.ok a : R α) : CR P α) = .ok a := rfl
omit [LT P] [DecidableLT P] in
@[simp] theorem liftR_error {α : Type} (f : Fault) : (liftR (.error f : R α) : CR P α) = .error (.fault f) := rfl
omit [LT P] [DecidableLT P] in
@[simp] theorem liftR_pure {α : Type} (a : α) : (liftR (pure a : R α) : CR P α) = pure a := rfl
omit [LT P] [DecidableLT P] in
theorem liftR_bind {α β : Type} (x : R α) (f : α → R β) :
    (liftR (x >>= f) : CR P β) = liftR x >>= fun a => liftR (f a) := by
  cases x <;> rfl
/-- with the fuse off a fused comparison is the plain one: tick, then `decide (a < b)` -/
@[simp] theorem cmpF_zero (s : Store P) (a b : P) (oc : Store P) : cmpF 0 s a b oc = .ok (s.tick, decide (a < b)) := by
  simp [cmpF]
@[simp] theorem cmpHoleF_zero (s : Store P) (a b : P) (pos mp h q : Nat) :
    cmpHoleF 0 s a b pos mp h q = .ok (s.tick, decide (a < b)) := by
  simp [cmpHoleF]
/-- `cmpHoleF` is `cmpF` whenever the guard's writes succeed -/
theorem cmpHoleF_eq_cmpF (fuse : Nat) (s s' : Store P) (a b : P) (pos mp h q : Nat)
    (hf : fillHole s pos mp h q = .ok s') : cmpHoleF fuse s a b pos mp h q = cmpF fuse s a b s' := by
  simp [cmpHoleF, cmpF, hf]

/-! ## `priority_queue/mod.rs` -/
namespace MaxQ
open PQ.MaxQ

/-- twin of `MaxQ.pickLargest`: two comparison sites, nothing is written in between: crash ⇒ the store at that moment -/
def pickLargestF (fuse : Nat) (s : Store P) (i : Nat) : CR P (Store P × Nat) := do
  let l := left i
  let ip ← liftR (s.prioAt i)
  if l < s.size then do
    let childp ← liftR (s.prioAt l)
    let (s, lt) ← cmpF fuse s ip childp
    let largest := if lt then l else i
    let largestp := if lt then childp else ip
    let r := right i
    if r < s.size then do
      let rp ← liftR (s.prioAt r)
      let (s, lt) ← cmpF fuse s largestp rp
      pure (s, if lt then r else largest)
    else pure (s, largest)
  else pure (s, i)

/-- twin of `MaxQ.heapifyLoop`: swap-based, a crash leaves every swap done so far complete -/
def heapifyLoopF (fuse : Nat) : Nat → Store P → Nat → CR P (Store P)
  | 0, _, _ => .error (.fault .fuel)
  | fuel + 1, s, i => do
    let (s, largest) ← pickLargestF fuse s i
    if largest = i then pure s
    else do
      let s ← liftR (s.swap i largest)
      heapifyLoopF fuse fuel s largest

/-- twin of `MaxQ.heapify` -/
def heapifyF (fuse : Nat) (s : Store P) (i : Nat) : CR P (Store P) :=
  if s.size ≤ 1 then pure s else heapifyLoopF fuse s.size s i

/-- twin of `MaxQ.bubbleUpLoop`; the `Hole` guard is alive: a crash at the comparison made with the hole at `position`
returns the store with the hole filled there (`heap[position] := mapPosition; qp[mapPosition] := position`) -/
def bubbleUpLoopF (fuse mapPosition : Nat) : Nat → Store P → Nat → P → CR P (Store P × Nat)
  | 0, _, _, _ => .error (.fault .fuel)
  | fuel + 1, s, position, priority =>
    if position > 0 then do
      let parentPos := parent position
      let pp ← liftR (s.prioAt parentPos)
      let (s, lt) ← cmpHoleF fuse s pp priority position mapPosition 205 206
      if lt then do
        let parentIndex ← liftR (getU s.heap parentPos 201)
        let heap ← liftR (setU s.heap position parentIndex 202)
        let qp ← liftR (setU s.qp parentIndex position 203)
        bubbleUpLoopF fuse mapPosition fuel { s with heap := heap, qp := qp } parentPos priority
      else pure (s, position)
    else pure (s, position)

/-- twin of `MaxQ.bubbleUp` (the final two writes are the guard's `Drop` on the normal path) -/
def bubbleUpF (fuse : Nat) (s : Store P) (position mapPosition : Nat) : CR P (Store P × Nat) := do
  let e ← liftR (unwrapO (s.map.getIndex mapPosition) 204)
  let (s, position) ← bubbleUpLoopF fuse mapPosition (position + 1) s position e.2
  let heap ← liftR (setU s.heap position mapPosition 205)
  let qp ← liftR (setU s.qp mapPosition position 206)
  pure ({ s with heap := heap, qp := qp }, position)

/-- twin of `MaxQ.upHeapify`: crash in the sift-up ⇒ hole filled where it was; crash in the sift-down ⇒ store at that moment -/
def upHeapifyF (fuse : Nat) (s : Store P) (i : Nat) : CR P (Store P) := do
  let tmp ← liftR (getU s.heap i 207)
  let (s, pos) ← bubbleUpF fuse s i tmp
  heapifyF fuse s pos

/-- twin of `MaxQ.heapBuildLoop` -/
def heapBuildLoopF (fuse : Nat) (s : Store P) : Nat → CR P (Store P)
  | 0 => heapifyF fuse s 0
  | k + 1 => do
    let s ← heapifyF fuse s (k + 1)
    heapBuildLoopF fuse s k

/-- twin of `MaxQ.heapBuild`: a crash leaves the partially rebuilt store (sift-downs done so far complete) -/
def heapBuildF (fuse : Nat) (s : Store P) : CR P (Store P) :=
  if s.size = 0 then pure s
  else do
    let top ← liftR (parentC s.size 208)
    heapBuildLoopF fuse s top

/-! ### public operations -/

/-- twin of `MaxQ.pop`: the removal is complete (the entry is gone, and lost to the caller) when the sift-down can crash -/
def popF (fuse : Nat) (s : Store P) : CR P (Store P × Option (Item × P)) :=
  match s.size with
  | 0 => pure (s, none)
  | 1 => liftR (s.swapRemove 0)
  | _ => do
    let (s, r) ← liftR (s.swapRemove 0)
    let s ← heapifyF fuse s 0
    pure (s, r)

/-- twin of `MaxQ.popIf`: predicate (it may rewrite the entry), removal if it said so, then the fused sift-down -/
def popIfF (fuse : Nat) (s : Store P) (f : Item → P → Bool × Item × P) : CR P (Store P × Option (Item × P)) :=
  match s.size with
  | 0 => pure (s, none)
  | 1 => liftR (s.swapRemoveIf 0 f)
  | _ => do
    let (s, r) ← liftR (s.swapRemoveIf 0 f)
    let s ← heapifyF fuse s 0
    pure (s, r)

/-- twin of `MaxQ.push` in the statement order of the current crate: present item: priority replaced, then `upHeapifyF`;
new item: map insert, `qp.push`, `heap.push`, `size += 1`, *then* the fused sift-up (so a crashed store already counts the
new element and the guard has put it where the hole was) -/
def pushF (fuse : Nat) (s : Store P) (it : Item) (p : P) : CR P (Store P × Option P) :=
  let (map, idx, old) := s.map.insertFull it p
  let s := { s with map := map }
  match old with
  | some oldp => do
    let pos ← liftR (getU s.qp idx 210)
    let s ← upHeapifyF fuse s pos
    pure (s, some oldp)
  | none => do
    let i := s.size
    let s := { s with qp := s.qp.push i, heap := s.heap.push i, size := s.size + 1 }
    let (s, _) ← bubbleUpF fuse s i i
    pure (s, none)

/-- twin of `MaxQ.pushIncrease`: the first comparison is the pre-check against the stored priority; a crash there returns the
store untouched (`push` has not started) -/
def pushIncreaseF (fuse : Nat) (s : Store P) (it : Item) (p : P) : CR P (Store P × Option P) :=
  match s.getPriority it.key with
  | none => pushF fuse s it p
  | some q => do
    let (s, lt) ← cmpF fuse s q p
    if lt then pushF fuse s it p else pure (s, some p)

/-- twin of `MaxQ.pushDecrease` -/
def pushDecreaseF (fuse : Nat) (s : Store P) (it : Item) (p : P) : CR P (Store P × Option P) :=
  match s.getPriority it.key with
  | none => pushF fuse s it p
  | some q => do
    let (s, lt) ← cmpF fuse s p q
    if lt then pushF fuse s it p else pure (s, some p)

/-- twin of `MaxQ.changePriority`: the new priority is stored before the fused `upHeapifyF` -/
def changePriorityF (fuse : Nat) (s : Store P) (k : Nat) (p : P) : CR P (Store P × Option P) := do
  let (s, r) ← liftR (s.changePriority k p)
  match r with
  | some (old, pos) => do
    let s ← upHeapifyF fuse s pos
    pure (s, some old)
  | none => pure (s, none)

/-- twin of `MaxQ.changePriorityBy` -/
def changePriorityByF (fuse : Nat) (s : Store P) (k : Nat) (setter : P → P) : CR P (Store P × Bool) := do
  let (s, r) ← liftR (s.changePriorityBy k setter)
  match r with
  | some pos => do
    let s ← upHeapifyF fuse s pos
    pure (s, true)
  | none => pure (s, false)

/-- twin of `MaxQ.remove`: the store-level removal is complete before the fused `upHeapifyF` of the element that took the place -/
def removeF (fuse : Nat) (s : Store P) (k : Nat) : CR P (Store P × Option (Item × P)) := do
  let (s, r) ← liftR (s.remove k)
  match r with
  | some (it, p, pos) =>
    if pos < s.size then do
      let s ← upHeapifyF fuse s pos
      pure (s, some (it, p))
    else pure (s, some (it, p))
  | none => pure (s, none)

/-- twin of `MaxQ.retainMut`: store-level retain (complete), then the fused rebuild -/
def retainMutF (fuse : Nat) (s : Store P) (f : Item → P → Bool × Item × P) : CR P (Store P) :=
  heapBuildF fuse (s.retainMut f)

/-- twin of `MaxQ.append`: store-level append (complete: `other` is already drained), then the fused rebuild; on a crash only the
receiver's store is reported -/
def appendF (fuse : Nat) (s o : Store P) : CR P (Store P × Store P) := do
  let (s, o) := s.append o
  let s ← heapBuildF fuse s
  pure (s, o)

/-- twin of `MaxQ.ofStore` (`From<DoublePriorityQueue>`): the consumed queue's store is rebuilt in place -/
def ofStoreF (fuse : Nat) (s : Store P) : CR P (Store P) := heapBuildF fuse s

/-- twins of the constructors: a crash of the rebuild drops the new queue (`Stop.crashedNew`) -/
def fromVecF (fuse : Nat) (v : Array (Item × P)) : CR P (Store P) := asNew (heapBuildF fuse (Store.fromVec v))
/-- the capacity request comes first (no comparison yet): an announced lower bound `≥ capLimit` is the capacity panic -/
def fromIterF (fuse : Nat) (lo : Nat) (xs : Array (Item × P)) : CR P (Store P) := do
  liftR (reserveC lo)
  asNew (heapBuildF fuse (Store.fromIter xs))
/-- the (capped) pre-allocation comes first: it never fails -/
def deserializeF (fuse : Nat) (hint : Option Nat) (xs : Array (Item × P)) : CR P (Store P) := do
  liftR (match hint with | some h => reserveC (min h 4096) | none => pure ())
  asNew (heapBuildF fuse (Store.visitSeq xs))

/-- twin of `MaxQ.pushAll`: the `j`-th push crashes ⇒ the store after `j - 1` pushes with the crashed `j`-th push as per `pushF` -/
def pushAllF (fuse : Nat) : List (Item × P) → Store P → CR P (Store P)
  | [], s => pure s
  | e :: es, s => do
    let (s, _) ← pushF fuse s e.1 e.2
    pushAllF fuse es s

/-- twin of `MaxQ.extend`: rebuild strategy = store-level extend of *all* pairs, then the fused rebuild; push strategy = `pushAllF` -/
def extendF (fuse : Nat) (s : Store P) (lo : Nat) (xs : Array (Item × P)) : CR P (Store P) := do
  liftR (reserveC lo)
  let rebuild := if lo ≠ 0 then betterToRebuild s.size lo else false
  if rebuild then heapBuildF fuse (s.extend xs) else pushAllF fuse xs.toList s

/-- `iter_mut` whose guard is dropped normally: the writes of the program have been applied, then `Drop for IterMut` runs the
fused rebuild -/
def iterMutDropF (fuse : Nat) (s : Store P) (prog : List (ICall × IMWrite P)) : CR P (Store P × List IOut) := do
  let n := s.map.size
  let (outs, m) ← liftR (iterMutRun .pq n prog PIterMut.new (DIterMut.new n) s.map)
  let s ← heapBuildF fuse { s with map := m }
  pure (s, outs)

end MaxQ

/-! ## `double_priority_queue/mod.rs` -/
namespace DQ
open PQ.DQ

/-- the fold of `Iterator::min_by_key`, one fused comparison per remaining candidate, in list order -/
def minFoldF (fuse : Nat) : List (Nat × P) → Store P → Nat × P → CR P (Store P × (Nat × P))
  | [], s, acc => pure (s, acc)
  | y :: ys, s, acc => do
    let (s, lt) ← cmpF fuse s y.2 acc.2
    minFoldF fuse ys s (if lt then y else acc)

/-- the fold of `Iterator::max_by_key` -/
def maxFoldF (fuse : Nat) : List (Nat × P) → Store P → Nat × P → CR P (Store P × (Nat × P))
  | [], s, acc => pure (s, acc)
  | y :: ys, s, acc => do
    let (s, lt) ← cmpF fuse s y.2 acc.2
    maxFoldF fuse ys s (if lt then acc else y)

/-- twin of `DQ.minByKey`: `length - 1` fused comparisons; returns the store with the counter advanced by the comparisons made;
a crash in the middle of the fold leaves the store unchanged apart from the counter -/
def minByKeyF (fuse : Nat) (s : Store P) : List (Nat × P) → CR P (Store P × Option (Nat × P))
  | [] => pure (s, none)
  | x :: xs => do
    let (s, r) ← minFoldF fuse xs s x
    pure (s, some r)

/-- twin of `DQ.maxByKey` -/
def maxByKeyF (fuse : Nat) (s : Store P) : List (Nat × P) → CR P (Store P × Option (Nat × P))
  | [] => pure (s, none)
  | x :: xs => do
    let (s, r) ← maxFoldF fuse xs s x
    pure (s, some r)

/-- twin of `DQ.heapifyMinLoop`: three comparison sites per iteration (the fold, `pc < pm`, grandchild against its parent), all
between complete statements: crash ⇒ the store at that moment (a crash at the third site leaves the first swap done) -/
def heapifyMinLoopF (fuse : Nat) : Nat → Store P → Nat → CR P (Store P)
  | 0, _, _ => .error (.fault .fuel)
  | fuel + 1, s, i => do
    let last ← liftR (decC s.size 301)
    let bound ← liftR (parentC last 302)
    if i ≤ bound then do
      let m := i
      let cs ← liftR (candidates s i)
      let (s, c) ← minByKeyF fuse s cs
      let c ← liftR (unwrapO c 304)
      let c := c.1
      let pc ← liftR (s.prioAt c)
      let pm ← liftR (s.prioAt m)
      let (s, lt) ← cmpF fuse s pc pm
      if lt then do
        let s ← liftR (s.swap c m)
        if c > right m then do
          let p ← liftR (parentC c 305)
          let pc ← liftR (s.prioAt c)
          let pp ← liftR (s.prioAt p)
          let (s, lt) ← cmpF fuse s pp pc
          let s ← if lt then liftR (s.swap c p) else pure s
          heapifyMinLoopF fuse fuel s c
        else pure s
      else pure s
    else pure s

/-- twin of `DQ.heapifyMaxLoop` -/
def heapifyMaxLoopF (fuse : Nat) : Nat → Store P → Nat → CR P (Store P)
  | 0, _, _ => .error (.fault .fuel)
  | fuel + 1, s, i => do
    let last ← liftR (decC s.size 306)
    let bound ← liftR (parentC last 307)
    if i ≤ bound then do
      let m := i
      let cs ← liftR (candidates s i)
      let (s, c) ← maxByKeyF fuse s cs
      let c ← liftR (unwrapO c 308)
      let c := c.1
      let pc ← liftR (s.prioAt c)
      let pm ← liftR (s.prioAt m)
      let (s, lt) ← cmpF fuse s pm pc
      if lt then do
        let s ← liftR (s.swap c m)
        if c > right m then do
          let p ← liftR (parentC c 309)
          let pc ← liftR (s.prioAt c)
          let pp ← liftR (s.prioAt p)
          let (s, lt) ← cmpF fuse s pc pp
          let s ← if lt then liftR (s.swap c p) else pure s
          heapifyMaxLoopF fuse fuel s c
        else pure s
      else pure s
    else pure s

/-- twin of `DQ.heapify` -/
def heapifyF (fuse : Nat) (s : Store P) (i : Nat) : CR P (Store P) :=
  if s.size ≤ 1 then pure s
  else if level i % 2 = 0 then heapifyMinLoopF fuse s.size s i
  else heapifyMaxLoopF fuse s.size s i

/-- twin of `DQ.bubbleUpMinLoop`; `Hole` guard alive: crash ⇒ the hole is filled at the current `position` -/
def bubbleUpMinLoopF (fuse mapPosition : Nat) : Nat → Store P → Nat → P → CR P (Store P × Nat)
  | 0, _, _, _ => .error (.fault .fuel)
  | fuel + 1, s, position, priority =>
    if position > 0 ∧ parent position > 0 then do
      let gp := parent (parent position)
      let gpp ← liftR (s.prioAt gp)
      let (s, lt) ← cmpHoleF fuse s priority gpp position mapPosition 316 317
      if lt then do
        let gpi ← liftR (getU s.heap gp 320)
        let heap ← liftR (setU s.heap position gpi 321)
        let qp ← liftR (setU s.qp gpi position 322)
        bubbleUpMinLoopF fuse mapPosition fuel { s with heap := heap, qp := qp } gp priority
      else pure (s, position)
    else pure (s, position)

/-- twin of `DQ.bubbleUpMaxLoop` -/
def bubbleUpMaxLoopF (fuse mapPosition : Nat) : Nat → Store P → Nat → P → CR P (Store P × Nat)
  | 0, _, _, _ => .error (.fault .fuel)
  | fuel + 1, s, position, priority =>
    if position > 0 ∧ parent position > 0 then do
      let gp := parent (parent position)
      let gpp ← liftR (s.prioAt gp)
      let (s, lt) ← cmpHoleF fuse s gpp priority position mapPosition 316 317
      if lt then do
        let gpi ← liftR (getU s.heap gp 323)
        let heap ← liftR (setU s.heap position gpi 324)
        let qp ← liftR (setU s.qp gpi position 325)
        bubbleUpMaxLoopF fuse mapPosition fuel { s with heap := heap, qp := qp } gp priority
      else pure (s, position)
    else pure (s, position)

/-- twin of `DQ.bubbleUpMin` -/
def bubbleUpMinF (fuse : Nat) (s : Store P) (position mapPosition : Nat) : CR P (Store P × Nat) := do
  let e ← liftR (unwrapO (s.map.getIndex mapPosition) 318)
  bubbleUpMinLoopF fuse mapPosition (position + 1) s position e.2

/-- twin of `DQ.bubbleUpMax` -/
def bubbleUpMaxF (fuse : Nat) (s : Store P) (position mapPosition : Nat) : CR P (Store P × Nat) := do
  let e ← liftR (unwrapO (s.map.getIndex mapPosition) 319)
  bubbleUpMaxLoopF fuse mapPosition (position + 1) s position e.2

/-- twin of `DQ.bubbleUp`.  The `Hole` guard is created before the comparison with the parent and that comparison happens before
any write: a crash there fills the hole at the original `position` (on a well-formed store: the tables as they were).  In the two
"crossing" cases the parent's slot is moved into the hole first, the hole is then at the parent's position, and the grandparent
loop runs (and crashes) from there. -/
def bubbleUpF (fuse : Nat) (s : Store P) (position mapPosition : Nat) : CR P (Store P × Nat) := do
  let e ← liftR (unwrapO (s.map.getIndex mapPosition) 310)
  let priority := e.2
  let (s, position) ←
    if position > 0 then do
      let par := parent position
      let pp ← liftR (s.prioAt par)
      let parentIndex ← liftR (getU s.heap par 311)
      let (s, lt) ← cmpHoleF fuse s pp priority position mapPosition 316 317
      match decide (level position % 2 = 0), lt with
      | true, true => do
        let heap ← liftR (setU s.heap position parentIndex 312)
        let qp ← liftR (setU s.qp parentIndex position 313)
        bubbleUpMaxF fuse { s with heap := heap, qp := qp } par mapPosition
      | true, false => bubbleUpMinF fuse s position mapPosition
      | false, true => bubbleUpMaxF fuse s position mapPosition
      | false, false => do
        let heap ← liftR (setU s.heap position parentIndex 314)
        let qp ← liftR (setU s.qp parentIndex position 315)
        bubbleUpMinF fuse { s with heap := heap, qp := qp } par mapPosition
    else pure (s, position)
  let heap ← liftR (setU s.heap position mapPosition 316)
  let qp ← liftR (setU s.qp mapPosition position 317)
  pure ({ s with heap := heap, qp := qp }, position)

/-- twin of `DQ.upHeapify`: fused sift-up (hole filled on a crash), then the fused sift-downs of the vacated and the final position -/
def upHeapifyF (fuse : Nat) (s : Store P) (i : Nat) : CR P (Store P) :=
  match s.heap[i]? with
  | none => pure s
  | some tmp => do
    let (s, pos) ← bubbleUpF fuse s i tmp
    let s ← if i ≠ pos then heapifyF fuse s i else pure s
    heapifyF fuse s pos

/-- twin of `DQ.heapBuildLoop` -/
def heapBuildLoopF (fuse : Nat) (s : Store P) : Nat → CR P (Store P)
  | 0 => heapifyF fuse s 0
  | k + 1 => do
    let s ← heapifyF fuse s (k + 1)
    heapBuildLoopF fuse s k

/-- twin of `DQ.heapBuild` -/
def heapBuildF (fuse : Nat) (s : Store P) : CR P (Store P) :=
  if s.size = 0 then pure s
  else do
    let top ← liftR (parentC s.size 326)
    heapBuildLoopF fuse s top

/-- twin of `DQ.findMax`: one comparison (`max_by_key` over positions 1 and 2), `&self`: crash ⇒ the store unchanged -/
def findMaxF (fuse : Nat) (s : Store P) : CR P (Store P × Option Nat) :=
  match s.size with
  | 0 => pure (s, none)
  | 1 => pure (s, some 0)
  | 2 => pure (s, some 1)
  | _ => do
    let p1 ← liftR (s.prioAt 1)
    let p2 ← liftR (s.prioAt 2)
    let (s, lt) ← cmpF fuse s p2 p1
    pure (s, some (if lt then 1 else 2))

/-! ### public operations -/

/-- twin of `DQ.peekMax` -/
def peekMaxF (fuse : Nat) (s : Store P) : CR P (Store P × Option (Item × P)) := do
  let (s, r) ← findMaxF fuse s
  match r with
  | none => pure (s, none)
  | some i => do
    let e ← liftR (entryAt s i 328)
    pure (s, e)

/-- twin of `DQ.peekMaxMutWrite` (needed by `stepF`): `find_max` runs before the reference is handed out: crash ⇒ the caller's
write never happens, the store is unchanged -/
def peekMaxMutWriteF (fuse : Nat) (s : Store P) (w : Item → Item) : CR P (Store P × Option (Item × P)) := do
  let (s, r) ← findMaxF fuse s
  match r with
  | none => pure (s, none)
  | some pos => do
    let i ← liftR (getU s.heap pos 330)
    match s.map.getIndex i with
    | some e => pure ({ s with map := s.map.setItem i (w e.1) }, some e)
    | none => pure (s, none)

/-- twin of `DQ.popMin`: the removal is complete when the sift-down can crash -/
def popMinF (fuse : Nat) (s : Store P) : CR P (Store P × Option (Item × P)) :=
  match findMin s with
  | none => pure (s, none)
  | some i => do
    let (s, r) ← liftR (s.swapRemove i)
    let s ← heapifyF fuse s i
    pure (s, r)

/-- twin of `DQ.popMax`: crash in `find_max` ⇒ unchanged; afterwards as `popMinF` -/
def popMaxF (fuse : Nat) (s : Store P) : CR P (Store P × Option (Item × P)) := do
  let (s, r) ← findMaxF fuse s
  match r with
  | none => pure (s, none)
  | some i => do
    let (s, r) ← liftR (s.swapRemove i)
    let s ← heapifyF fuse s i
    pure (s, r)

/-- twin of `DQ.popMinIf` -/
def popMinIfF (fuse : Nat) (s : Store P) (f : Item → P → Bool × Item × P) : CR P (Store P × Option (Item × P)) :=
  match findMin s with
  | none => pure (s, none)
  | some i => do
    let (s, r) ← liftR (s.swapRemoveIf i f)
    let s ← heapifyF fuse s i
    pure (s, r)

/-- twin of `DQ.popMaxIf`: `find_max` (crash ⇒ predicate not called, unchanged), predicate and removal, then the fused `upHeapifyF` -/
def popMaxIfF (fuse : Nat) (s : Store P) (f : Item → P → Bool × Item × P) : CR P (Store P × Option (Item × P)) := do
  let (s, r) ← findMaxF fuse s
  match r with
  | none => pure (s, none)
  | some i => do
    let (s, r) ← liftR (s.swapRemoveIf i f)
    let s ← upHeapifyF fuse s i
    pure (s, r)

/-- twin of `DQ.push` in the statement order of the current crate (see `MaxQ.pushF`) -/
def pushF (fuse : Nat) (s : Store P) (it : Item) (p : P) : CR P (Store P × Option P) :=
  let (map, idx, old) := s.map.insertFull it p
  let s := { s with map := map }
  match old with
  | some oldp => do
    let pos ← liftR (getU s.qp idx 331)
    let s ← upHeapifyF fuse s pos
    pure (s, some oldp)
  | none => do
    let i := s.size
    let s := { s with qp := s.qp.push i, heap := s.heap.push i, size := s.size + 1 }
    let (s, _) ← bubbleUpF fuse s i i
    pure (s, none)

/-- twin of `DQ.pushIncrease`: crash in the pre-check ⇒ the store untouched -/
def pushIncreaseF (fuse : Nat) (s : Store P) (it : Item) (p : P) : CR P (Store P × Option P) :=
  match s.getPriority it.key with
  | none => pushF fuse s it p
  | some q => do
    let (s, lt) ← cmpF fuse s q p
    if lt then pushF fuse s it p else pure (s, some p)

/-- twin of `DQ.pushDecrease` -/
def pushDecreaseF (fuse : Nat) (s : Store P) (it : Item) (p : P) : CR P (Store P × Option P) :=
  match s.getPriority it.key with
  | none => pushF fuse s it p
  | some q => do
    let (s, lt) ← cmpF fuse s p q
    if lt then pushF fuse s it p else pure (s, some p)

/-- twin of `DQ.changePriority` -/
def changePriorityF (fuse : Nat) (s : Store P) (k : Nat) (p : P) : CR P (Store P × Option P) := do
  let (s, r) ← liftR (s.changePriority k p)
  match r with
  | some (old, pos) => do
    let s ← upHeapifyF fuse s pos
    pure (s, some old)
  | none => pure (s, none)

/-- twin of `DQ.changePriorityBy` -/
def changePriorityByF (fuse : Nat) (s : Store P) (k : Nat) (setter : P → P) : CR P (Store P × Bool) := do
  let (s, r) ← liftR (s.changePriorityBy k setter)
  match r with
  | some pos => do
    let s ← upHeapifyF fuse s pos
    pure (s, true)
  | none => pure (s, false)

/-- twin of `DQ.remove` -/
def removeF (fuse : Nat) (s : Store P) (k : Nat) : CR P (Store P × Option (Item × P)) := do
  let (s, r) ← liftR (s.remove k)
  match r with
  | some (it, p, pos) =>
    if pos < s.size then do
      let s ← upHeapifyF fuse s pos
      pure (s, some (it, p))
    else pure (s, some (it, p))
  | none => pure (s, none)

/-- twin of `DQ.retainMut` -/
def retainMutF (fuse : Nat) (s : Store P) (f : Item → P → Bool × Item × P) : CR P (Store P) :=
  heapBuildF fuse (s.retainMut f)

/-- twin of `DQ.append` (on a crash only the receiver's store is reported) -/
def appendF (fuse : Nat) (s o : Store P) : CR P (Store P × Store P) := do
  let (s, o) := s.append o
  let s ← heapBuildF fuse s
  pure (s, o)

/-- twin of `DQ.ofStore` (`From<PriorityQueue>`): the consumed queue's store is rebuilt in place -/
def ofStoreF (fuse : Nat) (s : Store P) : CR P (Store P) := heapBuildF fuse s

/-- twins of the constructors: a crash of the rebuild drops the new queue (`Stop.crashedNew`) -/
def fromVecF (fuse : Nat) (v : Array (Item × P)) : CR P (Store P) := asNew (heapBuildF fuse (Store.fromVec v))
/-- the capacity request comes first (no comparison yet): an announced lower bound `≥ capLimit` is the capacity panic -/
def fromIterF (fuse : Nat) (lo : Nat) (xs : Array (Item × P)) : CR P (Store P) := do
  liftR (reserveC lo)
  asNew (heapBuildF fuse (Store.fromIter xs))
/-- the (capped) pre-allocation comes first: it never fails -/
def deserializeF (fuse : Nat) (hint : Option Nat) (xs : Array (Item × P)) : CR P (Store P) := do
  liftR (match hint with | some h => reserveC (min h 4096) | none => pure ())
  asNew (heapBuildF fuse (Store.visitSeq xs))

/-- twin of `DQ.pushAll` -/
def pushAllF (fuse : Nat) : List (Item × P) → Store P → CR P (Store P)
  | [], s => pure s
  | e :: es, s => do
    let (s, _) ← pushF fuse s e.1 e.2
    pushAllF fuse es s

/-- twin of `DQ.extend` -/
def extendF (fuse : Nat) (s : Store P) (lo : Nat) (xs : Array (Item × P)) : CR P (Store P) := do
  liftR (reserveC lo)
  let rebuild := if lo ≠ 0 then betterToRebuild s.size lo else false
  if rebuild then heapBuildF fuse (s.extend xs) else pushAllF fuse xs.toList s

/-- `iter_mut` whose guard is dropped normally (see `MaxQ.iterMutDropF`) -/
def iterMutDropF (fuse : Nat) (s : Store P) (prog : List (ICall × IMWrite P)) : CR P (Store P × List IOut) := do
  let n := s.map.size
  let (outs, m) ← liftR (iterMutRun .dpq n prog PIterMut.new (DIterMut.new n) s.map)
  let s ← heapBuildF fuse { s with map := m }
  pure (s, outs)

end DQ

/-! ## Histories -/

/-- why a fused *operation on a queue* stopped.  Like `Stop`, but the crashed state carries its kind: `From<other kind>` leaves a
partially rebuilt queue of the *target* kind. -/
inductive StopQ (P : Type) where
  | fault (f : Fault)
  /-- the fuse fired: `q` is the queue (kind and store) that exists after unwinding -/
  | crashed (q : Q P)
  /-- the fuse fired while a fresh queue was being built: it is dropped; the queue the history had before is untouched -/
  | crashedNew

abbrev CRQ (P : Type) (α : Type) := Except (StopQ P) α

/-- tag the crashed store of a `CR` computation with the kind of queue it belongs to -/
def liftQ {P α : Type} (kind : Kind) : CR P α → CRQ P α
  | .ok a => .ok a
  | .error (.fault f) => .error (.fault f)
  | .error (.crashed s) => .error (.crashed { kind := kind, s := s })
  | .error .crashedNew => .error .crashedNew

/-- the queue a caller holds after an operation on `q` stopped (none after a fault) -/
def StopQ.survivor {P : Type} (q : Q P) : StopQ P → Option (Q P)
  | .fault _ => none
  | .crashed q' => some q'
  | .crashedNew => some q

/-- twin of `heapBuildK` -/
def heapBuildKF (fuse : Nat) (kind : Kind) (s : Store P) : CR P (Store P) :=
  match kind with
  | .pq => MaxQ.heapBuildF fuse s
  | .dpq => DQ.heapBuildF fuse s

/-- twin of `Ops.step`.  Operations that compare no priorities are lifted (`liftR`).  `.convert` reports the partially rebuilt
queue with the *target* kind; `.fromVec/.fromIter/.deserialize` report `StopQ.crashedNew`. -/
def stepF (fuse : Nat) (q : Q P) : Op P → CRQ P (Q P × Out P)
  | .push it p => do
    let (s, r) ← liftQ q.kind (match q.kind with | .pq => MaxQ.pushF fuse q.s it p | .dpq => DQ.pushF fuse q.s it p)
    pure ({ q with s := s }, .prio r)
  | .pushIncrease it p => do
    let (s, r) ← liftQ q.kind
      (match q.kind with | .pq => MaxQ.pushIncreaseF fuse q.s it p | .dpq => DQ.pushIncreaseF fuse q.s it p)
    pure ({ q with s := s }, .prio r)
  | .pushDecrease it p => do
    let (s, r) ← liftQ q.kind
      (match q.kind with | .pq => MaxQ.pushDecreaseF fuse q.s it p | .dpq => DQ.pushDecreaseF fuse q.s it p)
    pure ({ q with s := s }, .prio r)
  | .changePriority k p => do
    let (s, r) ← liftQ q.kind
      (match q.kind with | .pq => MaxQ.changePriorityF fuse q.s k p | .dpq => DQ.changePriorityF fuse q.s k p)
    pure ({ q with s := s }, .prio r)
  | .changePriorityBy k g => do
    let (s, r) ← liftQ q.kind
      (match q.kind with | .pq => MaxQ.changePriorityByF fuse q.s k g | .dpq => DQ.changePriorityByF fuse q.s k g)
    pure ({ q with s := s }, .bool r)
  | .remove k => do
    let (s, r) ← liftQ q.kind (match q.kind with | .pq => MaxQ.removeF fuse q.s k | .dpq => DQ.removeF fuse q.s k)
    pure ({ q with s := s }, .entry r)
  | .getMut k w =>
    let (s, r) := q.s.getMutWrite k w
    pure ({ q with s := s }, .entry r)
  | .popFront => do
    let (s, r) ← liftQ q.kind (match q.kind with | .pq => MaxQ.popF fuse q.s | .dpq => DQ.popMinF fuse q.s)
    pure ({ q with s := s }, .entry r)
  | .popBack =>
    match q.kind with
    | .pq => pure (q, .unit)
    | .dpq => do
      let (s, r) ← liftQ q.kind (DQ.popMaxF fuse q.s)
      pure ({ q with s := s }, .entry r)
  | .popFrontIf f => do
    let (s, r) ← liftQ q.kind (match q.kind with | .pq => MaxQ.popIfF fuse q.s f | .dpq => DQ.popMinIfF fuse q.s f)
    pure ({ q with s := s }, .entry r)
  | .popBackIf f =>
    match q.kind with
    | .pq => pure (q, .unit)
    | .dpq => do
      let (s, r) ← liftQ q.kind (DQ.popMaxIfF fuse q.s f)
      pure ({ q with s := s }, .entry r)
  | .peekFrontMut w => do
    let (s, r) ← liftQ q.kind
      (liftR (match q.kind with | .pq => PQ.MaxQ.peekMutWrite q.s w | .dpq => PQ.DQ.peekMinMutWrite q.s w))
    pure ({ q with s := s }, .entry r)
  | .peekBackMut w =>
    match q.kind with
    | .pq => pure (q, .unit)
    | .dpq => do
      let (s, r) ← liftQ q.kind (DQ.peekMaxMutWriteF fuse q.s w)
      pure ({ q with s := s }, .entry r)
  | .retainMut f => do
    let s ← liftQ q.kind (match q.kind with | .pq => MaxQ.retainMutF fuse q.s f | .dpq => DQ.retainMutF fuse q.s f)
    pure ({ q with s := s }, .unit)
  | .iterMut leak prog => do
    let n := q.s.map.size
    let (outs, m) ← liftQ q.kind (liftR (iterMutRun q.kind n prog PIterMut.new (DIterMut.new n) q.s.map))
    let s1 := { q.s with map := m }
    let s ← if leak then pure s1 else liftQ q.kind (heapBuildKF fuse q.kind s1)
    pure ({ q with s := s }, .outs outs)
  | .extend lo xs => do
    let s ← liftQ q.kind (match q.kind with | .pq => MaxQ.extendF fuse q.s lo xs | .dpq => DQ.extendF fuse q.s lo xs)
    pure ({ q with s := s }, .unit)
  | .append o => do
    let (s, o') ← liftQ q.kind
      (match q.kind with
       | .pq => MaxQ.appendF fuse q.s o
       | .dpq => DQ.appendF fuse q.s o)
    pure ({ q with s := s }, .other o'.size o'.map.size o'.heap.size o'.qp.size)
  | .fromVec xs => do
    let s ← liftQ q.kind (match q.kind with | .pq => MaxQ.fromVecF fuse xs | .dpq => DQ.fromVecF fuse xs)
    pure ({ q with s := s }, .unit)
  | .fromIter lo xs => do
    let s ← liftQ q.kind (match q.kind with | .pq => MaxQ.fromIterF fuse lo xs | .dpq => DQ.fromIterF fuse lo xs)
    pure ({ q with s := s }, .unit)
  | .deserialize hint xs => do
    let s ← liftQ q.kind
      (match q.kind with | .pq => MaxQ.deserializeF fuse hint xs | .dpq => DQ.deserializeF fuse hint xs)
    pure ({ q with s := s }, .unit)
  | .convert =>
    match q.kind with
    | .pq => do
      let s ← liftQ .dpq (DQ.ofStoreF fuse q.s)
      pure ({ kind := .dpq, s := s }, .unit)
    | .dpq => do
      let s ← liftQ .pq (MaxQ.ofStoreF fuse q.s)
      pure ({ kind := .pq, s := s }, .unit)
  | .clear => pure ({ q with s := q.s.clear }, .unit)
  | .drain =>
    let (es, s) := q.s.drain
    pure ({ q with s := s }, .entries es.toList)
  | .capacityOp => pure (q, .unit)

/-! ## Executable checkers (used by the sanity examples below and by the driver) -/

/-- every key of the map occurs once -/
def noDupKeysB (m : IMap P) : Bool :=
  (List.range m.size).all fun i => (List.range i).all fun j =>
    match m[i]?, m[j]? with
    | some a, some b => a.1.key != b.1.key
    | _, _ => false

/-- the Bool form of `Store.WF`: all lengths equal `size`, `heap` and `qp` are mutually inverse permutations of `0..size`, keys
are unique -/
def wfB (s : Store P) : Bool :=
  s.map.size == s.size && s.heap.size == s.size && s.qp.size == s.size &&
  ((List.range s.size).all fun p =>
    match s.heap[p]? with
    | some i => s.qp[i]? == some p
    | none => false) &&
  ((List.range s.size).all fun i =>
    match s.qp[i]? with
    | some p => s.heap[p]? == some i
    | none => false) &&
  noDupKeysB s.map

/-- equality of stores, ghost counter included -/
def Store.eqB [DecidableEq P] (a b : Store P) : Bool :=
  a.map == b.map && a.heap == b.heap && a.qp == b.qp && a.size == b.size && a.ticks == b.ticks

/-- a fused result agrees with a plain one: both `.ok` with `eqv`-equal values, or the same fault -/
def agreeB {α : Type} (eqv : α → α → Bool) : CR P α → R α → Bool
  | .ok a, .ok b => eqv a b
  | .error (.fault f), .error g => f == g
  | _, _ => false

/-- the store a crashed computation leaves, if it crashed (with a surviving store) -/
def crashedStore? {α : Type} : CR P α → Option (Store P)
  | .error (.crashed s) => some s
  | _ => none

end PQ.Crash

/-! ## Sanity checks (scratch) -/
namespace PQ.Crash.Sanity
open PQ PQ.Crash

private def eS : Store Nat → Store Nat → Bool := Store.eqB
private def eSO {α : Type} [DecidableEq α] : Store Nat × α → Store Nat × α → Bool :=
  fun a b => Store.eqB a.1 b.1 && decide (a.2 = b.2)
private def eSS : Store Nat × Store Nat → Store Nat × Store Nat → Bool :=
  fun a b => Store.eqB a.1 b.1 && Store.eqB a.2 b.2
private def eQO (a b : Q Nat × Out Nat) : Bool :=
  decide (a.1.kind = b.1.kind) && Store.eqB a.1.s b.1.s &&
  (match a.2, b.2 with
   | .unit, .unit => true
   | .prio x, .prio y => decide (x = y)
   | .entry x, .entry y => decide (x = y)
   | .bool x, .bool y => x == y
   | .entries x, .entries y => decide (x = y)
   | .outs x, .outs y => decide (x = y)
   | .other a b c d, .other a' b' c' d' => decide (a = a' ∧ b = b' ∧ c = c' ∧ d = d')
   | _, _ => false)

private def it (k : Nat) : Item := ⟨k, 100 + k⟩
/-- seven distinct keys, priorities in no particular order -/
private def v7 : Array (Item × Nat) := #[(it 1, 30), (it 2, 10), (it 3, 70), (it 4, 20), (it 5, 60), (it 6, 50), (it 7, 40)]
private def v3 : Array (Item × Nat) := #[(it 8, 65), (it 2, 99), (it 9, 5)]
private def get (r : R (Store Nat)) : Store Nat := match r with | .ok s => s | .error _ => Store.empty
/-- a 7-element max-heap / min-max heap, counter left where the construction put it (non-zero) -/
private def m7 : Store Nat := get (PQ.MaxQ.fromVec v7)
private def d7 : Store Nat := get (PQ.DQ.fromVec v7)
/-- nine elements: large enough for `betterToRebuild` to choose the rebuild strategy of `extend` -/
private def m9 : Store Nat := get (PQ.MaxQ.fromVec (v7 ++ v3))
private def d9 : Store Nat := get (PQ.DQ.fromVec (v7 ++ v3))
private def w3 : Array (Item × Nat) := #[(it 10, 77), (it 3, 2), (it 11, 1)]
private def keepOdd (i : Item) (p : Nat) : Bool × Item × Nat := (i.key % 2 == 1, { i with payload := 7 }, p + 1)
private def popYes (i : Item) (p : Nat) : Bool × Item × Nat := (true, i, p + 5)
private def popNo (i : Item) (p : Nat) : Bool × Item × Nat := (false, i, p - 25)
private def prog : List (ICall × IMWrite Nat) :=
  [(.next, ⟨some 5, none⟩), (.next, ⟨some 90, some 1⟩), (.next, ⟨none, none⟩), (.next, ⟨some 45, none⟩)]

example : wfB m7 = true ∧ m7.size = 7 ∧ m7.ticks ≠ 0 := by decide +kernel
example : wfB d7 = true ∧ d7.size = 7 ∧ d7.ticks ≠ 0 := by decide +kernel

/-! ### (1) with the fuse off each twin returns exactly the plain result -/
section fuseOff
-- max-heap
example : agreeB eSO (MaxQ.pickLargestF 0 m7 0) (PQ.MaxQ.pickLargest m7 0) = true := by decide +kernel
example : agreeB eS (MaxQ.heapifyF 0 m7 0) (PQ.MaxQ.heapify m7 0) = true := by decide +kernel
example : agreeB eSO (MaxQ.bubbleUpF 0 m7 6 (m7.heap[6]!)) (PQ.MaxQ.bubbleUp m7 6 (m7.heap[6]!)) = true := by decide +kernel
example : agreeB eS (MaxQ.upHeapifyF 0 m7 5) (PQ.MaxQ.upHeapify m7 5) = true := by decide +kernel
example : agreeB eS (MaxQ.heapBuildF 0 (Store.fromVec v7)) (PQ.MaxQ.heapBuild (Store.fromVec v7)) = true := by decide +kernel
example : agreeB eSO (MaxQ.popF 0 m7) (PQ.MaxQ.pop m7) = true := by decide +kernel
example : agreeB eSO (MaxQ.popIfF 0 m7 popYes) (PQ.MaxQ.popIf m7 popYes) = true := by decide +kernel
example : agreeB eSO (MaxQ.popIfF 0 m7 popNo) (PQ.MaxQ.popIf m7 popNo) = true := by decide +kernel
example : agreeB eSO (MaxQ.pushF 0 m7 (it 8) 99) (PQ.MaxQ.push m7 (it 8) 99) = true := by decide +kernel
example : agreeB eSO (MaxQ.pushF 0 m7 (it 2) 99) (PQ.MaxQ.push m7 (it 2) 99) = true := by decide +kernel
example : agreeB eSO (MaxQ.pushF 0 m7 (it 3) 1) (PQ.MaxQ.push m7 (it 3) 1) = true := by decide +kernel
example : agreeB eSO (MaxQ.pushIncreaseF 0 m7 (it 2) 99) (PQ.MaxQ.pushIncrease m7 (it 2) 99) = true := by decide +kernel
example : agreeB eSO (MaxQ.pushIncreaseF 0 m7 (it 2) 1) (PQ.MaxQ.pushIncrease m7 (it 2) 1) = true := by decide +kernel
example : agreeB eSO (MaxQ.pushDecreaseF 0 m7 (it 3) 1) (PQ.MaxQ.pushDecrease m7 (it 3) 1) = true := by decide +kernel
example : agreeB eSO (MaxQ.pushDecreaseF 0 m7 (it 9) 1) (PQ.MaxQ.pushDecrease m7 (it 9) 1) = true := by decide +kernel
example : agreeB eSO (MaxQ.changePriorityF 0 m7 3 1) (PQ.MaxQ.changePriority m7 3 1) = true := by decide +kernel
example : agreeB eSO (MaxQ.changePriorityByF 0 m7 2 (· + 80)) (PQ.MaxQ.changePriorityBy m7 2 (· + 80)) = true := by
  decide +kernel
example : agreeB eSO (MaxQ.removeF 0 m7 3) (PQ.MaxQ.remove m7 3) = true := by decide +kernel
example : agreeB eSO (MaxQ.removeF 0 m7 5) (PQ.MaxQ.remove m7 5) = true := by decide +kernel
example : agreeB eS (MaxQ.retainMutF 0 m7 keepOdd) (PQ.MaxQ.retainMut m7 keepOdd) = true := by decide +kernel
example : agreeB eSS (MaxQ.appendF 0 m7 (Store.fromVec v3)) (PQ.MaxQ.append m7 (Store.fromVec v3)) = true := by decide +kernel
example : agreeB eSS (MaxQ.appendF 0 (Store.fromVec v3) m7) (PQ.MaxQ.append (Store.fromVec v3) m7) = true := by decide +kernel
example : agreeB eS (MaxQ.extendF 0 m7 0 v3) (PQ.MaxQ.extend m7 0 v3) = true := by decide +kernel
example : agreeB eS (MaxQ.extendF 0 m9 100 w3) (PQ.MaxQ.extend m9 100 w3) = true ∧ PQ.Arith.betterToRebuild 9 100 = true := by
  decide +kernel
example : agreeB eS (MaxQ.ofStoreF 0 d7) (PQ.MaxQ.ofStore d7) = true := by decide +kernel
example : agreeB eS (MaxQ.fromVecF 0 v7) (PQ.MaxQ.fromVec v7) = true := by decide +kernel
example : agreeB eS (MaxQ.fromIterF 0 10 (v7 ++ v3)) (PQ.MaxQ.fromIter 10 (v7 ++ v3)) = true := by decide +kernel
example : agreeB eS (MaxQ.deserializeF 0 (some (2 ^ 64 - 1)) (v7 ++ v3)) (PQ.MaxQ.deserialize (some (2 ^ 64 - 1)) (v7 ++ v3)) = true := by decide +kernel
-- min-max heap
example : agreeB eS (DQ.heapifyF 0 d7 0) (PQ.DQ.heapify d7 0) = true := by decide +kernel
example : agreeB eS (DQ.heapifyF 0 d7 1) (PQ.DQ.heapify d7 1) = true := by decide +kernel
example : agreeB eSO (DQ.bubbleUpF 0 d7 6 (d7.heap[6]!)) (PQ.DQ.bubbleUp d7 6 (d7.heap[6]!)) = true := by decide +kernel
example : agreeB eS (DQ.upHeapifyF 0 d7 4) (PQ.DQ.upHeapify d7 4) = true := by decide +kernel
example : agreeB eS (DQ.heapBuildF 0 (Store.fromVec v7)) (PQ.DQ.heapBuild (Store.fromVec v7)) = true := by decide +kernel
example : agreeB eSO (DQ.findMaxF 0 d7) (PQ.DQ.findMax d7) = true := by decide +kernel
example : agreeB eSO (DQ.peekMaxF 0 d7) (PQ.DQ.peekMax d7) = true := by decide +kernel
example : agreeB eSO (DQ.peekMaxMutWriteF 0 d7 (fun i => { i with payload := 3 }))
    (PQ.DQ.peekMaxMutWrite d7 (fun i => { i with payload := 3 })) = true := by decide +kernel
example : agreeB eSO (DQ.popMinF 0 d7) (PQ.DQ.popMin d7) = true := by decide +kernel
example : agreeB eSO (DQ.popMaxF 0 d7) (PQ.DQ.popMax d7) = true := by decide +kernel
example : agreeB eSO (DQ.popMinIfF 0 d7 popYes) (PQ.DQ.popMinIf d7 popYes) = true := by decide +kernel
example : agreeB eSO (DQ.popMinIfF 0 d7 (fun i p => (false, i, p + 100))) (PQ.DQ.popMinIf d7 (fun i p => (false, i, p + 100))) = true := by
  decide +kernel
example : agreeB eSO (DQ.popMaxIfF 0 d7 popYes) (PQ.DQ.popMaxIf d7 popYes) = true := by decide +kernel
example : agreeB eSO (DQ.popMaxIfF 0 d7 popNo) (PQ.DQ.popMaxIf d7 popNo) = true := by decide +kernel
example : agreeB eSO (DQ.pushF 0 d7 (it 8) 99) (PQ.DQ.push d7 (it 8) 99) = true := by decide +kernel
example : agreeB eSO (DQ.pushF 0 d7 (it 8) 1) (PQ.DQ.push d7 (it 8) 1) = true := by decide +kernel
example : agreeB eSO (DQ.pushF 0 d7 (it 2) 99) (PQ.DQ.push d7 (it 2) 99) = true := by decide +kernel
example : agreeB eSO (DQ.pushIncreaseF 0 d7 (it 2) 99) (PQ.DQ.pushIncrease d7 (it 2) 99) = true := by decide +kernel
example : agreeB eSO (DQ.pushDecreaseF 0 d7 (it 3) 1) (PQ.DQ.pushDecrease d7 (it 3) 1) = true := by decide +kernel
example : agreeB eSO (DQ.changePriorityF 0 d7 3 1) (PQ.DQ.changePriority d7 3 1) = true := by decide +kernel
example : agreeB eSO (DQ.changePriorityByF 0 d7 2 (· + 80)) (PQ.DQ.changePriorityBy d7 2 (· + 80)) = true := by decide +kernel
example : agreeB eSO (DQ.removeF 0 d7 2) (PQ.DQ.remove d7 2) = true := by decide +kernel
example : agreeB eS (DQ.retainMutF 0 d7 keepOdd) (PQ.DQ.retainMut d7 keepOdd) = true := by decide +kernel
example : agreeB eSS (DQ.appendF 0 d7 (Store.fromVec v3)) (PQ.DQ.append d7 (Store.fromVec v3)) = true := by decide +kernel
example : agreeB eS (DQ.extendF 0 d7 0 v3) (PQ.DQ.extend d7 0 v3) = true := by decide +kernel
example : agreeB eS (DQ.extendF 0 d9 100 w3) (PQ.DQ.extend d9 100 w3) = true := by decide +kernel
example : agreeB eS (DQ.ofStoreF 0 m7) (PQ.DQ.ofStore m7) = true := by decide +kernel
example : agreeB eS (DQ.fromVecF 0 v7) (PQ.DQ.fromVec v7) = true := by decide +kernel
example : agreeB eS (DQ.fromIterF 0 10 (v7 ++ v3)) (PQ.DQ.fromIter 10 (v7 ++ v3)) = true := by decide +kernel
example : agreeB eS (DQ.deserializeF 0 none (v7 ++ v3)) (PQ.DQ.deserialize none (v7 ++ v3)) = true := by decide +kernel
-- histories
private def qm7 : Q Nat := ⟨.pq, m7⟩
private def qd7 : Q Nat := ⟨.dpq, d7⟩
private def agreeQ (a : CRQ Nat (Q Nat × Out Nat)) (b : R (Q Nat × Out Nat)) : Bool :=
  match a, b with
  | .ok x, .ok y => eQO x y
  | .error (.fault f), .error g => f == g
  | _, _ => false
private def ops : List (Op Nat) :=
  [.push (it 8) 99, .push (it 2) 1, .pushIncrease (it 2) 99, .pushDecrease (it 3) 1, .changePriority 3 1,
   .changePriorityBy 2 (· + 80), .remove 3, .getMut 4 (fun i => { i with payload := 0 }), .popFront, .popBack,
   .popFrontIf popYes, .popBackIf popNo, .peekFrontMut (fun i => { i with payload := 1 }),
   .peekBackMut (fun i => { i with payload := 2 }), .retainMut keepOdd, .iterMut false prog, .iterMut true prog,
   .extend 0 v3, .extend 100 w3, .append (Store.fromVec v3), .append m9, .fromVec v3, .fromIter 0 (v3 ++ w3),
   .fromIter 6 (v3 ++ w3), .fromIter (2 ^ 61) (v3 ++ w3), .extend (2 ^ 61) v3, .deserialize none (v3 ++ w3),
   .deserialize (some (2 ^ 64 - 1)) (v3 ++ w3), .convert, .clear,
   .drain, .capacityOp]
example : (ops.all fun op => agreeQ (stepF 0 qm7 op) (step qm7 op)) = true := by decide +kernel
example : (ops.all fun op => agreeQ (stepF 0 qd7 op) (step qd7 op)) = true := by decide +kernel
example : agreeB eSO (MaxQ.iterMutDropF 0 m7 prog)
    ((step qm7 (.iterMut false prog)).map fun r => (r.1.s, match r.2 with | .outs l => l | _ => [])) = true := by decide +kernel
example : agreeB eSO (DQ.iterMutDropF 0 d7 prog)
    ((step qd7 (.iterMut false prog)).map fun r => (r.1.s, match r.2 with | .outs l => l | _ => [])) = true := by decide +kernel
end fuseOff

/-! ### (2) crash states -/
section crash

/-- `push` of a new maximum into the 7-element max-heap makes exactly 3 comparisons (hole at 7, 3, 1).  Crashing at the `k`-th
returns a store of size 8, all tables of length 8, `heap`/`qp` inverse permutations, the new element sitting where the hole was,
and the counter showing the `k - 1` completed comparisons. -/
private def pushCrash (k : Nat) : Option (Store Nat) := crashedStore? (MaxQ.pushF (m7.ticks + k) m7 (it 8) 99)
private def okAt (k hole : Nat) : Bool :=
  match pushCrash k with
  | some s' => s'.size == 8 && s'.map.size == 8 && s'.heap.size == 8 && s'.qp.size == 8 && wfB s' &&
      s'.qp[7]? == some hole && s'.heap[hole]? == some 7 && s'.ticks == m7.ticks + (k - 1)
  | none => false
example : okAt 1 7 = true := by decide +kernel
example : okAt 2 3 = true := by decide +kernel
example : okAt 3 1 = true := by decide +kernel
example : (pushCrash 4).isNone = true ∧ (pushCrash 0).isNone = true := by decide +kernel
example : agreeB eSO (MaxQ.pushF (m7.ticks + 4) m7 (it 8) 99) (PQ.MaxQ.push m7 (it 8) 99) = true := by decide +kernel

/-- sweep the fuse over the next `n` comparisons: every outcome is `.ok`, `.crashedNew`, or `.crashed s'` with `chk s'`; returns
the verdict and the number of `.crashed` outcomes (to see that crashes did happen) -/
private def sweep {α : Type} (n base : Nat) (run : Nat → CR Nat α) (chk : Store Nat → Bool) : Bool × Nat :=
  (List.range n).foldl (init := (true, 0)) fun acc k =>
    match run (base + k + 1) with
    | .ok _ => acc
    | .error (.crashed s') => (acc.1 && chk s', acc.2 + 1)
    | .error .crashedNew => acc
    | .error (.fault _) => (false, acc.2)

-- every crash point of every operation on the sample stores leaves well-formed tables of the expected size
example : sweep 20 m7.ticks (fun z => MaxQ.popF z m7) (fun s => wfB s && s.size == 6) = (true, 4) := by decide +kernel
example : sweep 20 m7.ticks (fun z => MaxQ.popIfF z m7 popNo) (fun s => wfB s && s.size == 7) = (true, 4) := by decide +kernel
example : sweep 20 m7.ticks (fun z => MaxQ.pushF z m7 (it 8) 99) (fun s => wfB s && s.size == 8) = (true, 3) := by decide +kernel
example : sweep 20 m7.ticks (fun z => MaxQ.pushF z m7 (it 3) 1) (fun s => wfB s && s.size == 7) = (true, 4) := by decide +kernel
example : sweep 20 m7.ticks (fun z => MaxQ.pushIncreaseF z m7 (it 2) 99) (fun s => wfB s && s.size == 7) = (true, 5) := by
  decide +kernel
-- the pre-check of `push_increase` is comparison 1: the store is returned untouched
example : (crashedStore? (MaxQ.pushIncreaseF (m7.ticks + 1) m7 (it 2) 99)).map (Store.eqB m7) = some true := by decide +kernel
example : (crashedStore? (MaxQ.pushDecreaseF (m7.ticks + 1) m7 (it 3) 1)).map (Store.eqB m7) = some true := by decide +kernel
example : sweep 20 m7.ticks (fun z => MaxQ.changePriorityF z m7 2 99) (fun s => wfB s && s.size == 7) = (true, 4) := by
  decide +kernel
example : sweep 20 m7.ticks (fun z => MaxQ.removeF z m7 3) (fun s => wfB s && s.size == 6) = (true, 4) := by decide +kernel
example : (sweep 30 m7.ticks (fun z => MaxQ.retainMutF z m7 keepOdd) (fun s => wfB s && s.size == 4)).1 = true := by decide +kernel
example : (sweep 40 m7.ticks (fun z => MaxQ.appendF z m7 (Store.fromVec v3)) (fun s => wfB s && s.size == 9)).1 = true := by
  decide +kernel
example : (sweep 40 m7.ticks (fun z => MaxQ.extendF z m7 0 v3) wfB).1 = true := by decide +kernel
example : (sweep 40 m9.ticks (fun z => MaxQ.extendF z m9 100 w3) (fun s => wfB s && s.size == 11)).1 = true := by decide +kernel
example : (sweep 40 d7.ticks (fun z => MaxQ.ofStoreF z d7) (fun s => wfB s && s.size == 7)).1 = true := by decide +kernel
example : (sweep 40 m7.ticks (fun z => MaxQ.iterMutDropF z m7 prog) (fun s => wfB s && s.size == 7)).1 = true := by decide +kernel
-- a constructor that crashes drops the queue it was building
example : (match MaxQ.fromVecF 1 v7 with | .error .crashedNew => true | _ => false) = true := by decide +kernel
example : (match DQ.fromIterF 3 7 v7 with | .error .crashedNew => true | _ => false) = true := by decide +kernel
example : sweep 40 0 (fun z => MaxQ.deserializeF z (some 7) v7) (fun _ => false) = (true, 0) := by decide +kernel

example : sweep 30 d7.ticks (fun z => DQ.heapifyF z d7 0) (fun s => wfB s && s.size == 7) = (true, 6) := by decide +kernel
example : (sweep 30 d7.ticks (fun z => DQ.popMinF z d7) (fun s => wfB s && s.size == 6)).1 = true := by decide +kernel
example : (sweep 30 d7.ticks (fun z => DQ.popMaxF z d7) (fun s => wfB s && (s.size == 6 || Store.eqB s d7))).1 = true := by
  decide +kernel
-- `find_max` is comparison 1 of `pop_max`, `peek_max`, `pop_max_if`: the store is unchanged
example : (crashedStore? (DQ.popMaxF (d7.ticks + 1) d7)).map (Store.eqB d7) = some true := by decide +kernel
example : (crashedStore? (DQ.peekMaxF (d7.ticks + 1) d7)).map (Store.eqB d7) = some true := by decide +kernel
example : (crashedStore? (DQ.popMaxIfF (d7.ticks + 1) d7 popYes)).map (Store.eqB d7) = some true := by decide +kernel
example : (sweep 30 d7.ticks (fun z => DQ.popMinIfF z d7 (fun i p => (false, i, p + 100))) (fun s => wfB s && s.size == 7)).1 = true := by
  decide +kernel
example : (sweep 30 d7.ticks (fun z => DQ.popMaxIfF z d7 popNo) (fun s => wfB s && s.size == 7)).1 = true := by decide +kernel
example : (sweep 30 d7.ticks (fun z => DQ.pushF z d7 (it 8) 99) (fun s => wfB s && s.size == 8)).1 = true := by decide +kernel
example : (sweep 30 d7.ticks (fun z => DQ.pushF z d7 (it 8) 1) (fun s => wfB s && s.size == 8)).1 = true := by decide +kernel
example : (sweep 30 d7.ticks (fun z => DQ.pushF z d7 (it 2) 99) (fun s => wfB s && s.size == 7)).1 = true := by decide +kernel
example : (sweep 30 d7.ticks (fun z => DQ.pushF z d7 (it 3) 1) (fun s => wfB s && s.size == 7)).1 = true := by decide +kernel
-- crash at the parent comparison of `bubble_up` (comparison 1 of a push of a new element): the hole is filled where it
-- started, i.e. the new element is the last leaf
example : (crashedStore? (DQ.pushF (d7.ticks + 1) d7 (it 8) 99)).map
    (fun s => wfB s && s.size == 8 && s.heap[7]? == some 7 && s.qp[7]? == some 7 && s.heap.extract 0 7 == d7.heap) = some true := by
  decide +kernel
example : (sweep 30 d7.ticks (fun z => DQ.changePriorityF z d7 3 1) (fun s => wfB s && s.size == 7)).1 = true := by decide +kernel
example : (sweep 30 d7.ticks (fun z => DQ.changePriorityByF z d7 2 (· + 80)) (fun s => wfB s && s.size == 7)).1 = true := by
  decide +kernel
example : (sweep 30 d7.ticks (fun z => DQ.removeF z d7 2) (fun s => wfB s && s.size == 6)).1 = true := by decide +kernel
example : (sweep 40 d7.ticks (fun z => DQ.retainMutF z d7 keepOdd) (fun s => wfB s && s.size == 4)).1 = true := by decide +kernel
example : (sweep 60 d7.ticks (fun z => DQ.appendF z d7 (Store.fromVec v3)) (fun s => wfB s && s.size == 9)).1 = true := by
  decide +kernel
example : (sweep 60 d7.ticks (fun z => DQ.extendF z d7 0 v3) wfB).1 = true := by decide +kernel
example : (sweep 60 d9.ticks (fun z => DQ.extendF z d9 100 w3) (fun s => wfB s && s.size == 11)).1 = true := by decide +kernel
example : (sweep 60 m7.ticks (fun z => DQ.ofStoreF z m7) (fun s => wfB s && s.size == 7)).1 = true := by decide +kernel
example : (sweep 60 d7.ticks (fun z => DQ.iterMutDropF z d7 prog) (fun s => wfB s && s.size == 7)).1 = true := by decide +kernel

-- a crash in the middle of a `min_by_key` fold: only the counter moves (here the 2nd of the fold's comparisons)
example : (crashedStore? (DQ.heapifyF (d7.ticks + 2) d7 0)).map
    (fun s => s.ticks == d7.ticks + 1 && Store.eqB { s with ticks := d7.ticks } d7) = some true := by decide +kernel

-- `From<other kind>` crashes into a queue of the *target* kind; constructors crash into `crashedNew`, the old queue survives
example : (match stepF (m7.ticks + 2) qm7 .convert with
    | .error (.crashed q') => decide (q'.kind = Kind.dpq) && wfB q'.s && q'.s.size == 7
    | _ => false) = true := by decide +kernel
example : (match stepF (d7.ticks + 2) qd7 .convert with
    | .error (.crashed q') => decide (q'.kind = Kind.pq) && wfB q'.s && q'.s.size == 7
    | _ => false) = true := by decide +kernel
example : (match stepF 2 qm7 (.fromVec v3) with
    | .error e => (match e.survivor qm7 with | some q' => decide (q'.kind = Kind.pq) && Store.eqB q'.s m7 | none => false)
    | _ => false) = true := by decide +kernel
example : (match stepF (m7.ticks + 2) qm7 (.push (it 8) 99) with
    | .error (.crashed q') => decide (q'.kind = Kind.pq) && wfB q'.s && q'.s.size == 8
    | _ => false) = true := by decide +kernel
end crash

end PQ.Crash.Sanity
