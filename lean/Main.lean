import PQ.Driver
open PQ PQ.Driver

/-- split `a => b` -/
def splitArrow (line : String) : String × String :=
  match line.splitOn " => " with
  | [a] => (a, "")
  | a :: rest => (a, " => ".intercalate rest)
  | [] => ("", "")

structure RunAcc where
  st : St := default
  caseId : String := "-"
  caseLine : Nat := 0          -- index of the op within the case
  skip : Bool := false         -- rest of a diverged case is skipped
  lines : Nat := 0
  ops : Nat := 0
  cases : Nat := 0
  diffs : Nat := 0
  faultsAgreed : Nat := 0
  errors : Nat := 0

partial def loop (h : IO.FS.Stream) (acc : RunAcc) (maxDiffs : Nat) : IO RunAcc := do
  let line ← h.getLine
  if line.isEmpty then return acc
  let line := line.trimAscii.toString
  if line.isEmpty || line.startsWith "#" then return (← loop h acc maxDiffs)
  let acc := { acc with lines := acc.lines + 1 }
  let (lhs, expected) := splitArrow line
  let toks := (lhs.splitOn " ").filter (· ≠ "")
  match toks with
  | "case" :: id :: kind :: _ =>
    let k := if kind == "dpq" then PQ.Kind.dpq else PQ.Kind.pq
    loop h { acc with st := { kind := k, s := Store.empty }, caseId := id, caseLine := 0, skip := false,
                      cases := acc.cases + 1 } maxDiffs
  | _ =>
    if acc.skip then loop h acc maxDiffs
    else
      let acc := { acc with ops := acc.ops + 1, caseLine := acc.caseLine + 1 }
      match runLine acc.st toks with
      | .error e =>
        IO.println s!"ERROR case={acc.caseId} op#{acc.caseLine} line={acc.lines}: {e} :: {lhs}"
        loop h { acc with errors := acc.errors + 1, skip := true } maxDiffs
      | .ok (st', out) =>
        -- `try_reserve_oom` runs under memory pressure: whether the allocator grants the request is not determined by the
        -- model (C17_reserve_ok / C17_try_reserve_err cover both answers); either way the state must be unchanged
        let out := if toks.head? == some "try_reserve_oom" && expected.startsWith "err |" && out.startsWith "capok |"
          then "err" ++ (out.drop 5).toString else out
        -- a fault line is `fault <class> | - @site`: compare the class only
        -- crash-mirror lines (`!cmp<k> op`) compare the whole post-fault state; ordinary fault lines only the class
        let isCrash := lhs.startsWith "!"
        let (outCmp, isFault) :=
          if isCrash then (out, out.startsWith "fault ")
          else if out.startsWith "fault " then (((out.splitOn " | ").headD ""), true) else (out, false)
        let expCmp := if isCrash then expected
          else if isFault || expected.startsWith "fault " then ((expected.splitOn " | ").headD "") else expected
        if outCmp == expCmp then
          loop h { acc with st := st', faultsAgreed := acc.faultsAgreed + (if isFault then 1 else 0),
                            -- an injected comparison panic is caught: the queue survives and the case goes on
                            skip := isFault && !(isCrash && out.startsWith "fault user") } maxDiffs
        else
          if acc.diffs < maxDiffs then
            IO.println s!"DIFF case={acc.caseId} op#{acc.caseLine} line={acc.lines} :: {lhs}"
            IO.println s!"  impl : {expected}"
            IO.println s!"  model: {out}"
          loop h { acc with diffs := acc.diffs + 1, skip := true } maxDiffs

def main (args : List String) : IO UInt32 := do
  let h ← match args with
    | p :: _ => do
      let hd ← IO.FS.Handle.mk p .read
      pure (IO.FS.Stream.ofHandle hd)
    | [] => IO.getStdin
  let acc ← loop h {} 300
  IO.println s!"SUMMARY lines={acc.lines} cases={acc.cases} ops={acc.ops} diffs={acc.diffs} errors={acc.errors} faults_agreed={acc.faultsAgreed}"
  return (if acc.diffs == 0 && acc.errors == 0 then 0 else 1)
