//! pqharness: drives the real priority-queue crate (current /repo working tree, built with
//! `--cfg priority_queue_verif`, debug assertions and overflow checks) and writes a trace that the Lean
//! driver re-executes on the model.
mod gen;
mod ops;
mod scale;
mod types;
mod zst;

use gen::*;
use ops::*;
use std::io::{BufRead, BufWriter, Write};
use types::*;

struct Args {
    cmd: String,
    stream: String,
    seed: u64,
    tier: String,
    out: String,
    input: String,
    sync: bool,
    from_case: u64,
    skip: Vec<u64>,
    hasher: String,
    max_cases: u64,
    append: bool,
}

fn parse_args() -> Args {
    let mut a = Args {
        cmd: String::new(), stream: "core_pq".into(), seed: 1, tier: "quick".into(), out: "/dev/stdout".into(),
        input: String::new(), sync: false, from_case: 0, skip: vec![], hasher: "random".into(), max_cases: u64::MAX, append: false,
    };
    let v: Vec<String> = std::env::args().collect();
    a.cmd = v.get(1).cloned().unwrap_or_default();
    let mut i = 2;
    while i < v.len() {
        let val = v.get(i + 1).cloned().unwrap_or_default();
        match v[i].as_str() {
            "--stream" => { a.stream = val; i += 1 }
            "--seed" => { a.seed = val.parse().unwrap(); i += 1 }
            "--tier" => { a.tier = val; i += 1 }
            "--out" => { a.out = val; i += 1 }
            "--in" => { a.input = val; i += 1 }
            "--sync" => a.sync = true,
            "--from-case" => { a.from_case = val.parse().unwrap(); i += 1 }
            "--to-case" => { a.max_cases = val.parse().unwrap(); i += 1 }
            "--skip-cases" => { a.skip = val.split(',').filter(|x| !x.is_empty()).map(|x| x.parse().unwrap()).collect(); i += 1 }
            "--append" => a.append = true,
            "--hasher" => { a.hasher = val; i += 1 }
            "--max-cases" => { a.max_cases = val.parse().unwrap(); i += 1 }
            x => { eprintln!("unknown argument {}", x); std::process::exit(2) }
        }
        i += 1;
    }
    a
}

fn run_stream<H: HX>(a: &Args, sink: &mut Sink) -> serde_json::Value {
    let thorough = a.tier == "thorough";
    let mut rng = Rng::new(a.seed ^ gen_tag(&a.stream));
    let pq = [Kind::Pq];
    let dpq = [Kind::Dpq];
    let both = [Kind::Pq, Kind::Dpq];
    let mut extra = serde_json::json!({});
    let (n, l) = if thorough { (20000, 220) } else { (2000, 80) };
    match a.stream.as_str() {
        "core_pq" => random_stream::<H>(sink, &mut rng, &pq, &core_weights(), n, l),
        "core_dpq" => random_stream::<H>(sink, &mut rng, &dpq, &core_weights(), n, l),
        "core_both" => random_stream::<H>(sink, &mut rng, &both, &core_weights(), n, l),
        "bfs_pq" | "bfs_dpq" | "bfs_both" => {
            let kinds: &[Kind] = match a.stream.as_str() { "bfs_pq" => &pq, "bfs_dpq" => &dpq, _ => &both };
            let (u, v, ms) = if thorough { (4, 3, 30000) } else { (4, 2, 5000) };
            let (states, exhausted) = bfs_stream::<H>(sink, kinds, u, v, ms, a.stream == "bfs_both");
            extra = serde_json::json!({"bfs_states": states, "exhaustive": exhausted, "universe": u, "priorities": v});
        }
        "pattern_pq" | "pattern_dpq" => {
            let kinds: &[Kind] = if a.stream == "pattern_pq" { &pq } else { &dpq };
            let (len, v, stride) = if thorough { (8, 3, 1) } else { (7, 3, 3) };
            pattern_stream::<H>(sink, kinds, len, v, stride);
            extra = serde_json::json!({"pattern_len": len, "values": v, "stride": stride, "exhaustive": stride == 1});
        }
        "iters_mut" => { let l = if thorough { 5 } else { 4 }; iter_stream::<H>(sink, &both, 4, l, &["iter_mut"]); extra = serde_json::json!({"exhaustive": true, "max_calls": l, "max_size": 4}); }
        "iters_plain" => { let l = if thorough { 5 } else { 3 }; iter_stream::<H>(sink, &both, 4, l, &["iter", "into_iter", "drain"]); extra = serde_json::json!({"exhaustive": true, "max_calls": l, "max_size": 4}); }
        "iters_sorted" => { let l = if thorough { 5 } else { 4 }; iter_stream::<H>(sink, &both, 5, l, &["sorted_iter"]); extra = serde_json::json!({"exhaustive": true, "max_calls": l, "max_size": 5}); }
        "iters_drain" => { let l = if thorough { 5 } else { 4 }; iter_stream::<H>(sink, &both, 4, l, &["drain"]); extra = serde_json::json!({"exhaustive": true, "max_calls": l, "max_size": 4}); }
        "bulk" => bulk_stream::<H>(sink, &mut rng, &both, if thorough { 20000 } else { 2500 }),
        "large" => {
            let sizes: Vec<u64> = if thorough { vec![1, 2, 3, 7, 8, 100, 1023, 1024, 2048, 4096] } else { vec![1, 2, 3, 8, 100, 511, 1024] };
            large_stream::<H>(sink, &mut rng, &both, &sizes);
            extra = serde_json::json!({"sizes": sizes});
        }
        "crash" => { let (n, mk) = if thorough { (6000, 40) } else { (700, 12) }; crash_stream::<H>(sink, &mut rng, &both, n, mk); }
        "crash_mirror" => { let (n, mk) = if thorough { (5000, 40) } else { (600, 12) }; crash_mirror_stream::<H>(sink, &mut rng, &both, n, mk, 0); }
        "post_crash" => { let (n, mk) = if thorough { (12000, 40) } else { (1500, 12) }; crash_mirror_stream::<H>(sink, &mut rng, &both, n, mk, 12); }
        "c06" => random_stream::<H>(sink, &mut rng, &both, &weights_with(&[("sorted_vec", 120), ("sorted_iter", 150)]), n, l),
        "c08" => random_stream::<H>(sink, &mut rng, &both, &weights_with(&[("retain_mut", 90), ("retain", 50), ("iter_mut", 120), ("pop_if", 150)]), n, l),
        "c11" => random_stream::<H>(sink, &mut rng, &both, &weights_with(&[("push_increase", 300), ("push_decrease", 300)]), n, l),
        "c12" => random_stream::<H>(sink, &mut rng, &both, &weights_with(&[("get_mut", 100), ("peek_mut", 100), ("iter_mut", 60), ("get", 80), ("push_increase", 100), ("push_decrease", 100), ("change_priority_by", 100)]), n, l),
        "c14" => random_stream::<H>(sink, &mut rng, &both, &weights_with(&[("eq", 200), ("clone", 150)]), n, l),
        "c15" => random_stream::<H>(sink, &mut rng, &both, &weights_with(&[("serde_rt", 150), ("deser", 150), ("deser_unit", 25), ("deser_bad", 150), ("ser_fail", 60), ("deser_hint", 150)]), n, l),
        "c16" => random_stream::<H>(sink, &mut rng, &both, &weights_with(&[("drain", 150), ("clear", 80)]), n, l),
        "c17_oom" => { extra = oom_stream::<H>(sink, &mut rng, &both); }
        "zst" => zst::zst_stream(sink, &mut rng, if thorough { 2000 } else { 300 }),
        "c17" => random_stream::<H>(sink, &mut rng, &both, &weights_with(&[("capacity", 400)]), n, l),
        x => { eprintln!("unknown stream {}", x); std::process::exit(2) }
    }
    extra
}

fn gen_tag(s: &str) -> u64 {
    let mut h: u64 = 1469598103934665603;
    for b in s.as_bytes() { h ^= *b as u64; h = h.wrapping_mul(1099511628211); }
    h
}

/// replay op lines (a `case <id> <kind>` line starts a fresh queue; anything after ` => ` is ignored)
fn replay<H: HX>(a: &Args, sink: &mut Sink) {
    let f = std::fs::File::open(&a.input).expect("cannot open input");
    let mut q: AnyQ<H> = AnyQ::new(Kind::Pq);
    let mut dead = false;
    let mut lk = Lookup::Owned;
    for line in std::io::BufReader::new(f).lines() {
        let line = line.unwrap();
        let lhs = line.split(" => ").next().unwrap().trim().to_string();
        if lhs.is_empty() || lhs.starts_with('#') { continue; }
        let toks: Vec<&str> = lhs.split_whitespace().collect();
        if toks[0] == "case" {
            let kind = if toks.get(2) == Some(&"dpq") { Kind::Dpq } else { Kind::Pq };
            lk = if toks.get(3) == Some(&"borrowed") { Lookup::Borrowed } else { Lookup::Owned };
            q = AnyQ::new(kind);
            dead = false;
            sink.cases += 1;
            sink.raw(&format!("case {} {}", toks.get(1).unwrap_or(&"-"), kind.name()));
            continue;
        }
        if dead { continue; }
        if toks[0] == "load" {
            eprintln!("replay: `load` lines cannot be replayed on the implementation (use the generating stream)");
            std::process::exit(2);
        }
        match Op::parse(&lhs) {
            Ok(op) => {
                if !op.valid_for(q.kind()) { eprintln!("op {} not valid for {}", lhs, q.kind().name()); std::process::exit(2); }
                if !sink.step(&mut q, &op, lk) && !sink.survivable { dead = true; }
            }
            Err(e) => { eprintln!("cannot parse `{}`: {}", lhs, e); std::process::exit(2); }
        }
    }
}

/// C10 probe: replay the operations of a case (including injected faults), then run continuation battery `k` on
/// whatever state resulted, then drop everything.  Runs in its own process: an out-of-bounds unchecked access aborts it.
fn probe<H: HX>(a: &Args) {
    use std::panic::{catch_unwind, AssertUnwindSafe};
    TRACK.with(|t| t.set(true));
    UNWIND_DROPS.with(|u| u.set(false));
    let live0 = LIVE.with(|l| l.get());
    let f = std::fs::File::open(&a.input).expect("cannot open input");
    let mut q: AnyQ<H> = AnyQ::new(Kind::Pq);
    for line in std::io::BufReader::new(f).lines() {
        let line = line.unwrap();
        let lhs = line.split(" => ").next().unwrap().trim().to_string();
        if lhs.is_empty() || lhs.starts_with('#') { continue; }
        let toks: Vec<&str> = lhs.split_whitespace().collect();
        if toks[0] == "case" {
            q = AnyQ::new(if toks.get(2) == Some(&"dpq") { Kind::Dpq } else { Kind::Pq });
            continue;
        }
        let op = Op::parse(&lhs).expect("bad op");
        let _ = catch_unwind(AssertUnwindSafe(|| apply(&mut q, &op, Lookup::Owned)));
    }
    let keys: Vec<u64> = catch_unwind(AssertUnwindSafe(|| present_keys(&q))).unwrap_or_default();
    let n = keys.len() as u64 + 4;
    let pq = q.kind() == Kind::Pq;
    let pop = if pq { Op::Pop } else { Op::PopMin };
    let popb = if pq { Op::PopIf(0, W::default(), true) } else { Op::PopMax };
    let mut ops: Vec<Op> = vec![];
    let pops = |ops: &mut Vec<Op>, o: &Op| for _ in 0..n { ops.push(o.clone()); };
    match a.seed % 14 {
        0 => pops(&mut ops, &pop),
        1 => pops(&mut ops, &popb),
        2 => { for k in &keys { ops.push(Op::Remove(*k)); } pops(&mut ops, &pop) }
        3 => { for k in keys.iter().rev() { ops.push(Op::Remove(*k)); } pops(&mut ops, &popb) }
        4 => { for (j, k) in keys.iter().enumerate() { ops.push(Op::ChangePriority(*k, if j % 2 == 0 { i64::MAX - j as i64 } else { i64::MIN + j as i64 })); } pops(&mut ops, &pop) }
        5 => { for j in 0..5 { ops.push(Op::Push((900_000 + j, 0, i64::MAX - j as i64))); } pops(&mut ops, &pop); pops(&mut ops, &pop) }
        6 => { ops.push(Op::IterMut { forget: false, late: false, prog: (0..n).map(|j| (Call::F, W { prio: Some(j as i64 % 3), payload: None })).collect() }); pops(&mut ops, &pop) }
        7 => { ops.push(Op::RetainMut(keys.iter().map(|k| Row { key: *k, keep: k % 2 == 0, w: W { prio: Some(*k as i64 % 5), payload: None } }).collect())); pops(&mut ops, &pop) }
        8 => { for k in &keys { ops.push(Op::Push((*k, 0, (*k as i64 * 31) % 17))); } for k in &keys { ops.push(Op::Remove(*k)); } pops(&mut ops, &popb) }
        9 => { ops.push(Op::Drain { forget: false, calls: vec![Call::F, Call::B] }); for j in 0..3 { ops.push(Op::Push((j, 0, j as i64))); } pops(&mut ops, &pop) }
        10 => { ops.push(Op::Append(0, (0..5).map(|j| (800_000 + j, 0, j as i64)).collect())); pops(&mut ops, &pop) }
        11 => { let xs: Vec<E> = (0..60).map(|j| (if j % 2 == 0 { 700_000 + j } else { keys.get(j as usize % keys.len().max(1)).copied().unwrap_or(1) }, 0, (j as i64 * 7) % 13)).collect(); ops.push(Op::Extend { lo: 60, hi: Some(60), xs }); pops(&mut ops, &popb); pops(&mut ops, &popb) }
        12 => { ops.push(if pq { Op::IntoSortedVec } else { Op::IntoDescVec }); ops.push(Op::IntoVec); ops.push(Op::Iter(vec![Call::F, Call::B, Call::L])); ops.push(Op::CloneSwap); pops(&mut ops, &pop) }
        _ => { ops.push(Op::Convert); let o2 = if pq { Op::PopMax } else { Op::Pop }; for _ in 0..n { ops.push(o2.clone()); } }
    }
    let mut panics = 0;
    for op in &ops {
        if !op.valid_for(q.kind()) { continue; }
        if catch_unwind(AssertUnwindSafe(|| apply(&mut q, op, Lookup::Owned))).is_err() { panics += 1; }
    }
    let _ = catch_unwind(AssertUnwindSafe(move || drop(q)));
    let live1 = LIVE.with(|l| l.get());
    println!("probe ok battery {} safe_panics {} live_delta {}", a.seed % 14, panics, live1 - live0);
}

fn with_hasher(a: &Args, sink: &mut Sink) -> serde_json::Value {
    macro_rules! go { ($h:ty) => { if a.cmd == "replay" { replay::<$h>(a, sink); serde_json::json!({}) } else { run_stream::<$h>(a, sink) } } }
    match a.hasher.as_str() {
        "random" => go!(HRandom),
        "fixed" => go!(HFixed),
        "xx" => go!(HXx),
        "zero" => go!(HZero),
        x => { eprintln!("unknown hasher {}", x); std::process::exit(2) }
    }
}

fn main() {
    let a = parse_args();
    if a.cmd == "probe" {
        if std::env::var("PQH_VERBOSE").is_err() { std::panic::set_hook(Box::new(|_| {})); }
        probe::<HRandom>(&a);
        return;
    }
    if a.cmd == "scale" {
        scale::scale(a.seed, a.tier == "thorough");
        return;
    }
    if a.cmd != "gen" && a.cmd != "replay" {
        eprintln!("usage: pqharness gen|replay --stream S --seed N --tier quick|thorough --out FILE [--sync] [--from-case K] [--hasher random|fixed|xx|zero]");
        std::process::exit(2);
    }
    // panics are expected (caught) in some streams: keep stderr quiet
    if std::env::var("PQH_VERBOSE").is_err() { std::panic::set_hook(Box::new(|_| {})); }
    let file = std::fs::OpenOptions::new().create(true).write(true).truncate(!a.append).append(a.append).open(&a.out).expect("cannot open output");
    let mut w = BufWriter::with_capacity(1 << 20, file);
    let t0 = std::time::Instant::now();
    let (stats, extra) = {
        let mut sink = Sink {
            w: &mut w, sync: a.sync, cases: 0, ops: 0, faults: 0, nontrivial: Default::default(), op_hist: Default::default(),
            size_hist: Default::default(), samples: vec![], max_cases: a.max_cases, from_case: a.from_case, skip: a.skip.clone(), mute: false, core_only: false, stream: a.stream.clone(), survivable: false,
        };
        let extra = with_hasher(&a, &mut sink);
        let sizes: Vec<(usize, u64)> = sink.size_hist.iter().map(|(k, v)| (*k, *v)).collect();
        let max_size = sizes.iter().map(|x| x.0).max().unwrap_or(0);
        (serde_json::json!({
            "stream": a.stream, "hasher": a.hasher, "seed": a.seed, "tier": a.tier,
            "cases": sink.cases, "ops": sink.ops, "faults": sink.faults,
            "distinct_nontrivial": sink.nontrivial.len(),
            "op_histogram": sink.op_hist, "max_queue_size": max_size,
            "sizes_seen": sizes.len(), "samples": sink.samples,
        }), extra)
    };
    w.flush().unwrap();
    let mut stats = stats;
    stats["extra"] = extra;
    stats["wall_s"] = serde_json::json!(t0.elapsed().as_secs_f64());
    println!("{}", stats);
}
