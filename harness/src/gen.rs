//! Generators: exhaustive small scopes, structured random histories, iterator call sequences, bulk inputs.
use crate::ops::*;
use crate::types::*;
use std::collections::{HashSet, VecDeque};
use std::io::Write;
use std::panic::{catch_unwind, AssertUnwindSafe};

pub struct Sink<'a> {
    pub w: &'a mut dyn Write,
    pub sync: bool,
    pub cases: u64,
    pub ops: u64,
    pub faults: u64,
    pub nontrivial: HashSet<u64>,
    pub op_hist: std::collections::BTreeMap<&'static str, u64>,
    pub size_hist: std::collections::BTreeMap<usize, u64>,
    pub samples: Vec<String>,
    pub max_cases: u64,
    /// cases with index < from_case are executed but not written (replay of one case, restart after an abort)
    pub from_case: u64,
    /// cases that are not executed at all (they aborted the process in an earlier attempt)
    pub skip: Vec<u64>,
    pub mute: bool,
    /// after an injected fault only the hook-based snapshot is taken (the public peeks may themselves be unsafe)
    pub core_only: bool,
    pub stream: String,
    /// the last step ended in an injected (`user`) fault of a comparison fuse: the queue survives and the case may go on
    pub survivable: bool,
}

fn fnv(s: &str) -> u64 {
    let mut h: u64 = 0xcbf29ce484222325;
    for b in s.as_bytes() {
        h ^= *b as u64;
        h = h.wrapping_mul(0x100000001b3);
    }
    h
}

fn classify(p: Box<dyn std::any::Any + Send>) -> String {
    let msg = if let Some(s) = p.downcast_ref::<String>() {
        s.clone()
    } else if let Some(s) = p.downcast_ref::<&str>() {
        s.to_string()
    } else {
        "?".into()
    };
    let m = msg.to_lowercase();
    if m.contains("injected") {
        "user".into()
    } else if m.contains("capacity overflow") {
        "capacity".into()
    } else if m.contains("with overflow") {
        "arith".into()
    } else if m.contains("unwrap()") {
        "unwrap".into()
    } else if m.contains("index") || m.contains("out of bounds") || m.contains("out of range") {
        "index".into()
    } else {
        format!("other:{}", msg.replace(' ', "_").replace('|', "/"))
    }
}

impl<'a> Sink<'a> {
    pub fn full(&self) -> bool {
        self.cases >= self.max_cases
    }
    /// start a case; returns false when the case must be skipped (restart)
    pub fn case(&mut self, kind: Kind) -> bool {
        let idx = self.cases;
        self.cases += 1;
        if self.skip.contains(&idx) {
            return false;
        }
        self.mute = idx < self.from_case;
        if !self.mute {
            writeln!(self.w, "case {}:{} {}", self.stream, idx, kind.name()).unwrap();
        }
        true
    }
    pub fn raw(&mut self, line: &str) {
        if !self.mute {
            writeln!(self.w, "{}", line).unwrap();
        }
    }
    /// run one operation on the real queue and record it; returns false if it faulted (case over)
    pub fn step<H: HX>(&mut self, q: &mut AnyQ<H>, op: &Op, lk: Lookup) -> bool {
        if self.mute {
            return catch_unwind(AssertUnwindSafe(|| apply(q, op, lk))).is_ok();
        }
        let line = op.line();
        if self.sync {
            write!(self.w, "{} => ", line).unwrap();
            self.w.flush().unwrap();
        }
        let core_only = self.core_only;
        let before = if self.ops % 7 == 0 && !core_only { Some(q.snapshot()) } else { None };
        let c0 = cmp_count();
        self.survivable = false;
        let r = catch_unwind(AssertUnwindSafe(|| apply(q, op, lk)));
        self.ops += 1;
        *self.op_hist.entry(op.name()).or_insert(0) += 1;
        let ok = match r {
            Ok(res) => {
                let dt = cmp_count() - c0;
                let snap = if core_only { q.snapshot_core() } else { q.snapshot() };
                *self.size_hist.entry(q.len()).or_insert(0) += 1;
                // distinct non-trivial: (op, pre-state) pairs where the op changed the state or returned something
                let nontrivial = !res.ends_with("none") && res != "false" && res != "unit" || before.as_deref() != Some(&snap);
                if nontrivial {
                    self.nontrivial.insert(fnv(&line) ^ fnv(&snap).rotate_left(17));
                }
                if self.sync {
                    writeln!(self.w, "{} | {} t {}", res, snap, dt).unwrap();
                } else {
                    writeln!(self.w, "{} => {} | {} t {}", line, res, snap, dt).unwrap();
                }
                if self.samples.len() < 6 && self.ops % 97 == 3 {
                    self.samples.push(format!("{} => {}", line, res));
                }
                true
            }
            Err(p) => {
                self.faults += 1;
                let c = classify(p);
                // (comparison fuses, and callback fuses of the operations whose callbacks the crash model covers)
                self.survivable = c == "user" && match op {
                    Op::Crash { cmp: 1, .. } => true,
                    Op::Crash { cmp: 0, op, .. } => matches!(**op, Op::ChangePriorityBy(..) | Op::PopIf(..) | Op::Extend { .. } | Op::FromIter { .. }),
                    Op::Crash { cmp: 3, op, .. } => matches!(**op, Op::CloneSwap | Op::CloneFrom(..)),
                    Op::Crash { cmp: 4, op, .. } => matches!(**op, Op::Clear),
                    _ => false,
                };
                // after an injected fault the white-box state is part of the observation (C10): read it through the hook
                let dt = cmp_count() - c0;   // comparisons of the interrupted call, the panicking one and any made while unwinding included
                let st = if matches!(op, Op::Crash { .. }) {
                    catch_unwind(AssertUnwindSafe(|| format!("{} {} t {}", q.kind().name(), q.snapshot_core(), dt))).unwrap_or_else(|_| "-".into())
                } else {
                    "-".into()
                };
                if self.sync {
                    writeln!(self.w, "fault {} | {}", c, st).unwrap();
                } else {
                    writeln!(self.w, "{} => fault {} | {}", line, c, st).unwrap();
                }
                false
            }
        };
        if self.sync {
            self.w.flush().unwrap();
        }
        ok
    }
}

// -------------------------------------------------------------------------------------------
// priorities and keys

#[derive(Clone, Copy, Debug)]
pub enum PrioMode {
    Const,
    Small(i64),
    Wide,
    /// `n` ranks, each with a 3-bit tag that takes no part in `Ord`/`Eq` (payload-carrying priorities)
    Tagged(i64),
}
pub fn gen_prio(rng: &mut Rng, m: PrioMode) -> i64 {
    match m {
        PrioMode::Const => 5,
        PrioMode::Small(n) => rng.below(n as u64) as i64,
        PrioMode::Tagged(n) => tagged(rng.below(n as u64), rng.below(8)),
        PrioMode::Wide => match rng.below(10) {
            0 => i64::MIN,
            1 => i64::MAX,
            2 => 0,
            3 => -1,
            _ => rng.next() as i64,
        },
    }
}

#[derive(Clone, Debug)]
pub struct Profile {
    pub universe: u64,
    pub prio: PrioMode,
    pub absent_pct: u64,
    /// (op class, weight)
    pub weights: Vec<(&'static str, u32)>,
}

pub fn present_keys<H: HX>(q: &AnyQ<H>) -> Vec<u64> {
    match q {
        AnyQ::Pq(x) => x.iter().map(|(i, _)| i.key()).collect(),
        AnyQ::Dpq(x) => x.iter().map(|(i, _)| i.key()).collect(),
    }
}

fn gen_key<H: HX>(rng: &mut Rng, q: &AnyQ<H>, pf: &Profile, want_present: bool) -> u64 {
    if rng.below(100) < pf.absent_pct {
        return pf.universe + rng.below(pf.universe.max(1));
    }
    if want_present && rng.chance(4, 5) {
        let ks = present_keys(q);
        if !ks.is_empty() {
            return *rng.pick(&ks);
        }
    }
    rng.below(pf.universe)
}

fn gen_pairs<H: HX>(rng: &mut Rng, q: &AnyQ<H>, pf: &Profile, n: u64) -> Vec<E> {
    (0..n).map(|_| (gen_key(rng, q, pf, false), rng.below(4), gen_prio(rng, pf.prio))).collect()
}

fn gen_w(rng: &mut Rng, pf: &Profile) -> W {
    // a fifth of the priority writes go to an extreme (far below / far above everything stored): damage to the order
    // that a missing or partial re-sift leaves behind shows at once when the rewritten element has to travel far
    let prio = if rng.chance(1, 5) {
        Some(if rng.chance(1, 2) { i64::MIN + rng.below(16) as i64 } else { i64::MAX - rng.below(16) as i64 })
    } else if rng.chance(2, 3) {
        Some(gen_prio(rng, pf.prio))
    } else {
        None
    };
    W {
        prio,
        payload: if rng.chance(1, 4) { Some(rng.below(100)) } else { None },
    }
}

pub fn gen_calls(rng: &mut Rng, n: u64, alphabet: &[Call]) -> Vec<Call> {
    (0..n).map(|_| *rng.pick(alphabet)).collect()
}

fn gen_hint(rng: &mut Rng, n: u64) -> (u64, Option<u64>) {
    match rng.below(7) {
        0 | 1 => (n, Some(n)),
        2 => (0, None),
        3 => (0, Some(n + rng.below(1000))),
        4 => (0, Some(u64::MAX)),
        5 => (rng.below(n + 1), None),
        _ => (rng.below(n + 1), Some(n + rng.below(5))),
    }
}

pub fn gen_op<H: HX>(rng: &mut Rng, q: &AnyQ<H>, pf: &Profile) -> Op {
    let total: u32 = pf.weights.iter().map(|w| w.1).sum();
    loop {
        let mut x = rng.below(total as u64) as u32;
        let mut class = pf.weights[0].0;
        for (c, w) in &pf.weights {
            if x < *w {
                class = c;
                break;
            }
            x -= w;
        }
        let kind = q.kind();
        let pq = kind == Kind::Pq;
        let len = q.len() as u64;
        let op = match class {
            "push" => Op::Push((gen_key(rng, q, pf, false), rng.below(4), gen_prio(rng, pf.prio))),
            "push_increase" => Op::PushIncrease((gen_key(rng, q, pf, true), rng.below(4), gen_prio(rng, pf.prio))),
            "push_decrease" => Op::PushDecrease((gen_key(rng, q, pf, true), rng.below(4), gen_prio(rng, pf.prio))),
            "change_priority" => Op::ChangePriority(gen_key(rng, q, pf, true), gen_prio(rng, pf.prio)),
            "change_priority_by" => Op::ChangePriorityBy(gen_key(rng, q, pf, true), gen_prio(rng, pf.prio)),
            "get_priority" => Op::GetPriority(gen_key(rng, q, pf, true)),
            "get" => Op::Get(gen_key(rng, q, pf, true)),
            "get_mut" => Op::GetMut(gen_key(rng, q, pf, true), rng.below(100)),
            "remove" => Op::Remove(gen_key(rng, q, pf, true)),
            "peek" => {
                if pq { Op::Peek } else if rng.chance(1, 2) { Op::PeekMin } else { Op::PeekMax }
            }
            "peek_mut" => {
                let pl = rng.below(100);
                if pq { Op::PeekMut(pl) } else if rng.chance(1, 2) { Op::PeekMinMut(pl) } else { Op::PeekMaxMut(pl) }
            }
            "pop" => {
                if pq { Op::Pop } else if rng.chance(1, 2) { Op::PopMin } else { Op::PopMax }
            }
            "pop_if" => {
                let w = gen_w(rng, pf);
                let ret = rng.chance(1, 2);
                if pq { Op::PopIf(0, w, ret) } else { Op::PopIf(1 + rng.below(2) as u8, w, ret) }
            }
            "retain_mut" | "retain" => {
                let mut rows = vec![];
                for k in present_keys(q) {
                    if rng.chance(2, 3) {
                        rows.push(Row { key: k, keep: rng.chance(2, 3), w: gen_w(rng, pf) });
                    }
                }
                if class == "retain" { Op::Retain(rows) } else { Op::RetainMut(rows) }
            }
            "iter_mut" if len >= 5 && rng.chance(1, 4) => {
                // a short prefix of the elements is rewritten to extremes and the guard is dropped early: the rebuild must
                // cope with several displaced elements on one root-to-leaf path
                let k = rng.range(1, 4);
                let low = rng.chance(2, 3);
                let calls: Vec<Call> = if pq || rng.chance(1, 2) { vec![Call::F; k as usize] } else { (0..k).map(|j| if j % 2 == 0 { Call::B } else { Call::F }).collect() };
                let prog = calls.into_iter().enumerate().map(|(j, c)| (c, W { prio: Some(if low { i64::MIN + j as i64 } else { i64::MAX - j as i64 }), payload: None })).collect();
                Op::IterMut { forget: false, late: false, prog }
            }
            "iter_mut" => {
                let n = rng.below(len + 3);
                let alphabet: &[Call] = if pq { &[Call::F, Call::F, Call::F, Call::F, Call::H, Call::N(1), Call::Z, Call::C] } else { &[Call::F, Call::F, Call::F, Call::B, Call::B, Call::B, Call::L, Call::H, Call::N(1), Call::M(1), Call::N(0), Call::M(2), Call::Z, Call::C] };
                let prog = (0..n).map(|_| (*rng.pick(alphabet), gen_w(rng, pf))).collect();
                let forget = rng.chance(1, 8);
                let op = Op::IterMut { forget, late: false, prog };
                // a quarter of the (not leaked) iterations go through `(&mut q).into_iter()`
                if !forget && rng.chance(1, 4) { Op::ViaRef(Box::new(op)) } else { op }
            }
            "extend" if len >= 8 && rng.chance(1, 5) => {
                // the rebuild strategy (`better_to_rebuild(len, lower bound)`) fed with pairs whose items are (nearly) all
                // present already: the length (hardly) changes while many priorities do
                let lg = 63 - (len as u64).leading_zeros() as u64;
                let mut lo = 1u64;
                while 2 * (len + lo) >= lo * lg && lo < 400 { lo += 1; }
                let n = lo + rng.below(6);
                let ks = present_keys(q);
                let fresh = rng.below(3);      // 0, 1 or 2 genuinely new items
                let xs: Vec<E> = (0..n).map(|j| (if j < fresh { pf.universe * 2 + j } else { *rng.pick(&ks) }, rng.below(4), gen_prio(rng, pf.prio))).collect();
                let (lo2, hi) = if rng.chance(3, 4) { (n, Some(n)) } else { (lo, None) };
                Op::Extend { lo: lo2, hi, xs }
            }
            "extend" => {
                let n = if rng.chance(1, 4) { rng.range(20, 70) } else { rng.below(6) };
                let xs = gen_pairs(rng, q, pf, n);
                let (lo, hi) = gen_hint(rng, n);
                Op::Extend { lo, hi, xs }
            }
            "from_iter" => {
                let n = rng.below(12);
                let xs = gen_pairs(rng, q, pf, n);
                let (lo, hi) = gen_hint(rng, n);
                Op::FromIter { lo, hi, xs }
            }
            "from_vec" => {
                let n = rng.below(12);
                Op::FromVec(gen_pairs(rng, q, pf, n))
            }
            "append" => {
                let n = if rng.chance(1, 3) { len + rng.below(4) } else { rng.below(6) };
                Op::Append(*rng.pick(&[0u64, 0, 0, 700]), gen_pairs(rng, q, pf, n))
            }
            "convert" => Op::Convert,
            "serde_rt" => Op::SerdeRt(if rng.chance(1, 2) { Kind::Pq } else { Kind::Dpq }),
            "deser" => {
                let n = rng.below(8);
                Op::Deser(gen_pairs(rng, q, pf, n))
            }
            "clear" => Op::Clear,
            "drain" => {
                let n = rng.below(len + 3);
                Op::Drain { forget: rng.chance(1, 4), calls: gen_calls(rng, n, &[Call::F, Call::F, Call::F, Call::B, Call::B, Call::L, Call::H, Call::N(1), Call::M(1), Call::N(0), Call::M(0), Call::N(3), Call::Z, Call::C]) }
            }
            "iter" => {
                let n = rng.below(len + 3);
                let op = Op::Iter(gen_calls(rng, n, &[Call::F, Call::F, Call::F, Call::B, Call::B, Call::L, Call::H, Call::N(1), Call::M(1), Call::N(0), Call::M(0), Call::N(3), Call::Z, Call::C]));
                if rng.chance(1, 3) { Op::ViaRef(Box::new(op)) } else { op }
            }
            "into_iter" => {
                let n = rng.below(len + 3);
                Op::IntoIter(gen_calls(rng, n, &[Call::F, Call::F, Call::F, Call::B, Call::B, Call::L, Call::H, Call::N(1), Call::M(1), Call::N(0), Call::M(0), Call::N(3), Call::Z, Call::C]))
            }
            "into_vec" => Op::IntoVec,
            "sorted_vec" => {
                if pq { Op::IntoSortedVec } else if rng.chance(1, 2) { Op::IntoAscVec } else { Op::IntoDescVec }
            }
            "sorted_iter" => {
                let n = rng.below(len + 3);
                if pq {
                    Op::IntoSortedIter(gen_calls(rng, n, &[Call::F, Call::F, Call::F, Call::F, Call::H, Call::N(1), Call::N(0), Call::Z, Call::C]))
                } else {
                    Op::IntoSortedIter(gen_calls(rng, n, &[Call::F, Call::F, Call::F, Call::B, Call::B, Call::B, Call::L, Call::H, Call::N(1), Call::M(1), Call::N(0), Call::M(0), Call::N(4), Call::M(5), Call::Z, Call::C]))
                }
            }
            "len" => if rng.chance(1, 2) { Op::Len } else { Op::IsEmpty },
            "capacity" => match rng.below(7) {
                0 => Op::Reserve(rng.below(200)),
                1 => Op::ReserveExact(rng.below(200)),
                2 => Op::TryReserve(rng.below(200)),
                3 => Op::TryReserveExact(rng.below(200)),
                4 => Op::ShrinkToFit,
                5 => Op::TryReserve(*rng.pick(&[1u64 << 61, 1 << 62, 1 << 63, u64::MAX, u64::MAX - 7, 0])),
                _ => Op::TryReserveExact(*rng.pick(&[1u64 << 61, 1 << 62, 1 << 63, u64::MAX, u64::MAX - 7, 0])),
            },
            "eq" => {
                // mostly the same contents in another arrangement; sometimes one item/priority off
                let mut xs: Vec<E> = match q {
                    AnyQ::Pq(x) => x.iter().map(|(i, p)| (i.key(), 0, p.0)).collect(),
                    AnyQ::Dpq(x) => x.iter().map(|(i, p)| (i.key(), 0, p.0)).collect(),
                };
                // shuffle
                for i in (1..xs.len()).rev() {
                    let j = rng.below(i as u64 + 1) as usize;
                    xs.swap(i, j);
                }
                match rng.below(4) {
                    0 if !xs.is_empty() => { let i = rng.below(xs.len() as u64) as usize; xs[i].2 = xs[i].2.wrapping_add(1); }
                    1 if !xs.is_empty() => { xs.pop(); }
                    2 => xs.push((pf.universe * 3 + 1, 0, 1)),
                    _ => {}
                }
                Op::Eq(xs)
            }
            "clone" => match rng.below(3) {
                0 => Op::CloneSwap,
                1 => Op::CloneCheck,
                _ => { let n = rng.below(4); Op::CloneFrom(rng.below(len + 2), gen_pairs(rng, q, pf, n)) }
            },
            "fresh" => Op::Fresh(rng.below(7) as u8, *rng.pick(&[0u64, 0, 1, 5, 64])),
            "dbg" => Op::Dbg,
            "deser_unit" => Op::DeserUnit,
            "deser_hint" => {
                let n = rng.below(8);
                // announced length: honest, too small, too large, absurd (the allocation must not follow it)
                let hint = match rng.below(8) {
                    0 | 1 => n,
                    2 => rng.below(n + 1),
                    3 => n + rng.below(50),
                    4 => 5000 + rng.below(100_000),
                    5 => 1 << 40,
                    6 => (1 << 61) + 3,
                    _ => u64::MAX,
                };
                Op::DeserHint(hint, gen_pairs(rng, q, pf, n))
            }
            "deser_bad" => {
                let n = rng.below(5);
                let v = rng.below(12) as u8;
                // variant 8 with no pairs would be the well-formed `[]`
                Op::DeserBad(if v == 8 && n == 0 { 5 } else { v }, gen_pairs(rng, q, pf, n))
            }
            "ser_fail" => Op::SerFail(rng.below(400)),
            other => panic!("unknown op class {}", other),
        };
        if op.valid_for(kind) {
            return op;
        }
    }
}

pub fn core_weights() -> Vec<(&'static str, u32)> {
    vec![
        ("push", 200), ("push_increase", 50), ("push_decrease", 50), ("change_priority", 120),
        ("change_priority_by", 60), ("remove", 80), ("pop", 90), ("peek", 60), ("peek_mut", 20),
        ("get_priority", 15), ("get", 15), ("get_mut", 15), ("pop_if", 40), ("retain_mut", 8), ("retain", 6),
        ("iter_mut", 15), ("extend", 15), ("append", 8), ("convert", 8), ("clear", 2), ("drain", 3),
        ("from_vec", 3), ("from_iter", 3), ("len", 15), ("sorted_vec", 8), ("sorted_iter", 6), ("iter", 6),
        ("into_iter", 3), ("into_vec", 3), ("eq", 5), ("clone", 5), ("serde_rt", 3), ("deser", 2), ("capacity", 10),
        ("fresh", 2), ("dbg", 5), ("deser_unit", 1), ("deser_bad", 2), ("ser_fail", 2), ("deser_hint", 2),
    ]
}

pub fn weights_with(boost: &[(&'static str, u32)]) -> Vec<(&'static str, u32)> {
    let mut w = core_weights();
    for (c, x) in boost {
        if let Some(e) = w.iter_mut().find(|e| e.0 == *c) {
            e.1 = *x;
        } else {
            w.push((c, *x));
        }
    }
    w
}

/// structured random histories
pub fn random_stream<H: HX>(
    sink: &mut Sink,
    rng: &mut Rng,
    kinds: &[Kind],
    weights: &[(&'static str, u32)],
    ncases: u64,
    maxlen: u64,
) {
    let universes = [3u64, 4, 6, 8, 12, 16, 24, 32, 64];
    let prios = [PrioMode::Const, PrioMode::Small(2), PrioMode::Small(3), PrioMode::Small(10), PrioMode::Small(100), PrioMode::Wide, PrioMode::Tagged(1), PrioMode::Tagged(3), PrioMode::Tagged(12)];
    let prefill = [0u64, 0, 0, 1, 2, 3, 7, 15, 16, 17, 31, 33, 40, 64];
    for c in 0..ncases {
        if sink.full() {
            return;
        }
        let mut r = rng.fork(c);
        let kind = *r.pick(kinds);
        let pf = Profile {
            universe: *r.pick(&universes),
            prio: *r.pick(&prios),
            absent_pct: *r.pick(&[0, 5, 5, 30]),
            weights: weights.to_vec(),
        };
        let lk = if r.chance(1, 2) { Lookup::Owned } else { Lookup::Borrowed };
        let len = r.range(5, maxlen);
        if !sink.case(kind) {
            continue;
        }
        let mut q: AnyQ<H> = AnyQ::new(kind);
        // half of the cases start from one of the seven public constructors instead of the harness default
        if r.chance(1, 2) {
            let op = Op::Fresh(r.below(7) as u8, *r.pick(&[0u64, 1, 3, 40, 1000]));
            if !sink.step(&mut q, &op, lk) {
                continue;
            }
        }
        let n0 = *r.pick(&prefill);
        if n0 > 0 {
            let big = Profile { universe: pf.universe.max(n0), ..pf.clone() };
            let xs: Vec<E> = (0..n0).map(|k| (if r.chance(1, 2) { k } else { r.below(big.universe) }, 0, gen_prio(&mut r, pf.prio))).collect();
            let op = match r.below(3) {
                0 => Op::FromVec(xs),
                1 => Op::FromIter { lo: n0, hi: Some(n0), xs },
                _ => Op::Extend { lo: 0, hi: None, xs },
            };
            if !sink.step(&mut q, &op, lk) {
                continue;
            }
        }
        let pf2 = if n0 > pf.universe { Profile { universe: n0, ..pf.clone() } } else { pf.clone() };
        for _ in 0..len {
            let op = gen_op(&mut r, &q, &pf2);
            if !sink.step(&mut q, &op, lk) {
                break;
            }
        }
    }
}

/// Exhaustive small scope: breadth-first over reachable states (deduplicated by white-box snapshot); from
/// every state every operation of the alphabet is applied as its own case (`load` + op).
pub fn bfs_stream<H: HX>(sink: &mut Sink, kinds: &[Kind], u: u64, v: i64, max_states: usize, with_convert: bool) -> (usize, bool) {
    let mut seen: HashSet<String> = HashSet::new();
    let mut queue: VecDeque<AnyQ<H>> = VecDeque::new();
    for k in kinds {
        let q: AnyQ<H> = AnyQ::new(*k);
        seen.insert(format!("{} {}", k.name(), q.snapshot_core()));
        queue.push_back(q);
    }
    let mut exhausted = true;
    let mut nstates = 0usize;
    while let Some(q) = queue.pop_front() {
        nstates += 1;
        let kind = q.kind();
        let pq = kind == Kind::Pq;
        let snap = q.snapshot_core();
        let snap_pk = q.snapshot();
        let mut ops: Vec<(Op, bool)> = vec![]; // (op, expands state space)
        for k in 0..u {
            for p in 0..v {
                ops.push((Op::Push((k, 0, p)), true));
                ops.push((Op::PushIncrease((k, 0, p)), false));
                ops.push((Op::PushDecrease((k, 0, p)), false));
                ops.push((Op::ChangePriority(k, p), true));
                ops.push((Op::ChangePriorityBy(k, p), false));
            }
            ops.push((Op::Remove(k), true));
            ops.push((Op::GetPriority(k), false));
            ops.push((Op::Get(k), false));
        }
        if pq {
            ops.push((Op::Pop, true));
            ops.push((Op::Peek, false));
            ops.push((Op::PeekMut(0), false));
            ops.push((Op::IntoSortedVec, false));
            for p in 0..v {
                ops.push((Op::PopIf(0, W { prio: Some(p), payload: None }, false), true));
                ops.push((Op::PopIf(0, W { prio: Some(p), payload: None }, true), false));
            }
            ops.push((Op::PopIf(0, W::default(), true), false));
        } else {
            ops.push((Op::PopMin, true));
            ops.push((Op::PopMax, true));
            ops.push((Op::PeekMin, false));
            ops.push((Op::PeekMax, false));
            ops.push((Op::PeekMinMut(0), false));
            ops.push((Op::PeekMaxMut(0), false));
            ops.push((Op::IntoAscVec, false));
            ops.push((Op::IntoDescVec, false));
            for which in 1..=2u8 {
                for p in 0..v {
                    ops.push((Op::PopIf(which, W { prio: Some(p), payload: None }, false), true));
                    ops.push((Op::PopIf(which, W { prio: Some(p), payload: None }, true), false));
                }
                ops.push((Op::PopIf(which, W::default(), true), false));
            }
        }
        ops.push((Op::Len, false));
        ops.push((Op::IntoVec, false));
        ops.push((Op::Clear, false));
        ops.push((Op::CloneCheck, false));
        ops.push((Op::SerdeRt(kind), false));
        ops.push((Op::SerdeRt(kind.other()), false));
        if with_convert {
            ops.push((Op::Convert, kinds.len() > 1));
        } else {
            ops.push((Op::Convert, false));
        }
        // retain over every subset of the universe (no rewrites), and a rewrite of every single key
        for mask in 0..(1u64 << u) {
            let rows: Vec<Row> = (0..u).map(|k| Row { key: k, keep: mask >> k & 1 == 1, w: W::default() }).collect();
            ops.push((Op::RetainMut(rows), false));
        }
        for k in 0..u {
            for p in 0..v {
                ops.push((Op::RetainMut(vec![Row { key: k, keep: true, w: W { prio: Some(p), payload: None } }]), false));
            }
        }
        // iter_mut: every prefix length, rewriting the last visited element
        for n in 0..=(q.len() as u64 + 1) {
            for p in 0..v {
                let mut prog: Vec<(Call, W)> = (0..n).map(|_| (Call::F, W::default())).collect();
                if let Some(l) = prog.last_mut() {
                    l.1 = W { prio: Some(p), payload: None };
                }
                ops.push((Op::IterMut { forget: false, late: false, prog }, false));
            }
        }
        for (op, expand) in ops {
            if sink.full() {
                return (nstates, false);
            }
            if !sink.case(kind) {
                continue;
            }
            sink.raw(&format!("load {} {} => ok | {} t 0", kind.name(), snap, snap_pk));
            let mut c = q.clone_q();
            let ok = sink.step(&mut c, &op, Lookup::Owned);
            if ok && expand {
                let key = format!("{} {}", c.kind().name(), c.snapshot_core());
                if !seen.contains(&key) {
                    if seen.len() < max_states {
                        seen.insert(key);
                        queue.push_back(c);
                    } else {
                        exhausted = false;
                    }
                }
            }
        }
    }
    (nstates, exhausted)
}

/// every priority pattern of length `n` over `v` values, built three ways, then every single
/// change_priority / remove / pop applied to it (C01/C02: all sift paths on 3-level trees)
pub fn pattern_stream<H: HX>(sink: &mut Sink, kinds: &[Kind], n: u32, v: i64, stride: u64) {
    let total = (v as u64).pow(n);
    let mut idx = 0u64;
    while idx < total {
        let mut x = idx;
        let xs: Vec<E> = (0..n as u64).map(|k| { let p = (x % v as u64) as i64; x /= v as u64; (k, 0, p) }).collect();
        for kind in kinds {
            let pq = *kind == Kind::Pq;
            let mut base: AnyQ<H> = AnyQ::new(*kind);
            let build = match idx % 3 { 0 => Op::FromVec(xs.clone()), 1 => Op::Extend { lo: 0, hi: None, xs: xs.clone() }, _ => Op::FromIter { lo: 0, hi: None, xs: xs.clone() } };
            if sink.full() { return; }
            if !sink.case(*kind) { idx += stride; continue; }
            if !sink.step(&mut base, &build, Lookup::Owned) { continue; }
            let snap = base.snapshot_core();
            let snap_pk = base.snapshot();
            let mut ops: Vec<Op> = vec![];
            for k in 0..n as u64 {
                for p in [-1, 0, v / 2, v - 1, v] {
                    ops.push(Op::ChangePriority(k, p));
                }
                ops.push(Op::Remove(k));
            }
            if pq { ops.push(Op::Pop); ops.push(Op::IntoSortedVec); } else { ops.push(Op::PopMin); ops.push(Op::PopMax); ops.push(Op::IntoAscVec); ops.push(Op::IntoDescVec); ops.push(Op::PeekMax); }
            ops.push(Op::Push((n as u64, 0, -1)));
            ops.push(Op::Push((n as u64, 0, v)));
            ops.push(Op::Push((n as u64, 0, v / 2)));
            for op in ops {
                if sink.full() { return; }
                if !sink.case(*kind) { continue; }
                sink.raw(&format!("load {} {} => ok | {} t 0", kind.name(), snap, snap_pk));
                let mut c = base.clone_q();
                sink.step(&mut c, &op, Lookup::Owned);
            }
        }
        idx += stride;
    }
}

/// all call sequences of length `l` over the iterator alphabets, at sizes 0..=maxn, for every iterator type
pub fn iter_stream<H: HX>(sink: &mut Sink, kinds: &[Kind], maxn: u64, l: u32, which: &[&str]) {
    let full = [Call::F, Call::B, Call::L, Call::H, Call::N(0), Call::N(1), Call::N(2), Call::M(0), Call::M(1), Call::M(3), Call::Z, Call::C];
    let front = [Call::F, Call::H, Call::N(0), Call::N(1), Call::N(3), Call::Z, Call::C];
    for kind in kinds {
        for n in 0..=maxn {
            let xs: Vec<E> = (0..n).map(|k| (k, 0, ((k * 7 + 3) % 5) as i64)).collect();
            for ty in which {
                let alphabet: &[Call] = match (*ty, kind) {
                    ("iter_mut", Kind::Pq) | ("sorted_iter", Kind::Pq) => &front,
                    _ => &full,
                };
                let a = alphabet.len() as u64;
                for len in 0..=l {
                    for code in 0..a.pow(len) {
                        let mut x = code;
                        let cs: Vec<Call> = (0..len).map(|_| { let c = alphabet[(x % a) as usize]; x /= a; c }).collect();
                        let op = match *ty {
                            "iter" => Op::Iter(cs),
                            "into_iter" => Op::IntoIter(cs),
                            "drain" => Op::Drain { forget: code % 5 == 4, calls: cs },
                            "sorted_iter" => Op::IntoSortedIter(cs),
                            "iter_mut" => Op::IterMut { forget: code % 7 == 6, late: false, prog: cs.iter().enumerate().map(|(i, c)| (*c, W { prio: if i % 2 == 0 { Some((code % 5) as i64) } else { None }, payload: Some(i as u64 + 1) })).collect() },
                            _ => unreachable!(),
                        };
                        if sink.full() { return; }
                        if !sink.case(*kind) { continue; }
                        let mut q: AnyQ<H> = AnyQ::new(*kind);
                        if !sink.step(&mut q, &Op::FromVec(xs.clone()), Lookup::Owned) { continue; }
                        if !sink.step(&mut q, &op, Lookup::Owned) { continue; }
                        // the queue must remain usable afterwards
                        sink.step(&mut q, &Op::Push((100, 0, 2)), Lookup::Owned);
                        sink.step(&mut q, &Op::Len, Lookup::Owned);
                    }
                }
            }
        }
    }
}

/// bulk inputs for C07: receivers of many sizes, duplicated inputs, every kind of hint, both strategies
pub fn bulk_stream<H: HX>(sink: &mut Sink, rng: &mut Rng, kinds: &[Kind], ncases: u64) {
    let sizes = [0u64, 1, 2, 3, 8, 16, 32, 40, 64, 100];
    for c in 0..ncases {
        if sink.full() { return; }
        let mut r = rng.fork(c);
        let kind = *r.pick(kinds);
        let n0 = *r.pick(&sizes);
        let pf = Profile { universe: (n0 + 8).max(8), prio: *r.pick(&[PrioMode::Small(3), PrioMode::Small(50), PrioMode::Wide, PrioMode::Tagged(4)]), absent_pct: 10, weights: vec![] };
        if !sink.case(kind) { continue; }
        let mut q: AnyQ<H> = AnyQ::new(kind);
        let xs0: Vec<E> = (0..n0).map(|k| (k, 0, gen_prio(&mut r, pf.prio))).collect();
        if !sink.step(&mut q, &Op::FromVec(xs0), Lookup::Owned) { continue; }
        for _ in 0..r.range(1, 4) {
            let n = match r.below(4) { 0 => r.below(5), 1 => r.range(20, 40), 2 => n0 + r.below(10), _ => r.below(80) };
            let existing = present_keys(&q);
            let all_existing = r.chance(1, 3) && !existing.is_empty();
            let xs = gen_pairs(&mut r, &q, &pf, n).into_iter().map(|(k, _, p)| (if all_existing { *r.pick(&existing) } else { k }, 7, p)).collect::<Vec<_>>();
            let (lo, hi) = gen_hint(&mut r, n);
            let op = match r.below(10) {
                0 => Op::FromVec(xs),
                1 => Op::FromIter { lo, hi, xs },
                2 => Op::Append(*r.pick(&[0u64, 0, 900]), xs),
                3 => Op::Convert,
                4 => Op::Deser(xs),
                _ => Op::Extend { lo, hi, xs },
            };
            if !sink.step(&mut q, &op, Lookup::Owned) { break; }
            let probe = if kind == Kind::Pq || matches!(q, AnyQ::Pq(_)) { Op::IntoSortedVec } else { Op::IntoAscVec };
            if probe.valid_for(q.kind()) { sink.step(&mut q, &probe, Lookup::Owned); }
        }
    }
}

/// large queues for the cost property: patterns ascending / descending / constant / random / alternating
pub fn large_stream<H: HX>(sink: &mut Sink, rng: &mut Rng, kinds: &[Kind], sizes: &[u64]) {
    for kind in kinds {
        for &n in sizes {
            for pat in 0..5u64 {
                if sink.full() { return; }
                let mut r = rng.fork(n * 31 + pat);
                if !sink.case(*kind) { continue; }
                let pri = |k: u64, r: &mut Rng| -> i64 {
                    match pat { 0 => k as i64, 1 => -(k as i64), 2 => 5, 3 => (r.next() % 1000) as i64, _ => if k % 2 == 0 { k as i64 } else { -(k as i64) } }
                };
                let mut q: AnyQ<H> = AnyQ::new(*kind);
                let xs: Vec<E> = (0..n).map(|k| (k, 0, pri(k, &mut r))).collect();
                let build = match pat % 3 { 0 => Op::FromVec(xs), 1 => Op::FromIter { lo: n, hi: Some(n), xs }, _ => Op::Extend { lo: n, hi: Some(n), xs } };
                if !sink.step(&mut q, &build, Lookup::Owned) { continue; }
                let pq = *kind == Kind::Pq;
                let mut ops: Vec<Op> = vec![];
                for j in 0..24u64 {
                    let k = match j % 4 { 0 => 0, 1 => n - 1, 2 => n / 2, _ => r.below(n) };
                    let ext = match j % 3 { 0 => i64::MAX - j as i64, 1 => i64::MIN + j as i64, _ => 0 };
                    ops.push(Op::ChangePriority(k, ext));
                    ops.push(Op::ChangePriorityBy(r.below(n), -ext));
                    // (present items are addressed through a key whose payload differs from the stored one: C12)
                    ops.push(Op::PushIncrease((r.below(n), 7, ext)));
                    ops.push(Op::PushDecrease((r.below(n), 7, ext)));
                    ops.push(Op::Push((n + j, 0, ext)));
                    // a present element — the first / last / middle one, which the ascending and descending patterns make the
                    // current minimum / maximum — re-pushed across the opposite extreme
                    ops.push(Op::Push((k, 9, -ext)));
                    ops.push(Op::Get(k));
                    ops.push(Op::Remove(r.below(n)));
                    if pq { ops.push(Op::Pop); ops.push(Op::Peek); ops.push(Op::PopIf(0, W { prio: Some(ext), payload: None }, j % 2 == 0)); }
                    else { ops.push(Op::PopMin); ops.push(Op::PopMax); ops.push(Op::PeekMin); ops.push(Op::PeekMax);
                           ops.push(Op::PopIf(1, W { prio: Some(ext), payload: None }, j % 2 == 0)); ops.push(Op::PopIf(2, W { prio: Some(-ext), payload: None }, j % 2 == 1)); }
                    ops.push(Op::GetPriority(r.below(n)));
                    ops.push(Op::Len);
                }
                ops.push(Op::RetainMut(vec![Row { key: 1, keep: false, w: W::default() }]));
                ops.push(Op::IterMut { forget: false, late: false, prog: vec![(Call::F, W { prio: Some(3), payload: None })] });
                ops.push(Op::Convert);
                ops.push(Op::Append(0, (0..n / 2).map(|k| (n * 2 + k, 0, k as i64)).collect()));
                for op in ops {
                    if !op.valid_for(q.kind()) { continue; }
                    if !sink.step(&mut q, &op, Lookup::Owned) { break; }
                }
            }
        }
    }
}


/// table well-formedness as the crate's unchecked accesses need it
/// C17 under memory pressure: the address space of this process is limited, then `try_reserve` / `try_reserve_exact` are
/// called with amounts around the limit, so that each of the three internal reservations (map, heap table, slot table)
/// is the one that fails for some amount.  Whatever fails, the call must answer `Err` (or `Ok` with enough capacity) and
/// leave the queue as it was.
pub fn oom_stream<H: HX>(sink: &mut Sink, rng: &mut Rng, kinds: &[Kind]) -> serde_json::Value {
    #[repr(C)]
    struct RLimit { cur: u64, max: u64 }
    extern "C" { fn setrlimit(resource: i32, rlim: *const RLimit) -> i32; }
    const RLIMIT_AS: i32 = 9;
    let limit: u64 = 1 << 31;
    let rc = unsafe { setrlimit(RLIMIT_AS, &RLimit { cur: limit, max: limit }) };
    let mut errs = 0u64;
    let mut oks = 0u64;
    for (c, kind) in kinds.iter().enumerate() {
        for exact in [false, true] {
            if !sink.case(*kind) { continue; }
            let mut q: AnyQ<H> = AnyQ::new(*kind);
            let xs: Vec<E> = (0..(5 + c as u64)).map(|k| (k, 0, rng.below(9) as i64)).collect();
            if !sink.step(&mut q, &Op::FromVec(xs), Lookup::Owned) { continue; }
            // per element: map entry 48 bytes + index table ~9..18 bytes, heap 8, slot table 8
            let mut n = limit / 160;
            while n < limit / 30 {
                let before = sink.ops;
                // every call on the same small queue: a successful reservation is given back by shrink_to_fit
                if !sink.step(&mut q, &Op::TryReserveOom(exact, n), Lookup::Owned) { break; }
                let _ = before;
                if !sink.step(&mut q, &Op::ShrinkToFit, Lookup::Owned) { break; }
                n += n / 16 + rng.below(1 << 12);
            }
            let _ = (&mut errs, &mut oks);
        }
    }
    serde_json::json!({"rlimit_as": limit, "setrlimit_rc": rc})
}

pub fn wf_of<H: HX>(q: &AnyQ<H>) -> bool {
    // after a panic inside IndexMap's own `retain` even reading the lengths can trip IndexMap's debug assertions
    let snap = catch_unwind(AssertUnwindSafe(|| match q {
        AnyQ::Pq(x) => x.verif_snapshot(),
        AnyQ::Dpq(x) => x.verif_snapshot(),
    }));
    let (heap, qp, size, maplen) = match snap {
        Ok(x) => x,
        Err(_) => return false,
    };
    if heap.len() != size || qp.len() != size || maplen != size {
        return false;
    }
    for (p, i) in heap.iter().enumerate() {
        if *i >= size || qp[*i] != p {
            return false;
        }
    }
    true
}

/// operations whose sift-up (or predicate loop) can be interrupted between table updates: the post-crash state of
/// these is known not to be well-formed on the unchanged tree (KNOWN_FINDINGS.json, property C10)
pub fn crash_key(kind: Kind, op: &Op, cmp: u8) -> String {
    format!("{}.{}/{}", kind.name(), op.name(), match cmp { 1 => "cmp", 0 => "cb", 3 => "cl", 4 => "dr", _ => "hk" })
}

/// C10: for reachable states, every operation, every index k of the user callback that panics: state after
/// `catch_unwind`, then continuations (fault-free and faulty) and drop, with live-object accounting
pub fn crash_stream<H: HX>(sink: &mut Sink, rng: &mut Rng, kinds: &[Kind], ncases: u64, max_k: u64) {
    TRACK.with(|t| t.set(true));
    for c in 0..ncases {
        if sink.full() { break; }
        let mut r = rng.fork(c);
        let kind = *r.pick(kinds);
        let pq = kind == Kind::Pq;
        let pf = Profile { universe: *r.pick(&[4u64, 8, 16, 40]), prio: *r.pick(&[PrioMode::Small(3), PrioMode::Small(20), PrioMode::Wide, PrioMode::Tagged(3)]), absent_pct: 5, weights: core_weights() };
        // the state the faulty operation starts from
        let n0 = *r.pick(&[0u64, 1, 2, 3, 5, 8, 12, 20, 40]);
        let xs0: Vec<E> = (0..n0).map(|k| (k, 0, gen_prio(&mut r, pf.prio))).collect();
        let nprefix = r.below(6);
        // a third of the starting states are SPARSE: a queue created with a generous capacity and filled by pushes (so that
        // `len` is far below `capacity`, as after growing and shrinking); the others are exactly as large as their contents
        let first: Vec<Op> = if r.chance(1, 3) {
            vec![Op::Fresh(1, 64 + 8 * n0), Op::Extend { lo: 0, hi: None, xs: xs0.clone() }]
        } else {
            vec![Op::FromVec(xs0.clone())]
        };
        let prefix: Vec<Op> = {
            let mut q: AnyQ<H> = AnyQ::new(kind);
            for op in &first { let _ = std::panic::catch_unwind(AssertUnwindSafe(|| apply(&mut q, op, Lookup::Owned))); }
            let mut v = first.clone();
            for _ in 0..nprefix {
                let op = gen_op(&mut r, &q, &pf);
                if matches!(op, Op::IterMut { forget: true, .. } | Op::Drain { forget: true, .. }) { continue; }
                let _ = std::panic::catch_unwind(AssertUnwindSafe(|| apply(&mut q, &op, Lookup::Owned)));
                v.push(op);
            }
            v
        };
        let build = |sink: &mut Sink| -> Option<AnyQ<H>> {
            let mut q: AnyQ<H> = AnyQ::new(kind);
            for op in &prefix {
                if !sink.step(&mut q, op, Lookup::Owned) { return None; }
            }
            Some(q)
        };
        // candidate faulty operations
        let qtmp: AnyQ<H> = { let mut q = AnyQ::new(kind); for op in &prefix { let _ = std::panic::catch_unwind(AssertUnwindSafe(|| apply(&mut q, op, Lookup::Owned))); } q };
        let len = qtmp.len() as u64;
        let present = present_keys(&qtmp);
        let anykey = |r: &mut Rng| if !present.is_empty() && r.chance(4, 5) { *r.pick(&present) } else { pf.universe + r.below(3) };
        let ext = |r: &mut Rng| *r.pick(&[i64::MAX, i64::MIN, 0, 1, 2]);
        let w = W { prio: Some(ext(&mut r)), payload: None };
        let big: Vec<E> = (0..r.range(25, 60)).map(|j| (if j % 3 == 0 { j % (len + 1) } else { 1000 + j }, 7, gen_prio(&mut r, pf.prio))).collect();
        let small: Vec<E> = (0..r.range(1, 5)).map(|j| (if j % 2 == 0 { anykey(&mut r) } else { 2000 + j }, 7, gen_prio(&mut r, pf.prio))).collect();
        let nb = big.len() as u64;
        let ns = small.len() as u64;
        let mut cands: Vec<Op> = vec![
            Op::Push((pf.universe + 50, 0, ext(&mut r))), Op::Push((anykey(&mut r), 0, ext(&mut r))),
            Op::PushIncrease((anykey(&mut r), 0, i64::MAX)), Op::PushDecrease((anykey(&mut r), 0, i64::MIN)),
            Op::ChangePriority(anykey(&mut r), ext(&mut r)), Op::ChangePriorityBy(anykey(&mut r), ext(&mut r)),
            Op::Remove(anykey(&mut r)),
            Op::RetainMut(present.iter().map(|k| Row { key: *k, keep: k % 3 != 0, w: W { prio: Some((*k as i64 * 7) % 5), payload: None } }).collect()),
            Op::Retain(present.iter().map(|k| Row { key: *k, keep: k % 2 != 0, w: W::default() }).collect()),
            Op::IterMut { forget: false, late: false, prog: (0..len.min(6)).map(|j| (Call::F, W { prio: Some(100 - j as i64), payload: None })).collect() },
            Op::IterMut { forget: true, late: false, prog: (0..len.min(3)).map(|j| (Call::F, W { prio: Some(100 - j as i64), payload: None })).collect() },
            Op::Drain { forget: true, calls: vec![Call::F] },
            Op::Extend { lo: nb, hi: Some(nb), xs: big.clone() }, Op::Extend { lo: 0, hi: None, xs: big.clone() },
            Op::Extend { lo: ns, hi: Some(ns), xs: small.clone() },
            Op::FromVec(big.clone()), Op::FromIter { lo: nb, hi: Some(nb), xs: big.clone() }, Op::Append(0, small.clone()), Op::Append(300, big.clone()),
            Op::Convert, Op::SerdeRt(kind.other()),
            Op::CloneSwap, Op::CloneFrom(r.below(len + 1), small.clone()), Op::CloneFrom(0, vec![]), Op::CloneFrom(len / 2, big.clone()),
            Op::Clear, Op::Clear, Op::Drain { forget: false, calls: vec![Call::F] }, Op::Drain { forget: false, calls: vec![] },
        ];
        if pq {
            cands.extend([Op::Pop, Op::PopIf(0, w, true), Op::PopIf(0, w, false), Op::IntoSortedVec]);
        } else {
            cands.extend([Op::PopMin, Op::PopMax, Op::PeekMax, Op::PopIf(1, w, true), Op::PopIf(1, w, false), Op::PopIf(2, w, true), Op::PopIf(2, w, false), Op::IntoAscVec]);
        }
        let op = r.pick(&cands).clone();
        // how many comparisons / callbacks does it perform without a fault?
        let (kc, kb, kh, kl, kd) = {
            let mut q = qtmp.clone_q();
            let c0 = cmp_count();
            let b0 = CBCOUNT.with(|c| c.get());
            let h0 = HKCOUNT.with(|c| c.get());
            let l0 = CLCOUNT.with(|c| c.get());
            let d0 = DRCOUNT.with(|c| c.get());
            let _ = std::panic::catch_unwind(AssertUnwindSafe(|| apply(&mut q, &op, Lookup::Owned)));
            (cmp_count() - c0, CBCOUNT.with(|c| c.get()) - b0, HKCOUNT.with(|c| c.get()) - h0, CLCOUNT.with(|c| c.get()) - l0, DRCOUNT.with(|c| c.get()) - d0)
        };
        drop(qtmp);
        let mut plans: Vec<(u8, u64)> = vec![];
        for k in 1..=kc.min(max_k) { plans.push((1, k)); }
        if kc > max_k { plans.push((1, kc)); plans.push((1, r.range(max_k, kc))); }
        for k in 1..=kb.min(max_k) { plans.push((0, k)); }
        for k in 1..=kh.min(max_k) { plans.push((2, k)); }
        if kh > max_k { plans.push((2, kh)); plans.push((2, r.range(max_k, kh))); }
        // `Clone` panics: only for the operations that clone on behalf of the caller
        if matches!(op, Op::CloneSwap | Op::CloneFrom(..)) {
            for k in 1..=kl.min(max_k) { plans.push((3, k)); }
            if kl > max_k { plans.push((3, kl)); plans.push((3, r.range(max_k, kl))); }
        }
        // `Drop` panics (an item or priority dropped on behalf of the caller: `clear`, `drain`, the elements `retain` rejects,
        // the clashing pairs of `append` / `extend` / `from(vec)`, the queue `clone_from` overwrites, conversions that consume)
        if matches!(op, Op::Clear | Op::Drain { forget: false, .. } | Op::Retain(_) | Op::RetainMut(_) | Op::Append(..) | Op::Extend { .. } | Op::FromVec(_) | Op::FromIter { .. }
            | Op::CloneFrom(..) | Op::IntoSortedVec | Op::IntoAscVec | Op::Push(_)) {
            for k in 1..=kd.min(max_k) { plans.push((4, k)); }
            if kd > max_k { plans.push((4, kd)); plans.push((4, r.range(max_k, kd))); }
        }
        if matches!(op, Op::IterMut { forget: true, .. } | Op::Drain { forget: true, .. }) { plans.push((0, u64::MAX)); } // leak, no panic
        for (cmp, k) in plans {
            if sink.full() { break; }
            if !sink.case(kind) { continue; }
            sink.core_only = false;
            let live0 = LIVE.with(|l| l.get());
            let mut q = match build(sink) { Some(q) => q, None => continue };
            sink.core_only = true;
            let cop = if k == u64::MAX { op.clone() } else { Op::Crash { cmp, k, op: Box::new(op.clone()) } };
            let faulted = !sink.step(&mut q, &cop, Lookup::Owned);
            let mut wf = wf_of(&q);
            let st = catch_unwind(AssertUnwindSafe(|| q.snapshot_core())).unwrap_or_else(|_| "unreadable".into());
            sink.raw(&format!("#crash key {} faulted {} wf {} state {}", crash_key(kind, &op, cmp), faulted as u8, wf as u8, st));
            if wf {
                // continuations: fault-free and faulty operations, then drop
                let pf2 = Profile { weights: weights_with(&[("serde_rt", 1), ("deser", 1)]), ..pf.clone() };
                for j in 0..r.range(3, 10) {
                    let nop = gen_op(&mut r, &q, &pf2);
                    if matches!(nop, Op::IterMut { forget: true, .. } | Op::Drain { forget: true, .. }) { continue; }
                    let crash = j % 4 == 3;
                    let kq = q.kind();
                    let ck = if r.chance(1, 3) { 2u8 } else { 1u8 };
                    let nop2 = if crash { Op::Crash { cmp: ck, k: 1 + r.below(4), op: Box::new(nop.clone()) } } else { nop.clone() };
                    let ok = sink.step(&mut q, &nop2, Lookup::Owned);
                    wf = wf_of(&q);
                    if crash {
                        let st = catch_unwind(AssertUnwindSafe(|| q.snapshot_core())).unwrap_or_else(|_| "unreadable".into());
                        sink.raw(&format!("#crash key {} faulted {} wf {} state {}", crash_key(kq, &nop, ck), (!ok) as u8, wf as u8, st));
                    } else if !wf {
                        let st = catch_unwind(AssertUnwindSafe(|| q.snapshot_core())).unwrap_or_else(|_| "unreadable".into());
                        sink.raw(&format!("#broken-by-faultfree-op wf 0 state {}", st));
                    }
                    if !wf { break; }
                }
            }
            let leaked = matches!(op, Op::IterMut { forget: true, .. } | Op::Drain { forget: true, .. });
            let _ = catch_unwind(AssertUnwindSafe(move || drop(q)));
            let live1 = LIVE.with(|l| l.get());
            sink.raw(&format!("#end live_delta {} leaked_iterator {}", live1 - live0, leaked as u8));
            sink.core_only = false;
        }
    }
    TRACK.with(|t| t.set(false));
}


/// C10 mirror stream: a generated history followed by ONE operation with the k-th comparison (or callback) panicking;
/// the post-fault white-box state is compared with the Lean crash model (`PQ/Model/Crash.lean`) by the driver.
pub fn crash_mirror_stream<H: HX>(sink: &mut Sink, rng: &mut Rng, kinds: &[Kind], ncases: u64, max_k: u64, cont: u64) {
    for c in 0..ncases {
        if sink.full() { break; }
        let mut r = rng.fork(c);
        let kind = *r.pick(kinds);
        let pq = kind == Kind::Pq;
        let pf = Profile { universe: *r.pick(&[4u64, 8, 16, 40]), prio: *r.pick(&[PrioMode::Small(3), PrioMode::Small(20), PrioMode::Wide, PrioMode::Tagged(3)]), absent_pct: 5,
                           weights: weights_with(&[("serde_rt", 0), ("deser", 0), ("capacity", 0), ("clone", 0), ("eq", 0)]) };
        let n0 = *r.pick(&[0u64, 1, 2, 3, 5, 8, 12, 20, 40]);
        let xs0: Vec<E> = (0..n0).map(|k| (k, 0, gen_prio(&mut r, pf.prio))).collect();
        // build the prefix once (quietly) to learn the state, then replay it per fault point
        // (a third of the starting states are sparse: created with a generous capacity and filled by pushes)
        let mut prefix: Vec<Op> = if r.chance(1, 3) { vec![Op::Fresh(1, 64 + 8 * n0), Op::Extend { lo: 0, hi: None, xs: xs0 }] } else { vec![Op::FromVec(xs0)] };
        let mut q0: AnyQ<H> = AnyQ::new(kind);
        for p in &prefix { let _ = catch_unwind(AssertUnwindSafe(|| apply(&mut q0, p, Lookup::Owned))); }
        for _ in 0..r.below(6) {
            let op = gen_op(&mut r, &q0, &pf);
            if matches!(op, Op::IterMut { forget: true, .. } | Op::Drain { forget: true, .. } | Op::Convert) { continue; }
            let _ = catch_unwind(AssertUnwindSafe(|| apply(&mut q0, &op, Lookup::Owned)));
            prefix.push(op);
        }
        let len = q0.len() as u64;
        let present = present_keys(&q0);
        let anykey = |r: &mut Rng| if !present.is_empty() && r.chance(4, 5) { *r.pick(&present) } else { pf.universe + r.below(3) };
        let ext = |r: &mut Rng| *r.pick(&[i64::MAX, i64::MIN, 0, 1, 2]);
        let w = W { prio: Some(ext(&mut r)), payload: None };
        let big: Vec<E> = (0..r.range(25, 60)).map(|j| (if j % 3 == 0 { j % (len + 1) } else { 1000 + j }, 7, gen_prio(&mut r, pf.prio))).collect();
        let small: Vec<E> = (0..r.range(1, 5)).map(|j| (if j % 2 == 0 { anykey(&mut r) } else { 2000 + j }, 7, gen_prio(&mut r, pf.prio))).collect();
        let nb = big.len() as u64;
        let ns = small.len() as u64;
        let mut cands: Vec<Op> = vec![
            Op::Push((pf.universe + 50, 0, ext(&mut r))), Op::Push((anykey(&mut r), 0, ext(&mut r))),
            Op::PushIncrease((anykey(&mut r), 0, i64::MAX)), Op::PushDecrease((anykey(&mut r), 0, i64::MIN)),
            Op::ChangePriority(anykey(&mut r), ext(&mut r)), Op::ChangePriorityBy(anykey(&mut r), ext(&mut r)),
            Op::Remove(anykey(&mut r)),
            Op::RetainMut(present.iter().map(|k| Row { key: *k, keep: k % 3 != 0, w: W { prio: Some((*k as i64 * 7) % 5), payload: None } }).collect()),
            Op::IterMut { forget: false, late: false, prog: (0..len.min(6)).map(|j| (Call::F, W { prio: Some(100 - j as i64), payload: None })).collect() },
            Op::Extend { lo: nb, hi: Some(nb), xs: big.clone() }, Op::Extend { lo: 0, hi: None, xs: big.clone() },
            Op::Extend { lo: ns, hi: Some(ns), xs: small.clone() },
            Op::FromVec(big.clone()), Op::FromIter { lo: nb, hi: Some(nb), xs: big.clone() }, Op::Append(0, small.clone()), Op::Append(300, big.clone()),
            Op::CloneFrom(r.below(len + 1), small.clone()), Op::CloneFrom(len / 2, big.clone()), Op::CloneFrom(0, vec![]), Op::CloneSwap,
            Op::Clear,
        ];
        if pq {
            cands.extend([Op::Pop, Op::PopIf(0, w, true), Op::PopIf(0, w, false)]);
        } else {
            cands.extend([Op::PopMin, Op::PopMax, Op::PeekMax, Op::PopIf(1, w, true), Op::PopIf(1, w, false), Op::PopIf(2, w, true), Op::PopIf(2, w, false)]);
        }
        let op = r.pick(&cands).clone();
        let (kc, cbc, clc, drc) = {
            let mut q = q0.clone_q();
            let c0 = cmp_count();
            let b0 = CBCOUNT.with(|c| c.get());
            let l0 = CLCOUNT.with(|c| c.get());
            let d0 = DRCOUNT.with(|c| c.get());
            let _ = catch_unwind(AssertUnwindSafe(|| apply(&mut q, &op, Lookup::Owned)));
            (cmp_count() - c0, CBCOUNT.with(|c| c.get()) - b0, CLCOUNT.with(|c| c.get()) - l0, DRCOUNT.with(|c| c.get()) - d0)
        };
        drop(q0);
        // fault points: (fuse kind, ordinal) — the k-th comparison, and for the operations whose callbacks the model
        // covers (setter, pop_if predicates, source iterators) the k-th callback
        let mut ks: Vec<(u8, u64)> = (1..=kc.min(max_k)).map(|k| (1u8, k)).collect();
        if kc > max_k { ks.push((1, kc)); ks.push((1, r.range(max_k, kc))); }
        if matches!(op, Op::ChangePriorityBy(..) | Op::PopIf(..) | Op::Extend { .. } | Op::FromIter { .. }) {
            ks.extend((1..=cbc.min(max_k)).map(|k| (0u8, k)));
            if cbc > max_k { ks.push((0, cbc)); ks.push((0, r.range(max_k, cbc))); }
        }
        // `Clone` panics inside `clone()` / `clone_from()` (derived: the queue the caller holds afterwards is untouched)
        if matches!(op, Op::CloneSwap | Op::CloneFrom(..)) {
            ks = (1..=clc.min(max_k)).map(|k| (3u8, k)).collect();
            if clc > max_k { ks.push((3, clc)); ks.push((3, r.range(max_k, clc))); }
        }
        // a `Drop` of a stored item or priority panics inside `clear()` (the queue must be empty and usable afterwards: C16, F9)
        if matches!(op, Op::Clear) {
            ks = (1..=drc.min(max_k)).map(|k| (4u8, k)).collect();
            if drc > max_k { ks.push((4, drc)); ks.push((4, r.range(max_k, drc))); }
        }
        if cont > 0 && !ks.is_empty() {
            // post-crash histories: one or two fault points per case, then the surviving queue goes on being used
            let a = *r.pick(&ks);
            let b = *r.pick(&ks);
            ks = if a == b { vec![a] } else { vec![a, b] };
        }
        // what the surviving queue is used for: every class of operation, iterators (C13) and further faults more often
        let pf_cont = Profile { weights: weights_with(&[("serde_rt", 0), ("deser", 0), ("capacity", 0), ("clone", 0), ("eq", 0), ("convert", 0),
            ("sorted_iter", 60), ("sorted_vec", 30), ("iter", 40), ("into_iter", 30), ("drain", 20), ("len", 30), ("into_vec", 15)]), ..pf.clone() };
        for (fk, k) in ks {
            if sink.full() { break; }
            if !sink.case(kind) { continue; }
            let mut q: AnyQ<H> = AnyQ::new(kind);
            let mut ok = true;
            for p in &prefix {
                if !sink.step(&mut q, p, Lookup::Owned) { ok = false; break; }
            }
            if !ok { continue; }
            let mut alive = sink.step(&mut q, &Op::Crash { cmp: fk, k, op: Box::new(op.clone()) }, Lookup::Owned) || sink.survivable;
            let mut rc = r.fork(1000 + k + 500 * fk as u64);
            for _ in 0..cont {
                if !alive { break; }
                let mut o = gen_op(&mut rc, &q, &pf_cont);
                if matches!(o, Op::IterMut { forget: true, .. } | Op::Drain { forget: true, .. }) { continue; }
                // (the operations the crash model mirrors; `iter_mut` only with primitive calls, so not here)
                if rc.chance(1, 12) && matches!(o, Op::ChangePriorityBy(..) | Op::PopIf(..) | Op::Extend { .. } | Op::FromIter { .. }) {
                    o = Op::Crash { cmp: 0, k: rc.range(1, 4), op: Box::new(o) };
                } else if rc.chance(1, 6) && matches!(o, Op::Push(_) | Op::PushIncrease(_) | Op::PushDecrease(_) | Op::ChangePriority(..) | Op::ChangePriorityBy(..) | Op::Remove(_)
                    | Op::Pop | Op::PopMin | Op::PopMax | Op::PeekMax | Op::PopIf(..) | Op::RetainMut(_) | Op::Extend { .. } | Op::FromVec(_) | Op::FromIter { .. }) {
                    o = Op::Crash { cmp: 1, k: rc.range(1, 6), op: Box::new(o) };
                }
                alive = sink.step(&mut q, &o, Lookup::Owned) || sink.survivable;
            }
            let _ = catch_unwind(AssertUnwindSafe(move || drop(q)));
        }
    }
}
