//! Zero-sized items and priorities: `PriorityQueue<Z, ZP>` / `DoublePriorityQueue<Z, ZP>` driven through the same trace format
//! as every other stream (the single possible element is written `0 0 0`), so that the model mirrors it like any other case.
//! What this reaches that the `SItem`/`Pri` instantiation cannot: code whose behaviour depends on `size_of::<(I, P)>()`
//! (allocation budgets, capacity arithmetic), where a zero size is the classic forgotten case.
use crate::gen::Sink;
use crate::ops::Kind;
use crate::types::*;
use priority_queue::{DoublePriorityQueue, PriorityQueue};
use serde::{Deserialize, Serialize};
use std::cmp::Ordering;
use std::fmt::Write as _;
use std::panic::{catch_unwind, AssertUnwindSafe};

#[derive(Clone, Debug, PartialEq, Eq, Hash, Serialize, Deserialize, Default)]
pub struct Z;
#[derive(Clone, Debug, Serialize, Deserialize, Default)]
pub struct ZP;
impl PartialEq for ZP { fn eq(&self, _: &Self) -> bool { true } }
impl Eq for ZP {}
impl Ord for ZP {
    fn cmp(&self, _: &Self) -> Ordering {
        CMP.with(|c| c.set(c.get() + 1));
        Ordering::Equal
    }
}
impl PartialOrd for ZP { fn partial_cmp(&self, o: &Self) -> Option<Ordering> { Some(self.cmp(o)) } }

enum ZQ { Pq(PriorityQueue<Z, ZP>), Dpq(DoublePriorityQueue<Z, ZP>) }

macro_rules! zboth { ($q:expr, $x:ident => $e:expr) => { match $q { ZQ::Pq($x) => $e, ZQ::Dpq($x) => $e } }; }

fn opt(o: bool) -> &'static str { if o { "some 0 0 0" } else { "none" } }

impl ZQ {
    fn new(k: Kind) -> ZQ { match k { Kind::Pq => ZQ::Pq(PriorityQueue::new()), Kind::Dpq => ZQ::Dpq(DoublePriorityQueue::new()) } }
    fn kind(&self) -> Kind { match self { ZQ::Pq(_) => Kind::Pq, ZQ::Dpq(_) => Kind::Dpq } }
    fn snapshot(&self) -> String {
        let mut out = String::new();
        let (heap, qp, size, maplen) = zboth!(self, q => q.verif_snapshot());
        write!(out, "m {}", maplen).unwrap();
        for _ in 0..zboth!(self, q => q.iter().count()) { out.push_str(" 0 0 0"); }
        write!(out, " h {}", heap.len()).unwrap();
        for x in &heap { write!(out, " {}", x).unwrap(); }
        write!(out, " q {}", qp.len()).unwrap();
        for x in &qp { write!(out, " {}", x).unwrap(); }
        write!(out, " s {}", size).unwrap();
        let saved = CMP.with(|c| c.get());
        match self {
            ZQ::Pq(q) => write!(out, " pk {}", opt(q.peek().is_some())).unwrap(),
            ZQ::Dpq(q) => write!(out, " pk {} {}", opt(q.peek_min().is_some()), opt(q.peek_max().is_some())).unwrap(),
        }
        CMP.with(|c| c.set(saved));
        out
    }
}

fn pairs(n: u64) -> String { let mut s = format!("{}", n); for _ in 0..n { s.push_str(" 0 0 0"); } s }

/// one operation: (trace text, result text); `q` may be replaced (constructors, serde)
fn apply(q: &mut ZQ, op: u64, n: u64) -> (String, String) {
    let popt = |o: Option<ZP>| if o.is_some() { "some 0".to_string() } else { "none".to_string() };
    match op {
        0 => ("push 0 0 0".into(), popt(zboth!(q, x => x.push(Z, ZP)))),
        1 => ("push_increase 0 0 0".into(), popt(zboth!(q, x => x.push_increase(Z, ZP)))),
        2 => ("push_decrease 0 0 0".into(), popt(zboth!(q, x => x.push_decrease(Z, ZP)))),
        3 => ("change_priority 0 0".into(), popt(zboth!(q, x => x.change_priority(&Z, ZP)))),
        4 => ("remove 0".into(), opt(zboth!(q, x => x.remove(&Z)).is_some()).into()),
        5 => match q {
            ZQ::Pq(x) => ("pop".into(), opt(x.pop().is_some()).into()),
            ZQ::Dpq(x) => ("pop_min".into(), opt(x.pop_min().is_some()).into()),
        },
        6 => match q {
            ZQ::Pq(x) => ("pop".into(), opt(x.pop().is_some()).into()),
            ZQ::Dpq(x) => ("pop_max".into(), opt(x.pop_max().is_some()).into()),
        },
        7 => { zboth!(q, x => x.clear()); ("clear".into(), "unit".into()) }
        8 => {
            let v: Vec<(Z, ZP)> = (0..n).map(|_| (Z, ZP)).collect();
            *q = match q.kind() { Kind::Pq => ZQ::Pq(v.into()), Kind::Dpq => ZQ::Dpq(v.into()) };
            (format!("from_vec {}", pairs(n)), "unit".into())
        }
        9 => {
            let v: Vec<(Z, ZP)> = (0..n).map(|_| (Z, ZP)).collect();
            zboth!(q, x => x.extend(v));
            (format!("extend {} {} {}", n, n, pairs(n)), "unit".into())
        }
        10 => {
            let v: Vec<(Z, ZP)> = (0..n).map(|_| (Z, ZP)).collect();
            *q = match q.kind() { Kind::Pq => ZQ::Pq(v.into_iter().collect()), Kind::Dpq => ZQ::Dpq(v.into_iter().collect()) };
            (format!("from_iter {} {} {}", n, n, pairs(n)), "unit".into())
        }
        11 | 12 => {
            // serialize, then deserialize as the same (11) or the other (12) kind
            let text = zboth!(q, x => serde_json::to_string(&*x).unwrap());
            let k = if op == 11 { q.kind() } else { q.kind().other() };
            let r = match k {
                Kind::Pq => serde_json::from_str::<PriorityQueue<Z, ZP>>(&text).map(ZQ::Pq).map_err(|_| ()),
                Kind::Dpq => serde_json::from_str::<DoublePriorityQueue<Z, ZP>>(&text).map(ZQ::Dpq).map_err(|_| ()),
            };
            let res = match r { Ok(nq) => { *q = nq; "ok" } Err(_) => "err" };
            (format!("serde_rt {}", k.name()), res.into())
        }
        13 => {
            // a pair sequence from the outside: `[[null,null], ...]` (repeated item)
            let text = format!("[{}]", (0..n).map(|_| "[null,null]").collect::<Vec<_>>().join(","));
            let r = match q.kind() {
                Kind::Pq => serde_json::from_str::<PriorityQueue<Z, ZP>>(&text).map(ZQ::Pq).map_err(|_| ()),
                Kind::Dpq => serde_json::from_str::<DoublePriorityQueue<Z, ZP>>(&text).map(ZQ::Dpq).map_err(|_| ()),
            };
            let res = match r { Ok(nq) => { *q = nq; "ok" } Err(_) => "err" };
            (format!("deser {}", pairs(n)), res.into())
        }
        17 => {
            // the same pair sequence through a deserializer that ANNOUNCES a length (formats with a length prefix do; serde_json
            // never does): the pre-allocation arithmetic of `visit_seq` runs with zero-sized elements
            use serde::Deserialize;
            let hint = [0usize, n as usize, 5000, usize::MAX][(n % 4) as usize];
            let de = crate::ops::Announcing { vals: (0..n).map(|_| serde_json::json!([null, null])).collect(), hint };
            let r = match q.kind() {
                Kind::Pq => PriorityQueue::<Z, ZP>::deserialize(de).map(ZQ::Pq).map_err(|_| ()),
                Kind::Dpq => DoublePriorityQueue::<Z, ZP>::deserialize(de).map(ZQ::Dpq).map_err(|_| ()),
            };
            let res = match r { Ok(nq) => { *q = nq; "ok" } Err(_) => "err" };
            (format!("deser_hint {} {}", hint, pairs(n)), res.into())
        }
        14 => {
            zboth!(q, x => x.reserve(n as usize));
            let (cap, len) = (zboth!(q, x => x.capacity()) as u128, zboth!(q, x => x.len()) as u128);
            (format!("reserve {}", n), if cap >= len + n as u128 { "capok".into() } else { format!("capbad cap={} len={} requested={}", cap, len, n) })
        }
        15 => {
            zboth!(q, x => x.shrink_to_fit());
            let (cap, len) = (zboth!(q, x => x.capacity()), zboth!(q, x => x.len()));
            ("shrink_to_fit".into(), if cap >= len { "capok".into() } else { format!("capbad cap={} len={} requested=0", cap, len) })
        }
        _ => {
            let mut it = 0u64;
            zboth!(q, x => for (_, _) in x.iter_mut() { it += 1; });
            let mut s = format!("iter_mut drop {}", it + 1);
            let mut r = String::new();
            for _ in 0..it { s.push_str(" f 0 0 0 0"); r.push_str(" s some 0 0 0"); }
            s.push_str(" f 0 0 0 0"); r.push_str(" s none");
            (s, r)
        }
    }
}

pub fn zst_stream(sink: &mut Sink, rng: &mut Rng, ncases: u64) {
    for c in 0..ncases {
        if sink.full() { break; }
        let mut r = rng.fork(c);
        let kind = if c % 2 == 0 { Kind::Pq } else { Kind::Dpq };
        if !sink.case(kind) { continue; }
        let mut q = ZQ::new(kind);
        for step in 0..r.range(4, 14) {
            // the first cases walk through every operation in turn, the rest are random
            let op = if c < 36 { (c / 2 + step) % 18 } else { r.below(18) };
            let n = r.below(4);
            let c0 = cmp_count();
            let res = catch_unwind(AssertUnwindSafe(|| apply(&mut q, op, n)));
            match res {
                Ok((line, out)) => {
                    let dt = cmp_count() - c0;
                    let snap = q.snapshot();
                    // (iterator results carry their own leading blank, as in the other streams)
                    sink.raw(&format!("{} => {} | {} t {}", line, out, snap, dt));
                    sink.ops += 1;
                }
                Err(_) => {
                    sink.raw(&format!("zst_op_{} {} => fault other:panic_with_zero_sized_types | -", op, n));
                    break;
                }
            }
        }
    }
}
